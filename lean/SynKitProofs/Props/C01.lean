import SynKitModel.ITS
import SynKitModel.RsmiGraph
import SynKitProofs.ITSLemmasC01
import SynKitProofs.ImplicitHLemmas
/-!
# C01 — ITS construction and decomposition are mutually inverse, relabelling-equivariant, and
reversal swaps the (before, after) pairs

Property theorems only; helper lemmas live in `SynKitProofs/ITSLemmasC01.lean`.

Only the graph-level part of C01 is proved here (on the executable model `SynKitModel/ITS.lean` of
`ITSConstruction.construct` and `its_decompose`).  The RDKit-dependent part of C01 (ITS graph →
reaction SMILES and back) is *not* proved: it rests on the run-time correspondence between the
model and the implementation that the differential driver checks.  What *is* proved of that clause
is its SynKit-side graph part (last section of this file): the two graphs `its_to_rsmi` hands to
RDKit's SMILES writer are the original pair up to folding spectator hydrogens into counts
(`implicitH_preserves_totalH`, `implicitH_keeps`, `implicitH_keeps_preserved`,
`implicitHydrogen_keeps_free_hydrogen`, `implicitH_removes_only_H`,
`its_to_rsmi_graph_part`, `its_to_rsmi_totalH`, `its_to_rsmi_skeleton`).  The model of
`implicit_hydrogen` follows the F29 repair (draft fix 0022): a hydrogen without a non-hydrogen
neighbour is never removed.
-/
namespace SynKit.ITS
open SynKit SynKit.ITS.C01L

/-- A molecule graph as `rsmi_to_graph` produces it: simple graph, every atom carries element,
aromatic, hcount, charge, and its atom_map equals its node id (numbers are in half-units, hence
`2 * id`); every bond has a positive numeric order. -/
def MolWF (G : LGraph) : Prop :=
  G.WF ∧
  (∀ p ∈ G.nodes, (∀ k ∈ ["element", "aromatic", "hcount", "charge"], (p.2.get? k).isSome = true) ∧
      p.2.get? "atom_map" = some (.num (2 * (p.1 : Int)))) ∧
  (∀ e ∈ G.edges, ∃ h : Int, 0 < h ∧ e.2.2.get? "order" = some (.num h))

/-- Both sides of the reaction have the same atoms. -/
def SameNodes (G H : LGraph) : Prop := ∀ n, n ∈ G.ids ↔ n ∈ H.ids

/-- `≈`: equality of the node→label and edge→order finite maps on
(element, aromatic, hcount, charge, atom_map), irrespective of list order. -/
def MolEq (A B : LGraph) : Prop :=
  (∀ n, n ∈ A.ids ↔ n ∈ B.ids) ∧
  (∀ n ∈ A.ids, ∀ k ∈ molKeys, (A.attrs n).get k = (B.attrs n).get k) ∧
  (∀ u v, (A.edge? u v).map (·.get "order") = (B.edge? u v).map (·.get "order"))

/-- A well-formed ITS graph (the domain on which `its_decompose` does not raise and
`construct ∘ decompose` can be the identity): simple graph; every node has a `typesGH` pair of
tuples with at least four entries each; every edge has an `order` pair of non-negative numbers,
not both zero, and their difference as `standard_order`. -/
def ITSWF (I : LGraph) : Prop :=
  I.WF ∧
  (∀ p ∈ I.nodes, ∃ g h : List Val,
    p.2.get? "typesGH" = some (.tup [.tup g, .tup h]) ∧ 4 ≤ g.length ∧ 4 ≤ h.length) ∧
  (∀ e ∈ I.edges, ∃ a b : Int,
    e.2.2.get? "order" = some (.tup [.num a, .num b]) ∧ 0 ≤ a ∧ 0 ≤ b ∧ ¬(a = 0 ∧ b = 0) ∧
      e.2.2.get? "standard_order" = some (.num (a - b)))

/-- Equality of ITS graphs as labelled graphs, irrespective of list order: same atoms; on every
atom the first four entries (element, aromatic, hcount, charge) of both halves of `typesGH` agree
(`its_decompose` drops the fifth entry `neighbors`, so it cannot be recovered); same bonds with
equal `order` and `standard_order`. -/
def ItsEq (A B : LGraph) : Prop :=
  (∀ n, n ∈ A.ids ↔ n ∈ B.ids) ∧
  (∀ n ∈ A.ids, ∀ i < 4,
    idx (idx ((A.attrs n).get "typesGH") 0) i = idx (idx ((B.attrs n).get "typesGH") 0) i ∧
    idx (idx ((A.attrs n).get "typesGH") 1) i = idx (idx ((B.attrs n).get "typesGH") 1) i) ∧
  (∀ u v, (A.edge? u v).map (fun a => (a.get "order", a.get "standard_order")) =
    (B.edge? u v).map (fun a => (a.get "order", a.get "standard_order")))

/-! ## Clause (1): nodes of the ITS graph -/

/-- **C01 (1a).** The atoms of the ITS graph are exactly the union of the atoms of `G` and `H`. -/
theorem construct_nodes (o : Opts) (G H : LGraph) (n : Nat) :
    n ∈ (construct o G H).ids ↔ n ∈ G.ids ∨ n ∈ H.ids := construct_mem_ids o G H n

/-- **C01 (1b).** No atom appears twice. -/
theorem construct_ids_nodup (o : Opts) (G H : LGraph) (hG : G.WF) (hH : H.WF) :
    (construct o G H).ids.Nodup := construct_nodup o G H hG.1 hH.1

/-- **C01 (1c).** Every atom of the ITS graph carries as `typesGH` the pair of the `G`-side and
`H`-side tuples (element, aromatic, hcount, charge, neighbors), with the defaults on a side that
lacks the atom.  (Holds without well-formedness hypotheses.) -/
theorem construct_typesGH (o : Opts) (G H : LGraph) (n : Nat) (h : n ∈ (construct o G H).ids) :
    ((construct o G H).attrs n).get "typesGH" = .tup [.tup (sideTuple G n), .tup (sideTuple H n)] := by
  rw [get_def, construct_typesGH' o G H n h]; rfl

/-! ## Clause (2): edges of the ITS graph -/

/-- **C01 (2a).** The bonds of the ITS graph are exactly the union of the bonds of `G` and `H`
(as unordered pairs), each carrying the (before, after) pair of orders — `0` for a side that
lacks the bond — and the standard order computed from them.  (Holds without well-formedness
hypotheses: the lookup predicate is symmetric.) -/
theorem construct_edges (o : Opts) (G H : LGraph) (u v : Nat) :
    (construct o G H).edge? u v =
      if G.hasEdge u v || H.hasEdge u v
      then some (itsEdgeAttrs o.ignoreArom (orderOf G u v) (orderOf H u v)) else none :=
  construct_edge? o G H u v

/-- **C01 (2b).** The `order` entry of an ITS bond is the (before, after) pair. -/
theorem construct_order (ia : Bool) (og oh : Val) :
    (itsEdgeAttrs ia og oh).get "order" = .tup [og, oh] := itsEdgeAttrs_order ia og oh

/-- **C01 (2c).** Without `ignore_aromaticity` the `standard_order` entry of an ITS bond with
numeric orders `a` (before) and `b` (after) is the difference `a - b`. -/
theorem construct_standard_order (o : Opts) (G H : LGraph) (u v : Nat) (a b : Int)
    (hia : o.ignoreArom = false) (ha : orderOf G u v = .num a) (hb : orderOf H u v = .num b) :
    (itsEdgeAttrs o.ignoreArom (orderOf G u v) (orderOf H u v)).get "standard_order" = .num (a - b) := by
  rw [itsEdgeAttrs_std, hia, ha, hb, standardOrder_num_false]

/-- **C01 (2d).** The ITS graph of two simple graphs is a simple graph: ids distinct, every bond
joins two distinct present atoms, no parallel bonds. -/
theorem construct_wf (o : Opts) (G H : LGraph) (hG : G.WF) (hH : H.WF) : (construct o G H).WF :=
  construct_wf' o G H hG hH

/-! ## Clause (3): decomposing a constructed ITS graph gives back the two sides -/

/-- **C01 (3).** For two molecule graphs on the same atoms, `its_decompose` of the constructed ITS
graph returns graphs equal to `G` and `H` as labelled graphs (`MolEq`: same atoms with the same
element, aromatic, hcount, charge, atom_map; same bonds with the same order). -/
theorem decompose_construct (o : Opts) (G H : LGraph) (hs : SameNodes G H) (hG : MolWF G)
    (hH : MolWF H) :
    MolEq (decompose (construct o G H)).1 G ∧ MolEq (decompose (construct o G H)).2 H :=
  ⟨decompose_side o G H G _ (decompose_construct_nodes1 o G H hG.1 hH.1)
      (decompose_construct_edges1 o G H)
      (fun n => ⟨fun h => h.elim id (hs n).2, Or.inl⟩) hG.2.1 hG.2.2 (fun _ _ => Or.inl),
    decompose_side o G H H _ (decompose_construct_nodes2 o G H hG.1 hH.1)
      (decompose_construct_edges2 o G H)
      (fun n => ⟨fun h => h.elim (hs n).1 id, Or.inr⟩) hH.2.1 hH.2.2 (fun _ _ => Or.inr)⟩

/-! ## Clause (4): constructing from a decomposed ITS graph gives the ITS graph back -/

/-- **C01 (4).** For a well-formed ITS graph `I`, `construct` (default options) applied to the two
graphs `its_decompose` returns is equal to `I` as a labelled graph (`ItsEq`; the `neighbors`
entry of `typesGH`, which `its_decompose` drops, is not compared). -/
theorem construct_decompose (I : LGraph) (hI : ITSWF I) :
    ItsEq (construct {} (decompose I).1 (decompose I).2) I :=
  construct_decompose' I hI.1 hI.2.1 hI.2.2

/-! ## Clause (5): relabelling -/

/-- **C01 (5).** The construction commutes with every injective renaming of the atoms, as a
literal equality of graphs (list order included). -/
theorem construct_relabel (o : Opts) (G H : LGraph) (π : Nat → Nat) (hπ : Function.Injective π) :
    construct o (G.relabel π) (H.relabel π) = (construct o G H).relabel π :=
  construct_relabel' hπ o G H

/-! ## Clause (6): reversal -/

/-- **C01 (6a).** The reversed reaction has the same atoms. -/
theorem construct_swap_nodes (o : Opts) (G H : LGraph) (n : Nat) :
    n ∈ (construct o H G).ids ↔ n ∈ (construct o G H).ids := by
  rw [construct_nodes, construct_nodes, Or.comm]

/-- **C01 (6b).** The reversed reaction has the swapped `typesGH` pair on every atom. -/
theorem construct_swap_typesGH (o : Opts) (G H : LGraph) (n : Nat) (h : n ∈ (construct o G H).ids) :
    ∃ g h', ((construct o G H).attrs n).get "typesGH" = .tup [g, h'] ∧
      ((construct o H G).attrs n).get "typesGH" = .tup [h', g] :=
  ⟨_, _, construct_typesGH o G H n h,
    construct_typesGH o H G n ((construct_swap_nodes o H G n).1 h)⟩

/-- **C01 (6c).** The reversed reaction has the same bonds, each with the swapped order pair. -/
theorem construct_swap_edges (o : Opts) (G H : LGraph) (u v : Nat) :
    (construct o H G).edge? u v =
      if G.hasEdge u v || H.hasEdge u v
      then some (itsEdgeAttrs o.ignoreArom (orderOf H u v) (orderOf G u v)) else none := by
  rw [construct_edges, Bool.or_comm]

/-- **C01 (6d).** Swapping numeric before/after orders negates the standard order. -/
theorem construct_swap_standard_order (ia : Bool) (a b : Int) :
    (itsEdgeAttrs ia (.num b) (.num a)).get "standard_order" =
      vneg ((itsEdgeAttrs ia (.num a) (.num b)).get "standard_order") := by
  rw [itsEdgeAttrs_std, itsEdgeAttrs_std, standardOrder_swap]

/-- **C01 (6e).** Summary for molecule graphs: the ITS graph of the reversed reaction has, on
every unordered pair, the swapped `order` pair and the negated `standard_order`. -/
theorem construct_swap (o : Opts) (G H : LGraph) (hG : MolWF G) (hH : MolWF H) (u v : Nat) :
    ((construct o H G).edge? u v).map (fun x => (x.get "order", x.get "standard_order")) =
      ((construct o G H).edge? u v).map
        (fun x => (vswap (x.get "order"), vneg (x.get "standard_order"))) :=
  construct_swap' o G H hG.2.2 hH.2.2 u v

/-! ## The collected graph-level statement -/

/-- The graph-level content of C01, clauses (1)–(6), at full strength. -/
def C01.GraphStatement : Prop :=
  (∀ (o : Opts) (G H : LGraph),
    -- (1) atoms: the union, without repetition, each with the pair of per-side tuples
    (∀ n, n ∈ (construct o G H).ids ↔ n ∈ G.ids ∨ n ∈ H.ids) ∧
    (G.WF → H.WF → (construct o G H).WF) ∧
    (∀ n ∈ (construct o G H).ids, ((construct o G H).attrs n).get "typesGH" =
      .tup [.tup (sideTuple G n), .tup (sideTuple H n)]) ∧
    -- (2) bonds: the union, each with the (before, after) pair and the difference
    (∀ u v, (construct o G H).edge? u v =
      if G.hasEdge u v || H.hasEdge u v
      then some (itsEdgeAttrs o.ignoreArom (orderOf G u v) (orderOf H u v)) else none) ∧
    (∀ og oh, (itsEdgeAttrs o.ignoreArom og oh).get "order" = .tup [og, oh]) ∧
    (o.ignoreArom = false → ∀ u v a b, orderOf G u v = .num a → orderOf H u v = .num b →
      (itsEdgeAttrs o.ignoreArom (orderOf G u v) (orderOf H u v)).get "standard_order" = .num (a - b)) ∧
    -- (3) decompose ∘ construct
    (SameNodes G H → MolWF G → MolWF H →
      MolEq (decompose (construct o G H)).1 G ∧ MolEq (decompose (construct o G H)).2 H) ∧
    -- (5) relabelling
    (∀ π : Nat → Nat, Function.Injective π →
      construct o (G.relabel π) (H.relabel π) = (construct o G H).relabel π) ∧
    -- (6) reversal
    (∀ n, n ∈ (construct o H G).ids ↔ n ∈ (construct o G H).ids) ∧
    (∀ n ∈ (construct o G H).ids, ∃ g h, ((construct o G H).attrs n).get "typesGH" = .tup [g, h] ∧
      ((construct o H G).attrs n).get "typesGH" = .tup [h, g]) ∧
    (MolWF G → MolWF H → ∀ u v,
      ((construct o H G).edge? u v).map (fun x => (x.get "order", x.get "standard_order")) =
        ((construct o G H).edge? u v).map
          (fun x => (vswap (x.get "order"), vneg (x.get "standard_order"))))) ∧
  -- (4) construct ∘ decompose
  (∀ I : LGraph, ITSWF I → ItsEq (construct {} (decompose I).1 (decompose I).2) I)

/-- **C01, graph-level part.** All of the clauses hold. -/
theorem C01.graphStatement_holds : C01.GraphStatement :=
  ⟨fun o G H =>
    ⟨construct_nodes o G H, construct_wf o G H, construct_typesGH o G H, construct_edges o G H,
      construct_order o.ignoreArom,
      fun hia u v a b ha hb => construct_standard_order o G H u v a b hia ha hb,
      decompose_construct o G H, construct_relabel o G H, construct_swap_nodes o G H,
      construct_swap_typesGH o G H, construct_swap o G H⟩,
   construct_decompose⟩

/-! ## Non-vacuity: a three-atom reaction, bond 1–2 broken and bond 2–3 formed -/

namespace C01Example

def atom (el : String) (n : Nat) : Nat × Attrs :=
  (n, [("element", .str el), ("aromatic", .bool false), ("hcount", .num 0), ("charge", .num 0),
       ("atom_map", .num (2 * (n : Int)))])

/-- `[C:1][O:2].[N:3]` -/
def G : LGraph := { nodes := [atom "C" 1, atom "O" 2, atom "N" 3], edges := [(1, 2, [("order", .num 2)])] }
/-- `[C:1].[O:2][N:3]` -/
def H : LGraph := { nodes := [atom "C" 1, atom "O" 2, atom "N" 3], edges := [(2, 3, [("order", .num 2)])] }

example : MolWF G :=
  ⟨by decide, by decide, fun e he => by
    simp only [G, List.mem_singleton] at he; subst he; exact ⟨2, by decide, rfl⟩⟩

example : MolWF H :=
  ⟨by decide, by decide, fun e he => by
    simp only [H, List.mem_singleton] at he; subst he; exact ⟨2, by decide, rfl⟩⟩

example : SameNodes G H := fun _ => Iff.rfl

/-- The ITS graph has the three atoms and the two bonds, with pairs (1, 0) and (0, 1) (in
half-units: 2 and 0) and standard orders +1 and −1. -/
example : (construct {} G H).ids = [1, 2, 3] := by decide

example : (construct {} G H).edges.map (fun e => (e.1, e.2.1, e.2.2.get "order", e.2.2.get "standard_order")) =
    [(1, 2, .tup [.num 2, .num 0], .num 2), (2, 3, .tup [.num 0, .num 2], .num (-2))] := by decide

example : ((construct {} G H).attrs 2).get "typesGH" =
    .tup [.tup [.str "O", .bool false, .num 0, .num 0, .tup [.str "", .str ""]],
          .tup [.str "O", .bool false, .num 0, .num 0, .tup [.str "", .str ""]]] := by decide

/-- Decomposition gives the two sides back. -/
example : decompose (construct {} G H) = (G, H) := by decide

/-- The constructed ITS graph is in the domain of clause (4). -/
example : ITSWF (construct {} G H) :=
  ⟨by decide,
   fun p hp => by
    simp only [construct_nodes_eq, List.mem_map] at hp
    obtain ⟨q, _, rfl⟩ := hp
    exact ⟨_, _, nodeAttrs_typesGH _ _ _ _ _, by simp [sideTuple, typesKeys], by simp [sideTuple, typesKeys]⟩,
   fun e he => by
    have h : (construct {} G H).edges =
        [(1, 2, itsEdgeAttrs false (.num 2) (.num 0)), (2, 3, itsEdgeAttrs false (.num 0) (.num 2))] := by
      decide
    rw [h] at he
    simp only [List.mem_cons, List.not_mem_nil, or_false] at he
    rcases he with rfl | rfl
    · exact ⟨2, 0, rfl, by decide, by decide, by decide, rfl⟩
    · exact ⟨0, 2, rfl, by decide, by decide, by decide, rfl⟩⟩

/-- Reversal on the example: swapped pairs, negated standard orders. -/
example : (construct {} H G).edges.map (fun e => (e.1, e.2.1, e.2.2.get "order", e.2.2.get "standard_order")) =
    [(2, 3, .tup [.num 2, .num 0], .num 2), (1, 2, .tup [.num 0, .num 2], .num (-2))] := by decide

/-- Relabelling on the example (`n ↦ n + 10`). -/
example : construct {} (G.relabel (· + 10)) (H.relabel (· + 10)) = (construct {} G H).relabel (· + 10) := by
  decide

/-- Unbalanced sides: an atom present only in the product gets the default tuple on the reactant side. -/
example : ((construct {} { nodes := [atom "C" 1] } { nodes := [atom "C" 1, atom "O" 2] }).attrs 2).get "typesGH" =
    .tup [.tup [.str "*", .bool false, .num 0, .num 0, .tup [.str "", .str ""]],
          .tup [.str "O", .bool false, .num 0, .num 0, .tup [.str "", .str ""]]] := by decide

end C01Example

/-! ## RDKit clause, graph part: what `its_to_rsmi` hands to the SMILES writer

`its_to_rsmi(its)` is `r, p = its_decompose(its)` followed by `graph_to_rsmi(r, p, its)`, which
(for `explicit_hydrogen=False`) computes `rc = get_rc(its)`, the list
`[d["atom_map"] for _, d in rc.nodes(data=True) if d.get("element") == "H"]` of the hydrogens of the
reaction centre, and calls `graph_to_smi(side, preserve_atom_maps=that list)` on both sides;
`graph_to_smi` applies `implicit_hydrogen(side, set(list))` when the list is non-empty (and nothing
when it is empty) and passes the result to `GraphToMol` / RDKit.  `implicit_hydrogen` is modelled by
`SynKit.Repr.implicitHydrogen` (tied to the implementation by the C10 correspondence check); the
glue itself is modelled in `SynKitModel/RsmiGraph.lean` (tied to the implementation by the C01
`rsmi-graphs` correspondence stream).
Everything after that point is RDKit and is not modelled. -/

section RsmiGraphPart
open SynKit.Repr SynKit.Repr.ImplH

/-! The three definitions the theorems below are about — `rcHydrogenMaps I` (the
`preserve_atom_maps` list), `smiGraph g keep` (the graph `graph_to_smi` passes to `GraphToMol`),
`rsmiGraphs I` (the pair `its_to_rsmi` hands to the SMILES writer) — are executable model
definitions in `SynKitModel/RsmiGraph.lean`; the driver runs them (`its.rsmiGraphs`,
`its.smiGraph`) and the C01 harness compares them with what the real `its_to_rsmi` passes to
`implicit_hydrogen` / `GraphToMol.graph_to_mol` on every run. -/

/-- **C01, RDKit clause, graph part (1): `implicit_hydrogen` keeps the total hydrogen count.**
`G` a simple graph; guard `FoldGuard G keep`: every hydrogen node that is *removed* — not preserved
(`element == "H"` and `atom_map ∉ keep`) and with at least one heavy neighbour — carries no
hydrogen count of its own and has exactly one heavy neighbour.  Hydrogens without heavy neighbour
(free H, H+, H-, H2) need no guard since the F29 repair: they stay.  (No typing guard is needed:
`HTyped` of C10 is not used.  C10's `HValence` implies the guard, see `foldGuard_of_HValence`.) -/
theorem implicitH_preserves_totalH (G : LGraph) (keep : List Nat) (hwf : G.WF)
    (hg : FoldGuard G keep) : totalH (implicitHydrogen G keep) = totalH G :=
  totalH_implicitH G hwf keep hg

/-- (1) under the guard as it had to be stated before the F29 repair (every non-preserved
hydrogen, free or not, has exactly one heavy neighbour): a corollary of the statement above. -/
theorem implicitH_preserves_totalH_of_strict (G : LGraph) (keep : List Nat) (hwf : G.WF)
    (hg : FoldGuardStrict G keep) : totalH (implicitHydrogen G keep) = totalH G :=
  implicitH_preserves_totalH G keep hwf (foldGuard_of_strict G keep hg)

/-- Relation to the C10 guard: `HValence` (every hydrogen node carries no count and has at most one
heavy neighbour) gives `FoldGuard` for every `keep` list.  (Before the F29 repair this needed the
extra hypothesis that no removed hydrogen is free-standing or bonded to hydrogens only.) -/
theorem foldGuard_of_HValence (G : LGraph) (keep : List Nat) (hv : HValence G) :
    FoldGuard G keep := foldGuard_of_hValence G keep hv

/-- (1) under C10's guard alone: for every `keep` list. -/
theorem implicitH_preserves_totalH_of_HValence (G : LGraph) (keep : List Nat) (hwf : G.WF)
    (hv : HValence G) : totalH (implicitHydrogen G keep) = totalH G :=
  implicitH_preserves_totalH G keep hwf (foldGuard_of_HValence G keep hv)

/-- The nodes `implicit_hydrogen(G, keep)` does not remove: heavy atoms, preserved hydrogens, and
nodes without a heavy neighbour (free hydrogens, the atoms of H2). -/
def KeptBy (G : LGraph) (keep : List Nat) (n : Nat) : Prop :=
  isH (G.attrs n) = false ∨ keepsH keep (G.attrs n) = true ∨ hasHeavyNbr G n = false

instance (G : LGraph) (keep : List Nat) (n : Nat) : Decidable (KeptBy G keep n) := by
  unfold KeptBy; infer_instance

/-- **C01, RDKit clause, graph part (2), general form: what `implicit_hydrogen` keeps.**  Every
heavy atom, every preserved hydrogen and every hydrogen without heavy neighbour of `G` is a node of
the result; all its attributes other than `hcount` (in particular `element`, `charge`, `atom_map`,
`aromatic`) are unchanged, a hydrogen keeps its whole attribute dict; every bond between two such
nodes (heavy–heavy, heavy–kept hydrogen, kept–kept, in particular the bond of an H2 molecule) is
still there with its whole attribute dict, in particular its `order`. -/
theorem implicitH_keeps (G : LGraph) (keep : List Nat) (hwf : G.WF) :
    (∀ p ∈ G.nodes, KeptBy G keep p.1 →
      p.1 ∈ (implicitHydrogen G keep).ids ∧
      (∀ k, k ≠ "hcount" → Dict.get? ((implicitHydrogen G keep).attrs p.1) k = Dict.get? p.2 k) ∧
      (isH p.2 = true → (implicitHydrogen G keep).attrs p.1 = p.2)) ∧
    (∀ u v, KeptBy G keep u → KeptBy G keep v →
      (implicitHydrogen G keep).edge? u v = G.edge? u v) := by
  refine ⟨?_, ?_⟩
  · intro p hp hst
    have hattr := attrs_eq_of_mem G hwf.1 p hp
    have hid : p.1 ∈ G.ids := List.mem_map.2 ⟨p, hp, rfl⟩
    have hmem : p.1 ∈ (implicitHydrogen G keep).ids :=
      (mem_implicitH_ids G hwf.1 keep p.1).2 ⟨hid, (stays_iff G hwf.1 keep p.1).2 hst⟩
    refine ⟨hmem, ?_, ?_⟩
    · intro k hk
      rw [implicitH_get?_other G hwf.1 keep p.1 hmem k hk, hattr]
    · intro hH
      rw [implicitH_attrs_H G hwf.1 keep p.1 hmem (by rw [hattr]; exact hH), hattr]
  · intro u v hu hv
    rw [implicitH_edge? G hwf.1 keep u v, (stays_iff G hwf.1 keep u).2 hu, (stays_iff G hwf.1 keep v).2 hv]
    rfl

/-- **C01, RDKit clause, graph part (2): what `implicit_hydrogen` keeps** (heavy atoms and
preserved hydrogens; the statement as it stood before the F29 repair, now a corollary of
`implicitH_keeps`).  Every heavy atom and every preserved hydrogen of `G` is a node of the result;
all its attributes other than `hcount` are unchanged, a preserved hydrogen keeps its whole
attribute dict; every bond between two such nodes is still there with its whole attribute dict. -/
theorem implicitH_keeps_preserved (G : LGraph) (keep : List Nat) (hwf : G.WF) :
    (∀ p ∈ G.nodes, (isH p.2 = false ∨ keepsH keep p.2 = true) →
      p.1 ∈ (implicitHydrogen G keep).ids ∧
      (∀ k, k ≠ "hcount" → Dict.get? ((implicitHydrogen G keep).attrs p.1) k = Dict.get? p.2 k) ∧
      (isH p.2 = true → (implicitHydrogen G keep).attrs p.1 = p.2)) ∧
    (∀ u v, (isH (G.attrs u) = false ∨ keepsH keep (G.attrs u) = true) →
      (isH (G.attrs v) = false ∨ keepsH keep (G.attrs v) = true) →
      (implicitHydrogen G keep).edge? u v = G.edge? u v) := by
  have h := implicitH_keeps G keep hwf
  have lift : ∀ n, (isH (G.attrs n) = false ∨ keepsH keep (G.attrs n) = true) → KeptBy G keep n :=
    fun n hn => hn.elim Or.inl (fun h' => Or.inr (Or.inl h'))
  refine ⟨fun p hp hst => h.1 p hp (lift p.1 ?_), fun u v hu hv => h.2 u v (lift u hu) (lift v hv)⟩
  rw [attrs_eq_of_mem G hwf.1 p hp]; exact hst

/-- **C01, RDKit clause, graph part (2'): the repaired behaviour (F29).**  For *every* `keep`
list: a hydrogen node of `G` without a non-hydrogen neighbour (free H, H+, H-, an atom of H2) is a
node of `implicit_hydrogen(G, keep)` with its whole attribute dict unchanged (element, charge,
atom map, count, …); and a bond between two such hydrogens (H–H) is still there with its whole
attribute dict.  No hypothesis on `keep`, on counts or on valences. -/
theorem implicitHydrogen_keeps_free_hydrogen (G : LGraph) (keep : List Nat) (hwf : G.WF) :
    (∀ p ∈ G.nodes, isH p.2 = true → hasHeavyNbr G p.1 = false →
      p.1 ∈ (implicitHydrogen G keep).ids ∧ (implicitHydrogen G keep).attrs p.1 = p.2) ∧
    (∀ u v, hasHeavyNbr G u = false → hasHeavyNbr G v = false →
      (implicitHydrogen G keep).edge? u v = G.edge? u v) := by
  have h := implicitH_keeps G keep hwf
  refine ⟨fun p hp hH hf => ?_, fun u v hu hv => h.2 u v (Or.inr (Or.inr hu)) (Or.inr (Or.inr hv))⟩
  obtain ⟨hmem, _, hattr⟩ := h.1 p hp (Or.inr (Or.inr hf))
  exact ⟨hmem, hattr hH⟩

/-- **C01, RDKit clause, graph part (3): what `implicit_hydrogen` removes.**  (a) no node is
added; (b) a removed node is a hydrogen that is not preserved and has at least one heavy
neighbour; (c) every heavy atom's count goes up by exactly the number of its removed neighbours
(each removed hydrogen is folded into the count of its heavy neighbours); (d) the only bonds lost
are those at removed nodes, no bond is created or altered. -/
theorem implicitH_removes_only_H (G : LGraph) (keep : List Nat) (hwf : G.WF) :
    (∀ n, n ∈ (implicitHydrogen G keep).ids → n ∈ G.ids) ∧
    (∀ n ∈ G.ids, n ∉ (implicitHydrogen G keep).ids →
      isH (G.attrs n) = true ∧ keepsH keep (G.attrs n) = false ∧ hasHeavyNbr G n = true) ∧
    (∀ n ∈ G.ids, isH (G.attrs n) = false →
      hcnt ((implicitHydrogen G keep).attrs n) =
        hcnt (G.attrs n) +
          (((G.neighbors n).filter fun m => !((implicitHydrogen G keep).hasNode m)).length : Nat)) ∧
    (∀ u v, (implicitHydrogen G keep).edge? u v =
      if (implicitHydrogen G keep).hasNode u && (implicitHydrogen G keep).hasNode v
      then G.edge? u v else none) := by
  refine ⟨fun n h => ((mem_implicitH_ids G hwf.1 keep n).1 h).1, ?_,
    fun n hn hH => implicitH_hcnt_heavy G hwf keep n hn hH, ?_⟩
  · intro n hn hnot
    have hst : ¬ stays G keep n = true := fun h => hnot ((mem_implicitH_ids G hwf.1 keep n).2 ⟨hn, h⟩)
    exact (not_stays_iff G hwf.1 keep n).1 hst
  · intro u v
    rw [implicitH_edge? G hwf.1 keep u v]
    by_cases hu : u ∈ G.ids
    · by_cases hv : v ∈ G.ids
      · rw [hasNode_implicitH G hwf.1 keep u hu, hasNode_implicitH G hwf.1 keep v hv]
      · have h0 := edge?_none_of_not_mem G hwf u v (Or.inr hv)
        rw [h0]; simp
    · have h0 := edge?_none_of_not_mem G hwf u v (Or.inl hu)
      rw [h0]; simp

/-- `MolEq` is the relation `SameMol` of the lemma file. -/
theorem molEq_iff_sameMol (A B : LGraph) : MolEq A B ↔ SameMol A B := Iff.rfl

/-- `graph_to_smi`'s graph step respects equality of labelled graphs (on simple graphs). -/
theorem smiGraph_congr (A B : LGraph) (h : MolEq A B) (hA : A.WF) (hB : B.WF) (keep : List Nat) :
    MolEq (smiGraph A keep) (smiGraph B keep) := by
  unfold smiGraph
  split
  · exact h
  · exact implicitH_congr A B h hA hB keep

/-- **C01, RDKit clause, graph part (4).**  For two molecule graphs on the same atoms (C01's
hypotheses), `I := construct o G H` and `keep :=` the atom maps of the hydrogens of `get_rc(I)`: the
two graphs `its_to_rsmi(I)` hands to the SMILES writer — `implicit_hydrogen` (or nothing, if
`keep` is empty) applied to the two graphs `its_decompose(I)` returns — are, as labelled graphs,
`implicit_hydrogen` (or nothing) applied to the original `G` and `H`.  So RDKit receives the
original pair up to folding the spectator hydrogens into counts; what the folding keeps and
removes is (1)–(3) above, spelled out for this pair in `its_to_rsmi_totalH` and
`its_to_rsmi_skeleton`. -/
theorem its_to_rsmi_graph_part (o : Opts) (G H : LGraph) (hs : SameNodes G H) (hG : MolWF G)
    (hH : MolWF H) :
    MolEq (rsmiGraphs (construct o G H)).1 (smiGraph G (rcHydrogenMaps (construct o G H))) ∧
    MolEq (rsmiGraphs (construct o G H)).2 (smiGraph H (rcHydrogenMaps (construct o G H))) := by
  have hdc := decompose_construct o G H hs hG hH
  have hwf := decompose_construct_wf o G H hG.1 hH.1
  exact ⟨smiGraph_congr _ _ hdc.1 hwf.1 hG.1 _, smiGraph_congr _ _ hdc.2 hwf.2 hH.1 _⟩

theorem totalH_smiGraph (g : LGraph) (keep : List Nat) (hwf : g.WF)
    (hg : keep ≠ [] → FoldGuard g keep) : totalH (smiGraph g keep) = totalH g := by
  unfold smiGraph
  split
  · rfl
  · rename_i hk
    exact totalH_implicitH g hwf keep (hg (by intro h; apply hk; simp [h]))

theorem smiGraph_ids_nodup (g : LGraph) (keep : List Nat) (hn : g.ids.Nodup) :
    (smiGraph g keep).ids.Nodup := by
  unfold smiGraph
  split
  · exact hn
  · exact implicitH_ids_nodup g hn keep

/-- **C01, RDKit clause, graph part (4), hydrogen total.**  Under C01's hypotheses and the guard
of (1) on the original sides (needed only when the reaction centre contains a hydrogen, since
otherwise nothing is folded; since the F29 repair it constrains only the hydrogens that have a
heavy neighbour), each graph handed to the SMILES writer has as many hydrogens (counts + explicit
nodes) as the original side. -/
theorem its_to_rsmi_totalH (o : Opts) (G H : LGraph) (hs : SameNodes G H) (hG : MolWF G)
    (hH : MolWF H)
    (hgG : rcHydrogenMaps (construct o G H) ≠ [] → FoldGuard G (rcHydrogenMaps (construct o G H)))
    (hgH : rcHydrogenMaps (construct o G H) ≠ [] → FoldGuard H (rcHydrogenMaps (construct o G H))) :
    totalH (rsmiGraphs (construct o G H)).1 = totalH G ∧
    totalH (rsmiGraphs (construct o G H)).2 = totalH H := by
  have h := its_to_rsmi_graph_part o G H hs hG hH
  have hwf := decompose_construct_wf o G H hG.1 hH.1
  constructor
  · rw [totalH_congr _ _ h.1 (smiGraph_ids_nodup _ _ hwf.1.1) (smiGraph_ids_nodup _ _ hG.1.1)]
    exact totalH_smiGraph G _ hG.1 hgG
  · rw [totalH_congr _ _ h.2 (smiGraph_ids_nodup _ _ hwf.2.1) (smiGraph_ids_nodup _ _ hH.1.1)]
    exact totalH_smiGraph H _ hH.1 hgH

/-- what `graph_to_smi`'s graph step keeps of a simple graph `S`, read through `MolEq`. -/
theorem smiGraph_skeleton (S R : LGraph) (keep : List Nat) (hwf : S.WF)
    (hR : MolEq R (smiGraph S keep)) :
    (∀ n ∈ S.ids, KeptBy S keep n →
      n ∈ R.ids ∧
      ∀ k ∈ ["element", "aromatic", "charge", "atom_map"], (R.attrs n).get k = (S.attrs n).get k) ∧
    (∀ u v, KeptBy S keep u → KeptBy S keep v →
      (R.edge? u v).map (·.get "order") = (S.edge? u v).map (·.get "order")) := by
  unfold smiGraph at hR
  split at hR
  · refine ⟨fun n hn _ => ⟨(hR.1 n).2 hn, fun k hk => ?_⟩, fun u v _ _ => hR.2.2 u v⟩
    refine hR.2.1 n ((hR.1 n).2 hn) k ?_
    simp only [List.mem_cons, List.not_mem_nil, or_false] at hk
    rcases hk with rfl | rfl | rfl | rfl <;> decide
  · have hk2 := implicitH_keeps S keep hwf
    refine ⟨fun n hn hst => ?_, fun u v hu hv => ?_⟩
    · have hp := attrs_mem S n hn
      obtain ⟨hmem, hget, _⟩ := hk2.1 _ hp hst
      have hnR : n ∈ R.ids := (hR.1 n).2 hmem
      refine ⟨hnR, fun k hk => ?_⟩
      have hk' : k ∈ molKeys ∧ k ≠ "hcount" := by
        simp only [List.mem_cons, List.not_mem_nil, or_false] at hk
        rcases hk with rfl | rfl | rfl | rfl <;> exact ⟨by decide, by decide⟩
      rw [hR.2.1 n hnR k hk'.1]
      show Attrs.get _ k = Attrs.get _ k
      unfold Attrs.get Dict.getD
      rw [hget k hk'.2]
    · rw [hR.2.2 u v, hk2.2 u v hu hv]

/-- **C01, RDKit clause, graph part (4), skeleton.**  Under C01's hypotheses, in each graph handed
to the SMILES writer every heavy atom, every reaction-centre hydrogen **and every hydrogen without
heavy neighbour** (spectator proton, hydride, H·, H2 — `KeptBy`; this third class is new with the
F29 repair) of the original side is present with its element, aromatic flag, charge and atom map,
and every bond between two such atoms has its original order: heavy-atom skeleton, free hydrogens,
charges and atom maps are those of the input. -/
theorem its_to_rsmi_skeleton (o : Opts) (G H : LGraph) (hs : SameNodes G H) (hG : MolWF G)
    (hH : MolWF H) :
    ∀ S R : LGraph, (S = G ∧ R = (rsmiGraphs (construct o G H)).1) ∨
        (S = H ∧ R = (rsmiGraphs (construct o G H)).2) →
      (∀ n ∈ S.ids, KeptBy S (rcHydrogenMaps (construct o G H)) n →
        n ∈ R.ids ∧
        ∀ k ∈ ["element", "aromatic", "charge", "atom_map"], (R.attrs n).get k = (S.attrs n).get k) ∧
      (∀ u v, KeptBy S (rcHydrogenMaps (construct o G H)) u →
        KeptBy S (rcHydrogenMaps (construct o G H)) v →
        (R.edge? u v).map (·.get "order") = (S.edge? u v).map (·.get "order")) := by
  have h := its_to_rsmi_graph_part o G H hs hG hH
  rintro S R (⟨rfl, rfl⟩ | ⟨rfl, rfl⟩)
  · exact smiGraph_skeleton _ _ _ hG.1 h.1
  · exact smiGraph_skeleton _ _ _ hH.1 h.2

end RsmiGraphPart

/-! ### Non-vacuity: a hydrogen shift `[CH2:1]([H:3])([H:4])[O:2] → [CH:1]([H:4])[O:2][H:3]`

Atoms `C:1, O:2, H:3, H:4`; `H:3` moves from carbon to oxygen (reaction-centre hydrogen, kept
explicit), `H:4` is a spectator (folded into the count of `C:1`). -/
namespace RsmiExample
open SynKit.Repr SynKit.Repr.ImplH C01Example

def bond (u v : Nat) : Nat × Nat × Attrs := (u, v, [("order", .num 2)])

def G : LGraph := { nodes := [atom "C" 1, atom "O" 2, atom "H" 3, atom "H" 4], edges := [bond 1 3, bond 1 4, bond 1 2] }
def H : LGraph := { nodes := [atom "C" 1, atom "O" 2, atom "H" 3, atom "H" 4], edges := [bond 1 4, bond 1 2, bond 2 3] }

theorem molWF_G : MolWF G :=
  ⟨by decide, by decide, fun e he => by
    simp only [G, List.mem_cons, List.not_mem_nil, or_false] at he
    rcases he with rfl | rfl | rfl <;> exact ⟨2, by decide, rfl⟩⟩

theorem molWF_H : MolWF H :=
  ⟨by decide, by decide, fun e he => by
    simp only [H, List.mem_cons, List.not_mem_nil, or_false] at he
    rcases he with rfl | rfl | rfl <;> exact ⟨2, by decide, rfl⟩⟩

example : SameNodes G H := fun _ => Iff.rfl

/-- the reaction centre contains `H:3` only, so `keep = [3]`. -/
example : rcHydrogenMaps (construct {} G H) = [3] := by decide

/-- the guard of (1) holds on both sides, and is not trivially true (`H:4` is removed). -/
example : FoldGuard G [3] ∧ FoldGuard H [3] ∧ keepsH [3] (G.attrs 4) = false := by decide

/-- what the SMILES writer receives: `H:4` folded into `C:1`, `H:3` explicit on either side. -/
example : (rsmiGraphs (construct {} G H)).1.ids = [1, 2, 3] ∧
    (rsmiGraphs (construct {} G H)).2.ids = [1, 2, 3] ∧
    hcnt ((rsmiGraphs (construct {} G H)).1.attrs 1) = 1 ∧
    (rsmiGraphs (construct {} G H)).1.edges.map (fun e => (e.1, e.2.1)) = [(1, 3), (1, 2)] ∧
    (rsmiGraphs (construct {} G H)).2.edges.map (fun e => (e.1, e.2.1)) = [(1, 2), (2, 3)] ∧
    totalH G = 2 ∧ totalH (rsmiGraphs (construct {} G H)).1 = 2 ∧
    totalH H = 2 ∧ totalH (rsmiGraphs (construct {} G H)).2 = 2 := by decide

/-- the conclusions of (1)–(3) on the example, through the theorems. -/
example : totalH (implicitHydrogen G [3]) = totalH G :=
  implicitH_preserves_totalH G [3] molWF_G.1 (by decide)

example : totalH (rsmiGraphs (construct {} G H)).1 = totalH G ∧
    totalH (rsmiGraphs (construct {} G H)).2 = totalH H :=
  its_to_rsmi_totalH {} G H (fun _ => Iff.rfl) molWF_G molWF_H (fun _ => by decide) (fun _ => by decide)

/-! ### Free hydrogens (F29, repaired by draft fix 0022)

A hydrogen with **no heavy neighbour** whose atom map is not in `keep` used to be deleted without
being counted anywhere (`implicit_hydrogen` had no atom to fold it into).  With the repair it
stays: with a spectator `H2` (`[H:3][H:4]`) next to `[C:1][O:2]` and a `keep` list that does not
name its atoms, both hydrogens and their bond are kept, `FoldGuard` holds (no hydrogen is removed
at all) and the hydrogen total is preserved. -/

def GH2 : LGraph := { nodes := [atom "C" 1, atom "O" 2, atom "H" 3, atom "H" 4], edges := [bond 1 2, bond 3 4] }
def HH2 : LGraph := { nodes := [atom "C" 1, atom "O" 2, atom "H" 3, atom "H" 4], edges := [bond 3 4] }

example : GH2.WF ∧ FoldGuard GH2 [9] ∧ ¬ FoldGuardStrict GH2 [9] ∧
    implicitHydrogen GH2 [9] = GH2 ∧
    (implicitHydrogen GH2 [9]).ids = [1, 2, 3, 4] ∧
    (implicitHydrogen GH2 [9]).edge? 3 4 = GH2.edge? 3 4 ∧
    totalH GH2 = 2 ∧ totalH (implicitHydrogen GH2 [9]) = 2 := by decide

example : totalH (implicitHydrogen GH2 [9]) = totalH GH2 :=
  implicitH_preserves_totalH GH2 [9] (by decide) (by decide)

/-- `get_rc` also puts every hydrogen–hydrogen bond into the reaction centre even when it is
unchanged (`_add_hh_bonds`, property C02), so in `its_to_rsmi` the atoms of a spectator `H2` are
named in `keep` anyway.  Here the `C–O` bond breaks, `H2` is a spectator, and `keep = [3, 4]`. -/
example : rcHydrogenMaps (construct {} GH2 HH2) = [3, 4] ∧
    FoldGuard GH2 [3, 4] ∧ FoldGuard HH2 [3, 4] ∧
    (rsmiGraphs (construct {} GH2 HH2)).1.ids = [1, 2, 3, 4] ∧
    totalH (rsmiGraphs (construct {} GH2 HH2)).1 = 2 ∧
    totalH (rsmiGraphs (construct {} GH2 HH2)).2 = 2 := by decide

/-! ### Non-vacuity of `implicitHydrogen_keeps_free_hydrogen`: the proton-spectator reaction

`[H:1][Cl:2].[NH3:3].[H+:4]>>[H:1][NH3+:3].[Cl-:2].[H+:4]` — `H:1` moves from chlorine to
nitrogen (reaction-centre hydrogen, `keep = [1]`), `H+:4` is a free spectator proton: no bond, atom
map not in `keep`.  Before the repair `its_to_rsmi` dropped it on both sides. -/

def atomQ (el : String) (n : Nat) (hc q : Int) : Nat × Attrs :=
  (n, [("element", .str el), ("aromatic", .bool false), ("hcount", .num (2 * hc)), ("charge", .num (2 * q)),
       ("atom_map", .num (2 * (n : Int)))])

def GP : LGraph := { nodes := [atomQ "H" 1 0 0, atomQ "Cl" 2 0 0, atomQ "N" 3 3 0, atomQ "H" 4 0 1], edges := [bond 1 2] }
def HP : LGraph := { nodes := [atomQ "H" 1 0 0, atomQ "Cl" 2 0 (-1), atomQ "N" 3 3 1, atomQ "H" 4 0 1], edges := [bond 1 3] }

theorem molWF_GP : MolWF GP :=
  ⟨by decide, by decide, fun e he => by
    simp only [GP, List.mem_cons, List.not_mem_nil, or_false] at he
    rcases he with rfl; exact ⟨2, by decide, rfl⟩⟩

theorem molWF_HP : MolWF HP :=
  ⟨by decide, by decide, fun e he => by
    simp only [HP, List.mem_cons, List.not_mem_nil, or_false] at he
    rcases he with rfl; exact ⟨2, by decide, rfl⟩⟩

/-- hypotheses of the theorem on the example: `H+:4` is a hydrogen, not preserved, without heavy
neighbour — and `H:1` is a hydrogen *with* a heavy neighbour (so the predicate is not trivial). -/
example : rcHydrogenMaps (construct {} GP HP) = [1] ∧
    isH (GP.attrs 4) = true ∧ keepsH [1] (GP.attrs 4) = false ∧ hasHeavyNbr GP 4 = false ∧
    hasHeavyNbr GP 1 = true := by decide

/-- the conclusion, through the theorem: the proton is kept with its attributes (charge +1). -/
example : 4 ∈ (implicitHydrogen GP [1]).ids ∧ (implicitHydrogen GP [1]).attrs 4 = (atomQ "H" 4 0 1).2 :=
  (implicitHydrogen_keeps_free_hydrogen GP [1] molWF_GP.1).1 (atomQ "H" 4 0 1) (by decide) (by decide) (by decide)

/-- and by evaluation: both graphs handed to the SMILES writer contain the proton, with charge +1;
the hydrogen totals (3 on N + H:1 + H+:4 = 5) are those of the input. -/
example : (rsmiGraphs (construct {} GP HP)).1.ids = [1, 2, 3, 4] ∧
    (rsmiGraphs (construct {} GP HP)).2.ids = [1, 2, 3, 4] ∧
    ((rsmiGraphs (construct {} GP HP)).1.attrs 4).get "charge" = .num 2 ∧
    ((rsmiGraphs (construct {} GP HP)).2.attrs 4).get "charge" = .num 2 ∧
    FoldGuard GP [1] ∧ FoldGuard HP [1] ∧
    totalH GP = 5 ∧ totalH (rsmiGraphs (construct {} GP HP)).1 = 5 ∧
    totalH HP = 5 ∧ totalH (rsmiGraphs (construct {} GP HP)).2 = 5 := by decide

/-- a spectator proton next to a *folded* hydrogen: `keep = [9]` names nobody, `H:1` is folded into
`Cl:2`, `H+:4` stays. -/
example : (implicitHydrogen GP [9]).ids = [2, 3, 4] ∧ hcnt ((implicitHydrogen GP [9]).attrs 2) = 1 ∧
    totalH (implicitHydrogen GP [9]) = totalH GP := by decide

/-- With no hydrogen in the reaction centre `keep` is empty and `graph_to_smi` does not call
`implicit_hydrogen` at all: explicit spectator hydrogens are handed to RDKit as they are. -/
example : rcHydrogenMaps (construct {} C01Example.G C01Example.H) = [] ∧
    rsmiGraphs (construct {} C01Example.G C01Example.H) = (C01Example.G, C01Example.H) := by decide

end RsmiExample

end SynKit.ITS

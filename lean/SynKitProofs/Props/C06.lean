import SynKitModel.SubgraphSearch
import SynKitProofs.SubgraphSearchLemmas
import SynKitProofs.SubgraphPrefilterLemmas
/-!
# C06 — subgraph search returns exactly the label-preserving monomorphisms

Property theorems only; helper lemmas live in `SynKitProofs/SubgraphSearchLemmas.lean`,
`SynKitProofs/Match.lean`, `SynKitProofs/GraphAlg.lean`.  `search` is the model of
`SubgraphSearchEngine.find_subgraph_mappings` (with the repair of DESIGN §6 F9).

The full statement is the conjunction of the theorems below, including the completeness of the
component-aware strategy (`comp_complete`, proved at the end).
-/
namespace SynKit.SubgraphSearch
open SynKit.Match SynKit.GraphAlg

/-- The exhaustive strategy after the final guard, for every setting of `max_results` (`k`, 0 =
unlimited) and `threshold`: the first `k` monomorphisms when `0 < k ≤ threshold`, otherwise the
whole list, or `[]` when that list is longer than the threshold. -/
theorem search_all_eq (cfg : Cfg) (sel : Sel) (H P : LGraph) (hs : cfg.strategy = .all) (hf : cfg.preFilter = false) :
    search cfg sel H P =
      if cfg.maxRes ≠ 0 ∧ cfg.maxRes ≤ cfg.thr then (allMonos sel H P).take cfg.maxRes
      else if (allMonos sel H P).length > cfg.thr then [] else allMonos sel H P := by
  unfold search dispatch
  simp only [hf, hs, Bool.false_and, Bool.false_eq_true, if_false]
  have := guard_collect cfg.maxRes cfg.thr (allMonos sel H P)
  unfold guard at this
  unfold findAll
  rw [this, ← guard_take_stopLen]
  rfl

/-- **C06, exhaustive strategy.** Without limits (`max_results` falsy, fewer matches than the
threshold, no pre-filter) the exhaustive strategy returns precisely the label-preserving
monomorphisms — injective, selected node attributes equal, host hydrogen count ≥ pattern's, every
pattern bond on a host bond with equal selected edge attributes (`IsMono`) — without duplicates. -/
theorem all_spec (cfg : Cfg) (sel : Sel) (H P : LGraph) (hH : H.ids.Nodup) (hP : P.WF)
    (hs : cfg.strategy = .all) (hk : cfg.maxRes = 0) (hf : cfg.preFilter = false)
    (ht : (allMonos sel H P).length ≤ cfg.thr) :
    (∀ m, m ∈ search cfg sel H P ↔ IsMono sel H P m) ∧ (search cfg sel H P).Nodup := by
  have : search cfg sel H P = allMonos sel H P := by
    rw [search_all_eq cfg sel H P hs hf, if_neg (by simp [hk]), if_neg (by omega)]
  rw [this]
  exact ⟨fun m => mem_allMonos sel H P hP m, allMonos_nodup sel H P hH⟩

/-- **C06, limits (exhaustive).** `max_results = k` with `0 < k ≤ threshold` only truncates: the
result is the length-`min k total` prefix of the unlimited list. -/
theorem limit_all (cfg : Cfg) (sel : Sel) (H P : LGraph) (hs : cfg.strategy = .all) (hf : cfg.preFilter = false)
    (hk : cfg.maxRes ≠ 0) (hkt : cfg.maxRes ≤ cfg.thr) :
    search cfg sel H P = (allMonos sel H P).take cfg.maxRes ∧
      (search cfg sel H P).length = min cfg.maxRes (allMonos sel H P).length := by
  rw [search_all_eq cfg sel H P hs hf, if_pos ⟨hk, hkt⟩]
  exact ⟨rfl, List.length_take⟩

/-- **C06, threshold (exhaustive).** Without `max_results` the threshold either leaves the list
alone or, when the list is longer than the threshold, empties it. -/
theorem threshold_spec (cfg : Cfg) (sel : Sel) (H P : LGraph) (hs : cfg.strategy = .all) (hf : cfg.preFilter = false)
    (hk : cfg.maxRes = 0) :
    search cfg sel H P = if (allMonos sel H P).length > cfg.thr then [] else allMonos sel H P := by
  rw [search_all_eq cfg sel H P hs hf, if_neg (by simp [hk])]

/-- **C06, component-aware strategy, soundness.** Whatever the limits, every mapping the
component-aware pass returns is a label-preserving monomorphism of the whole pattern into the whole
host, and — unless the host has fewer components than the pattern, where the pass is the
exhaustive one — it sends pattern nodes of different pattern components into different host
components. -/
theorem comp_sound (sel : Sel) (H P : LGraph) (hH : H.WF) (hP : P.WF) (k : Nat) (strict : Bool) (thr : Nat)
    (m : Mapping) (hm : m ∈ findComp sel H P k strict thr) :
    IsMono sel H P m ∧ ((comps H).length < (comps P).length ∨ DistinctComponents H P m) := by
  rw [findComp_eq] at hm
  split at hm
  · next h0 =>
    rw [List.mem_singleton] at hm; subst hm
    refine ⟨isMono_nil_of_no_nodes sel H P hP (ids_nil_of_no_comps P hP h0), Or.inr ?_⟩
    intro p q hp hq h1; simp [Mapping.get?] at h1
  · split at hm
    · next hlt =>
      exact ⟨(mem_allMonos sel H P hP m).1 (mem_collect _ _ _ _ hm), Or.inl hlt⟩
    · split at hm
      · cases hm
      · split at hm
        · cases hm
        · split at hm
          · cases hm
          · obtain ⟨pks, g, rfl⟩ := mem_compEnum_glue sel H P hP m (List.mem_of_mem_take hm)
            exact ⟨g.isMono hH hP, Or.inr (g.distinct hH hP)⟩

/-- **C06, component-aware ⊆ exhaustive.** -/
theorem comp_subset_all (sel : Sel) (H P : LGraph) (hH : H.WF) (hP : P.WF) (k : Nat) (strict : Bool) (thr : Nat)
    (m : Mapping) (hm : m ∈ findComp sel H P k strict thr) : m ∈ allMonos sel H P :=
  (mem_allMonos sel H P hP m).2 (comp_sound sel H P hH hP k strict thr m hm).1

/-- **C06, "all of them when the host has fewer components".** -/
theorem comp_eq_all_of_fewer (sel : Sel) (H P : LGraph) (k : Nat) (strict : Bool) (thr : Nat)
    (h : (comps H).length < (comps P).length) :
    findComp sel H P k strict thr = findAll sel H P k thr := by
  rw [findComp_eq, if_neg (by omega), if_pos h]

/-- **C06, fallback strategy** (as coded, for every setting of the limits): the component-aware
result if it is non-empty, the exhaustive result otherwise. -/
theorem bt_spec (sel : Sel) (H P : LGraph) (k : Nat) (strict : Bool) (thr : Nat) :
    findBt sel H P k strict thr =
      if (findComp sel H P k strict thr).isEmpty then findAll sel H P k thr else findComp sel H P k strict thr := rfl

/-- **C06, the documented `strict_cc_count` guard**: a host with more components than the
(non-empty) pattern yields no result under the component-aware strategy. -/
theorem strict_guard (sel : Sel) (H P : LGraph) (k thr : Nat)
    (h0 : (comps P).length ≠ 0) (h : (comps H).length > (comps P).length) :
    findComp sel H P k true thr = [] := by
  rw [findComp_eq, if_neg h0, if_neg (by omega), if_pos ⟨h, rfl⟩]

/-- **C06, limits and threshold (component-aware pass)**, in the regime where the back-tracking
runs (host has at least as many components, guard not firing, every pattern component embeds
somewhere, no per-component list longer than the threshold): after the final guard the result is
the length-`k` prefix of the unlimited list `compEnum` when `0 < k ≤ threshold`, otherwise that
list or, when it is longer than the threshold, `[]`.  (`max_results` is applied to combined
mappings only — the repair of F9.) -/
theorem limit_comp (cfg : Cfg) (sel : Sel) (H P : LGraph) (hs : cfg.strategy = .comp) (hf : cfg.preFilter = false)
    (h0 : (comps P).length ≠ 0) (h1 : ¬ (comps H).length < (comps P).length)
    (h2 : ¬ ((comps H).length > (comps P).length ∧ cfg.strict = true))
    (h3 : (perCc sel H P).any (fun maps => maps.isEmpty) = false)
    (h4 : (perCc sel H P).any (fun maps => decide (maps.length > cfg.thr)) = false) :
    search cfg sel H P =
      if cfg.maxRes ≠ 0 ∧ cfg.maxRes ≤ cfg.thr then (compEnum sel H P).take cfg.maxRes
      else if (compEnum sel H P).length > cfg.thr then [] else compEnum sel H P := by
  have hfc : findComp sel H P cfg.maxRes cfg.strict cfg.thr = (compEnum sel H P).take (stopLen cfg.maxRes cfg.thr) := by
    rw [findComp_eq, if_neg h0, if_neg h1, if_neg h2, h3, h4]
    simp
  unfold search dispatch
  simp only [hf, hs, Bool.false_and, Bool.false_eq_true, if_false]
  rw [hfc, ← guard_take_stopLen]
  rfl

/-- **Pre-filter**: with `pre_filter=True` the result is `[]` when `_quick_pre_filter` gives up and
otherwise exactly the result without the pre-filter. -/
theorem prefilter_spec (cfg : Cfg) (sel : Sel) (H P : LGraph) (hf : cfg.preFilter = true) :
    search cfg sel H P =
      if quickPreFilter sel H P cfg.thr then [] else search { cfg with preFilter := false } sel H P := by
  unfold search
  simp only [hf, Bool.true_and, Bool.false_and, Bool.false_eq_true, if_false]
  rfl

/-- **C06, component-aware strategy, completeness** (statement): for `strict_cc_count = False`, no
limits, and a host with at least as many components as the pattern, every monomorphism that separates
the pattern components is returned.  Proved below (`comp_complete`); the harness additionally compares
the model's unlimited component-aware result with the brute-force filter of `allMonos` on every
generated case (driver field `comp_model_eq_spec`). -/
def CompCompleteStatement : Prop :=
  ∀ (sel : Sel) (H P : LGraph), H.WF → P.WF → (comps P).length ≠ 0 → (comps P).length ≤ (comps H).length →
    ∀ m, IsMono sel H P m → DistinctComponents H P m → ∀ thr, (∀ maps ∈ perCc sel H P, maps.length ≤ thr) →
      (compEnum sel H P).length ≤ thr → m ∈ findComp sel H P 0 false thr

/-- **C06, component-aware strategy, completeness.**  A monomorphism maps a (connected) pattern
component into one host component (`mono_component_image`), its restriction to that component is a
monomorphism of the two sub-graphs (`restrict_isMono`), hence one of the per-component embeddings
(`restrict_mem_level`); pattern components going to different host components, the back-tracking
assembly picks exactly these restrictions and glues them back to `m` (`mem_compEnum_of_mono`). -/
theorem comp_complete : CompCompleteStatement := by
  intro sel H P hH hP h0 hle m hm hd thr hthr hlen
  have hmem := mem_compEnum_of_mono sel H P hH hP m hm hd
  have h3 : ¬ ((perCc sel H P).any (fun maps => maps.isEmpty) = true) := by
    rw [List.any_eq_true]
    rintro ⟨maps, hmaps, he⟩
    exact perCc_ne_nil_of_mono sel H P hH hP m hm maps hmaps (List.isEmpty_iff.1 he)
  have h4 : ¬ ((perCc sel H P).any (fun maps => decide (maps.length > thr)) = true) := by
    rw [List.any_eq_true]
    rintro ⟨maps, hmaps, he⟩
    have := hthr maps hmaps
    simp only [decide_eq_true_eq] at he
    omega
  rw [findComp_eq, if_neg h0, if_neg (by omega), if_neg (by simp), if_neg h3, if_neg h4]
  rw [List.take_of_length_le]
  · exact hmem
  · unfold stopLen; simp; omega

/-! ### Non-vacuity

Host: two components `C–C` (nodes 1, 2) and `C` (node 3); pattern: two isolated `C` (nodes 10, 11).
Six monomorphisms; the component-aware strategy keeps the four that separate the two pattern nodes;
`max_results = 1` returns one of them (the unrepaired code returned `[]` here). -/
section Examples
def exSel : Sel := { nodeKeys := ["element"], edgeKeys := ["order"] }
def exH : LGraph :=
  { nodes := [(1, [("element", .str "C")]), (2, [("element", .str "C")]), (3, [("element", .str "C")])]
    edges := [(1, 2, [("order", .num 2)])] }
def exP : LGraph := { nodes := [(10, [("element", .str "C")]), (11, [("element", .str "C")])], edges := [] }

example : exH.WF ∧ exP.WF := by decide
example : (search { strategy := .all } exSel exH exP).length = 6 := by decide
example : search { strategy := .comp, strict := false } exSel exH exP =
    [[(10, 1), (11, 3)], [(10, 2), (11, 3)], [(10, 3), (11, 1)], [(10, 3), (11, 2)]] := by decide
example : search { strategy := .comp, strict := false, maxRes := 1 } exSel exH exP = [[(10, 1), (11, 3)]] := by decide
example : search { strategy := .comp, strict := true } exSel exH exP = [[(10, 1), (11, 3)], [(10, 2), (11, 3)], [(10, 3), (11, 1)], [(10, 3), (11, 2)]] := by decide
example : search { strategy := .all, threshold := some 5 } exSel exH exP = [] := by decide
/-- Non-vacuity of `comp_complete`: its hypotheses hold for `[(10, 1), (11, 3)]` (threshold 5000);
the decidable ones here, `IsMono` and `DistinctComponents` in the next example. -/
example : (comps exP).length ≠ 0 ∧ (comps exP).length ≤ (comps exH).length ∧
    (∀ maps ∈ perCc exSel exH exP, maps.length ≤ 5000) ∧ (compEnum exSel exH exP).length ≤ 5000 ∧
    [(10, 1), (11, 3)] ∈ allMonos exSel exH exP ∧ [(10, 1), (11, 3)] ∈ findComp exSel exH exP 0 false 5000 := by decide
example : IsMono exSel exH exP [(10, 1), (11, 3)] ∧ DistinctComponents exH exP [(10, 1), (11, 3)] := by
  have h := comp_sound exSel exH exP (by decide) (by decide) 0 false 5000 [(10, 1), (11, 3)] (by decide)
  exact ⟨h.1, h.2.resolve_left (by decide)⟩
end Examples

/-! ## `_quick_pre_filter` (clause "result limits only truncate the list or, past the threshold, empty it",
the `pre_filter=True` guard)

`cands sel H P (p, pa)` are the host nodes the pre-filter counts for the pattern node `p` (selected
attributes equal, host hydrogen count ≥ pattern's, host degree ≥ pattern degree), `candCount` their
number, `estimate sel H P` the product of the counts over all pattern nodes
(`SynKitProofs/SubgraphPrefilterLemmas.lean`).  The Python comparison `estimate > threshold * 1e4`
(an `int` against a `float`; Python compares the two exactly, and `threshold * 1e4` is exact as long as
`threshold * 10⁴ < 2⁵³`) is the integer comparison `estimate > thr * 10000` of the model. -/

/-- **C06, soundness of every strategy on a pair without a match**: if no label-preserving
monomorphism exists, `find_subgraph_mappings` returns `[]` whatever the strategy, the limits and the
pre-filter flag. -/
theorem search_nil_of_no_mono (cfg : Cfg) (sel : Sel) (H P : LGraph) (hH : H.WF) (hP : P.WF)
    (h : ∀ m, ¬ IsMono sel H P m) : search cfg sel H P = [] := by
  have hnil : allMonos sel H P = [] := by
    rw [List.eq_nil_iff_forall_not_mem]
    intro m hm; exact h m ((mem_allMonos sel H P hP m).1 hm)
  have hall : ∀ k thr, findAll sel H P k thr = [] := by
    intro k thr; unfold findAll; rw [hnil]; rfl
  have hcomp : ∀ k strict thr, findComp sel H P k strict thr = [] := by
    intro k strict thr
    rw [List.eq_nil_iff_forall_not_mem]
    intro m hm
    exact h m (comp_sound sel H P hH hP k strict thr m hm).1
  have hd : dispatch cfg sel H P = [] := by
    unfold dispatch
    cases cfg.strategy with
    | all => exact hall _ _
    | comp => exact hcomp _ _ _
    | bt =>
      show findBt sel H P cfg.maxRes cfg.strict cfg.thr = []
      unfold findBt
      rw [hcomp]
      exact hall _ _
  unfold search
  split
  · rfl
  · simp only [hd]; rfl

/-- **Pre-filter, zero branch is sound.**  If some pattern node `n = (p, pa)` has no candidate host
node — no host node whose selected attributes equal `pa`'s, whose hydrogen count is ≥ `pa`'s and whose
degree is ≥ the degree of `p` — then no label-preserving monomorphism exists and the enumeration is
empty: the branch `if count == 0: return True` never loses a match. -/
theorem prefilter_zero_sound (sel : Sel) (H P : LGraph) (hP : P.WF) (n : Nat × Attrs) (hn : n ∈ P.nodes)
    (h0 : ∀ ha ∈ H.nodes, ¬ (nodeOk sel ha.2 n.2 = true ∧ degree H ha.1 ≥ degree P n.1)) :
    (∀ m, ¬ IsMono sel H P m) ∧ allMonos sel H P = [] := by
  have hc : candCount sel H P n = 0 := (candCount_eq_zero_iff sel H P n).2 h0
  exact ⟨no_mono_of_zero sel H P hP n hn hc, allMonos_nil_of_zero sel H P hP n hn hc⟩

/-- **Pre-filter, zero branch changes nothing**: in that situation the search returns `[]` with or
without the pre-filter (for every strategy and every setting of the limits). -/
theorem prefilter_zero_lossless (cfg : Cfg) (sel : Sel) (H P : LGraph) (hH : H.WF) (hP : P.WF)
    (n : Nat × Attrs) (hn : n ∈ P.nodes) (h0 : candCount sel H P n = 0) :
    search cfg sel H P = [] ∧ search { cfg with preFilter := false } sel H P = [] :=
  ⟨search_nil_of_no_mono cfg sel H P hH hP (no_mono_of_zero sel H P hP n hn h0),
   search_nil_of_no_mono _ sel H P hH hP (no_mono_of_zero sel H P hP n hn h0)⟩

/-- **Pre-filter, the estimate over-approximates.**  The product over the pattern nodes of the
candidate counts is an upper bound on the number of label-preserving monomorphisms (each one picks a
candidate for every pattern node, and distinct monomorphisms pick differently).  So the threshold
branch `estimate > threshold * 1e4` can fire although the true number of matches is small — the
documented over-approximation — but never fires when even the estimate is within the bound. -/
theorem prefilter_estimate_upper (sel : Sel) (H P : LGraph) (hH : H.ids.Nodup) (hP : P.WF) :
    (allMonos sel H P).length ≤ estimate sel H P :=
  allMonos_length_le_estimate sel H P hH hP

/-- **Pre-filter, when it fires** (exact characterisation of the loop with its early exits):
`_quick_pre_filter` returns `True` iff some pattern node has no candidate host node or the product of
all candidate counts exceeds `threshold * 10⁴`.  (Side condition: for `threshold = 0` and a pattern
without nodes the loop body never runs.) -/
theorem prefilter_fires_iff (sel : Sel) (H P : LGraph) (thr : Nat) (hne : 0 < thr ∨ P.nodes ≠ []) :
    quickPreFilter sel H P thr = true ↔
      (∃ n ∈ P.nodes, candCount sel H P n = 0) ∨ estimate sel H P > thr * 10000 :=
  quickPreFilter_iff sel H P thr hne

/-- **Pre-filter: sound or large.**  With `pre_filter=True`:
* if `_quick_pre_filter` gives up, the result is `[]`, and either no label-preserving monomorphism
  exists at all (so nothing is lost) or the estimate — an upper bound on the number of matches by
  `prefilter_estimate_upper`, not the number itself — exceeds `threshold * 10⁴`;
* otherwise the result is exactly the result without the pre-filter, and the number of matches is
  at most `threshold * 10⁴`. -/
theorem prefilter_sound_or_large (cfg : Cfg) (sel : Sel) (H P : LGraph) (hH : H.ids.Nodup) (hP : P.WF)
    (hf : cfg.preFilter = true) :
    (quickPreFilter sel H P cfg.thr = true →
        search cfg sel H P = [] ∧
          ((∀ m, ¬ IsMono sel H P m) ∨ estimate sel H P > cfg.thr * 10000)) ∧
    (quickPreFilter sel H P cfg.thr = false →
        search cfg sel H P = search { cfg with preFilter := false } sel H P ∧
          ((P.nodes ≠ [] ∨ 0 < cfg.thr) → (allMonos sel H P).length ≤ cfg.thr * 10000)) := by
  constructor
  · intro hq
    refine ⟨by rw [prefilter_spec cfg sel H P hf, if_pos hq], ?_⟩
    have := quickLoop_true_imp sel H P cfg.thr P.nodes 1 hq
    rw [Nat.one_mul] at this
    rcases this with ⟨n, hn, h0⟩ | hgt
    · exact Or.inl (no_mono_of_zero sel H P hP n hn h0)
    · exact Or.inr hgt
  · intro hq
    refine ⟨by rw [prefilter_spec cfg sel H P hf, hq]; rfl, ?_⟩
    intro hne
    have hnot : ¬ ((∃ n ∈ P.nodes, candCount sel H P n = 0) ∨ estimate sel H P > cfg.thr * 10000) := by
      intro hc
      have := (quickPreFilter_iff sel H P cfg.thr (hne.symm)).2 hc
      rw [hq] at this; cases this
    have := allMonos_length_le_estimate sel H P hH hP
    omega

/-! ### Non-vacuity of the pre-filter theorems

* zero branch by attributes: pattern node `N` in the all-carbon host `exH`;
* zero branch by degree: pattern `C–C–C` (centre of degree 2) in the host `C–C  C`;
* threshold branch losing a match: a 12-ring of carbons with bond orders `1, 2, 3` on three consecutive
  bonds (single elsewhere) and the pattern path `C–C=C≡C`: exactly one monomorphism, every pattern
  node has 12 candidates, estimate `12⁴ = 20736 > 1 · 10⁴`, so with `threshold = 1` the pre-filter
  empties a result that the limits alone would have kept. -/
section PrefilterExamples
def exPN : LGraph := { nodes := [(10, [("element", .str "N")])], edges := [] }
def exP3 : LGraph :=
  { nodes := [(10, [("element", .str "C")]), (11, [("element", .str "C")]), (12, [("element", .str "C")])]
    edges := [(10, 11, [("order", .num 2)]), (11, 12, [("order", .num 2)])] }

example : exPN.WF ∧ candCount exSel exH exPN (10, [("element", .str "N")]) = 0 ∧
    quickPreFilter exSel exH exPN 5000 = true ∧ allMonos exSel exH exPN = [] := by decide
example : exP3.WF ∧ candCount exSel exH exP3 (11, [("element", .str "C")]) = 0 ∧
    candCount exSel exH exP3 (10, [("element", .str "C")]) = 2 ∧
    quickPreFilter exSel exH exP3 5000 = true ∧ allMonos exSel exH exP3 = [] := by decide
/-- Pre-filter not firing: estimate `3 · 3 = 9 ≥ 6 =` number of matches, result unchanged. -/
example : quickPreFilter exSel exH exP 5000 = false ∧ estimate exSel exH exP = 9 ∧
    (allMonos exSel exH exP).length = 6 ∧
    search { strategy := .all, preFilter := true } exSel exH exP = search { strategy := .all } exSel exH exP := by
  decide

def cAt : Attrs := [("element", .str "C")]
def exRing : LGraph :=
  { nodes := [(1, cAt), (2, cAt), (3, cAt), (4, cAt), (5, cAt), (6, cAt), (7, cAt), (8, cAt), (9, cAt),
      (10, cAt), (11, cAt), (12, cAt)]
    edges := [(1, 2, [("order", .num 2)]), (2, 3, [("order", .num 4)]), (3, 4, [("order", .num 6)]),
      (4, 5, [("order", .num 2)]), (5, 6, [("order", .num 2)]), (6, 7, [("order", .num 2)]),
      (7, 8, [("order", .num 2)]), (8, 9, [("order", .num 2)]), (9, 10, [("order", .num 2)]),
      (10, 11, [("order", .num 2)]), (11, 12, [("order", .num 2)]), (12, 1, [("order", .num 2)])] }
def exPath : LGraph :=
  { nodes := [(20, cAt), (21, cAt), (22, cAt), (23, cAt)]
    edges := [(20, 21, [("order", .num 2)]), (21, 22, [("order", .num 4)]), (22, 23, [("order", .num 6)])] }

example : exRing.WF ∧ exPath.WF := by decide
example : estimate exSel exRing exPath = 20736 ∧ quickPreFilter exSel exRing exPath 1 = true := by decide
example : search { strategy := .all, threshold := some 1 } exSel exRing exPath = [[(20, 1), (21, 2), (22, 3), (23, 4)]] := by
  decide
example : search { strategy := .all, threshold := some 1, preFilter := true } exSel exRing exPath = [] := by decide
end PrefilterExamples

end SynKit.SubgraphSearch

import SynKitModel.Stoich
import SynKitProofs.StoichLemmas
import SynKitModel.BipGraph
import SynKitProofs.BipGraphLemmas
/-!
# C17 — stoichiometric analysis agrees with exact linear algebra

Property theorems only; helper lemmas live in `SynKitProofs/StoichLemmas.lean`.

How the property is covered.  NumPy/SciPy (`matrix_rank`, SVD null space, HiGHS) are
numeric oracles outside the model, so "the reported rank equals the exact rank" cannot be a
theorem about SynKit.  Instead every reported value is compared, on every run, with an exact
value carried by a *certificate* that the executable checkers below accept, and the theorems
say that an accepted certificate proves the exact statement, stated with **Mathlib's**
`Matrix.rank`, `Matrix.mulVec`, `Matrix.vecMul`, `LinearIndependent` over `ℚ` (bridge:
`toMat m n S i j = S i j`, `toVec n v j = v[j]`).

* clause "S has one row per species, one column per reaction, entry produced − consumed, and
  agrees with the network's own incidence matrix": `buildS_shape`, `buildS_entry`, `buildS_orders`;
* the same clause when the network is handed over as a plain bipartite NetworkX graph
  (`DiGraph` / `MultiDiGraph` / `Graph` / `MultiGraph`, arcs in either direction, `kind` and/or
  `bipartite` flag, optional `label` / `stoich`): the graph reading (`SynKitModel/BipGraph.lean`)
  is `build_S` of the network the graph describes — `graphS_eq_buildS`,
  `graphS_eq_buildS_upto_ties`, and it does not depend on how the graph is written —
  `graphS_orientation_invariant`, `graphS_undirected_eq_directed`, `graphS_missing_stoich`
  (section "The graph entry path" at the end of this file);
* clause "reported rank = exact rank": `checkRank_sound` (+ correspondence);
* clause "kernel bases have dimensions n_species − rank, n_reactions − rank; every basis vector
  annihilates S": `kernel_dims`, `checkKernelBasis_sound` (+ correspondence; annihilation of the
  floating-point bases is tested numerically in the harness);
* clause "conservative exactly when a strictly positive conservation law exists, consistent
  exactly when a strictly positive steady flux exists, witnesses are witnesses":
  `checkPositive_sound`, `stiemke_easy`, `stiemke_easy_left`, `checkAlternative_sound`, the four
  `*_cert_sound` corollaries (+ correspondence), and for the code's own decision procedure
  `conservative_logic`, `conservative_unbounded_witness` (the property FAILS for the code as
  written whenever the LP stage is reached with a feasible LP — finding F2), `consistent_logic`
  (repaired `is_consistent`, draft fix 0004).
-/
open Matrix SynKit SynKit.Store

namespace SynKit.Stoich

/-! ## The matrix -/

/-- **C17, shape.** `build_S` returns one row per species node and one column per reaction:
`S` has `|species|` rows, each of length `|reactions|`, and the returned label lists have those
lengths. -/
theorem buildS_shape (N : Net) (res : SResult) (h : buildS N = .ok res) :
    res.species.length = (speciesSet N).length ∧ res.rules.length = N.edges.length ∧
    res.S.length = res.species.length ∧ ∀ row ∈ res.S, row.length = res.rules.length :=
  buildS_shape' N res h

/-- **C17, entries.** Row `i` is the `i`-th species in label order, column `j` the `j`-th
reaction in the code's column order, and the entry is (produced − consumed), which is also the
entry of the store's own sparse incidence mapping (`incidenceEdge`, the C15 model of
`CRNHyperGraph.incidence_matrix`) for that reaction and species. Sides are Python dicts
(distinct keys), as the C15 store invariant guarantees. -/
theorem buildS_entry (N : Net) (res : SResult) (h : buildS N = .ok res)
    (wf : ∀ e ∈ N.edges, e.reactants.keys.Nodup ∧ e.products.keys.Nodup)
    (i j : Nat) (hi : i < (speciesOrder N).length) (hj : j < (rxnOrder N).length) :
    entryI res.S i j
      = coeff ((rxnOrder N)[j]).products ((speciesOrder N)[i])
        - coeff ((rxnOrder N)[j]).reactants ((speciesOrder N)[i]) ∧
    entryI res.S i j = (incidenceEdge ((rxnOrder N)[j])).getD ((speciesOrder N)[i]) 0 :=
  buildS_entry' N res h wf i j hi hj

/-- **C17, orders ("up to the column order").** The returned species list is a permutation of
the network's species, the columns are a permutation of the reactions, and also a permutation of
the column order of the store's own `incidence_matrix` (reactions sorted by id); the returned
reaction labels are the rules of the columns. Together with `buildS_entry` this is the
agreement of `S` with the incidence matrix. -/
theorem buildS_orders (N : Net) (res : SResult) (h : buildS N = .ok res) :
    res.species = speciesOrder N ∧ (speciesOrder N).Perm (speciesSet N) ∧
    res.rules = (rxnOrder N).map (·.rule) ∧ (rxnOrder N).Perm N.edges ∧
    (rxnOrder N).Perm (viewOrder N) ∧
    (∀ i j, entryI (incidenceMat N) i j =
      match (speciesOrder N)[i]?, (viewOrder N)[j]? with
      | some s, some e => (incidenceEdge e).getD s 0
      | _, _ => 0) :=
  buildS_orders' N res h

/-- Non-vacuity: `A + 2B → C` (rule `z`) and `C → A` (rule `a`, larger id): columns are ordered
by rule, not by id, and the matrix is what the implementation returns. -/
example : buildS ⟨["C", "A", "B"], [⟨"r_1", "z", [("A", 1), ("B", 2)], [("C", 1)]⟩,
      ⟨"r_2", "a", [("C", 1)], [("A", 1)]⟩]⟩
    = .ok ⟨["A", "B", "C"], ["a", "z"], [[1, -1], [0, -2], [-1, 1]]⟩ := by decide

/-- The error branch (`ValueError` of `_split_species_reactions`) is modelled explicitly. -/
example : buildS ⟨["A"], []⟩ = .error .valueError := by decide

/-! ## Certificates -/

/-- **C17, rank.** If the rank certificate (column basis `cols`, left inverse `L` of the
sub-matrix of those columns, coordinates `C` of every column in that basis) is accepted by the
executable checker, then the rank of `S` over `ℚ` — Mathlib's `Matrix.rank` — is the number of
listed columns. -/
theorem checkRank_sound (m n : ℕ) (S : Ent) (c : RankCert) (h : checkRank m n S c = true) :
    (toMat m n S).rank = c.cols.length := checkRank_sound' m n S c h

/-- Non-vacuity: `A → B`, `B → A` has rank 1. -/
example : checkRank 2 2 (entI [[-1, 1], [1, -1]]) ⟨[0], [[-1, 0]], [[1, -1]]⟩ = true := by decide +kernel

/-- **C17, kernel dimensions.** With an accepted rank certificate the right kernel of `S` has
dimension `n − r` and the left kernel (kernel of `Sᵀ`) dimension `m − r`: the exact numbers the
implementation's `right_nullspace` / `left_nullspace` / `summary` are compared with. -/
theorem kernel_dims (m n : ℕ) (S : Ent) (c : RankCert) (h : checkRank m n S c = true) :
    Module.finrank ℚ (LinearMap.ker (toMat m n S).mulVecLin) = n - c.cols.length ∧
    Module.finrank ℚ (LinearMap.ker (toMat m n S)ᵀ.mulVecLin) = m - c.cols.length :=
  kernel_dims' m n S c h

/-- **C17, kernel bases.** An accepted kernel-basis certificate for `A` (`m × n`; `A = S` for
the right kernel, `A = Sᵀ` for the left kernel) consists of `n − r` vectors, each annihilated by
`A`, which are linearly independent over `ℚ`. -/
theorem checkKernelBasis_sound (m n : ℕ) (A : Ent) (r : ℕ) (B : List QVec) (L : QMat)
    (h : checkKernelBasis m n A r B L = true) :
    B.length + r = n ∧
    (∀ a : Fin B.length, (toMat m n A).mulVec (toVec n (B.getD a [])) = 0) ∧
    LinearIndependent ℚ (fun a : Fin B.length => toVec n (B.getD a [])) :=
  checkKernelBasis_sound' m n A r B L h

/-- **C17, the certified vectors are a basis of the kernel.** With an accepted rank certificate
of `r` columns and an accepted kernel-basis certificate for the same `r`, the span of the listed
vectors is exactly the kernel of `A` (independent by `checkKernelBasis_sound`, `n − r` of them,
and `n − r` is the dimension of the kernel by `kernel_dims`). -/
theorem kernelBasis_spans (m n : ℕ) (A : Ent) (c : RankCert) (B : List QVec) (L : QMat)
    (hr : checkRank m n A c = true) (hb : checkKernelBasis m n A c.cols.length B L = true) :
    Submodule.span ℚ (Set.range fun a : Fin B.length => toVec n (B.getD a [])) =
      LinearMap.ker (toMat m n A).mulVecLin := kernelBasis_spans' m n A c B L hr hb

/-- Non-vacuity: the right kernel of `A ⇌ B` is spanned by `(1, 1)`. -/
example : checkKernelBasis 2 2 (entI [[-1, 1], [1, -1]]) 1 [[1, 1]] [[0, 1]] = true := by decide +kernel

/-- **C17, positive witnesses.** An accepted positive-kernel certificate is a strictly positive
vector annihilated by `A`. -/
theorem checkPositive_sound (m n : ℕ) (A : Ent) (x : QVec) (h : checkPositiveKernel m n A x = true) :
    (∀ j, 0 < toVec n x j) ∧ (toMat m n A).mulVec (toVec n x) = 0 := checkPositive_sound' m n A x h

/-- **C17, easy half of Stiemke's theorem (consistency form).** If some `y` has `yᵀA ≥ 0` and
`yᵀA ≠ 0` then no strictly positive `x` satisfies `A x = 0`. -/
theorem stiemke_easy {m n : ℕ} (A : Matrix (Fin m) (Fin n) ℚ)
    (h : ∃ y : Fin m → ℚ, (∀ j, 0 ≤ Matrix.vecMul y A j) ∧ Matrix.vecMul y A ≠ 0) :
    ¬ ∃ x : Fin n → ℚ, (∀ j, 0 < x j) ∧ A.mulVec x = 0 := stiemke_easy' A h

/-- **C17, easy half of Stiemke's theorem (conservativity form).** If some `v` has `S v ≥ 0`
and `S v ≠ 0` then no strictly positive `m` satisfies `mᵀS = 0`. -/
theorem stiemke_easy_left {m n : ℕ} (S : Matrix (Fin m) (Fin n) ℚ)
    (h : ∃ v : Fin n → ℚ, (∀ i, 0 ≤ S.mulVec v i) ∧ S.mulVec v ≠ 0) :
    ¬ ∃ mv : Fin m → ℚ, (∀ i, 0 < mv i) ∧ Matrix.vecMul mv S = 0 := stiemke_easy_left' S h

/-- Non-vacuity of both halves on `∅ → A` (`S = (1)`): `v = y = (1)`. -/
example : ∃ v : Fin 1 → ℚ, (∀ i, 0 ≤ (!![(1 : ℚ)]).mulVec v i) ∧ (!![(1 : ℚ)]).mulVec v ≠ 0 :=
  ⟨fun _ => 1, fun i => by simp [Matrix.mulVec, dotProduct], fun h => by
    have := congrFun h 0; simp [Matrix.mulVec, dotProduct] at this⟩

/-- An accepted alternative certificate excludes every strictly positive kernel vector. -/
theorem checkAlternative_sound (m n : ℕ) (A : Ent) (y : QVec) (h : checkAlternative m n A y = true) :
    ¬ ∃ x : Fin n → ℚ, (∀ j, 0 < x j) ∧ (toMat m n A).mulVec x = 0 := checkAlternative_sound' m n A y h

/-- **C17, certified "conservative".** -/
theorem conservative_cert_sound (m n : ℕ) (S : Ent) (mv : QVec)
    (h : checkPositiveLeftKernel m n S mv = true) :
    ∃ w : Fin m → ℚ, (∀ i, 0 < w i) ∧ Matrix.vecMul w (toMat m n S) = 0 :=
  conservative_cert_sound' m n S mv h

/-- **C17, certified "not conservative".** -/
theorem not_conservative_cert_sound (m n : ℕ) (S : Ent) (v : QVec)
    (h : checkNotConservative m n S v = true) :
    ¬ ∃ w : Fin m → ℚ, (∀ i, 0 < w i) ∧ Matrix.vecMul w (toMat m n S) = 0 :=
  not_conservative_cert_sound' m n S v h

/-- **C17, certified "consistent".** -/
theorem consistent_cert_sound (m n : ℕ) (S : Ent) (v : QVec)
    (h : checkPositiveRightKernel m n S v = true) :
    ∃ w : Fin n → ℚ, (∀ j, 0 < w j) ∧ (toMat m n S).mulVec w = 0 :=
  ⟨toVec n v, checkPositive_sound' m n S v h⟩

/-- **C17, certified "not consistent".** -/
theorem not_consistent_cert_sound (m n : ℕ) (S : Ent) (y : QVec)
    (h : checkNotConsistent m n S y = true) :
    ¬ ∃ w : Fin n → ℚ, (∀ j, 0 < w j) ∧ (toMat m n S).mulVec w = 0 :=
  checkAlternative_sound' m n S y h

/-- Non-vacuity: the reversible pair `A ⇌ B` is conservative `(1,1)` and consistent `(1,1)`;
`A → B` alone is conservative but not consistent (`y = (0,1)`), `∅ → A` is neither
(`v = (1)`, `y = (1)`). -/
example : checkPositiveLeftKernel 2 2 (entI [[-1, 1], [1, -1]]) [1, 1] = true ∧
    checkPositiveRightKernel 2 2 (entI [[-1, 1], [1, -1]]) [1, 1] = true ∧
    checkPositiveLeftKernel 2 1 (entI [[-1], [1]]) [1, 1] = true ∧
    checkNotConsistent 2 1 (entI [[-1], [1]]) [0, 1] = true ∧
    checkNotConservative 1 1 (entI [[1]]) [1] = true ∧
    checkNotConsistent 1 1 (entI [[1]]) [1] = true := by decide +kernel

/-! ## The code's own decision procedures -/

/-- **C17, decision logic of `is_conservative`** (as written). `B` (`m × k`) is an exact basis
of the left kernel of `S` (`KerCols` + `SpansKer`) whose non-zero entries exceed the margin
`eps` in absolute value, and `lp` is a *correct* answer to the LP `min Σa, B a ≥ eps`. Then

1. a verdict `True` is always right;
2. a verdict `False` is right **except possibly when the LP stage was reached** (`k ≥ 2`, no
   sign-definite basis column) **and the LP is feasible** — which is exactly when the network is
   conservative (`infeasible_no_posKer`); this is the class `lp_stage` of finding F2, and
   `conservative_unbounded_witness` shows the exception is real;
3. the verdict is `None` only without SciPy.

So outside the LP stage `is_conservative = True ↔ conservative` (`conservative_logic_outside_lp`). -/
theorem conservative_logic (m n k : ℕ) (S B : Ent) (eps : ℚ) (scipy : Bool) (lp : LPOut)
    (hm : 0 < m) (hn : n ≠ 0) (heps : 0 < eps)
    (hK : KerCols n m k (entT S) B) (hS : SpansKer n m k (entT S) B)
    (hmargin : ∀ i, i < m → ∀ c, c < k → B i c = 0 ∨ eps < |B i c|)
    (hlp : LPCorrectLaw m k B eps lp) :
    (isConservativeQ m n k B eps scipy lp = some true → Conservative m n S) ∧
    (isConservativeQ m n k B eps scipy lp = some false →
      ¬ Conservative m n S ∨ (lpStage m k B eps scipy = true ∧ lp ≠ .infeasible)) ∧
    (isConservativeQ m n k B eps scipy lp = none → scipy = false ∧ 2 ≤ k) :=
  conservative_logic' m n k S B eps scipy lp hm hn heps hK hS hmargin hlp

/-- Corollary: with SciPy and outside the LP stage the verdict is `True` exactly when a strictly
positive conservation law exists (Mathlib form). -/
theorem conservative_logic_outside_lp (m n k : ℕ) (S B : Ent) (eps : ℚ) (lp : LPOut)
    (hm : 0 < m) (hn : n ≠ 0) (heps : 0 < eps)
    (hK : KerCols n m k (entT S) B) (hS : SpansKer n m k (entT S) B)
    (hmargin : ∀ i, i < m → ∀ c, c < k → B i c = 0 ∨ eps < |B i c|)
    (hlp : LPCorrectLaw m k B eps lp) (hstage : lpStage m k B eps true = false) :
    isConservativeQ m n k B eps true lp = some true ↔
      ∃ w : Fin m → ℚ, (∀ i, 0 < w i) ∧ Matrix.vecMul w (toMat m n S) = 0 := by
  obtain ⟨h1, h2, h3⟩ := conservative_logic' m n k S B eps true lp hm hn heps hK hS hmargin hlp
  rw [← conservative_iff]
  refine ⟨h1, fun hc => ?_⟩
  cases hv : isConservativeQ m n k B eps true lp with
  | none => exact absurd (h3 hv).1 (by simp)
  | some b =>
    cases b
    · rcases h2 hv with h | ⟨h, _⟩
      · exact absurd hc h
      · rw [hstage] at h; cases h
    · rfl

/-- **C17 fails for `is_conservative` as written (finding F2).** The network `C + B → F + A`
(species order A, B, C, F) is conservative — `(1,1,1,1)` is a checked positive law — yet with the
exact left-kernel basis `(1,1,0,0), (0,0,1,1), (−1,0,−1,0)`, which has no sign-definite column,
the code goes to the LP `min a₁+a₂+a₃, B a ≥ eps`; that LP is feasible and unbounded
(`a = (eps, eps, −t)` is feasible for every `t ≥ 0` with objective `2·eps − t`), a correct solver
says so, and the verdict is `False`. -/
theorem conservative_unbounded_witness :
    let S := entI [[1], [-1], [-1], [1]]
    let B := entQ [[1, 0, -1], [1, 0, 0], [0, 1, -1], [0, 1, 0]]
    let eps : ℚ := 1 / 100000000
    checkPositiveLeftKernel 4 1 S [1, 1, 1, 1] = true ∧
    KerCols 1 4 3 (entT S) B ∧
    lpStage 4 3 B eps true = true ∧
    (∀ t : ℚ, 0 ≤ t → ∀ i, i < 4 → eps ≤ combo 3 B [eps, eps, -t] i) ∧
    LPCorrectLaw 4 3 B eps .unbounded ∧
    isConservativeQ 4 1 3 B eps true .unbounded = some false :=
  conservative_unbounded_witness'

/-- **C17 fails for `is_conservative` on every conservative network that reaches the LP stage
(finding F2, exact-arithmetic form).** If the LP stage is reached (`k ≥ 2`, no sign-definite basis
column, SciPy present) and the solver's `optimal` answers are true optima of
`min Σa, B a ≥ eps`, the verdict is `False` whatever the LP answers: at an optimum some
constraint is tight (`lp_optimum_is_tight`), so the strict test `np.all(B a > eps)` fails. The
handful of `True` verdicts observed at this stage on the real code come from rounding in
`B @ a > eps`. (DESIGN §5 expected the decision to be right "with a bounded objective"; it is
not.) -/
theorem conservative_lp_stage_never_true (m n k : ℕ) (B : Ent) (eps : ℚ) (lp : LPOut) (hn : n ≠ 0)
    (hstage : lpStage m k B eps true = true)
    (hopt : ∀ a, lp = .optimal a → LPOptimalLaw m k B eps a) :
    isConservativeQ m n k B eps true lp = some false :=
  conservative_lp_stage_never_true' m n k B eps lp hn hstage hopt

/-- Non-vacuity: for `C + B → F + A` with the basis `(1,1,0,0), (0,0,1,1), (1,0,1,0)` the LP is
bounded with optimum `a = (eps, eps, 0)`, every constraint is tight, and the verdict is `False`
although `(1,1,1,1)` is a positive law. -/
example : lpStage 4 3 (entQ [[1, 0, 1], [1, 0, 0], [0, 1, 1], [0, 1, 0]]) (1 / 100000000) true = true ∧
    isConservativeQ 4 1 3 (entQ [[1, 0, 1], [1, 0, 0], [0, 1, 1], [0, 1, 0]]) (1 / 100000000) true
      (.optimal [1 / 100000000, 1 / 100000000, 0]) = some false ∧
    checkPositiveLeftKernel 4 1 (entI [[1], [-1], [-1], [1]]) [1, 1, 1, 1] = true := by decide +kernel

/-- **C17, decision logic of `is_consistent`** (after draft repair 0004). `R` (`n × k`) is an
exact basis of the right kernel of `S`, `lp` a correct answer to `min Σv, S v = 0, v ≥ 1`,
`0 ≤ eps < 1`. Then a verdict `True` is right, a verdict `False` is right, and whenever the LP
gave an answer the verdict is not `None`: `is_consistent = True ↔ consistent`
(`consistent_logic_iff`). -/
theorem consistent_logic (m n k : ℕ) (S R : Ent) (eps tol : ℚ) (scipy : Bool) (lp : LPOut)
    (hn : 0 < n) (heps0 : 0 ≤ eps) (heps1 : eps < 1) (htol : 0 ≤ tol)
    (hK : KerCols m n k S R) (hS : SpansKer m n k S R) (hlp : LPCorrectFlux m n S lp) :
    (isConsistentQ m n k S R eps tol scipy lp = some true → Consistent m n S) ∧
    (isConsistentQ m n k S R eps tol scipy lp = some false → ¬ Consistent m n S) ∧
    (scipy = true → lp ≠ .failed → isConsistentQ m n k S R eps tol scipy lp ≠ none) :=
  consistent_logic' m n k S R eps tol scipy lp hn heps0 heps1 htol hK hS hlp

/-- Corollary in Mathlib form. -/
theorem consistent_logic_iff (m n k : ℕ) (S R : Ent) (eps tol : ℚ) (lp : LPOut)
    (hn : 0 < n) (heps0 : 0 ≤ eps) (heps1 : eps < 1) (htol : 0 ≤ tol)
    (hK : KerCols m n k S R) (hS : SpansKer m n k S R) (hlp : LPCorrectFlux m n S lp)
    (hans : lp ≠ .failed) :
    isConsistentQ m n k S R eps tol true lp = some true ↔
      ∃ v : Fin n → ℚ, (∀ j, 0 < v j) ∧ (toMat m n S).mulVec v = 0 := by
  obtain ⟨h1, h2, h3⟩ := consistent_logic' m n k S R eps tol true lp hn heps0 heps1 htol hK hS hlp
  rw [← consistent_iff]
  refine ⟨h1, fun hc => ?_⟩
  cases hv : isConsistentQ m n k S R eps tol true lp with
  | none => exact absurd hv (h3 rfl hans)
  | some b =>
    cases b
    · exact absurd hc (h2 hv)
    · rfl

/-- Non-vacuity of the logic theorems: on `A ⇌ B` with the kernel bases `(1,1)` the modelled
procedures answer `True` / `True`; on `A → B` the LP of `is_consistent` is infeasible and the
answer is `False`. -/
example : isConservativeQ 2 2 1 (entQ [[1], [1]]) (1 / 100000000) true .failed = some true ∧
    isConsistentQ 2 2 1 (entI [[-1, 1], [1, -1]]) (entQ [[1], [1]]) (1 / 100000000) (1 / 100000000) true
      (.optimal [1, 1]) = some true ∧
    isConsistentQ 2 1 0 (entI [[-1], [1]]) (entQ []) (1 / 100000000) (1 / 100000000) true .infeasible
      = some false := by decide +kernel

/-- Non-vacuity of the hypotheses of `conservative_logic` / `consistent_logic`: for `A ⇌ B`
the vector `(1,1)` is an exact basis of both kernels (columns in the kernel, spanning, margin),
any LP answer `failed` is vacuously correct, and the theorems then yield the positive law /
flux from the modelled verdict `True`. -/
example : Conservative 2 2 (entI [[-1, 1], [1, -1]]) ∧ Consistent 2 2 (entI [[-1, 1], [1, -1]]) := by
  have hK : KerCols 2 2 1 (entT (entI [[-1, 1], [1, -1]])) (entQ [[1], [1]]) := by
    intro c hc i hi
    have hc' : c = 0 := by omega
    have hi' : i = 0 ∨ i = 1 := by omega
    subst hc'
    rcases hi' with rfl | rfl <;> simp [sumTo, entT, entI, entryI, entQ]
  have hS : SpansKer 2 2 1 (entT (entI [[-1, 1], [1, -1]])) (entQ [[1], [1]]) := by
    intro x hx
    have h0 := hx 0 (by omega)
    simp [sumTo, entT, entI, entryI] at h0
    refine ⟨fun _ => x 0, fun j hj => ?_⟩
    have hj' : j = 0 ∨ j = 1 := by omega
    rcases hj' with rfl | rfl <;> (simp [sumTo, entQ]; try linarith)
  have hK2 : KerCols 2 2 1 (entI [[-1, 1], [1, -1]]) (entQ [[1], [1]]) := by
    intro c hc i hi
    have hc' : c = 0 := by omega
    have hi' : i = 0 ∨ i = 1 := by omega
    subst hc'
    rcases hi' with rfl | rfl <;> simp [sumTo, entI, entryI, entQ]
  have hS2 : SpansKer 2 2 1 (entI [[-1, 1], [1, -1]]) (entQ [[1], [1]]) := by
    intro x hx
    have h0 := hx 0 (by omega)
    simp [sumTo, entI, entryI] at h0
    refine ⟨fun _ => x 0, fun j hj => ?_⟩
    have hj' : j = 0 ∨ j = 1 := by omega
    rcases hj' with rfl | rfl <;> (simp [sumTo, entQ]; try linarith)
  have hmargin : ∀ i, i < 2 → ∀ c, c < 1 → entQ [[1], [1]] i c = 0 ∨ (1 / 100000000 : ℚ) < |entQ [[1], [1]] i c| := by
    intro i hi c hc
    have hc' : c = 0 := by omega
    have hi' : i = 0 ∨ i = 1 := by omega
    subst hc'
    rcases hi' with rfl | rfl <;> (right; simp [entQ]; norm_num)
  constructor
  · exact (conservative_logic 2 2 1 _ _ (1 / 100000000) true .failed (by norm_num) (by norm_num)
      (by norm_num) hK hS hmargin trivial).1 (by decide +kernel)
  · exact (consistent_logic 2 2 1 _ _ (1 / 100000000) (1 / 100000000) true .failed (by norm_num)
      (by norm_num) (by norm_num) (by norm_num) hK2 hS2 trivial).1 (by decide +kernel)

/-! ## The property as one statement -/

/-- C17 at the strength the machine-checked side can carry: the matrix clauses for every
network, soundness of every certificate checker against Mathlib's notions, and correctness of the
modelled decision procedures given correct oracle answers — with the LP-stage exception of
`is_conservative` spelled out (it is a *failure* of the property, finding F2, exhibited by
`conservative_unbounded_witness`). The remaining link — that the numbers NumPy/SciPy report are
the certified ones — is discharged per run by the correspondence check. -/
def C17.FullStatement : Prop :=
  (∀ (N : Net) (res : SResult), buildS N = .ok res →
    (∀ e ∈ N.edges, e.reactants.keys.Nodup ∧ e.products.keys.Nodup) →
    res.species = speciesOrder N ∧ (speciesOrder N).Perm (speciesSet N) ∧
    (rxnOrder N).Perm N.edges ∧ (rxnOrder N).Perm (viewOrder N) ∧
    res.S.length = res.species.length ∧ (∀ row ∈ res.S, row.length = N.edges.length) ∧
    ∀ i j (hi : i < (speciesOrder N).length) (hj : j < (rxnOrder N).length),
      entryI res.S i j = coeff ((rxnOrder N)[j]).products ((speciesOrder N)[i])
        - coeff ((rxnOrder N)[j]).reactants ((speciesOrder N)[i]) ∧
      entryI res.S i j = (incidenceEdge ((rxnOrder N)[j])).getD ((speciesOrder N)[i]) 0) ∧
  (∀ m n S c, checkRank m n S c = true →
    (toMat m n S).rank = c.cols.length ∧
    Module.finrank ℚ (LinearMap.ker (toMat m n S).mulVecLin) = n - c.cols.length ∧
    Module.finrank ℚ (LinearMap.ker (toMat m n S)ᵀ.mulVecLin) = m - c.cols.length) ∧
  (∀ m n A r B L, checkKernelBasis m n A r B L = true →
    B.length + r = n ∧ (∀ a : Fin B.length, (toMat m n A).mulVec (toVec n (B.getD a [])) = 0) ∧
    LinearIndependent ℚ (fun a : Fin B.length => toVec n (B.getD a []))) ∧
  (∀ m n S mv, checkPositiveLeftKernel m n S mv = true →
    ∃ w : Fin m → ℚ, (∀ i, 0 < w i) ∧ Matrix.vecMul w (toMat m n S) = 0) ∧
  (∀ m n S v, checkNotConservative m n S v = true →
    ¬ ∃ w : Fin m → ℚ, (∀ i, 0 < w i) ∧ Matrix.vecMul w (toMat m n S) = 0) ∧
  (∀ m n S v, checkPositiveRightKernel m n S v = true →
    ∃ w : Fin n → ℚ, (∀ j, 0 < w j) ∧ (toMat m n S).mulVec w = 0) ∧
  (∀ m n S y, checkNotConsistent m n S y = true →
    ¬ ∃ w : Fin n → ℚ, (∀ j, 0 < w j) ∧ (toMat m n S).mulVec w = 0) ∧
  (∀ m n k S B eps lp, 0 < m → n ≠ 0 → 0 < eps → KerCols n m k (entT S) B → SpansKer n m k (entT S) B →
    (∀ i, i < m → ∀ c, c < k → B i c = 0 ∨ eps < |B i c|) → LPCorrectLaw m k B eps lp →
    (isConservativeQ m n k B eps true lp = some true →
      ∃ w : Fin m → ℚ, (∀ i, 0 < w i) ∧ Matrix.vecMul w (toMat m n S) = 0) ∧
    (lpStage m k B eps true = false →
      (isConservativeQ m n k B eps true lp = some true ↔
        ∃ w : Fin m → ℚ, (∀ i, 0 < w i) ∧ Matrix.vecMul w (toMat m n S) = 0))) ∧
  (∀ m n k S R eps tol lp, 0 < n → 0 ≤ eps → eps < 1 → 0 ≤ tol → KerCols m n k S R → SpansKer m n k S R →
    LPCorrectFlux m n S lp → lp ≠ .failed →
    (isConsistentQ m n k S R eps tol true lp = some true ↔
      ∃ v : Fin n → ℚ, (∀ j, 0 < v j) ∧ (toMat m n S).mulVec v = 0))

theorem C17.full : C17.FullStatement := by
  refine ⟨?_, ?_, ?_, ?_, ?_, ?_, ?_, ?_, ?_⟩
  · intro N res h wf
    obtain ⟨a1, a2, _, a4, a5, _⟩ := buildS_orders' N res h
    obtain ⟨_, b2, b3, b4⟩ := buildS_shape' N res h
    exact ⟨a1, a2, a4, a5, b3, fun row hr => (b4 row hr).trans b2,
      fun i j hi hj => buildS_entry' N res h wf i j hi hj⟩
  · intro m n S c h
    exact ⟨checkRank_sound' m n S c h, kernel_dims' m n S c h⟩
  · intro m n A r B L h; exact checkKernelBasis_sound' m n A r B L h
  · intro m n S mv h; exact conservative_cert_sound' m n S mv h
  · intro m n S v h; exact not_conservative_cert_sound' m n S v h
  · intro m n S v h; exact consistent_cert_sound m n S v h
  · intro m n S y h; exact not_consistent_cert_sound m n S y h
  · intro m n k S B eps lp hm hn heps hK hS hmargin hlp
    refine ⟨fun h => (conservative_iff m n S).1
      ((conservative_logic' m n k S B eps true lp hm hn heps hK hS hmargin hlp).1 h), fun hst => ?_⟩
    exact conservative_logic_outside_lp m n k S B eps lp hm hn heps hK hS hmargin hlp hst
  · intro m n k S R eps tol lp hn h0 h1 ht hK hS hlp hans
    exact consistent_logic_iff m n k S R eps tol lp hn h0 h1 ht hK hS hlp hans

end SynKit.Stoich

/-! ## The graph entry path

C17 quantifies over every reaction network; the theorems above take the network as a `Net`. The
code also accepts a plain bipartite NetworkX graph. These theorems tie the model of that entry
path (`SynKitModel/BipGraph.lean`: `_as_bipartite`, `_split_species_reactions`,
`_species_and_reaction_order`, `build_S_minus_plus`) to the network-level model, so that every
statement about `buildS N` is a statement about `build_S(G)` for `N = netOfGraph G`. -/
namespace SynKit.BipGraph
open SynKit.Stoich

/-- **C17, clause "S has one row per species, one column per reaction, entry produced −
consumed", graph input.** For a well-formed bipartite graph (node ids distinct, species labels
distinct, coefficients non-negative; arcs not joining a species node to a reaction node, and roles
other than `"reactant"` / `"product"`, are ignored on both sides) whose reaction labels are
pairwise distinct, the code's reading of the graph is the network-level model applied to the
described network `netOfGraph g`: `S⁻`, `S⁺`, `S = S⁺ − S⁻` and the full result of `build_S`
(species labels, reaction labels, matrix, or `ValueError`) coincide, rows and columns in the
same order. The only order hypothesis is `ReactionLabelsDistinct`: with tied reaction labels the
graph keeps tied columns in `G.nodes` order while the network model keeps them in reaction-id
order (see `graphS_eq_buildS_upto_ties`). -/
theorem graphS_eq_buildS (g : BipGraph) (wf : WF g) (hr : ReactionLabelsDistinct g) :
    graphSMinus g = buildSMinus (netOfGraph g) ∧ graphSPlus g = buildSPlus (netOfGraph g) ∧
    graphS g = matSub (buildSPlus (netOfGraph g)) (buildSMinus (netOfGraph g)) ∧
    graphBuildS g = buildS (netOfGraph g) := graphS_eq_buildS' g wf hr

/-- **C17, same clause, reaction labels possibly tied.** Without any hypothesis on reaction
labels: rows are the species order of the described network; the graph's columns `cols` are a
permutation of the network's column order carrying the same sequence of rule labels (so the two
orders differ at most inside groups of equally labelled reactions); and `S⁻`, `S⁺` are the
consumed / produced counts of the described network laid out over those rows and columns. -/
theorem graphS_eq_buildS_upto_ties (g : BipGraph) (wf : WF g) :
    let N := netOfGraph g
    let cols := (reactionCols g).map (edgeOfNode g)
    rowLabels g = speciesOrder N ∧
    cols.Perm (rxnOrder N) ∧ cols.map (·.rule) = (rxnOrder N).map (·.rule) ∧
    colLabels g = (rxnOrder N).map (·.rule) ∧
    graphSMinus g = ((speciesOrder N).map fun x => cols.map fun e => sumCoeff e.reactants x) ∧
    graphSPlus g = ((speciesOrder N).map fun x => cols.map fun e => sumCoeff e.products x) :=
  graphS_eq_buildS_upto_ties' g wf

/-- **C17, graph input: direction of the arcs is irrelevant.** Reversing any subset of the arcs
of a directed graph (`DiGraph` / `MultiDiGraph`) changes nothing `build_S_minus_plus` / `build_S`
return. For a non-multi `DiGraph` the hypothesis `ArcsSimple` (before and after) says that no two
arcs occupy the same ordered pair, i.e. NetworkX overwrites nothing; it is necessary (second
example below). -/
theorem graphS_orientation_invariant (g g' : BipGraph) (hn : g'.nodes = g.nodes)
    (hd : g.directed = true) (hd' : g'.directed = true) (hm : g'.multi = g.multi)
    (ha : Reoriented g.arcs g'.arcs) (hs : g.multi = true ∨ (ArcsSimple g ∧ ArcsSimple g')) :
    graphSMinus g' = graphSMinus g ∧ graphSPlus g' = graphSPlus g ∧ graphS g' = graphS g ∧
    graphBuildS g' = graphBuildS g := graphS_orientation_invariant' g g' hn hd hd' hm ha hs

/-- **C17, graph input: undirected = directed (repaired F27 / F28 / F37).** An undirected graph
(`Graph` / `MultiGraph`) and the directed graph of the same class of multiplicity holding the same
edges, each written in an arbitrary direction, give the same `S⁻`, `S⁺`, `S`, `build_S` result:
`_as_bipartite` + `build_S_minus_plus` count every undirected edge exactly once, parallel edges of
a `MultiGraph` all count. -/
theorem graphS_undirected_eq_directed (g g' : BipGraph) (hid : IdsDistinct g) (hn : g'.nodes = g.nodes)
    (hd : g.directed = false) (hd' : g'.directed = true) (hm : g'.multi = g.multi)
    (ha : Reoriented g.arcs g'.arcs) (hs : g.multi = true ∨ ArcsSimple g) :
    graphSMinus g' = graphSMinus g ∧ graphSPlus g' = graphSPlus g ∧ graphS g' = graphS g ∧
    graphBuildS g' = graphBuildS g := graphS_undirected_eq_directed' g g' hid hn hd hd' hm ha hs

/-- **C17, graph input: a missing `stoich` is 1.** Writing `stoich = 1` on every edge that has
none changes nothing `build_S_minus_plus` / `build_S` return. -/
theorem graphS_missing_stoich (g g' : BipGraph) (hn : g'.nodes = g.nodes) (hd : g'.directed = g.directed)
    (hm : g'.multi = g.multi) (ha : g'.arcs = g.arcs.map BArc.fillStoich)
    (hs : g.multi = true ∨ ArcsSimple g) :
    graphSMinus g' = graphSMinus g ∧ graphSPlus g' = graphSPlus g ∧ graphS g' = graphS g ∧
    graphBuildS g' = graphBuildS g := graphS_missing_stoich' g g' hn hd hm ha hs

/-! ### Non-vacuity: `2 B → A` with a catalyst `C` on both sides

Nodes are inserted reaction first, species not in label order; `b` is typed by the flag only, `c`
carries `kind = "species"` and a contradicting flag, `a` has no label. The edges of `B` and of the
catalyst (reactant side) are written without / with `stoich`, the product edge of `A` without. -/

def exNodes : List BNode :=
  [⟨"r", some "reaction", none, some "R"⟩, ⟨"c", some "species", some 1, some "C"⟩,
   ⟨"b", none, some 0, some "B"⟩, ⟨"a", some "species", none, none⟩]

/-- canonical orientation: reactant `species → reaction`, product `reaction → species` -/
def exArcs : List BArc :=
  [⟨"b", "r", some "reactant", some 2⟩, ⟨"r", "a", some "product", none⟩,
   ⟨"c", "r", some "reactant", none⟩, ⟨"r", "c", some "product", some 1⟩]

/-- the `B` edge and the product edge of the catalyst written the other way round -/
def exArcsFlipped : List BArc :=
  [⟨"r", "b", some "reactant", some 2⟩, ⟨"r", "a", some "product", none⟩,
   ⟨"c", "r", some "reactant", none⟩, ⟨"c", "r", some "product", some 1⟩]

def exDi : BipGraph := ⟨exNodes, exArcs, true, false⟩
def exMultiDi : BipGraph := ⟨exNodes, exArcs, true, true⟩
def exMultiDiFlipped : BipGraph := ⟨exNodes, exArcsFlipped, true, true⟩
def exMulti : BipGraph := ⟨exNodes, exArcsFlipped, false, true⟩
/-- `nx.Graph`: one edge per pair, so the network is written without the reactant edge of `C` -/
def exGraph : BipGraph := ⟨exNodes, exArcsFlipped.take 2 ++ [⟨"c", "r", some "product", none⟩], false, false⟩
def exDiOfGraph : BipGraph := ⟨exNodes, exArcs.take 2 ++ [⟨"r", "c", some "product", none⟩], true, false⟩

theorem exReoriented : Reoriented exArcs exArcsFlipped := .flip _ (.keep _ (.keep _ (.flip _ .nil)))

/-- (a) on the `DiGraph`, the `MultiGraph` and the `Graph`: hypotheses hold, both sides are the
expected `Ok` value (the catalyst cancels in `S` and shows in `S⁻`, `S⁺`). -/
example : wfB exDi = true ∧ wfB exMulti = true ∧ wfB exGraph = true ∧
    graphBuildS exDi = .ok ⟨["B", "C", "a"], ["R"], [[-2], [0], [1]]⟩ ∧
    buildS (netOfGraph exDi) = .ok ⟨["B", "C", "a"], ["R"], [[-2], [0], [1]]⟩ ∧
    graphSMinus exDi = [[2], [1], [0]] ∧ graphSPlus exDi = [[0], [1], [1]] ∧
    graphBuildS exMulti = .ok ⟨["B", "C", "a"], ["R"], [[-2], [0], [1]]⟩ ∧
    graphSMinus exMulti = [[2], [1], [0]] ∧ buildSMinus (netOfGraph exMulti) = [[2], [1], [0]] ∧
    graphBuildS exGraph = .ok ⟨["B", "C", "a"], ["R"], [[-2], [1], [1]]⟩ ∧
    buildS (netOfGraph exGraph) = .ok ⟨["B", "C", "a"], ["R"], [[-2], [1], [1]]⟩ := by decide

example : WF exMulti ∧ ReactionLabelsDistinct exMulti := wf_of_wfB _ (by decide)

/-- (b): hypotheses satisfiable on a `MultiDiGraph`, and both readings are the expected matrix. -/
example : exMultiDiFlipped.nodes = exMultiDi.nodes ∧ exMultiDi.multi = true ∧
    Reoriented exMultiDi.arcs exMultiDiFlipped.arcs ∧
    graphS exMultiDiFlipped = [[-2], [0], [1]] ∧ graphS exMultiDi = [[-2], [0], [1]] :=
  ⟨rfl, rfl, exReoriented, by decide, by decide⟩

/-- (b): the side condition is necessary. On a non-multi `DiGraph` the same reversal makes the
product arc of the catalyst overwrite its reactant arc (`ArcsSimple` fails after the reversal) and
the matrix changes — NetworkX's behaviour, not the reader's. -/
example : ArcsSimple exDi ∧ ¬ ArcsSimple ⟨exNodes, exArcsFlipped, true, false⟩ ∧
    graphS exDi = [[-2], [0], [1]] ∧
    graphS ⟨exNodes, exArcsFlipped, true, false⟩ = [[-2], [1], [1]] := by decide

/-- (c): `MultiGraph` vs `MultiDiGraph`, and `Graph` vs `DiGraph`, edges written in different
directions: hypotheses hold and the matrices are the expected ones. -/
example : IdsDistinct exMulti ∧ exMulti.directed = false ∧ exMultiDi.directed = true ∧
    Reoriented exMultiDi.arcs exMulti.arcs ∧
    graphSMinus exMulti = [[2], [1], [0]] ∧ graphSMinus exMultiDi = [[2], [1], [0]] ∧
    graphSPlus exMulti = [[0], [1], [1]] ∧ graphSPlus exMultiDi = [[0], [1], [1]] ∧
    IdsDistinct exGraph ∧ ArcsSimple exGraph ∧
    graphS exGraph = [[-2], [1], [1]] ∧ graphS exDiOfGraph = [[-2], [1], [1]] :=
  ⟨by decide, rfl, rfl, exReoriented, by decide, by decide, by decide, by decide, by decide,
    by decide, by decide, by decide⟩

/-- (d): two of the four edges have no `stoich`; spelling it out gives the same result. -/
example : exMulti.arcs.map BArc.fillStoich ≠ exMulti.arcs ∧
    graphBuildS ⟨exNodes, exMulti.arcs.map BArc.fillStoich, false, true⟩ = graphBuildS exMulti := by
  decide

/-- The `ValueError` branch agrees too: a graph without reaction nodes. -/
example : graphBuildS ⟨[⟨"a", some "species", none, none⟩], [], true, false⟩ = .error .valueError ∧
    buildS (netOfGraph ⟨[⟨"a", some "species", none, none⟩], [], true, false⟩) = .error .valueError := by
  decide

end SynKit.BipGraph

import SynKitModel.CrnCanon
import SynKitProofs.CrnCanonLemmas
import SynKitProofs.CrnIRLemmas
import SynKitProofs.CrnIRViews
import SynKitProofs.CrnIRDepth
/-!
# C18 — network canonical form is a complete invariant; automorphism data are exact

Property theorems only; helper lemmas live in `SynKitProofs/CrnCanonLemmas.lean`.

The property has five clauses.  On the model (`SynKitModel/CrnCanon.lean`: the two views as
directed attribute graphs, the specification `IsIsoF`/`IsIsoD` of a structure-preserving map with
the configured node / arc keys, the enumerator `allIsoD`, `canonBy`, `canonBruteD`, `orbitsD`):

1. *the canonical graph is isomorphic to the view it was computed from* — `canon_faithful`, for
   **every** node order, so the order found by the individualisation–refinement search (an
   external parameter, `canonical_perm`) need not be trusted;
2. *networks whose views are not isomorphic receive different canonical graphs* — `canon_kernel`
   (contrapositive: key-identical canonical graphs, whatever orders produced them, force
   isomorphic views);
3. *networks differing only by names receive identical canonical graphs* — proved in three
   steps: renaming species / reordering reactions / regenerating ids gives isomorphic views
   (`viewBip_iso_of_sameUpToNames`, `viewSpecies_iso_of_sameUpToNames`); isomorphic views have the
   same specification-level exact form (`canonBruteD_invariant` / `canonBruteD_complete`:
   isomorphic ⇔ equal form; network level: `canonBruteD_sameUpToNames_bip/_species`); and canonical
   graphs taken along *corresponding* orders are identical on the keys (`canon_equivariant`).
   `FullStatement` below states clause 3 for `canonBruteD`.  That the implementation's IR search
   itself returns corresponding orders (up to an automorphism) on isomorphic inputs is proved in
   the last section of this file (`crn_ir_invariant`, `crn_ir_sameUpToNames_bip/_species`,
   `C18.IRStatement`) over the model `SynKitModel/CrnIR.lean` of `_search`;
4. *the automorphism count is the number of structure-preserving self-maps* — `mem_allIsoD`,
   `allIsoD_nodup`, `autcount_spec`;
5. *the orbits are exactly the classes of nodes exchangeable by automorphisms* —
   `orbits_partition_exact` (and `orbitsFast_eq` for the form the driver evaluates).
-/
namespace SynKit.CrnCanon

/-- **C18, engine.** The back-tracking enumerator returns exactly the structure-preserving maps
of `P` onto `H` (directed arcs, self-loops included, node and arc attributes compared on the
configured keys with `.get` semantics): sound and complete. -/
theorem mem_allIsoD (sel : SelD) (H P : LGraph) (hP : P.ids.Nodup) (m : Mapping) :
    m ∈ allIsoD sel H P ↔ IsIsoD sel H P m := mem_allIsoD' sel H P hP m

/-- **C18, engine.** … and lists none of them twice. -/
theorem allIsoD_nodup (sel : SelD) (H P : LGraph) (hH : H.ids.Nodup) : (allIsoD sel H P).Nodup :=
  allIsoD_nodup' sel H P hH

/-- **C18, engine.** The isomorphism decision used by the kernel-agreement gate is exact. -/
theorem isoDecideD_iff (sel : SelD) (H P : LGraph) (hP : P.ids.Nodup) :
    isoDecideD sel H P = true ↔ ∃ f, IsIsoF sel H P f := isoDecideD_iff' sel H P hP

/-- **C18, clause 1 (faithful).** For every order `perm` of the nodes the relabelled graph
`canonBy G perm` (ids `i + 1` along `perm`) is isomorphic to the view — under every choice of
keys, since all node attributes and all arcs with all their attributes are kept — and its node
ids are exactly `1..N`. -/
theorem canon_faithful (sel : SelD) (G : LGraph) (perm : List Nat) (hG : WFD G) (hperm : IsOrder G perm) :
    IsIsoF sel (canonBy G perm) G (posOf perm) ∧
    (canonBy G perm).ids.Perm (List.range' 1 G.ids.length) ∧
    (∀ v ∈ G.ids, (canonBy G perm).attrs (posOf perm v) = G.attrs v) ∧
    (∀ u ∈ G.ids, ∀ v ∈ G.ids, (canonBy G perm).arc? (posOf perm u) (posOf perm v) = G.arc? u v) :=
  canon_faithful' sel G perm hG hperm

/-- **C18, clause 2 (non-isomorphic views get different canonical graphs).** If two canonical
graphs — for whatever orders — are identical on the configured keys (the identity map is
structure preserving between them), the two views are isomorphic. -/
theorem canon_kernel (sel : SelD) (G G' : LGraph) (perm perm' : List Nat) (hG : WFD G) (hG' : WFD G')
    (hp : IsOrder G perm) (hp' : IsOrder G' perm')
    (hsame : IsIsoF sel (canonBy G perm) (canonBy G' perm') id) : ∃ f, IsIsoF sel G G' f :=
  canon_kernel' sel G G' perm perm' hG hG' hp hp' hsame

/-- **C18, clause 3 on the exact canonical form (invariance).** Isomorphic views have the same
brute-force canonical form (least serialisation over all node orders). -/
theorem canonBruteD_invariant (sel : SelD) (H P : LGraph) (hH : H.ids.Nodup) (hP : P.ids.Nodup)
    (h : ∃ f, IsIsoF sel H P f) : canonBruteD sel H = canonBruteD sel P :=
  canonBruteD_invariant' sel H P hH hP h

/-- **C18, clause 3 on the exact canonical form (completeness).** Equal forms only for
isomorphic views. -/
theorem canonBruteD_complete (sel : SelD) (H P : LGraph) (hH : H.ids.Nodup) (hP : P.ids.Nodup)
    (h : canonBruteD sel H = canonBruteD sel P) : ∃ f, IsIsoF sel H P f :=
  canonBruteD_complete' sel H P hH hP h

/-- **C18, clause 4 (count).** `automorphism_count` of the model is the length of a
duplicate-free list whose members are exactly the structure-preserving self-maps of the view,
i.e. their number. -/
theorem autcount_spec (sel : SelD) (G : LGraph) (hG : G.ids.Nodup) :
    autCountD sel G = (autsD sel G).length ∧ (autsD sel G).Nodup ∧ ∀ m, m ∈ autsD sel G ↔ IsIsoD sel G G m :=
  autcount_spec' sel G hG

/-- **C18, clause 5 (orbits).** The orbit list is a partition of the node set (no empty class,
classes inside the node set, every node covered, distinct entries disjoint) and two nodes share a
class exactly when some structure-preserving self-map sends one to the other. -/
theorem orbits_partition_exact (sel : SelD) (G : LGraph) (hG : G.ids.Nodup) :
    IsPartition (orbitsD sel G) G.ids ∧
    ∀ u ∈ G.ids, ∀ v ∈ G.ids, (SameClass (orbitsD sel G) u v ↔ ∃ σ ∈ autsD sel G, app σ u = v) :=
  orbits_partition_exact' sel G hG

/-- **C18, clause 5 for the code's own procedure (union–find).** Both analysers do not take images
of a node under all automorphisms; they *merge*: `_orbits_from_perms` merges position-wise, the VF2
analyser calls `union(src, dst)` for every pair of every mapping consumed.  For any node list and
any list of mappings over it, that merging yields a partition whose classes are exactly the
equivalence closure of the generator pairs … -/
theorem orbitsUF_spec (ids : List Nat) (maps : List Mapping) (hids : ids.Nodup)
    (hmaps : ∀ m ∈ maps, ∀ sd ∈ m, sd.1 ∈ ids ∧ sd.2 ∈ ids) :
    IsPartition (orbitsUF ids maps) ids ∧
    ∀ u ∈ ids, ∀ v ∈ ids, (SameClass (orbitsUF ids maps) u v ↔ Relation.EqvGen (GenRel maps) u v) :=
  orbitsUF_spec' ids maps hids hmaps

/-- … and, fed with all structure-preserving self-maps (which are closed under composition and
inverse: `isIsoF_trans`, `isIsoF_symm`), exactly the orbit partition. -/
theorem orbitsUF_auts (sel : SelD) (G : LGraph) (hG : G.ids.Nodup) :
    IsPartition (orbitsUF G.ids (autsD sel G)) G.ids ∧
    ∀ u ∈ G.ids, ∀ v ∈ G.ids, (SameClass (orbitsUF G.ids (autsD sel G)) u v ↔ ∃ σ ∈ autsD sel G, app σ u = v) :=
  orbitsUF_auts' sel G hG

/-- The driver evaluates `orbitsFast` (automorphisms computed once); it is `orbitsD`. -/
theorem orbitsFast_eq (sel : SelD) (G : LGraph) : orbitsFast sel G = orbitsD sel G := rfl

/-- **C18, clause 3, step "corresponding orders".** If `f` maps the view `G` onto the view `G'`
structure-preservingly and `perm` is an order of `G`, the canonical graph of `G'` along the
transported order and the canonical graph of `G` along `perm` are identical on the configured
keys.  (So a search that returns corresponding orders — up to an automorphism — on isomorphic
inputs yields identical canonical graphs; that the IR search does so is `crn_ir_invariant` below.) -/
theorem canon_equivariant (sel : SelD) (G G' : LGraph) (f : Nat → Nat) (perm : List Nat)
    (hG : WFD G) (hG' : WFD G') (hf : IsIsoF sel G' G f) (hperm : IsOrder G perm) :
    IsOrder G' (perm.map f) ∧ IsIsoF sel (canonBy G' (perm.map f)) (canonBy G perm) id :=
  canon_equivariant' sel G G' f perm hG hG' hf hperm

/-- Both views of a well-formed network are well-formed directed graphs (the hypotheses of the
graph-level theorems hold for every network). -/
theorem views_wfd (stoich : Bool) (N : Net) (hN : N.WF) : WFD (viewBip stoich N) ∧ WFD (viewSpecies N) :=
  ⟨viewBip_wfd' stoich N hN, viewSpecies_wfd' N hN⟩

/-- **C18, clause 3, step "renaming" (bipartite view).** Networks that differ only by species
names, reaction order, order inside the sides and reaction ids have isomorphic bipartite views,
with or without stoichiometry, for every choice of arc keys and node keys among `kind`,
`bipartite` (a species' `label` is its name and does change). -/
theorem viewBip_iso_of_sameUpToNames (sel : SelD) (stoich : Bool) (N N' : Net)
    (hsel : ∀ k ∈ sel.nodeKeys, k = "kind" ∨ k = "bipartite")
    (hN : N.WF) (hN' : N'.WF) (h : SameUpToNames N N') :
    ∃ f, IsIsoF sel (viewBip stoich N') (viewBip stoich N) f :=
  viewBip_iso_of_sameUpToNames' sel stoich N N' hsel hN hN' h

/-- **… (species view)**, for node key `kind` and every choice of arc keys that does not mention
reaction ids: the defaults `role`, `stoich` (absent in this view: arcs compared as present /
absent) and the aggregated coefficients `stoich_r`, `stoich_p` (minima over the reactions that
contain the pair).  `via`, `rules`, `stoich_*_map` are excluded: `via` and the maps are keyed by
reaction ids, which renaming regenerates, and `rules` is listed in reaction order. -/
theorem viewSpecies_iso_of_sameUpToNames (sel : SelD) (N N' : Net)
    (hselN : ∀ k ∈ sel.nodeKeys, k = "kind")
    (hselE : ∀ k ∈ sel.edgeKeys, k ∉ ["via", "rules", "stoich_r_map", "stoich_p_map"])
    (hN : N.WF) (hN' : N'.WF) (h : SameUpToNames N N') :
    ∃ f, IsIsoF sel (viewSpecies N') (viewSpecies N) f :=
  viewSpecies_iso_of_sameUpToNames_stoich' sel N N' hselN hselE hN hN' h

/-- **C18, clause 3 at network level (bipartite view).** Renamed networks have the same exact
canonical form. -/
theorem canonBruteD_sameUpToNames_bip (sel : SelD) (stoich : Bool) (N N' : Net)
    (hsel : ∀ k ∈ sel.nodeKeys, k = "kind" ∨ k = "bipartite")
    (hN : N.WF) (hN' : N'.WF) (h : SameUpToNames N N') :
    canonBruteD sel (viewBip stoich N') = canonBruteD sel (viewBip stoich N) :=
  canonBruteD_sameUpToNames_bip' sel stoich N N' hsel hN hN' h

/-- **… (species view).** -/
theorem canonBruteD_sameUpToNames_species (sel : SelD) (N N' : Net)
    (hselN : ∀ k ∈ sel.nodeKeys, k = "kind")
    (hselE : ∀ k ∈ sel.edgeKeys, k ∉ ["via", "rules", "stoich_r_map", "stoich_p_map"])
    (hN : N.WF) (hN' : N'.WF) (h : SameUpToNames N N') :
    canonBruteD sel (viewSpecies N') = canonBruteD sel (viewSpecies N) :=
  canonBruteD_invariant sel _ _ (viewSpecies_wfd' N' hN').1 (viewSpecies_wfd' N hN).1
    (viewSpecies_iso_of_sameUpToNames sel N N' hselN hselE hN hN' h)

/-- **C18 at full strength over the model.**  Both views of every well-formed network are
well-formed directed graphs; renamed networks have equal exact canonical forms (bipartite view:
any arc keys, stoichiometry on or off; species view: any arc keys that do not mention reaction
ids); and for every choice of keys and every well-formed directed attribute graph `G` (in particular both views of every network):
clauses 1, 2, 3 (on the exact form), 4 and 5. -/
def C18.FullStatement : Prop :=
  (∀ (stoich : Bool) (N : Net), N.WF → WFD (viewBip stoich N) ∧ WFD (viewSpecies N)) ∧
  (∀ (sel : SelD) (stoich : Bool) (N N' : Net), (∀ k ∈ sel.nodeKeys, k = "kind" ∨ k = "bipartite") →
    N.WF → N'.WF → SameUpToNames N N' →
    canonBruteD sel (viewBip stoich N') = canonBruteD sel (viewBip stoich N)) ∧
  (∀ (sel : SelD) (N N' : Net), (∀ k ∈ sel.nodeKeys, k = "kind") →
    (∀ k ∈ sel.edgeKeys, k ∉ ["via", "rules", "stoich_r_map", "stoich_p_map"]) →
    N.WF → N'.WF → SameUpToNames N N' →
    canonBruteD sel (viewSpecies N') = canonBruteD sel (viewSpecies N)) ∧
  ∀ (sel : SelD) (G : LGraph), WFD G →
    (∀ perm, IsOrder G perm →
      IsIsoF sel (canonBy G perm) G (posOf perm) ∧ (canonBy G perm).ids.Perm (List.range' 1 G.ids.length)) ∧
    (∀ G' perm perm', WFD G' → IsOrder G perm → IsOrder G' perm' →
      IsIsoF sel (canonBy G perm) (canonBy G' perm') id → ∃ f, IsIsoF sel G G' f) ∧
    (∀ G', G'.ids.Nodup → ((∃ f, IsIsoF sel G G' f) ↔ canonBruteD sel G = canonBruteD sel G')) ∧
    ((autsD sel G).Nodup ∧ (∀ m, m ∈ autsD sel G ↔ IsIsoD sel G G m) ∧ autCountD sel G = (autsD sel G).length) ∧
    (IsPartition (orbitsD sel G) G.ids ∧
      ∀ u ∈ G.ids, ∀ v ∈ G.ids, (SameClass (orbitsD sel G) u v ↔ ∃ σ ∈ autsD sel G, app σ u = v))

theorem C18.full : C18.FullStatement := by
  refine ⟨fun st N hN => views_wfd st N hN, fun sel st N N' hs hN hN' h => canonBruteD_sameUpToNames_bip sel st N N' hs hN hN' h,
    fun sel N N' h1 h2 hN hN' h => canonBruteD_sameUpToNames_species sel N N' h1 h2 hN hN' h, ?_⟩
  intro sel G hG
  refine ⟨fun perm hp => ?_, fun G' perm perm' hG' hp hp' h => ?_, fun G' hG' => ?_, ?_, ?_⟩
  · obtain ⟨h1, h2, -, -⟩ := canon_faithful sel G perm hG hp
    exact ⟨h1, h2⟩
  · exact canon_kernel sel G G' perm perm' hG hG' hp hp' h
  · exact ⟨canonBruteD_invariant sel G G' hG.1 hG', canonBruteD_complete sel G G' hG.1 hG'⟩
  · obtain ⟨h1, h2, h3⟩ := autcount_spec sel G hG.1
    exact ⟨h2, h3, h1⟩
  · exact orbits_partition_exact sel G hG.1

/-! ## Non-vacuity: concrete networks -/

/-- `A + B ⇌ C`. -/
def exRev : Net :=
  { labels := ["A", "B", "C"]
    rxns := [⟨"r_1", "r", [(0, 1), (1, 1)], [(2, 1)]⟩, ⟨"r_2", "r", [(2, 1)], [(0, 1), (1, 1)]⟩] }
/-- `2A + B → C`: stoichiometry separates `A` from `B`. -/
def exStoich : Net := { labels := ["A", "B", "C"], rxns := [⟨"r_1", "r", [(0, 2), (1, 1)], [(2, 1)]⟩] }
/-- `exRev` with the species renamed (`A ↦ 2, B ↦ 0, C ↦ 1`), the reactions swapped and new ids. -/
def exRevRenamed : Net :=
  { labels := ["X", "Y", "Z"]
    rxns := [⟨"k_7", "r", [(1, 1)], [(0, 1), (2, 1)]⟩, ⟨"k_9", "r", [(0, 1), (2, 1)], [(1, 1)]⟩] }
def selDefault : SelD := ⟨["kind"], ["role", "stoich"]⟩

example : exRev.WF ∧ WFD (viewBip true exRev) ∧ WFD (viewSpecies exRev) := by decide
/-- the hypotheses of every theorem above hold on a view with a non-trivial automorphism … -/
example : autCountD selDefault (viewBip true exRev) = 2 ∧
    orbitsD selDefault (viewBip true exRev) = [[0, 1], [2], [3], [4]] := by decide
/-- … stoichiometry on / off changes the answer (finding F14 is about exactly this) … -/
example : autCountD selDefault (viewBip true exStoich) = 1 ∧ autCountD selDefault (viewBip false exStoich) = 2 := by decide
/-- … the union–find merging of the analysers gives the same partition … -/
example : orbitsUF (viewBip true exRev).ids (autsD selDefault (viewBip true exRev)) = orbitsD selDefault (viewBip true exRev) := by
  decide
/-- … an order that is a permutation of the nodes, and the ids `1..N` of its canonical graph … -/
example : IsOrder (viewBip true exRev) [4, 3, 2, 0, 1] ∧
    (canonBy (viewBip true exRev) [4, 3, 2, 0, 1]).ids = [4, 5, 3, 2, 1] := by decide
/-- … a renamed copy is isomorphic and a near miss is not (both views). -/
example : isoDecideD selDefault (viewBip true exRev) (viewBip true exRevRenamed) = true ∧
    isoDecideD selDefault (viewSpecies exRev) (viewSpecies exRevRenamed) = true ∧
    isoDecideD selDefault (viewBip true exStoich) (viewBip false exStoich) = false := by decide

/-! ## Negation witnesses for the code as it was before the repairs (DESIGN §6 F13, F14) -/

/-- `{v: i + 1 for i, v in enumerate(perm)}` when `perm` repeats nodes: the last position wins. -/
def posOfLast (perm : List Nat) (v : Nat) : Nat := perm.length - perm.reverse.idxOf v

/-- **F13 (before fix 0009).** For `A + B ⇌ C` the search returned `prefix ++ partition =
[A, B, r_2, r_1, A, B, C]`; that list is not an order of the view and the relabelled graph has
the ids 3..7 instead of 1..5 (so `canon_faithful`'s hypothesis fails on it, and ids are not 1..N). -/
example : ¬ IsOrder (viewBip true exRev) [0, 1, 4, 3, 0, 1, 2] ∧
    ((viewBip true exRev).relabel (posOfLast [0, 1, 4, 3, 0, 1, 2])).ids = [5, 6, 7, 4, 3] := by decide

/-- **F14 (before fix 0010).** The VF2 analyser compared no arc attributes (`edgeKeys = []`): on the
view of `2A + B → C` it counts the exchange of `A` and `B`, the specification with the configured
keys `role`, `stoich` does not. -/
example : autCountD ⟨["kind"], []⟩ (viewBip true exStoich) = 2 ∧
    autCountD selDefault (viewBip true exStoich) = 1 ∧
    orbitsD ⟨["kind"], []⟩ (viewBip true exStoich) ≠ orbitsD selDefault (viewBip true exStoich) := by decide

/-- `SameUpToNames` is satisfiable non-trivially: `exRevRenamed` is `exRev` with
`σ = (0 ↦ 2, 1 ↦ 0, 2 ↦ 1)`, the reactions swapped and the sides reordered. -/
example : SameUpToNames exRev exRevRenamed := by
  refine ⟨by decide, fun i => if i = 0 then 2 else if i = 1 then 0 else 1, by decide, by decide,
    [⟨"k_9", "r", [(0, 1), (2, 1)], [(1, 1)]⟩, ⟨"k_7", "r", [(1, 1)], [(0, 1), (2, 1)]⟩], ?_, by decide, ?_⟩
  · exact List.Perm.swap _ _ _
  · intro rr hrr
    simp only [exRev, List.zip_cons_cons, List.zip_nil_right, List.mem_cons, List.not_mem_nil, or_false] at hrr
    rcases hrr with rfl | rfl
    · exact ⟨rfl, List.Perm.swap _ _ _, List.Perm.refl _⟩
    · exact ⟨rfl, List.Perm.refl _, List.Perm.swap _ _ _⟩

/-! ## The search the implementation runs: individualisation–refinement (`CRNCanonicalizer._search`)

Model `SynKitModel/CrnIR.lean` (mirror of `_init_part`, `_sig`, `_refine`, `_label`, `_search`,
`_orbits_from_perms`, `_canon` of `synkit/CRN/Topo/canon.py`; no pruning, `max_depth = timeout_sec =
None`); lemma files `SynKitProofs/CrnIR{Order,Equiv,Wf,Search,Tie,Lemmas,Views}.lean`.  This section
closes the gap named at clause 3 above: *"two networks that differ only by renaming species,
reordering reactions or regenerating reaction ids receive identical canonical graphs"* is proved for
the canonical graph **the search itself produces** (`canonIRD`, `crnIrOrder`), not only for the
specification-level `canonBruteD`.

Python compares rendered label *strings*; the model keeps labels structured (`CrnLabel`) and every
theorem holds for **every** strict total order on them (`…_anyOrder`); `CrnLabel.lt` is the
instance the driver runs.  Hypotheses: node ids distinct and arcs between nodes (`WFD`: what a
NetworkX `DiGraph` guarantees; self-loops allowed), and `CrnAttrOK`: no selected attribute is `None`
or `""` (`_label` reads an absent attribute as `""`, `_sig` as `None`) and `order` is not tuple
valued — true of both views of every network (`views_attrOK`).  No non-emptiness hypothesis: since
repair F39 `_init_part` returns no cell for the empty graph, whose search tree is the single leaf
with the empty order (`crn_ir_empty_no_keys`). -/

open SynKit.Canon (StrictTotal PartRel PartSub IRPartOK)

/-- **C18, IR search, step 1 (refinement is equivariant).** For a node map `g : H → G` preserving
the look-ups of the selected node and arc attributes on every ordered pair (`CrnIso`), the initial
partitions correspond cell by cell and `_refine` maps corresponding partitions to corresponding
partitions. -/
theorem crn_refine_equivariant (sel : SelD) (G H : LGraph) (g : Nat → Nat) (hG : G.ids.Nodup) (h : CrnIso sel G H g) :
    PartRel g (crnInitPart sel H) (crnInitPart sel G) ∧
    ∀ P' P, PartRel g P' P → PartSub H.ids P' → PartRel g (crnRefine sel H P') (crnRefine sel G P) :=
  ⟨crnInitPart_rel h, fun _ _ hP hs => crnRefine_rel hG h hP hs⟩

/-- **C18, IR search, step 2 (the search trees correspond).** The leaves of `G`'s search tree are
exactly the images under `g` of the leaves of `H`'s, and corresponding leaves carry the same
label. -/
theorem crn_ir_leaves_equivariant (sel : SelD) (G H : LGraph) (g : Nat → Nat) (hG : G.ids.Nodup) (h : CrnIso sel G H g) :
    (∀ l, l ∈ crnRootLeaves sel G ↔ ∃ l' ∈ crnRootLeaves sel H, l = (l'.1.map g, l'.2.map g)) ∧
    (∀ l' ∈ crnRootLeaves sel H, crnLeafLabel sel G (l'.1.map g, l'.2.map g) = crnLeafLabel sel H l') :=
  ⟨crnRootLeaves_rel hG h, fun _ hl' => crnLeafLabel_rel h hl'⟩

/-- **C18, IR search, step 3 (what `_search` returns).** The search is the fold of its leaf case
over the leaves of the search tree; on a graph with distinct ids it returns a leaf with the least
label, whose permutation lists every node exactly once (the point of repair F13), `perms` are the
permutations of *all* leaves with that label, and `perms[0]` is `canonical_perm`. -/
theorem crn_ir_result_spec (lt : CrnLabel → CrnLabel → Bool) (hlt : StrictTotal lt) (sel : SelD) (G : LGraph)
    (hG : G.ids.Nodup) :
    ∃ m ∈ crnRootLeaves sel G,
      crnIrWith lt sel G = some ⟨crnLeafLabel sel G m, m.2, crnWithLabel sel G (crnLeafLabel sel G m) (crnRootLeaves sel G)⟩ ∧
      IsOrder G m.2 ∧ (∀ l ∈ crnRootLeaves sel G, lt (crnLeafLabel sel G l) (crnLeafLabel sel G m) = false) ∧
      (crnPermsOf (crnIrWith lt sel G)).head? = some m.2 := by
  obtain ⟨m, hm, e, hp, hl⟩ := crnIrWith_spec lt hlt sel G hG
  refine ⟨m, hm, e, isOrder_of_perm hG hp, hl, ?_⟩
  have := crnFoldLeaves_head lt sel G (crnRootLeaves sel G) none (fun _ h => by simp at h) _
    ((crnIrWith_eq_fold lt sel G).symm.trans e)
  rw [e]
  exact this

/-- **C18, IR search, step 4 (fuel).** The model recurses on fuel where the code has a `while
changed` loop and an unbounded recursion.  With the model's fuel neither runs out: `_refine`
stops because its last pass split nothing (`changed = False`), more fuel gives the same refined
partition, the same search tree and the same result. -/
theorem crn_ir_fuel_adequate (lt : CrnLabel → CrnLabel → Bool) (sel : SelD) (G : LGraph) (hG : G.ids.Nodup) :
    (∀ P, IRPartOK G.ids P → ∃ Q, IRPartOK G.ids Q ∧ crnRefine sel G P = crnRefineStep sel G Q ∧
      (crnRefineStep sel G Q).length = Q.length) ∧
    (∀ P d, IRPartOK G.ids P → crnRefineLoop sel G (G.nodes.length + 1 + d) P = crnRefine sel G P) ∧
    (∀ d, crnLeaves sel G (G.nodes.length + 1 + d) (crnInitPart sel G) [] = crnRootLeaves sel G) ∧
    (∀ d, crnSearch lt sel G (G.nodes.length + 1 + d) (crnInitPart sel G) [] none = crnIrWith lt sel G) :=
  ⟨fun P hP => crnRefine_last_pass sel G P hP, fun P d hP => crnRefine_fuel sel G P hP d,
    fun d => crnLeaves_root_fuel sel G hG d, fun d => crnIrWith_fuel lt sel G hG d⟩

/-- **C18, IR search, step 5 (ties).** Two leaves of one search tree with the same label differ by
a structure-preserving self-map of the graph: position `i` of the first ↦ position `i` of the
second.  `_label` skips the diagonal, so self-loops (a catalyst gives `A → A` in the species view)
are not in the label; they are recovered from the refinement signature, which all leaves share
position by position. -/
theorem crn_ir_tie (sel : SelD) (G : LGraph) (hG : G.ids.Nodup) (hok : CrnAttrOK sel G)
    (l l' : List Nat × List Nat) (hl : l ∈ crnRootLeaves sel G) (hl' : l' ∈ crnRootLeaves sel G)
    (hlab : crnLeafLabel sel G l = crnLeafLabel sel G l') :
    IsIsoF sel G G (posMap l.2 l'.2) ∧ l.2.map (posMap l.2 l'.2) = l'.2 := by
  obtain ⟨h1, h2⟩ := crnIso_of_leaves sel G hG hok l l' hl hl' hlab
  exact ⟨isIsoF_of_crnIso hG h1, h2⟩

/-- **C18, clause 3 for the implementation's search, every label order.** For every strict total
order on labels — in particular Python's comparison of the rendered strings whenever rendering is
injective on the labels that occur — two views that are isomorphic on the configured keys get the
same minimum label, and their canonical graphs are identical on the configured keys (the identity
map is structure preserving between them: same ids `1..N`, same selected node attributes, same
arcs with the same selected attributes, self-loops included). -/
theorem crn_ir_invariant_anyOrder (lt : CrnLabel → CrnLabel → Bool) (hlt : StrictTotal lt) (sel : SelD) (G H : LGraph)
    (hG : WFD G) (hH : WFD H) (aG : CrnAttrOK sel G) (aH : CrnAttrOK sel H) (h : ∃ f, IsIsoF sel G H f) :
    (crnIrWith lt sel G).map (·.label) = (crnIrWith lt sel H).map (·.label) ∧
    IsIsoF sel (canonBy G (crnOrderOf (crnIrWith lt sel G))) (canonBy H (crnOrderOf (crnIrWith lt sel H))) id := by
  obtain ⟨f, hf⟩ := h
  exact crnIrWith_invariant lt hlt sel G H hG hH aG aH f hf

/-- **C18, clause 3 for the implementation's search (`crn_ir_invariant`).** Isomorphic views get
the same minimum label and key-identical canonical graphs from the individualisation–refinement
search as the driver runs it. -/
theorem crn_ir_invariant (sel : SelD) (G H : LGraph) (hG : WFD G) (hH : WFD H)
    (aG : CrnAttrOK sel G) (aH : CrnAttrOK sel H) (h : ∃ f, IsIsoF sel G H f) :
    crnIrLabel sel G = crnIrLabel sel H ∧ IsIsoF sel (canonIRD sel G) (canonIRD sel H) id :=
  crn_ir_invariant_anyOrder CrnLabel.lt CrnLabel.lt_strictTotal sel G H hG hH aG aH h

/-- **C18, clause 1 for the implementation's search (`crn_ir_faithful`).** `canonical_perm` lists
every node exactly once, so the canonical graph is isomorphic to the view it was computed from
(every key choice; all attributes kept) and its ids are `1..N`. -/
theorem crn_ir_faithful (sel sel' : SelD) (G : LGraph) (hG : WFD G) :
    IsOrder G (crnIrOrder sel G) ∧
    IsIsoF sel' (canonIRD sel G) G (posOf (crnIrOrder sel G)) ∧
    (canonIRD sel G).ids.Perm (List.range' 1 G.ids.length) ∧
    (∀ v ∈ G.ids, (canonIRD sel G).attrs (posOf (crnIrOrder sel G) v) = G.attrs v) ∧
    (∀ u ∈ G.ids, ∀ v ∈ G.ids,
      (canonIRD sel G).arc? (posOf (crnIrOrder sel G) u) (posOf (crnIrOrder sel G) v) = G.arc? u v) := by
  have ho : IsOrder G (crnIrOrder sel G) := crnOrderOf_isOrder CrnLabel.lt CrnLabel.lt_strictTotal sel G hG.1
  exact ⟨ho, canon_faithful sel' G _ hG ho⟩

/-- **C18, clauses 2 + 3 for the implementation's search: a complete invariant.** The canonical
graphs of two views are identical on the configured keys exactly when the views are isomorphic on
them. -/
theorem crn_ir_complete (sel : SelD) (G H : LGraph) (hG : WFD G) (hH : WFD H)
    (aG : CrnAttrOK sel G) (aH : CrnAttrOK sel H) :
    IsIsoF sel (canonIRD sel G) (canonIRD sel H) id ↔ ∃ f, IsIsoF sel G H f :=
  ⟨fun h => canon_kernel sel G H _ _ hG hH
      (crnOrderOf_isOrder CrnLabel.lt CrnLabel.lt_strictTotal sel G hG.1)
      (crnOrderOf_isOrder CrnLabel.lt CrnLabel.lt_strictTotal sel H hH.1) h,
    fun h => (crn_ir_invariant sel G H hG hH aG aH h).2⟩

/-- Both views of every network satisfy the attribute hypothesis (bipartite: node keys among
`kind`, `bipartite`; species: node key `kind`; every choice of arc keys). -/
theorem views_attrOK (sel : SelD) (stoich : Bool) (N : Net) :
    ((∀ k ∈ sel.nodeKeys, k = "kind" ∨ k = "bipartite") → CrnAttrOK sel (viewBip stoich N)) ∧
    ((∀ k ∈ sel.nodeKeys, k = "kind") → CrnAttrOK sel (viewSpecies N)) :=
  ⟨crnAttrOK_viewBip sel stoich N, crnAttrOK_viewSpecies sel N⟩

/-- **C18, clause 3 at network level, implementation's search (bipartite view).** Networks that
differ only by species names, reaction order, order inside the sides and reaction ids receive the
same minimum label and identical canonical graphs. -/
theorem crn_ir_sameUpToNames_bip (sel : SelD) (stoich : Bool) (N N' : Net)
    (hsel : ∀ k ∈ sel.nodeKeys, k = "kind" ∨ k = "bipartite")
    (hN : N.WF) (hN' : N'.WF) (h : SameUpToNames N N') :
    crnIrLabel sel (viewBip stoich N') = crnIrLabel sel (viewBip stoich N) ∧
    IsIsoF sel (canonIRD sel (viewBip stoich N')) (canonIRD sel (viewBip stoich N)) id :=
  crn_ir_invariant sel _ _ (viewBip_wfd' stoich N' hN') (viewBip_wfd' stoich N hN)
    (crnAttrOK_viewBip sel stoich N' hsel) (crnAttrOK_viewBip sel stoich N hsel)
    (viewBip_iso_of_sameUpToNames sel stoich N N' hsel hN hN' h)

/-- **… (species view)**, arc keys that do not mention reaction ids (cf.
`viewSpecies_iso_of_sameUpToNames`); catalysts (self-loops) included. -/
theorem crn_ir_sameUpToNames_species (sel : SelD) (N N' : Net)
    (hselN : ∀ k ∈ sel.nodeKeys, k = "kind")
    (hselE : ∀ k ∈ sel.edgeKeys, k ∉ ["via", "rules", "stoich_r_map", "stoich_p_map"])
    (hN : N.WF) (hN' : N'.WF) (h : SameUpToNames N N') :
    crnIrLabel sel (viewSpecies N') = crnIrLabel sel (viewSpecies N) ∧
    IsIsoF sel (canonIRD sel (viewSpecies N')) (canonIRD sel (viewSpecies N)) id :=
  crn_ir_invariant sel _ _ (viewSpecies_wfd' N' hN') (viewSpecies_wfd' N hN)
    (crnAttrOK_viewSpecies sel N' hselN) (crnAttrOK_viewSpecies sel N hselN)
    (viewSpecies_iso_of_sameUpToNames sel N N' hselN hselE hN hN' h)

/-- **C18, clause 5 for the canonicaliser's own procedure.** `_orbits_from_perms` applied to the
permutations of the least-label leaves yields a partition of the node set whose classes are
exactly the orbits of the structure-preserving self-maps: every listed permutation differs from
the first by such a map (`crn_ir_tie`) and, since nothing is pruned, every such map carries the
first onto a listed one.  For every label order. -/
theorem crn_ir_orbits_anyOrder (lt : CrnLabel → CrnLabel → Bool) (hlt : StrictTotal lt) (sel : SelD) (G : LGraph)
    (hG : G.ids.Nodup) (hok : CrnAttrOK sel G) :
    IsPartition (crnOrbitsFromPerms (crnPermsOf (crnIrWith lt sel G))) G.ids ∧
    ∀ u ∈ G.ids, ∀ v ∈ G.ids,
      (SameClass (crnOrbitsFromPerms (crnPermsOf (crnIrWith lt sel G))) u v ↔ ∃ σ ∈ autsD sel G, app σ u = v) :=
  crnOrbits_exact lt hlt sel G hG hok

/-- **… as the driver runs it**: the classes of `orbits` (`crnIrOrbits`) are the classes of the
specification's orbit partition `orbitsD` (clause 5 above). -/
theorem crn_ir_orbits (sel : SelD) (G : LGraph) (hG : G.ids.Nodup) (hok : CrnAttrOK sel G) :
    IsPartition (crnIrOrbits sel G) G.ids ∧
    ∀ u ∈ G.ids, ∀ v ∈ G.ids, (SameClass (crnIrOrbits sel G) u v ↔ SameClass (orbitsD sel G) u v) := by
  obtain ⟨h1, h2⟩ := crnOrbits_exact CrnLabel.lt CrnLabel.lt_strictTotal sel G hG hok
  refine ⟨h1, fun u hu v hv => ?_⟩
  rw [(orbits_partition_exact sel G hG).2 u hu v hv]
  exact h2 u hu v hv

/-- **C18 for the implementation's search, bundled.** For every well-formed pair of networks that
differ only by names: same minimum label and identical canonical graphs in both views; and for
every well-formed directed attribute graph with good attributes: the canonical graph is faithful,
a complete invariant, and the orbits are exact. -/
def C18.IRStatement : Prop :=
  (∀ (sel : SelD) (stoich : Bool) (N N' : Net), (∀ k ∈ sel.nodeKeys, k = "kind" ∨ k = "bipartite") →
    N.WF → N'.WF → SameUpToNames N N' →
    crnIrLabel sel (viewBip stoich N') = crnIrLabel sel (viewBip stoich N) ∧
    IsIsoF sel (canonIRD sel (viewBip stoich N')) (canonIRD sel (viewBip stoich N)) id) ∧
  (∀ (sel : SelD) (N N' : Net), (∀ k ∈ sel.nodeKeys, k = "kind") →
    (∀ k ∈ sel.edgeKeys, k ∉ ["via", "rules", "stoich_r_map", "stoich_p_map"]) →
    N.WF → N'.WF → SameUpToNames N N' →
    crnIrLabel sel (viewSpecies N') = crnIrLabel sel (viewSpecies N) ∧
    IsIsoF sel (canonIRD sel (viewSpecies N')) (canonIRD sel (viewSpecies N)) id) ∧
  ∀ (sel : SelD) (G : LGraph), WFD G → CrnAttrOK sel G →
    (IsOrder G (crnIrOrder sel G) ∧ IsIsoF sel (canonIRD sel G) G (posOf (crnIrOrder sel G)) ∧
      (canonIRD sel G).ids.Perm (List.range' 1 G.ids.length)) ∧
    (∀ H, WFD H → CrnAttrOK sel H →
      (IsIsoF sel (canonIRD sel G) (canonIRD sel H) id ↔ ∃ f, IsIsoF sel G H f)) ∧
    (IsPartition (crnIrOrbits sel G) G.ids ∧
      ∀ u ∈ G.ids, ∀ v ∈ G.ids, (SameClass (crnIrOrbits sel G) u v ↔ ∃ σ ∈ autsD sel G, app σ u = v))

theorem C18.ir_full : C18.IRStatement := by
  refine ⟨fun sel st N N' hs hN hN' h => crn_ir_sameUpToNames_bip sel st N N' hs hN hN' h,
    fun sel N N' h1 h2 hN hN' h => crn_ir_sameUpToNames_species sel N N' h1 h2 hN hN' h, ?_⟩
  intro sel G hG aG
  refine ⟨?_, fun H hH aH => crn_ir_complete sel G H hG hH aG aH,
    crn_ir_orbits_anyOrder CrnLabel.lt CrnLabel.lt_strictTotal sel G hG.1 aG⟩
  obtain ⟨h1, h2, h3, _, _⟩ := crn_ir_faithful sel sel G hG
  exact ⟨h1, h2, h3⟩

/-- **C18, IR search on the empty graph without node keys (repair F39).** `_init_part` returns no
cell (`[sorted(G.nodes())] if len(G) else []`), so `_refine` has nothing to do, the empty partition
is discrete and the root of the search tree is its only leaf: `canonical_perm = []`, the label of
the empty permutation, `sample_permutations = [[]]` (`automorphism_count = 1`: the empty map),
`orbits = []` and the canonical graph is the empty graph.  Both views of the network without species
and reactions are this graph.  Every choice of arc keys.  (Before the repair the initial partition
was `[[]]`, not discrete with no cell to individualise: `StopIteration`; the theorems of this section
then carried a hypothesis excluding this input.) -/
theorem crn_ir_empty_no_keys (ek : List String) :
    crnInitPart ⟨[], ek⟩ {} = [] ∧
    crnRootLeaves ⟨[], ek⟩ {} = [([], [])] ∧
    crnIr ⟨[], ek⟩ {} = some ⟨⟨[], []⟩, [], [[]]⟩ ∧
    crnIrOrder ⟨[], ek⟩ {} = [] ∧
    crnIrLabel ⟨[], ek⟩ {} = some ⟨[], []⟩ ∧
    crnIrPerms ⟨[], ek⟩ {} = [[]] ∧ (crnIrPerms ⟨[], ek⟩ {}).length = 1 ∧
    crnIrOrbits ⟨[], ek⟩ {} = [] ∧
    canonIRD ⟨[], ek⟩ {} = {} ∧
    (∀ stoich, viewBip stoich ⟨[], []⟩ = {}) ∧ viewSpecies ⟨[], []⟩ = {} :=
  ⟨rfl, rfl, rfl, rfl, rfl, rfl, rfl, rfl, rfl, by decide, by decide⟩

/-! ### The search with a depth cap (`summary(max_depth=d)`, `timeout_sec=None`)

`crnSearchCapped` mirrors `_search` with its `depth` counter, the test `depth > max_depth` at the entry of every
call, the returned flag that ends every enclosing loop, and `(best, perms)` as they stand at that moment;
`crnCanonCapped` adds `_canon`'s `RuntimeError` when no leaf was reached.  There is no pruning, so the capped
search is exactly the uncapped one cut off before the first leaf that lies deeper than the cap
(`crn_irCapped_exact`); (a), (b), (c) follow.  (a), (b) and the exact form hold for EVERY label comparison
`lt`, (c) for every strict total one — in particular for Python's comparison of the rendered strings. -/

/-- `crnDepth sel G`: no leaf of the search tree lies deeper, and it is at most the number of nodes. -/
theorem crnDepth_spec (sel : SelD) (G : LGraph) :
    (∀ l ∈ crnRootLeaves sel G, l.1.length ≤ crnDepth sel G) ∧ crnDepth sel G ≤ G.nodes.length :=
  ⟨(crnDepth_le_iff sel G _).1 (Nat.le_refl _), crnDepth_le_nodes sel G⟩

/-- **C18, IR search with `max_depth`, exact form.** On a graph with distinct ids, `_search` under the cap `d`
is the fold of its leaf case over the leaves of the search tree that come, in visiting order, before the
first leaf deeper than `d`; the returned flag (`early_stop`) says whether there is such a leaf. -/
theorem crn_irCapped_exact (lt : CrnLabel → CrnLabel → Bool) (sel : SelD) (G : LGraph) (hG : G.ids.Nodup) (d : Nat) :
    crnIrCappedWith lt sel G d =
      (crnFoldLeaves lt sel G (crnVisited d (crnRootLeaves sel G)) none, crnAnyDeeper d (crnRootLeaves sel G)) ∧
    ((crnIrCappedWith lt sel G d).2 = true ↔ ∃ l ∈ crnRootLeaves sel G, d < l.1.length) := by
  have e := crnIrCappedWith_eq lt sel G hG d
  refine ⟨e, ?_⟩
  rw [e]
  simp only [crnAnyDeeper, List.any_eq_true, decide_eq_true_eq]

/-- **C18, IR search with `max_depth` (a): a cap at or above the deepest leaf is never reached.** If `d` is at
least the depth of the deepest leaf — in particular if `d` is at least the number of nodes of the view — the
capped search returns exactly `(best, perms)` of the uncapped search and `early_stop = False`:
`summary(max_depth=d)` is `summary()`. -/
theorem crn_irCapped_full (lt : CrnLabel → CrnLabel → Bool) (sel : SelD) (G : LGraph) (hG : G.ids.Nodup) (d : Nat) :
    (crnDepth sel G ≤ d → crnIrCappedWith lt sel G d = (crnIrWith lt sel G, false)) ∧
    (G.nodes.length ≤ d → crnIrCappedWith lt sel G d = (crnIrWith lt sel G, false)) ∧
    (crnDepth sel G ≤ d → ∃ b, crnIr sel G = some b ∧ crnCanonCapped sel G d = .ok (b, false)) := by
  refine ⟨fun h => crnIrCappedWith_full lt sel G hG d h,
    fun h => crnIrCappedWith_full lt sel G hG d (Nat.le_trans (crnDepth_le_nodes sel G) h), ?_⟩
  intro h
  obtain ⟨m, _, e, _⟩ := crnIrWith_spec CrnLabel.lt CrnLabel.lt_strictTotal sel G hG
  refine ⟨_, e, ?_⟩
  unfold crnCanonCapped crnIrCapped
  rw [crnIrCappedWith_full CrnLabel.lt sel G hG d h, e]

/-- **C18, IR search with `max_depth` (b): an answer with `early_stop = False` is the full answer.** Whatever the
cap, when the capped search returns without the flag its `(best, perms)` are those of the uncapped search: a
`summary(max_depth=d)` that reports `early_stop = False` reports the canonical permutation, the minimal-label
permutations, and hence count, orbits and canonical graph of `summary()`.  No hypothesis on the graph. -/
theorem crn_irCapped_flag_sound (lt : CrnLabel → CrnLabel → Bool) (sel : SelD) (G : LGraph) (d : Nat) :
    (∀ r, crnIrCappedWith lt sel G d = (r, false) → r = crnIrWith lt sel G) ∧
    (∀ b, crnCanonCapped sel G d = .ok (b, false) → crnIr sel G = some b) := by
  refine ⟨fun r h => crnIrCappedWith_flag_sound lt sel G d r h, ?_⟩
  intro b h
  unfold crnCanonCapped crnIrCapped at h
  cases hc : crnIrCappedWith CrnLabel.lt sel G d with
  | mk r f =>
    rw [hc] at h
    cases r with
    | none => simp at h
    | some b' =>
      simp only [Except.ok.injEq, Prod.mk.injEq] at h
      obtain ⟨rfl, rfl⟩ := h
      exact (crnIrCappedWith_flag_sound CrnLabel.lt sel G d _ hc).symm

/-- **C18, IR search with `max_depth` (c): what a capped search returns is a leaf; when it raises.** On a graph
with distinct ids, for every strict total label order: every `(best, perms)` a capped search ends with —
flagged or not — comes from genuine leaves of the search tree at depth `≤ d`: `best` is the label and the
permutation of the first least-label leaf among the leaves visited before the stop, `perms` are the
permutations of all visited leaves carrying that label; the permutation lists every node exactly once, so
(`canon_faithful`) the canonical graph built from it is still isomorphic to the view, with ids `1..N`.  The
`RuntimeError` arises exactly when the FIRST leaf in visiting order lies deeper than `d` (the first call beyond
the cap ends the whole search), the flag is then up; in particular when no leaf has depth `≤ d`.  (The
converse of the last statement fails: `exCubic` below.) -/
theorem crn_irCapped_partial_is_leaf (lt : CrnLabel → CrnLabel → Bool) (hlt : StrictTotal lt) (sel sel' : SelD)
    (G : LGraph) (hG : WFD G) (d : Nat) :
    (∀ b e, crnIrCappedWith lt sel G d = (some b, e) →
      ∃ m ∈ crnRootLeaves sel G, m.1.length ≤ d ∧
        b = ⟨crnLeafLabel sel G m, m.2, crnWithLabel sel G (crnLeafLabel sel G m) (crnVisited d (crnRootLeaves sel G))⟩ ∧
        (∀ l ∈ crnVisited d (crnRootLeaves sel G), lt (crnLeafLabel sel G l) (crnLeafLabel sel G m) = false) ∧
        (∀ p ∈ b.perms, ∃ l ∈ crnRootLeaves sel G, l.1.length ≤ d ∧ l.2 = p ∧ crnLeafLabel sel G l = b.label) ∧
        IsOrder G b.perm ∧ IsIsoF sel' (canonBy G b.perm) G (posOf b.perm) ∧
        (canonBy G b.perm).ids.Perm (List.range' 1 G.ids.length)) ∧
    ((crnIrCappedWith lt sel G d).1 = none ↔ ∃ l rest, crnRootLeaves sel G = l :: rest ∧ d < l.1.length) ∧
    ((crnIrCappedWith lt sel G d).1 = none → crnIrCappedWith lt sel G d = (none, true)) ∧
    ((∀ l ∈ crnRootLeaves sel G, d < l.1.length) → crnIrCappedWith lt sel G d = (none, true)) := by
  have hne := crnRootLeaves_ne_nil sel G hG.1
  cases hL : crnRootLeaves sel G with
  | nil => exact absurd hL hne
  | cons l0 rest =>
    obtain ⟨hA, hB⟩ := crnIrCappedWith_spec lt hlt sel G hG.1 d l0 rest hL
    rw [hL] at hB
    by_cases hd : d < l0.1.length
    · have e := hA hd
      refine ⟨?_, ?_, fun _ => e, fun _ => e⟩
      · intro b f h; rw [e] at h; simp at h
      · rw [e]; exact ⟨fun _ => ⟨l0, rest, rfl, hd⟩, fun _ => rfl⟩
    · obtain ⟨m, hm, e, hleast⟩ := hB (by omega)
      have hmem := mem_crnVisited hm
      refine ⟨?_, ?_, ?_, ?_⟩
      · intro b f h
        rw [e] at h
        simp only [Prod.mk.injEq, Option.some.injEq] at h
        obtain ⟨rfl, _⟩ := h
        have hp : m.2.Perm G.ids := crnRootLeaves_perm sel G hG.1 m (by rw [hL]; exact hmem.1)
        have ho : IsOrder G m.2 := isOrder_of_perm hG.1 hp
        have hf := canon_faithful sel' G m.2 hG ho
        refine ⟨m, hmem.1, hmem.2, rfl, hleast, ?_, ho, hf.1, hf.2.1⟩
        intro p hp'
        simp only [crnWithLabel, List.mem_map, List.mem_filter, decide_eq_true_eq] at hp'
        obtain ⟨l, ⟨hl, hlab⟩, rfl⟩ := hp'
        have := mem_crnVisited hl
        exact ⟨l, this.1, this.2, rfl, hlab⟩
      · rw [e]
        simp only [reduceCtorEq, false_iff, not_exists, not_and]
        intro l rest' he
        simp only [List.cons.injEq] at he
        rw [← he.1]
        exact hd
      · intro h; rw [e] at h; simp at h
      · intro h
        exact absurd (h l0 List.mem_cons_self) hd

/-! ### Non-vacuity of the IR section -/

/-- `A + B → A + C`: the catalyst `A` carries a self-loop in the species view. -/
def exCat : Net := { labels := ["A", "B", "C"], rxns := [⟨"r_1", "r", [(0, 1), (1, 1)], [(0, 1), (2, 1)]⟩] }
/-- `exCat` renamed (`A ↦ 2, B ↦ 1, C ↦ 0`). -/
def exCatRenamed : Net := { labels := ["P", "Q", "R"], rxns := [⟨"z", "r", [(1, 1), (2, 1)], [(0, 1), (2, 1)]⟩] }

/-- the hypotheses hold on concrete views (one with a non-trivial automorphism, one with a self-loop) … -/
example : WFD (viewBip true exRev) ∧ CrnAttrOK selDefault (viewBip true exRev) ∧
    WFD (viewSpecies exCat) ∧ CrnAttrOK selDefault (viewSpecies exCat) ∧
    (viewSpecies exCat).arc? 0 0 ≠ none := by decide
/-- … the search returns the order the implementation returns (`canonical_perm` of `A + B ⇌ C`:
`r_2, r_1, C, A, B`), two least-label leaves, the orbit `{A, B}` … -/
example : crnIrOrder selDefault (viewBip true exRev) = [4, 3, 2, 0, 1] ∧
    crnIrPerms selDefault (viewBip true exRev) = [[4, 3, 2, 0, 1], [4, 3, 2, 1, 0]] ∧
    crnIrOrbits selDefault (viewBip true exRev) = [[0, 1], [4], [3], [2]] := by decide +kernel
/-- … a renamed copy gets a different order but the same label and a key-identical canonical graph … -/
example : crnIrOrder selDefault (viewBip true exRevRenamed) = [3, 4, 1, 0, 2] ∧
    crnIrLabel selDefault (viewBip true exRev) = crnIrLabel selDefault (viewBip true exRevRenamed) ∧
    isIsoFBool selDefault (canonIRD selDefault (viewBip true exRev)) (canonIRD selDefault (viewBip true exRevRenamed)) id = true := by
  decide +kernel
/-- … also in the species view with a catalyst; and a near miss gets a different label. -/
example : crnIrLabel selDefault (viewSpecies exCat) = crnIrLabel selDefault (viewSpecies exCatRenamed) ∧
    isIsoFBool selDefault (canonIRD selDefault (viewSpecies exCat)) (canonIRD selDefault (viewSpecies exCatRenamed)) id = true ∧
    crnIrLabel selDefault (viewBip true exStoich) ≠ crnIrLabel selDefault (viewBip false exStoich) := by decide +kernel

/-! ### Non-vacuity (`max_depth`) -/

/-- A directed graph without attributes: the cubic graph on 8 nodes of `Props/C08.lean` (`irX`) with every edge
in both directions.  One refinement cell, several orbits: leaves at depths 1 and 2; the first leaf is a deep one. -/
def exCubic : LGraph :=
  { nodes := [(1, []), (2, []), (3, []), (4, []), (5, []), (6, []), (7, []), (8, [])]
    edges := [(1, 4, []), (1, 5, []), (1, 8, []), (2, 3, []), (2, 4, []), (2, 7, []), (3, 5, []), (3, 6, []),
      (4, 7, []), (5, 8, []), (6, 7, []), (6, 8, []),
      (4, 1, []), (5, 1, []), (8, 1, []), (3, 2, []), (4, 2, []), (7, 2, []), (5, 3, []), (6, 3, []),
      (7, 4, []), (8, 5, []), (7, 6, []), (8, 6, [])] }
/-- The same with the names 1 and 2 exchanged: the first leaf is a shallow one. -/
def exCubic' : LGraph :=
  { nodes := exCubic.nodes
    edges := [(2, 4, []), (2, 5, []), (2, 8, []), (1, 3, []), (1, 4, []), (1, 7, []), (3, 5, []), (3, 6, []),
      (4, 7, []), (5, 8, []), (6, 7, []), (6, 8, []),
      (4, 2, []), (5, 2, []), (8, 2, []), (3, 1, []), (4, 1, []), (7, 1, []), (5, 3, []), (6, 3, []),
      (7, 4, []), (8, 5, []), (7, 6, []), (8, 6, [])] }
def selNone : SelD := ⟨[], []⟩

example : WFD exCubic ∧ WFD exCubic' := by decide
/-- (a) `A + B ⇌ C`: the three species share a refinement cell, all six leaves at depth 2; `max_depth=2` is the full
search, `max_depth=1` (and 0) reaches no leaf -/
example : crnDepth selDefault (viewBip true exRev) = 2 ∧
    crnIrCapped selDefault (viewBip true exRev) 2 = (crnIr selDefault (viewBip true exRev), false) ∧
    crnIrCapped selDefault (viewBip true exRev) 1 = (none, true) ∧
    crnCanonCapped selDefault (viewBip true exRev) 0 = .error .notFound := by decide +kernel
/-- leaves at different depths, the first one deep: `max_depth=1` raises although leaves of depth 1 exist (c) -/
example : (crnRootLeaves selNone exCubic).map (·.1.length) = [2, 2, 1, 2, 2, 2, 2, 1, 2, 2, 1, 1] ∧
    crnIrCapped selNone exCubic 1 = (none, true) := by decide +kernel
/-- an early stop WITH an answer (b), (c): on `exCubic'` `max_depth=1` visits the shallow first leaf and stops at
the first call of depth 2 — one permutation, flagged; the full search finds more; `max_depth=2` is the full search -/
example : (crnIrCapped selNone exCubic' 1).2 = true ∧
    crnPermsOf (crnIrCapped selNone exCubic' 1).1 = [[1, 6, 5, 2, 8, 4, 7, 3]] ∧
    ([1], [1, 6, 5, 2, 8, 4, 7, 3]) ∈ crnRootLeaves selNone exCubic' ∧
    crnIrCapped selNone exCubic' 2 = (crnIr selNone exCubic', false) := by decide +kernel

end SynKit.CrnCanon

import SynKitModel.Automorphism
import SynKitProofs.AutomorphismLemmas
import SynKitProofs.AutomorphismGroup
import SynKitProofs.AutomorphismOrbits
import SynKitProofs.AutomorphismWL
import SynKitProofs.AutomorphismComponents
import SynKitProofs.AutomorphismCoarser
import SynKitProofs.ReactorLink
import SynKitProofs.Props.C05
import SynKitProofs.ReactorPartialLemmas
/-!
# C11 — automorphism groups and orbits are exact; the orbit estimate never separates an orbit;
de-duplication returns a sub-list

Property theorems only; helper lemmas live in `SynKitProofs/Automorphism*.lean`.

Reading of "label-preserving automorphism": a bijection of the node set that keeps the selected
node attributes, maps bonds onto bonds with equal selected bond attributes and non-bonds onto
non-bonds — `Match.IsIso sel G G m` with the hydrogen rule off (`Cfg.sel`).  The exact analyser reads
attributes through the defaults of `categorical_*_match` (`normalize`), the estimate through `.get`;
on graphs that carry every selected attribute the two readings coincide (`est_coarser_than_exact`).

The last clause of C11 ("the symmetry pruning used during rule application never changes the set of
distinct reactions") is a statement about `SynReactor` and is not provable from
`deduplicate_matches_with_anchor` alone: its signature merges matches that are not related by any
automorphism of the pattern (`dedup_merges_non_automorphic` below), see DESIGN §6 F11.  What holds
for the de-duplication on its own is `dedup_sublist`, `dedup_nodup_sig`, `dedup_complete`, `dedup_id`.
For the modelled reactor with the REPAIRED pruning (`pruneByAut`, draft fix 0015) the clause is proved:
`C11.pruning_clause_model`, hence `C11.full_model`.  The same clause for match lists that hold PARTIAL
matches (`SynReactor(partial=True)`) and for the `max_group` fall-back, on the routine followed literally
(`prunePartial`, `pruneWithCap`): `C11.prunePartial_sublist`, `C11.prunePartial_covers`,
`C11.prunePartial_keeps_lacking`, `C11.prunePartial_total`, `C11.prunePartial_spec`,
`C11.prunePartial_reaction_set`, `C11.pruneWithCap_spec`, `C11.prunePartial_no_error`,
`C11.pruning_clause_partial_model` (section "partial matches" below).
-/
namespace SynKit.Aut
open SynKit SynKit.Match

/-- **C11, count, connected case** (the code's branch `len(comps) <= 1`; `components_connected`
ties that test to reachability).  The reported number of automorphisms is the length of a duplicate-free
list that contains exactly the label-preserving self-isomorphisms of the graph. -/
theorem aut_count_exact (c : Cfg) (G : LGraph) (hwf : G.WF) (hconn : (components G).length ≤ 1) :
    (analyze c G).nAut = (auts c.sel (normalize c G)).length ∧
    (auts c.sel (normalize c G)).Nodup ∧
    ∀ m, m ∈ auts c.sel (normalize c G) ↔ IsIso c.sel (normalize c G) (normalize c G) m := by
  have hn := normalize_wf c hwf
  refine ⟨?_, allInduced_nodup _ _ _ hn.1, mem_auts_iff hn⟩
  rw [(analyze_connected c G hconn).2.1]
  exact count_component rfl hn

/-- **C11, orbits, connected case.**  Two nodes lie in one reported orbit exactly when some
label-preserving automorphism sends the first to the second; no anchor is reported. -/
theorem orbits_exact (c : Cfg) (G : LGraph) (hwf : G.WF) (hconn : (components G).length ≤ 1) (u v : Nat) :
    (SameClass (analyze c G).orbits u v ↔
      ∃ m, IsIso c.sel (normalize c G) (normalize c G) m ∧ m.get? u = some v) ∧
    (analyze c G).anchor = none := by
  rw [(analyze_connected c G hconn).1]
  exact ⟨sameClass_component rfl (normalize_wf c hwf) u v, (analyze_connected c G hconn).2.2⟩

/-- **C11, count, disconnected graphs**: the product over the components of the exact number of
automorphisms of each component (component swaps deliberately excluded); each factor is the length of
the duplicate-free list of exactly the self-isomorphisms of that component. -/
theorem aut_count_components (c : Cfg) (G : LGraph) (hwf : G.WF) (hdis : 1 < (components G).length) :
    (analyze c G).nAut =
      ((components G).map fun comp => (auts c.sel (induce (normalize c G) comp)).length).foldl (· * ·) 1 ∧
    ∀ comp ∈ components G,
      (auts c.sel (induce (normalize c G) comp)).Nodup ∧
      ∀ m, m ∈ auts c.sel (induce (normalize c G) comp) ↔
        IsIso c.sel (induce (normalize c G) comp) (induce (normalize c G) comp) m := by
  refine ⟨(analyze_disconnected c hwf hdis).2.1, fun comp _ => ?_⟩
  have hw := induce_wf (normalize_wf c hwf) comp
  exact ⟨allInduced_nodup _ _ _ hw.1, mem_auts_iff hw⟩

/-- **C11, orbits, disconnected graphs**: two nodes share a reported orbit exactly when they are
exchanged by an automorphism of (the sub-graph induced on) one component; the anchor is the first
component of maximal size. -/
theorem orbits_exact_components (c : Cfg) (G : LGraph) (hwf : G.WF) (hdis : 1 < (components G).length) (u v : Nat) :
    (SameClass (analyze c G).orbits u v ↔
      ∃ comp ∈ components G, ∃ m,
        IsIso c.sel (induce (normalize c G) comp) (induce (normalize c G) comp) m ∧ m.get? u = some v) ∧
    (analyze c G).anchor = chooseAnchor c (components G) := by
  obtain ⟨horb, _, hanc⟩ := analyze_disconnected c hwf hdis
  refine ⟨?_, hanc⟩
  constructor
  · rintro ⟨O, hO, hu, hv⟩
    obtain ⟨comp, hcomp, hO'⟩ := (horb O).1 hO
    exact ⟨comp, hcomp, (sameClass_component rfl (induce_wf (normalize_wf c hwf) comp) u v).1 ⟨O, hO', hu, hv⟩⟩
  · rintro ⟨comp, hcomp, hm⟩
    obtain ⟨O, hO, hu, hv⟩ := (sameClass_component rfl (induce_wf (normalize_wf c hwf) comp) u v).2 hm
    exact ⟨O, (horb O).2 ⟨comp, hcomp, hO⟩, hu, hv⟩

/-- **C11, the label-preserving automorphisms form a group** (identity, inverses, composition), so
"exchangeable by an automorphism" is an equivalence relation and the orbits are its classes. -/
theorem aut_group (sel : Sel) (hh : sel.hcountRule = false) (G : LGraph) (hwf : G.WF) :
    (∃ m, IsIso sel G G m ∧ ∀ v ∈ G.ids, m.get? v = some v) ∧
    (∀ m, IsIso sel G G m → ∃ m', IsIso sel G G m' ∧ ∀ u v, m.get? u = some v → m'.get? v = some u) ∧
    (∀ m₁ m₂, IsIso sel G G m₁ → IsIso sel G G m₂ →
      ∃ m₃, IsIso sel G G m₃ ∧ ∀ u v w, m₁.get? u = some v → m₂.get? v = some w → m₃.get? u = some w) := by
  refine ⟨⟨_, isIso_of_autFn hwf (IsAutFn.id hh G), fun v hv => ofFn_get? hwf.1 _ hv⟩, ?_, ?_⟩
  · intro m hm
    obtain ⟨hf, hmf⟩ := autFn_of_isIso hwf hm
    obtain ⟨g, hg, hgf, _⟩ := hf.inv hh hwf
    refine ⟨_, isIso_of_autFn hwf hg, ?_⟩
    intro u v huv
    rw [hmf] at huv
    obtain ⟨hu, rfl⟩ := ofFn_get?_some huv
    rw [ofFn_get? hwf.1 _ (hf.maps u hu), hgf u hu]
  · intro m₁ m₂ h1 h2
    obtain ⟨hf1, hm1⟩ := autFn_of_isIso hwf h1
    obtain ⟨hf2, hm2⟩ := autFn_of_isIso hwf h2
    refine ⟨_, isIso_of_autFn hwf (IsAutFn.comp hh hf1 hf2), ?_⟩
    intro u v w huv hvw
    rw [hm1] at huv; rw [hm2] at hvw
    obtain ⟨hu, rfl⟩ := ofFn_get?_some huv
    obtain ⟨_, rfl⟩ := ofFn_get?_some hvw
    exact ofFn_get? hwf.1 _ hu

/-- **C11, colour refinement is invariant under automorphisms at every round**: an automorphism
`σ` (given as the mapping `m`, `σ u = v`) keeps the colour of round `k`, for every `k`. -/
theorem wl_coarsens (c : EstCfg) (G : LGraph) (hwf : G.WF) (m : Mapping) (hm : IsIso c.sel G G m)
    (u v : Nat) (huv : m.get? u = some v) (k : Nat) :
    colorOf (colorsAt c G k) v = colorOf (colorsAt c G k) u := by
  obtain ⟨hf, hmf⟩ := autFn_of_isIso hwf hm
  rw [hmf] at huv
  obtain ⟨hu, rfl⟩ := ofFn_get?_some huv
  exact colorsAt_inv c hwf hf k u hu

/-- **C11, the orbit estimate never separates two nodes of one true orbit** (for whichever number
of sweeps `max_iter` allows, early stop included). -/
theorem est_never_separates (c : EstCfg) (G : LGraph) (hwf : G.WF) (m : Mapping) (hm : IsIso c.sel G G m)
    (u v : Nat) (huv : m.get? u = some v) : SameClass (estOrbits c G) u v := by
  obtain ⟨j, hj⟩ := finalColors_eq c G
  have hcol := wl_coarsens c G hwf m hm u v huv j
  obtain ⟨hf, hmf⟩ := autFn_of_isIso hwf hm
  rw [hmf] at huv
  obtain ⟨hu, rfl⟩ := ofFn_get?_some huv
  unfold estOrbits
  rw [hj]
  have hk := colorsAt_keys c G j
  exact sameClass_of_color_eq (by rw [hk]; exact hwf.1) (by rw [hk]; exact hu)
    (by rw [hk]; exact hf.maps u hu) hcol.symm

/-- **C11, every node lies in a reported orbit** (connected or not), so together with `aut_group`
the reported orbits are exactly the classes of the relation "exchangeable by an automorphism (of the
node's component)". -/
theorem orbits_cover (c : Cfg) (G : LGraph) (hwf : G.WF) (v : Nat) (hv : v ∈ G.ids) :
    ∃ O ∈ (analyze c G).orbits, v ∈ O := by
  have hn := normalize_wf c hwf
  by_cases hconn : (components G).length ≤ 1
  · rw [(analyze_connected c G hconn).1]
    exact cover_component rfl hn (by rw [normalize_ids]; exact hv)
  · have hdis : 1 < (components G).length := by omega
    obtain ⟨comp, hcomp, hvc⟩ := components_cover hv
    obtain ⟨O, hO, hvO⟩ := cover_component (sel := c.sel) rfl (induce_wf hn comp)
      (mem_induce_ids.2 ⟨by rw [normalize_ids]; exact hv, hvc⟩)
    exact ⟨O, ((analyze_disconnected c hwf hdis).1 O).2 ⟨comp, hcomp, hO⟩, hvO⟩

/-- **C11, what "connected" and "component" mean in the theorems above**: the code's test
`len(comps) <= 1` holds exactly for graphs whose nodes are mutually reachable along bonds, every node
lies in a component, and every component is the set of nodes reachable from one of its nodes. -/
theorem components_spec (G : LGraph) (hwf : G.WF) :
    ((components G).length ≤ 1 ↔ Connected G) ∧
    (∀ v ∈ G.ids, ∃ comp ∈ components G, v ∈ comp) ∧
    (∀ comp ∈ components G, ∃ w ∈ G.ids, ∀ x, x ∈ comp ↔ Reach G w x) := by
  refine ⟨components_connected_iff hwf, fun v hv => components_cover hv, ?_⟩
  intro comp hcomp
  obtain ⟨w, hw, rfl⟩ := mem_components hcomp
  exact ⟨w, hw, mem_compOf_iff hwf hw⟩

/-- **C11, the estimate is coarser than the exact analysis** on graphs that carry every selected
attribute (where reading attributes through the matcher's defaults and through `.get` coincide):
two nodes the exact analysis puts into one orbit — connected graph or, for a disconnected graph, one
component's automorphism — are never separated by the estimate, whatever `max_iter`. -/
theorem est_coarser_than_exact (c : Cfg) (G : LGraph) (hwf : G.WF)
    (hc : AttrComplete c.nodeKeys c.edgeKeys G) (maxIter : Nat) (u v : Nat)
    (h : SameClass (analyze c G).orbits u v) :
    SameClass (estOrbits { nodeKeys := c.nodeKeys, edgeKeys := c.edgeKeys, maxIter := maxIter } G) u v := by
  have hn := normalize_wf c hwf
  by_cases hconn : (components G).length ≤ 1
  · obtain ⟨m, hm, hg⟩ := ((orbits_exact c G hwf hconn u v).1).1 h
    obtain ⟨hf, hmf⟩ := autFn_of_isIso hn hm
    rw [hmf] at hg
    obtain ⟨hu, rfl⟩ := ofFn_get?_some hg
    rw [normalize_ids] at hu
    have hF := autFn_of_normalize c hwf hc hf
    exact est_never_separates { nodeKeys := c.nodeKeys, edgeKeys := c.edgeKeys, maxIter := maxIter } G hwf _
      (isIso_of_autFn hwf hF) u _ (ofFn_get? hwf.1 _ hu)
  · have hdis : 1 < (components G).length := by omega
    obtain ⟨comp, hcomp, m, hm, hg⟩ := ((orbits_exact_components c G hwf hdis u v).1).1 h
    have hwi := induce_wf hn comp
    obtain ⟨hf, hmf⟩ := autFn_of_isIso hwi hm
    rw [hmf] at hg
    obtain ⟨hu, rfl⟩ := ofFn_get?_some hg
    obtain ⟨hu1, hu2⟩ := mem_induce_ids.1 hu
    rw [normalize_ids] at hu1
    obtain ⟨w, hw, rfl⟩ := mem_components hcomp
    have hcl := closed_normalize c (compOf_closed hwf hw)
    have hF := autFn_of_normalize c hwf hc (extend_aut rfl hn hcl hf)
    have := est_never_separates { nodeKeys := c.nodeKeys, edgeKeys := c.edgeKeys, maxIter := maxIter } G hwf _
      (isIso_of_autFn hwf hF) u _ (ofFn_get? hwf.1 _ hu1)
    simpa [hu2] using this

/-- **C11, de-duplication returns a sub-list of its input in the original order.** -/
theorem dedup_sublist (a : DedupArgs) (ms r : List Mapping) (h : dedup a ms = .ok r) : List.Sublist r ms := by
  unfold dedup at h
  split at h
  · cases h; exact List.Sublist.refl _
  · exact dedupLoop_sublist _ _ _ _ h

/-- **C11, de-duplication keeps no two matches with the same signature.** -/
theorem dedup_nodup_sig (a : DedupArgs) (ms r : List Mapping)
    (horb : ¬ (a.patternOrbits.isNone && a.hostOrbits.isNone) = true) (h : dedup a ms = .ok r) :
    r.Pairwise (fun m₁ m₂ => signature a m₁ ≠ signature a m₂) ∧ ∀ m ∈ r, ∃ s, signature a m = .ok s := by
  unfold dedup at h
  rw [if_neg horb] at h
  obtain ⟨h1, h2⟩ := dedupLoop_nodup _ _ _ _ h
  exact ⟨h2, fun m hm => let ⟨s, hs, _⟩ := h1 m hm; ⟨s, hs⟩⟩

/-- **C11, de-duplication loses no signature class**: every input match has a kept match with the
same signature (so exactly one match per signature, by `dedup_nodup_sig`). -/
theorem dedup_complete (a : DedupArgs) (ms r : List Mapping)
    (horb : ¬ (a.patternOrbits.isNone && a.hostOrbits.isNone) = true) (h : dedup a ms = .ok r) :
    ∀ m ∈ ms, ∃ m' ∈ r, signature a m' = signature a m := by
  unfold dedup at h
  rw [if_neg horb] at h
  intro m hm
  obtain ⟨s, hs, hcase⟩ := dedupLoop_complete _ _ _ _ h m hm
  rcases hcase with hc | ⟨m', hm', hs'⟩
  · cases hc
  · exact ⟨m', hm', by rw [hs, hs']⟩

/-- **C11, without orbit information nothing is removed.** -/
theorem dedup_id (pa : Option (List Nat)) (ms : List Mapping) :
    dedup ⟨none, pa, none⟩ ms = .ok ms := rfl

/-- **C11 at full strength.**  `ReactorClause` stands for the last clause ("the symmetry pruning
used during rule application never changes the set of distinct reactions obtained compared with
applying the rule at every match"), a statement about `SynReactor` whose model belongs to the reactor
properties (C03–C05). -/
def C11.FullStatement (ReactorClause : Prop) : Prop :=
  (∀ (c : Cfg) (G : LGraph), G.WF →
    -- connected graphs: exact count and exact orbits
    (Connected G →
      ((analyze c G).nAut = (auts c.sel (normalize c G)).length ∧ (auts c.sel (normalize c G)).Nodup ∧
        ∀ m, m ∈ auts c.sel (normalize c G) ↔ IsIso c.sel (normalize c G) (normalize c G) m) ∧
      ∀ u v, SameClass (analyze c G).orbits u v ↔
        ∃ m, IsIso c.sel (normalize c G) (normalize c G) m ∧ m.get? u = some v) ∧
    -- disconnected graphs: the same per component, component swaps excluded
    (¬ Connected G →
      (analyze c G).nAut =
        ((components G).map fun comp => (auts c.sel (induce (normalize c G) comp)).length).foldl (· * ·) 1 ∧
      ∀ u v, SameClass (analyze c G).orbits u v ↔
        ∃ comp ∈ components G, ∃ m,
          IsIso c.sel (induce (normalize c G) comp) (induce (normalize c G) comp) m ∧ m.get? u = some v) ∧
    (∀ v ∈ G.ids, ∃ O ∈ (analyze c G).orbits, v ∈ O)) ∧
  -- the estimate never separates a true orbit, at any round
  (∀ (c : EstCfg) (G : LGraph), G.WF → ∀ m, IsIso c.sel G G m → ∀ u v, m.get? u = some v →
    (∀ k, colorOf (colorsAt c G k) v = colorOf (colorsAt c G k) u) ∧ SameClass (estOrbits c G) u v) ∧
  -- de-duplication returns a sub-list in the original order
  (∀ (a : DedupArgs) (ms r : List Mapping), dedup a ms = .ok r → List.Sublist r ms) ∧
  ReactorClause

/-- **C11 without the reactor clause** (`_partial`: the reactor clause is a hypothesis here; it is
decided with the reactor model, see DESIGN §6 F11 — on the pinned tree it is violated). -/
theorem C11.full_partial (ReactorClause : Prop) (hR : ReactorClause) : C11.FullStatement ReactorClause := by
  refine ⟨?_, ?_, fun a ms r h => dedup_sublist a ms r h, hR⟩
  · intro c G hwf
    refine ⟨?_, ?_, fun v hv => orbits_cover c G hwf v hv⟩
    · intro hc
      have hconn := (components_connected_iff hwf).2 hc
      exact ⟨aut_count_exact c G hwf hconn, fun u v => (orbits_exact c G hwf hconn u v).1⟩
    · intro hc
      have hdis : 1 < (components G).length := by
        have : ¬ (components G).length ≤ 1 := fun h => hc ((components_connected_iff hwf).1 h)
        omega
      exact ⟨(aut_count_components c G hwf hdis).1, fun u v => (orbits_exact_components c G hwf hdis u v).1⟩
  · intro c G hwf m hm u v huv
    exact ⟨fun k => wl_coarsens c G hwf m hm u v huv k, est_never_separates c G hwf m hm u v huv⟩

/-- **C11, reactor clause, for the modelled reactor with the repaired pruning** (`pruneByAut`, draft
fix 0015): pruning the matches by the automorphisms of the rule never changes the set of reactions
obtained, compared with gluing at every match (`ReactorLink.PruningClauseModel`; proof:
`ReactorLink.glue_aut_iso` — matches that differ by a rule automorphism glue to isomorphic ITS
graphs — and `prune_preserves_results_on`).  For the pruning as coded on the pinned tree the clause
is false (`dedup_merges_non_automorphic`, DESIGN §6 F11). -/
theorem C11.pruning_clause_model : SynKit.ReactorLink.PruningClauseModel :=
  fun maxGroup host T ms hH hT hms =>
    SynKit.ReactorInv.C05.prune_preserves_implicitResults maxGroup host T ms hH hT hms

/-- **C11 at full strength for the model**: every clause, the reactor clause being that of the
modelled reactor with the repaired pruning. -/
theorem C11.full_model : C11.FullStatement SynKit.ReactorLink.PruningClauseModel :=
  C11.full_partial _ C11.pruning_clause_model

/-- Non-vacuity of the reactor clause: a well-formed substrate and rule with two exchangeable atoms;
the exhaustive search finds two matches (each an `IsMono`, by `mem_allMonos`), the rule has two
automorphisms, the pruning keeps one match. -/
example : SynKit.Reactor.WFHost SynKit.ReactorLink.exSymHost ∧ SynKit.Reactor.WFTemplate SynKit.ReactorLink.exSymRule ∧
    (allMonos SynKit.Reactor.monoSel SynKit.ReactorLink.exSymHost (SynKit.Reactor.left SynKit.ReactorLink.exSymRule)).length = 2 ∧
    (auts SynKit.ReactorLink.itsSel SynKit.ReactorLink.exSymRule).length = 2 ∧
    (SynKit.ReactorInv.pruneByAut 5040 (SynKit.Reactor.left SynKit.ReactorLink.exSymRule).ids
      (auts SynKit.ReactorLink.itsSel SynKit.ReactorLink.exSymRule)
      (allMonos SynKit.Reactor.monoSel SynKit.ReactorLink.exSymHost (SynKit.Reactor.left SynKit.ReactorLink.exSymRule))).length = 1 := by
  decide

example : ∀ m ∈ allMonos SynKit.Reactor.monoSel SynKit.ReactorLink.exSymHost (SynKit.Reactor.left SynKit.ReactorLink.exSymRule),
    IsMono SynKit.Reactor.monoSel SynKit.ReactorLink.exSymHost (SynKit.Reactor.left SynKit.ReactorLink.exSymRule) m :=
  fun m hm => (mem_allMonos _ _ _ (SynKit.Reactor.left_wf _ (by decide)) m).1 hm

/-! ### The reactor clause for match lists with PARTIAL matches and for the `max_group` fall-back

`SynReactor(partial=True)` hands the pruning the matches of `PartialMatcher`: dicts that may lack
pattern nodes.  `prunePartial` / `pruneWithCap` (`SynKitModel/ReactorInv.lean`) follow
`_prune_by_rule_automorphisms` literally on such lists.  What the code does with a match that lacks a
pattern node: it builds NO key for it and passes it through (`if any(p not in m for p in keep):
unique.append(m); continue`), so partial matches are never merged — neither with each other nor with
total ones — and the pruning acts on the matches that cover the pattern only.  The theorems below say
so, and that this never changes the set of reactions. -/
section PartialPruning
open SynKit.ReactorInv

/-- **C11, reactor clause (partial matches), the kept matches are a sub-list of the raw matches in the
original order** — nothing is invented, reordered or duplicated, partial matches included. -/
theorem C11.prunePartial_sublist (keep : List Nat) (group ms r : List Mapping)
    (h : prunePartial keep group ms = .ok r) : r.Sublist ms :=
  prunePartial_sublist' keep group ms r h

/-- **C11, reactor clause (partial matches), what is dropped is covered.**  Every raw match is kept, or
a kept match `m'` is related to it by rule automorphisms as a partial map: `m ∘ σ₁ = m' ∘ σ₂` on the
pattern nodes for listed `σ₁, σ₂` — undefined at the same pattern nodes (`domOn`: the two composites
have the same domain, the pre-image of the domain of `m` under `σ₁`).  With the code as it is, a match
is only ever dropped in favour of a match that covers the pattern, and covers it itself. -/
theorem C11.prunePartial_covers (keep : List Nat) (group ms r : List Mapping)
    (h : prunePartial keep group ms = .ok r) :
    ∀ m ∈ ms, m ∈ r ∨ ∃ m' ∈ r, coversB keep m = true ∧ coversB keep m' = true ∧
      ∃ σ₁ ∈ group, ∃ σ₂ ∈ group, (∀ p ∈ keep, pcomp m σ₁ p = pcomp m' σ₂ p) ∧ domOn keep m σ₁ = domOn keep m' σ₂ := by
  intro m hm
  rcases prunePartial_covers' keep group ms r h m hm with h1 | ⟨k, m', hm', hk, hk'⟩
  · exact Or.inl h1
  · obtain ⟨σ₁, h₁, σ₂, h₂, hpt⟩ := related_relatedP keep group m m' (same_key_related keep group m m' k hk hk')
    exact Or.inr ⟨m', hm', (keyP_key keep group m k hk).1, (keyP_key keep group m' k hk').1,
      σ₁, h₁, σ₂, h₂, hpt, domOn_congr keep m σ₁ m' σ₂ hpt⟩

/-- **C11, reactor clause (partial matches), a match that lacks a pattern node is never pruned**: the
matches that do not cover the pattern come back exactly — the same ones, as often, in the same order. -/
theorem C11.prunePartial_keeps_lacking (keep : List Nat) (group ms r : List Mapping)
    (h : prunePartial keep group ms = .ok r) :
    r.filter (fun m => !coversB keep m) = ms.filter (fun m => !coversB keep m) ∧
    ∀ m ∈ ms, coversB keep m = false → m ∈ r := by
  have hf := prunePartial_lacking' keep group ms r h
  refine ⟨hf, fun m hm hc => ?_⟩
  have : m ∈ ms.filter (fun m => !coversB keep m) := List.mem_filter.2 ⟨hm, by rw [hc]; rfl⟩
  rw [← hf] at this
  exact (List.mem_filter.1 this).1

/-- **C11, reactor clause (partial matches), on total matches the relation is the one of the total-map
theorems.**  For a match that covers the pattern nodes and automorphisms that map pattern nodes to
pattern nodes, "common partial image" (`RelatedP`) is "common image" (`Related`, the relation of
`PruneSpec` / `pruneSpec_preserves_results`); the second match then covers the pattern too. -/
theorem C11.prunePartial_total (keep : List Nat) (group : List Mapping)
    (hg : ∀ σ ∈ group, ∀ p ∈ keep, ∃ q ∈ keep, Mapping.get? σ p = some q)
    (m m' : Mapping) (hm : coversB keep m = true) :
    RelatedP keep group m m' ↔ Related keep group m m' :=
  ⟨relatedP_related keep group hg m m' hm, related_relatedP keep group m m'⟩

/-- **C11, reactor clause (partial matches), the routine meets the specification the total-map
theorems use** (`PruneSpec`: sub-list; every raw match kept or `Related` to a kept one) — on ANY list,
partial matches included: those are kept. -/
theorem C11.prunePartial_spec (keep : List Nat) (group ms r : List Mapping)
    (h : prunePartial keep group ms = .ok r) : PruneSpec keep group ms r := by
  refine ⟨prunePartial_sublist' keep group ms r h, fun m hm => ?_⟩
  rcases prunePartial_covers' keep group ms r h m hm with h1 | ⟨k, m', hm', hk, hk'⟩
  · exact Or.inl h1
  · exact Or.inr ⟨m', hm', same_key_related keep group m m' k hk hk'⟩

/-- **C11, reactor clause (partial matches): pruning never changes the set of distinct reactions.**
Under the gluing hypothesis of the total-map theorem (`GlueAutInvariant`: composing a match with a
listed rule automorphism does not change what it glues to), the reactions obtained from the kept
matches and from all raw matches are the same set — for lists that hold partial matches too, and
whatever a partial match glues to. -/
theorem C11.prunePartial_reaction_set {R : Type} {E : R → R → Prop} (hE : Equivalence E) (glue : Mapping → List R)
    (keep : List Nat) (group : List Mapping) (hinv : GlueAutInvariant E glue keep group)
    (ms r : List Mapping) (h : prunePartial keep group ms = .ok r) :
    SetEqMod E (resultsOf glue r) (resultsOf glue ms) :=
  pruneSpec_preserves_results hE glue keep group hinv ms r (C11.prunePartial_spec keep group ms r h)

/-- The same with the gluing hypothesis demanded only of the raw matches that cover the pattern (the
form the concrete reactor provides: `concrete_glue_aut` speaks about matches of the prepared pattern). -/
theorem C11.prunePartial_reaction_set_on {R : Type} {E : R → R → Prop} (hE : Equivalence E) (glue : Mapping → List R)
    (keep : List Nat) (group : List Mapping) (ms r : List Mapping)
    (hinv : ∀ σ ∈ group, ∀ m ∈ ms, coversB keep m = true → ∀ k, composeOn keep m σ = some k → SetEqMod E (glue k) (glue m))
    (h : prunePartial keep group ms = .ok r) :
    SetEqMod E (resultsOf glue r) (resultsOf glue ms) := by
  have hsub := prunePartial_sublist' keep group ms r h
  constructor
  · apply SubsetMod.of_subset hE
    intro x hx
    obtain ⟨m, hm, hxm⟩ := List.mem_flatMap.1 hx
    exact List.mem_flatMap.2 ⟨m, hsub.subset hm, hxm⟩
  · apply SubsetMod.flatMap
    intro m hm
    rcases prunePartial_covers' keep group ms r h m hm with h1 | ⟨k, m', hm', hk, hk'⟩
    · exact ⟨m, h1, SubsetMod.refl hE _⟩
    · obtain ⟨σ₁, h₁, σ₂, h₂, i, e₁, e₂⟩ := same_key_related keep group m m' k hk hk'
      exact ⟨m', hm', (SetEqMod.trans hE
        (SetEqMod.symm (hinv σ₁ h₁ m hm (keyP_key keep group m k hk).1 i e₁))
        (hinv σ₂ h₂ m' (hsub.subset hm') (keyP_key keep group m' k hk').1 i e₂)).1⟩

/-- **C11, reactor clause, the `max_group` fall-back.**  With more listed automorphisms than `cap` the
matches come back unchanged; otherwise the bound plays no role (`prunePartial`); in both cases the
kept matches are a sub-list of the raw ones and — under `GlueAutInvariant` — give the same set of
reactions. -/
theorem C11.pruneWithCap_spec {R : Type} {E : R → R → Prop} (hE : Equivalence E) (glue : Mapping → List R)
    (cap : Nat) (keep : List Nat) (group ms : List Mapping) :
    (group.length > cap → pruneWithCap cap keep group ms = .ok ms) ∧
    (¬ group.length > cap → pruneWithCap cap keep group ms = prunePartial keep group ms) ∧
    (GlueAutInvariant E glue keep group → ∀ r, pruneWithCap cap keep group ms = .ok r →
      r.Sublist ms ∧ SetEqMod E (resultsOf glue r) (resultsOf glue ms)) := by
  rw [pruneWithCap_eq]
  refine ⟨fun hc => by rw [if_pos hc], fun hc => by rw [if_neg hc], fun hinv r hr => ?_⟩
  by_cases hc : group.length > cap
  · rw [if_pos hc] at hr
    simp only [PruneRes.ok.injEq] at hr
    subst hr
    exact ⟨List.Sublist.refl _, SetEqMod.refl hE _⟩
  · rw [if_neg hc] at hr
    exact ⟨C11.prunePartial_sublist keep group ms r hr, C11.prunePartial_reaction_set hE glue keep group hinv ms r hr⟩

/-- **C11, reactor clause, no exception inside the pruning.**  When every listed automorphism maps
pattern nodes to pattern nodes and the list is not empty (a group: it holds the identity), the routine
returns a list — the `KeyError` / `ValueError` outcomes of the model are not reachable — whatever the
matches, partial ones included, and whatever the bound. -/
theorem C11.prunePartial_no_error (keep : List Nat) (group : List Mapping)
    (hg : ∀ σ ∈ group, ∀ p ∈ keep, ∃ q ∈ keep, Mapping.get? σ p = some q) (hne : group ≠ [])
    (cap : Nat) (ms : List Mapping) :
    (∃ r, prunePartial keep group ms = .ok r) ∧ ∃ r, pruneWithCap cap keep group ms = .ok r := by
  refine ⟨prunePartial_ok' keep group hg hne ms, ?_⟩
  rw [pruneWithCap_eq]
  by_cases hc : group.length > cap
  · rw [if_pos hc]; exact ⟨ms, rfl⟩
  · rw [if_neg hc]; exact prunePartial_ok' keep group hg hne ms

/-- **C11, reactor clause for the modelled reactor, partial matches.**  For the modelled implicit path
(`ReactorLink.concrete`), in either direction: pruning a list of matches with the routine followed
literally — over the automorphisms of the oriented rule — never changes the set of reactions obtained
(up to isomorphism of ITS graphs).  Only the matches that cover the prepared pattern have to be matches
of it; the partial ones are arbitrary (they are kept, so nothing is asked of what they glue to). -/
theorem C11.pruning_clause_partial_model (maxGroup : Nat) (comp : LGraph → LGraph → List Mapping)
    (dir : Bool) (host T : LGraph) (ms r : List Mapping)
    (hms : ∀ m ∈ ms, coversB (SynKit.Reactor.left (SynKit.ReactorLink.orient dir T)).ids m = true →
      SynKit.Reactor.WFHost host → SynKit.Reactor.WFTemplate (SynKit.ReactorLink.orient dir T) →
      IsMono SynKit.Reactor.monoSel host (SynKit.Reactor.left (SynKit.ReactorLink.orient dir T)) m)
    (h : prunePartial (SynKit.Reactor.left (SynKit.ReactorLink.orient dir T)).ids
      (auts SynKit.ReactorLink.itsSel (SynKit.ReactorLink.orient dir T)) ms = .ok r) :
    SetEqMod SynKit.ReactorLink.ItsEquiv
      (resultsOf ((SynKit.ReactorLink.concrete maxGroup comp).glue dir host T) r)
      (resultsOf ((SynKit.ReactorLink.concrete maxGroup comp).glue dir host T) ms) :=
  C11.prunePartial_reaction_set_on SynKit.ReactorLink.itsEquiv_equivalence _ _ _ ms r
    (fun σ hσ m hm hc k hk => SynKit.ReactorLink.concrete_glue_aut maxGroup comp dir host T m σ k (hms m hm hc) hσ hk) h

/-! #### non-vacuity: the C–H / C–H coupling centre

`[C:1][H:2].[C:3][H:4]>>[C:1][C:3].[H:2][H:4]` with the hydrogens implicit: pattern nodes 1 and 3 (two
one-atom components, so the partial matcher also returns the matches of ONE of them), rule
automorphisms on the pattern: the identity and the swap 1 ↔ 3. -/

def exKeep : List Nat := [1, 3]
def exGroup : List Mapping := [[(1, 1), (3, 3)], [(1, 3), (3, 1)]]
/-- two partial matches related by the swap, two total matches related by the swap, one more partial match -/
def exMatches : List Mapping := [[(1, 10)], [(3, 10)], [(1, 10), (3, 11)], [(1, 11), (3, 10)], [(1, 12)]]

/-- The routine on that list: the second total match is dropped, every partial match is kept — also
`{3: 10}`, which the swap relates to `{1: 10}` as a partial map (`RelatedP`). -/
example : prunePartial exKeep exGroup exMatches = .ok [[(1, 10)], [(3, 10)], [(1, 10), (3, 11)], [(1, 12)]] ∧
    RelatedP exKeep exGroup [(1, 10)] [(3, 10)] ∧ domOn exKeep [(1, 10)] [(1, 3), (3, 1)] = [3] ∧
    Related exKeep exGroup [(1, 10), (3, 11)] [(1, 11), (3, 10)] ∧
    ¬ RelatedP exKeep exGroup [(1, 10)] [(1, 12)] := by
  unfold RelatedP Related
  decide

/-- The hypotheses of `C11.prunePartial_total` / `C11.prunePartial_no_error` hold for that group. -/
example : (∀ σ ∈ exGroup, ∀ p ∈ exKeep, ∃ q ∈ exKeep, Mapping.get? σ p = some q) ∧ exGroup ≠ [] := by decide

/-- The fall-back: two automorphisms against a bound of one — everything comes back; at a bound of two
the routine prunes. -/
example : pruneWithCap 1 exKeep exGroup exMatches = .ok exMatches ∧
    pruneWithCap 2 exKeep exGroup exMatches = .ok [[(1, 10)], [(3, 10)], [(1, 10), (3, 11)], [(1, 12)]] := by decide

/-- The keys are compared as `repr` strings: under `"10" < "9"` the least image of `{1: 9, 3: 10}` is the
swapped one; a second match in the same class is dropped all the same. -/
example : keyP exKeep exGroup [(1, 9), (3, 10)] = .key [(1, 10), (3, 9)] ∧
    prunePartial exKeep exGroup [[(1, 9), (3, 10)], [(3, 9), (1, 10)]] = .ok [[(1, 9), (3, 10)]] := by decide

/-- The two exceptions of the code are outcomes of the model: an "automorphism" that leaves the pattern
(`m[s[p]]`, `KeyError`) and an empty group (`min([])`, `ValueError`); neither below two matches, nor above the bound. -/
example : prunePartial exKeep [[(1, 1), (3, 4)]] [[(1, 10), (3, 11)], [(1, 11), (3, 10)]] = .keyError ∧
    prunePartial exKeep [] [[(1, 10), (3, 11)], [(1, 11), (3, 10)]] = .valueError ∧
    prunePartial exKeep [] [[(1, 10), (3, 11)]] = .ok [[(1, 10), (3, 11)]] ∧
    pruneWithCap 0 exKeep [[(1, 1), (3, 4)]] [[(1, 10), (3, 11)], [(1, 11), (3, 10)]] =
      .ok [[(1, 10), (3, 11)], [(1, 11), (3, 10)]] := by decide

/-- `C11.prunePartial_reaction_set` / `C11.pruneWithCap_spec` apply to that list (with a glue step that
renders every match to the same reaction, `GlueAutInvariant` holds). -/
example : SetEqMod (· = ·)
    (resultsOf (fun _ : Mapping => [0]) [[(1, 10)], [(3, 10)], [(1, 10), (3, 11)], [(1, 12)]])
    (resultsOf (fun _ : Mapping => [0]) exMatches) :=
  C11.prunePartial_reaction_set ⟨fun _ => rfl, fun h => h.symm, fun h1 h2 => h1.trans h2⟩ _ exKeep exGroup
    (fun _ _ _ _ _ => SetEqMod.refl ⟨fun _ => rfl, fun h => h.symm, fun h1 h2 => h1.trans h2⟩ _) exMatches _ (by decide)

/-- `C11.pruning_clause_partial_model` is non-vacuous: on the Br–Br substrate and the homolysis rule (two
automorphisms) the routine prunes the two matches of the exhaustive search to one and keeps a partial
match appended to them. -/
example :
    prunePartial (SynKit.Reactor.left SynKit.ReactorLink.exSymRule).ids
      (auts SynKit.ReactorLink.itsSel SynKit.ReactorLink.exSymRule)
      (allMonos SynKit.Reactor.monoSel SynKit.ReactorLink.exSymHost (SynKit.Reactor.left SynKit.ReactorLink.exSymRule) ++ [[(10, 1)]])
    = .ok [[(10, 1), (11, 2)], [(10, 1)]] := by
  decide

end PartialPruning

/-! ### non-vacuity and witnesses -/

def ex_el (e : String) : Attrs := [("element", .str e), ("charge", .num 0)]
def ex_bond : Attrs := [("order", .num 2)]
/-- a path C–C–C (ids 5, 1, 3) and a separate N–N (ids 2, 8) -/
def exGraph : LGraph :=
  { nodes := [(5, ex_el "C"), (1, ex_el "C"), (3, ex_el "C"), (2, ex_el "N"), (8, ex_el "N")]
    edges := [(5, 1, ex_bond), (3, 1, ex_bond), (8, 2, ex_bond)] }
def exPath : LGraph :=
  { nodes := [(5, ex_el "C"), (1, ex_el "C"), (3, ex_el "C")], edges := [(5, 1, ex_bond), (3, 1, ex_bond)] }
def exCfg : Cfg := { nodeKeys := ["element", "charge"], edgeKeys := ["order"] }
def exEst : EstCfg := { nodeKeys := ["element", "charge"], edgeKeys := ["order"] }

/-- connected case is non-vacuous: the path has 2 automorphisms and orbits {1}, {3,5} -/
example : exPath.WF ∧ (components exPath).length ≤ 1 ∧ (analyze exCfg exPath).nAut = 2 ∧
    SameClass (analyze exCfg exPath).orbits 5 3 ∧ ¬ SameClass (analyze exCfg exPath).orbits 5 1 := by decide

/-- disconnected case is non-vacuous: 2 · 2 automorphisms, anchor = the path -/
example : exGraph.WF ∧ 1 < (components exGraph).length ∧ (analyze exCfg exGraph).nAut = 4 ∧
    (analyze exCfg exGraph).anchor = some [1, 3, 5] ∧ SameClass (analyze exCfg exGraph).orbits 2 8 := by decide

/-- `est_coarser_than_exact` is non-vacuous: the example graph carries every selected attribute -/
example : AttrComplete exCfg.nodeKeys exCfg.edgeKeys exGraph ∧ Connected exPath := by
  refine ⟨by unfold AttrComplete; decide, (components_connected_iff (by decide)).1 (by decide)⟩

/-- the estimate on the same graph: classes {1}, {3,5}, {2,8} -/
example : SameClass (estOrbits exEst exGraph) 5 3 ∧ SameClass (estOrbits exEst exGraph) 2 8 ∧
    ¬ SameClass (estOrbits exEst exGraph) 5 1 ∧ estAnchor exGraph = [1, 3, 5] := by decide

/-- a 6-ring against two 3-rings: the estimate is strictly coarser than the truth is allowed to be
(one colour class, although no automorphism joins the two graphs' nodes) -/
example :
    let g : LGraph := { nodes := [(0, []), (1, []), (2, []), (3, []), (4, []), (5, [])]
                        edges := [(0, 1, []), (1, 2, []), (2, 0, []), (3, 4, []), (4, 5, []), (5, 3, [])] }
    (estOrbits { nodeKeys := [], edgeKeys := [] } g).length = 1 := by decide

/-- de-duplication is non-vacuous: orbits {0,2},{1} of a path pattern merge the two orientations -/
example : dedup ⟨some [[0, 2], [1]], none, none⟩ [[(0, 7), (1, 8), (2, 9)], [(0, 9), (1, 8), (2, 7)], [(0, 7), (1, 8), (2, 6)]]
    = .ok [[(0, 7), (1, 8), (2, 9)], [(0, 7), (1, 8), (2, 6)]] := by decide

/-- a host node outside the given host orbits is an error, as in the code -/
example : dedup ⟨none, none, some [[7, 8]]⟩ [[(0, 7)], [(0, 9)]] = .error .valueError := by decide

/-- **Witness for the pruning clause (DESIGN §6 F11).**  Pattern `c–a–b–d` (path, orbits `{a,b}`,
`{c,d}`; its only non-trivial automorphism swaps `a↔b` and `c↔d` simultaneously).  The two matches
below differ by the transposition `a↔b` alone, which is NOT an automorphism of the pattern, yet they
have the same signature and the second is dropped. -/
theorem dedup_merges_non_automorphic :
    let pat : LGraph := { nodes := [(0, []), (1, []), (2, []), (3, [])], edges := [(2, 0, []), (0, 1, []), (1, 3, [])] }
    let sel : Sel := { nodeKeys := [], edgeKeys := [], hcountRule := false }
    let m₁ : Mapping := [(0, 10), (1, 11), (2, 12), (3, 13)]
    let m₂ : Mapping := [(0, 11), (1, 10), (2, 12), (3, 13)]
    (analyze { nodeKeys := [], edgeKeys := [] } pat).orbits = [[0, 1], [2, 3]] ∧
    dedup ⟨some [[2, 3], [0, 1]], none, none⟩ [m₁, m₂] = .ok [m₁] ∧
    [(0, 1), (1, 0), (2, 2), (3, 3)] ∉ auts sel pat := by decide

end SynKit.Aut

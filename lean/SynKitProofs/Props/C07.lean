import SynKitModel.GraphMatcherEngine
import SynKitProofs.GraphMatcherEngineLemmas
import SynKitProofs.FindIsoLemmas
/-!
# C07 — isomorphism verdicts and embeddings are correct; pre-filters never change them

Property theorems only; helper lemmas live in `SynKitProofs/GraphMatcherEngineLemmas.lean` and
`SynKitProofs/Match.lean`.  The model (`SynKitModel/GraphMatcherEngine.lean`) follows the repaired
code (DESIGN §6 F5, F5b, F6, F7).

Soundness of the *refined* WL-1 containment filter for graphs with equally many nodes
(`wl1_filter=True`) is proved as `wl_refined_sound` (an isomorphism maps the neighbours of a node onto
the neighbours of its image, `iso_neighbors_perm`).  The theorems with the suffix `_partial` are the
earlier versions carrying the hypothesis "filter off or sizes differ"; `preCheck_sound`,
`get_mappings_nonempty_iff_contained` and `isomorphic_iff` are the full versions without it.
-/
namespace SynKit.GME
open SynKit.Match

/-- **C07, query histories.** Whatever queries were made before, by engines with whatever attribute
selections, on the same (immutable) graph objects: every answer of a history run against the
shared cache equals the cache-free answer of that query alone. -/
theorem cache_transparent (heap : List LGraph) (qs : List Query) :
    run heap [] qs = qs.map (pureAnswer heap) :=
  run_ok heap [] (fun _ h => by cases h) qs

/-- **C07, embeddings are valid**: everything `get_mappings(host, pattern)` returns is a
pattern→host induced embedding under the engine's attribute selection and the host-≥-pattern
hydrogen rule. -/
theorem get_mappings_valid (e : Engine) (host pat : LGraph) (hP : pat.WF) (m : Mapping)
    (hm : m ∈ getMappingsPure e host pat) : IsInduced e.sel host pat m := by
  unfold getMappingsPure at hm
  split at hm
  · cases hm
  · apply (mem_allInduced e.sel host pat hP m).1
    unfold mappingsCore at hm
    split at hm
    · exact List.mem_of_mem_take hm
    · split at hm
      · exact hm
      · exact List.mem_of_mem_take hm

/-- **Size pre-filter is sound**: a contained pattern has no more nodes and no more edges. -/
theorem filter_sound_size (sel : Sel) (H P : LGraph) (hH : H.WF) (hP : P.WF) (m : Mapping) (hm : IsMono sel H P m) :
    P.nodes.length ≤ H.nodes.length ∧ P.edges.length ≤ H.edges.length :=
  ⟨mono_nodes_le hH.1 hP.1 hm, mono_edges_le hP hm⟩

/-- **WL pre-filter, proper sub-graphs, is sound** (the repaired branch): base-label histograms of
a contained pattern are contained in the host's. -/
theorem filter_sound_wl_base (e : Engine) (H P : LGraph) (hH : H.WF) (hP : P.WF) (m : Mapping)
    (hm : IsMono e.sel H P m) : baseContained (wl1 H e.nodeAttrs) (wl1 P e.nodeAttrs) = true :=
  baseContained_of_mono e.sel H P m hH.1 hP.1 hm

/-- The pre-check never rejects a contained pattern — proved when the WL filter is off or the
pattern has fewer nodes than the host.  Missing: the refined WL containment for equal sizes. -/
theorem preCheck_sound_partial (e : Engine) (host pat : LGraph) (hH : host.WF) (hP : pat.WF) (m : Mapping)
    (hm : IsMono e.sel host pat m) (hw : e.wl1Filter = false ∨ host.nodes.length ≠ pat.nodes.length) :
    preCheckPure e host pat = true := by
  obtain ⟨h1, h2⟩ := filter_sound_size e.sel host pat hH hP m hm
  unfold preCheckPure preCheckWith
  rw [if_neg (by simp only [Bool.or_eq_true, decide_eq_true_eq]; omega)]
  rcases hw with hw | hw
  · simp [hw]
  · cases hwl : e.wl1Filter with
    | false => simp
    | true =>
      simp only [Bool.not_true, Bool.false_eq_true, if_false, if_neg hw]
      exact filter_sound_wl_base e host pat hH hP m hm

/-- **C07, embeddings non-empty iff contained** (including strictly smaller patterns — the F5
regime — with the WL filter on or off), for `max_mappings ≠ 0`.  `_partial`: for equally many nodes
it is proved with the WL filter off. -/
theorem get_mappings_nonempty_iff_contained_partial (e : Engine) (host pat : LGraph) (hH : host.WF) (hP : pat.WF)
    (hk : e.maxMappings ≠ some 0) (hw : e.wl1Filter = false ∨ host.nodes.length ≠ pat.nodes.length) :
    getMappingsPure e host pat ≠ [] ↔ ∃ m, IsInduced e.sel host pat m := by
  constructor
  · intro h
    obtain ⟨m, hm⟩ := List.exists_mem_of_ne_nil _ h
    exact ⟨m, get_mappings_valid e host pat hP m hm⟩
  · rintro ⟨m, hm⟩
    have hpre := preCheck_sound_partial e host pat hH hP m hm.1 hw
    have hne : allInduced e.sel host pat ≠ [] := List.ne_nil_of_mem ((mem_allInduced e.sel host pat hP m).2 hm)
    unfold getMappingsPure
    rw [hpre]
    simp only [Bool.not_true, Bool.false_eq_true, if_false]
    unfold mappingsCore
    obtain ⟨x, xs, hx⟩ := List.exists_cons_of_ne_nil hne
    split
    · rw [hx]; simp
    · cases hmm : e.maxMappings with
      | none => simpa using hne
      | some k =>
        have : k ≠ 0 := fun h0 => hk (by rw [hmm, h0])
        obtain ⟨k', rfl⟩ := Nat.exists_eq_succ_of_ne_zero this
        simp [hx]

/-- **C07, verdict ⇒ bijection.** A `True` from `isomorphic(g1, g2)` means a bijection preserving
adjacency, the selected node and edge attributes and the hydrogen rule (`g1` as host) exists —
whatever the filter setting. -/
theorem isomorphic_sound (e : Engine) (g1 g2 : LGraph) (h1 : g1.WF) (h2 : g2.WF)
    (h : isomorphicPure e g1 g2 = true) : ∃ m, IsIso e.sel g1 g2 m := by
  unfold isomorphicPure at h
  by_cases hgt : g1.nodes.length > g2.nodes.length
  · simp only [hgt, if_true] at h
    split at h
    · cases h
    · unfold isoCore at h
      rw [if_neg (by omega)] at h
      simp only [Bool.not_eq_true', List.isEmpty_eq_false_iff] at h
      obtain ⟨m, hm⟩ := List.exists_mem_of_ne_nil _ h
      have := mono_nodes_le h2.1 h1.1 ((mem_allInduced e.sel g2 g1 h1 m).1 hm).1
      omega
  · simp only [hgt, if_false] at h
    split at h
    · cases h
    · unfold isoCore at h
      by_cases heq : g1.nodes.length = g2.nodes.length
      · rw [if_pos heq] at h
        exact (isoDecide_iff e.sel g1 g2 h2).1 h
      · rw [if_neg heq] at h
        simp only [Bool.not_eq_true', List.isEmpty_eq_false_iff] at h
        obtain ⟨m, hm⟩ := List.exists_mem_of_ne_nil _ h
        have := mono_nodes_le h1.1 h2.1 ((mem_allInduced e.sel g1 g2 h2 m).1 hm).1
        omega

/-- Graphs with different node counts are never isomorphic. -/
theorem isomorphic_false_of_size (e : Engine) (g1 g2 : LGraph) (h1 : g1.WF) (h2 : g2.WF)
    (hne : g1.nodes.length ≠ g2.nodes.length) : isomorphicPure e g1 g2 = false := by
  cases h : isomorphicPure e g1 g2 with
  | false => rfl
  | true =>
    obtain ⟨m, hm⟩ := isomorphic_sound e g1 g2 h1 h2 h
    exact absurd hm.2 hne

theorem isIso_drop_hcount (sel : Sel) (H P : LGraph) (m : Mapping) (hm : IsIso sel H P m) :
    IsIso { sel with hcountRule := false } H P m := by
  obtain ⟨⟨⟨a, b, c, d⟩, i⟩, l⟩ := hm
  refine ⟨⟨⟨a, b, ?_, d⟩, i⟩, l⟩
  intro ph hph
  refine ⟨(c ph hph).1, ?_⟩
  have := (c ph hph).2
  unfold nodeOk at this ⊢
  simp only [Bool.and_eq_true] at this ⊢
  exact ⟨this.1, by simp⟩

/-- **C07, bijection ⇒ verdict**, with the WL filter off (`_partial`: with the filter on the
refined-histogram containment would have to be shown sound for isomorphic graphs). Together with
`isomorphic_sound`: the verdict is `True` exactly when a label-preserving bijection exists. -/
theorem isomorphic_iff_partial (e : Engine) (g1 g2 : LGraph) (h1 : g1.WF) (h2 : g2.WF) (hw : e.wl1Filter = false) :
    isomorphicPure e g1 g2 = true ↔ ∃ m, IsIso e.sel g1 g2 m := by
  refine ⟨isomorphic_sound e g1 g2 h1 h2, ?_⟩
  rintro ⟨m, hm⟩
  have hlen := hm.2
  -- the inverse assignment embeds g1 in g2 (hydrogen rule dropped), so g2 has at least g1's edges
  have hinv := isIso_symm _ g1 g2 m h1 h2 (isIso_drop_hcount e.sel g1 g2 m hm)
    (fun x _ hok => nodeOk_symm_of_noH _ rfl _ _ hok)
  have hedges := mono_edges_le h1 hinv.1.1
  unfold isomorphicPure
  rw [if_neg (by omega)]
  simp only
  have hpre : preCheckPure e g2 g1 = true := by
    unfold preCheckPure preCheckWith
    rw [if_neg (by simp only [Bool.or_eq_true, decide_eq_true_eq]; omega)]
    simp [hw]
  rw [hpre]
  simp only [Bool.not_true, Bool.false_eq_true, if_false]
  unfold isoCore
  rw [if_pos hlen]
  exact (isoDecide_iff e.sel g1 g2 h2).2 ⟨m, hm⟩

/-- **C07, relabelling invariance** of the matcher's verdict, either side, any injective renaming. -/
theorem isomorphic_relabel (sel : Sel) (g1 g2 : LGraph) (h1 : g1.WF) (h2 : g2.WF) (π ρ : Nat → Nat)
    (hπ : Function.Injective π) (hρ : Function.Injective ρ) :
    isoDecide sel (g1.relabel π) (g2.relabel ρ) = isoDecide sel g1 g2 := by
  rw [isoDecide_relabel_host sel g1 (g2.relabel ρ) h1 (relabel_WF g2 h2 ρ hρ) π hπ,
    isoDecide_relabel_pattern sel g1 g2 h2 ρ hρ]

/-- **C07, symmetry** for graphs with equal or absent hydrogen counts. -/
theorem isomorphic_symm (sel : Sel) (g1 g2 : LGraph) (h1 : g1.WF) (h2 : g2.WF) (hh : NoHcountGap sel g1 g2) :
    isoDecide sel g1 g2 = isoDecide sel g2 g1 :=
  isoDecide_symm sel g1 g2 h1 h2 hh

/-- **`use_filter` is sound**: the three filter steps of the boolean sub-graph test pass whenever the
child is (monomorphically, a fortiori induced) contained in the parent. -/
theorem filter_sound_sub (c : SubCfg) (child parent : LGraph) (hc : child.WF) (hp : parent.WF) (hn : c.names.Nodup)
    (m : Mapping)
    (hm : IsMono c.sel (applyNodeDefaults c.names c.defaults parent) (applyNodeDefaults c.names c.defaults child) m) :
    subFilter c child parent = true :=
  subFilter_of_mono c child parent hc hp hn m hm

/-- Turning `use_filter` on or off never changes the verdict of the boolean sub-graph test. -/
theorem subgraph_filter_irrelevant (c : SubCfg) (child parent : LGraph) (hc : child.WF) (hp : parent.WF)
    (hn : c.names.Nodup) :
    subgraphIsomorphism { c with useFilter := true } child parent =
      subgraphIsomorphism { c with useFilter := false } child parent := by
  unfold subgraphIsomorphism
  simp only [Bool.true_and, Bool.false_and, Bool.false_eq_true, if_false]
  cases hf : subFilter { c with useFilter := true } child parent with
  | true => simp; rfl
  | false =>
    simp only [Bool.not_false, if_true]
    cases hcore : subCore { c with useFilter := false } child parent with
    | false => rfl
    | true =>
      exfalso
      have hP' := applyNodeDefaults_WF c.names c.defaults child hc
      unfold subCore at hcore
      have hex : ∃ m, IsMono c.sel (applyNodeDefaults c.names c.defaults parent) (applyNodeDefaults c.names c.defaults child) m := by
        split at hcore
        · simp only [Bool.not_eq_true', List.isEmpty_eq_false_iff] at hcore
          obtain ⟨m, hm⟩ := List.exists_mem_of_ne_nil _ hcore
          exact ⟨m, ((mem_allInduced _ _ _ hP' m).1 hm).1⟩
        · simp only [Bool.not_eq_true', List.isEmpty_eq_false_iff] at hcore
          obtain ⟨m, hm⟩ := List.exists_mem_of_ne_nil _ hcore
          exact ⟨m, (mem_allMonos _ _ _ hP' m).1 hm⟩
      obtain ⟨m, hm⟩ := hex
      have := subFilter_of_mono c child parent hc hp hn m hm
      have e : subFilter { c with useFilter := true } child parent = subFilter c child parent := rfl
      rw [e, this] at hf; cases hf

/-- **C07, boolean sub-graph test, induced mode** (filter on or off): `True` exactly when an induced
embedding of the child into the parent exists (labels compared with their defaults). -/
theorem subgraph_induced_iff (c : SubCfg) (child parent : LGraph) (hc : child.WF) (hp : parent.WF) (hn : c.names.Nodup)
    (hi : c.induced = true) :
    subgraphIsomorphism c child parent = true ↔
      ∃ m, IsInduced c.sel (applyNodeDefaults c.names c.defaults parent) (applyNodeDefaults c.names c.defaults child) m := by
  have hP' := applyNodeDefaults_WF c.names c.defaults child hc
  have hcore : subCore c child parent = true ↔
      ∃ m, IsInduced c.sel (applyNodeDefaults c.names c.defaults parent) (applyNodeDefaults c.names c.defaults child) m := by
    unfold subCore
    simp only [hi, if_true, Bool.not_eq_true', List.isEmpty_eq_false_iff]
    constructor
    · intro h; obtain ⟨m, hm⟩ := List.exists_mem_of_ne_nil _ h; exact ⟨m, (mem_allInduced _ _ _ hP' m).1 hm⟩
    · rintro ⟨m, hm⟩; exact List.ne_nil_of_mem ((mem_allInduced _ _ _ hP' m).2 hm)
  unfold subgraphIsomorphism
  constructor
  · intro h
    split at h
    · cases h
    · exact hcore.1 h
  · rintro ⟨m, hm⟩
    have hf := subFilter_of_mono c child parent hc hp hn m hm.1
    rw [hf]
    simp only [Bool.not_true, Bool.and_false, Bool.false_eq_true, if_false]
    exact hcore.2 ⟨m, hm⟩

/-- **C07, boolean sub-graph test, monomorphism mode** (filter on or off). -/
theorem subgraph_mono_iff (c : SubCfg) (child parent : LGraph) (hc : child.WF) (hp : parent.WF) (hn : c.names.Nodup)
    (hi : c.induced = false) :
    subgraphIsomorphism c child parent = true ↔
      ∃ m, IsMono c.sel (applyNodeDefaults c.names c.defaults parent) (applyNodeDefaults c.names c.defaults child) m := by
  have hP' := applyNodeDefaults_WF c.names c.defaults child hc
  have hcore : subCore c child parent = true ↔
      ∃ m, IsMono c.sel (applyNodeDefaults c.names c.defaults parent) (applyNodeDefaults c.names c.defaults child) m := by
    unfold subCore
    simp only [hi, Bool.false_eq_true, if_false, Bool.not_eq_true', List.isEmpty_eq_false_iff]
    constructor
    · intro h; obtain ⟨m, hm⟩ := List.exists_mem_of_ne_nil _ h; exact ⟨m, (mem_allMonos _ _ _ hP' m).1 hm⟩
    · rintro ⟨m, hm⟩; exact List.ne_nil_of_mem ((mem_allMonos _ _ _ hP' m).2 hm)
  unfold subgraphIsomorphism
  constructor
  · intro h
    split at h
    · cases h
    · exact hcore.1 h
  · rintro ⟨m, hm⟩
    have hf := subFilter_of_mono c child parent hc hp hn m hm
    rw [hf]
    simp only [Bool.not_true, Bool.and_false, Bool.false_eq_true, if_false]
    exact hcore.2 ⟨m, hm⟩

/-- **`graph_isomorphism` without defaults**: `True` exactly when a structure-preserving bijection exists. -/
theorem graph_isomorphism_iff (g1 g2 : LGraph) (h2 : g2.WF) :
    graphIsomorphism false g1 g2 = true ↔
      ∃ m, IsIso { nodeKeys := [], edgeKeys := [], hcountRule := false } g1 g2 m := by
  unfold graphIsomorphism
  simp only [Bool.false_eq_true, if_false]
  exact isoDecide_iff _ g1 g2 h2

/-- Soundness of the refined WL-1 filter: for graphs with equally many nodes and `wl1_filter=True`,
an isomorphism makes the refined WL-1 histogram of the pattern contained in the host's.  Proved below
(`wl_refined_sound`); the harness additionally tests it on every generated case: each isomorphism
question is asked with the filter on and off. -/
def WlRefinedSoundStatement : Prop :=
  ∀ (e : Engine) (H P : LGraph) (m : Mapping), H.WF → P.WF → IsIso e.sel H P m →
    wlContained (wl1 H e.nodeAttrs) (wl1 P e.nodeAttrs) = true

/-- **Refined WL pre-filter, equal sizes, is sound**: the (label, multiset of neighbour labels)
histogram containment never rejects isomorphic graphs.  An isomorphism maps the neighbours of a node
bijectively onto the neighbours of its image (`iso_neighbors_perm`: pattern edges go to host edges,
non-edges to non-edges, and every host node is an image), so the key of the image is `keyEq` to the
key of the node. -/
theorem wl_refined_sound : WlRefinedSoundStatement :=
  fun e H P m hH hP hm => wlContained_of_iso e.sel e.nodeAttrs H P m rfl hH hP hm

/-- **The pre-check never rejects an induced embedding**, WL filter on or off, whatever the sizes.
Stated for `IsInduced` (what `get_mappings` / `isomorphic` look for), not `IsMono`: with equally many
nodes an induced embedding is an isomorphism (`IsIso = IsInduced ∧ equal node counts`), for which the
refined histogram containment holds (`wl_refined_sound`); a mere monomorphism between graphs with
equally many nodes may miss host edges, and then the refined filter may legitimately reject (see
`exTri` / `exPath` in the non-vacuity section).  For monomorphisms see `preCheck_sound_partial`. -/
theorem preCheck_sound (e : Engine) (host pat : LGraph) (hH : host.WF) (hP : pat.WF) (m : Mapping)
    (hm : IsInduced e.sel host pat m) : preCheckPure e host pat = true := by
  by_cases hw : e.wl1Filter = false ∨ host.nodes.length ≠ pat.nodes.length
  · exact preCheck_sound_partial e host pat hH hP m hm.1 hw
  · obtain ⟨hw1, hw2⟩ := not_or.1 hw
    have hlen : host.nodes.length = pat.nodes.length := Classical.not_not.1 hw2
    have hwl : e.wl1Filter = true := by
      cases h : e.wl1Filter with
      | true => rfl
      | false => exact absurd h hw1
    obtain ⟨h1, h2⟩ := filter_sound_size e.sel host pat hH hP m hm.1
    unfold preCheckPure preCheckWith
    rw [if_neg (by simp only [Bool.or_eq_true, decide_eq_true_eq]; omega)]
    simp only [hwl, Bool.not_true, Bool.false_eq_true, if_false, if_pos hlen]
    exact wl_refined_sound e host pat m hH hP ⟨hm, hlen⟩

/-- **C07, embeddings non-empty iff contained**, for `max_mappings ≠ 0`: WL filter on or off, pattern
smaller than or as large as the host.  `get_mappings(host, pattern)` returns something exactly when an
induced embedding of the pattern into the host exists. -/
theorem get_mappings_nonempty_iff_contained (e : Engine) (host pat : LGraph) (hH : host.WF) (hP : pat.WF)
    (hk : e.maxMappings ≠ some 0) :
    getMappingsPure e host pat ≠ [] ↔ ∃ m, IsInduced e.sel host pat m := by
  constructor
  · intro h
    obtain ⟨m, hm⟩ := List.exists_mem_of_ne_nil _ h
    exact ⟨m, get_mappings_valid e host pat hP m hm⟩
  · rintro ⟨m, hm⟩
    have hpre := preCheck_sound e host pat hH hP m hm
    have hne : allInduced e.sel host pat ≠ [] := List.ne_nil_of_mem ((mem_allInduced e.sel host pat hP m).2 hm)
    unfold getMappingsPure
    rw [hpre]
    simp only [Bool.not_true, Bool.false_eq_true, if_false]
    unfold mappingsCore
    obtain ⟨x, xs, hx⟩ := List.exists_cons_of_ne_nil hne
    split
    · rw [hx]; simp
    · cases hmm : e.maxMappings with
      | none => simpa using hne
      | some k =>
        have : k ≠ 0 := fun h0 => hk (by rw [hmm, h0])
        obtain ⟨k', rfl⟩ := Nat.exists_eq_succ_of_ne_zero this
        simp [hx]

/-- **C07, verdict ⇔ bijection**, WL filter on or off: `isomorphic(g1, g2)` is `True` exactly when a
bijection preserving adjacency, the selected node and edge attributes and the hydrogen rule (`g1` as
host) exists.  With equal sizes the pre-check runs with `g2` as its host and `g1` as its pattern; its
refined histogram containment follows from the inverse isomorphism (hydrogen rule dropped — the
histograms only see the selected node keys). -/
theorem isomorphic_iff (e : Engine) (g1 g2 : LGraph) (h1 : g1.WF) (h2 : g2.WF) :
    isomorphicPure e g1 g2 = true ↔ ∃ m, IsIso e.sel g1 g2 m := by
  refine ⟨isomorphic_sound e g1 g2 h1 h2, ?_⟩
  rintro ⟨m, hm⟩
  have hlen := hm.2
  have hinv := isIso_symm _ g1 g2 m h1 h2 (isIso_drop_hcount e.sel g1 g2 m hm)
    (fun x _ hok => nodeOk_symm_of_noH _ rfl _ _ hok)
  have hedges := mono_edges_le h1 hinv.1.1
  have hwl : wlContained (wl1 g2 e.nodeAttrs) (wl1 g1 e.nodeAttrs) = true :=
    wlContained_of_iso { e.sel with hcountRule := false } e.nodeAttrs g2 g1 _ rfl h2 h1 hinv
  unfold isomorphicPure
  rw [if_neg (by omega)]
  simp only
  have hpre : preCheckPure e g2 g1 = true := by
    unfold preCheckPure preCheckWith
    rw [if_neg (by simp only [Bool.or_eq_true, decide_eq_true_eq]; omega)]
    cases e.wl1Filter with
    | false => simp
    | true => simp only [Bool.not_true, Bool.false_eq_true, if_false, if_pos hlen.symm]; exact hwl
  rw [hpre]
  simp only [Bool.not_true, Bool.false_eq_true, if_false]
  unfold isoCore
  rw [if_pos hlen]
  exact (isoDecide_iff e.sel g1 g2 h2).2 ⟨m, hm⟩


/-! ### `find_graph_isomorphism`, certificates for large inputs

`SynKitModel/FindIso.lean`.  On graphs that are too large for the enumerating engine (more than 256 nodes or
edges — beyond CPython's small-integer cache) the harness plants the answer and lets Lean check a certificate:
a mapping (`isIsoB` / `isInducedB`, no search) for a positive verdict, an invariant (`isoInvariants` /
`containInvariants`) for a negative one.  The theorems below say that a checked certificate fixes the verdict
the specification demands. -/

/-- **The mapping checker is the specification**: `isIsoB` accepts exactly the label-preserving bijections. -/
theorem isIsoB_iff (sel : Sel) (H P : LGraph) (m : Mapping) : isIsoB sel H P m = true ↔ IsIso sel H P m :=
  isIsoB_iff' sel H P m

/-- `isInducedB` accepts exactly the induced embeddings. -/
theorem isInducedB_iff (sel : Sel) (H P : LGraph) (m : Mapping) : isInducedB sel H P m = true ↔ IsInduced sel H P m :=
  isInducedB_iff' sel H P m

/-- `isMonoB` accepts exactly the monomorphisms. -/
theorem isMonoB_iff (sel : Sel) (H P : LGraph) (m : Mapping) : isMonoB sel H P m = true ↔ IsMono sel H P m :=
  isMonoB_iff' sel H P m

/-- **A checked mapping fixes the engine's verdict**: if `isIsoB` accepts some mapping, `isomorphic(g1, g2)` must
answer `True` (WL filter on or off). -/
theorem isomorphic_of_certificate (e : Engine) (g1 g2 : LGraph) (h1 : g1.WF) (h2 : g2.WF) (m : Mapping)
    (h : isIsoB e.sel g1 g2 m = true) : isomorphicPure e g1 g2 = true :=
  (isomorphic_iff e g1 g2 h1 h2).2 ⟨m, (isIsoB_iff e.sel g1 g2 m).1 h⟩

/-- A checked induced embedding makes `get_mappings` return something (`max_mappings ≠ 0`). -/
theorem get_mappings_of_certificate (e : Engine) (host pat : LGraph) (hH : host.WF) (hP : pat.WF)
    (hk : e.maxMappings ≠ some 0) (m : Mapping) (h : isInducedB e.sel host pat m = true) :
    getMappingsPure e host pat ≠ [] :=
  (get_mappings_nonempty_iff_contained e host pat hH hP hk).2 ⟨m, (isInducedB_iff e.sel host pat m).1 h⟩

/-- **Invariants certify non-isomorphism**: when node count, edge count, degree sequence, base-label histogram or
refined WL-1 histogram differ, no label-preserving bijection exists. -/
theorem no_iso_of_invariants (sel : Sel) (H P : LGraph) (hH : H.WF) (hP : P.WF) (h : isoInvariants sel H P = false) :
    ¬ ∃ m, IsIso sel H P m := by
  rintro ⟨m, hm⟩
  rw [isoInvariants_of_iso' sel H P m hH hP hm] at h
  cases h

/-- Invariants certify non-containment (no monomorphism, a fortiori no induced embedding). -/
theorem not_contained_of_invariants (sel : Sel) (H P : LGraph) (hH : H.WF) (hP : P.WF)
    (h : containInvariants sel H P = false) : ¬ ∃ m, IsMono sel H P m := by
  rintro ⟨m, hm⟩
  rw [containInvariants_of_mono' sel H P m hH hP hm] at h
  cases h

/-- The engine answers `False` when an invariant differs. -/
theorem isomorphic_false_of_invariants (e : Engine) (g1 g2 : LGraph) (h1 : g1.WF) (h2 : g2.WF)
    (h : isoInvariants e.sel g1 g2 = false) : isomorphicPure e g1 g2 = false := by
  cases hv : isomorphicPure e g1 g2 with
  | false => rfl
  | true => exact absurd (isomorphic_sound e g1 g2 h1 h2 hv) (no_iso_of_invariants e.sel g1 g2 h1 h2 h)

/-- **`find_graph_isomorphism` returns a valid mapping**: a `G1 → G2` bijection preserving adjacency and the
compared attributes (with their defaults). -/
theorem find_iso_valid (d fast : Bool) (g1 g2 : LGraph) (h1 : g1.WF) (m : Mapping)
    (h : findGraphIsomorphism d fast g1 g2 = some m) : IsIso (findSel d) (findPrep d g2) (findPrep d g1) m := by
  unfold findGraphIsomorphism at h
  split at h
  · cases h
  · split at h
    · rename_i hlen
      have hmem := List.mem_of_mem_head? (Option.mem_def.2 h)
      refine ⟨(mem_allInduced _ _ _ (findPrep_WF d g1 h1) m).1 hmem, ?_⟩
      rw [findPrep_nodes_length, findPrep_nodes_length]; exact hlen
    · cases h

/-- **C07, `find_graph_isomorphism`: a mapping is returned exactly when a bijection exists**, with the quick
invariants on or off. -/
theorem find_iso_iff (d fast : Bool) (g1 g2 : LGraph) (h1 : g1.WF) (h2 : g2.WF) :
    (findGraphIsomorphism d fast g1 g2).isSome = true ↔ ∃ m, IsIso (findSel d) (findPrep d g2) (findPrep d g1) m := by
  constructor
  · intro h
    obtain ⟨m, hm⟩ := Option.isSome_iff_exists.1 h
    exact ⟨m, find_iso_valid d fast g1 g2 h1 m hm⟩
  · rintro ⟨m, hm⟩
    have hfast := fastInvariants_of_iso d _ g1 g2 h1 h2 m hm
    have hlen : g2.nodes.length = g1.nodes.length := by
      have := hm.2
      rw [findPrep_nodes_length, findPrep_nodes_length] at this; exact this
    have hmem := (mem_allInduced _ _ _ (findPrep_WF d g1 h1) m).2 hm.1
    unfold findGraphIsomorphism
    rw [hfast]
    simp only [Bool.not_true, Bool.and_false, Bool.false_eq_true, if_false, if_pos hlen]
    obtain ⟨x, xs, hx⟩ := List.exists_cons_of_ne_nil (List.ne_nil_of_mem hmem)
    rw [hx]; rfl

/-- **The quick invariants never change the verdict** of `find_graph_isomorphism`. -/
theorem find_iso_fast_irrelevant (d : Bool) (g1 g2 : LGraph) (h1 : g1.WF) (h2 : g2.WF) :
    (findGraphIsomorphism d true g1 g2).isSome = (findGraphIsomorphism d false g1 g2).isSome := by
  rw [Bool.eq_iff_iff, find_iso_iff d true g1 g2 h1 h2, find_iso_iff d false g1 g2 h1 h2]

/-- A checked mapping `G1 → G2` makes `find_graph_isomorphism` return a mapping. -/
theorem find_iso_of_certificate (d fast : Bool) (g1 g2 : LGraph) (h1 : g1.WF) (h2 : g2.WF) (m : Mapping)
    (h : isIsoB (findSel d) (findPrep d g2) (findPrep d g1) m = true) : (findGraphIsomorphism d fast g1 g2).isSome = true :=
  (find_iso_iff d fast g1 g2 h1 h2).2 ⟨m, (isIsoB_iff _ _ _ m).1 h⟩

/-- `find_graph_isomorphism` returns `None` when an invariant of the (defaulted) graphs differs. -/
theorem find_iso_none_of_invariants (d fast : Bool) (g1 g2 : LGraph) (h1 : g1.WF) (h2 : g2.WF)
    (h : isoInvariants (findSel d) (findPrep d g2) (findPrep d g1) = false) : findGraphIsomorphism d fast g1 g2 = none := by
  cases hv : findGraphIsomorphism d fast g1 g2 with
  | none => rfl
  | some m =>
    exact absurd ⟨m, find_iso_valid d fast g1 g2 h1 m hv⟩
      (no_iso_of_invariants _ _ _ (findPrep_WF d g2 h2) (findPrep_WF d g1 h1) h)

/-! ### Non-vacuity -/
section Examples
def cN (e : String) (q : Int) : Attrs := [("element", .str e), ("charge", .num q)]
def exHost : LGraph := { nodes := [(0, cN "C" 0), (1, cN "C" 0), (2, cN "O" 0)],
                         edges := [(0, 1, [("order", .num 2)]), (1, 2, [("order", .num 2)])] }
def exPat : LGraph := { nodes := [(7, cN "C" 0), (8, cN "O" 0)], edges := [(7, 8, [("order", .num 2)])] }
def exEng : Engine := { nodeAttrs := ["element"], edgeAttrs := ["order"], wl1Filter := true, maxMappings := none }

example : exHost.WF ∧ exPat.WF := by decide
/-- F5: a strictly smaller pattern is found inside the host, pattern → host. -/
example : getMappingsPure exEng exHost exPat = [[(7, 1), (8, 2)]] := by decide
example : isomorphicPure exEng exHost exHost = true := by decide
example : isomorphicPure exEng exHost exPat = false := by decide
/-- F6: an engine ignoring charge after an engine using charge on the same graph objects. -/
example : run [exHost, exPat] []
    [.iso { nodeAttrs := ["element", "charge"], wl1Filter := true } 0 0, .iso { nodeAttrs := ["element"], wl1Filter := true } 0 0]
    = [.verdict true, .verdict true] := by decide
/-- F7: the filtered boolean test on graphs whose node ids are unrelated. -/
example : subgraphIsomorphism { useFilter := true } exPat exHost = true := by decide
/-- Refined WL filter on, equal sizes, unrelated node ids and orders: the pre-check passes, the verdict
is `True` and an embedding is returned (`wl_refined_sound`, `preCheck_sound`, `isomorphic_iff`,
`get_mappings_nonempty_iff_contained` are not vacuous). -/
def exHost2 : LGraph := { nodes := [(5, cN "O" 0), (6, cN "C" 0), (7, cN "C" 0)],
                          edges := [(6, 5, [("order", .num 2)]), (7, 6, [("order", .num 2)])] }
example : exHost2.WF := by decide
example : preCheckPure exEng exHost exHost2 = true ∧ isomorphicPure exEng exHost exHost2 = true ∧
    getMappingsPure exEng exHost exHost2 = [[(5, 2), (6, 1), (7, 0)]] := by decide
/-- Why `preCheck_sound` is about induced embeddings: a path on three carbons is monomorphically
contained in a triangle with equally many nodes, and the refined filter rejects the pair. -/
def exTri : LGraph := { nodes := [(0, cN "C" 0), (1, cN "C" 0), (2, cN "C" 0)],
                        edges := [(0, 1, [("order", .num 2)]), (1, 2, [("order", .num 2)]), (0, 2, [("order", .num 2)])] }
def exPath : LGraph := { nodes := [(0, cN "C" 0), (1, cN "C" 0), (2, cN "C" 0)],
                         edges := [(0, 1, [("order", .num 2)]), (1, 2, [("order", .num 2)])] }
example : exTri.WF ∧ exPath.WF := by decide
example : allMonos exEng.sel exTri exPath ≠ [] ∧ allInduced exEng.sel exTri exPath = [] ∧
    preCheckPure exEng exTri exPath = false := by decide
/-- `find_graph_isomorphism`: defaults applied (`exHost` carries no `atom_map` / `hcount`), quick invariants on and
off, the mapping goes `G1 → G2`; the checker accepts it and rejects a wrong one; a one-label edit is certified
non-isomorphic by the invariants. -/
example : findGraphIsomorphism true true exHost exHost2 = some [(0, 7), (1, 6), (2, 5)] ∧
    findGraphIsomorphism true false exHost exHost2 = some [(0, 7), (1, 6), (2, 5)] ∧
    findGraphIsomorphism false true exHost exHost2 ≠ none ∧
    findGraphIsomorphism true true exHost exPat = none ∧ findGraphIsomorphism true false exHost exPat = none := by decide
example : isIsoB (findSel true) (findPrep true exHost2) (findPrep true exHost) [(0, 7), (1, 6), (2, 5)] = true ∧
    isIsoB (findSel true) (findPrep true exHost2) (findPrep true exHost) [(0, 5), (1, 6), (2, 7)] = false ∧
    isIsoB (findSel false) exHost2 exHost [(0, 5), (1, 6), (2, 7)] = true := by decide
def exHost3 : LGraph := { nodes := [(5, cN "O" 0), (6, cN "C" 0), (7, cN "N" 0)],
                          edges := [(6, 5, [("order", .num 2)]), (7, 6, [("order", .num 2)])] }
example : exHost3.WF ∧ isoInvariants (findSel true) (findPrep true exHost3) (findPrep true exHost) = false ∧
    isoInvariants (findSel true) (findPrep true exHost2) (findPrep true exHost) = true ∧
    findGraphIsomorphism true false exHost exHost3 = none := by decide
end Examples

end SynKit.GME

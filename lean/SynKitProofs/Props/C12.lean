import SynKitModel.Mcs
import SynKitProofs.McsLemmas
/-!
# C12 — maximum common subgraph results are valid and of maximum size

Property theorems only; helper lemmas live in `SynKitProofs/McsLemmas.lean`.  `find cfg mcs G₁ G₂`
is the model of `MCSMatcher(...).find_common_subgraph(G₁, G₂, mcs=…)` (main and MTG variant, with
or without automorphism pruning); `used cfg G` is the graph the search really runs on (`G` itself
unless wildcard pruning `prune_wc` is switched on).  All theorems are about mappings written as
lists of (node of the first graph, node of the second graph) pairs.
-/
namespace SynKit.Mcs
open SynKit SynKit.Match

/-- The specification spelled out: `IsCommonInduced` says injective both ways, nodes exist, the
selected node labels agree (the Python node closure), and for every two mapped atoms a bond of the
first graph has a bond between the images with matching order (the Python edge closure) while a
non-bond has a non-bond (presence and order, both directions). -/
theorem isCommonInduced_spelled (cfg : Cfg) (G₁ G₂ : LGraph) (m : Mapping) :
    IsCommonInduced cfg G₁ G₂ m ↔
      (m.map (·.1)).Nodup ∧ (∀ p ∈ m.map (·.1), p ∈ G₁.ids) ∧
      (m.map (·.2)).Nodup ∧ (∀ h ∈ m.map (·.2), h ∈ G₂.ids) ∧
      (∀ ph ∈ m, nodeMatchPy cfg.nodeKeys cfg.nodeDefaults (G₂.attrs ph.2) (G₁.attrs ph.1) = true) ∧
      (∀ ph ∈ m, ∀ qh ∈ m,
        (∀ a, G₁.edge? ph.1 qh.1 = some a → ∃ b, G₂.edge? ph.2 qh.2 = some b ∧ edgeMatch cfg b a = true) ∧
        (G₁.edge? ph.1 qh.1 = none → G₂.edge? ph.2 qh.2 = none) ∧
        (∀ b, G₂.edge? ph.2 qh.2 = some b → ∃ a, G₁.edge? ph.1 qh.1 = some a ∧ edgeMatch cfg a b = true) ∧
        (G₂.edge? ph.2 qh.2 = none → G₁.edge? ph.1 qh.1 = none)) := by
  unfold IsCommonInduced
  refine and_congr_right fun _ => and_congr_right fun _ => and_congr_right fun _ => and_congr_right fun _ =>
    and_congr Iff.rfl ?_
  refine forall₂_congr fun ph _ => forall₂_congr fun qh _ => ?_
  cases h1 : G₁.edge? ph.1 qh.1 <;> cases h2 : G₂.edge? ph.2 qh.2 <;> simp [EdgeAgree, edgeMatch_symm]

/-- **C12, the closures.** The engine's `.get`-equality closures on the normalised labels are exactly the
Python closures (`generic_node_match` with defaults; `_edge_match` of the variant). -/
theorem closures_normalised (cfg : Cfg) :
    (∀ a b, nodeOk theSel (normNodeAttrs cfg a) (normNodeAttrs cfg b) = nodeMatch cfg a b) ∧
    (∀ b a, edgeOk theSel (normEdgeAttrs cfg true b) (normEdgeAttrs cfg false a) = edgeMatch cfg b a) ∧
    (∀ a b, nodeMatch cfg a b = nodeMatch cfg b a) ∧ (∀ a b, edgeMatch cfg a b = edgeMatch cfg b a) :=
  ⟨nodeOk_norm cfg, edgeOk_norm cfg, nodeMatch_symm cfg, edgeMatch_symm cfg⟩

/-- **C12, validity (every mode, both variants, every direction).** Each mapping returned by
`get_mappings("G1_to_G2")` is a common induced sub-graph of the two graphs (injective, labels,
presence and order of every bond between mapped atoms both ways); `get_mappings("G2_to_G1")` the same
with the roles swapped; and the cached pattern→host list in the orientation the flag reports. -/
theorem mcs_valid (cfg : Cfg) (mcs : Bool) (G₁ G₂ : LGraph) (h₁ : G₁.WF) (h₂ : G₂.WF) :
    (∀ m ∈ (find cfg mcs G₁ G₂).g1ToG2, IsCommonInduced cfg (used cfg G₁) (used cfg G₂) m) ∧
    (∀ m ∈ (find cfg mcs G₁ G₂).g2ToG1, IsCommonInduced cfg (used cfg G₂) (used cfg G₁) m) ∧
    (∀ m ∈ (find cfg mcs G₁ G₂).mappings,
      ((find cfg mcs G₁ G₂).patternIsG1 = some true → IsCommonInduced cfg (used cfg G₁) (used cfg G₂) m) ∧
      ((find cfg mcs G₁ G₂).patternIsG1 = some false → IsCommonInduced cfg (used cfg G₂) (used cfg G₁) m)) := by
  have w₁ := wf_used cfg G₁ h₁
  have w₂ := wf_used cfg G₂ h₂
  rcases find_spec cfg mcs G₁ G₂ with ⟨hp, hs⟩ | ⟨hp, _, _, hs⟩
  · have hv : ∀ m ∈ (find cfg mcs G₁ G₂).mappings, IsCommonInduced cfg (used cfg G₁) (used cfg G₂) m := by
      intro m hm
      have : m ∈ (search cfg mcs (used cfg G₁) (used cfg G₂)).1 := by rw [← hs]; exact hm
      exact (search_valid cfg mcs _ _ w₁ m this).2
    obtain ⟨_, _, e1, e2⟩ := dirs_true _ hp
    rw [e1, e2]
    refine ⟨hv, ?_, fun m hm => ⟨fun _ => hv m hm, fun h => by rw [hp] at h; cases h⟩⟩
    intro m hm
    obtain ⟨m0, hm0, rfl⟩ := List.mem_map.1 hm
    rw [invert_eq_inverse _ (hv m0 hm0).2.2.1]
    exact isCommonInduced_inverse _ _ _ _ (hv m0 hm0)
  · have hv : ∀ m ∈ (find cfg mcs G₁ G₂).mappings, IsCommonInduced cfg (used cfg G₂) (used cfg G₁) m := by
      intro m hm
      have : m ∈ (search cfg mcs (used cfg G₂) (used cfg G₁)).1 := by rw [← hs]; exact hm
      exact (search_valid cfg mcs _ _ w₂ m this).2
    obtain ⟨_, _, e1, e2⟩ := dirs_false _ hp
    rw [e1, e2]
    refine ⟨?_, hv, fun m hm => ⟨fun h => (by rw [hp] at h; cases h), fun _ => hv m hm⟩⟩
    intro m hm
    obtain ⟨m0, hm0, rfl⟩ := List.mem_map.1 hm
    rw [invert_eq_inverse _ (hv m0 hm0).2.2.1]
    exact isCommonInduced_inverse _ _ _ _ (hv m0 hm0)

/-- **C12, equal sizes.** In maximum mode every returned mapping (in each direction) has exactly
`last_size` pairs. -/
theorem mcs_same_size (cfg : Cfg) (G₁ G₂ : LGraph) (h₁ : G₁.WF) (h₂ : G₂.WF) :
    (∀ m ∈ (find cfg true G₁ G₂).mappings, m.length = (find cfg true G₁ G₂).lastSize) ∧
    (∀ m ∈ (find cfg true G₁ G₂).g1ToG2, m.length = (find cfg true G₁ G₂).lastSize) ∧
    (∀ m ∈ (find cfg true G₁ G₂).g2ToG1, m.length = (find cfg true G₁ G₂).lastSize) := by
  obtain ⟨_, _, hval⟩ := mcs_valid cfg true G₁ G₂ h₁ h₂
  have hsz : ∀ m ∈ (find cfg true G₁ G₂).mappings, m.length = (find cfg true G₁ G₂).lastSize := by
    intro m hm
    rcases find_spec cfg true G₁ G₂ with ⟨_, hs⟩ | ⟨_, _, _, hs⟩ <;>
    · obtain ⟨e1, e2⟩ := Prod.ext_iff.1 hs
      simp only at e1 e2
      rw [e2]; rw [e1] at hm
      exact search_same_size cfg _ _ m hm
  have hinv : ∀ m ∈ (find cfg true G₁ G₂).mappings, (invert m).length = (find cfg true G₁ G₂).lastSize := by
    intro m hm
    have hnd : (m.map (·.2)).Nodup := by
      rcases find_spec cfg true G₁ G₂ with ⟨hp, _⟩ | ⟨hp, _⟩
      · exact ((hval m hm).1 hp).2.2.1
      · exact ((hval m hm).2 hp).2.2.1
    rw [invert_eq_inverse _ hnd, inverse_length]; exact hsz m hm
  refine ⟨hsz, ?_, ?_⟩ <;>
  · rcases find_spec cfg true G₁ G₂ with ⟨hp, _⟩ | ⟨hp, _⟩
    · obtain ⟨_, _, e1, e2⟩ := dirs_true _ hp
      first | (rw [e1]; exact hsz) | (rw [e2]; intro m hm; obtain ⟨m0, hm0, rfl⟩ := List.mem_map.1 hm; exact hinv m0 hm0)
    · obtain ⟨_, _, e1, e2⟩ := dirs_false _ hp
      first | (rw [e2]; exact hsz) | (rw [e1]; intro m hm; obtain ⟨m0, hm0, rfl⟩ := List.mem_map.1 hm; exact hinv m0 hm0)

/-- **C12, maximality.** In maximum mode no common induced sub-graph of the two graphs has more nodes
than `last_size` (in particular, when nothing is returned — `last_size = 0` — not even a single pair
of atoms matches).  Holds with and without automorphism pruning, for both variants and whichever graph
served as the pattern. -/
theorem mcs_maximal (cfg : Cfg) (G₁ G₂ : LGraph) (h₁ : G₁.WF) (h₂ : G₂.WF) :
    ¬ ∃ m, IsCommonInduced cfg (used cfg G₁) (used cfg G₂) m ∧ m.length > (find cfg true G₁ G₂).lastSize := by
  rintro ⟨m, hm, hl⟩
  rcases find_spec cfg true G₁ G₂ with ⟨_, hs⟩ | ⟨_, _, _, hs⟩
  · have e2 := (Prod.ext_iff.1 hs).2
    simp only at e2
    have := search_maximal cfg _ _ (wf_used cfg G₁ h₁) m hm
    omega
  · have e2 := (Prod.ext_iff.1 hs).2
    simp only at e2
    have := search_maximal cfg _ _ (wf_used cfg G₂ h₂) _ (isCommonInduced_inverse _ _ _ _ hm)
    rw [inverse_length] at this
    omega

/-- **C12, completeness at the maximum size (no automorphism pruning).** The returned list has no
duplicates and contains, up to the order in which the pairs are written, every non-empty common
induced sub-graph with `last_size` nodes — together with `mcs_valid`, `mcs_same_size` and
`mcs_maximal`: as a set it is exactly the set of maximum common induced sub-graphs. -/
theorem mcs_all_of_max_size (cfg : Cfg) (G₁ G₂ : LGraph) (h₁ : G₁.WF) (h₂ : G₂.WF)
    (hpr : cfg.pruneAut = false) :
    (find cfg true G₁ G₂).mappings.Nodup ∧ (find cfg true G₁ G₂).g1ToG2.Nodup ∧
    ∀ m, IsCommonInduced cfg (used cfg G₁) (used cfg G₂) m → m.length = (find cfg true G₁ G₂).lastSize →
      m ≠ [] → ∃ m' ∈ (find cfg true G₁ G₂).g1ToG2, m'.Perm m := by
  obtain ⟨_, _, hval⟩ := mcs_valid cfg true G₁ G₂ h₁ h₂
  have w₁ := wf_used cfg G₁ h₁
  have w₂ := wf_used cfg G₂ h₂
  rcases find_spec cfg true G₁ G₂ with ⟨hp, hs⟩ | ⟨hp, _, _, hs⟩
  · obtain ⟨e1, e2⟩ := Prod.ext_iff.1 hs
    simp only at e1 e2
    obtain ⟨_, _, d1, _⟩ := dirs_true _ hp
    obtain ⟨hn, hall⟩ := search_all cfg _ _ w₁ hpr
    rw [d1, e1, e2]
    refine ⟨hn, hn, fun m hm hl hne => ⟨canon _ m, hall m hm hl hne, canon_perm _ w₁.1 m hm.1 hm.2.1⟩⟩
  · obtain ⟨e1, e2⟩ := Prod.ext_iff.1 hs
    simp only at e1 e2
    obtain ⟨_, _, d1, _⟩ := dirs_false _ hp
    obtain ⟨hn, hall⟩ := search_all cfg _ _ w₂ hpr
    have hinv : ∀ x ∈ (find cfg true G₁ G₂).mappings, invert x = Mapping.inverse x :=
      fun x hx => invert_eq_inverse _ ((hval x hx).2 hp).2.2.1
    rw [d1, List.map_congr_left hinv]
    refine ⟨e1 ▸ hn, ?_, ?_⟩
    · rw [e1]
      refine List.Nodup.map_on ?_ hn
      intro x _ y _ hxy
      have := congrArg Mapping.inverse hxy
      rwa [inverse_inverse, inverse_inverse] at this
    · intro m hm hl hne
      have hm' := isCommonInduced_inverse _ _ _ _ hm
      have hc := hall (Mapping.inverse m) hm' (by rw [inverse_length, hl, e2])
        (by intro h; apply hne; rw [← inverse_inverse m, h]; rfl)
      refine ⟨Mapping.inverse (canon (used cfg G₂) (Mapping.inverse m)), List.mem_map.2 ⟨_, e1 ▸ hc, rfl⟩, ?_⟩
      have hp' := canon_perm _ w₂.1 _ hm'.1 hm'.2.1
      have this' : (Mapping.inverse (canon (used cfg G₂) (Mapping.inverse m))).Perm
          (Mapping.inverse (Mapping.inverse m)) := hp'.map _
      rwa [inverse_inverse] at this'

/-- **C12, automorphism pruning (main variant, maximum mode).** As the code is written, the pruned
result has the same `last_size` and orientation as the unpruned one, is a sub-set of it, keeps for
every mapping of the unpruned result a mapping with the same set of host nodes, and never keeps two
mappings with the same set of host nodes: exactly one survivor per distinct host node set.
(Which of the mappings sharing a host node set survives depends on the enumeration order and is not
fixed by the property.) -/
theorem mcs_pruned_one_per_hostset (cfg : Cfg) (G₁ G₂ : LGraph) (h₁ : G₁.WF) (h₂ : G₂.WF)
    (hpr : cfg.pruneAut = true) :
    (find cfg true G₁ G₂).lastSize = (find { cfg with prune := false } true G₁ G₂).lastSize ∧
    (find cfg true G₁ G₂).patternIsG1 = (find { cfg with prune := false } true G₁ G₂).patternIsG1 ∧
    (∀ m ∈ (find cfg true G₁ G₂).mappings, m ∈ (find { cfg with prune := false } true G₁ G₂).mappings) ∧
    (∀ m ∈ (find { cfg with prune := false } true G₁ G₂).mappings, ∃ m' ∈ (find cfg true G₁ G₂).mappings,
      ∀ x, x ∈ m.map (·.2) ↔ x ∈ m'.map (·.2)) ∧
    (find cfg true G₁ G₂).mappings.Pairwise (fun a b => ¬ ∀ x, x ∈ a.map (·.2) ↔ x ∈ b.map (·.2)) := by
  have key : ∀ P H : LGraph, P.WF →
      (search cfg true P H).2 = (search { cfg with prune := false } true P H).2 ∧
      (∀ m ∈ (search cfg true P H).1, m ∈ (search { cfg with prune := false } true P H).1) ∧
      (∀ m ∈ (search { cfg with prune := false } true P H).1, ∃ m' ∈ (search cfg true P H).1,
        ∀ x, x ∈ m.map (·.2) ↔ x ∈ m'.map (·.2)) ∧
      (search cfg true P H).1.Pairwise (fun a b => ¬ ∀ x, x ∈ a.map (·.2) ↔ x ∈ b.map (·.2)) := by
    intro P H hP
    obtain ⟨a, b, c, d⟩ := search_pruned cfg P H hP hpr
    refine ⟨a, b, ?_, ?_⟩
    · intro m hm
      obtain ⟨m', hm', hs⟩ := c m hm
      exact ⟨m', hm', (sameSet_iff _ _).1 hs⟩
    · refine d.imp ?_
      intro x y hxy hall
      rw [(sameSet_iff _ _).2 hall] at hxy
      cases hxy
  have hmain : cfg.variant = .main := by
    simp only [Cfg.pruneAut, Bool.and_eq_true, decide_eq_true_eq] at hpr; exact hpr.1
  by_cases hle : (used cfg G₁).nodes.length ≤ (used cfg G₂).nodes.length
  · have e1 := find_main cfg true G₁ G₂ hmain
    rw [if_pos hle] at e1
    have e2 : find { cfg with prune := false } true G₁ G₂ =
        { mappings := (search { cfg with prune := false } true (used cfg G₁) (used cfg G₂)).1
          lastSize := (search { cfg with prune := false } true (used cfg G₁) (used cfg G₂)).2
          patternIsG1 := some true } := by
      rw [find_main { cfg with prune := false } true G₁ G₂ hmain]; exact if_pos hle
    rw [e1, e2]
    exact ⟨(key _ _ (wf_used cfg G₁ h₁)).1, rfl, (key _ _ (wf_used cfg G₁ h₁)).2⟩
  · have e1 := find_main cfg true G₁ G₂ hmain
    rw [if_neg hle] at e1
    have e2 : find { cfg with prune := false } true G₁ G₂ =
        { mappings := (search { cfg with prune := false } true (used cfg G₂) (used cfg G₁)).1
          lastSize := (search { cfg with prune := false } true (used cfg G₂) (used cfg G₁)).2
          patternIsG1 := some false } := by
      rw [find_main { cfg with prune := false } true G₁ G₂ hmain]; exact if_neg hle
    rw [e1, e2]
    exact ⟨(key _ _ (wf_used cfg G₂ h₂)).1, rfl, (key _ _ (wf_used cfg G₂ h₂)).2⟩

/-- **C12, the two directions are mutually inverse.** After a search, `get_mappings("G2_to_G1")` is
the list of pairwise inverses of `get_mappings("G1_to_G2")` and vice versa (position by position);
inverting twice is the identity; a common induced sub-graph read backwards is a common induced
sub-graph of the swapped pair; `pattern_to_host` is the direction the orientation flag names; any
other direction string is a `ValueError`. -/
theorem directions_inverse (cfg : Cfg) (mcs : Bool) (G₁ G₂ : LGraph) (h₁ : G₁.WF) (h₂ : G₂.WF) :
    let r := find cfg mcs G₁ G₂
    r.getMappings "G1_to_G2" = .ok r.g1ToG2 ∧ r.getMappings "G2_to_G1" = .ok r.g2ToG1 ∧
    r.g2ToG1 = r.g1ToG2.map Mapping.inverse ∧ r.g1ToG2 = r.g2ToG1.map Mapping.inverse ∧
    (∀ m : Mapping, Mapping.inverse (Mapping.inverse m) = m) ∧
    (∀ m, IsCommonInduced cfg (used cfg G₁) (used cfg G₂) m ↔
      IsCommonInduced cfg (used cfg G₂) (used cfg G₁) (Mapping.inverse m)) ∧
    r.getMappings "pattern_to_host" = .ok r.mappings ∧
    ((r.patternIsG1 = some true ∧ r.mappings = r.g1ToG2) ∨ (r.patternIsG1 = some false ∧ r.mappings = r.g2ToG1)) ∧
    (∀ d, d ≠ "pattern_to_host" → d ≠ "G1_to_G2" → d ≠ "G2_to_G1" → r.getMappings d = .error .valueError) := by
  obtain ⟨_, _, hval⟩ := mcs_valid cfg mcs G₁ G₂ h₁ h₂
  simp only
  rcases find_spec cfg mcs G₁ G₂ with ⟨hp, _⟩ | ⟨hp, _⟩
  · obtain ⟨g1, g2, d1, d2⟩ := dirs_true _ hp
    have hinv : ∀ x ∈ (find cfg mcs G₁ G₂).mappings, invert x = Mapping.inverse x :=
      fun x hx => invert_eq_inverse _ ((hval x hx).1 hp).2.2.1
    refine ⟨by rw [g1, d1], by rw [g2, d2], ?_, ?_, inverse_inverse, isCommonInduced_inverse_iff cfg _ _,
      dirs_pattern _, Or.inl ⟨hp, d1.symm⟩, fun d a b c => dirs_other _ _ hp d a b c⟩
    · rw [d1, d2]; exact List.map_congr_left hinv
    · rw [d1, d2, List.map_congr_left hinv, List.map_map]
      conv_lhs => rw [← List.map_id (find cfg mcs G₁ G₂).mappings]
      exact List.map_congr_left fun x _ => (inverse_inverse x).symm
  · obtain ⟨g1, g2, d1, d2⟩ := dirs_false _ hp
    have hinv : ∀ x ∈ (find cfg mcs G₁ G₂).mappings, invert x = Mapping.inverse x :=
      fun x hx => invert_eq_inverse _ ((hval x hx).2 hp).2.2.1
    refine ⟨by rw [g1, d1], by rw [g2, d2], ?_, ?_, inverse_inverse, isCommonInduced_inverse_iff cfg _ _,
      dirs_pattern _, Or.inr ⟨hp, d2.symm⟩, fun d a b c => dirs_other _ _ hp d a b c⟩
    · rw [d1, d2, List.map_congr_left hinv, List.map_map]
      conv_lhs => rw [← List.map_id (find cfg mcs G₁ G₂).mappings]
      exact List.map_congr_left fun x _ => (inverse_inverse x).symm
    · rw [d1, d2]; exact List.map_congr_left hinv

/-- **C12, orientation swap.** When the first graph has more nodes than the second (main variant) the
second graph is used as the pattern; what is returned for the direction G1→G2 is nevertheless valid
for the pair (G₁, G₂) and, in maximum mode, of maximum size for that pair. -/
theorem orientation_swap_sound (cfg : Cfg) (mcs : Bool) (G₁ G₂ : LGraph) (h₁ : G₁.WF) (h₂ : G₂.WF)
    (hv : cfg.variant = .main) (hgt : (used cfg G₁).nodes.length > (used cfg G₂).nodes.length) :
    (find cfg mcs G₁ G₂).patternIsG1 = some false ∧
    ((find cfg mcs G₁ G₂).mappings, (find cfg mcs G₁ G₂).lastSize) = search cfg mcs (used cfg G₂) (used cfg G₁) ∧
    (∀ m ∈ (find cfg mcs G₁ G₂).g1ToG2, IsCommonInduced cfg (used cfg G₁) (used cfg G₂) m) ∧
    (mcs = true → (∀ m ∈ (find cfg mcs G₁ G₂).g1ToG2, m.length = (find cfg mcs G₁ G₂).lastSize) ∧
      ¬ ∃ m, IsCommonInduced cfg (used cfg G₁) (used cfg G₂) m ∧ m.length > (find cfg mcs G₁ G₂).lastSize) := by
  have hp : (find cfg mcs G₁ G₂).patternIsG1 = some false ∧
      ((find cfg mcs G₁ G₂).mappings, (find cfg mcs G₁ G₂).lastSize) = search cfg mcs (used cfg G₂) (used cfg G₁) := by
    unfold find
    simp only [hv]
    rw [if_neg (by omega)]
    exact ⟨rfl, rfl⟩
  refine ⟨hp.1, hp.2, (mcs_valid cfg mcs G₁ G₂ h₁ h₂).1, ?_⟩
  rintro rfl
  exact ⟨(mcs_same_size cfg G₁ G₂ h₁ h₂).2.1, mcs_maximal cfg G₁ G₂ h₁ h₂⟩

/-- **Soundness of the brute-force check used by `spec.mcs`.** `existsOfSize … k` decides whether a
common induced sub-graph with exactly `k` nodes exists, and a larger one exists iff one with `k+1`
nodes does. -/
theorem existsOfSize_iff (cfg : Cfg) (G₁ G₂ : LGraph) (h₁ : G₁.WF) (k : Nat) :
    (existsOfSize cfg G₁ G₂ k = true ↔ ∃ m, IsCommonInduced cfg G₁ G₂ m ∧ m.length = k) ∧
    (existsOfSize cfg G₁ G₂ (k + 1) = true ↔ ∃ m, IsCommonInduced cfg G₁ G₂ m ∧ m.length > k) := by
  have base : ∀ k, existsOfSize cfg G₁ G₂ k = true ↔ ∃ m, IsCommonInduced cfg G₁ G₂ m ∧ m.length = k := by
    intro k
    simp only [existsOfSize, Bool.not_eq_true', List.isEmpty_eq_false_iff_exists_mem]
    constructor
    · rintro ⟨m, hm⟩
      rw [mem_levelCands cfg G₁ G₂ h₁] at hm
      exact ⟨m, hm.2.2, hm.2.1⟩
    · rintro ⟨m, hm, rfl⟩
      exact ⟨_, canon_mem_levelCands cfg G₁ G₂ h₁ m hm⟩
  refine ⟨base k, (base (k + 1)).trans ⟨fun ⟨m, hm, hl⟩ => ⟨m, hm, by omega⟩, ?_⟩⟩
  rintro ⟨m, hm, hl⟩
  exact ⟨m.take (k + 1), isCommonInduced_sublist cfg G₁ G₂ (List.take_sublist _ _) hm, by
    rw [List.length_take]; omega⟩

/-- The whole property over the model: for every configuration (either variant, any attribute
selection, with or without automorphism / wildcard pruning) and every pair of well-formed graphs,
(1) in every mode each mapping returned for the direction G1→G2 is a common induced sub-graph
(injective, selected node labels preserved, presence and order of every bond between mapped atoms
preserved both ways) and the two directions are position-wise mutually inverse;
(2) in maximum mode all returned mappings have `last_size` pairs and no common induced sub-graph has
more nodes. -/
def C12.FullStatement : Prop :=
  ∀ (cfg : Cfg) (G₁ G₂ : LGraph), G₁.WF → G₂.WF →
    (∀ mcs : Bool,
      (∀ m ∈ (find cfg mcs G₁ G₂).g1ToG2, IsCommonInduced cfg (used cfg G₁) (used cfg G₂) m) ∧
      (find cfg mcs G₁ G₂).g2ToG1 = (find cfg mcs G₁ G₂).g1ToG2.map Mapping.inverse ∧
      (find cfg mcs G₁ G₂).g1ToG2 = (find cfg mcs G₁ G₂).g2ToG1.map Mapping.inverse) ∧
    (∀ m ∈ (find cfg true G₁ G₂).g1ToG2, m.length = (find cfg true G₁ G₂).lastSize) ∧
    (¬ ∃ m, IsCommonInduced cfg (used cfg G₁) (used cfg G₂) m ∧ m.length > (find cfg true G₁ G₂).lastSize)

/-- **C12.** The full statement holds. -/
theorem C12.full : C12.FullStatement := by
  intro cfg G₁ G₂ h₁ h₂
  refine ⟨fun mcs => ⟨(mcs_valid cfg mcs G₁ G₂ h₁ h₂).1, ?_, ?_⟩, (mcs_same_size cfg G₁ G₂ h₁ h₂).2.1,
    mcs_maximal cfg G₁ G₂ h₁ h₂⟩
  · exact (directions_inverse cfg mcs G₁ G₂ h₁ h₂).2.2.1
  · exact (directions_inverse cfg mcs G₁ G₂ h₁ h₂).2.2.2.1

/-! ### Non-vacuity: the hypotheses are satisfiable and the conclusions bite on concrete pairs -/

/-- The example graphs are well formed (hypotheses of every theorem above). -/
example : exA.WF ∧ exB.WF ∧ exRing.WF ∧ exBare.WF ∧ exStar.WF := by decide

/-- `mcs_valid` / `mcs_same_size` / `mcs_maximal` on C–C–O vs C–O–C=C: three maximum mappings with two
atoms each (a C–O bond), written in pattern order although the host was inserted in another order. -/
example : (find {} true exA exB).g1ToG2 = [[(1, 13), (3, 11)], [(2, 10), (3, 11)], [(2, 12), (3, 11)]] ∧
    (find {} true exA exB).lastSize = 2 ∧ (find {} true exA exB).patternIsG1 = some true := by decide

/-- The specification discriminates: a C–O bond pair is common induced, C–C onto the non-bonded pair
10,12 is not (presence), C–C onto the double bond 12=13 is not (order), two atoms on one is not
(injectivity), C onto O is not (label). -/
example : IsCommonInduced {} exA exB [(2, 10), (3, 11)] ∧ ¬ IsCommonInduced {} exA exB [(1, 10), (2, 12)] ∧
    ¬ IsCommonInduced {} exA exB [(1, 12), (2, 13)] ∧ ¬ IsCommonInduced {} exA exB [(1, 10), (2, 10)] ∧
    ¬ IsCommonInduced {} exA exB [(1, 11)] := by decide

/-- Non-maximum mode returns all sizes (and, as coded, `last_size` is then the *smallest* level that
produced a mapping). -/
example : ((find {} false exA exB).g1ToG2.map List.length) = [2, 2, 2, 1, 1, 1, 1, 1, 1, 1] ∧
    (find {} false exA exB).lastSize = 1 := by decide

/-- `orientation_swap_sound` / `directions_inverse`: with the larger graph first the second graph is
the pattern, and the two directions are inverse to each other. -/
example : (find {} true exB exA).patternIsG1 = some false ∧
    (find {} true exB exA).mappings = [[(1, 13), (3, 11)], [(2, 10), (3, 11)], [(2, 12), (3, 11)]] ∧
    (find {} true exB exA).g1ToG2 = [[(13, 1), (11, 3)], [(10, 2), (11, 3)], [(12, 2), (11, 3)]] ∧
    (find {} true exB exA).g2ToG1 = (find {} true exB exA).mappings ∧
    (find {} true exB exA).getMappings "host_to_pattern" = .error .valueError ∧
    ({} : Result).getMappings "host_to_pattern" = .ok [] := by decide

/-- `mcs_all_of_max_size` / `mcs_pruned_one_per_hostset`: a carbon three-ring onto itself has six maximum
mappings, all with the same host node set; automorphism pruning keeps exactly one. -/
example : (find {} true exRing exRing).mappings.length = 6 ∧
    (find { prune := true } true exRing exRing).mappings.length = 1 ∧
    (find { prune := true } true exRing exRing).lastSize = 3 := by decide

/-- `closures_normalised` in action: an absent element reads as the default `"*"` and so matches an explicit
`"*"`; an absent order matches an explicit `None` in the main variant (both-`None` rule) but nothing in
the MTG variant, where the two bond-less atoms still match one at a time. -/
example : (find {} true exBare exStar).lastSize = 2 ∧
    (find { variant := .mtg } true exBare exStar).lastSize = 1 ∧
    (find { variant := .mtg } true exBare exStar).g1ToG2 = [[(1, 8)], [(2, 7)]] := by decide

end SynKit.Mcs

import SynKitModel.Views
import SynKitModel.ViewsClaim
import SynKitProofs.ViewsLemmas
import SynKitProofs.ViewsRawLemmas
/-!
# C16 — network views (bipartite graph, reaction strings, species graph) round-trip exactly

Property theorems only; the helper lemmas are in `SynKitProofs/ViewsLemmas/*.lean`.
The model (`SynKitModel/Views.lean`) mirrors `conversion.py`, `RXNSide.from_str`/`__repr__`,
`add_rxn_from_str`/`parse_rxns`; the correspondence run (`harness/props/c16.py`) compares it
with the real code on every exported view and every re-imported network.

What each theorem assumes is in its statement:
* `WfNet N` — what every `CRNHyperGraph` satisfies (ids unique, sides are dicts with positive
  counts, no reaction empty on both sides, rules non-empty, species of reactions are in the
  species set); no hypothesis on the *shape* of labels for the two graph views.
* `WfStrNet N` — additionally labels are `WfLabel` and rules have no whitespace: the reading
  of "well-formed" fixed in DESIGN §5a; `wf_counterexample*` show the guard is needed.
* `NoIdClash f N` — only for string node ids; automatic with the default prefixes
  (`noIdClash_default`), and with integer ids.
* `StoichKept f N` — `include_stoich`, or all coefficients are 1 (nothing to lose).
* equality of sides is equality of lists (same order) where the code keeps the order, and
  `List.Perm` where the code re-orders (Python dict equality ignores order).

The last part ("Degraded views") is about the importers on views the exporters do not produce
(`SynKitModel/ViewsRaw.lean`): the conditions under which the raw streams of the harness claim a
round trip are the executable predicates of `SynKitModel/ViewsClaim.lean` (`bipRawClaimWith`,
`bipRawIdsKept`, `speciesRawClaim`, `itemsClaim`, decided by the driver on every case), and the
theorems below say that each of them implies the round trip, and which conditions on the network
(`PrefixDisjoint`, `ArcsUniform`, `AllOnes`) make the standard degradations meet them.
-/
namespace SynKit.Views

/-! ## Reaction strings -/

/-- **C16, digits.** `int(str(n)) = n` for the model's own digit printer / reader. -/
theorem digits_roundtrip (n : Nat) : digitsToNat (natToDigits n) = n := Str.digits_roundtrip' n

/-- **C16, one side.** For a side with well-formed labels (a dict with positive counts),
`RXNSide.from_str(repr(side))` returns the same species with the same coefficients; the dict is
rebuilt in the printed (sorted) order. -/
theorem side_roundtrip (m : Side) (hm : WfSide m) (hl : WfLabels m) :
    parseSide (fmtSide m) = .ok (sortSide m) := Str.side_roundtrip' m hm hl

/-- The same as an equality of dicts up to order (what Python's `==` on dicts sees). -/
theorem side_roundtrip_perm (m : Side) (hm : WfSide m) (hl : WfLabels m) :
    ∃ m', parseSide (fmtSide m) = .ok m' ∧ m'.Perm m :=
  ⟨sortSide m, Str.side_roundtrip' m hm hl, Str.sortSide_perm m⟩

/-- **The `WfLabel` guard is needed (1).** The label `2A` (leading digit) with coefficient 1 is
printed `2A` and read back as two `A`. -/
theorem wf_counterexample :
    WfLabel "2A" = false ∧ parseSide (fmtSide [("2A", 1)]) = .ok [("A", 2)] := Str.wf_counterexample'

/-- **The `WfLabel` guard is needed (2).** "First character is not a digit" is not enough: the
regex `^(\d+)([A-Za-z].*)$` only splits a glued coefficient off an ASCII letter, so `2 _A` is
printed `2_A` and read back as one species called `2_A`. -/
theorem wf_counterexample_nonletter :
    WfLabel "_A" = false ∧ parseSide (fmtSide [("_A", 2)]) = .ok [("2_A", 1)] :=
  Str.wf_counterexample_nonletter'

/-- **C16, reaction strings.** Printing a network as reaction strings with the rule suffix (with
or without the id suffix, sorted by id or in insertion order) and parsing the lines back succeeds
and yields, line by line, the same rule and the same two sides (in printed order); ids are
regenerated (`rule_k`). -/
theorem strings_roundtrip (f : StrFlags) (hf : f.includeRule = true) (N : Net) (h : WfStrNet N) :
    ∃ N', parseLines (fmtLines f N) = .ok N' ∧
      N'.rxns.map Rxn.content = (if f.sort then sortRxns N.rxns else N.rxns).map Rxn.sortedContent :=
  Str.strings_roundtrip' f hf N h

/-- … hence the same *multiset* of (rule, reactants, products). -/
theorem strings_roundtrip_multiset (f : StrFlags) (hf : f.includeRule = true) (N : Net) (h : WfStrNet N) :
    ∃ N', parseLines (fmtLines f N) = .ok N' ∧
      (N'.rxns.map Rxn.content).Perm (N.rxns.map Rxn.sortedContent) := by
  obtain ⟨N', h1, h2⟩ := Str.strings_roundtrip' f hf N h
  refine ⟨N', h1, ?_⟩
  rw [h2]
  split
  · exact (Str.sortBy_perm _ N.rxns).map _
  · exact List.Perm.refl _

/-! ## Bipartite view -/

/-- With the default prefixes `S:` / `R:` species nodes and reaction nodes never clash. -/
theorem noIdClash_default (f : BipFlags) (N : Net)
    (hs : f.speciesPrefix = some "S:") (hr : f.reactionPrefix = some "R:") : NoIdClash f N :=
  Bip.noIdClash_default f N hs hr

/-- **C16, bipartite view, ids exported.** For every flag combination with
`include_edge_id_attr` that keeps the coefficients — string ids (any prefixes that do not clash)
or integer ids, with or without `role`, isolated species, `mol`, any bipartite markers —
`bipartite_to_hypergraph(hypergraph_to_bipartite(H))` succeeds and has exactly the same reactions:
same ids, rules, and sides (same coefficients, even the same dict order); its species are the
species of the reactions; the molecule label of each such species is reproduced when `include_mol`
(and there are none otherwise). -/
theorem bipartite_roundtrip (f : BipFlags) (N : Net) (genId : GenId)
    (hN : WfNet N) (hc : NoIdClash f N) (hs : StoichKept f N) (hid : f.includeEdgeIdAttr = true) :
    ∃ N', ofBipartite genId (toBipartite f N) = .ok N' ∧
      N'.rxns.Perm N.rxns ∧
      (∀ s, s ∈ N'.species ↔ s ∈ N.rxnSpecies) ∧
      (∀ s, N'.mol.get? s = if f.includeMol = true ∧ s ∈ N.rxnSpecies then N.mol.get? s else none) :=
  Bip.bipartite_roundtrip' f N genId hN hc hs hid

/-- **C16, bipartite view, ids not exported.** Without `include_edge_id_attr` the importer
synthesises ids from `hash(...)` (a parameter of the model); provided those do not collide,
everything but the ids is reproduced: the same multiset of (rule, reactants, products), species
and molecule labels as above. -/
theorem bipartite_roundtrip_noid (f : BipFlags) (N : Net) (genId : GenId)
    (hN : WfNet N) (hc : NoIdClash f N) (hs : StoichKept f N) (hid : f.includeEdgeIdAttr = false)
    (hgen : ∀ a b r p r' p' ru ru', genId a r p ru = genId b r' p' ru' → a = b) :
    ∃ N', ofBipartite genId (toBipartite f N) = .ok N' ∧
      (N'.rxns.map Rxn.content).Perm (N.rxns.map Rxn.content) ∧
      (∀ s, s ∈ N'.species ↔ s ∈ N.rxnSpecies) ∧
      (∀ s, N'.mol.get? s = if f.includeMol = true ∧ s ∈ N.rxnSpecies then N.mol.get? s else none) :=
  Bip.bipartite_roundtrip_noid' f N genId hN hc hs hid hgen

/-! ## Species graph -/

/-- **C16, species graph.** For a network whose reactions all have reactants and products,
`species_graph_to_hypergraph(hypergraph_to_species_graph(H))` succeeds, has exactly the same
reaction ids, and every reaction has the same reactants and products with the same coefficients
(as dicts), also when several reactions share a species pair. Rules are not claimed: the code
takes an arbitrary element of the set of rules found on the reaction's arcs. -/
theorem species_roundtrip (includeMol : Bool) (N : Net) (genArc : GenArc)
    (hN : WfNet N) (h2 : TwoSided N) :
    ∃ N', ofSpeciesGraph genArc (toSpeciesGraph includeMol N) = .ok N' ∧
      N'.ids.Perm N.ids ∧
      ∀ e ∈ N.rxns, ∃ e' ∈ N'.rxns, e'.id = e.id ∧
        e'.reactants.Perm e.reactants ∧ e'.products.Perm e.products :=
  Sp.species_roundtrip' includeMol N genArc hN h2

/-- Species set and molecule labels through the species graph. -/
theorem species_roundtrip_mol (includeMol : Bool) (N : Net) (genArc : GenArc)
    (hN : WfNet N) (h2 : TwoSided N) :
    ∃ N', ofSpeciesGraph genArc (toSpeciesGraph includeMol N) = .ok N' ∧
      (∀ s, N'.mol.get? s = if includeMol = true ∧ s ∈ N.rxnSpecies then N.mol.get? s else none) ∧
      (∀ s, s ∈ N'.species ↔ s ∈ N.rxnSpecies) :=
  Sp.species_roundtrip_mol' includeMol N genArc hN h2

/-! ## The property at full strength -/

/-- C16 as one statement: for every well-formed network, every bipartite flag combination that
keeps coefficients and ids and does not clash round-trips the reactions; the printed lines parse
back to the same multiset of reactions with rules (labels/rules well formed); two-sided networks
round-trip ids and stoichiometry through the species graph. -/
def C16.FullStatement : Prop :=
  ∀ N : Net, WfNet N →
    (∀ (f : BipFlags) (genId : GenId), NoIdClash f N → StoichKept f N → f.includeEdgeIdAttr = true →
      ∃ N', ofBipartite genId (toBipartite f N) = .ok N' ∧ N'.rxns.Perm N.rxns ∧
        (∀ s, N'.mol.get? s = if f.includeMol = true ∧ s ∈ N.rxnSpecies then N.mol.get? s else none)) ∧
    (WfStrNet N → ∀ f : StrFlags, f.includeRule = true →
      ∃ N', parseLines (fmtLines f N) = .ok N' ∧ (N'.rxns.map Rxn.content).Perm (N.rxns.map Rxn.sortedContent)) ∧
    (TwoSided N → ∀ (b : Bool) (genArc : GenArc),
      ∃ N', ofSpeciesGraph genArc (toSpeciesGraph b N) = .ok N' ∧ N'.ids.Perm N.ids ∧
        ∀ e ∈ N.rxns, ∃ e' ∈ N'.rxns, e'.id = e.id ∧ e'.reactants.Perm e.reactants ∧ e'.products.Perm e.products)

theorem C16.full : C16.FullStatement := by
  intro N hN
  refine ⟨?_, ?_, ?_⟩
  · intro f genId hc hs hid
    obtain ⟨N', h1, h2, _, h4⟩ := bipartite_roundtrip f N genId hN hc hs hid
    exact ⟨N', h1, h2, h4⟩
  · intro hS f hf
    exact strings_roundtrip_multiset f hf N hS
  · intro h2 b genArc
    exact species_roundtrip b N genArc hN h2

/-! ## Non-vacuity -/

/-- A concrete network: three reactions sharing the species pair (A, B) with different
coefficients and rules, a catalyst, multi-digit coefficients, labels ending in digits. -/
def exampleNet : Net :=
  { species := ["A", "B", "Fe2", "H2O"]
    rxns := [⟨"r_1", "R1", [("A", 2), ("Fe2", 1)], [("B", 3), ("Fe2", 1)]⟩,
             ⟨"r_2", "R2", [("A", 1)], [("B", 12), ("H2O", 10)]⟩,
             ⟨"R1_7", "R1", [("B", 1), ("A", 5)], [("B", 2)]⟩]
    mol := [("A", "CCO"), ("H2O", "O")] }

example : WfNet exampleNet where
  idsNodup := by decide
  sides := by
    intro e he
    simp only [exampleNet, List.mem_cons, List.not_mem_nil, or_false] at he
    rcases he with rfl | rfl | rfl <;> (unfold WfSide; decide)
  nonEmpty := by decide
  rules := by decide
  speciesNodup := by decide
  speciesSup := by decide

example : TwoSided exampleNet := by unfold TwoSided; decide

example : WfStrNet exampleNet where
  sides := by
    intro e he
    simp only [exampleNet, List.mem_cons, List.not_mem_nil, or_false] at he
    rcases he with rfl | rfl | rfl <;> (unfold WfSide; decide)
  nonEmpty := by decide
  labels := by
    intro e he
    simp only [exampleNet, List.mem_cons, List.not_mem_nil, or_false] at he
    rcases he with rfl | rfl | rfl <;> (unfold WfLabels; decide)
  rules := by
    intro e he
    simp only [exampleNet, List.mem_cons, List.not_mem_nil, or_false] at he
    rcases he with rfl | rfl | rfl <;> (unfold WfRule; decide)

example : NoIdClash {} exampleNet := noIdClash_default _ _ rfl rfl
example : StoichKept {} exampleNet := Or.inl rfl

/-- The round trips really compute on it (integer ids, ids and mol exported). -/
example : (match ofBipartite (fun _ _ _ r => r) (toBipartite { integerIds := true, includeEdgeIdAttr := true, includeMol := true } exampleNet) with
    | .ok N' => N'.ids | .error _ => []) = ["R1_7", "r_1", "r_2"] := by decide

example : (fmtLines {} exampleNet).map String.ofList =
    ["5A + B >> 2B | rule=R1", "2A + Fe2 >> 3B + Fe2 | rule=R1", "A >> 12B + 10H2O | rule=R2"] := by decide

example : (match ofSpeciesGraph (fun a b => a ++ b) (toSpeciesGraph true exampleNet) with
    | .ok N' => N'.rxns.map (fun e => (e.id, e.reactants, e.products)) | .error _ => []) =
    [("r_1", [("A", 2), ("Fe2", 1)], [("B", 3), ("Fe2", 1)]), ("r_2", [("A", 1)], [("B", 12), ("H2O", 10)]),
     ("R1_7", [("A", 5), ("B", 1)], [("B", 2)])] := by decide

/-- A collision-free id generator exists, so the hypothesis `hgen` of
`bipartite_roundtrip_noid` is satisfiable: tag + node id. -/
def exampleGenId : GenId := fun n _ _ _ =>
  match n with
  | .str s => String.ofList ('s' :: s.toList)
  | .int k => String.ofList ('i' :: natToDigits k)

example : ∀ a b r p r' p' ru ru', exampleGenId a r p ru = exampleGenId b r' p' ru' → a = b := by
  intro a b r p r' p' ru ru' h
  have h' := congrArg String.toList h
  cases a <;> cases b <;> simp only [exampleGenId, String.toList_ofList, List.cons.injEq] at h'
  · rw [String.toList_inj.1 h'.2]
  · exact absurd h'.1 (by decide)
  · exact absurd h'.1 (by decide)
  · have := congrArg digitsToNat h'.2
    rw [digits_roundtrip, digits_roundtrip] at this
    rw [this]

/-! ## Degraded views (the importers on what the exporters do not produce) -/

/-- **C16, bipartite importer, `kind` stripped.** Take a well-formed network whose string-id view
with the prefixes `sp` / `rp` keeps ids and coefficients and does not clash (the hypotheses of
`bipartite_roundtrip`), and assume `PrefixDisjoint sp rp N`: no reaction node id `rp ++ id` starts
with `sp`. Export, delete the `kind` attribute of ANY set `p` of nodes (all, only the species, only
the reactions, any subset; or overwrite it with a value `k` the importer does not know), and import
with the same prefixes (any `default_rule`): the result is the network, in the sense of
`bipartite_roundtrip`. -/
theorem ofBipartiteRaw_prefix_roundtrip (f : BipFlags) (N : Net) (genId : GenId) (sp rp d : String)
    (p : NodeId → Bool) (k : Option String) (hk1 : k ≠ some "species") (hk2 : k ≠ some "reaction")
    (hN : WfNet N) (hc : NoIdClash f N) (hs : StoichKept f N) (hid : f.includeEdgeIdAttr = true)
    (hstr : f.integerIds = false) (hsp : f.speciesPrefix = some sp) (hrp : f.reactionPrefix = some rp)
    (hd : PrefixDisjoint sp rp N) :
    ∃ N', ofBipartiteRaw genId { speciesPrefix := sp, reactionPrefix := rp, defaultRule := d }
        ((toBipartite f N).toRaw.setKind p k) = .ok N' ∧
      N'.rxns.Perm N.rxns ∧
      (∀ s, s ∈ N'.species ↔ s ∈ N.rxnSpecies) ∧
      (∀ s, N'.mol.get? s = if f.includeMol = true ∧ s ∈ N.rxnSpecies then N.mol.get? s else none) :=
  Raw.ofBipartiteRaw_prefix_roundtrip' f N genId sp rp _ rfl rfl rfl p k hk1 hk2 hN hc hs hid hstr hsp hrp hd

/-- `PrefixDisjoint` is what the prefix heuristic needs, node by node: it makes `kindOK` (the
per-node condition the driver decides) true for every exported node whose `kind` became unusable. -/
theorem kindOK_of_prefixDisjoint (f : BipFlags) (N : Net) (hN : WfNet N) (hc : NoIdClash f N) (sp rp : String)
    (hstr : f.integerIds = false) (hsp : f.speciesPrefix = some sp) (hrp : f.reactionPrefix = some rp)
    (hd : PrefixDisjoint sp rp N) (o : ImpOpts) (ho1 : o.speciesPrefix = sp) (ho2 : o.reactionPrefix = rp)
    (k : Option String) (hk1 : k ≠ some "species") (hk2 : k ≠ some "reaction") :
    ∀ n ∈ (toBipartite f N).toRaw.nodes, kindOK o n { n with kind := k } = true := by
  intro n hn
  rw [toRaw_nodes] at hn
  obtain ⟨m, hm, rfl⟩ := List.mem_map.1 hn
  exact Raw.kindOK_prefix f N hN hc sp rp hstr hsp hrp hd o ho1 ho2 k hk1 hk2 m hm

/-- The guard is needed: with `sp = "R"`, `rp = "R:"` the reaction node `R:r_1` starts with the
species prefix, and the importer rebuilds nothing from the stripped view. -/
theorem prefixDisjoint_counterexample :
    ¬ PrefixDisjoint "R" "R:" { species := ["A"], rxns := [⟨"r_1", "R1", [("A", 1)], []⟩], mol := [] } ∧
    (match ofBipartiteRaw (fun _ _ _ r => r) { speciesPrefix := "R", reactionPrefix := "R:" }
      ((toBipartite { speciesPrefix := some "R", reactionPrefix := some "R:", includeEdgeIdAttr := true }
        { species := ["A"], rxns := [⟨"r_1", "R1", [("A", 1)], []⟩], mol := [] }).toRaw.setKind (fun _ => true) none) with
      | .ok N' => N'.ids
      | .error _ => ["error"]) = [] := by
  constructor <;> decide

/-- **C16, bipartite importer, attribute names (congruence).** Renaming the label / edge-id / mol
attributes of the nodes by `ρ` and the stoichiometry attribute of the arcs by `σ` (injective
renamings; `kind` is not an argument of the importer and keeps its name), consistently in the graph
and in the keyword arguments `species_label_attr`, `reaction_label_attr`, `reaction_edge_id_attr`,
`stoich_attr`, `mol_attr`, does not change the result. -/
theorem ofBipartiteRaw_attr_names (genId : GenId) (sp rp d : String) (ρ σ : String → String)
    (hρ : ∀ a b, ρ a = ρ b → a = b) (hσ : ∀ a b, σ a = σ b → a = b) (hk : ρ "kind" = "kind")
    (a : AttrNames) (g : ABGraph) :
    (g.rename ρ σ).read (a.rename ρ σ) = g.read a ∧
    ofBipartiteAttr genId sp rp d (a.rename ρ σ) (g.rename ρ σ) = ofBipartiteAttr genId sp rp d a g :=
  ⟨Raw.read_rename ρ σ hρ hσ hk a g, Raw.ofBipartiteAttr_rename genId sp rp d ρ σ hρ hσ hk a g⟩

/-- … and `default_rule` is the rule of a reaction exactly when its node has no rule attribute. -/
theorem ofBipartiteRaw_default_rule (o : ImpOpts) (g : RBGraph) (sp : List NodeId) (r : NodeId) :
    (rawOfRNode o g sp r).rule =
      match (g.node? r).bind (·.rxLabel) with
      | some l => l
      | none => o.defaultRule :=
  Raw.rawOfRNode_rule o g sp r

/-- **What the bipartite importer reads.** Two graphs with the same nodes and arcs (two readings
`φ`, `φ'` / `ψ`, `ψ'` of the same index lists) that are classified alike give the same network as
soon as they agree on: the label (attribute, else `str(id)`) and the molecule label of the nodes
classified as species; the rule (attribute, else `default_rule`) and the id (attribute, else
synthesised) of the nodes classified as reactions; the ends and the coefficient (attribute, else 1)
of every arc. Everything else — other attributes, the attribute names, the `kind` of a node that
the prefixes classify — is irrelevant. -/
theorem ofBipartiteRaw_reads_only {ι κ : Type} (gen gen' : GenId) (o o' : ImpOpts)
    (zs : List ι) (φ φ' : ι → RNode) (ws : List κ) (ψ ψ' : κ → BEdge)
    (hid : ∀ z ∈ zs, (φ' z).id = (φ z).id)
    (hcl : classify o' (Raw.mkG zs φ' ws ψ') = classify o (Raw.mkG zs φ ws ψ))
    (hsp : ∀ z ∈ zs, (φ z).id ∈ (classify o (Raw.mkG zs φ ws ψ)).1 →
      (φ' z).spLabel.getD (φ z).id.toStr = (φ z).spLabel.getD (φ z).id.toStr ∧
      effMol o' (φ' z) = effMol o (φ z))
    (hrx : ∀ z ∈ zs, (φ z).id ∈ (classify o (Raw.mkG zs φ ws ψ)).2 →
      (φ' z).rxLabel.getD o'.defaultRule = (φ z).rxLabel.getD o.defaultRule ∧
      ∀ r p ru, Raw.effId gen' (φ' z) r p ru = Raw.effId gen (φ z) r p ru)
    (hed : ∀ w ∈ ws, (ψ' w).src = (ψ w).src ∧ (ψ' w).dst = (ψ w).dst ∧
      (ψ' w).stoich.getD 1 = (ψ w).stoich.getD 1) :
    ofBipartiteRaw gen' o' (Raw.mkG zs φ' ws ψ') = ofBipartiteRaw gen o (Raw.mkG zs φ ws ψ) :=
  Raw.ofBipartiteRaw_congr gen gen' o o' zs φ φ' ws ψ ψ' hid hcl hsp hrx hed

/-- **C16, bipartite importer, claim condition ⇒ round trip (ids kept).** `bipRawClaimWith mol f o
N g'` is what `views.claim_bip_raw` decides for a degraded graph `g'` as the importer reads it
(kinds stripped where the prefixes decide, labels / rules / coefficients / molecule labels read
back through the defaults, attributes renamed, …). If moreover every reaction node still carries
its edge id, the importer returns the reactions of `N` with their ids; `mol` says whether the
molecule labels are expected back. -/
theorem bipRawClaim_roundtrip (mol : Bool) (f : BipFlags) (o : ImpOpts) (N : Net) (g' : RBGraph)
    (genId : GenId) (h : bipRawClaimWith mol f o N g' = true) (hk : bipRawIdsKept f N g' = true) :
    ∃ N', ofBipartiteRaw genId o g' = .ok N' ∧ N'.rxns.Perm N.rxns ∧
      (∀ s, s ∈ N'.species ↔ s ∈ N.rxnSpecies) ∧
      (∀ s, N'.mol.get? s =
        if (f.includeMol && mol) = true ∧ s ∈ N.rxnSpecies then N.mol.get? s else none) :=
  Raw.bipRawClaim_roundtrip_ids mol f o N g' genId h hk

/-- **… ids missing on some or all reaction nodes.** The missing ids are synthesised from
`hash(...)` (the parameter `genId`); provided the synthesised ids collide neither with each other
nor with an id of the network, everything but the ids is reproduced. -/
theorem bipRawClaim_roundtrip_noid (mol : Bool) (f : BipFlags) (o : ImpOpts) (N : Net) (g' : RBGraph)
    (genId : GenId) (h : bipRawClaimWith mol f o N g' = true)
    (hgen : ∀ a b r p r' p' ru ru', genId a r p ru = genId b r' p' ru' → a = b)
    (hfresh : ∀ a r p ru, genId a r p ru ∉ N.ids) :
    ∃ N', ofBipartiteRaw genId o g' = .ok N' ∧
      (N'.rxns.map Rxn.content).Perm (N.rxns.map Rxn.content) ∧
      (∀ s, s ∈ N'.species ↔ s ∈ N.rxnSpecies) ∧
      (∀ s, N'.mol.get? s =
        if (f.includeMol && mol) = true ∧ s ∈ N.rxnSpecies then N.mol.get? s else none) :=
  Raw.bipRawClaim_roundtrip_noid mol f o N g' genId h hgen hfresh

/-- **C16, species-graph importer, claim condition ⇒ round trip.** `speciesRawClaim b N g'` is what
`views.claim_species_raw` decides for a degraded species graph `g'` as the importer reads it (nodes
relabelled, labels read back through `str(node)`, `via` in any form that still names the reactions,
per-reaction maps or legacy values or the default 1 giving the right coefficients). Then the
importer returns the reaction ids of `N`, each with the same reactants and products (as dicts), for
any `default_rule` / `mol_attr`. -/
theorem speciesRawClaim_roundtrip (b : Bool) (N : Net) (g' : RSGraph) (genArc : GenArc) (d : String)
    (molOn : Bool) (h : speciesRawClaim b N g' = true) :
    ∃ N', ofSpeciesGraphRaw genArc d molOn g' = .ok N' ∧ N'.ids.Perm N.ids ∧
      ∀ e ∈ N.rxns, ∃ e' ∈ N'.rxns, e'.id = e.id ∧
        e'.reactants.Perm e.reactants ∧ e'.products.Perm e.products :=
  Raw.speciesRawClaim_roundtrip b N g' genArc d molOn h

/-- **C16, species-graph importer, forms of `via`.** (1) A list, a tuple and a set are the same
`ViaAttr.seq` (in its iteration order) to the model; the id of a single reaction handed over bare
(`via="r_1"` instead of `{"r_1"}`) gives exactly the same network. (2) Arcs without `via` give one
synthetic reaction per arc, `label(u) -> label(v)` with the arc's coefficients (per-reaction map
under the synthetic id, else legacy value, else 1), the first of the arc's rules or `default_rule`,
and the id `genArc u v` — provided those ids are distinct and the coefficients positive. -/
theorem ofSpeciesGraphRaw_via_forms (genArc : GenArc) (d : String) (molOn : Bool) (g : RSGraph) :
    ((∀ a ∈ g.edges, a.via ≠ .seq [""]) →
      ofSpeciesGraphRaw genArc d molOn (g.mapEdges REdge.viaScalar) = ofSpeciesGraphRaw genArc d molOn g) ∧
    ((g.edges.map fun a => genArc a.src a.dst).Nodup →
      (∀ a ∈ g.edges, 0 < coeffFor a.rMap a.stoichR (genArc a.src a.dst) ∧
        0 < coeffFor a.pMap a.stoichP (genArc a.src a.dst)) →
      ∃ N', ofSpeciesGraphRaw genArc d molOn (g.mapEdges REdge.dropVia) = .ok N' ∧
        N'.rxns = g.edges.map fun a =>
          (⟨genArc a.src a.dst, normRule ((a.rules.toList.foldl setAdd []).head?.getD d),
            [(g.labelOf a.src, coeffFor a.rMap a.stoichR (genArc a.src a.dst))],
            [(g.labelOf a.dst, coeffFor a.pMap a.stoichP (genArc a.src a.dst))]⟩ : Rxn)) :=
  ⟨Raw.ofSpeciesGraphRaw_viaScalar genArc d molOn g, Raw.ofSpeciesGraphRaw_dropVia genArc d molOn g⟩

/-- **C16, species-graph importer, legacy coefficients.** For a well-formed two-sided network:
(1) without the per-reaction maps (`stoich_r_map` and / or `stoich_p_map` deleted) the legacy
per-arc values `stoich_r` / `stoich_p` reproduce ids and stoichiometry when `ArcsUniform N` — every
two reactions sharing an arc carry the same coefficients there; (2) the legacy values are never
needed while the maps are there; (3) with both absent every coefficient is read as 1, which
reproduces the network when `AllOnes N`. (`legacy_counterexample`: (1) fails without uniformity.) -/
theorem ofSpeciesGraphRaw_legacy_stoich (b : Bool) (N : Net) (genArc : GenArc) (d : String) (molOn : Bool)
    (hN : WfNet N) (h2 : TwoSided N) (φ : REdge → REdge)
    (hφ : (ArcsUniform N ∧ ∃ r p, φ = REdge.dropMaps r p) ∨ φ = REdge.dropLegacy ∨
      (AllOnes N ∧ ∃ r p, φ = fun a => (a.dropMaps r p).dropLegacy)) :
    ∃ N', ofSpeciesGraphRaw genArc d molOn ((toSpeciesGraph b N).toRaw.mapEdges φ) = .ok N' ∧
      N'.ids.Perm N.ids ∧
      ∀ e ∈ N.rxns, ∃ e' ∈ N'.rxns, e'.id = e.id ∧
        e'.reactants.Perm e.reactants ∧ e'.products.Perm e.products := by
  apply Raw.speciesRawClaim_roundtrip b N
  rcases hφ with ⟨hu, r, p, rfl⟩ | rfl | ⟨h1, r, p, rfl⟩
  · exact Raw.claim_dropMaps b N hN h2 hu r p
  · exact Raw.claim_dropLegacy b N hN h2
  · exact Raw.claim_dropBoth b N hN h2 h1 r p

/-- With both absent the coefficient is 1; without the map it is the legacy value. -/
theorem coeffFor_defaults (c : Nat) (eid : String) :
    coeffFor none none eid = 1 ∧ coeffFor none (some c) eid = c := ⟨rfl, rfl⟩

/-- Uniformity is needed: two reactions `A -> B` and `2A -> B` share the arc `(A, B)`; without the
maps the legacy `stoich_r = min(1, 2)` is wrong for the second one, and the claim condition fails. -/
theorem legacy_counterexample :
    ¬ ArcsUniform Raw.exNonUniform ∧
    speciesRawClaim false Raw.exNonUniform
      ((toSpeciesGraph false Raw.exNonUniform).toRaw.mapEdges (REdge.dropMaps true true)) = false :=
  ⟨Raw.exNonUniform_not_uniform, Raw.exNonUniform_dropMaps_not_claimed⟩

/-- **C16, `parse_rxns` input forms.** (1) A mapping `line -> rule`, a list of `(line, rule)` tuples
and `rules=` that denote the same pairs are the same call; `rules=` of another length is the
documented `ValueError`; no explicit rules at all is the plain parse. (2) Under the claim condition
`itemsClaim` — the lines are the lines the printer prints for `N`, and either they carry no suffix
and every rule is given explicitly, or they carry the rule suffix, suffix parsing is on and the
suffix wins (`prefer_suffix`, or no explicit rule) — parsing the items is literally parsing the
lines printed with the rule suffix, hence (`strings_roundtrip`) reproduces rule and sides of every
reaction. The precedence itself: an explicit rule wins unless `prefer_suffix`, `parse_rule_from_suffix`
and the line has a `| rule=` suffix (`parseItemsFrom`, by definition). -/
theorem parseItemsFrom_forms (f : StrFlags) (ps pf : Bool) (d : String) (N : Net)
    (items : List (List Char × Option String)) :
    (parseRxnsInput ps pf d (.mapping items) = parseRxnsInput ps pf d (.tuples items) ∧
     parseRxnsInput ps pf d (.lines (items.map (·.1)) (some (items.map (·.2)))) =
       parseRxnsInput ps pf d (.tuples items)) ∧
    (itemsClaim f ps pf N items = true →
      parseRxnsInput ps pf d (.tuples items) = parseLines (fmtLines { f with includeRule := true } N) ∧
      ∃ N', parseRxnsInput ps pf d (.tuples items) = .ok N' ∧
        N'.rxns.map Rxn.content = (printedRxns f N).map Rxn.sortedContent ∧
        (N'.rxns.map Rxn.content).Perm (N.rxns.map Rxn.sortedContent)) := by
  refine ⟨Raw.parseRxnsInput_forms ps pf d items, fun h => ⟨?_, ?_⟩⟩
  · have := Raw.itemsClaim_parse f ps pf d N items h
    rw [← this]
    unfold parseRxnsInput ItemsInput.pairs
    simp only []
    cases parseItemsFrom ps pf d {} items <;> rfl
  · obtain ⟨st', h1, h2, h3⟩ := Raw.itemsClaim_roundtrip f ps pf d N items h
    refine ⟨st'.net, ?_, h2, h3⟩
    unfold parseRxnsInput ItemsInput.pairs
    simp only [h1]

/-- `rules=` of another length: the documented `ValueError`; no rules: the plain parse. -/
theorem parseRxnsInput_lines (ps pf : Bool) (d : String) (ls : List (List Char)) :
    (∀ rs : List (Option String), ls.length ≠ rs.length →
      parseRxnsInput ps pf d (.lines ls (some rs)) = .error .valueError) ∧
    parseRxnsInput ps pf d (.lines ls none) =
      (match parseLinesFrom ps d {} ls with
        | .ok st => .ok st.net
        | .error e => .error e) :=
  ⟨fun rs h => Raw.parseRxnsInput_length_mismatch ps pf d ls rs h, Raw.parseRxnsInput_lines_none ps pf d ls⟩

/-! ### Non-vacuity of the degraded-view theorems -/

example : PrefixDisjoint "S:" "R:" exampleNet := by decide
example : ¬ ArcsUniform exampleNet := by decide
example : ArcsUniform Raw.exShared ∧ WfNet Raw.exShared ∧ TwoSided Raw.exShared :=
  ⟨by decide, (Raw.wfNetB_iff _).1 (by decide), (Raw.twoSidedB_iff _).1 (by decide)⟩

/-- All kinds stripped, species labels dropped... the claim condition holds on a concrete degraded
graph (kinds stripped everywhere, coefficients kept, ids kept), and the importer really returns
the ids. -/
example : bipRawClaimWith true { includeEdgeIdAttr := true, includeMol := true } {} exampleNet
    ((toBipartite { includeEdgeIdAttr := true, includeMol := true } exampleNet).toRaw.setKind (fun _ => true) none) = true ∧
    bipRawIdsKept { includeEdgeIdAttr := true, includeMol := true } exampleNet
    ((toBipartite { includeEdgeIdAttr := true, includeMol := true } exampleNet).toRaw.setKind (fun _ => true) none) = true := by
  constructor <;> decide

example : (match ofBipartiteRaw (fun _ _ _ r => r) {}
    ((toBipartite { includeEdgeIdAttr := true } exampleNet).toRaw.setKind (fun _ => true) none) with
    | .ok N' => N'.ids | .error _ => []) = ["R1_7", "r_1", "r_2"] := by decide

example : speciesRawClaim true Raw.exShared
    ((toSpeciesGraph true Raw.exShared).toRaw.mapEdges (REdge.dropMaps true true)) = true := by decide

example : itemsClaim { includeRule := false } true false exampleNet
    [("5A + B >> 2B".toList, some "R1"), ("2A + Fe2 >> 3B + Fe2".toList, some "R1"),
     ("A >> 12B + 10H2O".toList, some "R2")] = true := by decide

end SynKit.Views

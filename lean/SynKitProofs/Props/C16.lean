import SynKitModel.Views
import SynKitProofs.ViewsLemmas
/-!
# C16 — network views (bipartite graph, reaction strings, species graph) round-trip exactly

Property theorems only; the helper lemmas are in `SynKitProofs/ViewsLemmas/*.lean`.
The model (`SynKitModel/Views.lean`) mirrors `conversion.py`, `RXNSide.from_str`/`__repr__`,
`add_rxn_from_str`/`parse_rxns`; the correspondence run (`harness/props/c16.py`) compares it
with the real code on every exported view and every re-imported network.

What each theorem assumes is in its statement:
* `WfNet N` — what every `CRNHyperGraph` satisfies (ids unique, sides are dicts with positive
  counts, no reaction empty on both sides, rules non-empty, species of reactions are in the
  species set); no hypothesis on the *shape* of labels for the two graph views.
* `WfStrNet N` — additionally labels are `WfLabel` and rules have no whitespace: the reading
  of "well-formed" fixed in DESIGN §5a; `wf_counterexample*` show the guard is needed.
* `NoIdClash f N` — only for string node ids; automatic with the default prefixes
  (`noIdClash_default`), and with integer ids.
* `StoichKept f N` — `include_stoich`, or all coefficients are 1 (nothing to lose).
* equality of sides is equality of lists (same order) where the code keeps the order, and
  `List.Perm` where the code re-orders (Python dict equality ignores order).
-/
namespace SynKit.Views

/-! ## Reaction strings -/

/-- **C16, digits.** `int(str(n)) = n` for the model's own digit printer / reader. -/
theorem digits_roundtrip (n : Nat) : digitsToNat (natToDigits n) = n := Str.digits_roundtrip' n

/-- **C16, one side.** For a side with well-formed labels (a dict with positive counts),
`RXNSide.from_str(repr(side))` returns the same species with the same coefficients; the dict is
rebuilt in the printed (sorted) order. -/
theorem side_roundtrip (m : Side) (hm : WfSide m) (hl : WfLabels m) :
    parseSide (fmtSide m) = .ok (sortSide m) := Str.side_roundtrip' m hm hl

/-- The same as an equality of dicts up to order (what Python's `==` on dicts sees). -/
theorem side_roundtrip_perm (m : Side) (hm : WfSide m) (hl : WfLabels m) :
    ∃ m', parseSide (fmtSide m) = .ok m' ∧ m'.Perm m :=
  ⟨sortSide m, Str.side_roundtrip' m hm hl, Str.sortSide_perm m⟩

/-- **The `WfLabel` guard is needed (1).** The label `2A` (leading digit) with coefficient 1 is
printed `2A` and read back as two `A`. -/
theorem wf_counterexample :
    WfLabel "2A" = false ∧ parseSide (fmtSide [("2A", 1)]) = .ok [("A", 2)] := Str.wf_counterexample'

/-- **The `WfLabel` guard is needed (2).** "First character is not a digit" is not enough: the
regex `^(\d+)([A-Za-z].*)$` only splits a glued coefficient off an ASCII letter, so `2 _A` is
printed `2_A` and read back as one species called `2_A`. -/
theorem wf_counterexample_nonletter :
    WfLabel "_A" = false ∧ parseSide (fmtSide [("_A", 2)]) = .ok [("2_A", 1)] :=
  Str.wf_counterexample_nonletter'

/-- **C16, reaction strings.** Printing a network as reaction strings with the rule suffix (with
or without the id suffix, sorted by id or in insertion order) and parsing the lines back succeeds
and yields, line by line, the same rule and the same two sides (in printed order); ids are
regenerated (`rule_k`). -/
theorem strings_roundtrip (f : StrFlags) (hf : f.includeRule = true) (N : Net) (h : WfStrNet N) :
    ∃ N', parseLines (fmtLines f N) = .ok N' ∧
      N'.rxns.map Rxn.content = (if f.sort then sortRxns N.rxns else N.rxns).map Rxn.sortedContent :=
  Str.strings_roundtrip' f hf N h

/-- … hence the same *multiset* of (rule, reactants, products). -/
theorem strings_roundtrip_multiset (f : StrFlags) (hf : f.includeRule = true) (N : Net) (h : WfStrNet N) :
    ∃ N', parseLines (fmtLines f N) = .ok N' ∧
      (N'.rxns.map Rxn.content).Perm (N.rxns.map Rxn.sortedContent) := by
  obtain ⟨N', h1, h2⟩ := Str.strings_roundtrip' f hf N h
  refine ⟨N', h1, ?_⟩
  rw [h2]
  split
  · exact (Str.sortBy_perm _ N.rxns).map _
  · exact List.Perm.refl _

/-! ## Bipartite view -/

/-- With the default prefixes `S:` / `R:` species nodes and reaction nodes never clash. -/
theorem noIdClash_default (f : BipFlags) (N : Net)
    (hs : f.speciesPrefix = some "S:") (hr : f.reactionPrefix = some "R:") : NoIdClash f N :=
  Bip.noIdClash_default f N hs hr

/-- **C16, bipartite view, ids exported.** For every flag combination with
`include_edge_id_attr` that keeps the coefficients — string ids (any prefixes that do not clash)
or integer ids, with or without `role`, isolated species, `mol`, any bipartite markers —
`bipartite_to_hypergraph(hypergraph_to_bipartite(H))` succeeds and has exactly the same reactions:
same ids, rules, and sides (same coefficients, even the same dict order); its species are the
species of the reactions; the molecule label of each such species is reproduced when `include_mol`
(and there are none otherwise). -/
theorem bipartite_roundtrip (f : BipFlags) (N : Net) (genId : GenId)
    (hN : WfNet N) (hc : NoIdClash f N) (hs : StoichKept f N) (hid : f.includeEdgeIdAttr = true) :
    ∃ N', ofBipartite genId (toBipartite f N) = .ok N' ∧
      N'.rxns.Perm N.rxns ∧
      (∀ s, s ∈ N'.species ↔ s ∈ N.rxnSpecies) ∧
      (∀ s, N'.mol.get? s = if f.includeMol = true ∧ s ∈ N.rxnSpecies then N.mol.get? s else none) :=
  Bip.bipartite_roundtrip' f N genId hN hc hs hid

/-- **C16, bipartite view, ids not exported.** Without `include_edge_id_attr` the importer
synthesises ids from `hash(...)` (a parameter of the model); provided those do not collide,
everything but the ids is reproduced: the same multiset of (rule, reactants, products), species
and molecule labels as above. -/
theorem bipartite_roundtrip_noid (f : BipFlags) (N : Net) (genId : GenId)
    (hN : WfNet N) (hc : NoIdClash f N) (hs : StoichKept f N) (hid : f.includeEdgeIdAttr = false)
    (hgen : ∀ a b r p r' p' ru ru', genId a r p ru = genId b r' p' ru' → a = b) :
    ∃ N', ofBipartite genId (toBipartite f N) = .ok N' ∧
      (N'.rxns.map Rxn.content).Perm (N.rxns.map Rxn.content) ∧
      (∀ s, s ∈ N'.species ↔ s ∈ N.rxnSpecies) ∧
      (∀ s, N'.mol.get? s = if f.includeMol = true ∧ s ∈ N.rxnSpecies then N.mol.get? s else none) :=
  Bip.bipartite_roundtrip_noid' f N genId hN hc hs hid hgen

/-! ## Species graph -/

/-- **C16, species graph.** For a network whose reactions all have reactants and products,
`species_graph_to_hypergraph(hypergraph_to_species_graph(H))` succeeds, has exactly the same
reaction ids, and every reaction has the same reactants and products with the same coefficients
(as dicts), also when several reactions share a species pair. Rules are not claimed: the code
takes an arbitrary element of the set of rules found on the reaction's arcs. -/
theorem species_roundtrip (includeMol : Bool) (N : Net) (genArc : GenArc)
    (hN : WfNet N) (h2 : TwoSided N) :
    ∃ N', ofSpeciesGraph genArc (toSpeciesGraph includeMol N) = .ok N' ∧
      N'.ids.Perm N.ids ∧
      ∀ e ∈ N.rxns, ∃ e' ∈ N'.rxns, e'.id = e.id ∧
        e'.reactants.Perm e.reactants ∧ e'.products.Perm e.products :=
  Sp.species_roundtrip' includeMol N genArc hN h2

/-- Species set and molecule labels through the species graph. -/
theorem species_roundtrip_mol (includeMol : Bool) (N : Net) (genArc : GenArc)
    (hN : WfNet N) (h2 : TwoSided N) :
    ∃ N', ofSpeciesGraph genArc (toSpeciesGraph includeMol N) = .ok N' ∧
      (∀ s, N'.mol.get? s = if includeMol = true ∧ s ∈ N.rxnSpecies then N.mol.get? s else none) ∧
      (∀ s, s ∈ N'.species ↔ s ∈ N.rxnSpecies) :=
  Sp.species_roundtrip_mol' includeMol N genArc hN h2

/-! ## The property at full strength -/

/-- C16 as one statement: for every well-formed network, every bipartite flag combination that
keeps coefficients and ids and does not clash round-trips the reactions; the printed lines parse
back to the same multiset of reactions with rules (labels/rules well formed); two-sided networks
round-trip ids and stoichiometry through the species graph. -/
def C16.FullStatement : Prop :=
  ∀ N : Net, WfNet N →
    (∀ (f : BipFlags) (genId : GenId), NoIdClash f N → StoichKept f N → f.includeEdgeIdAttr = true →
      ∃ N', ofBipartite genId (toBipartite f N) = .ok N' ∧ N'.rxns.Perm N.rxns ∧
        (∀ s, N'.mol.get? s = if f.includeMol = true ∧ s ∈ N.rxnSpecies then N.mol.get? s else none)) ∧
    (WfStrNet N → ∀ f : StrFlags, f.includeRule = true →
      ∃ N', parseLines (fmtLines f N) = .ok N' ∧ (N'.rxns.map Rxn.content).Perm (N.rxns.map Rxn.sortedContent)) ∧
    (TwoSided N → ∀ (b : Bool) (genArc : GenArc),
      ∃ N', ofSpeciesGraph genArc (toSpeciesGraph b N) = .ok N' ∧ N'.ids.Perm N.ids ∧
        ∀ e ∈ N.rxns, ∃ e' ∈ N'.rxns, e'.id = e.id ∧ e'.reactants.Perm e.reactants ∧ e'.products.Perm e.products)

theorem C16.full : C16.FullStatement := by
  intro N hN
  refine ⟨?_, ?_, ?_⟩
  · intro f genId hc hs hid
    obtain ⟨N', h1, h2, _, h4⟩ := bipartite_roundtrip f N genId hN hc hs hid
    exact ⟨N', h1, h2, h4⟩
  · intro hS f hf
    exact strings_roundtrip_multiset f hf N hS
  · intro h2 b genArc
    exact species_roundtrip b N genArc hN h2

/-! ## Non-vacuity -/

/-- A concrete network: three reactions sharing the species pair (A, B) with different
coefficients and rules, a catalyst, multi-digit coefficients, labels ending in digits. -/
def exampleNet : Net :=
  { species := ["A", "B", "Fe2", "H2O"]
    rxns := [⟨"r_1", "R1", [("A", 2), ("Fe2", 1)], [("B", 3), ("Fe2", 1)]⟩,
             ⟨"r_2", "R2", [("A", 1)], [("B", 12), ("H2O", 10)]⟩,
             ⟨"R1_7", "R1", [("B", 1), ("A", 5)], [("B", 2)]⟩]
    mol := [("A", "CCO"), ("H2O", "O")] }

example : WfNet exampleNet where
  idsNodup := by decide
  sides := by
    intro e he
    simp only [exampleNet, List.mem_cons, List.not_mem_nil, or_false] at he
    rcases he with rfl | rfl | rfl <;> (unfold WfSide; decide)
  nonEmpty := by decide
  rules := by decide
  speciesNodup := by decide
  speciesSup := by decide

example : TwoSided exampleNet := by unfold TwoSided; decide

example : WfStrNet exampleNet where
  sides := by
    intro e he
    simp only [exampleNet, List.mem_cons, List.not_mem_nil, or_false] at he
    rcases he with rfl | rfl | rfl <;> (unfold WfSide; decide)
  nonEmpty := by decide
  labels := by
    intro e he
    simp only [exampleNet, List.mem_cons, List.not_mem_nil, or_false] at he
    rcases he with rfl | rfl | rfl <;> (unfold WfLabels; decide)
  rules := by
    intro e he
    simp only [exampleNet, List.mem_cons, List.not_mem_nil, or_false] at he
    rcases he with rfl | rfl | rfl <;> (unfold WfRule; decide)

example : NoIdClash {} exampleNet := noIdClash_default _ _ rfl rfl
example : StoichKept {} exampleNet := Or.inl rfl

/-- The round trips really compute on it (integer ids, ids and mol exported). -/
example : (match ofBipartite (fun _ _ _ r => r) (toBipartite { integerIds := true, includeEdgeIdAttr := true, includeMol := true } exampleNet) with
    | .ok N' => N'.ids | .error _ => []) = ["R1_7", "r_1", "r_2"] := by decide

example : (fmtLines {} exampleNet).map String.ofList =
    ["5A + B >> 2B | rule=R1", "2A + Fe2 >> 3B + Fe2 | rule=R1", "A >> 12B + 10H2O | rule=R2"] := by decide

example : (match ofSpeciesGraph (fun a b => a ++ b) (toSpeciesGraph true exampleNet) with
    | .ok N' => N'.rxns.map (fun e => (e.id, e.reactants, e.products)) | .error _ => []) =
    [("r_1", [("A", 2), ("Fe2", 1)], [("B", 3), ("Fe2", 1)]), ("r_2", [("A", 1)], [("B", 12), ("H2O", 10)]),
     ("R1_7", [("A", 5), ("B", 1)], [("B", 2)])] := by decide

/-- A collision-free id generator exists, so the hypothesis `hgen` of
`bipartite_roundtrip_noid` is satisfiable: tag + node id. -/
def exampleGenId : GenId := fun n _ _ _ =>
  match n with
  | .str s => String.ofList ('s' :: s.toList)
  | .int k => String.ofList ('i' :: natToDigits k)

example : ∀ a b r p r' p' ru ru', exampleGenId a r p ru = exampleGenId b r' p' ru' → a = b := by
  intro a b r p r' p' ru ru' h
  have h' := congrArg String.toList h
  cases a <;> cases b <;> simp only [exampleGenId, String.toList_ofList, List.cons.injEq] at h'
  · rw [String.toList_inj.1 h'.2]
  · exact absurd h'.1 (by decide)
  · exact absurd h'.1 (by decide)
  · have := congrArg digitsToNat h'.2
    rw [digits_roundtrip, digits_roundtrip] at this
    rw [this]

end SynKit.Views

import SynKitModel.Canon
import SynKitProofs.CanonLemmas
import SynKitProofs.Match
import SynKitProofs.NautyIRLemmas
import SynKitProofs.NautyIRDepth
/-!
# C08 — graph canonicalisation is faithful and sound; the exact form is invariant

Property theorems only; helper lemmas live in `SynKitProofs/CanonLemmas.lean` and
`SynKitProofs/CanonOrder.lean`.  "Isomorphic on the attributes the signature covers" is the
shared engine's `IsIso covSel (cov G) (cov H) m` (`cov` keeps element, charge, aromatic, hcount
on nodes and order, standard_order on edges, with the code's defaults for absent keys).
-/
namespace SynKit.Canon
open SynKit SynKit.Match

/-- **C08, faithfulness.** For EVERY node order `o` that is a permutation of the node ids —
whatever back-end computed it — the canonical graph is the input relabelled by the bijection
`v ↦ position of v in o` onto `1..N`: well formed, node set `1..N`, every node attribute dict
and every edge attribute dict preserved, adjacency preserved in both directions. -/
theorem canonBy_faithful (o : List Nat) (G : LGraph) (hw : G.WF) (hp : o.Perm G.ids) :
    IsRelabelling G (canonBy o G) (G.ids.map fun v => (v, pos o v)) ∧
    (canonBy o G).ids = List.range' 1 G.nodes.length := by
  refine ⟨canonBy_isRelabelling o G hw hp, ?_⟩
  rw [canonBy_ids o G (hp.nodup_iff.2 hw.1)]
  have := hp.length_eq
  simp only [LGraph.ids, List.length_map] at this
  rw [this]

/-- The driver command `spec.isRelabelling`, which the harness evaluates on the implementation's
canonical graph and on the bijection it used, decides exactly the predicate of
`canonBy_faithful`. -/
theorem spec_isRelabelling_iff (G H : LGraph) (m : Mapping) :
    checkRelabelling G H m = "ok" ↔ IsRelabelling G H m := checkRelabelling_ok_iff G H m

/-- **C08, the serialisation determines the covered content.** Two well-formed graphs with the
same serialisation have the same node ids, the same covered node attributes and the same
adjacency with the same covered edge attributes. -/
theorem serialise_inj (G H : LGraph) (hG : G.WF) (hH : H.WF) (h : serialise G = serialise H) :
    G.ids.Perm H.ids ∧ (∀ v ∈ G.ids, nodeKey (G.attrs v) = nodeKey (H.attrs v)) ∧
    ∀ u v, (G.edge? u v).map edgeKey = (H.edge? u v).map edgeKey :=
  serialise_inj' G H hG hH h

/-- **C08, soundness of signatures (every back-end).** If the canonical graphs of `G` and `H`
(for ANY two node orders) have the same serialisation, then `G` and `H` are isomorphic on the
covered attributes. -/
theorem signature_sound (G H : LGraph) (hG : G.WF) (hH : H.WF) (o₁ o₂ : List Nat)
    (hp₁ : o₁.Perm G.ids) (hp₂ : o₂.Perm H.ids)
    (h : serialise (canonBy o₁ G) = serialise (canonBy o₂ H)) :
    ∃ m, IsIso covSel (cov G) (cov H) m :=
  ⟨_, isIso_of_isoCov G H hG hH _ (isoCov_of_ser_eq G H hG hH o₁ o₂ hp₁ hp₂ h)⟩

/-- The same through the digest, under the hypothesis that the digest is injective (SHA-256). -/
theorem signature_sound_digest {D : Type} (digest : Ser → D) (hinj : Function.Injective digest)
    (G H : LGraph) (hG : G.WF) (hH : H.WF) (o₁ o₂ : List Nat)
    (hp₁ : o₁.Perm G.ids) (hp₂ : o₂.Perm H.ids)
    (h : signature digest o₁ G = signature digest o₂ H) :
    isoDecide covSel (cov G) (cov H) = true := by
  have hcovH : (cov H).WF := cov_wf H hH
  rw [isoDecide_iff covSel (cov G) (cov H) hcovH]
  exact signature_sound G H hG hH o₁ o₂ hp₁ hp₂ (hinj h)

/-- **C08, specification-level exact form is faithful.** `canonBrute G` is `G` relabelled by a
bijection onto `1..N` with all attributes and adjacency preserved (it is `canonBy` for the node
order with the least serialisation). -/
theorem canonBrute_faithful (G : LGraph) (hw : G.WF) :
    IsRelabelling G (canonBrute G) (G.ids.map fun v => (v, pos (bruteOrder G) v)) ∧
    (canonBrute G).ids = List.range' 1 G.nodes.length :=
  canonBy_faithful (bruteOrder G) G hw (bruteOrder_perm G)

/-- **C08, exact form: equal signatures ⇒ isomorphic.** -/
theorem canonBrute_sound (G H : LGraph) (hG : G.WF) (hH : H.WF) (h : sigBrute G = sigBrute H) :
    ∃ m, IsIso covSel (cov G) (cov H) m :=
  signature_sound G H hG hH _ _ (bruteOrder_perm G) (bruteOrder_perm H) h

/-- **C08, exact form is invariant.** Any two graphs that are isomorphic on the covered
attributes — however their nodes are numbered, and in whatever order nodes and edges were
inserted — have the same exact signature. -/
theorem canonBrute_invariant (G H : LGraph) (hG : G.WF) (hH : H.WF)
    (h : ∃ m, IsIso covSel (cov G) (cov H) m) : sigBrute G = sigBrute H := by
  obtain ⟨m, hm⟩ := h
  exact sigBrute_invariant G H hG hH (mapOf m) (isoCov_of_isIso G H hG hH m hm)

/-- … and the same canonical graph on the covered attributes (same node ids `1..N`, same node
keys, same adjacency with the same edge keys). -/
theorem canonBrute_covEq (G H : LGraph) (hG : G.WF) (hH : H.WF)
    (h : ∃ m, IsIso covSel (cov G) (cov H) m) :
    (canonBrute G).ids = (canonBrute H).ids ∧
    (∀ v ∈ (canonBrute G).ids, nodeKey ((canonBrute G).attrs v) = nodeKey ((canonBrute H).attrs v)) ∧
    ∀ u v, ((canonBrute G).edge? u v).map edgeKey = ((canonBrute H).edge? u v).map edgeKey := by
  have hs := canonBrute_invariant G H hG hH h
  have hc := serialise_inj (canonBrute G) (canonBrute H)
    (canonBy_wf _ G hG (bruteOrder_perm G)) (canonBy_wf _ H hH (bruteOrder_perm H)) hs
  refine ⟨?_, hc.2.1, hc.2.2⟩
  have hl := hc.1.length_eq
  rw [(canonBrute_faithful G hG).2, (canonBrute_faithful H hH).2] at hl ⊢
  simp only [List.length_range'] at hl
  rw [hl]


private theorem synGraphEq_iff {D : Type} [DecidableEq D] (digest : Ser → D) (o₁ o₂ : List Nat) (G H : LGraph) :
    synGraphEq digest o₁ o₂ G H = true ↔ digest (serialise (canonBy o₁ G)) = digest (serialise (canonBy o₂ H)) := by
  unfold synGraphEq; exact decide_eq_true_iff

private theorem canonicalGraphEq_iff {D : Type} [DecidableEq D] (digest : Ser → D) (o₁ o₁' o₂ o₂' : List Nat) (G H : LGraph) :
    canonicalGraphEq digest o₁ o₁' o₂ o₂' G H = true ↔
      digest (serialise (canonBy o₁' (canonBy o₁ G))) = digest (serialise (canonBy o₂' (canonBy o₂ H))) := by
  unfold canonicalGraphEq; exact decide_eq_true_iff

private theorem synRuleEq_iff' {D : Type} [DecidableEq D] (digest : Ser → D) (ol₁ or₁ ol₂ or₂ : List Nat) (L₁ R₁ L₂ R₂ : LGraph) :
    synRuleEq digest ol₁ or₁ ol₂ or₂ L₁ R₁ L₂ R₂ = true ↔
      (synGraphEq digest ol₁ ol₂ L₁ L₂ = true ∧ synGraphEq digest or₁ or₂ R₁ R₂ = true) := by
  rw [synGraphEq_iff, synGraphEq_iff]
  unfold synRuleEq
  rw [decide_eq_true_iff, Prod.mk.injEq]
  rfl

/-- **C08, value objects (`SynGraph`).** Wrapper equality is equality of the signatures, i.e.
(SHA-256 taken as injective) of the serialisations of the canonical graphs; and it implies that
the wrapped graphs are isomorphic on the covered attributes — for every back-end. -/
theorem valueobject_eq_iff {D : Type} [DecidableEq D] (digest : Ser → D) (hinj : Function.Injective digest)
    (G H : LGraph) (hG : G.WF) (hH : H.WF) (o₁ o₂ : List Nat) (hp₁ : o₁.Perm G.ids) (hp₂ : o₂.Perm H.ids) :
    (synGraphEq digest o₁ o₂ G H = true ↔ serialise (canonBy o₁ G) = serialise (canonBy o₂ H)) ∧
    (synGraphEq digest o₁ o₂ G H = true → isoDecide covSel (cov G) (cov H) = true) := by
  have h1 : synGraphEq digest o₁ o₂ G H = true ↔ serialise (canonBy o₁ G) = serialise (canonBy o₂ H) := by
    rw [synGraphEq_iff]
    exact ⟨fun h => hinj h, fun h => by rw [h]⟩
  refine ⟨h1, fun h => ?_⟩
  rw [isoDecide_iff covSel (cov G) (cov H) (cov_wf H hH)]
  exact signature_sound G H hG hH o₁ o₂ hp₁ hp₂ (h1.1 h)

/-- **C08, value objects on an exact signature.** With the exact form as back-end, wrappers
compare equal exactly for isomorphic content. -/
theorem valueobject_exact_iff {D : Type} [DecidableEq D] (digest : Ser → D) (hinj : Function.Injective digest)
    (G H : LGraph) (hG : G.WF) (hH : H.WF) :
    synGraphEq digest (bruteOrder G) (bruteOrder H) G H = true ↔ isoDecide covSel (cov G) (cov H) = true := by
  rw [isoDecide_iff covSel (cov G) (cov H) (cov_wf H hH)]
  constructor
  · intro h
    have := (valueobject_eq_iff digest hinj G H hG hH _ _ (bruteOrder_perm G) (bruteOrder_perm H)).1.1 h
    exact canonBrute_sound G H hG hH this
  · intro h
    have := canonBrute_invariant G H hG hH h
    rw [synGraphEq_iff]
    exact congrArg digest this

/-- **C08, value objects (`SynRule`)**, in the reading fixed in DESIGN §5a: rules compare equal
iff their left fragments have equal signatures and their right fragments have; with an exact
signature, iff the left fragments are isomorphic and the right fragments are. -/
theorem synRule_eq_iff {D : Type} [DecidableEq D] (digest : Ser → D) (hinj : Function.Injective digest)
    (L₁ R₁ L₂ R₂ : LGraph) (hL₁ : L₁.WF) (hR₁ : R₁.WF) (hL₂ : L₂.WF) (hR₂ : R₂.WF) :
    (∀ ol₁ or₁ ol₂ or₂, synRuleEq digest ol₁ or₁ ol₂ or₂ L₁ R₁ L₂ R₂ = true ↔
      (synGraphEq digest ol₁ ol₂ L₁ L₂ = true ∧ synGraphEq digest or₁ or₂ R₁ R₂ = true)) ∧
    (synRuleEq digest (bruteOrder L₁) (bruteOrder R₁) (bruteOrder L₂) (bruteOrder R₂) L₁ R₁ L₂ R₂ = true ↔
      (isoDecide covSel (cov L₁) (cov L₂) = true ∧ isoDecide covSel (cov R₁) (cov R₂) = true)) := by
  have h1 : ∀ ol₁ or₁ ol₂ or₂, synRuleEq digest ol₁ or₁ ol₂ or₂ L₁ R₁ L₂ R₂ = true ↔
      (synGraphEq digest ol₁ ol₂ L₁ L₂ = true ∧ synGraphEq digest or₁ or₂ R₁ R₂ = true) := by
    intro ol₁ or₁ ol₂ or₂
    exact synRuleEq_iff' digest ol₁ or₁ ol₂ or₂ L₁ R₁ L₂ R₂
  refine ⟨h1, ?_⟩
  rw [h1, valueobject_exact_iff digest hinj L₁ L₂ hL₁ hL₂, valueobject_exact_iff digest hinj R₁ R₂ hR₁ hR₂]

/-- **C08, value objects (`CanonicalGraph`).** The hash of a `CanonicalGraph` is the signature
of its canonical graph (the back-end runs a second time, with some order `o'` on the canonical
graph).  Equal wrappers still wrap graphs that are isomorphic on the covered attributes, for
every back-end and all four orders involved. -/
theorem canonicalGraph_eq_sound {D : Type} [DecidableEq D] (digest : Ser → D) (hinj : Function.Injective digest)
    (G H : LGraph) (hG : G.WF) (hH : H.WF) (o₁ o₁' o₂ o₂' : List Nat)
    (hp₁ : o₁.Perm G.ids) (hp₂ : o₂.Perm H.ids)
    (hp₁' : o₁'.Perm (canonBy o₁ G).ids) (hp₂' : o₂'.Perm (canonBy o₂ H).ids)
    (h : canonicalGraphEq digest o₁ o₁' o₂ o₂' G H = true) :
    isoDecide covSel (cov G) (cov H) = true := by
  rw [isoDecide_iff covSel (cov G) (cov H) (cov_wf H hH)]
  rw [canonicalGraphEq_iff] at h
  have hs := hinj h
  have hG' := canonBy_wf o₁ G hG hp₁
  have hH' := canonBy_wf o₂ H hH hp₂
  have hmid := isoCov_of_ser_eq _ _ hG' hH' o₁' o₂' hp₁' hp₂' hs
  have hall := ((isoCov_canonBy_right o₁ G hG hp₁).trans hmid).trans (isoCov_canonBy_left o₂ H hH hp₂)
  exact ⟨_, isIso_of_isoCov G H hG hH _ hall⟩

/-! ## The property at full strength -/

/-- C08 for a canonicaliser `canon` (canonical graph) with pre-digest signature
`sig G = serialise (canon G)`: faithful; sound; and, when `exact`, invariant (same signature and
same canonical graph on the covered attributes for isomorphic inputs). -/
def FullStatement (canon : LGraph → LGraph) (exact : Bool) : Prop :=
  ∀ G : LGraph, G.WF →
    (∃ m, IsRelabelling G (canon G) m) ∧
    (∀ H : LGraph, H.WF → serialise (canon G) = serialise (canon H) → ∃ m, IsIso covSel (cov G) (cov H) m) ∧
    (exact = true → ∀ H : LGraph, H.WF → (∃ m, IsIso covSel (cov G) (cov H) m) →
      serialise (canon G) = serialise (canon H) ∧ covEq (canon G) (canon H) = true)

/-- The model satisfies the full statement: every back-end of the form `canonBy (order G) G`
with `order G` a permutation of the node ids (generic, WL, Morgan, and the repaired exact
search all have this form) satisfies the faithful and sound parts; the specification-level
exact form `canonBrute` satisfies all three.  That the *implementation's* exact back-end agrees
with `canonBrute` up to the choice of total order — i.e. that its signatures induce the same
kernel — is the correspondence obligation (kernel agreement against `isoDecide` / `sigBrute`). -/
theorem fullStatement_model :
    (∀ order : LGraph → List Nat, (∀ G, G.WF → (order G).Perm G.ids) →
      FullStatement (fun G => canonBy (order G) G) false) ∧
    FullStatement canonBrute true := by
  constructor
  · intro order hord G hG
    refine ⟨⟨_, (canonBy_faithful _ G hG (hord G hG)).1⟩, ?_, by simp⟩
    intro H hH h
    exact signature_sound G H hG hH _ _ (hord G hG) (hord H hH) h
  · intro G hG
    refine ⟨⟨_, (canonBrute_faithful G hG).1⟩, fun H hH h => canonBrute_sound G H hG hH h, ?_⟩
    intro _ H hH hiso
    have hs := canonBrute_invariant G H hG hH hiso
    refine ⟨hs, ?_⟩
    obtain ⟨h1, h2, h3⟩ := canonBrute_covEq G H hG hH hiso
    simp only [covEq, Bool.and_eq_true, List.all_eq_true, decide_eq_true_eq, List.contains_iff_mem]
    refine ⟨⟨⟨?_, ?_⟩, h2⟩, fun u _ v _ => h3 u v⟩
    · intro v hv; rw [← h1]; exact hv
    · intro v hv; rw [h1]; exact hv

/-! ## Non-vacuity -/

private def ex_c (e : String) : Attrs := [("element", .str e), ("atom_map", .num 14)]
/-- C–O–C on ids 7, 3, 5 (insertion order 7, 3, 5). -/
private def exG : LGraph :=
  { nodes := [(7, ex_c "C"), (3, ex_c "O"), (5, ex_c "C")]
    edges := [(7, 3, [("order", .num 2)]), (5, 3, [("order", .num 2)])] }
/-- The same molecule numbered and inserted differently. -/
private def exH : LGraph :=
  { nodes := [(2, ex_c "O"), (9, ex_c "C"), (4, ex_c "C")]
    edges := [(2, 4, [("order", .num 2)]), (9, 2, [("order", .num 2)])] }

example : exG.WF ∧ [3, 7, 5].Perm exG.ids ∧ (canonBy [3, 7, 5] exG).ids = [1, 2, 3] := by decide
example : checkRelabelling exG (canonBy [3, 7, 5] exG) [(7, 2), (3, 1), (5, 3)] = "ok" := by decide
example : serialise (canonBy [7, 5, 3] exG) = serialise (canonBy [4, 9, 2] exH) := by decide
example : serialise (canonBy [3, 7, 5] exG) ≠ serialise (canonBy [4, 9, 2] exH) := by decide
example : isoDecide covSel (cov exG) (cov exH) = true := by decide
example : sigBrute exG = sigBrute exH ∧ bruteOrder exG = [7, 5, 3] := by decide +kernel

/-! ## The exact back-end as implemented: the individualisation–refinement search

Model `SynKitModel/NautyIR.lean` (mirror of `synkit/Graph/Canon/nauty.py`); lemma files
`SynKitProofs/NautyIR{Order,Equiv,Search,Label,Wf,Fuel,Lemmas}.lean`.  Clause of C08: "With the exact
back-end the converse also holds: any two isomorphic graphs, however their nodes are numbered or
ordered, receive the same canonical graph and the same signature" — here for the search the
implementation runs (`irCanon`, `irCanonOrder`, `canonIR`), not for the specification-level
`canonBrute`.  Hypotheses: both graphs well formed, and `IRCovered`: every node carries element,
aromatic, charge, hcount and every edge carries order, standard_order (otherwise the real code
raises or separates absent from default: finding C08-N2). -/

/-- **C08, exact back-end, equivariance of refinement** (the chain the invariance rests on).
For graphs related by a node map `g : H → G` that preserves the covered attribute look-ups and
adjacency: the initial partitions correspond cell by cell; node signatures w.r.t. corresponding
partitions are equal; and `_refine` of corresponding partitions gives corresponding partitions
(cells correspond up to their order, which is the sorted order on each side). -/
theorem refine_equivariant (G H : LGraph) (hG : G.WF) (hH : H.WF) (g : Nat → Nat) (h : IRIso G H g) :
    PartRel g (irInitialPartition H) (irInitialPartition G) ∧
    (∀ P' P, PartRel g P' P → PartSub H.ids P' → ∀ p ∈ H.ids, irSig G P (g p) = irSig H P' p) ∧
    (∀ P' P, PartRel g P' P → PartSub H.ids P' → PartRel g (irRefine H P') (irRefine G P)) :=
  ⟨irInitialPartition_rel h, fun _ _ hP hs _ hp => irSig_rel hG hH h hP hs hp,
    fun _ _ hP hs => irRefine_rel hG hH h hP hs⟩

/-- **C08, exact back-end, the search trees correspond.** Under the same hypotheses the leaves
`(prefix, order)` of the search tree of `G` are exactly the images under `g` of the leaves of the
search tree of `H`, and corresponding leaves carry the same label. -/
theorem ir_leaves_equivariant (G H : LGraph) (hG : G.WF) (hH : H.WF) (g : Nat → Nat) (h : IRIso G H g) :
    (∀ l, l ∈ irRootLeaves G ↔ ∃ l' ∈ irRootLeaves H, l = (l'.1.map g, l'.2.map g)) ∧
    (∀ l' ∈ irRootLeaves H, irLeafLabel G (l'.1.map g, l'.2.map g) = irLeafLabel H l') := by
  have hrel := irLeaves_rel hG hH h (H.nodes.length + 1) (irInitialPartition_rel h) (irInitialPartition_sub H) []
  simp only [List.map_nil] at hrel
  unfold irRootLeaves
  rw [h.length_eq]
  refine ⟨hrel, ?_⟩
  intro b hb
  have hs := irLeaves_sub H H.ids _ _ [] (irInitialPartition_sub H) (by simp) b hb
  unfold irLeafLabel
  simp only
  rw [← List.map_append]
  apply irBuildLabel_rel h
  intro x hx
  rcases List.mem_append.1 hx with hx | hx
  · exact hs.1 hx
  · exact hs.2 hx

/-- **C08, exact back-end, the partial label is a lower bound.** Every leaf below a node of the
search tree with prefix `cp` has a label whose node segment starts with the node segment of `cp`;
therefore, when the pruning test `partial_label(cp) > best` fires, every such leaf has a label
strictly greater than `best` — pruning discards no leaf that could replace or tie the best one.
(For the concrete order; `irSearch_prune_eq_noprune` holds for every order with a sound test.) -/
theorem ir_label_lower_bound (G : LGraph) (fuel : Nat) (P : List (List Nat)) (cp : List Nat) :
    (∀ l ∈ irLeaves G fuel P cp, irNodeSeg G cp <+: (irLeafLabel G l).nodes) ∧
    (∀ best : IRLabel, irPartialGt (irNodeSeg G cp) best = true →
      ∀ l ∈ irLeaves G fuel P cp, IRLabel.lt best (irLeafLabel G l) = true) :=
  ⟨irLeafLabel_nodeSeg_prefix G fuel P cp,
    fun _ hb l hl => irPartialGt_sound _ _ _ (irLeafLabel_nodeSeg_prefix G fuel P cp l hl) hb⟩

/-- **C08, exact back-end, pruning is sound.** The search with the pruning test returns exactly
what the search without it returns (same label, same order), from every state, for every strict
total label order and every pruning test that is a lower-bound test; and that is the first leaf,
in visiting order, with the least label. -/
theorem ir_prune_sound (lt : IRLabel → IRLabel → Bool) (pgt : List (List Val) → IRLabel → Bool)
    (hlt : StrictTotal lt) (hp : IRPruneSound lt pgt) (G : LGraph) :
    (∀ fuel P pfx best, irSearch lt pgt true G fuel P pfx best = irSearch lt pgt false G fuel P pfx best) ∧
    (∀ prune, irCanonWith lt pgt prune G = irFoldLeaves lt G (irRootLeaves G) none) ∧
    IRPruneSound IRLabel.lt irPartialGt ∧ irCanon G = irCanonWith IRLabel.lt irPartialGt false G :=
  ⟨fun fuel P pfx best => irSearch_prune_eq_noprune lt pgt hlt hp G fuel P pfx best,
    fun prune => irCanonWith_eq_fold lt pgt hlt hp prune G, irPartialGt_sound, irCanon_eq_noprune G⟩

/-- **C08, exact back-end, the result is a leaf with the least label and a permutation.** On a
well-formed graph the search returns (it never ends with `perm = None`): the order is a
permutation of the node ids, it is the order of a leaf of the search tree, the label is the label
of that leaf, and no leaf has a smaller label. -/
theorem ir_result_spec (G : LGraph) (hG : G.WF) :
    ∃ pfx, irCanon G = some (irBuildLabel G (pfx ++ irCanonOrder G), irCanonOrder G) ∧
      (irCanonOrder G).Perm G.ids ∧ (pfx, irCanonOrder G) ∈ irRootLeaves G ∧
      ∀ l ∈ irRootLeaves G, IRLabel.lt (irLeafLabel G l) (irBuildLabel G (pfx ++ irCanonOrder G)) = false :=
  irCanon_spec G hG

/-- **C08, exact back-end, the model's fuel is adequate** (the model is total by fuel where the
code loops / recurses without bound): on a well-formed graph `_refine` ends in a partition that a
further pass leaves unchanged (the `while changed` loop has terminated), and any larger depth
bound gives the same search tree and the same result — no branch of the model's search is cut. -/
theorem ir_fuel_adequate (G : LGraph) (hG : G.WF) :
    (∀ P, IRPartOK G.ids P → irRefineStep G (irRefine G P) = irRefine G P) ∧
    (∀ d, irLeaves G (G.nodes.length + 1 + d) (irInitialPartition G) [] = irRootLeaves G) ∧
    (∀ d prune, irSearch IRLabel.lt irPartialGt prune G (G.nodes.length + 1 + d) (irInitialPartition G) [] none = irCanon G) := by
  refine ⟨fun P hP => irRefine_stable G P hP, fun d => irLeaves_root_fuel G hG.1 d, ?_⟩
  intro d prune
  rw [irCanonWith_fuel IRLabel.lt irPartialGt IRLabel.lt_strictTotal irPartialGt_sound prune G hG.1 d]
  cases prune
  · exact (irCanon_eq_noprune G).symm
  · rfl

/-- **C08, exact back-end is faithful** (instance of `canonBy_faithful` for the order the search
computes). -/
theorem canonIR_faithful (G : LGraph) (hw : G.WF) :
    IsRelabelling G (canonIR G) (G.ids.map fun v => (v, pos (irCanonOrder G) v)) ∧
    (canonIR G).ids = List.range' 1 G.nodes.length :=
  canonBy_faithful (irCanonOrder G) G hw (irCanonOrder_perm G hw)

/-- **C08, exact back-end: equal signatures ⇒ isomorphic.** -/
theorem canonIR_sound (G H : LGraph) (hG : G.WF) (hH : H.WF) (h : serialise (canonIR G) = serialise (canonIR H)) :
    ∃ m, IsIso covSel (cov G) (cov H) m :=
  signature_sound G H hG hH _ _ (irCanonOrder_perm G hG) (irCanonOrder_perm H hH) h

/-- **C08, exact back-end is invariant — search without pruning.** Two well-formed graphs
carrying the covered attributes that are isomorphic on them get the same minimum label and
canonical graphs with the same serialisation from the pruning-free search. -/
theorem ir_invariant_noprune (G H : LGraph) (hG : G.WF) (hH : H.WF) (cG : IRCovered G) (cH : IRCovered H)
    (h : ∃ m, IsIso covSel (cov G) (cov H) m) :
    ∃ L o o', irCanonWith IRLabel.lt irPartialGt false G = some (L, o) ∧
      irCanonWith IRLabel.lt irPartialGt false H = some (L, o') ∧
      serialise (canonBy o G) = serialise (canonBy o' H) := by
  obtain ⟨m, hm⟩ := h
  obtain ⟨L, o, o', e1, e2, _, _, hs⟩ := irCanonWith_invariant IRLabel.lt irPartialGt IRLabel.lt_strictTotal
    irPartialGt_sound false false G H hG hH cG cH (mapOf m) (isoCov_of_isIso G H hG hH m hm)
  exact ⟨L, o, o', e1, e2, hs⟩

/-- **C08, exact back-end is invariant** (the search as the code runs it, with pruning): any two
graphs that are isomorphic on the covered attributes — however their nodes are numbered, and in
whatever order nodes and edges were inserted — receive the same minimum label and the same
signature (pre-digest serialisation of the canonical graph). -/
theorem ir_invariant (G H : LGraph) (hG : G.WF) (hH : H.WF) (cG : IRCovered G) (cH : IRCovered H)
    (h : ∃ m, IsIso covSel (cov G) (cov H) m) :
    irCanonLabel G = irCanonLabel H ∧ serialise (canonIR G) = serialise (canonIR H) := by
  obtain ⟨m, hm⟩ := h
  exact irCanon_invariant G H hG hH cG cH (mapOf m) (isoCov_of_isIso G H hG hH m hm)

/-- **C08, exact back-end is invariant for every label order.** The same for every strict total
order on labels and every lower-bound pruning test, with or without pruning on either side — in
particular for the order Python's string comparison induces on the structured labels whenever
rendering a label to its string is injective. -/
theorem ir_invariant_anyOrder (lt : IRLabel → IRLabel → Bool) (pgt : List (List Val) → IRLabel → Bool)
    (hlt : StrictTotal lt) (hp : IRPruneSound lt pgt) (prune prune' : Bool)
    (G H : LGraph) (hG : G.WF) (hH : H.WF) (cG : IRCovered G) (cH : IRCovered H)
    (h : ∃ m, IsIso covSel (cov G) (cov H) m) :
    ∃ L o o', irCanonWith lt pgt prune G = some (L, o) ∧ irCanonWith lt pgt prune' H = some (L, o') ∧
      o.Perm G.ids ∧ o'.Perm H.ids ∧ serialise (canonBy o G) = serialise (canonBy o' H) := by
  obtain ⟨m, hm⟩ := h
  exact irCanonWith_invariant lt pgt hlt hp prune prune' G H hG hH cG cH (mapOf m) (isoCov_of_isIso G H hG hH m hm)

/-- … and the same canonical graph on the covered attributes (same node ids `1..N`, same node
keys, same adjacency with the same edge keys). -/
theorem canonIR_covEq (G H : LGraph) (hG : G.WF) (hH : H.WF) (cG : IRCovered G) (cH : IRCovered H)
    (h : ∃ m, IsIso covSel (cov G) (cov H) m) : covEq (canonIR G) (canonIR H) = true := by
  have hs := (ir_invariant G H hG hH cG cH h).2
  have hc := serialise_inj (canonIR G) (canonIR H)
    (canonBy_wf _ G hG (irCanonOrder_perm G hG)) (canonBy_wf _ H hH (irCanonOrder_perm H hH)) hs
  have h1 : (canonIR G).ids = (canonIR H).ids := by
    have hl := hc.1.length_eq
    rw [(canonIR_faithful G hG).2, (canonIR_faithful H hH).2] at hl ⊢
    simp only [List.length_range'] at hl
    rw [hl]
  simp only [covEq, Bool.and_eq_true, List.all_eq_true, decide_eq_true_eq, List.contains_iff_mem]
  refine ⟨⟨⟨?_, ?_⟩, hc.2.1⟩, fun u _ v _ => hc.2.2 u v⟩
  · intro v hv; rw [← h1]; exact hv
  · intro v hv; rw [h1]; exact hv

/-- **C08, value objects on the exact back-end.** With the search's order as back-end, wrappers
of graphs carrying the covered attributes compare equal exactly for isomorphic content. -/
theorem valueobject_ir_iff {D : Type} [DecidableEq D] (digest : Ser → D) (hinj : Function.Injective digest)
    (G H : LGraph) (hG : G.WF) (hH : H.WF) (cG : IRCovered G) (cH : IRCovered H) :
    synGraphEq digest (irCanonOrder G) (irCanonOrder H) G H = true ↔ isoDecide covSel (cov G) (cov H) = true := by
  rw [isoDecide_iff covSel (cov G) (cov H) (cov_wf H hH)]
  constructor
  · intro h
    have := (valueobject_eq_iff digest hinj G H hG hH _ _ (irCanonOrder_perm G hG) (irCanonOrder_perm H hH)).1.1 h
    exact canonIR_sound G H hG hH this
  · intro h
    have := (ir_invariant G H hG hH cG cH h).2
    rw [synGraphEq_iff]
    exact congrArg digest this

/-- C08 for a canonicaliser on a class `C` of graphs (the exact back-end is only defined — does
not raise — on graphs carrying the covered attributes). -/
def FullStatementOn (C : LGraph → Prop) (canon : LGraph → LGraph) : Prop :=
  ∀ G : LGraph, G.WF → C G →
    (∃ m, IsRelabelling G (canon G) m) ∧
    (∀ H : LGraph, H.WF → serialise (canon G) = serialise (canon H) → ∃ m, IsIso covSel (cov G) (cov H) m) ∧
    (∀ H : LGraph, H.WF → C H → (∃ m, IsIso covSel (cov G) (cov H) m) →
      serialise (canon G) = serialise (canon H) ∧ covEq (canon G) (canon H) = true)

/-- **C08 at full strength for the model of the implemented exact back-end**: faithful, sound and
invariant on the well-formed graphs that carry the covered attributes. -/
theorem fullStatement_ir : FullStatementOn IRCovered canonIR := by
  intro G hG cG
  refine ⟨⟨_, (canonIR_faithful G hG).1⟩, fun H hH h => canonIR_sound G H hG hH h, ?_⟩
  intro H hH cH hiso
  exact ⟨(ir_invariant G H hG hH cG cH hiso).2, canonIR_covEq G H hG hH cG cH hiso⟩

/-! ### The exact back-end with a depth cap (`canonical_form(…, max_depth=d)`)

`irSearchCapped` mirrors `_search` with its `depth` counter, the test `depth > max_depth` at the entry of
every call, the returned flag that ends every enclosing loop, and `best` as it stands at that moment;
`irCanonicalFormCappedWith` adds `canonical_form`'s `RuntimeError` when no leaf was reached.  The three
theorems hold for EVERY label comparison `lt` and EVERY pruning test `pgt` (no hypothesis on either), in
particular for Python's comparison of the rendered label strings, with or without pruning. -/

/-- `irDepth G` is the depth (number of individualisations = length of the prefix) of the deepest leaf of
the unpruned, uncapped search tree: no leaf is deeper, one leaf is that deep, and it is at most the number
of nodes. -/
theorem irDepth_spec (G : LGraph) (hG : G.WF) :
    (∀ l ∈ irRootLeaves G, l.1.length ≤ irDepth G) ∧ (∃ l ∈ irRootLeaves G, l.1.length = irDepth G) ∧
    irDepth G ≤ G.nodes.length :=
  ⟨(irDepth_le_iff G _).1 (Nat.le_refl _), irMaxDepth_attained _ (irLeaves_root_ne_nil G hG.1), irDepth_le_nodes G⟩

/-- **C08, exact back-end, `max_depth` (a): a cap at or above the deepest leaf is never reached.** If
`d` is at least the depth of the deepest leaf of the search tree — in particular if `d` is at least the
number of nodes — the capped search returns exactly what the uncapped search returns and
`early_stop = False`: `canonical_form(G, max_depth=d)` is `canonical_form(G)`. -/
theorem irCapped_full (lt : IRLabel → IRLabel → Bool) (pgt : List (List Val) → IRLabel → Bool) (prune : Bool)
    (G : LGraph) (hG : G.WF) (d : Nat) :
    (irDepth G ≤ d → irCanonCappedWith lt pgt prune G d = (irCanonWith lt pgt prune G, false)) ∧
    (G.nodes.length ≤ d → irCanonCappedWith lt pgt prune G d = (irCanonWith lt pgt prune G, false)) ∧
    (irDepth G ≤ d → irCanonicalFormCapped G d = .ok (canonIR G, irCanonOrder G, false)) := by
  refine ⟨fun h => irCanonCappedWith_full lt pgt prune G hG.1 d h,
    fun h => irCanonCappedWith_full lt pgt prune G hG.1 d (Nat.le_trans (irDepth_le_nodes G) h), ?_⟩
  intro h
  obtain ⟨pfx, e, _⟩ := irCanon_spec G hG
  have hc := irCanonCappedWith_full IRLabel.lt irPartialGt true G hG.1 d h
  unfold irCanonicalFormCapped irCanonicalFormCappedWith
  rw [hc]
  change irCanon G = _ at e
  rw [show irCanonWith IRLabel.lt irPartialGt true G = irCanon G from rfl, e]
  rfl

/-- **C08, exact back-end, `max_depth` (b): an answer with `early_stop = False` is the full answer.**
Whatever the cap, when the capped search returns without the flag, its `best` is the `best` of the uncapped
search; hence a `canonical_form(G, max_depth=d)` that reports `early_stop = False` has returned the
canonical graph and the permutation of `canonical_form(G)`.  No hypothesis on the graph. -/
theorem irCapped_flag_sound (lt : IRLabel → IRLabel → Bool) (pgt : List (List Val) → IRLabel → Bool) (prune : Bool)
    (G : LGraph) (d : Nat) :
    (∀ r, irCanonCappedWith lt pgt prune G d = (r, false) → r = irCanonWith lt pgt prune G) ∧
    (∀ cg o, irCanonicalFormCappedWith lt pgt prune G d = .ok (cg, o, false) →
      (∃ L, irCanonWith lt pgt prune G = some (L, o)) ∧ cg = canonBy o G) ∧
    (∀ cg o, irCanonicalFormCapped G d = .ok (cg, o, false) → o = irCanonOrder G ∧ cg = canonIR G) := by
  have h1 : ∀ r, irCanonCappedWith lt pgt prune G d = (r, false) → r = irCanonWith lt pgt prune G :=
    fun r h => irCanonCappedWith_flag_sound lt pgt prune G d r h
  have h2 : ∀ (lt : IRLabel → IRLabel → Bool) (pgt : List (List Val) → IRLabel → Bool) (prune : Bool) cg o,
      irCanonicalFormCappedWith lt pgt prune G d = .ok (cg, o, false) →
      (∃ L, irCanonWith lt pgt prune G = some (L, o)) ∧ cg = canonBy o G := by
    intro lt pgt prune cg o h
    unfold irCanonicalFormCappedWith at h
    cases hc : irCanonCappedWith lt pgt prune G d with
    | mk r f =>
      rw [hc] at h
      cases r with
      | none => simp at h
      | some b =>
        obtain ⟨L, o'⟩ := b
        simp only [Except.ok.injEq, Prod.mk.injEq] at h
        obtain ⟨rfl, rfl, rfl⟩ := h
        exact ⟨⟨L, (irCanonCappedWith_flag_sound lt pgt prune G d _ hc).symm⟩, rfl⟩
  refine ⟨h1, h2 lt pgt prune, ?_⟩
  intro cg o h
  obtain ⟨⟨L, e⟩, rfl⟩ := h2 IRLabel.lt irPartialGt true cg o h
  have eo : irCanonOrder G = o := by unfold irCanonOrder irCanon; rw [e]
  exact ⟨eo.symm, by unfold canonIR; rw [eo]⟩

/-- **C08, exact back-end, `max_depth` (c): what a capped search returns is a leaf; when it raises.**
On a well-formed graph every answer of `canonical_form(G, max_depth=d)` — flagged `early_stop` or not — is
built from a genuine leaf of the search tree that lies at depth `≤ d`: `best` is that leaf's label and
order, the order is a permutation of the node ids, and therefore (`canonBy_faithful`) the returned graph is
still the input relabelled by a bijection onto `1..N` with every attribute preserved.  The `RuntimeError`
("canonical form not found") arises exactly when the FIRST leaf of the tree in visiting order lies deeper
than `d` — the descent to the first leaf is never pruned and the first call beyond the cap ends the whole
search —, the flag is then up; in particular it arises when no leaf has depth `≤ d`.  (The converse of the
last statement fails: see the example `irX` below, where a leaf of depth 1 exists and `max_depth=1` raises.) -/
theorem irCapped_partial_is_leaf (lt : IRLabel → IRLabel → Bool) (pgt : List (List Val) → IRLabel → Bool) (prune : Bool)
    (G : LGraph) (hG : G.WF) (d : Nat) :
    (∀ cg o e, irCanonicalFormCappedWith lt pgt prune G d = .ok (cg, o, e) →
      (∃ l ∈ irRootLeaves G, l.1.length ≤ d ∧ o = l.2 ∧
        irCanonCappedWith lt pgt prune G d = (some (irLeafLabel G l, o), e)) ∧
      o.Perm G.ids ∧ cg = canonBy o G ∧
      IsRelabelling G cg (G.ids.map fun v => (v, pos o v)) ∧ cg.ids = List.range' 1 G.nodes.length) ∧
    (irCanonicalFormCappedWith lt pgt prune G d = .error .notFound ↔
      ∃ l rest, irRootLeaves G = l :: rest ∧ d < l.1.length) ∧
    (irCanonicalFormCappedWith lt pgt prune G d = .error .notFound →
      irCanonCappedWith lt pgt prune G d = (none, true)) ∧
    ((∀ l ∈ irRootLeaves G, d < l.1.length) → irCanonicalFormCappedWith lt pgt prune G d = .error .notFound) := by
  obtain ⟨hiff, hflag⟩ := irCanonCappedWith_none_iff lt pgt prune G hG.1 d
  have herr : irCanonicalFormCappedWith lt pgt prune G d = .error .notFound ↔
      (irCanonCappedWith lt pgt prune G d).1 = none := by
    unfold irCanonicalFormCappedWith
    cases hc : irCanonCappedWith lt pgt prune G d with
    | mk r f =>
      cases r with
      | none => simp
      | some b => obtain ⟨L, o⟩ := b; simp
  refine ⟨?_, herr.trans hiff, fun h => hflag (herr.1 h), ?_⟩
  · intro cg o e h
    unfold irCanonicalFormCappedWith at h
    cases hc : irCanonCappedWith lt pgt prune G d with
    | mk r f =>
      rw [hc] at h
      cases r with
      | none => simp at h
      | some b =>
        obtain ⟨L, o'⟩ := b
        simp only [Except.ok.injEq, Prod.mk.injEq] at h
        obtain ⟨rfl, rfl, rfl⟩ := h
        obtain ⟨l, hl, hd, rfl, rfl⟩ := irCanonCappedWith_leaf lt pgt prune G d L o' (by rw [hc])
        have hp := irLeaves_root_perm G hG.1 l hl
        obtain ⟨hr, hids⟩ := canonBy_faithful l.2 G hG hp
        exact ⟨⟨l, hl, hd, rfl, rfl⟩, hp, rfl, hr, hids⟩
  · intro hall
    apply (herr.trans hiff).2
    cases hL : irRootLeaves G with
    | nil => exact absurd hL (irLeaves_root_ne_nil G hG.1)
    | cons l rest => exact ⟨l, rest, rfl, hall l (by rw [hL]; exact List.mem_cons_self)⟩

/-! ### Non-vacuity (exact back-end) -/

private def ir_a (e : String) (h : Int) : Attrs :=
  [("element", .str e), ("aromatic", .bool false), ("charge", .num 0), ("hcount", .num h)]
private def ir_e (o : Int) : Attrs := [("order", .num o), ("standard_order", .num 0)]
/-- A four-ring C–C–C–N with one double bond, ids 7, 3, 5, 9. -/
private def irG : LGraph :=
  { nodes := [(7, ir_a "C" 4), (3, ir_a "C" 4), (5, ir_a "C" 2), (9, ir_a "N" 2)]
    edges := [(7, 3, ir_e 2), (3, 5, ir_e 2), (5, 9, ir_e 4), (9, 7, ir_e 2)] }
/-- The same ring numbered and inserted differently (7↦2, 3↦8, 5↦4, 9↦1). -/
private def irH : LGraph :=
  { nodes := [(1, ir_a "N" 2), (4, ir_a "C" 2), (8, ir_a "C" 4), (2, ir_a "C" 4)]
    edges := [(4, 1, ir_e 4), (2, 1, ir_e 2), (8, 4, ir_e 2), (8, 2, ir_e 2)] }
/-- A symmetric graph: the 4-cycle of identical atoms (8 leaves in the search tree). -/
private def irC4 : LGraph :=
  { nodes := [(1, ir_a "C" 4), (2, ir_a "C" 4), (3, ir_a "C" 4), (4, ir_a "C" 4)]
    edges := [(1, 2, ir_e 2), (2, 3, ir_e 2), (3, 4, ir_e 2), (4, 1, ir_e 2)] }
/-- A path of four identical atoms (two leaves, one per end). -/
private def irP : LGraph :=
  { nodes := [(1, ir_a "C" 0), (2, ir_a "C" 0), (3, ir_a "C" 0), (4, ir_a "C" 0)]
    edges := [(1, 2, ir_e 2), (2, 3, ir_e 2), (3, 4, ir_e 2)] }

example : irG.WF ∧ irH.WF ∧ IRCovered irG ∧ IRCovered irH := by decide
example : isoDecide covSel (cov irG) (cov irH) = true := by decide
example : irInitialPartition irG = [[5], [3, 7], [9]] ∧ irRefine irG (irInitialPartition irG) = [[5], [7], [3], [9]] := by
  decide +kernel
example : irCanonOrder irG = [5, 7, 3, 9] ∧ irCanonOrder irH = [4, 2, 8, 1] := by decide +kernel
example : irCanonLabel irG = irCanonLabel irH ∧ serialise (canonIR irG) = serialise (canonIR irH) := by decide +kernel
example : (irRootLeaves irC4).length = 8 ∧ irCanonOrder irC4 = [1, 3, 2, 4] := by decide +kernel
example : irRootLeaves irP = [([1], [1, 4, 3, 2]), ([4], [4, 1, 2, 3])] ∧ irCanonOrder irP = [1, 4, 3, 2] := by decide +kernel
/-- the pruning test can fire: a prefix starting at the nitrogen against the best label of `irG` -/
example : irPartialGt (irNodeSeg irG [9]) (irBuildLabel irG [5, 7, 3, 9]) = true := by decide +kernel

/-! ### Non-vacuity (`max_depth`) -/

/-- A cubic graph on 8 identical atoms whose refined partition is one cell holding several orbits: the
leaves of its search tree lie at depths 1 and 2, and the first leaf (prefix `[1, 2]`) is a deep one. -/
private def irX : LGraph :=
  { nodes := [(1, ir_a "C" 0), (2, ir_a "C" 0), (3, ir_a "C" 0), (4, ir_a "C" 0), (5, ir_a "C" 0), (6, ir_a "C" 0),
      (7, ir_a "C" 0), (8, ir_a "C" 0)]
    edges := [(1, 4, ir_e 2), (1, 5, ir_e 2), (1, 8, ir_e 2), (2, 3, ir_e 2), (2, 4, ir_e 2), (2, 7, ir_e 2),
      (3, 5, ir_e 2), (3, 6, ir_e 2), (4, 7, ir_e 2), (5, 8, ir_e 2), (6, 7, ir_e 2), (6, 8, ir_e 2)] }
/-- The same graph with the names 1 and 2 exchanged: now the first leaf (prefix `[1]`) is a shallow one. -/
private def irY : LGraph :=
  { nodes := irX.nodes
    edges := [(2, 4, ir_e 2), (2, 5, ir_e 2), (2, 8, ir_e 2), (1, 3, ir_e 2), (1, 4, ir_e 2), (1, 7, ir_e 2),
      (3, 5, ir_e 2), (3, 6, ir_e 2), (4, 7, ir_e 2), (5, 8, ir_e 2), (6, 7, ir_e 2), (6, 8, ir_e 2)] }

example : irX.WF ∧ irY.WF ∧ IRCovered irX ∧ IRCovered irY := by decide
/-- (a) the 4-cycle: every leaf at depth 2; `max_depth=2` is the full search, `max_depth=1` reaches no leaf -/
example : irDepth irC4 = 2 ∧ irCanonCapped irC4 2 = (irCanon irC4, false) ∧ irCanonCapped irC4 1 = (none, true) ∧
    irCanonicalFormCapped irC4 1 = .error .notFound := by decide +kernel
/-- leaves at different depths; the first one is deep -/
example : (irRootLeaves irX).map (·.1) = [[1, 2], [1, 7], [2], [3, 7], [3, 8], [4, 5], [4, 8], [5], [6, 2], [6, 5], [7], [8]] ∧
    irDepth irX = 2 := by decide +kernel
/-- (c) the error case is decided by the FIRST leaf: `max_depth=1` raises on `irX` although leaves of depth 1 exist -/
example : irCanonicalFormCapped irX 1 = .error .notFound ∧ irCanonCapped irX 1 = (none, true) ∧
    (∃ l ∈ irRootLeaves irX, l.1.length ≤ 1) := by decide +kernel
/-- (b), (c) an early stop WITH an answer: on `irY` `max_depth=1` visits the shallow first leaf, then stops at the
first call of depth 2; the answer is that leaf and is flagged; `max_depth=0` raises; `max_depth=2` is the full search -/
example : irCanonCapped irY 1 = (some (irLeafLabel irY ([1], [1, 6, 5, 2, 8, 4, 7, 3]), [1, 6, 5, 2, 8, 4, 7, 3]), true) ∧
    ([1], [1, 6, 5, 2, 8, 4, 7, 3]) ∈ irRootLeaves irY ∧
    irCanonCapped irY 0 = (none, true) ∧ irCanonCapped irY 2 = (irCanon irY, false) := by decide +kernel

end SynKit.Canon

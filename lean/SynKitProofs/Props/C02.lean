import SynKitModel.ITS
import SynKitProofs.ITSLemmas
import SynKitProofs.ITSFreeLemmas
/-!
# C02 — the reaction centre is exactly the set of changed bonds; the context grows monotonically

Property theorems only (helper lemmas: `SynKitProofs/ITSLemmas.lean`).  They are about the model
`SynKit.ITS.getRc` (of `get_rc` with its default options: `disconnected=False`, `keep_mtg=False`,
keys `element, charge, typesGH, atom_map`), `expand` (`find_nearest_neighbors`) and `extractK`
(`RadiusExpand.extract_k`, radii ≥ 0), `extractFreeAdj` / `extractFree` (`extract_k(its, -1)`, the free-radius mode with
`longest_radius_extension`) and `unequalOrderEdges` (`find_unequal_order_edges`).  `WFits I` is an ITS graph as `ITSConstruction.construct`
builds it (simple graph, `typesGH` on every atom, `order` pair and `standard_order` = difference).
-/
namespace SynKit.ITS
open SynKit

/-- **C02, "contains a bond iff its order differs (H–H bonds always kept)"**, as the code decides it:
the centre has an edge on `{u, v}` exactly when the ITS has one whose `standard_order` is a
non-zero number or whose two ends are hydrogens.  Needs only a simple graph; covers ITS edges
without (or with a non-numeric) `standard_order` — the `isinstance` guard: they are *not* changed. -/
theorem mem_rc_edge_iff_std (I : LGraph) (hI : I.WF) (u v : Nat) :
    (getRc {} I).hasEdge u v = true ↔
      ∃ a, I.edge? u v = some a ∧ (stdNonzero (a.get "standard_order") = true ∨ isHH I u v = true) := by
  rw [getRc_hasEdge {} rfl]
  constructor
  · rintro ⟨e, he, hs, hadj⟩
    refine ⟨e.2.2, edge?_of_mem hI he hadj, ?_⟩
    rcases hs with h | h
    · rw [includeEdge_default] at h; exact Or.inl h
    · rw [isHH_of_adj hadj] at h; exact Or.inr h
  · rintro ⟨a, ha, hs⟩
    obtain ⟨e, he, hadj, rfl⟩ := edge?_some_mem ha
    refine ⟨e, he, ?_, hadj⟩
    rcases hs with h | h
    · exact Or.inl (by rw [includeEdge_default]; exact h)
    · exact Or.inr (by rw [isHH_of_adj hadj]; exact h)

/-- **C02, first clause at full strength** on a well-formed ITS: `e ∈ rc.edges ↔ e ∈ I.edges ∧
(o₁ ≠ o₂ ∨ both ends hydrogen)`. -/
theorem mem_rc_edge_iff (I : LGraph) (hI : WFits I) (u v : Nat) :
    (getRc {} I).hasEdge u v = true ↔
      ∃ a, I.edge? u v = some a ∧ (changed a ∨ isHH I u v = true) := by
  rw [mem_rc_edge_iff_std I hI.1]
  constructor
  · rintro ⟨a, ha, h⟩
    obtain ⟨e, he, _, rfl⟩ := edge?_some_mem ha
    obtain ⟨x, y, ho, hs⟩ := hI.2.2 e he
    exact ⟨e.2.2, ha, h.imp (stdNonzero_iff_changed ho hs).1 id⟩
  · rintro ⟨a, ha, h⟩
    obtain ⟨e, he, _, rfl⟩ := edge?_some_mem ha
    obtain ⟨x, y, ho, hs⟩ := hI.2.2 e he
    exact ⟨e.2.2, ha, h.imp (stdNonzero_iff_changed ho hs).2 id⟩

/-- **C02, bonds of the centre keep their ITS labels**: `order` pair and `standard_order` of a centre
bond are those of the ITS bond on the same atoms. -/
theorem rc_edge_labels (I : LGraph) (hI : I.WF) (u v : Nat) (a' : Attrs)
    (h : (getRc {} I).edge? u v = some a') :
    ∃ a, I.edge? u v = some a ∧ a'.get "order" = a.get "order" ∧
      a'.get "standard_order" = a.get "standard_order" := getRc_edge_labels hI u v a' h

/-- **C02, "contains exactly the atoms incident to those bonds"** (any input graph). -/
theorem rc_nodes_eq_endpoints (I : LGraph) (n : Nat) :
    n ∈ (getRc {} I).ids ↔ ∃ v, (getRc {} I).hasEdge n v = true := by
  rw [getRc_ids {} rfl]
  constructor
  · rintro ⟨e, he, hs, h | h⟩
    · exact ⟨e.2.1, (getRc_hasEdge {} rfl I n e.2.1).2 ⟨e, he, hs, Or.inl ⟨h.symm, rfl⟩⟩⟩
    · exact ⟨e.1, (getRc_hasEdge {} rfl I n e.1).2 ⟨e, he, hs, Or.inr ⟨rfl, h.symm⟩⟩⟩
  · rintro ⟨v, hv⟩
    obtain ⟨e, he, hs, hadj⟩ := (getRc_hasEdge {} rfl I n v).1 hv
    refine ⟨e, he, hs, ?_⟩
    rcases hadj with ⟨a, _⟩ | ⟨_, b⟩
    · exact Or.inl a.symm
    · exact Or.inr b.symm

/-- **C02, "… with their ITS labels"**: every centre atom carries the ITS atom's `element`, `charge`,
`typesGH`, `atom_map` (DESIGN §5a reading of "ITS labels"). -/
theorem rc_labels (I : LGraph) (hI : WFits I) (n : Nat) (hn : n ∈ (getRc {} I).ids)
    (k : String) (hk : k ∈ rcKeys) : ((getRc {} I).attrs n).get k = (I.attrs n).get k :=
  getRc_label {} rfl I n hn k (mem_rcKeys_elementKey hk)
    (Or.inr (hI.2.1 n (getRc_ids_sub hI.1 {} rfl n hn)))

/-- **C02, "the radius-k context is exactly the set of atoms within k bonds"**, for the expansion
routine: `k` rounds of neighbour union reach exactly the nodes at walk distance ≤ `k` from a seed. -/
theorem expand_iff_dist (I : LGraph) (S : List Nat) (k n : Nat) :
    n ∈ expand I S k ↔ ∃ s ∈ S, DistLE I s k n := mem_expand_iff I S k n

/-- **C02, "centre = context(0)"**. -/
theorem extractK_zero (I : LGraph) : extractK I 0 = getRc {} I := rfl

/-- **C02, context = distance ball**, for `extract_k` itself (radius ≥ 1; radius 0 is `extractK_zero`). -/
theorem mem_extractK_iff_dist (I : LGraph) (hI : I.WF) (k n : Nat) :
    n ∈ (extractK I (k + 1)).ids ↔ ∃ s ∈ (getRc {} I).ids, DistLE I s (k + 1) n := by
  show n ∈ (induced I (expand I (getRc {} I).ids (k + 1))).ids ↔ _
  rw [mem_ids_induced, mem_expand_iff]
  constructor
  · exact fun h => h.2
  · rintro ⟨s, hs, hd⟩
    exact ⟨hd.mem_ids hI (getRc_ids_sub hI {} rfl s hs), s, hs, hd⟩

/-- **C02, monotone chain** `centre = K₀ ⊑ K₁ ⊑ K₂ ⊑ … ⊑ ITS` as sub-graphs (`Sub`: atoms, bonds,
centre labels, bond orders), for every radius. -/
theorem context_chain (I : LGraph) (hI : WFits I) (k : Nat) :
    Sub (extractK I 0) (extractK I (k + 1)) ∧ Sub (extractK I (k + 1)) (extractK I (k + 2)) ∧
      Sub (extractK I (k + 1)) I := by
  refine ⟨?_, ?_, ?_⟩
  · show Sub (getRc {} I) (induced I (expand I (getRc {} I).ids (k + 1)))
    apply getRc_sub_induced hI
    intro n hn
    exact (mem_expand_iff I _ (k + 1) n).2 ⟨n, hn, DistLE.refl _⟩
  · show Sub (induced I (expand I (getRc {} I).ids (k + 1))) (induced I (expand I (getRc {} I).ids (k + 2)))
    exact induced_sub_induced hI.1 _ _ (fun n hn => expand_mono I _ (k + 1) n hn)
  · exact induced_sub hI.1 _

/-- **C02, "extracting the centre of a centre changes nothing"**: `RcEq` = same atoms with the same
centre labels, same bonds with the same `order` / `standard_order` (list order aside). -/
theorem getRc_idem (I : LGraph) (hI : WFits I) : RcEq (getRc {} (getRc {} I)) (getRc {} I) :=
  getRc_idem' I hI

/-- **C02, "renumbering the atom maps yields an isomorphic centre"**: `get_rc` commutes with every
injective renumbering `π` of the atoms — literally, for every option setting — so the centre of the
renumbered ITS is the `π`-image of the centre (hence isomorphic to it via `π`). -/
theorem getRc_relabel (o : RcOpts) (I : LGraph) (π : Nat → Nat) (hπ : Function.Injective π) :
    getRc o (I.relabel π) = (getRc o I).relabel π := getRc_relabel' hπ o I

/-! ## Large radii, the free-radius mode `extract_k(its, -1)`, `find_unequal_order_edges` -/

/-- **C02, the context stops growing**: on a simple graph every radius `k ≥ |V|` gives the very same
context as radius `|V|`, and its atoms are exactly the atoms connected to a centre atom (a walk of any
length `d`, in the sense of `mem_extractK_iff_dist`). -/
theorem extractK_stabilises (I : LGraph) (hI : I.WF) (k : Nat) (hk : I.nodes.length ≤ k) :
    extractK I k = extractK I I.nodes.length ∧
    ∀ n, n ∈ (extractK I I.nodes.length).ids ↔ ∃ s ∈ (getRc {} I).ids, ∃ d, DistLE I s d n := by
  refine ⟨extractK_eq_of_ge hI hk, fun n => ?_⟩
  rw [mem_extractK_card_iff hI]
  constructor
  · rintro ⟨d, s, hs, hd⟩; exact ⟨s, hs, d, hd⟩
  · rintro ⟨s, hs, d, hd⟩; exact ⟨d, s, hs, hd⟩

/-- **Free-radius mode, as coded** (any graph, any NetworkX adjacency order `adj`): `extract_k(its, -1)`
is the radius-`r` context for `r` = the number of atoms of the path `longest_radius_extension` returns;
`r = 0` exactly when the centre is empty (then the result is the empty graph), otherwise `1 ≤ r ≤ |V|`;
the result contains every centre atom. -/
theorem extractFree_radius (I : LGraph) (hI : I.WF) (adj : Nat → List Nat) :
    extractFreeAdj adj I = extractK I (freeRadiusAdj adj I) ∧
    ((getRc {} I).ids = [] → freeRadiusAdj adj I = 0 ∧ extractFreeAdj adj I = {}) ∧
    ((getRc {} I).ids ≠ [] → 1 ≤ freeRadiusAdj adj I) ∧
    freeRadiusAdj adj I ≤ I.nodes.length ∧
    (∀ n ∈ (getRc {} I).ids, n ∈ (extractFreeAdj adj I).ids) := by
  refine ⟨extractFreeAdj_eq_extractK adj I, fun h => ⟨freeRadius_zero adj I h, extractFreeAdj_of_nil adj h⟩,
    freeRadius_pos adj I, freeRadius_le hI adj, ?_⟩
  intro n hn
  exact (mem_ids_induced I _ n).2 ⟨getRc_ids_sub hI {} rfl n hn, (mem_expand_iff I _ _ n).2 ⟨n, hn, DistLE.refl _⟩⟩

/-- **Free-radius mode = the connected component(s) of the centre.**  On a simple graph in which every
bond is either changed (`standard_order` a non-zero number) or crossable by the search
(`standard_order == 0`) — `StdTotal`, in particular on every well-formed ITS — and for every adjacency
order `adj` that lists all neighbours: the radius the code picks exceeds the distance of every atom
connected to the centre, so `extract_k(its, -1)` is the stabilised context of `extractK_stabilises`
(the same graph, whatever the tie-breaks of the search), whose atoms are exactly the atoms connected to
a centre atom.  Without `StdTotal` this fails (example `C02Example.J` below). -/
theorem extractFree_spec (I : LGraph) (hI : I.WF) (hz : StdTotal I) (adj : Nat → List Nat)
    (hadj : ∀ u v, I.hasEdge u v = true → v ∈ adj u) :
    extractFreeAdj adj I = extractK I I.nodes.length ∧
    (∀ n, n ∈ (extractFreeAdj adj I).ids ↔ ∃ s ∈ (getRc {} I).ids, ∃ d, DistLE I s d n) ∧
    (∀ s ∈ (getRc {} I).ids, ∀ d n, DistLE I s d n → ∃ s' ∈ (getRc {} I).ids, DistLE I s' (freeRadiusAdj adj I - 1) n) := by
  have h1 := extractFreeAdj_eq_card hI hz hadj
  refine ⟨h1, fun n => ?_, ?_⟩
  · rw [h1]; exact (extractK_stabilises I hI _ (Nat.le_refl _)).2 n
  · intro s hs d n hd
    obtain ⟨d', hd'⟩ := exists_lvl (I := I) (S := (getRc {} I).ids) ⟨d, s, hs, hd⟩
    have := freeRadius_gt_lvl hI hz hadj hd'
    exact hd'.1.mono (by omega)

/-- `extractFree_spec` for a well-formed ITS and the adjacency order of the edge list; the centre is a
sub-graph of the result (atoms, bonds, labels). -/
theorem extractFree_spec_wfits (I : LGraph) (hI : WFits I) :
    extractFree I = extractK I I.nodes.length ∧
    (∀ n, n ∈ (extractFree I).ids ↔ ∃ s ∈ (getRc {} I).ids, ∃ d, DistLE I s d n) ∧
    Sub (getRc {} I) (extractFree I) := by
  obtain ⟨h1, h2, _⟩ := extractFree_spec I hI.1 (StdTotal_of_WFits hI) I.neighbors (neighbors_complete I)
  refine ⟨h1, h2, ?_⟩
  apply getRc_sub_induced hI
  intro n hn
  exact (mem_expand_iff I _ _ n).2 ⟨n, hn, DistLE.refl _⟩

/-- **Free-radius mode, centre = whole graph**: the result is the ITS itself (any adjacency order). -/
theorem extractFree_whole (I : LGraph) (hI : I.WF) (adj : Nat → List Nat)
    (hall : ∀ n ∈ I.ids, n ∈ (getRc {} I).ids) : extractFreeAdj adj I = I := extractFreeAdj_whole hI adj hall

/-- **The recursion bound of the model is not a restriction**: with `|V|` units of fuel the search
`dfs` of `longest_radius_extension` returns what it returns with any larger bound. -/
theorem dfsLongest_enough_fuel (I : LGraph) (hI : I.WF) (adj : Nat → List Nat) (c : Nat) (vis : List Nat)
    (hc : c ∈ I.ids) (hv : c ∉ vis) (k : Nat) :
    dfsLongest (freeSteps I adj) (I.nodes.length + k) c vis [c] =
      dfsLongest (freeSteps I adj) I.nodes.length c vis [c] := dfsLongest_fuel_stable hI adj c vis hc hv k

/-- **`find_unequal_order_edges`**: (1) as coded, on any graph: the end points of the bonds that pass the
code's test (`order` a tuple whose two entries differ and `standard_order != 0`); (2) on a well-formed
ITS (`standard_order` = difference of the order pair): exactly the atoms of the bonds whose two orders
differ; (3) the atoms of the centre `get_rc` are these atoms plus the hydrogens of the H–H bonds. -/
theorem unequalOrderEdges_spec (I : LGraph) :
    (∀ n, n ∈ unequalOrderEdges I ↔ ∃ e ∈ I.edges, unequalEdge e.2.2 = true ∧ (n = e.1 ∨ n = e.2.1)) ∧
    (WFits I → ∀ n, n ∈ unequalOrderEdges I ↔ ∃ v a, I.edge? n v = some a ∧ changed a) ∧
    (WFits I → ∀ n, n ∈ (getRc {} I).ids ↔
        n ∈ unequalOrderEdges I ∨ ∃ v, I.hasEdge n v = true ∧ isHH I n v = true) :=
  ⟨mem_unequalOrderEdges_iff I, fun h => unequalOrderEdges_iff_changed h, fun h => getRc_ids_iff_unequal h⟩

/-- The property at full strength over the model (Appendix A of DESIGN.md), assembled. -/
def C02.FullStatement : Prop :=
  ∀ I : LGraph, WFits I →
    let R := getRc {} I
    (∀ u v, R.hasEdge u v = true ↔ ∃ a, I.edge? u v = some a ∧ (changed a ∨ isHH I u v = true)) ∧
    (∀ u v a', R.edge? u v = some a' → ∃ a, I.edge? u v = some a ∧ a'.get "order" = a.get "order" ∧
        a'.get "standard_order" = a.get "standard_order") ∧
    (∀ n, n ∈ R.ids ↔ ∃ v, R.hasEdge n v = true) ∧
    (∀ n ∈ R.ids, ∀ k ∈ rcKeys, (R.attrs n).get k = (I.attrs n).get k) ∧
    RcEq (getRc {} R) R ∧
    (∀ π : Nat → Nat, Function.Injective π → getRc {} (I.relabel π) = R.relabel π) ∧
    (∀ k n, n ∈ (extractK I (k + 1)).ids ↔ ∃ s ∈ R.ids, DistLE I s (k + 1) n) ∧
    extractK I 0 = R ∧
    (∀ k, Sub R (extractK I (k + 1)) ∧ Sub (extractK I (k + 1)) (extractK I (k + 2)) ∧ Sub (extractK I (k + 1)) I)

theorem C02.fullStatement_holds : C02.FullStatement := fun I hI =>
  ⟨mem_rc_edge_iff I hI, rc_edge_labels I hI.1, rc_nodes_eq_endpoints I, rc_labels I hI, getRc_idem I hI,
    fun π hπ => getRc_relabel {} I π hπ, mem_extractK_iff_dist I hI.1, rfl, context_chain I hI⟩

/-! ## Non-vacuity: an esterification-like ITS
`C1(=O2)(O3 H) + O4(H6)–C5  →  C1(=O2)–O4–C5 + O3 H2`: bond 1–3 broken, 1–4 formed, explicit H6
moves from O4 to O3; 7 is a spectator carbon on C5, 8–9 an unchanged H–H bond. -/
namespace C02Example

def nd (el : String) (n : Nat) : Nat × Attrs :=
  (n, [("element", .str el), ("charge", .num 0), ("atom_map", .num (2 * (n : Int))),
       ("typesGH", .tup [.tup [.str el, .bool false, .num 0, .num 0, .tup []],
                         .tup [.str el, .bool false, .num 0, .num 0, .tup []]])])

def ed (u v : Nat) (a b : Int) : Nat × Nat × Attrs :=
  (u, v, [("order", .tup [.num a, .num b]), ("standard_order", .num (a - b))])

def I : LGraph :=
  { nodes := [nd "C" 1, nd "O" 2, nd "O" 3, nd "O" 4, nd "C" 5, nd "H" 6, nd "C" 7, nd "H" 8, nd "H" 9]
    edges := [ed 1 2 4 4, ed 1 3 2 0, ed 1 4 0 2, ed 4 5 2 2, ed 4 6 2 0, ed 3 6 0 2, ed 5 7 2 2, ed 8 9 2 2] }

example : I.WF := by decide

example : WFits I :=
  ⟨by decide, by decide, fun e he => by
    simp only [I, List.mem_cons, List.not_mem_nil, or_false] at he
    rcases he with rfl | rfl | rfl | rfl | rfl | rfl | rfl | rfl
    · exact ⟨4, 4, rfl, rfl⟩
    · exact ⟨2, 0, rfl, rfl⟩
    · exact ⟨0, 2, rfl, rfl⟩
    · exact ⟨2, 2, rfl, rfl⟩
    · exact ⟨2, 0, rfl, rfl⟩
    · exact ⟨0, 2, rfl, rfl⟩
    · exact ⟨2, 2, rfl, rfl⟩
    · exact ⟨2, 2, rfl, rfl⟩⟩

/-- The centre: the four changed bonds and the unchanged H–H bond; the C=O and C–C bonds are not in it. -/
example : (getRc {} I).edges.map (fun e => (e.1, e.2.1)) = [(1, 3), (1, 4), (4, 6), (3, 6), (8, 9)] := by decide
example : (getRc {} I).ids = [1, 3, 4, 6, 8, 9] := by decide
example : (getRc {} (getRc {} I)).ids = [1, 3, 4, 6, 8, 9] := by decide
/-- Contexts grow strictly: radius 1 adds O2 and C5, radius 2 adds C7, then the whole ITS. -/
example : (extractK I 1).ids = [1, 2, 3, 4, 5, 6, 8, 9] := by decide
example : (extractK I 2).ids = [1, 2, 3, 4, 5, 6, 7, 8, 9] := by decide
example : (extractK I 1).edges.length = 7 := by decide
/-- An edge without `standard_order` is not a changed bond (the `isinstance` guard). -/
example : (getRc {} { nodes := [nd "C" 1, nd "O" 2], edges := [(1, 2, [("order", .tup [.num 2, .num 0])])] }).edges = [] := by
  decide
/-- Renumbering instance. -/
example : getRc {} (I.relabel (· * 3 + 1)) = (getRc {} I).relabel (· * 3 + 1) := by decide

/-- Free-radius mode on the esterification ITS: every bond is changed or crossable, the code picks the
radius 3 (path 4–5–7), the result is the whole ITS = the stabilised context. -/
example : StdTotal I := by decide
example : freeRadius I = 3 := by decide
example : (extractFree I).ids = [1, 2, 3, 4, 5, 6, 7, 8, 9] := by decide
example : extractFree I = extractK I I.nodes.length := by decide
/-- `find_unequal_order_edges`: the atoms of the four changed bonds; the centre has the H–H pair 8, 9 on top. -/
example : unequalOrderEdges I = [1, 3, 4, 6] := by decide
example : unequalDefined I = true := by decide

/-- `StdTotal` is needed in `extractFree_spec`: bond 2–3 carries no `standard_order`, the search cannot
cross it, the code picks radius 1 and returns atoms 1–3 although 4 and 5 are connected to the centre. -/
def J : LGraph :=
  { nodes := [nd "C" 1, nd "O" 2, nd "C" 3, nd "C" 4, nd "C" 5]
    edges := [ed 1 2 2 0, (2, 3, [("order", .tup [.num 2, .num 2])]), ed 3 4 2 2, ed 4 5 2 2] }

example : J.WF ∧ ¬ StdTotal J := by decide
example : freeRadius J = 1 ∧ (extractFree J).ids = [1, 2, 3] ∧ (extractK J J.nodes.length).ids = [1, 2, 3, 4, 5] := by decide

/-- The radius depends on the adjacency order (ties of the search feed `visited_overall`): 6 with the
edge-list order, 5 with the reversed one — the returned context is the same (`extractFree_spec`). -/
def T : LGraph :=
  { nodes := [nd "C" 1, nd "C" 2, nd "C" 3, nd "C" 4, nd "C" 5, nd "C" 6, nd "C" 7, nd "C" 8, nd "C" 9, nd "C" 10, nd "C" 11]
    edges := [ed 1 2 2 0, ed 1 3 2 2, ed 3 4 2 2, ed 4 5 2 2, ed 5 6 2 2, ed 1 9 2 2, ed 9 8 2 2, ed 8 7 2 2, ed 7 2 2 2,
              ed 9 10 2 2, ed 10 11 2 2] }

example : freeRadius T = 6 ∧ freeRadiusAdj (fun v => (T.neighbors v).reverse) T = 5 := by decide
example : (extractFreeAdj (fun v => (T.neighbors v).reverse) T).ids = (extractFree T).ids ∧ (extractFree T).ids = T.ids := by decide
/-- Degenerate cases: an empty centre gives the empty graph; a centre on every atom gives the ITS back. -/
example : extractFree { nodes := [nd "C" 1, nd "O" 2], edges := [ed 1 2 2 2] } = {} := by decide
example : extractFree { nodes := [nd "C" 1, nd "O" 2], edges := [ed 1 2 2 0] } =
    { nodes := [nd "C" 1, nd "O" 2], edges := [ed 1 2 2 0] } := by decide

end C02Example

end SynKit.ITS

import SynKitModel.ITS
import SynKitProofs.ITSLemmas
/-!
# C02 — the reaction centre is exactly the set of changed bonds; the context grows monotonically

Property theorems only (helper lemmas: `SynKitProofs/ITSLemmas.lean`).  They are about the model
`SynKit.ITS.getRc` (of `get_rc` with its default options: `disconnected=False`, `keep_mtg=False`,
keys `element, charge, typesGH, atom_map`), `expand` (`find_nearest_neighbors`) and `extractK`
(`RadiusExpand.extract_k`, radii ≥ 0).  `WFits I` is an ITS graph as `ITSConstruction.construct`
builds it (simple graph, `typesGH` on every atom, `order` pair and `standard_order` = difference).
-/
namespace SynKit.ITS
open SynKit

/-- **C02, "contains a bond iff its order differs (H–H bonds always kept)"**, as the code decides it:
the centre has an edge on `{u, v}` exactly when the ITS has one whose `standard_order` is a
non-zero number or whose two ends are hydrogens.  Needs only a simple graph; covers ITS edges
without (or with a non-numeric) `standard_order` — the `isinstance` guard: they are *not* changed. -/
theorem mem_rc_edge_iff_std (I : LGraph) (hI : I.WF) (u v : Nat) :
    (getRc {} I).hasEdge u v = true ↔
      ∃ a, I.edge? u v = some a ∧ (stdNonzero (a.get "standard_order") = true ∨ isHH I u v = true) := by
  rw [getRc_hasEdge {} rfl]
  constructor
  · rintro ⟨e, he, hs, hadj⟩
    refine ⟨e.2.2, edge?_of_mem hI he hadj, ?_⟩
    rcases hs with h | h
    · rw [includeEdge_default] at h; exact Or.inl h
    · rw [isHH_of_adj hadj] at h; exact Or.inr h
  · rintro ⟨a, ha, hs⟩
    obtain ⟨e, he, hadj, rfl⟩ := edge?_some_mem ha
    refine ⟨e, he, ?_, hadj⟩
    rcases hs with h | h
    · exact Or.inl (by rw [includeEdge_default]; exact h)
    · exact Or.inr (by rw [isHH_of_adj hadj]; exact h)

/-- **C02, first clause at full strength** on a well-formed ITS: `e ∈ rc.edges ↔ e ∈ I.edges ∧
(o₁ ≠ o₂ ∨ both ends hydrogen)`. -/
theorem mem_rc_edge_iff (I : LGraph) (hI : WFits I) (u v : Nat) :
    (getRc {} I).hasEdge u v = true ↔
      ∃ a, I.edge? u v = some a ∧ (changed a ∨ isHH I u v = true) := by
  rw [mem_rc_edge_iff_std I hI.1]
  constructor
  · rintro ⟨a, ha, h⟩
    obtain ⟨e, he, _, rfl⟩ := edge?_some_mem ha
    obtain ⟨x, y, ho, hs⟩ := hI.2.2 e he
    exact ⟨e.2.2, ha, h.imp (stdNonzero_iff_changed ho hs).1 id⟩
  · rintro ⟨a, ha, h⟩
    obtain ⟨e, he, _, rfl⟩ := edge?_some_mem ha
    obtain ⟨x, y, ho, hs⟩ := hI.2.2 e he
    exact ⟨e.2.2, ha, h.imp (stdNonzero_iff_changed ho hs).2 id⟩

/-- **C02, bonds of the centre keep their ITS labels**: `order` pair and `standard_order` of a centre
bond are those of the ITS bond on the same atoms. -/
theorem rc_edge_labels (I : LGraph) (hI : I.WF) (u v : Nat) (a' : Attrs)
    (h : (getRc {} I).edge? u v = some a') :
    ∃ a, I.edge? u v = some a ∧ a'.get "order" = a.get "order" ∧
      a'.get "standard_order" = a.get "standard_order" := getRc_edge_labels hI u v a' h

/-- **C02, "contains exactly the atoms incident to those bonds"** (any input graph). -/
theorem rc_nodes_eq_endpoints (I : LGraph) (n : Nat) :
    n ∈ (getRc {} I).ids ↔ ∃ v, (getRc {} I).hasEdge n v = true := by
  rw [getRc_ids {} rfl]
  constructor
  · rintro ⟨e, he, hs, h | h⟩
    · exact ⟨e.2.1, (getRc_hasEdge {} rfl I n e.2.1).2 ⟨e, he, hs, Or.inl ⟨h.symm, rfl⟩⟩⟩
    · exact ⟨e.1, (getRc_hasEdge {} rfl I n e.1).2 ⟨e, he, hs, Or.inr ⟨rfl, h.symm⟩⟩⟩
  · rintro ⟨v, hv⟩
    obtain ⟨e, he, hs, hadj⟩ := (getRc_hasEdge {} rfl I n v).1 hv
    refine ⟨e, he, hs, ?_⟩
    rcases hadj with ⟨a, _⟩ | ⟨_, b⟩
    · exact Or.inl a.symm
    · exact Or.inr b.symm

/-- **C02, "… with their ITS labels"**: every centre atom carries the ITS atom's `element`, `charge`,
`typesGH`, `atom_map` (DESIGN §5a reading of "ITS labels"). -/
theorem rc_labels (I : LGraph) (hI : WFits I) (n : Nat) (hn : n ∈ (getRc {} I).ids)
    (k : String) (hk : k ∈ rcKeys) : ((getRc {} I).attrs n).get k = (I.attrs n).get k :=
  getRc_label {} rfl I n hn k (mem_rcKeys_elementKey hk)
    (Or.inr (hI.2.1 n (getRc_ids_sub hI.1 {} rfl n hn)))

/-- **C02, "the radius-k context is exactly the set of atoms within k bonds"**, for the expansion
routine: `k` rounds of neighbour union reach exactly the nodes at walk distance ≤ `k` from a seed. -/
theorem expand_iff_dist (I : LGraph) (S : List Nat) (k n : Nat) :
    n ∈ expand I S k ↔ ∃ s ∈ S, DistLE I s k n := mem_expand_iff I S k n

/-- **C02, "centre = context(0)"**. -/
theorem extractK_zero (I : LGraph) : extractK I 0 = getRc {} I := rfl

/-- **C02, context = distance ball**, for `extract_k` itself (radius ≥ 1; radius 0 is `extractK_zero`). -/
theorem mem_extractK_iff_dist (I : LGraph) (hI : I.WF) (k n : Nat) :
    n ∈ (extractK I (k + 1)).ids ↔ ∃ s ∈ (getRc {} I).ids, DistLE I s (k + 1) n := by
  show n ∈ (induced I (expand I (getRc {} I).ids (k + 1))).ids ↔ _
  rw [mem_ids_induced, mem_expand_iff]
  constructor
  · exact fun h => h.2
  · rintro ⟨s, hs, hd⟩
    exact ⟨hd.mem_ids hI (getRc_ids_sub hI {} rfl s hs), s, hs, hd⟩

/-- **C02, monotone chain** `centre = K₀ ⊑ K₁ ⊑ K₂ ⊑ … ⊑ ITS` as sub-graphs (`Sub`: atoms, bonds,
centre labels, bond orders), for every radius. -/
theorem context_chain (I : LGraph) (hI : WFits I) (k : Nat) :
    Sub (extractK I 0) (extractK I (k + 1)) ∧ Sub (extractK I (k + 1)) (extractK I (k + 2)) ∧
      Sub (extractK I (k + 1)) I := by
  refine ⟨?_, ?_, ?_⟩
  · show Sub (getRc {} I) (induced I (expand I (getRc {} I).ids (k + 1)))
    apply getRc_sub_induced hI
    intro n hn
    exact (mem_expand_iff I _ (k + 1) n).2 ⟨n, hn, DistLE.refl _⟩
  · show Sub (induced I (expand I (getRc {} I).ids (k + 1))) (induced I (expand I (getRc {} I).ids (k + 2)))
    exact induced_sub_induced hI.1 _ _ (fun n hn => expand_mono I _ (k + 1) n hn)
  · exact induced_sub hI.1 _

/-- **C02, "extracting the centre of a centre changes nothing"**: `RcEq` = same atoms with the same
centre labels, same bonds with the same `order` / `standard_order` (list order aside). -/
theorem getRc_idem (I : LGraph) (hI : WFits I) : RcEq (getRc {} (getRc {} I)) (getRc {} I) :=
  getRc_idem' I hI

/-- **C02, "renumbering the atom maps yields an isomorphic centre"**: `get_rc` commutes with every
injective renumbering `π` of the atoms — literally, for every option setting — so the centre of the
renumbered ITS is the `π`-image of the centre (hence isomorphic to it via `π`). -/
theorem getRc_relabel (o : RcOpts) (I : LGraph) (π : Nat → Nat) (hπ : Function.Injective π) :
    getRc o (I.relabel π) = (getRc o I).relabel π := getRc_relabel' hπ o I

/-- The property at full strength over the model (Appendix A of DESIGN.md), assembled. -/
def C02.FullStatement : Prop :=
  ∀ I : LGraph, WFits I →
    let R := getRc {} I
    (∀ u v, R.hasEdge u v = true ↔ ∃ a, I.edge? u v = some a ∧ (changed a ∨ isHH I u v = true)) ∧
    (∀ u v a', R.edge? u v = some a' → ∃ a, I.edge? u v = some a ∧ a'.get "order" = a.get "order" ∧
        a'.get "standard_order" = a.get "standard_order") ∧
    (∀ n, n ∈ R.ids ↔ ∃ v, R.hasEdge n v = true) ∧
    (∀ n ∈ R.ids, ∀ k ∈ rcKeys, (R.attrs n).get k = (I.attrs n).get k) ∧
    RcEq (getRc {} R) R ∧
    (∀ π : Nat → Nat, Function.Injective π → getRc {} (I.relabel π) = R.relabel π) ∧
    (∀ k n, n ∈ (extractK I (k + 1)).ids ↔ ∃ s ∈ R.ids, DistLE I s (k + 1) n) ∧
    extractK I 0 = R ∧
    (∀ k, Sub R (extractK I (k + 1)) ∧ Sub (extractK I (k + 1)) (extractK I (k + 2)) ∧ Sub (extractK I (k + 1)) I)

theorem C02.fullStatement_holds : C02.FullStatement := fun I hI =>
  ⟨mem_rc_edge_iff I hI, rc_edge_labels I hI.1, rc_nodes_eq_endpoints I, rc_labels I hI, getRc_idem I hI,
    fun π hπ => getRc_relabel {} I π hπ, mem_extractK_iff_dist I hI.1, rfl, context_chain I hI⟩

/-! ## Non-vacuity: an esterification-like ITS
`C1(=O2)(O3 H) + O4(H6)–C5  →  C1(=O2)–O4–C5 + O3 H2`: bond 1–3 broken, 1–4 formed, explicit H6
moves from O4 to O3; 7 is a spectator carbon on C5, 8–9 an unchanged H–H bond. -/
namespace C02Example

def nd (el : String) (n : Nat) : Nat × Attrs :=
  (n, [("element", .str el), ("charge", .num 0), ("atom_map", .num (2 * (n : Int))),
       ("typesGH", .tup [.tup [.str el, .bool false, .num 0, .num 0, .tup []],
                         .tup [.str el, .bool false, .num 0, .num 0, .tup []]])])

def ed (u v : Nat) (a b : Int) : Nat × Nat × Attrs :=
  (u, v, [("order", .tup [.num a, .num b]), ("standard_order", .num (a - b))])

def I : LGraph :=
  { nodes := [nd "C" 1, nd "O" 2, nd "O" 3, nd "O" 4, nd "C" 5, nd "H" 6, nd "C" 7, nd "H" 8, nd "H" 9]
    edges := [ed 1 2 4 4, ed 1 3 2 0, ed 1 4 0 2, ed 4 5 2 2, ed 4 6 2 0, ed 3 6 0 2, ed 5 7 2 2, ed 8 9 2 2] }

example : I.WF := by decide

example : WFits I :=
  ⟨by decide, by decide, fun e he => by
    simp only [I, List.mem_cons, List.not_mem_nil, or_false] at he
    rcases he with rfl | rfl | rfl | rfl | rfl | rfl | rfl | rfl
    · exact ⟨4, 4, rfl, rfl⟩
    · exact ⟨2, 0, rfl, rfl⟩
    · exact ⟨0, 2, rfl, rfl⟩
    · exact ⟨2, 2, rfl, rfl⟩
    · exact ⟨2, 0, rfl, rfl⟩
    · exact ⟨0, 2, rfl, rfl⟩
    · exact ⟨2, 2, rfl, rfl⟩
    · exact ⟨2, 2, rfl, rfl⟩⟩

/-- The centre: the four changed bonds and the unchanged H–H bond; the C=O and C–C bonds are not in it. -/
example : (getRc {} I).edges.map (fun e => (e.1, e.2.1)) = [(1, 3), (1, 4), (4, 6), (3, 6), (8, 9)] := by decide
example : (getRc {} I).ids = [1, 3, 4, 6, 8, 9] := by decide
example : (getRc {} (getRc {} I)).ids = [1, 3, 4, 6, 8, 9] := by decide
/-- Contexts grow strictly: radius 1 adds O2 and C5, radius 2 adds C7, then the whole ITS. -/
example : (extractK I 1).ids = [1, 2, 3, 4, 5, 6, 8, 9] := by decide
example : (extractK I 2).ids = [1, 2, 3, 4, 5, 6, 7, 8, 9] := by decide
example : (extractK I 1).edges.length = 7 := by decide
/-- An edge without `standard_order` is not a changed bond (the `isinstance` guard). -/
example : (getRc {} { nodes := [nd "C" 1, nd "O" 2], edges := [(1, 2, [("order", .tup [.num 2, .num 0])])] }).edges = [] := by
  decide
/-- Renumbering instance. -/
example : getRc {} (I.relabel (· * 3 + 1)) = (getRc {} I).relabel (· * 3 + 1) := by decide

end C02Example

end SynKit.ITS

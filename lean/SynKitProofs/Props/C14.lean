import SynKitModel.BatchCache
import SynKitProofs.BatchCacheLemmas
/-!
# C14 — batching, parallelism and caching are operational only: results never change

Property theorems only; helper lemmas live in `SynKitProofs/BatchCacheLemmas.lean`.

What is proved here is about the model `SynKitModel/BatchCache.lean`:

* the result cache of `_RuleApplier` over an explicit object heap with identity reuse
  (`cache_transparent_if_pinned`, negation witness `cache_stale_witness` for the code of the
  pinned tree, `cache_zero_raises` for the degenerate size 0);
* `BatchReactor.fit` = map of the single-substrate function (`batch_eq_single`,
  `worker_eq_single` for the per-process view);
* what `_dedupe` keeps and in which order (`dedupe_order_stable`);
* batched clustering = one-shot clustering (`batched_cluster_eq_oneshot`,
  `batched_cluster_eq_oneshot_templates`; witness `oneshot_default_matcher_witness`);
* order-preserving parallel map (`parallel_map_eq`, trivial by construction of the model).

**Partial by nature:** process start-up, pickling of the work items and the scheduling of
worker processes (joblib/loky, `ProcessPoolExecutor`) are runtime behaviour that the model
cannot exhibit: `parallelMap` *is* an order-preserving map.  That part of C14 is explored on
the implementation only (harness/props/c14.py, streams b, d, e).
-/
deriving instance DecidableEq for Except

namespace SynKit.BatchCache

/-- The free result function: a result records exactly which contents it was computed from.
Two machines that agree under `triple` agree under every `f` (used in the concrete examples). -/
def triple (a b : Nat) (i : Bool) : Nat × Nat × Bool := (a, b, i)

/-- **C14, cache clause ("whether the result cache is on or off", "tiny cache sizes that force
eviction", every history).**  For the repaired `_RuleApplier` (cache entries keep their key
objects alive): after EVERY history of heap operations — allocations (with whatever identity
the allocator hands out, reused or not), releases, calls — and for every cache size ≥ 1 or
the cache switched off, a call on two objects the caller holds returns the pure function of
their contents.  Proof: induction over the history with the invariant `Inv` (every cache
entry's key identities refer to the very objects whose contents produced the stored value). -/
theorem cache_transparent_if_pinned {C R : Type} (f : C → C → Bool → R) (cacheOn : Bool) (cacheMax : Int)
    (hsane : cacheOn = true → 0 < cacheMax) (ops : List (Op C))
    (sid rid : Id) (inv : Bool) (cs cr : C) :
    let cfg : Config := ⟨cacheOn, cacheMax, true⟩
    let s := run f cfg {} ops
    hget s.heap sid = some cs → hget s.heap rid = some cr →
      (stepPinned f cacheOn cacheMax s (.call sid rid inv)).2 = .val (f cs cr inv) := by
  intro cfg s hs hr
  exact call_of_inv f cfg hsane s (inv_run f cfg rfl {} ops (inv_init f)) sid rid inv cs cr hs hr

/-- Same statement for whole histories: every outcome of the repaired machine is what the
property demands (`expected`: `f` of the contents the caller passed) whenever the op is a
possible call. -/
theorem cache_transparent_outs {C R : Type} (f : C → C → Bool → R) (cacheOn : Bool) (cacheMax : Int)
    (hsane : cacheOn = true → 0 < cacheMax) (ops : List (Op C)) (op : Op C) (r : R) :
    let cfg : Config := ⟨cacheOn, cacheMax, true⟩
    let s := run f cfg {} ops
    expected f s op = some r → (step f cfg s op).2 = .val r := by
  intro cfg s h
  cases op with
  | alloc id c => simp [expected] at h
  | free id => simp [expected] at h
  | call sid rid inv =>
    simp only [expected] at h
    cases hs : hget s.heap sid with
    | none => simp [hs] at h
    | some cs =>
      cases hr : hget s.heap rid with
      | none => simp [hs, hr] at h
      | some cr =>
        simp only [hs, hr, Option.some.injEq] at h
        subst h
        exact call_of_inv f cfg hsane s (inv_run f cfg rfl {} ops (inv_init f)) sid rid inv cs cr hs hr

/-- **Negation witness (finding F12).**  For the code as written on the pinned tree (entries
hold only the result) a five-op history returns a wrong value: substrate object 0 (content 10)
is used and released, a new substrate (content 11) receives identity 0, and the call returns
the result computed from content 10.  Replayed on the implementation by forcing identity
reuse (harness stream a / regress/C14). -/
theorem cache_stale_witness :
    let ops : List (Op Nat) := [.alloc 1 20, .alloc 0 10, .call 0 1 false, .free 0, .alloc 0 11]
    let s := run triple ⟨true, 8, false⟩ {} ops
    expected triple s (.call 0 1 false) = some (11, 20, false) ∧
    (stepAsWritten triple true 8 s (.call 0 1 false)).2 = .val (10, 20, false) := by
  decide

/-- The same history is impossible for the repaired machine: the allocator cannot hand out
identity 0 while the cache entry keeps the first substrate alive (`badOp`), and with any other
identity the call is right. -/
example :
    outs triple ⟨true, 8, true⟩ {}
      [.alloc 1 20, .alloc 0 10, .call 0 1 false, .free 0, .alloc 0 11, .alloc 2 11, .call 2 1 false,
       .call 2 1 true, .call 2 1 false] =
      [.ok, .ok, .val (10, 20, false), .ok, .badOp, .ok, .val (11, 20, false), .val (11, 20, true),
       .val (11, 20, false)] := by
  decide

/-- Non-vacuity of `cache_transparent_if_pinned`: a history with eviction at size 1, after which
identity 0 *is* legitimately reused (its entry was evicted) and the call is still right. -/
example :
    outs triple ⟨true, 1, true⟩ {}
      [.alloc 1 20, .alloc 0 10, .call 0 1 false, .free 0, .alloc 2 12, .call 2 1 false, .alloc 0 11,
       .call 0 1 false] =
      [.ok, .ok, .val (10, 20, false), .ok, .ok, .val (12, 20, false), .ok, .val (11, 20, false)] := by
  decide

/-- The degenerate configuration `cache_enabled=True, cache_maxsize ≤ 0`: every call raises
`StopIteration` (`next(iter({}))`), both on the pinned and on the repaired tree.  This is why
`cache_transparent_if_pinned` asks for a size ≥ 1; reported as an observation. -/
theorem cache_zero_raises {C R : Type} (f : C → C → Bool → R) (pin : Bool) (cacheMax : Int) (h : cacheMax ≤ 0)
    (heap : List (Id × C)) (sid rid : Id) (inv : Bool) (cs cr : C)
    (hs : hget heap sid = some cs) (hr : hget heap rid = some cr) :
    step f ⟨true, cacheMax, pin⟩ ⟨heap, []⟩ (.call sid rid inv) = (⟨heap, []⟩, .stopIteration) := by
  have : ((0 : Int) ≥ cacheMax) := h
  simp [step, hs, hr, cget, this]

section Fit
variable {C S : Type} [DecidableEq S]

/-- **C14, batch clause.**  `BatchReactor.fit` over a batch returns, entry by entry, exactly
what applying the rules to that substrate alone returns (`single`: `f` once per rule, flattened,
de-duplicated as configured) — for every batch (any composition, any order, repeated
substrates), every rule list, both directions, de-duplication on or off, cache off or any
cache size ≥ 1, every allocator the runtime can be (`ValidAlloc`: identities of dead objects
may be reused at will), and every state `s` the reactor's cache can be in (`Inv`; holds
initially, after every history by `inv_run`, and again after this `fit` — second conjunct —
so the statement chains over any sequence of `fit` calls on the same reactor). -/
theorem batch_eq_single (f : C → C → Bool → List S) (cacheOn : Bool) (cacheMax : Int)
    (hsane : cacheOn = true → 0 < cacheMax) (dd : Bool) (pick : State C (List S) → Id)
    (hpick : ValidAlloc pick) (s : State C (List S)) (hinv : Inv f s) (batch rules : List C) (inv : Bool) :
    (fit f ⟨cacheOn, cacheMax, true⟩ dd pick s batch rules inv).2 = .ok (batch.map (single f dd rules inv)) ∧
      Inv f (fit f ⟨cacheOn, cacheMax, true⟩ dd pick s batch rules inv).1 :=
  fit_spec f ⟨cacheOn, cacheMax, true⟩ rfl hsane dd pick hpick s hinv batch rules inv

/-- **C14, worker-process view ("however many worker processes are used").**  One entry handled
by `worker` from ANY cache state satisfying the invariant — in particular from the empty
cache a freshly started worker process has, or from whatever the same process accumulated on
earlier entries — returns `single`.  Hence any assignment of entries to processes gives the
same per-entry results; what the model cannot show is that joblib delivers them in order. -/
theorem worker_eq_single (f : C → C → Bool → List S) (cacheOn : Bool) (cacheMax : Int)
    (hsane : cacheOn = true → 0 < cacheMax) (dd : Bool) (pick : State C (List S) → Id)
    (hpick : ValidAlloc pick) (rids : List Id) (rules : List C) (inv : Bool)
    (s : State C (List S)) (hinv : Inv f s) (hh : Held s rids rules) (c : C) :
    (worker f ⟨cacheOn, cacheMax, true⟩ dd pick rids inv s c).2 = .ok (single f dd rules inv c) :=
  (worker_spec f ⟨cacheOn, cacheMax, true⟩ rfl hsane dd pick hpick rids rules inv s c hinv hh).1

end Fit

theorem le_foldl_max (l : List Nat) (a x : Nat) (h : x ∈ l ∨ x ≤ a) : x ≤ l.foldl max a := by
  induction l generalizing a with
  | nil => rcases h with h | h
           · simp at h
           · exact h
  | cons y ys ih =>
    simp only [List.foldl_cons]
    apply ih
    rcases h with h | h
    · rcases List.mem_cons.1 h with rfl | h
      · exact Or.inr (Nat.le_max_right _ _)
      · exact Or.inl h
    · exact Or.inr (Nat.le_trans h (Nat.le_max_left _ _))

theorem freshAlloc_valid {C S : Type} : ValidAlloc (freshAlloc : State C (List S) → Id) := by
  intro s hmem
  have := le_foldl_max (aliveIds s) 0 _ (Or.inl hmem)
  unfold freshAlloc at this
  omega

theorem lowestAlloc_valid {C S : Type} : ValidAlloc (lowestAlloc : State C (List S) → Id) := by
  intro s hmem
  unfold lowestAlloc at hmem
  cases hf : (List.range ((aliveIds s).length + 1)).find? (fun i => i ∉ aliveIds s) with
  | some i =>
    have := List.find?_some hf
    rw [hf] at hmem
    simp only [Option.getD_some] at hmem
    simp at this
    exact this hmem
  | none =>
    rw [hf] at hmem
    simp only [Option.getD_none] at hmem
    have := le_foldl_max (aliveIds s) 0 _ (Or.inl hmem)
    omega

/-- Non-vacuity of `batch_eq_single`: valid allocators exist (`freshAlloc_valid`,
`lowestAlloc_valid`), and on a concrete batch with a repeated substrate, a look-alike pair,
cache size 1 (eviction on every miss) and the reuse-happy allocator the model's `fit`
evaluates to the map of `single`. -/
example :
    let f : Nat → Nat → Bool → List Nat := fun c r i => if i then [r, c] else [c + r, c + r, c]
    (fit f ⟨true, 1, true⟩ true lowestAlloc {} [3, 5, 3, 4] [1, 2, 1] false).2 =
      .ok ([3, 5, 3, 4].map (single f true [1, 2, 1] false)) := by
  decide

/-- The same batch on the code of the pinned tree with the reuse-happy allocator: the second
entry inherits the first entry's cached results (finding F12 inside `fit`). -/
example :
    let f : Nat → Nat → Bool → List Nat := fun c r _ => [c + r]
    (fit f ⟨true, 8, false⟩ false lowestAlloc {} [3, 5] [1] false).2 = .ok [[4], [4]] ∧
    [3, 5].map (single f false [1] false) = [[4], [6]] := by
  decide

section Dedupe
variable {S : Type} [DecidableEq S]

/-- **C14, de-duplication as coded.**  `_dedupe` keeps exactly the first occurrence of every
element, in the order of first occurrences (`firstOccs`): the output has no duplicates, the
same elements as the input, is a sub-list of the input (relative order kept), leaves a
duplicate-free list untouched, and is idempotent. -/
theorem dedupe_order_stable (xs : List S) :
    dedupe xs = firstOccs xs ∧ (dedupe xs).Nodup ∧ (∀ y, y ∈ dedupe xs ↔ y ∈ xs) ∧
      List.Sublist (dedupe xs) xs ∧ (xs.Nodup → dedupe xs = xs) ∧ dedupe (dedupe xs) = dedupe xs := by
  have h := dedupe_eq_firstOccs xs
  refine ⟨h, ?_, ?_, ?_, ?_, ?_⟩
  · rw [h]; exact firstOccs_nodup xs
  · intro y; rw [h]; exact mem_firstOccs xs y
  · rw [h]; exact firstOccs_sublist xs
  · intro hn; rw [h]; exact firstOccs_of_nodup xs hn
  · rw [dedupe_eq_firstOccs (dedupe xs), h]; exact firstOccs_of_nodup _ (firstOccs_nodup xs)

example : dedupe [3, 1, 3, 2, 1, 4] = [3, 1, 2, 4] := by decide

end Dedupe

section Cluster
variable {α A : Type} [DecidableEq A]

/-- **C14, clustering clause.**  `BatchCluster.fit` with any batch size `k ≥ 1` writes the same
class into every entry as the one-shot call (`batch_size=None`), label for label — hence the
same partition — for every non-empty data list, every pre-grouping attribute and EVERY
relation `iso` (not even symmetry is needed: both paths compare an item with the earlier class
representatives in order of first appearance and number new classes 0,1,2,…), provided the
one-shot branch uses the matcher the instance was configured with (`isoOne = iso`: true for
the default configuration; see `oneshot_default_matcher_witness` for the other case). -/
theorem batched_cluster_eq_oneshot (attr : α → A) (iso : α → α → Bool) (xs : List α) (hne : xs ≠ [])
    (k : Int) (hk : 1 ≤ k) :
    fitClasses attr iso iso xs [] (some k) = fitClasses attr iso iso xs [] none ∧
      fitClasses attr iso iso xs [] none = .ok ((clusterBatch attr iso [] xs).1.map some) := by
  have hone : fitClasses attr iso iso xs [] none = .ok ((clusterBatch attr iso [] xs).1.map some) := by
    cases xs with
    | nil => exact absurd rfl hne
    | cons x rest => simp [fitClasses, fitBatches, oneShot_eq_clusterBatch]
  refine ⟨?_, hone⟩
  rw [hone]
  have hk' : ¬ k < 1 := by omega
  have hpos : 0 < k.toNat := by omega
  have hflat := chunks_flatten k.toNat hpos xs
  simp only [fitClasses, hk', if_false]
  rcases hc : chunks k.toNat xs with _ | ⟨b, _ | ⟨b2, bs⟩⟩
  · rw [hc] at hflat; simp at hflat; exact absurd hflat hne
  · rw [hc] at hflat
    simp only [List.flatten_cons, List.flatten_nil, List.append_nil] at hflat
    subst hflat
    cases b with
    | nil => exact absurd rfl hne
    | cons x rest => simp [fitBatches, oneShot_eq_clusterBatch]
  · simp only [fitBatches]
    rw [clusterBatches_eq, ← hc, hflat]

/-- With initial templates the batched call equals the single-batch call for every data list
(empty included) and every `k ≥ 1`: feeding batches one after the other = feeding the whole
list. -/
theorem batched_cluster_eq_oneshot_templates (attr : α → A) (iso isoOne : α → α → Bool) (xs : List α)
    (ts : List (α × Nat)) (hts : ts ≠ []) (k : Int) (hk : 1 ≤ k) :
    fitClasses attr iso isoOne xs ts (some k) = fitClasses attr iso isoOne xs ts none := by
  have hk' : ¬ k < 1 := by omega
  have hpos : 0 < k.toNat := by omega
  have hflat := chunks_flatten k.toNat hpos xs
  have hte : ts.isEmpty = false := by cases ts <;> simp_all
  simp only [fitClasses, hk', if_false]
  rcases hc : chunks k.toNat xs with _ | ⟨b, _ | ⟨b2, bs⟩⟩
  · rw [hc] at hflat; simp at hflat; subst hflat
    simp [fitBatches, hte, clusterBatches, clusterBatch]
  · rw [hc] at hflat
    simp only [List.flatten_cons, List.flatten_nil, List.append_nil] at hflat
    subst hflat; rfl
  · simp only [fitBatches, hte]
    rw [clusterBatches_eq, ← hc, hflat]
    simp

/-- Non-vacuity: six items, classes by parity, attribute = item mod 3 (so the pre-grouping
splits the parity classes), batch size 2: both calls give the same labels. -/
example :
    let iso : Nat → Nat → Bool := fun a b => a % 2 == b % 2
    fitClasses (fun n : Nat => n % 3) iso iso [0, 2, 3, 4, 6, 9] [] (some 2) = .ok [some 0, some 1, some 2, some 3, some 0, some 2] ∧
    fitClasses (fun n : Nat => n % 3) iso iso [0, 2, 3, 4, 6, 9] [] none = .ok [some 0, some 1, some 2, some 3, some 0, some 2] := by
  decide

/-- **Witness (new finding).**  `BatchCluster.fit` builds `GraphCluster()` with default
matchers for the one-shot branch, whatever the instance was configured with.  When the two
differ (here: configured matcher ignores what the default one distinguishes) batched and
one-shot classes differ. -/
theorem oneshot_default_matcher_witness :
    let cfgIso : Nat → Nat → Bool := fun a b => a % 2 == b % 2   -- configured: coarse
    let dflt : Nat → Nat → Bool := fun a b => a == b             -- GraphCluster() default: fine
    fitClasses (fun _ : Nat => ()) cfgIso dflt [0, 2, 0] [] (some 1) = .ok [some 0, some 0, some 0] ∧
    fitClasses (fun _ : Nat => ()) cfgIso dflt [0, 2, 0] [] none = .ok [some 0, some 1, some 0] := by
  decide

/-- The empty data list: the one-shot call raises (`data[0]`), the batched call returns `[]`.
Outside the quantifier of C14 (batches are assembled from ≥ 1 item); recorded as an observation. -/
example : fitClasses (fun _ : Nat => ()) (fun a b => a == b) (fun a b => a == b) [] [] none = .error .indexError ∧
    fitClasses (fun _ : Nat => ()) (fun a b => a == b) (fun a b => a == b) [] [] (some 2) = .ok [] := by
  decide

end Cluster

/-- **C14, parallel clause, as far as the model goes.**  A parallel map that deals the inputs
out in consecutive chunks and concatenates the chunk results in input order equals the serial
map.  This is true by construction of `parallelMap` (trivial in the model): that joblib's
`Parallel` and `ProcessPoolExecutor.map` *are* such order-preserving maps, with every work item
pickled and unpickled faithfully, is runtime behaviour explored on the implementation only. -/
theorem parallel_map_eq {α β : Type} (n : Nat) (g : α → β) (xs : List α) : parallelMap n g xs = xs.map g := by
  unfold parallelMap
  split
  · rfl
  · rename_i hn
    have hpos : 0 < n := Nat.pos_of_ne_zero hn
    rw [← List.map_flatten, chunks_flatten n hpos]

example : parallelMap 2 (· + 1) [1, 2, 3, 4, 5] = [2, 3, 4, 5, 6] := by decide

/-- The property at full strength over the model (runtime scheduling excluded, see header):
cache transparency over every history, batch = single over every reachable cache state,
batched = one-shot clustering, parallel map = serial map. -/
def _root_.SynKit.C14.FullStatement : Prop :=
  (∀ (C R : Type) (f : C → C → Bool → R) (cacheOn : Bool) (cacheMax : Int),
      (cacheOn = true → 0 < cacheMax) → ∀ (ops : List (Op C)) (op : Op C) (r : R),
        expected f (run f ⟨cacheOn, cacheMax, true⟩ {} ops) op = some r →
          (step f ⟨cacheOn, cacheMax, true⟩ (run f ⟨cacheOn, cacheMax, true⟩ {} ops) op).2 = .val r) ∧
  (∀ (C S : Type) [DecidableEq S] (f : C → C → Bool → List S) (cacheOn : Bool) (cacheMax : Int),
      (cacheOn = true → 0 < cacheMax) → ∀ (dd : Bool) (pick : State C (List S) → Id), ValidAlloc pick →
        ∀ (s : State C (List S)), Inv f s → ∀ (batch rules : List C) (inv : Bool),
          (fit f ⟨cacheOn, cacheMax, true⟩ dd pick s batch rules inv).2 = .ok (batch.map (single f dd rules inv)) ∧
            Inv f (fit f ⟨cacheOn, cacheMax, true⟩ dd pick s batch rules inv).1) ∧
  (∀ (α A : Type) [DecidableEq A] (attr : α → A) (iso : α → α → Bool) (xs : List α), xs ≠ [] →
      ∀ k : Int, 1 ≤ k → fitClasses attr iso iso xs [] (some k) = fitClasses attr iso iso xs [] none) ∧
  (∀ (α β : Type) (n : Nat) (g : α → β) (xs : List α), parallelMap n g xs = xs.map g)

/-- The full statement holds over the model. -/
theorem c14_full : SynKit.C14.FullStatement :=
  ⟨fun _ _ f cacheOn cacheMax hs ops op r => cache_transparent_outs f cacheOn cacheMax hs ops op r,
   fun _ _ _ f cacheOn cacheMax hs dd pick hp s hi batch rules inv =>
     batch_eq_single f cacheOn cacheMax hs dd pick hp s hi batch rules inv,
   fun _ _ _ attr iso xs hne k hk => (batched_cluster_eq_oneshot attr iso xs hne k hk).1,
   fun _ _ n g xs => parallel_map_eq n g xs⟩

end SynKit.BatchCache

import SynKitModel.Deficiency
import SynKitProofs.NetGraphAlg
import SynKitProofs.DeficiencyLemmas
import SynKitProofs.DeficiencyRank
import SynKitProofs.BipGraphViewsLemmas
import Mathlib.LinearAlgebra.Matrix.Rank
/-!
# C19 — complexes, linkage classes and deficiency follow their definitions

Property theorems only; helper lemmas live in `SynKitProofs/DeficiencyLemmas.lean`,
`SynKitProofs/DeficiencyRank.lean` (the rank arguments) and `SynKitProofs/NetGraphAlg.lean`.

A complex is the coefficient vector over the species order (`vecOf`), which for a well-formed
network (`Net.Wf`: every label of a reaction is a species) is the multiset of the side.
-/
namespace SynKit.Deficiency
open SynKit.NetGraphAlg

/-- **C19, complexes.** The complexes are exactly the distinct reactant and product multisets of
the reactions: no duplicates, and a vector is listed iff it is the reactant or product vector of
some reaction.  The arcs of the complex graph are exactly the pairs (index of a reaction's
reactant complex, index of its product complex). -/
theorem complexes_spec (N : Net) :
    (complexes N).Nodup ∧
    (∀ v, v ∈ complexes N ↔ ∃ r ∈ N.reactions, v = vecOf N r.reactants ∨ v = vecOf N r.products) ∧
    (∀ a, a ∈ complexArcs N ↔ ∃ r ∈ N.reactions, (complexes N)[a.1]? = some (vecOf N r.reactants) ∧
        (complexes N)[a.2]? = some (vecOf N r.products)) :=
  ⟨(cinv_complexVectors N).nodup, (cinv_complexVectors N).mem, (cinv_complexVectors N).arcs⟩

/-- **C19, linkage classes.** The classes are the connected components of the graph joining each
reaction's reactant complex to its product complex: two complexes lie in a common class iff they
are related by the reflexive-symmetric-transitive closure of the arcs; the classes are non-empty,
cover all complexes, are pairwise disjoint and listed once (so their number is the number of
components). -/
theorem linkage_spec (N : Net) :
    (∀ i j, i < (complexes N).length → j < (complexes N).length →
        ((∃ c ∈ linkageClasses N, i ∈ c ∧ j ∈ c) ↔ Conn (complexArcs N) i j)) ∧
    (∀ i, i < (complexes N).length → ∃ c ∈ linkageClasses N, i ∈ c) ∧
    (∀ c ∈ linkageClasses N, c ≠ [] ∧ ∀ i ∈ c, i < (complexes N).length) ∧
    (∀ c ∈ linkageClasses N, ∀ d ∈ linkageClasses N, ∀ i, i ∈ c → i ∈ d → c = d) ∧
    (linkageClasses N).Nodup := by
  refine ⟨?_, ?_, ?_, ?_, components_nodup _ _⟩
  · intro i j hi hj
    exact components_spec _ _ i j (List.mem_range.2 hi) (List.mem_range.2 hj)
  · intro i hi
    exact (components_cover _ _).1 i (List.mem_range.2 hi)
  · intro c hc
    obtain ⟨h1, h2⟩ := (components_cover _ _).2 c hc
    exact ⟨h1, fun i hi => List.mem_range.1 (h2 i hi)⟩
  · intro c hc d hd i hic hid
    exact components_disjoint _ _ c d hc hd i hic hid

/-- **C19, weak reversibility.** The verdict is `True` exactly when every linkage class is strongly
connected: inside the class every complex reaches every complex along arcs. -/
theorem weakrev_spec (N : Net) :
    weaklyReversible N = true ↔
      ∀ C ∈ linkageClasses N, ∀ u ∈ C, ∀ v ∈ C, Reach (restrict (complexArcs N) C) u v := by
  simp only [weaklyReversible, List.all_eq_true, stronglyConnected_iff]

/-- **C19, deficiency formula.** The reported numbers are `n` = number of complexes, `ℓ` = number of
linkage classes, and `δ = n − ℓ − rank`; the per-class numbers are `δ_ℓ = n_ℓ − 1 − s_ℓ`. -/
theorem deficiency_formula (N : Net) (rank : Nat) (s : Summary) (h : computeSummary N rank = .ok s) :
    s.nComplexes = (complexes N).length ∧ s.nLinkage = (linkageClasses N).length ∧ s.rank = rank ∧
    s.deficiency = (s.nComplexes : Int) - (s.nLinkage : Int) - (rank : Int) ∧
    s.weaklyReversible = weaklyReversible N ∧ s.nSpecies = N.species.length ∧
    s.nReactions = N.reactions.length := by
  unfold computeSummary at h
  split at h
  · cases h
  · cases h; exact ⟨rfl, rfl, rfl, rfl, rfl, rfl, rfl⟩

theorem linkage_deficiency_formula (N : Net) (ranks : List Nat)
    (hl : ranks.length = (linkageClasses N).length) (k : Nat) (hk : k < (linkageClasses N).length) :
    (linkageDeficiencies N ranks)[k]? =
      some ((((linkageClasses N)[k]).length : Int) - 1 - ((ranks[k]'(hl ▸ hk) : Nat) : Int)) := by
  simp [linkageDeficiencies, List.getElem?_zipWith, hk, hl ▸ hk]

/-- The error branch: no species or no reactions is the `ValueError` of `_split_species_reactions`. -/
theorem summary_error_iff (N : Net) (rank : Nat) :
    computeSummary N rank = .error .valueError ↔ N.species = [] ∨ N.reactions = [] := by
  unfold computeSummary
  split
  · rename_i h; simpa using h
  · rename_i h; simp at h; simp [h]

/-! ### the full statement, including the two inequalities that need a rank argument -/

/-- The stoichiometric matrix over ℚ. -/
noncomputable def stoichMatrix (N : Net) : Matrix (Fin N.species.length) (Fin N.reactions.length) ℚ :=
  Matrix.of fun i j => (((stoichRows N).getD i []).getD j 0 : ℚ)

/-- Difference vectors of the arcs inside class `C`, as columns over ℚ. -/
noncomputable def classMatrix (N : Net) (C : List Nat) :
    Matrix (Fin N.species.length) (Fin (classDiffs N C).length) ℚ :=
  Matrix.of fun i j => ((((classDiffs N C).getD j []).getD i 0 : Int) : ℚ)

/-- **C19 at full strength** (model level).  The first four clauses are `complexes_spec`,
`linkage_spec`, `weakrev_spec`, `deficiency_formula`.  The last two — `δ ≥ 0` and `Σ δ_ℓ ≤ δ` with
the exact ranks (`Matrix.rank` over ℚ of the matrices the model builds) — are
`deficiency_nonneg` and `linkage_deficiency_sum_le` below; they rest on `rank S ≤ n − ℓ` (every
column `y′ − y` of `S` lies in the span of the `n − ℓ` vectors `yᵢ − y_rep(i)`) and
`rank S ≤ Σ s_ℓ` (the column space of `S` lies in the join of the class spans), proved in
`SynKitProofs/DeficiencyRank.lean`.  The whole statement is `C19.full`.  The harness supplies the
exact rational ranks and checks the implementation's numbers against them. -/
def FullStatement : Prop :=
  ∀ N : Net, N.species ≠ [] → N.reactions ≠ [] →
    ((complexes N).Nodup ∧ ∀ v, v ∈ complexes N ↔ ∃ r ∈ N.reactions, v = vecOf N r.reactants ∨ v = vecOf N r.products) ∧
    (∀ i j, i < (complexes N).length → j < (complexes N).length →
        ((∃ c ∈ linkageClasses N, i ∈ c ∧ j ∈ c) ↔ Conn (complexArcs N) i j)) ∧
    (weaklyReversible N = true ↔
      ∀ C ∈ linkageClasses N, ∀ u ∈ C, ∀ v ∈ C, Reach (restrict (complexArcs N) C) u v) ∧
    (∃ s, computeSummary N (stoichMatrix N).rank = .ok s ∧
        s.deficiency = ((complexes N).length : Int) - ((linkageClasses N).length : Int) - ((stoichMatrix N).rank : Int) ∧
        0 ≤ s.deficiency ∧
        (linkageDeficiencies N ((linkageClasses N).map fun C => (classMatrix N C).rank)).sum ≤ s.deficiency)

/-- Everything of `FullStatement` except the two inequalities (kept; `full` below proves all of it). -/
theorem fullStatement_partial (N : Net) (hs : N.species ≠ []) (hr : N.reactions ≠ []) :
    ((complexes N).Nodup ∧ ∀ v, v ∈ complexes N ↔ ∃ r ∈ N.reactions, v = vecOf N r.reactants ∨ v = vecOf N r.products) ∧
    (∀ i j, i < (complexes N).length → j < (complexes N).length →
        ((∃ c ∈ linkageClasses N, i ∈ c ∧ j ∈ c) ↔ Conn (complexArcs N) i j)) ∧
    (weaklyReversible N = true ↔
      ∀ C ∈ linkageClasses N, ∀ u ∈ C, ∀ v ∈ C, Reach (restrict (complexArcs N) C) u v) ∧
    (∃ s, computeSummary N (stoichMatrix N).rank = .ok s ∧
        s.deficiency = ((complexes N).length : Int) - ((linkageClasses N).length : Int) - ((stoichMatrix N).rank : Int)) := by
  refine ⟨⟨(complexes_spec N).1, (complexes_spec N).2.1⟩, (linkage_spec N).1, weakrev_spec N, ?_⟩
  have : (N.species.isEmpty || N.reactions.isEmpty) = false := by
    cases hsp : N.species with
    | nil => exact absurd hsp hs
    | cons _ _ =>
      cases hre : N.reactions with
      | nil => exact absurd hre hr
      | cons _ _ => rfl
  exact ⟨_, by unfold computeSummary; rw [this]; rfl, rfl⟩

/-- **C19, rank bound behind `δ ≥ 0`.** The exact rank of the stoichiometric matrix is at most
`n − ℓ` (number of complexes minus number of linkage classes), and `ℓ ≤ n`. -/
theorem stoich_rank_le (N : Net) :
    (stoichMatrix N).rank ≤ (complexes N).length - (linkageClasses N).length ∧
    (linkageClasses N).length ≤ (complexes N).length :=
  ⟨rank_stoich_le N, linkage_le_complexes N⟩

/-- **C19, rank bound behind `Σ δ_ℓ ≤ δ`.** The exact rank of the stoichiometric matrix is at most
the sum over the linkage classes of the exact ranks of their difference vectors. -/
theorem stoich_rank_le_sum_class_ranks (N : Net) :
    (stoichMatrix N).rank ≤ ((linkageClasses N).map fun C => (classMatrix N C).rank).sum :=
  rank_stoich_le_sum N

/-- **C19, the deficiency is never negative**: whenever `compute_summary` returns (with the exact
rank of the stoichiometric matrix supplied), `δ = n − ℓ − rank S ≥ 0`. -/
theorem deficiency_nonneg (N : Net) (s : Summary)
    (h : computeSummary N (stoichMatrix N).rank = .ok s) : 0 ≤ s.deficiency := by
  obtain ⟨h1, h2, _, h4, _⟩ := deficiency_formula N _ s h
  obtain ⟨hr, hl⟩ := stoich_rank_le N
  rw [h4, h1, h2]
  omega

/-- **C19, the linkage-class deficiencies never sum to more than the network deficiency**: with the
exact class ranks `s_ℓ` and the exact rank of `S` supplied, `Σ (n_ℓ − 1 − s_ℓ) ≤ n − ℓ − rank S`. -/
theorem linkage_deficiency_sum_le (N : Net) (s : Summary)
    (h : computeSummary N (stoichMatrix N).rank = .ok s) :
    (linkageDeficiencies N ((linkageClasses N).map fun C => (classMatrix N C).rank)).sum ≤ s.deficiency := by
  obtain ⟨h1, h2, _, h4, _⟩ := deficiency_formula N _ s h
  have hsum := stoich_rank_le_sum_class_ranks N
  rw [h4, h1, h2, sum_linkageDeficiencies N (fun C => (classMatrix N C).rank)]
  have : ((stoichMatrix N).rank : Int) ≤
      ((((linkageClasses N).map fun C => (classMatrix N C).rank).sum : Nat) : Int) := by exact_mod_cast hsum
  omega

/-- **C19 at full strength**: every clause of `FullStatement`, for every network with at least one
species and one reaction (the others are the `ValueError` branch, `summary_error_iff`). -/
theorem full : FullStatement := by
  intro N hs hr
  obtain ⟨c1, c2, c3, s, hs1, hs2⟩ := fullStatement_partial N hs hr
  exact ⟨c1, c2, c3, s, hs1, hs2, deficiency_nonneg N s hs1, linkage_deficiency_sum_le N s hs1⟩

/-! ### non-vacuity and the defect witness (evaluations are in `SynKitModel/Deficiency.lean`) -/

/-- `A + B ⇌ C`: two complexes, one class, weakly reversible, δ = 2 − 1 − 1 = 0. -/
example : complexes exF16 = [[1, 1, 0], [0, 0, 1]] ∧ complexArcs exF16 = [(0, 1), (1, 0)] ∧
    linkageClasses exF16 = [[0, 1]] ∧ weaklyReversible exF16 = true ∧
    computeSummary exF16 1 = .ok ⟨3, 2, 2, 1, 1, 0, true⟩ := exF16_repaired

example : ∀ C ∈ linkageClasses exF16, ∀ u ∈ C, ∀ v ∈ C, Reach (restrict (complexArcs exF16) C) u v :=
  (weakrev_spec exF16).1 exF16_repaired.2.2.2.1

/-- The hypotheses of `deficiency_nonneg` / `linkage_deficiency_sum_le` / `full` are satisfiable:
`A + B ⇌ C` has species and reactions, so the summary exists; there `n − ℓ = 1`, so the theorems say
`rank S ≤ 1`, `0 ≤ δ` and `Σ δ_ℓ ≤ δ` for its one linkage class `[0, 1]`. -/
example : ∃ s, computeSummary exF16 (stoichMatrix exF16).rank = .ok s ∧ 0 ≤ s.deficiency ∧
    (linkageDeficiencies exF16 ((linkageClasses exF16).map fun C => (classMatrix exF16 C).rank)).sum ≤ s.deficiency := by
  obtain ⟨_, _, _, s, h1, _, h3, h4⟩ := full exF16 (by decide) (by decide)
  exact ⟨s, h1, h3, h4⟩

example : (stoichMatrix exF16).rank ≤ 1 := by
  have := (stoich_rank_le exF16).1
  rwa [show (complexes exF16).length - (linkageClasses exF16).length = 1 by decide] at this

/-- Negation witness against the code before fix 0002: it lists the zero vector, which is neither
side of any reaction of `A + B ⇌ C`, so `complexes_spec` fails for it. -/
example : [0, 0, 0] ∈ (complexVectorsF16 exF16).1 ∧
    ¬ ∃ r ∈ exF16.reactions, [0, 0, 0] = vecOf exF16 r.reactants ∨ [0, 0, 0] = vecOf exF16 r.products := by
  refine ⟨by rw [exF16_unrepaired.1]; simp, ?_⟩
  rintro ⟨r, hr, h⟩
  simp only [exF16, List.mem_cons, List.not_mem_nil, or_false] at hr
  rcases hr with rfl | rfl <;> revert h <;> decide

end SynKit.Deficiency

/-! ## C19 on a bipartite NetworkX graph (the graph entry path of `_complex_vectors`)

Model: `SynKitModel/BipGraphViews.lean` (on top of `SynKitModel/BipGraph.lean`); lemmas:
`SynKitProofs/BipGraphViewsLemmas.lean`. `analysisNet g = viewNet (netOfGraph g)` is the network
the graph describes, in the order the analysis uses (species sorted by label, reactions in
`G.nodes` order). The hypothesis is `BipGraph.WF` (node ids distinct, species labels distinct,
coefficients non-negative) and nothing else: reaction labels play no role here, because
`_complex_vectors` visits the reaction nodes in `G.nodes` order and never sorts them. -/
namespace SynKit.BipGraph
open SynKit.Stoich SynKit.Deficiency SynKit.NetGraphAlg

/-- **C19, graph input: what `_complex_vectors` reads off the graph is what the model computes for
the described network.** For a well-formed bipartite graph `g` of any of the four NetworkX classes,
arcs written in either direction, parallel arcs, `stoich` possibly missing:
the complex list (the same vectors, as Python ints, in the same first-appearance order) and the
arcs of the complex graph read from `_as_bipartite(G)` are those of `Deficiency.complexVectors` on
`analysisNet g`; so is the reaction → (reactant complex, product complex) assignment, reaction by
reaction in node order; hence the linkage classes and the weak-reversibility verdict coincide. -/
theorem graphComplexes_eq (g : BipGraph) (wf : WF g) :
    graphComplexVectors g = liftVectors (complexVectors (analysisNet g)) ∧
    graphComplexes g = (complexes (analysisNet g)).map liftComplex ∧
    graphComplexArcs g = complexArcs (analysisNet g) ∧
    graphReactionComplexes g = (analysisNet g).reactions.map (fun rx =>
      (rx.id, liftComplex (vecOf (analysisNet g) rx.reactants),
        liftComplex (vecOf (analysisNet g) rx.products))) ∧
    graphLinkageClasses g = linkageClasses (analysisNet g) ∧
    graphWeaklyReversible g = weaklyReversible (analysisNet g) :=
  ⟨graphComplexVectors_eq g wf, by unfold graphComplexes; rw [graphComplexVectors_eq g wf]; rfl,
    graphComplexArcs_eq g wf, graphReactionComplexes_eq g wf, graphLinkageClasses_eq g wf,
    graphWeaklyReversible_eq g wf⟩

/-- **C19, graph input, the helper called on the graph as given.** `_complex_vectors(G)` with `G`
a `DiGraph` / `MultiDiGraph` (incident arcs `in_edges + out_edges`) or a `Graph` / `MultiGraph`
(its own `G.edges(r)` branch, never reached through `compute_summary`) returns the same complexes
and complex graph. -/
theorem graphComplexesRaw_eq (g : BipGraph) (wf : WF g) :
    graphComplexVectorsRaw g = liftVectors (complexVectors (analysisNet g)) ∧
    graphComplexVectorsRaw g = graphComplexVectors g :=
  ⟨graphComplexVectorsRaw_eq g wf, (graphComplexVectorsRaw_eq g wf).trans (graphComplexVectors_eq g wf).symm⟩

/-- **C19, graph input: `compute_summary`.** With the stoichiometric rank supplied, the summary read
off the graph (numbers of species / reaction nodes, of complexes, of linkage classes, deficiency,
weak reversibility) is `computeSummary` of the described network, the `ValueError` branch (no
species node or no reaction node) included. So every theorem of this file about `computeSummary`
(`deficiency_formula`, `deficiency_nonneg`, `linkage_deficiency_sum_le`, `full`) speaks about
graph inputs. -/
theorem graphSummary_eq (g : BipGraph) (wf : WF g) (rank : Nat) :
    graphSummary g rank = computeSummary (analysisNet g) rank := graphSummary_eq' g wf rank

/-- **C19, graph input: `complexes_spec` transferred.** The complexes read off a well-formed graph
are pairwise distinct and are exactly the reactant and product vectors of the reactions of the
described network. -/
theorem graphComplexes_spec (g : BipGraph) (wf : WF g) :
    (graphComplexes g).Nodup ∧
    ∀ v, v ∈ graphComplexes g ↔ ∃ rx ∈ (analysisNet g).reactions,
      v = liftComplex (vecOf (analysisNet g) rx.reactants) ∨
      v = liftComplex (vecOf (analysisNet g) rx.products) := by
  obtain ⟨hn, hm, _⟩ := complexes_spec (analysisNet g)
  rw [(graphComplexes_eq g wf).2.1]
  refine ⟨hn.map (fun a b h => liftComplex_inj h), fun v => ?_⟩
  rw [List.mem_map]
  constructor
  · rintro ⟨c, hc, rfl⟩
    obtain ⟨rx, hrx, h⟩ := (hm c).1 hc
    exact ⟨rx, hrx, h.imp (congrArg liftComplex) (congrArg liftComplex)⟩
  · rintro ⟨rx, hrx, h | h⟩
    · exact ⟨_, (hm _).2 ⟨rx, hrx, Or.inl rfl⟩, h.symm⟩
    · exact ⟨_, (hm _).2 ⟨rx, hrx, Or.inr rfl⟩, h.symm⟩

/-- **C19, graph input: direction of the arcs is irrelevant.** Reversing any subset of the arcs of
a directed graph changes nothing of what `_complex_vectors` / `compute_summary` produce. Hypotheses
as for `graphS_orientation_invariant` (C17) plus `IdsDistinct` (a species node is not a reaction
node): on a non-multi `DiGraph` no two arcs may occupy the same ordered pair before or after. -/
theorem graphComplexes_orientation_invariant (g g' : BipGraph) (hid : IdsDistinct g)
    (hn : g'.nodes = g.nodes) (hm : g'.multi = g.multi) (ha : Reoriented g.arcs g'.arcs)
    (hs : g.multi = true ∨ (ArcsSimple g ∧ ArcsSimple g')) :
    graphComplexVectors g' = graphComplexVectors g ∧
    graphComplexVectorsRaw g' = graphComplexVectorsRaw g ∧
    graphReactionComplexes g' = graphReactionComplexes g ∧
    graphLinkageClasses g' = graphLinkageClasses g ∧
    graphWeaklyReversible g' = graphWeaklyReversible g ∧
    ∀ rank, graphSummary g' rank = graphSummary g rank := by
  obtain ⟨h1, h2, _, h4, h5, h6, h7⟩ := complexes_congr g g' hid (sameReading_orientation g g' hn hm ha hs)
  exact ⟨h1, h2, h4, h5, h6, h7⟩

/-- **C19, graph input: undirected = directed.** An undirected graph (`Graph` / `MultiGraph`) and
the directed graph of the same multiplicity class holding the same edges, each written in an
arbitrary direction, give the same complexes, complex graph, classes, verdict and summary — and the
helper called on the undirected graph itself (`G.edges(r)` branch) agrees with both. -/
theorem graphComplexes_undirected_eq_directed (g g' : BipGraph) (hid : IdsDistinct g)
    (hn : g'.nodes = g.nodes) (hd : g.directed = false) (hd' : g'.directed = true)
    (hm : g'.multi = g.multi) (ha : Reoriented g.arcs g'.arcs) (hs : g.multi = true ∨ ArcsSimple g) :
    graphComplexVectors g' = graphComplexVectors g ∧
    graphComplexVectorsRaw g' = graphComplexVectorsRaw g ∧
    graphComplexVectorsRaw g = graphComplexVectors g ∧
    graphReactionComplexes g' = graphReactionComplexes g ∧
    graphLinkageClasses g' = graphLinkageClasses g ∧
    graphWeaklyReversible g' = graphWeaklyReversible g ∧
    ∀ rank, graphSummary g' rank = graphSummary g rank :=
  complexes_congr g g' hid (sameReading_undirected g g' hn hd hd' hm ha hs)

/-- **C19, graph input: a missing `stoich` is 1.** -/
theorem graphComplexes_missing_stoich (g g' : BipGraph) (hid : IdsDistinct g)
    (hn : g'.nodes = g.nodes) (hd : g'.directed = g.directed) (hm : g'.multi = g.multi)
    (ha : g'.arcs = g.arcs.map BArc.fillStoich) (hs : g.multi = true ∨ ArcsSimple g) :
    graphComplexVectors g' = graphComplexVectors g ∧
    graphComplexVectorsRaw g' = graphComplexVectorsRaw g ∧
    graphReactionComplexes g' = graphReactionComplexes g ∧
    graphLinkageClasses g' = graphLinkageClasses g ∧
    graphWeaklyReversible g' = graphWeaklyReversible g ∧
    ∀ rank, graphSummary g' rank = graphSummary g rank := by
  obtain ⟨h1, h2, _, h4, h5, h6, h7⟩ := complexes_congr g g' hid (sameReading_fill g g' hn hd hm ha hs)
  exact ⟨h1, h2, h4, h5, h6, h7⟩

/-! ### Non-vacuity: `a + 2 B ⇌ C` written as a graph

Reaction nodes are inserted backward reaction first (`r2` before `r1`), species not in label order;
`b` and `r1` are typed by the flag only, `c` carries `kind = "species"` and a contradicting flag,
`a` has no label (its label is its id). Two arcs have no `stoich`. -/

def c19Nodes : List BNode :=
  [⟨"r2", some "reaction", none, some "back"⟩, ⟨"c", some "species", some 1, some "C"⟩,
   ⟨"b", none, some 0, some "B"⟩, ⟨"r1", none, some 1, none⟩, ⟨"a", some "species", none, none⟩]

/-- canonical orientation -/
def c19Arcs : List BArc :=
  [⟨"a", "r1", some "reactant", none⟩, ⟨"b", "r1", some "reactant", some 2⟩, ⟨"r1", "c", some "product", some 1⟩,
   ⟨"c", "r2", some "reactant", none⟩, ⟨"r2", "a", some "product", some 1⟩, ⟨"r2", "b", some "product", some 2⟩]

/-- first, third and last arc written the other way round -/
def c19ArcsFlipped : List BArc :=
  [⟨"r1", "a", some "reactant", none⟩, ⟨"b", "r1", some "reactant", some 2⟩, ⟨"c", "r1", some "product", some 1⟩,
   ⟨"c", "r2", some "reactant", none⟩, ⟨"r2", "a", some "product", some 1⟩, ⟨"b", "r2", some "product", some 2⟩]

def c19Di : BipGraph := ⟨c19Nodes, c19Arcs, true, false⟩
def c19DiFlipped : BipGraph := ⟨c19Nodes, c19ArcsFlipped, true, false⟩
def c19Graph : BipGraph := ⟨c19Nodes, c19ArcsFlipped, false, false⟩
def c19Multi : BipGraph := ⟨c19Nodes, c19ArcsFlipped, false, true⟩

theorem c19Reoriented : Reoriented c19Arcs c19ArcsFlipped :=
  .flip _ (.keep _ (.flip _ (.keep _ (.keep _ (.flip _ .nil)))))

/-- (a): the hypothesis holds on all four spellings. -/
example : WF c19Di ∧ WF c19DiFlipped ∧ WF c19Graph ∧ WF c19Multi :=
  ⟨wf_of_wfCoreB _ (by decide), wf_of_wfCoreB _ (by decide), wf_of_wfCoreB _ (by decide),
    wf_of_wfCoreB _ (by decide)⟩

/-- (a): both sides are the expected value — species order `B, C, a`; reaction `r2` comes first, so
`C` is complex 0 and `2 B + a` complex 1; one linkage class, weakly reversible, δ = 2 − 1 − 1 = 0. -/
example : graphComplexVectors c19Graph = ([[0, 1, 0], [2, 0, 1]], [(0, 1), (1, 0)]) ∧
    liftVectors (complexVectors (analysisNet c19Graph)) = ([[0, 1, 0], [2, 0, 1]], [(0, 1), (1, 0)]) ∧
    graphComplexVectorsRaw c19Graph = ([[0, 1, 0], [2, 0, 1]], [(0, 1), (1, 0)]) ∧
    graphReactionComplexes c19Graph = [("r2", [0, 1, 0], [2, 0, 1]), ("r1", [2, 0, 1], [0, 1, 0])] ∧
    (analysisNet c19Graph).species = ["B", "C", "a"] ∧
    graphLinkageClasses c19Graph = [[0, 1]] ∧ graphWeaklyReversible c19Graph = true ∧
    graphSummary c19Graph 1 = .ok ⟨3, 2, 2, 1, 1, 0, true⟩ ∧
    computeSummary (analysisNet c19Graph) 1 = .ok ⟨3, 2, 2, 1, 1, 0, true⟩ := by decide

/-- The `ValueError` branch agrees too: a graph without reaction nodes. -/
example : graphSummary ⟨[⟨"a", some "species", none, none⟩], [], true, false⟩ 0 = .error .valueError ∧
    computeSummary (analysisNet ⟨[⟨"a", some "species", none, none⟩], [], true, false⟩) 0 = .error .valueError := by
  decide

/-- (c), orientation: hypotheses satisfiable on the `DiGraph`, both readings are the expected one. -/
example : IdsDistinct c19Di ∧ c19DiFlipped.nodes = c19Di.nodes ∧ Reoriented c19Di.arcs c19DiFlipped.arcs ∧
    ArcsSimple c19Di ∧ ArcsSimple c19DiFlipped ∧
    graphComplexVectors c19DiFlipped = ([[0, 1, 0], [2, 0, 1]], [(0, 1), (1, 0)]) ∧
    graphComplexVectors c19Di = ([[0, 1, 0], [2, 0, 1]], [(0, 1), (1, 0)]) :=
  ⟨by decide, rfl, c19Reoriented, by decide, by decide, by decide, by decide⟩

/-- (c), undirected = directed: `Graph` vs `DiGraph`, `MultiGraph`; hypotheses hold. -/
example : IdsDistinct c19Graph ∧ c19Graph.directed = false ∧ c19Di.directed = true ∧
    ArcsSimple c19Graph ∧ graphComplexVectors c19Multi = graphComplexVectors c19Di ∧
    graphComplexVectorsRaw c19Graph = graphComplexVectors c19Di := by decide

/-- (c), missing `stoich`: two of the six arcs have none; spelling it out changes nothing. -/
example : c19Multi.arcs.map BArc.fillStoich ≠ c19Multi.arcs ∧
    graphComplexVectors ⟨c19Nodes, c19Multi.arcs.map BArc.fillStoich, false, true⟩ = graphComplexVectors c19Multi := by
  decide

end SynKit.BipGraph

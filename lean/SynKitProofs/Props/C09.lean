import SynKitModel.RxnNorm
import SynKitProofs.RxnNormLemmas
/-!
# C09 — reaction normal forms preserve the reaction; equivalence checks are exact

Property theorems only; helper lemmas live in `SynKitProofs/RxnNormLemmas.lean`, the engine
theorem `isoDecide_iff` in `SynKitProofs/Match.lean`.

What is external and how it enters: the canonical labelling of the reactant graph is the
back-end's output (C08) — a parameter `lab`, or an order key `key` for a key-sorting back-end;
RDKit's canonical SMILES is the opaque `canon`, its properties are hypotheses of
`standardize_idem` / `standardize_perm`.
-/
namespace SynKit.RxnNorm
open SynKit SynKit.Match

/-- "The order key is relabel-invariant": renumbering the reaction (node ids and `atom_map`
values) moves the key along. -/
def KeyInvariant (key : LGraph → Nat → Nat) : Prop :=
  ∀ (G : LGraph) (π : Nat → Nat), Function.Injective π → ∀ v ∈ G.ids, key (sync (G.relabel π)) (π v) = key G v

/-- "The order key is injective": no two reactant atoms share a key — what "all reactant atoms
distinguishable" means for a key-sorting canonicaliser. -/
def KeyInjectiveOn (key : LGraph → Nat → Nat) (G : LGraph) : Prop :=
  ∀ a ∈ G.ids, ∀ b ∈ G.ids, key G a = key G b → a = b

/-- **C09, equivalence (any back-end).** For a fully mapped reaction and a back-end labelling that
is injective on the reactant atoms, the canonicaliser succeeds and the ITS graph of its output is
isomorphic (on the label pairs `typesGH` and the order pairs) to the ITS graph of the input. -/
theorem canonRxnWith_equiv (lab : Nat → Nat) (G H : LGraph) (h : FullyMapped G H)
    (hinj : ∀ a ∈ G.ids, ∀ b ∈ G.ids, lab a = lab b → a = b) :
    ∃ G' H', canonRxnWith lab G H = .ok (G', H') ∧ ∃ m, IsIso itsSel (itsOf G' H') (itsOf G H) m := by
  refine ⟨_, _, canonRxnWith_eq lab G H h hinj, ?_⟩
  obtain ⟨hG, hH, _, _, hHG, _, _, _⟩ := h
  have hext := extOf_inj lab G.ids hinj
  rw [itsOf_sync, relabel_extOf lab G.ids G (fun _ hv => hv) hG, relabel_extOf lab G.ids H hHG hH,
    itsOf_relabel hext]
  exact ⟨_, isIso_relabel hext itsSel _ (itsOf_wf G H hG hH)⟩

/-- **C09, equivalence (key-sorting back-end).** `canonRxn_equiv` of DESIGN §5. -/
theorem canonRxn_equiv (key : LGraph → Nat → Nat) (G H : LGraph) (h : FullyMapped G H) :
    ∃ G' H', canonRxn key G H = .ok (G', H') ∧ ∃ m, IsIso itsSel (itsOf G' H') (itsOf G H) m := by
  apply canonRxnWith_equiv _ G H h
  intro a ha b _ hab
  exact pos_inj _ a b ((mem_canonOrder key G a).2 ha) hab

/-- **C09, numbering independence.** With an order key that is relabel-invariant and injective on
the reactant atoms, the canonical reaction of any renumbering of a fully mapped reaction (ids and
maps sent through an injective `π` with positive values) *equals* the canonical reaction of the
original. -/
theorem canonRxn_numbering_indep (key : LGraph → Nat → Nat) (hkey : KeyInvariant key) (G H : LGraph)
    (h : FullyMapped G H) (hinj : KeyInjectiveOn key G)
    (π : Nat → Nat) (hπ : Function.Injective π) (hpos : ∀ v ∈ G.ids, 0 < π v) :
    canonRxn key (renumber π (G, H)).1 (renumber π (G, H)).2 = canonRxn key G H := by
  have h2 := fullyMapped_renumber hπ G H h hpos
  have hord := canonOrder_renumber key G (hkey G π hπ) hinj
  have hp : ∀ v, pos (canonOrder key (sync (G.relabel π))) (π v) = pos (canonOrder key G) v := by
    intro v; unfold pos; rw [hord, idxOf_map_inj hπ]
  unfold canonRxn
  simp only [renumber]
  rw [canonRxnWith_eq _ _ _ h2 (fun a ha b _ hab => pos_inj _ a b ((mem_canonOrder key _ a).2 ha) hab),
    canonRxnWith_eq _ G H h (fun a ha b _ hab => pos_inj _ a b ((mem_canonOrder key G a).2 ha) hab),
    sync_relabel_sync, sync_relabel_sync, relabel_relabel, relabel_relabel]
  simp only [hp]

/-- **C09, fixed point.** Under the same hypotheses on the key, the output of the canonicaliser
is a fixed point of the canonicaliser. -/
theorem canonRxn_fix (key : LGraph → Nat → Nat) (hkey : KeyInvariant key) (G H : LGraph)
    (h : FullyMapped G H) (hinj : KeyInjectiveOn key G) (G' H' : LGraph)
    (hout : canonRxn key G H = .ok (G', H')) : canonRxn key G' H' = .ok (G', H') := by
  obtain ⟨hG, hH, _, _, hHG, _, _, _⟩ := id h
  have hpi : ∀ a ∈ G.ids, ∀ b ∈ G.ids, pos (canonOrder key G) a = pos (canonOrder key G) b → a = b :=
    fun a ha b _ hab => pos_inj _ a b ((mem_canonOrder key G a).2 ha) hab
  have hext := extOf_inj _ G.ids hpi
  have hposv : ∀ v ∈ G.ids, 0 < extOf (pos (canonOrder key G)) G.ids v := by
    intro v hv; rw [extOf_eq _ _ _ hv]; unfold pos; omega
  have hform : canonRxn key G H = .ok ((renumber (extOf (pos (canonOrder key G)) G.ids) (G, H)).1,
      (renumber (extOf (pos (canonOrder key G)) G.ids) (G, H)).2) := by
    unfold canonRxn
    rw [canonRxnWith_eq _ G H h hpi]
    simp only [renumber]
    rw [← relabel_extOf _ G.ids G (fun _ hv => hv) hG, ← relabel_extOf _ G.ids H hHG hH]
  rw [hform] at hout
  injection hout with hout
  have e1 : G' = (renumber (extOf (pos (canonOrder key G)) G.ids) (G, H)).1 := (congrArg Prod.fst hout).symm
  have e2 : H' = (renumber (extOf (pos (canonOrder key G)) G.ids) (G, H)).2 := (congrArg Prod.snd hout).symm
  rw [e1, e2, canonRxn_numbering_indep key hkey G H h hinj _ hext hposv, hform]

/-- **C09, product atoms without a reactant partner never collide (repair of F23, commit 270bb6f).**
For well-formed `G`, `H` — `H` may have atoms whose map number does not occur in `G`, and the
`atom_map` attributes are arbitrary — and a back-end labelling that is injective on the reactant
atoms, the repaired canonicaliser never answers `collision` (nor `KeyError`); it raises `ValueError`
exactly when the product graph has no atom; otherwise it succeeds, the reactant graph is relabelled
by `lab`, and the product graph is relabelled by a (globally) injective `ρ` which sends every product
atom that shares its map number with a reactant atom to that atom's canonical id and every other
product atom to an id above all canonical reactant ids. (Both then get their maps synced.) -/
theorem canonRxnWith_unpaired_no_collision (lab : Nat → Nat) (G H : LGraph) (hG : G.WF) (hH : H.WF)
    (hinj : ∀ a ∈ G.ids, ∀ b ∈ G.ids, lab a = lab b → a = b) :
    canonRxnWith lab G H ≠ .error .collision ∧ canonRxnWith lab G H ≠ .error .missing ∧
    (H.nodes = [] → canonRxnWith lab G H = .error .emptyMap) ∧
    (H.nodes ≠ [] → ∃ ρ : Nat → Nat, Function.Injective ρ ∧
      canonRxnWith lab G H = .ok (sync (G.relabel lab), sync (H.relabel ρ)) ∧
      (∀ g h, (g, h) ∈ aamPairs (G.relabel lab) H → ρ h = g) ∧
      (∀ h ∈ H.ids, (∀ g, (g, h) ∉ aamPairs (G.relabel lab) H) → ∀ a ∈ G.ids, lab a < ρ h)) := by
  have hGc : (G.relabel lab).ids.Nodup := by
    rw [ids_relabel]; exact nodup_map_injOn lab G.ids hG.1 hinj
  obtain ⟨hE, hO⟩ := remapGraph_fullPairs (G.relabel lab) H hGc hH.1
  have hok : H.nodes ≠ [] → ∃ ρ : Nat → Nat, Function.Injective ρ ∧
      canonRxnWith lab G H = .ok (sync (G.relabel lab), sync (H.relabel ρ)) ∧
      (∀ g h, (g, h) ∈ aamPairs (G.relabel lab) H → ρ h = g) ∧
      (∀ h ∈ H.ids, (∀ g, (g, h) ∉ aamPairs (G.relabel lab) H) → ∀ a ∈ G.ids, lab a < ρ h) := by
    intro hn
    refine ⟨extOf (pairMap (fullPairs (G.relabel lab) H)) H.ids,
      extOf_inj _ _ (pairMap_fullPairs_injOn (G.relabel lab) H hGc hH.1), ?_, ?_, ?_⟩
    · rw [canonRxnWith_def, hO hn, ← relabel_extOf _ H.ids H (fun _ hv => hv) hH]
    · intro g h hm
      rw [extOf_eq _ _ _ (aamPairs_mem_ids hm).2]
      exact pairMap_fullPairs _ H hGc hH.1 g h (List.mem_append_left _ hm)
    · intro h hh hun a ha
      obtain ⟨n, hn'⟩ := unpairedPairs_cover (Gc := G.relabel lab) (pairs := aamPairs (G.relabel lab) H) hh
        (fun p hp e => hun p.1 (by rw [← e]; exact hp))
      rw [extOf_eq _ _ _ hh, pairMap_fullPairs _ H hGc hH.1 n h (List.mem_append_right _ hn')]
      exact (mem_unpairedPairs hn').1 _ (by rw [ids_relabel]; exact List.mem_map_of_mem ha)
  refine ⟨?_, ?_, ?_, hok⟩
  · by_cases hn : H.nodes = []
    · rw [canonRxnWith_def, hE hn]; simp
    · obtain ⟨ρ, _, e, _⟩ := hok hn
      rw [e]; simp
  · by_cases hn : H.nodes = []
    · rw [canonRxnWith_def, hE hn]; simp
    · obtain ⟨ρ, _, e, _⟩ := hok hn
      rw [e]; simp
  · intro hn
    rw [canonRxnWith_def, hE hn]

/-- **C09, equivalence with product atoms without a reactant partner (repair of F23).** With
`atom_map` = node id on both sides (positive on the reactant side) — the graphs `rsmi_to_graph`
builds — well-formed `G`, `H ≠ ∅` where `H` may have atoms that `G` does not have (and vice versa),
and a back-end labelling injective on the reactant atoms: the repaired canonicaliser succeeds, both
sides are relabelled by ONE injective `σ` that extends `lab` and sends the product-only atoms above
all canonical reactant ids, and the ITS graph of the output is isomorphic to that of the input. -/
theorem canonRxnWith_unpaired_equiv (lab : Nat → Nat) (G H : LGraph) (hG : G.WF) (hH : H.WF) (hne : H.nodes ≠ [])
    (hmG : ∀ p ∈ G.nodes, atomMapOf p.2 = 2 * (p.1 : Int)) (hmH : ∀ p ∈ H.nodes, atomMapOf p.2 = 2 * (p.1 : Int))
    (hpos : ∀ v ∈ G.ids, 0 < v) (hinj : ∀ a ∈ G.ids, ∀ b ∈ G.ids, lab a = lab b → a = b) :
    ∃ σ : Nat → Nat, Function.Injective σ ∧ (∀ v ∈ G.ids, σ v = lab v) ∧
      (∀ v ∈ H.ids, v ∉ G.ids → ∀ a ∈ G.ids, lab a < σ v) ∧
      canonRxnWith lab G H = .ok (sync (G.relabel σ), sync (H.relabel σ)) ∧
      ∃ m, IsIso itsSel (itsOf (sync (G.relabel σ)) (sync (H.relabel σ))) (itsOf G H) m := by
  obtain ⟨ρ, hρ, hres, hpair, hfresh⟩ := (canonRxnWith_unpaired_no_collision lab G H hG hH hinj).2.2.2 hne
  have hmem := mem_aamPairs_idMapped lab G H hG.1 hH.1 hmG hmH hpos
  have hfresh' : ∀ v ∈ H.ids, v ∉ G.ids → ∀ a ∈ G.ids, lab a < ρ v :=
    fun v hv hvG => hfresh v hv (fun g hm => hvG ((hmem g v).1 hm).1)
  let σ0 : Nat → Nat := fun v => if v ∈ G.ids then lab v else ρ v
  have hσ0G : ∀ v ∈ G.ids, σ0 v = lab v := fun v hv => if_pos hv
  have hσ0H : ∀ v, v ∉ G.ids → σ0 v = ρ v := fun v hv => if_neg hv
  have hinj0 : ∀ a ∈ G.ids ++ H.ids, ∀ b ∈ G.ids ++ H.ids, σ0 a = σ0 b → a = b := by
    intro a ha b hb hab
    by_cases haG : a ∈ G.ids <;> by_cases hbG : b ∈ G.ids
    · rw [hσ0G a haG, hσ0G b hbG] at hab; exact hinj a haG b hbG hab
    · rw [hσ0G a haG, hσ0H b hbG] at hab
      have hbH : b ∈ H.ids := (List.mem_append.1 hb).resolve_left hbG
      have := hfresh' b hbH hbG a haG
      omega
    · rw [hσ0H a haG, hσ0G b hbG] at hab
      have haH : a ∈ H.ids := (List.mem_append.1 ha).resolve_left haG
      have := hfresh' a haH haG b hbG
      omega
    · rw [hσ0H a haG, hσ0H b hbG] at hab; exact hρ hab
  have hσ := extOf_inj σ0 (G.ids ++ H.ids) hinj0
  have hσG : ∀ v ∈ G.ids, extOf σ0 (G.ids ++ H.ids) v = lab v := by
    intro v hv; rw [extOf_eq _ _ _ (List.mem_append_left _ hv), hσ0G v hv]
  have hσH : ∀ v ∈ H.ids, extOf σ0 (G.ids ++ H.ids) v = ρ v := by
    intro v hv
    rw [extOf_eq _ _ _ (List.mem_append_right _ hv)]
    by_cases hvG : v ∈ G.ids
    · rw [hσ0G v hvG, hpair (lab v) v ((hmem (lab v) v).2 ⟨hvG, hv, rfl⟩)]
    · exact hσ0H v hvG
  have eG : G.relabel lab = G.relabel (extOf σ0 (G.ids ++ H.ids)) :=
    relabel_congr G _ _ (fun v hv => (hσG v hv).symm) (fun e he => ⟨(hG.2.1 e he).1, (hG.2.1 e he).2.1⟩)
  have eH : H.relabel ρ = H.relabel (extOf σ0 (G.ids ++ H.ids)) :=
    relabel_congr H _ _ (fun v hv => (hσH v hv).symm) (fun e he => ⟨(hH.2.1 e he).1, (hH.2.1 e he).2.1⟩)
  refine ⟨extOf σ0 (G.ids ++ H.ids), hσ, hσG, ?_, ?_, ?_⟩
  · intro v hv hvG a ha
    rw [hσH v hv]; exact hfresh' v hv hvG a ha
  · rw [hres, eG, eH]
  · rw [itsOf_sync, itsOf_relabel hσ]
    exact ⟨_, isIso_relabel hσ itsSel _ (itsOf_wf G H hG hH)⟩

/-- **C09, atom order (canonical order).** The canonical order depends on the *set* of node ids
and on the key only, not on the order in which the atoms are listed. -/
theorem canonOrder_atom_order_indep (key : LGraph → Nat → Nat) (G G₂ : LGraph) (hp : G₂.ids.Perm G.ids)
    (hk : ∀ v, key G₂ v = key G v) : canonOrder key G₂ = canonOrder key G := by
  unfold canonOrder
  have : key G₂ = key G := funext hk
  rw [this]
  exact sortBy_perm_eq _ _ _ hp (keyLe_total _) (keyLe_trans _) (fun a _ b _ => keyLe_antisymm _ a b)

/-- **C09, atom order (canonical reaction).** Listing the atoms and bonds of a fully mapped
reaction in another order (same key) gives canonical graphs with the same nodes and edges, listed
in the correspondingly permuted order. -/
theorem canonRxn_atom_order_indep (key : LGraph → Nat → Nat) (G H G₂ H₂ : LGraph)
    (h : FullyMapped G H) (h₂ : FullyMapped G₂ H₂)
    (hGn : G₂.nodes.Perm G.nodes) (hGe : G₂.edges.Perm G.edges)
    (hHn : H₂.nodes.Perm H.nodes) (hHe : H₂.edges.Perm H.edges) (hk : ∀ v, key G₂ v = key G v) :
    ∃ A B A₂ B₂, canonRxn key G H = .ok (A, B) ∧ canonRxn key G₂ H₂ = .ok (A₂, B₂) ∧
      A₂.nodes.Perm A.nodes ∧ A₂.edges.Perm A.edges ∧ B₂.nodes.Perm B.nodes ∧ B₂.edges.Perm B.edges := by
  have hord := canonOrder_atom_order_indep key G G₂ (hGn.map _) hk
  refine ⟨_, _, _, _,
    canonRxnWith_eq _ G H h (fun a ha b _ hab => pos_inj _ a b ((mem_canonOrder key G a).2 ha) hab),
    canonRxnWith_eq _ G₂ H₂ h₂ (fun a ha b _ hab => pos_inj _ a b ((mem_canonOrder key G₂ a).2 ha) hab), ?_⟩
  rw [hord]
  exact ⟨(hGn.map _).map _, hGe.map _, (hHn.map _).map _, hHe.map _⟩

/-- **C09, validator exact.** On well-formed reactions the validator's verdict (method ITS or RC)
is true exactly when the ITS graphs (reaction centres) are isomorphic on the label pairs and the
order pairs. -/
theorem aamCheck_iff_iso (m : Method) (R₁ R₂ : LGraph × LGraph) (h1 : R₂.1.WF) (h2 : R₂.2.WF) :
    aamCheck m R₁ R₂ = true ↔ ∃ μ, IsIso itsSel (view m R₁) (view m R₂) μ :=
  isoDecide_iff itsSel (view m R₁) (view m R₂) (view_wf m R₂ h1 h2)

/-- **C09, renumberings accepted.** Every renumbering of a mapping (ids and maps of both sides sent
through an injective `π`) is accepted against the original, by both methods. -/
theorem aamCheck_renumber (m : Method) (R : LGraph × LGraph) (h1 : R.1.WF) (h2 : R.2.WF)
    (π : Nat → Nat) (hπ : Function.Injective π) : aamCheck m (renumber π R) R = true := by
  rw [aamCheck_iff_iso m _ R h1 h2, view_renumber hπ]
  exact ⟨_, isIso_relabel hπ itsSel _ (view_wf m R h1 h2)⟩

/-- **C09, balance.** The balance check answers true exactly when every element (hydrogens
included) occurs equally often on both sides and the total charges agree. -/
theorem balanced_iff (G H : LGraph) :
    balanced G H = true ↔ (∀ e, (atomsOf G).count e = (atomsOf H).count e) ∧ chargeOf G = chargeOf H := by
  unfold balanced formula
  rw [decide_eq_true_eq, Prod.mk.injEq, table_eq_iff]

/-- **C09, standardisation idempotent.** Hypothesis on the opaque `canon` (RDKit, trusted):
re-parsing a canonical fragment string (after the `[HH]` rewrite) and canonicalising again gives
the same string. -/
theorem standardize_idem {M : Type} (canon : M → String) (post : String → String) (parse : String → M)
    (hcanon : ∀ m, canon (parse (post (canon m))) = canon m) (R : List M × List M) :
    standardize canon post (((standardize canon post R).1.map parse), ((standardize canon post R).2.map parse)) =
      standardize canon post R := by
  have side : ∀ fr : List M, stdSide canon post ((stdSide canon post fr).map parse) = stdSide canon post fr := by
    intro fr
    unfold stdSide
    have hid : (((sortBy strLe (fr.map canon)).map post).map parse).map canon = sortBy strLe (fr.map canon) := by
      rw [List.map_map, List.map_map]
      conv => rhs; rw [← List.map_id (sortBy strLe (fr.map canon))]
      apply List.map_congr_left
      intro x hx
      obtain ⟨m, _, rfl⟩ := List.mem_map.1 ((mem_sortBy _ _ _).1 hx)
      simp only [Function.comp_def, hcanon, id]
    rw [hid, sortBy_of_sorted _ _ (sortBy_sorted _ _ strLe_total strLe_trans)]
  unfold standardize
  simp only [side]

/-- **C09, standardisation invariant.** If the fragments of two reactions have, side by side, the
same canonical strings up to order (fragment order permuted; atom order / map numbers changed inside
a fragment, under which `canon` is invariant — RDKit, trusted), the standard forms are equal. -/
theorem standardize_perm {M : Type} (canon : M → String) (post : String → String) (R R' : List M × List M)
    (h1 : (R.1.map canon).Perm (R'.1.map canon)) (h2 : (R.2.map canon).Perm (R'.2.map canon)) :
    standardize canon post R = standardize canon post R' := by
  unfold standardize stdSide
  rw [sortBy_perm_eq strLe _ _ h1 strLe_total strLe_trans (fun a _ b _ => strLe_antisymm a b),
    sortBy_perm_eq strLe _ _ h2 strLe_total strLe_trans (fun a _ b _ => strLe_antisymm a b)]

/-- The same, phrased with a rewriting `rw` of molecules under which `canon` is invariant, and a
permutation of the fragments. -/
theorem standardize_rewrite {M : Type} (canon : M → String) (post : String → String) (rw : M → M)
    (hinv : ∀ m, canon (rw m) = canon m) (R R' : List M × List M)
    (h1 : R'.1.Perm (R.1.map rw)) (h2 : R'.2.Perm (R.2.map rw)) :
    standardize canon post R' = standardize canon post R := by
  apply standardize_perm
  · have := h1.map canon
    rwa [List.map_map, show (canon ∘ rw) = canon from funext hinv] at this
  · have := h2.map canon
    rwa [List.map_map, show (canon ∘ rw) = canon from funext hinv] at this

/-! ## Non-vacuity: the hypotheses are satisfiable on a concrete reaction -/
section NonVacuity

def exAtom (el : String) (h : Int) (m : Nat) : Attrs :=
  [("element", .str el), ("aromatic", .bool false), ("hcount", .num (2 * h)), ("charge", .num 0),
   ("atom_map", .num (2 * (m : Int)))]
def exBond (o : Int) : Attrs := [("order", .num o)]

/-- ethanol → ethene + water, `[CH3:1][CH2:2][OH:3]>>[CH2:1]=[CH2:2].[OH2:3]` (orders in half-units). -/
def exG : LGraph :=
  { nodes := [(1, exAtom "C" 3 1), (2, exAtom "C" 2 2), (3, exAtom "O" 1 3)], edges := [(1, 2, exBond 2), (2, 3, exBond 2)] }
def exH : LGraph :=
  { nodes := [(1, exAtom "C" 2 1), (2, exAtom "C" 2 2), (3, exAtom "O" 2 3)], edges := [(1, 2, exBond 4)] }
/-- The products with the maps of a carbon and the oxygen exchanged (a wrong mapping). -/
def exHswapCO : LGraph :=
  { nodes := [(3, exAtom "C" 2 3), (2, exAtom "C" 2 2), (1, exAtom "O" 2 1)], edges := [(3, 2, exBond 4)] }

/-- An order key that is relabel-invariant by construction: the hydrogen count. -/
def hKey (G : LGraph) (v : Nat) : Nat := (intOf (G.attrs v) "hcount").toNat

example : KeyInvariant hKey := by
  intro G π hπ v _
  unfold hKey intOf
  rw [get_attrs_sync _ _ _ (by decide), attrs_relabel hπ]

example : FullyMapped exG exH := by decide
example : KeyInjectiveOn hKey exG := by unfold KeyInjectiveOn; decide
/-- the canonical order puts OH (1 H) first, then CH2, then CH3: ids 3, 2, 1 become 1, 2, 3. -/
example : (canonRxn hKey exG exH).toOption.map (fun o => (o.1.ids, o.2.ids)) = some ([3, 2, 1], [3, 2, 1]) := by
  decide
/-- `[CH3:1][OH:4]>>[CH3:1][OH:4].[OH2:2]`: the water oxygen (map 2) has no reactant partner. -/
def exG2 : LGraph :=
  { nodes := [(1, exAtom "C" 3 1), (4, exAtom "O" 1 4)], edges := [(1, 4, exBond 2)] }
def exH2 : LGraph :=
  { nodes := [(1, exAtom "C" 3 1), (4, exAtom "O" 1 4), (2, exAtom "O" 2 2)], edges := [(1, 4, exBond 2)] }

/-- the hypotheses of `canonRxnWith_unpaired_no_collision` / `_equiv` hold, the reaction is not fully mapped … -/
example : exG2.WF ∧ exH2.WF ∧ exH2.nodes ≠ [] ∧ ¬ FullyMapped exG2 exH2 ∧
    (∀ p ∈ exG2.nodes, atomMapOf p.2 = 2 * (p.1 : Int)) ∧ (∀ p ∈ exH2.nodes, atomMapOf p.2 = 2 * (p.1 : Int)) ∧
    (∀ v ∈ exG2.ids, 0 < v) ∧ KeyInjectiveOn hKey exG2 := by
  unfold KeyInjectiveOn; decide
/-- … before the repair (shared-map pairs only: OH 4 ↦ 1, CH3 1 ↦ 2, the water oxygen keeps 2) it collided … -/
example : aamPairs (exG2.relabel (pos (canonOrder hKey exG2))) exH2 = [(2, 1), (1, 4)] ∧
    remapGraph exH2 (aamPairs (exG2.relabel (pos (canonOrder hKey exG2))) exH2) = .error .collision := by decide
/-- … and now the water oxygen gets the fresh id 3. -/
example : unpairedPairs (exG2.relabel (pos (canonOrder hKey exG2))) exH2
      (aamPairs (exG2.relabel (pos (canonOrder hKey exG2))) exH2) = [(3, 2)] ∧
    (canonRxn hKey exG2 exH2).toOption.map (fun o => (o.1.ids, o.2.ids, o.2.edges.map fun e => (e.1, e.2.1))) =
      some ([2, 1], [2, 1, 3], [(2, 1)]) := by decide
example : aamCheck .its (renumber (· + 10) (exG, exH)) (exG, exH) = true := by decide
/-- a transposition of two non-equivalent centre atoms on the product side is rejected by both methods. -/
example : aamCheck .its (exG, exHswapCO) (exG, exH) = false ∧ aamCheck .rc (exG, exHswapCO) (exG, exH) = false := by
  decide
example : balanced exG exH = true ∧ balanced exG { exH with nodes := exH.nodes.take 2 } = false := by decide
example : standardize (M := String) id id (["b", "a"], ["c"]) = (["a", "b"], ["c"]) := by decide

end NonVacuity

/-- C09 at full strength over the model (readings of DESIGN §5a; RDKit's part as hypotheses). -/
def C09.FullStatement : Prop :=
  (∀ (key : LGraph → Nat → Nat) (G H : LGraph), FullyMapped G H →
    (∃ G' H', canonRxn key G H = .ok (G', H') ∧ ∃ m, IsIso itsSel (itsOf G' H') (itsOf G H) m) ∧
    (KeyInvariant key → KeyInjectiveOn key G →
      (∀ G' H', canonRxn key G H = .ok (G', H') → canonRxn key G' H' = .ok (G', H')) ∧
      (∀ π : Nat → Nat, Function.Injective π → (∀ v ∈ G.ids, 0 < π v) →
        canonRxn key (renumber π (G, H)).1 (renumber π (G, H)).2 = canonRxn key G H))) ∧
  (∀ (m : Method) (R₁ R₂ : LGraph × LGraph), R₂.1.WF → R₂.2.WF →
    (aamCheck m R₁ R₂ = true ↔ ∃ μ, IsIso itsSel (view m R₁) (view m R₂) μ) ∧
    (∀ π : Nat → Nat, Function.Injective π → aamCheck m (renumber π R₂) R₂ = true)) ∧
  (∀ G H : LGraph, balanced G H = true ↔
    (∀ e, (atomsOf G).count e = (atomsOf H).count e) ∧ chargeOf G = chargeOf H) ∧
  (∀ (M : Type) (canon : M → String) (post : String → String) (parse : String → M),
    (∀ m, canon (parse (post (canon m))) = canon m) →
    (∀ R, standardize canon post (((standardize canon post R).1.map parse), ((standardize canon post R).2.map parse)) =
      standardize canon post R) ∧
    (∀ R R' : List M × List M, (R.1.map canon).Perm (R'.1.map canon) → (R.2.map canon).Perm (R'.2.map canon) →
      standardize canon post R = standardize canon post R'))

theorem C09.fullStatement : C09.FullStatement :=
  ⟨fun key G H h => ⟨canonRxn_equiv key G H h, fun hk hi =>
      ⟨fun G' H' => canonRxn_fix key hk G H h hi G' H', fun π hπ hp => canonRxn_numbering_indep key hk G H h hi π hπ hp⟩⟩,
   fun m R₁ R₂ h1 h2 => ⟨aamCheck_iff_iso m R₁ R₂ h1 h2, fun π hπ => aamCheck_renumber m R₂ h1 h2 π hπ⟩,
   balanced_iff,
   fun _ canon post parse hc => ⟨standardize_idem canon post parse hc, standardize_perm canon post⟩⟩

end SynKit.RxnNorm

import SynKitProofs.ReactorInvLemmas
import SynKitProofs.Props.C05
import SynKitProofs.ReactorLink
import SynKitProofs.ReactorITSLink
import SynKitProofs.Props.C03
/-!
# C04 — applying a reaction's own template regenerates it, forwards and backwards

Property text: *for every balanced mapped reaction whose hydrogens are written consistently, the
template extracted from it (full ITS or reaction centre) applied to its unmapped reactants yields
the reaction among the results, and the same template applied backwards to its unmapped products
yields it as well; for every atom-map renumbering and every SMILES rewriting of the reaction.*

The template is drawn on the node ids of the mapped reaction; so is its prepared left-hand
pattern `P`.  The substrate is the reactant graph `G` (products when applied backwards) with its
map numbers forgotten, i.e. `G.relabel f` for some injective `f` (any SMILES rewriting is such an
`f`).  The argument has three steps:

1. the inclusion `P ↪ G` is a label-preserving monomorphism (`id_isMono`: `P` keeps a subset of
   the nodes and edges of `G`, equal selected labels, hydrogen counts only lowered —
   `SubPattern`), the exhaustive search enumerates it (`id_mem_allMonos`, proved directly on the
   back-tracking enumerator, so independent of the engine's soundness/completeness theorem), and its
   renumbering `f ∘ id` is enumerated in the renumbered substrate (`C05`'s relabelling theorem);
2. pruning keeps a match that glues to the same reactions (`PruneSound`, proved for the repaired
   pruning in `Props/C05.lean`);
3. gluing along that match rebuilds the reaction (`GlueRebuilds` — C03's theorem
   `glue G T id ≈ construct G H`, which needs `RcComplete G H`: every atom whose hydrogen count or
   charge differs between the sides is an end of a changed bond; vacuous for the full ITS, FALSE
   for centre templates of reactions like phosphate protonation — finding F10).

Steps 1 and 2 are proved here for all inputs; step 3 is a named hypothesis because the glue step
is modelled by C03.  Hence `own_template_regenerates_partial`.  The last section of this file
discharges step 3 for the concrete glue model under `RcComplete`
(`C04.glueRebuilds_concrete_partial`, `C04.own_template_regenerates_concrete_partial`), and the section
after it discharges `OwnTemplate` / `RcComplete` for the graphs of the ITS family (`ITS.construct`,
`ITS.getRc`) from hypotheses on the two molecule graphs only, adds the backward direction (`invert`),
the component-aware and fallback strategies, and a version without the restriction on aromatic flags /
`neighbors` entries (`ItsCoreEquiv`).  `SubPattern` is decidable and is
evaluated by the driver (`rinv.subpattern`, `rinv.id_in_monos`) on the graphs the implementation
really builds, see `harness/props/c04.py`.
-/
namespace SynKit.ReactorInv
open SynKit SynKit.Match

variable {R : Type}

/-! ### Step 1: the identity embedding -/

theorem subPatternB_iff (sel : Sel) (H P : LGraph) : subPatternB sel H P = true ↔ SubPattern sel H P := by
  unfold subPatternB SubPattern
  rw [Bool.and_eq_true, List.all_eq_true, List.all_eq_true]
  constructor
  · rintro ⟨h1, h2⟩
    refine ⟨fun v hv => ?_, fun e he => ?_⟩
    · have := h1 v hv
      rw [Bool.and_eq_true, List.contains_iff_mem] at this
      exact this
    · have := h2 e he
      cases hx : H.edge? e.1 e.2.1 with
      | none => rw [hx] at this; cases this
      | some ea => rw [hx] at this; exact ⟨ea, rfl, this⟩
  · rintro ⟨h1, h2⟩
    refine ⟨fun v hv => ?_, fun e he => ?_⟩
    · rw [Bool.and_eq_true, List.contains_iff_mem]; exact h1 v hv
    · obtain ⟨ea, hea, hok⟩ := h2 e he
      rw [hea]; exact hok

/-- **C04, first step.** The inclusion of a sub-pattern is a label-preserving monomorphism. -/
theorem id_isMono (sel : Sel) (H P : LGraph) (hP : P.WF) (h : SubPattern sel H P) :
    IsMono sel H P (idMap P) := by
  refine ⟨?_, ?_, ?_, ?_⟩
  · simp [idMap, List.map_map, Function.comp_def]
  · have : (idMap P).map (·.2) = P.ids := by simp [idMap, List.map_map, Function.comp_def]
    rw [this]; exact hP.1
  · intro ph hph
    simp only [idMap, List.mem_map] at hph
    obtain ⟨v, hv, rfl⟩ := hph
    exact h.1 v hv
  · intro e he
    obtain ⟨ea, hea, hok⟩ := h.2 e he
    obtain ⟨hu, hv, _⟩ := hP.2.1 e he
    exact ⟨e.1, e.2.1, ea, idMap_get? P.ids e.1 hu, idMap_get? P.ids e.2.1 hv, hea, hok⟩

/-- … hence it is enumerated by the exhaustive search (proved directly on the enumerator: the identity
assignment passes `extendOk` at every level; only `P.ids.Nodup` is needed of `P`). -/
theorem id_mem_allMonos (sel : Sel) (H P : LGraph) (hP : P.ids.Nodup) (h : SubPattern sel H P) :
    idMap P ∈ allMonos sel H P := by
  have := id_mem_extend sel H P h [] P.ids (by simpa using hP) (fun v hv => hv)
  simpa [idMap, allMonos] using this

/-- **Constructive form of the C04 premise.** A pattern obtained from `G` by keeping a subset of the
nodes, a subset of the edges between kept nodes, and lowering hydrogen counts is a sub-pattern of
`G` — for every selection of compared attributes that does not compare `hcount` exactly. -/
theorem subPattern_of_subPatternOf (sel : Sel) (G : LGraph) (hG : G.WF) (hk : "hcount" ∉ sel.nodeKeys)
    (keep : Nat → Bool) (keepE : Nat → Nat → Bool) (capH : Nat → Int) :
    SubPattern sel G (subPatternOf G keep keepE capH) := by
  constructor
  · intro v hv
    have hv' : v ∈ G.ids ∧ keep v = true := by
      simp only [subPatternOf, LGraph.ids, List.map_map, List.mem_map, List.mem_filter, Function.comp] at hv
      obtain ⟨p, ⟨hp, hkp⟩, rfl⟩ := hv
      exact ⟨List.mem_map.2 ⟨p, hp, rfl⟩, hkp⟩
    refine ⟨hv'.1, ?_⟩
    obtain ⟨a, ha⟩ := mem_ids_find G v hv'.1
    have hGa : G.attrs v = a := by simp [LGraph.attrs, ha]
    have hPa : (subPatternOf G keep keepE capH).attrs v =
        Dict.set a "hcount" (Val.num (min (hcountOf a) (capH v))) := by
      simp only [LGraph.attrs, subPatternOf]
      rw [find_map_id, find_filter_id _ _ _ hv'.2, ha]
      rfl
    rw [hGa, hPa]
    exact nodeOk_set_hcount sel a _ hk (Int.min_le_left _ _)
  · intro e he
    have he' : e ∈ G.edges := (List.mem_filter.1 he).1
    exact ⟨e.2.2, edge?_of_mem G hG e he', edgeOk_refl sel _⟩

/-- … so the own match is enumerated whenever the pattern arises from the substrate graph in that way. -/
theorem id_mem_allMonos_subPatternOf (sel : Sel) (G : LGraph) (hG : G.WF) (hk : "hcount" ∉ sel.nodeKeys)
    (keep : Nat → Bool) (keepE : Nat → Nat → Bool) (capH : Nat → Int) :
    idMap (subPatternOf G keep keepE capH) ∈ allMonos sel G (subPatternOf G keep keepE capH) :=
  id_mem_allMonos sel G _ (subPatternOf_ids_nodup G hG.1 keep keepE capH)
    (subPattern_of_subPatternOf sel G hG hk keep keepE capH)

/-! ### Steps 2 and 3 -/

/-- Gluing the host (the own reactant graph, renumbered by `f`) with its own template along the
(renumbered) identity match yields the reaction `target` (C03: `glue_left_unchanged`,
`glue_rc_image` under `RcComplete`, plus `GlueEquivariant`). -/
def GlueRebuilds (X : Reactor R) (dir : Bool) (G T : LGraph) (f : Nat → Nat) (target : R) : Prop :=
  ∃ r ∈ X.glue dir (G.relabel f) T (relabelHost f (idMap (X.pattern dir T))), X.equiv r target

/-- **C04, proved part (one direction, any strategy that is complete on the own match).**
If the prepared pattern of the own template is a sub-pattern of the substrate-side graph `G`,
then for every renumbering `f` of the substrate the reaction is among the results — provided the
search returns every match of the exhaustive enumerator on this substrate (`hsearch`; trivial for
the exhaustive strategy, see `own_template_regenerates_all_partial`; for the fallback strategy it
holds whenever the component-aware search is empty or itself contains the own match; for the
component-aware strategy it fails by design when the substrate has more components than the
pattern — the documented `strict_cc_count` guard), pruning is sound and the glue step rebuilds the reaction
along the identity match.  Missing for the unconditional statement: `GlueRebuilds` (C03, needs
`RcComplete`; false for F10 inputs) and completeness of the explicit-hydrogen re-match (false for
F20 inputs). -/
theorem own_template_regenerates_partial (X : Reactor R) (hE : Equivalence X.equiv)
    (s : Strategy) (dir : Bool) (G T : LGraph) (f : Nat → Nat) (hf : Function.Injective f) (target : R)
    (hP : (X.pattern dir T).WF)
    (hsub : SubPattern X.sel G (X.pattern dir T))
    (hsearch : ∀ m, m ∈ allMonos X.sel (G.relabel f) (X.pattern dir T) → m ∈ X.search s (G.relabel f) (X.pattern dir T))
    (hprune : PruneSound X)
    (hglue : GlueRebuilds X dir G T f target) :
    ∃ r ∈ X.results s dir (G.relabel f) T, X.equiv r target := by
  -- step 1: the renumbered identity is a raw match
  have hid : idMap (X.pattern dir T) ∈ allMonos X.sel G (X.pattern dir T) := id_mem_allMonos _ _ _ hP.1 hsub
  have hraw : relabelHost f (idMap (X.pattern dir T)) ∈ X.search s (G.relabel f) (X.pattern dir T) :=
    hsearch _ ((allMonos_relabel_host X.sel G _ f hf _).2 ⟨_, hid, rfl⟩)
  -- step 3 on the raw list
  obtain ⟨r, hr, hrt⟩ := hglue
  have hru : r ∈ X.resultsUnpruned s dir (G.relabel f) T := List.mem_flatMap.2 ⟨_, hraw, hr⟩
  -- step 2: pruning keeps an equivalent result
  obtain ⟨r', hr', e⟩ := (hprune dir (G.relabel f) T _).2 r hru
  exact ⟨r', hr', hE.trans (hE.symm e) hrt⟩

/-- **C04, exhaustive strategy:** no search hypothesis is needed. -/
theorem own_template_regenerates_all_partial (X : Reactor R) (hE : Equivalence X.equiv)
    (hall : ∀ H P, X.search .all H P = allMonos X.sel H P)
    (dir : Bool) (G T : LGraph) (f : Nat → Nat) (hf : Function.Injective f) (target : R)
    (hP : (X.pattern dir T).WF) (hsub : SubPattern X.sel G (X.pattern dir T))
    (hprune : PruneSound X) (hglue : GlueRebuilds X dir G T f target) :
    ∃ r ∈ X.results .all dir (G.relabel f) T, X.equiv r target :=
  own_template_regenerates_partial X hE .all dir G T f hf target hP hsub (fun m hm => by rw [hall]; exact hm) hprune hglue

/-- **C04 backwards.** Backward application is forward application of the inverted template to the
product graph: the same theorem at `dir = true`, stated with both directions side by side. -/
theorem own_template_backward_partial (X : Reactor R) (hE : Equivalence X.equiv)
    (hall : ∀ H P, X.search .all H P = allMonos X.sel H P)
    (G H T : LGraph) (f g : Nat → Nat) (hf : Function.Injective f) (hg : Function.Injective g) (target : R)
    (hPf : (X.pattern false T).WF) (hPb : (X.pattern true T).WF)
    (hsubf : SubPattern X.sel G (X.pattern false T)) (hsubb : SubPattern X.sel H (X.pattern true T))
    (hprune : PruneSound X)
    (hgf : GlueRebuilds X false G T f target) (hgb : GlueRebuilds X true H T g target) :
    (∃ r ∈ X.results .all false (G.relabel f) T, X.equiv r target) ∧
    (∃ r ∈ X.results .all true (H.relabel g) T, X.equiv r target) :=
  ⟨own_template_regenerates_all_partial X hE hall false G T f hf target hPf hsubf hprune hgf,
   own_template_regenerates_all_partial X hE hall true H T g hg target hPb hsubb hprune hgb⟩

/-- **C04 at full strength** (Appendix A of DESIGN.md) over the abstract reactor and the abstract
ITS construction: `construct G H` the full ITS, `getRc` its centre, `unmap` forgetting map numbers
and making hydrogens implicit, `HConsistent` the precondition on how hydrogens are written,
`target G H` the reaction itself as a result.  For the real stages this statement is FALSE on the
pinned tree (findings F10 and F20: a centre template cannot carry a charge / hydrogen change on an
atom without a changed bond; a pattern atom with both an explicit hydrogen and a positive count
defeats the explicit re-match), which the implementation-level check reports as KNOWN findings. -/
def C04.FullStatement (X : Reactor R) (construct : LGraph → LGraph → LGraph) (getRc : LGraph → LGraph)
    (unmap : LGraph → LGraph) (HConsistent : LGraph → LGraph → Prop) (target : LGraph → LGraph → R) : Prop :=
  ∀ (G H : LGraph), G.WF → H.WF → G.ids.Perm H.ids → HConsistent G H →
    ∀ T ∈ [construct G H, getRc (construct G H)], ∀ (s : Strategy) (f : Nat → Nat), Function.Injective f →
      (∃ r ∈ X.results s false ((unmap G).relabel f) T, X.equiv r (target G H)) ∧
      (∃ r ∈ X.results s true ((unmap H).relabel f) T, X.equiv r (target G H))

/-! ### Non-vacuity -/

section Examples

private def ethanol : LGraph :=
  { nodes := [(1, [("element", .str "C"), ("hcount", .num 6)]), (2, [("element", .str "C"), ("hcount", .num 4)]),
              (3, [("element", .str "O"), ("hcount", .num 2)])],
    edges := [(1, 2, [("order", .num 2)]), (2, 3, [("order", .num 2)])] }

/-- the C–O part of ethanol with lowered hydrogen counts (what a centre template keeps) -/
private def centreCO : LGraph :=
  { nodes := [(2, [("element", .str "C"), ("hcount", .num 0)]), (3, [("element", .str "O"), ("hcount", .num 2)])],
    edges := [(2, 3, [("order", .num 2)])] }

private def selEO' : Sel := { nodeKeys := ["element"], edgeKeys := ["order"] }

example : centreCO.WF := by decide
/-- the centre pattern above is literally a restriction of ethanol (nodes 2,3; hydrogen count of C capped at 0) -/
example : subPatternOf ethanol (fun v => v == 2 || v == 3) (fun _ _ => true) (fun v => if v == 2 then 0 else 2) = centreCO := by decide
example : subPatternB selEO' ethanol centreCO = true := by decide
example : SubPattern selEO' ethanol centreCO := (subPatternB_iff _ _ _).1 (by decide)
example : idMap centreCO ∈ allMonos selEO' ethanol centreCO := by decide
/-- a pattern that asks for more hydrogens than the host has is not a sub-pattern -/
example : subPatternB selEO' centreCO ethanol = false := by decide

/-- A concrete reactor on which every hypothesis of `own_template_regenerates_partial` holds. -/
private def toyY : Reactor (List (Nat × Nat)) where
  sel := selEO'
  pattern := fun _ _ => centreCO
  search := fun _ H P => allMonos selEO' H P
  prune := fun _ _ ms => ms
  glue := fun _ _ _ m => [m]
  equiv := fun a b => a = b

example : ∃ r ∈ toyY.results .all false (ethanol.relabel (· + 5)) centreCO, r = [(2, 7), (3, 8)] := by
  have hEq : Equivalence toyY.equiv := ⟨fun _ => rfl, fun h => h.symm, fun h1 h2 => h1.trans h2⟩
  refine own_template_regenerates_partial toyY hEq .all false ethanol centreCO (· + 5)
    (fun a b h => Nat.add_right_cancel h) [(2, 7), (3, 8)] (by decide) ((subPatternB_iff _ _ _).1 (by decide))
    (fun m hm => hm) (fun _ _ _ ms => SetEqMod.refl hEq _) ?_
  exact ⟨[(2, 7), (3, 8)], by decide, rfl⟩

end Examples

/-! ## Instantiation with the concrete glue model of C03 (`SynKitProofs/ReactorLink.lean`)

Step 3 (`GlueRebuilds`) for the concrete reactor `ReactorLink.concrete`, from the specification
`ReactorLink.OwnTemplate G I T` ("`T` is a template of the reaction `I` of the reactant graph `G`")
and `ReactorLink.RcComplete I T` (DESIGN §5 C04: every atom whose hydrogen count or charge differs
between the sides is covered by the template).  With steps 1 and 2 already discharged for the
concrete reactor (`C05`), this gives `C04.own_template_regenerates_concrete_partial`: the reaction is
among the results of applying its own template to its own (renumbered) reactants. -/
section Concrete
open SynKit.Reactor SynKit.ReactorLink

theorem relabel_id (G : LGraph) : G.relabel id = G := by
  cases G with
  | mk ns es => simp [LGraph.relabel]

theorem relabelPat_id (m : Mapping) : relabelPat id m = m := by
  simp [relabelPat]

theorem idMap_concrete_pattern (maxGroup : Nat) (comp : LGraph → LGraph → List Mapping) (T : LGraph)
    (hT : WFTemplate T) : idMap ((concrete maxGroup comp).pattern false T) = idMap T := by
  show idMap (noMap (left (orient false T))) = idMap T
  unfold idMap
  rw [noMap_ids]
  show (left T).ids.map _ = _
  rw [left_ids T hT]

/-- **C04 step 3 for the concrete reactor (`_partial`)**: `GlueRebuilds` holds — gluing the renumbered
reactant graph with the reaction's own template along the renumbered identity match renders a
reaction isomorphic to `I` — given `OwnTemplate G I T` and `RcComplete I T`.  (Gap: see
`ReactorLink.glue_own_template_partial`.) -/
theorem C04.glueRebuilds_concrete_partial (maxGroup : Nat) (comp : LGraph → LGraph → List Mapping)
    (G I T : LGraph) (f : Nat → Nat) (hf : Function.Injective f)
    (h : OwnTemplate G I T) (hrc : RcComplete I T) :
    GlueRebuilds (concrete maxGroup comp) false G T f I := by
  have hiso := glue_own_template_partial G I T h hrc
  have A := assign_of_mono G T (idMap T) h.hT h.hid
  have hW : (glue G T (idMap T)).WF := glue_wf G T _ h.hG.1 h.hT.1 A.inj A.img
  have hglue := concrete_glue_relabel maxGroup comp hf (π := id) Function.injective_id false G T (idMap T)
  rw [relabel_id, relabelPat_id] at hglue
  have hone : (concrete maxGroup comp).glue false G T (idMap T) = [glue G T (idMap T)] :=
    concrete_glue_of_mono maxGroup comp false G T _ h.hG h.hT h.hid
  rw [hone] at hglue
  refine ⟨(glue G T (idMap T)).relabel f, ?_, ?_⟩
  · rw [idMap_concrete_pattern maxGroup comp T h.hT, hglue]
    exact List.mem_singleton.2 rfl
  · exact itsEquiv_equivalence.trans (itsEquiv_relabel _ hW f hf) (Or.inr ⟨hW, h.hI, _, hiso⟩)

/-- **C04, concrete, exhaustive strategy (`_partial`).** For the modelled implicit path with the
repaired pruning: if `T` is a template of the reaction `I` of the reactant graph `G`
(`OwnTemplate`) and covers every atom whose hydrogen count or charge changes (`RcComplete`), then
for every renumbering `f` of the reactants the reaction is among the results of applying `T` to
them, up to isomorphism of ITS graphs.  All three steps are discharged for the concrete stages: the
identity match is enumerated and renumbers (`C05`), pruning keeps an equivalent match
(`C05.prune_preserves_results_concrete`), the glue step rebuilds the reaction
(`C04.glueRebuilds_concrete_partial`).  Missing for the full statement of C04: that the graphs
`ITSConstruction` / `get_rc` / `SynRule` build satisfy `OwnTemplate` (in particular its clause `lab`:
no change of aromatic flag), the backward direction through `invert`, the explicit-hydrogen path,
and the strategies other than the exhaustive one (the component-aware one fails by design when the
substrate has more components than the pattern). -/
theorem C04.own_template_regenerates_concrete_partial (maxGroup : Nat) (comp : LGraph → LGraph → List Mapping)
    (G I T : LGraph) (f : Nat → Nat) (hf : Function.Injective f)
    (h : OwnTemplate G I T) (hrc : RcComplete I T) :
    ∃ r ∈ (concrete maxGroup comp).results .all false (G.relabel f) T, ItsEquiv r I := by
  have hE := itsEquiv_equivalence
  -- step 1: the renumbered identity is a raw match
  have hid : idMap T ∈ allMonos monoSel G (left T) :=
    (mem_allMonos monoSel G (left T) (left_wf T h.hT) _).2 h.hid
  have hraw : relabelHost f (idMap T) ∈
      (concrete maxGroup comp).search .all (G.relabel f) ((concrete maxGroup comp).pattern false T) := by
    rw [concrete_search_all]
    exact (allMonos_relabel_host monoSel G _ f hf _).2 ⟨_, hid, rfl⟩
  -- step 3 on the raw list
  obtain ⟨r, hr, hrt⟩ := C04.glueRebuilds_concrete_partial maxGroup comp G I T f hf h hrc
  rw [idMap_concrete_pattern maxGroup comp T h.hT] at hr
  have hru : r ∈ (concrete maxGroup comp).resultsUnpruned .all false (G.relabel f) T :=
    List.mem_flatMap.2 ⟨_, hraw, hr⟩
  -- step 2: pruning keeps an equivalent result
  have hp := C05.prune_preserves_results_concrete maxGroup comp false (G.relabel f) T
    ((concrete maxGroup comp).search .all (G.relabel f) ((concrete maxGroup comp).pattern false T))
    (fun m hm hH hT' => by
      rw [concrete_search_all] at hm
      exact (mem_allMonos monoSel _ _ (left_wf _ hT') m).1 hm)
  obtain ⟨r', hr', e⟩ := hp.2 r hru
  exact ⟨r', hr', hE.trans (hE.symm e) hrt⟩

/-! ### Non-vacuity: a substitution with a spectator atom -/

/-- Reactants `C–Br . N . O` (atoms 1, 2, 3 and the spectator 4). -/
private def oG : LGraph :=
  { nodes := [(1, [("element", .str "C"), ("hcount", .num 6), ("charge", .num 0)]),
              (2, [("element", .str "Br"), ("hcount", .num 0), ("charge", .num 0)]),
              (3, [("element", .str "N"), ("hcount", .num 4), ("charge", .num 0)]),
              (4, [("element", .str "O"), ("hcount", .num 4), ("charge", .num 0)])]
    edges := [(1, 2, [("order", .num 2)])] }

private def lbl (e : String) (h : Int) : Val := .tup [.str e, .bool false, .num h, .num 0, .tup []]

/-- The reaction: N–H + C–Br → N–C + H–Br; water looks on. -/
private def oI : LGraph :=
  { nodes := [(1, [("typesGH", .tup [lbl "C" 6, lbl "C" 6])]), (2, [("typesGH", .tup [lbl "Br" 0, lbl "Br" 2])]),
              (3, [("typesGH", .tup [lbl "N" 4, lbl "N" 2])]), (4, [("typesGH", .tup [lbl "O" 4, lbl "O" 4])])]
    edges := [(1, 2, [("order", .tup [.num 2, .num 0])]), (3, 1, [("order", .tup [.num 0, .num 2])])] }

/-- Its centre template, drawn on the reaction's atoms, hydrogen counts reduced to those that take part. -/
private def oT : LGraph :=
  { nodes := [(3, [("typesGH", .tup [lbl "N" 2, lbl "N" 0])]), (1, [("typesGH", .tup [lbl "C" 0, lbl "C" 0])]),
              (2, [("typesGH", .tup [lbl "Br" 0, lbl "Br" 2])])]
    edges := [(3, 1, [("order", .tup [.num 0, .num 2]), ("standard_order", .num (-2))]),
              (1, 2, [("order", .tup [.num 2, .num 0]), ("standard_order", .num 2)])] }

private theorem oOwn : OwnTemplate oG oI oT where
  hG := by decide
  hT := by decide
  hI := by decide
  hid := (isMonoB_iff _ _ _ _).1 (by decide)
  ids := by
    have : oI.ids = oG.ids := by decide
    intro v; rw [this]
  len := by decide
  hnum := by decide
  lab := by
    have : oG.ids = [1, 2, 3, 4] := by decide
    rw [this]
    intro v hv
    simp only [List.mem_cons, List.mem_nil_iff, or_false] at hv
    rcases hv with rfl | rfl | rfl | rfl
    · exact ⟨6, .num 0, by decide⟩
    · exact ⟨2, .num 0, by decide⟩
    · exact ⟨2, .num 0, by decide⟩
    · exact ⟨4, .num 0, by decide⟩
  tpl := by decide
  gEdge := by
    intro e0 he0
    have : oG.edges = [(1, 2, [("order", .num 2)])] := rfl
    rw [this, List.mem_singleton] at he0
    subst he0
    refine ⟨[("order", .tup [.num 2, .num 0])], by decide, ?_⟩
    intro hno
    have := hno (1, 2, [("order", .tup [.num 2, .num 0]), ("standard_order", .num 2)]) (by decide)
    revert this; decide
  iEdge := by decide
  tEdge := by
    intro te hte
    have : oT.edges = [(3, 1, [("order", .tup [.num 0, .num 2]), ("standard_order", .num (-2))]),
              (1, 2, [("order", .tup [.num 2, .num 0]), ("standard_order", .num 2)])] := rfl
    rw [this] at hte
    simp only [List.mem_cons, List.mem_nil_iff, or_false] at hte
    rcases hte with rfl | rfl
    · exact ⟨[("order", .tup [.num 0, .num 2])], by decide, by decide, by decide⟩
    · exact ⟨[("order", .tup [.num 2, .num 0])], by decide, by decide, by decide⟩

/-- The hypotheses of `C04.own_template_regenerates_concrete_partial` are satisfiable on a
non-trivial input (two changed bonds, a hydrogen migration, an atom outside the template) … -/
example : OwnTemplate oG oI oT ∧ RcComplete oI oT := ⟨oOwn, by unfold RcComplete; decide⟩

/-- … and its conclusion is what evaluation of the model gives: after renumbering the reactants
(+7) the one result is the renumbered reaction, label for label and bond for bond. -/
example : ((concrete 5040 (allMonos monoSel)).results .all false (oG.relabel (· + 7)) oT).map
      (fun r => (r.nodes.map fun p => (p.1, Attrs.get p.2 "typesGH"), r.edges.map fun e => (e.1, e.2.1, Attrs.get e.2.2 "order"))) =
    [((oI.relabel (· + 7)).nodes.map fun p => (p.1, Attrs.get p.2 "typesGH"),
      [(8, 9, .tup [.num 2, .num 0]), (10, 8, .tup [.num 0, .num 2])])] := by decide

/-- `RcComplete` cannot be dropped: with the spectator's charge changing in the reaction (an atom
outside the template whose label differs between the sides — the shape of finding F10) the glued
graph keeps the reactant label there, so it is not the reaction. -/
example :
    let I' : LGraph := { oI with nodes := oI.nodes.map fun p =>
      if p.1 = 4 then (4, [("typesGH", Val.tup [lbl "O" 4, Val.tup [.str "O", .bool false, .num 2, .num (-2), .tup []]])]) else p }
    ¬ RcComplete I' oT ∧
      Attrs.get ((glue oG oT (idMap oT)).attrs 4) "typesGH" ≠ Attrs.get (I'.attrs 4) "typesGH" := by
  refine ⟨by unfold RcComplete; decide, by decide⟩

end Concrete

/-! ## The reaction's own ITS and reaction centre as templates (link to the C01/C02 models), the
backward direction, the other strategies

`ReactorLink.OwnTemplate G I T` is discharged for the graphs the ITS family builds: for a balanced
pair `(G, H)` of molecule graphs on a shared atom set (`ReactorLink.RxnPair`, hypotheses on `G` and `H`
only), the reaction is `I := ITS.construct o G H` and the template is `T := I` (full ITS) or
`T := ITS.getRc {} I` (centre).  `RcComplete` is vacuous for the full ITS and follows from
`ReactorLink.CentreCovers G H` for the centre.  Backwards, the substrate is `H`, the glued template
`invert T` (`_invert_template`), the reaction `ITS.construct o H G`.  (Helper lemmas:
`SynKitProofs/ReactorITSLink.lean`.) -/
section ITSLink
open SynKit.Reactor SynKit.ReactorLink

variable {G H : LGraph}

/-! ### (ii) `OwnTemplate` for the ITS family -/

/-- **The full ITS of a balanced pair is a template of its own reaction.** -/
theorem C04.ownTemplate_full_its (o : ITS.Opts) (hp : RxnPair G H) :
    OwnTemplate G (ITS.construct o G H) (ITS.construct o G H) :=
  ownTemplate_of_sub _ _ _ (reactionOf_construct o hp.toRxnPairW) (strongLab_construct o hp)
    (subITS_self _ (wfTemplate_construct o hp.toRxnPairW))

/-- **The reaction centre (`get_rc`) of the full ITS of a balanced pair is a template of that
reaction** (`ignore_aromaticity=False`, so that a changed bond is one whose two orders differ). -/
theorem C04.ownTemplate_centre (o : ITS.Opts) (ho : o.ignoreArom = false) (hp : RxnPair G H) :
    OwnTemplate G (ITS.construct o G H) (ITS.getRc {} (ITS.construct o G H)) :=
  ownTemplate_of_sub _ _ _ (reactionOf_construct o hp.toRxnPairW) (strongLab_construct o hp)
    (subITS_getRc _ (wfits_construct o ho hp.toRxnPairW) (wfTemplate_construct o hp.toRxnPairW))

/-- **`RcComplete` holds trivially for the full ITS** (no atom lies outside the template). -/
theorem C04.rcComplete_full_its (I : LGraph) : RcComplete I I := rcComplete_self I

/-- **`RcComplete` for the centre template**, from the condition on `(G, H)` that every atom all of
whose bonds keep their order keeps its hydrogen count and charge (`CentreCovers`; false for F10 inputs). -/
theorem C04.rcComplete_centre (o : ITS.Opts) (ho : o.ignoreArom = false) (hp : RxnPair G H) (hc : CentreCovers G H) :
    RcComplete (ITS.construct o G H) (ITS.getRc {} (ITS.construct o G H)) :=
  rcComplete_getRc o ho hp.toRxnPairW hc

/-- From `OwnTemplate` to a match of the exhaustive enumeration that glues to the reaction. -/
theorem C04.exists_match_of_ownTemplate (G I T : LGraph) (h : OwnTemplate G I T) (hrc : RcComplete I T) :
    ∃ m ∈ allMonos monoSel G (left T), ItsEquiv (glue G T m) I := by
  have A := assign_of_mono G T (idMap T) h.hT h.hid
  exact ⟨idMap T, (mem_allMonos monoSel G (left T) (left_wf T h.hT) _).2 h.hid,
    Or.inr ⟨glue_wf G T _ h.hG.1 h.hT.1 A.inj A.img, h.hI, _, glue_own_template_partial G I T h hrc⟩⟩

/-- **C04, full ITS, graph level (hypotheses on `(G, H)` only).** For a balanced pair `(G, H)`, the
exhaustive search finds a match of the full ITS `construct G H` in the reactant graph `G` along which
`_glue_graph` rebuilds `construct G H`, up to isomorphism of ITS graphs.  `RxnPair` contains gap (i)
(no atom changes its aromatic flag or `neighbors` entry); `C04.own_template_regenerates_full_its_core`
below removes it at the price of comparing product-side labels on element, hydrogen count and charge only. -/
theorem C04.own_template_regenerates_full_its (o : ITS.Opts) (hp : RxnPair G H) :
    ∃ m ∈ allMonos monoSel G (left (ITS.construct o G H)),
      ItsEquiv (glue G (ITS.construct o G H) m) (ITS.construct o G H) :=
  C04.exists_match_of_ownTemplate _ _ _ (C04.ownTemplate_full_its o hp) (C04.rcComplete_full_its _)

/-- **C04, centre template, graph level (hypotheses on `(G, H)` only).** -/
theorem C04.own_template_regenerates_centre (o : ITS.Opts) (ho : o.ignoreArom = false) (hp : RxnPair G H)
    (hc : CentreCovers G H) :
    ∃ m ∈ allMonos monoSel G (left (ITS.getRc {} (ITS.construct o G H))),
      ItsEquiv (glue G (ITS.getRc {} (ITS.construct o G H)) m) (ITS.construct o G H) :=
  C04.exists_match_of_ownTemplate _ _ _ (C04.ownTemplate_centre o ho hp) (C04.rcComplete_centre o ho hp hc)

/-! ### (iii) every strategy, both directions -/

/-- Backward application is forward application of the inverted template (`orient`), stage by stage. -/
theorem concrete_results_backward (maxGroup : Nat) (comp : LGraph → LGraph → List Mapping) (s : Strategy)
    (host T : LGraph) :
    (concrete maxGroup comp).results s true host T = (concrete maxGroup comp).results s false host (invert T) := rfl

/-- **C04, concrete, any strategy (`_partial` only through `OwnTemplate`).** If the search of strategy
`s` returns the identity match on the un-renumbered substrate, the reaction is among the results on
every renumbering of the substrate: the searches are equivariant (C05/C06), pruning keeps an equivalent
match, the glue step rebuilds the reaction. -/
theorem C04.own_template_regenerates_concrete_strategy (maxGroup : Nat) (comp : LGraph → LGraph → List Mapping)
    (hcompSub : ∀ H P m, m ∈ comp H P → m ∈ allMonos monoSel H P) (hcompEq : SearchEquivariant comp)
    (s : Strategy) (G I T : LGraph) (f : Nat → Nat) (hf : Function.Injective f)
    (h : OwnTemplate G I T) (hrc : RcComplete I T)
    (hs : idMap T ∈ (concrete maxGroup comp).search s G ((concrete maxGroup comp).pattern false T)) :
    ∃ r ∈ (concrete maxGroup comp).results s false (G.relabel f) T, ItsEquiv r I := by
  have hE := itsEquiv_equivalence
  have hseq := concrete_searchEquivariant maxGroup comp hcompEq s
  have hraw : relabelHost f (idMap T) ∈
      (concrete maxGroup comp).search s (G.relabel f) ((concrete maxGroup comp).pattern false T) := by
    have := (hseq G ((concrete maxGroup comp).pattern false T) f id hf Function.injective_id
      (relabelHost f (relabelPat id (idMap T)))).2 ⟨idMap T, hs, rfl⟩
    rwa [relabel_id, relabelPat_id] at this
  obtain ⟨r, hr, hrt⟩ := C04.glueRebuilds_concrete_partial maxGroup comp G I T f hf h hrc
  rw [idMap_concrete_pattern maxGroup comp T h.hT] at hr
  have hru : r ∈ (concrete maxGroup comp).resultsUnpruned s false (G.relabel f) T :=
    List.mem_flatMap.2 ⟨_, hraw, hr⟩
  have hp := C05.prune_preserves_results_concrete maxGroup comp false (G.relabel f) T
    ((concrete maxGroup comp).search s (G.relabel f) ((concrete maxGroup comp).pattern false T))
    (fun m hm hH hT' => concrete_search_mono maxGroup comp hcompSub s false _ T m hm hH hT')
  obtain ⟨r', hr', e⟩ := hp.2 r hru
  exact ⟨r', hr', hE.trans (hE.symm e) hrt⟩

/-- The identity match is returned by the exhaustive strategy. -/
theorem C04.id_mem_search_all (maxGroup : Nat) (comp : LGraph → LGraph → List Mapping) (G I T : LGraph)
    (h : OwnTemplate G I T) :
    idMap T ∈ (concrete maxGroup comp).search .all G ((concrete maxGroup comp).pattern false T) := by
  rw [concrete_search_all]
  exact (mem_allMonos monoSel G (left T) (left_wf T h.hT) _).2 h.hid

/-- **Backward `OwnTemplate`.** For a template `T` cut out of the full ITS of `(G, H)` (the full ITS
itself, its centre), the inverted template `_invert_template T` is a template of the reversed reaction
`construct o H G` of the product graph `H`.  (`C03.invert_swaps_sides`: its prepared pattern is the
product side of `T`.) -/
theorem C04.ownTemplate_backward (o : ITS.Opts) (hp : RxnPair G H) (T : LGraph)
    (hS : SubITS T (ITS.construct o G H)) : OwnTemplate H (ITS.construct o H G) (invert T) :=
  ownTemplate_of_sub _ _ _ (reactionOf_construct o hp.symm.toRxnPairW) (strongLab_construct o hp.symm)
    (subITS_invert o hp.toRxnPairW T hS)

/-- The prepared pattern of the backward application is the product side of the template, and
inverting twice gives back the forward pattern (C03). -/
theorem C04.backward_pattern (T : LGraph) (hT : NumericOrders T) :
    left (invert T) = right T ∧ left (invert (invert T)) = left T :=
  ⟨(invert_swaps_sides T hT).1, (invert_involutive T hT).1⟩

/-- **C04, both directions, exhaustive strategy, for a template cut out of the full ITS.** Forwards the
reaction `construct o G H` is among the results of applying `T` to the renumbered reactants; backwards
the reversed reaction `construct o H G` is among the results of applying `T` backwards to the
renumbered products. -/
theorem C04.own_template_regenerates_both_directions (maxGroup : Nat) (comp : LGraph → LGraph → List Mapping)
    (o : ITS.Opts) (hp : RxnPair G H) (T : LGraph) (hS : SubITS T (ITS.construct o G H))
    (hrc : RcComplete (ITS.construct o G H) T)
    (f g : Nat → Nat) (hf : Function.Injective f) (hg : Function.Injective g) :
    (∃ r ∈ (concrete maxGroup comp).results .all false (G.relabel f) T, ItsEquiv r (ITS.construct o G H)) ∧
    (∃ r ∈ (concrete maxGroup comp).results .all true (H.relabel g) T, ItsEquiv r (ITS.construct o H G)) := by
  constructor
  · exact C04.own_template_regenerates_concrete_partial maxGroup comp G _ T f hf
      (ownTemplate_of_sub _ _ _ (reactionOf_construct o hp.toRxnPairW) (strongLab_construct o hp) hS) hrc
  · rw [concrete_results_backward]
    exact C04.own_template_regenerates_concrete_partial maxGroup comp H _ (invert T) g hg
      (C04.ownTemplate_backward o hp T hS) (rcComplete_invert o hp.toRxnPairW T hS.hT hrc)

/-- **C04 for the full ITS template, both directions, exhaustive strategy — hypotheses on `(G, H)` only.** -/
theorem C04.own_template_regenerates_full_its_results (maxGroup : Nat) (comp : LGraph → LGraph → List Mapping)
    (o : ITS.Opts) (hp : RxnPair G H) (f g : Nat → Nat) (hf : Function.Injective f) (hg : Function.Injective g) :
    (∃ r ∈ (concrete maxGroup comp).results .all false (G.relabel f) (ITS.construct o G H),
        ItsEquiv r (ITS.construct o G H)) ∧
    (∃ r ∈ (concrete maxGroup comp).results .all true (H.relabel g) (ITS.construct o G H),
        ItsEquiv r (ITS.construct o H G)) :=
  C04.own_template_regenerates_both_directions maxGroup comp o hp _
    (subITS_self _ (wfTemplate_construct o hp.toRxnPairW)) (rcComplete_self _) f g hf hg

/-- **C04 for the centre template, both directions, exhaustive strategy — hypotheses on `(G, H)` only**
(`CentreCovers`: every atom all of whose bonds keep their order keeps hydrogen count and charge). -/
theorem C04.own_template_regenerates_centre_results (maxGroup : Nat) (comp : LGraph → LGraph → List Mapping)
    (o : ITS.Opts) (ho : o.ignoreArom = false) (hp : RxnPair G H) (hc : CentreCovers G H)
    (f g : Nat → Nat) (hf : Function.Injective f) (hg : Function.Injective g) :
    (∃ r ∈ (concrete maxGroup comp).results .all false (G.relabel f) (ITS.getRc {} (ITS.construct o G H)),
        ItsEquiv r (ITS.construct o G H)) ∧
    (∃ r ∈ (concrete maxGroup comp).results .all true (H.relabel g) (ITS.getRc {} (ITS.construct o G H)),
        ItsEquiv r (ITS.construct o H G)) :=
  C04.own_template_regenerates_both_directions maxGroup comp o hp _
    (subITS_getRc _ (wfits_construct o ho hp.toRxnPairW) (wfTemplate_construct o hp.toRxnPairW))
    (rcComplete_getRc o ho hp.toRxnPairW hc) f g hf hg

/-! ### the component-aware and the fallback strategy -/

/-- **When the component-aware strategy returns the identity match** (`findComp` of the C06 model as
the reactor calls it, any `strict_cc_count` / threshold): the identity sends different components of the
prepared pattern into different components of the substrate (`DistinctComponents` — each pattern
component then lies in a component of its own), the substrate has at least as many components as the
pattern — exactly as many under `strict_cc_count` — and no threshold fires. -/
theorem C04.id_mem_search_comp (maxGroup : Nat) (strict : Bool) (thr : Nat) (G I T : LGraph) (h : OwnTemplate G I T)
    (hd : SubgraphSearch.DistinctComponents G (left T) (idMap T))
    (hle : (SubgraphSearch.comps (left T)).length ≤ (SubgraphSearch.comps G).length)
    (hstrict : strict = true → (SubgraphSearch.comps G).length ≤ (SubgraphSearch.comps (left T)).length)
    (hthr : ∀ maps ∈ SubgraphSearch.perCc monoSel G (left T), maps.length ≤ thr)
    (hlen : (SubgraphSearch.compEnum monoSel G (left T)).length ≤ thr) :
    idMap T ∈ (concrete maxGroup (compSearch strict thr)).search .comp G
      ((concrete maxGroup (compSearch strict thr)).pattern false T) := by
  rw [concrete_search_comp]
  show idMap T ∈ compSearch strict thr G (left T)
  unfold compSearch
  rw [if_pos ⟨h.hG.1, left_wf T h.hT⟩]
  exact mem_findComp_of_mono monoSel G (left T) h.hG.1 (left_wf T h.hT) _ h.hid hd strict thr hle hstrict hthr hlen

/-- **The fallback strategy returns the identity match** as soon as the component-aware one does, or
returns nothing at all (then the exhaustive enumeration is used). -/
theorem C04.id_mem_search_bt (maxGroup : Nat) (comp : LGraph → LGraph → List Mapping) (G I T : LGraph)
    (h : OwnTemplate G I T)
    (hc : idMap T ∈ (concrete maxGroup comp).search .comp G ((concrete maxGroup comp).pattern false T) ∨
      (concrete maxGroup comp).search .comp G ((concrete maxGroup comp).pattern false T) = []) :
    idMap T ∈ (concrete maxGroup comp).search .bt G ((concrete maxGroup comp).pattern false T) := by
  show idMap T ∈ searchBt ((concrete maxGroup comp).search .comp G ((concrete maxGroup comp).pattern false T))
    ((concrete maxGroup comp).search .all G ((concrete maxGroup comp).pattern false T))
  unfold searchBt
  rcases hc with hc | hc
  · have : ((concrete maxGroup comp).search .comp G ((concrete maxGroup comp).pattern false T)).isEmpty = false := by
      cases hl : (concrete maxGroup comp).search .comp G ((concrete maxGroup comp).pattern false T) with
      | nil => rw [hl] at hc; cases hc
      | cons _ _ => rfl
    rw [this]; exact hc
  · rw [hc]; exact C04.id_mem_search_all maxGroup comp G I T h

/-- **C04, component-aware and fallback strategies, any own template.** Under the conditions of
`C04.id_mem_search_comp` the reaction is among the results of both strategies, on every renumbering of
the substrate.  (By design the component-aware strategy with `strict_cc_count` fails when the substrate
has more components than the pattern, and without it when two pattern components lie in one substrate
component — e.g. an intramolecular reaction applied through its centre template; the fallback strategy
then still succeeds when the component-aware search returns nothing.) -/
theorem C04.own_template_regenerates_comp_bt (maxGroup : Nat) (strict : Bool) (thr : Nat) (G I T : LGraph)
    (f : Nat → Nat) (hf : Function.Injective f) (h : OwnTemplate G I T) (hrc : RcComplete I T)
    (hd : SubgraphSearch.DistinctComponents G (left T) (idMap T))
    (hle : (SubgraphSearch.comps (left T)).length ≤ (SubgraphSearch.comps G).length)
    (hstrict : strict = true → (SubgraphSearch.comps G).length ≤ (SubgraphSearch.comps (left T)).length)
    (hthr : ∀ maps ∈ SubgraphSearch.perCc monoSel G (left T), maps.length ≤ thr)
    (hlen : (SubgraphSearch.compEnum monoSel G (left T)).length ≤ thr) :
    (∃ r ∈ (concrete maxGroup (compSearch strict thr)).results .comp false (G.relabel f) T, ItsEquiv r I) ∧
    (∃ r ∈ (concrete maxGroup (compSearch strict thr)).results .bt false (G.relabel f) T, ItsEquiv r I) := by
  have hc := C04.id_mem_search_comp maxGroup strict thr G I T h hd hle hstrict hthr hlen
  exact ⟨C04.own_template_regenerates_concrete_strategy maxGroup _ (compSearch_sub strict thr)
      (compSearch_equivariant strict thr) .comp G I T f hf h hrc hc,
    C04.own_template_regenerates_concrete_strategy maxGroup _ (compSearch_sub strict thr)
      (compSearch_equivariant strict thr) .bt G I T f hf h hrc
      (C04.id_mem_search_bt maxGroup _ G I T h (Or.inl hc))⟩

/-- **C04 for the full ITS template under the component-aware and fallback strategies — hypotheses on
`(G, H)` only** (plus "no threshold fires"): the prepared pattern of the full ITS has literally the
connected components of the reactant graph (`comps_left_construct`), so the component counts agree,
`strict_cc_count` is immaterial and the identity match separates the components. -/
theorem C04.own_template_regenerates_full_its_comp_bt (maxGroup : Nat) (strict : Bool) (thr : Nat)
    (o : ITS.Opts) (hp : RxnPair G H) (f : Nat → Nat) (hf : Function.Injective f)
    (hthr : ∀ maps ∈ SubgraphSearch.perCc monoSel G (left (ITS.construct o G H)), maps.length ≤ thr)
    (hlen : (SubgraphSearch.compEnum monoSel G (left (ITS.construct o G H))).length ≤ thr) :
    (∃ r ∈ (concrete maxGroup (compSearch strict thr)).results .comp false (G.relabel f) (ITS.construct o G H),
        ItsEquiv r (ITS.construct o G H)) ∧
    (∃ r ∈ (concrete maxGroup (compSearch strict thr)).results .bt false (G.relabel f) (ITS.construct o G H),
        ItsEquiv r (ITS.construct o G H)) :=
  C04.own_template_regenerates_comp_bt maxGroup strict thr G _ _ f hf (C04.ownTemplate_full_its o hp)
    (rcComplete_self _) (distinctComponents_full_its o hp.toRxnPairW)
    (by rw [comps_left_construct o hp.toRxnPairW]) (fun _ => by rw [comps_left_construct o hp.toRxnPairW])
    hthr hlen

/-! ### (i) without the hypothesis on aromatic flags and `neighbors` entries

`_node_glue` copies the product side's aromatic flag and `neighbors` entry from the substrate, so a
reaction that changes one of them is rebuilt with the substrate's values there.  Comparing reactions
up to these two product-side entries (`ItsCoreEquiv`: `ItsEquiv` after `coreProj`; element, hydrogen
count, charge of the product side and the whole reactant side are still compared, as are all order
pairs) the statements hold for every balanced pair (`RxnPairW`). -/

/-- **C04, concrete, exhaustive strategy, gap (i) closed.** For any reaction `I` of `G` and any template
`T` cut out of it that covers the atoms whose hydrogen count or charge changes, the reaction is among
the results up to `ItsCoreEquiv`. -/
theorem C04.own_template_regenerates_core (maxGroup : Nat) (comp : LGraph → LGraph → List Mapping)
    (G I T : LGraph) (f : Nat → Nat) (hf : Function.Injective f)
    (hR : ReactionOf G I) (hS : SubITS T I) (hrc : RcComplete I T) :
    ∃ r ∈ (concrete maxGroup comp).results .all false (G.relabel f) T, ItsCoreEquiv r I := by
  obtain ⟨r, hr, he⟩ := C04.own_template_regenerates_concrete_partial maxGroup comp G (fixI G I) T f hf
    (ownTemplate_fix G I T hR hS) (rcComplete_fix hrc)
  exact ⟨r, hr, itsCoreEquiv_of_fix he⟩

/-- **C04, graph level, gap (i) closed**: a match of the exhaustive enumeration glues to the reaction
up to `ItsCoreEquiv`. -/
theorem C04.exists_match_core (G I T : LGraph) (hR : ReactionOf G I) (hS : SubITS T I) (hrc : RcComplete I T) :
    ∃ m ∈ allMonos monoSel G (left T), ItsCoreEquiv (glue G T m) I := by
  obtain ⟨m, hm, he⟩ := C04.exists_match_of_ownTemplate G (fixI G I) T (ownTemplate_fix G I T hR hS) (rcComplete_fix hrc)
  exact ⟨m, hm, itsCoreEquiv_of_fix he⟩

/-- **C04, both directions, exhaustive strategy, gap (i) closed**, for a template cut out of the full ITS
of any balanced pair. -/
theorem C04.own_template_regenerates_both_directions_core (maxGroup : Nat) (comp : LGraph → LGraph → List Mapping)
    (o : ITS.Opts) (hp : RxnPairW G H) (T : LGraph) (hS : SubITS T (ITS.construct o G H))
    (hrc : RcComplete (ITS.construct o G H) T)
    (f g : Nat → Nat) (hf : Function.Injective f) (hg : Function.Injective g) :
    (∃ r ∈ (concrete maxGroup comp).results .all false (G.relabel f) T, ItsCoreEquiv r (ITS.construct o G H)) ∧
    (∃ r ∈ (concrete maxGroup comp).results .all true (H.relabel g) T, ItsCoreEquiv r (ITS.construct o H G)) := by
  constructor
  · exact C04.own_template_regenerates_core maxGroup comp G _ T f hf (reactionOf_construct o hp) hS hrc
  · rw [concrete_results_backward]
    exact C04.own_template_regenerates_core maxGroup comp H _ (invert T) g hg (reactionOf_construct o hp.symm)
      (subITS_invert o hp T hS) (rcComplete_invert o hp T hS.hT hrc)

/-- **C04 for the full ITS template, graph level, hypotheses on `(G, H)` only, gap (i) closed.** -/
theorem C04.own_template_regenerates_full_its_core (o : ITS.Opts) (hp : RxnPairW G H) :
    ∃ m ∈ allMonos monoSel G (left (ITS.construct o G H)),
      ItsCoreEquiv (glue G (ITS.construct o G H) m) (ITS.construct o G H) :=
  C04.exists_match_core G _ _ (reactionOf_construct o hp) (subITS_self _ (wfTemplate_construct o hp)) (rcComplete_self _)

/-- **C04 for the full ITS template, both directions, hypotheses on `(G, H)` only, gap (i) closed.** -/
theorem C04.own_template_regenerates_full_its_results_core (maxGroup : Nat) (comp : LGraph → LGraph → List Mapping)
    (o : ITS.Opts) (hp : RxnPairW G H) (f g : Nat → Nat) (hf : Function.Injective f) (hg : Function.Injective g) :
    (∃ r ∈ (concrete maxGroup comp).results .all false (G.relabel f) (ITS.construct o G H),
        ItsCoreEquiv r (ITS.construct o G H)) ∧
    (∃ r ∈ (concrete maxGroup comp).results .all true (H.relabel g) (ITS.construct o G H),
        ItsCoreEquiv r (ITS.construct o H G)) :=
  C04.own_template_regenerates_both_directions_core maxGroup comp o hp _
    (subITS_self _ (wfTemplate_construct o hp)) (rcComplete_self _) f g hf hg

/-- **C04 for the centre template, both directions, hypotheses on `(G, H)` only, gap (i) closed.** -/
theorem C04.own_template_regenerates_centre_results_core (maxGroup : Nat) (comp : LGraph → LGraph → List Mapping)
    (o : ITS.Opts) (ho : o.ignoreArom = false) (hp : RxnPairW G H) (hc : CentreCovers G H)
    (f g : Nat → Nat) (hf : Function.Injective f) (hg : Function.Injective g) :
    (∃ r ∈ (concrete maxGroup comp).results .all false (G.relabel f) (ITS.getRc {} (ITS.construct o G H)),
        ItsCoreEquiv r (ITS.construct o G H)) ∧
    (∃ r ∈ (concrete maxGroup comp).results .all true (H.relabel g) (ITS.getRc {} (ITS.construct o G H)),
        ItsCoreEquiv r (ITS.construct o H G)) :=
  C04.own_template_regenerates_both_directions_core maxGroup comp o hp _
    (subITS_getRc _ (wfits_construct o ho hp) (wfTemplate_construct o hp))
    (rcComplete_getRc o ho hp hc) f g hf hg

/-! ### Non-vacuity: `CH3–Br + NH3 (+ H2O) → CH3–NH2 + HBr (+ H2O)` as a pair of molecule graphs -/

private def mAtom (el : String) (n : Nat) (h : Int) : Nat × Attrs :=
  (n, [("element", .str el), ("aromatic", .bool false), ("hcount", .num h), ("charge", .num 0),
       ("atom_map", .num (2 * (n : Int))), ("neighbors", .tup [])])

/-- Reactants `[CH3:1][Br:2].[NH3:3].[OH2:4]` … -/
private def pG : LGraph :=
  { nodes := [mAtom "C" 1 6, mAtom "Br" 2 0, mAtom "N" 3 6, mAtom "O" 4 4], edges := [(1, 2, [("order", .num 2)])] }
/-- … and products `[CH3:1][NH2:3].[BrH:2].[OH2:4]` on the same atoms. -/
private def pH : LGraph :=
  { nodes := [mAtom "C" 1 6, mAtom "Br" 2 2, mAtom "N" 3 4, mAtom "O" 4 4], edges := [(3, 1, [("order", .num 2)])] }

private theorem pPair : RxnPair pG pH where
  molG := ⟨by decide, by decide, fun e he => by
    simp only [pG, List.mem_singleton] at he; subst he; exact ⟨2, by decide, rfl⟩⟩
  molH := ⟨by decide, by decide, fun e he => by
    simp only [pH, List.mem_singleton] at he; subst he; exact ⟨2, by decide, rfl⟩⟩
  same := fun _ => Iff.rfl
  noTgG := by decide
  noTgH := by decide
  elem := by
    have : pG.ids = [1, 2, 3, 4] := by decide
    rw [this]; intro v hv
    simp only [List.mem_cons, List.mem_nil_iff, or_false] at hv
    rcases hv with rfl | rfl | rfl | rfl
    · exact ⟨"C", by decide, by decide, by decide⟩
    · exact ⟨"Br", by decide, by decide, by decide⟩
    · exact ⟨"N", by decide, by decide, by decide⟩
    · exact ⟨"O", by decide, by decide, by decide⟩
  hcnt := by
    have : pG.ids = [1, 2, 3, 4] := by decide
    rw [this]; intro v hv
    simp only [List.mem_cons, List.mem_nil_iff, or_false] at hv
    rcases hv with rfl | rfl | rfl | rfl
    · exact ⟨⟨6, by decide⟩, ⟨6, by decide⟩⟩
    · exact ⟨⟨0, by decide⟩, ⟨2, by decide⟩⟩
    · exact ⟨⟨6, by decide⟩, ⟨4, by decide⟩⟩
    · exact ⟨⟨4, by decide⟩, ⟨4, by decide⟩⟩
  nbKey := by
    have : pG.ids = [1, 2, 3, 4] := by decide
    rw [this]; intro v hv
    simp only [List.mem_cons, List.mem_nil_iff, or_false] at hv
    rcases hv with rfl | rfl | rfl | rfl <;> exact ⟨⟨.tup [], by decide⟩, ⟨.tup [], by decide⟩⟩
  arom := by decide
  nbrs := by decide

private theorem pCovers : CentreCovers pG pH := by
  have : pG.ids = [1, 2, 3, 4] := by decide
  unfold CentreCovers
  rw [this]; intro v hv hu
  simp only [List.mem_cons, List.mem_nil_iff, or_false] at hv
  rcases hv with rfl | rfl | rfl | rfl
  · exact ⟨by decide, by decide⟩
  · exact absurd (hu 1) (by decide)
  · exact absurd (hu 1) (by decide)
  · exact ⟨by decide, by decide⟩

/-- The hypotheses of the `(G, H)`-level theorems are satisfiable on a non-trivial reaction (two changed
bonds, a hydrogen migration, a spectator molecule): -/
example : RxnPair pG pH ∧ CentreCovers pG pH := ⟨pPair, pCovers⟩

/-- the centre template has three atoms and two bonds, the spectator water is outside it; -/
example : (ITS.getRc {} (ITS.construct {} pG pH)).ids = [1, 2, 3] ∧
    (ITS.getRc {} (ITS.construct {} pG pH)).edges.map (fun e => (e.1, e.2.1, Attrs.get e.2.2 "order")) =
      [(1, 2, .tup [.num 2, .num 0]), (3, 1, .tup [.num 0, .num 2])] := by decide

/-- forwards, on renumbered reactants (+7), full ITS and centre template give the renumbered reaction,
label for label and bond for bond, under every strategy; -/
example :
    let I := ITS.construct {} pG pH
    let view := fun (r : LGraph) => (r.nodes.map fun p => (p.1, Attrs.get p.2 "typesGH"),
      r.edges.map fun e => (e.1, e.2.1, Attrs.get e.2.2 "order"))
    ∀ T ∈ [I, ITS.getRc {} I], ∀ s ∈ [Strategy.all, Strategy.comp, Strategy.bt],
      ((concrete 5040 (compSearch false 5000)).results s false (pG.relabel (· + 7)) T).map view =
        [view (I.relabel (· + 7))] := by decide

/-- backwards, on renumbered products (+7), they give the renumbered reversed reaction (same label
pairs; the bonds 10–8 formed→broken and 8–9 broken→formed). -/
example :
    let I := ITS.construct {} pG pH
    ∀ T ∈ [I, ITS.getRc {} I],
      ((concrete 5040 (compSearch false 5000)).results .all true (pH.relabel (· + 7)) T).map
          (fun r => (r.nodes.map fun p => (p.1, Attrs.get p.2 "typesGH"),
            r.edges.map fun e => (e.1, e.2.1, Attrs.get e.2.2 "order"))) =
        [(((ITS.construct {} pH pG).relabel (· + 7)).nodes.map fun p => (p.1, Attrs.get p.2 "typesGH"),
          [(10, 8, .tup [.num 2, .num 0]), (8, 9, .tup [.num 0, .num 2])])] := by decide

/-! ### Non-vacuity of the gap-(i)-free statements: the same reaction with real `neighbors` lists -/

private def nAtom (el : String) (n : Nat) (h : Int) (nb : List String) : Nat × Attrs :=
  (n, [("element", .str el), ("aromatic", .bool false), ("hcount", .num h), ("charge", .num 0),
       ("atom_map", .num (2 * (n : Int))), ("neighbors", .tup (nb.map Val.str))])

private def qG : LGraph :=
  { nodes := [nAtom "C" 1 6 ["Br"], nAtom "Br" 2 0 ["C"], nAtom "N" 3 6 [], nAtom "O" 4 4 []],
    edges := [(1, 2, [("order", .num 2)])] }
private def qH : LGraph :=
  { nodes := [nAtom "C" 1 6 ["N"], nAtom "Br" 2 2 [], nAtom "N" 3 4 ["C"], nAtom "O" 4 4 []],
    edges := [(3, 1, [("order", .num 2)])] }

private theorem qPair : RxnPairW qG qH where
  molG := ⟨by decide, by decide, fun e he => by
    simp only [qG, List.mem_singleton] at he; subst he; exact ⟨2, by decide, rfl⟩⟩
  molH := ⟨by decide, by decide, fun e he => by
    simp only [qH, List.mem_singleton] at he; subst he; exact ⟨2, by decide, rfl⟩⟩
  same := fun _ => Iff.rfl
  noTgG := by decide
  noTgH := by decide
  elem := by
    have : qG.ids = [1, 2, 3, 4] := by decide
    rw [this]; intro v hv
    simp only [List.mem_cons, List.mem_nil_iff, or_false] at hv
    rcases hv with rfl | rfl | rfl | rfl
    · exact ⟨"C", by decide, by decide, by decide⟩
    · exact ⟨"Br", by decide, by decide, by decide⟩
    · exact ⟨"N", by decide, by decide, by decide⟩
    · exact ⟨"O", by decide, by decide, by decide⟩
  hcnt := by
    have : qG.ids = [1, 2, 3, 4] := by decide
    rw [this]; intro v hv
    simp only [List.mem_cons, List.mem_nil_iff, or_false] at hv
    rcases hv with rfl | rfl | rfl | rfl
    · exact ⟨⟨6, by decide⟩, ⟨6, by decide⟩⟩
    · exact ⟨⟨0, by decide⟩, ⟨2, by decide⟩⟩
    · exact ⟨⟨6, by decide⟩, ⟨4, by decide⟩⟩
    · exact ⟨⟨4, by decide⟩, ⟨4, by decide⟩⟩
  nbKey := by
    have : qG.ids = [1, 2, 3, 4] := by decide
    rw [this]; intro v hv
    simp only [List.mem_cons, List.mem_nil_iff, or_false] at hv
    rcases hv with rfl | rfl | rfl | rfl <;>
      exact ⟨Option.isSome_iff_exists.1 (by decide), Option.isSome_iff_exists.1 (by decide)⟩

/-- The pair is balanced, but the carbon's `neighbors` entry changes (Br → N): `RxnPair.nbrs` fails, and
indeed the glued graph differs from the reaction in that entry of the product-side label … -/
example : RxnPairW qG qH ∧ Dict.get? (qH.attrs 1) "neighbors" ≠ Dict.get? (qG.attrs 1) "neighbors" ∧
    Attrs.get ((glue qG (ITS.construct {} qG qH) (idMap (ITS.construct {} qG qH))).attrs 1) "typesGH" ≠
      Attrs.get ((ITS.construct {} qG qH).attrs 1) "typesGH" := ⟨qPair, by decide, by decide⟩

/-- … and in nothing else: after `coreProj` the results, forwards on renumbered reactants and backwards on
renumbered products, are the renumbered reaction and the renumbered reversed reaction. -/
example :
    let I := ITS.construct {} qG qH
    let view := fun (r : LGraph) => ((coreProj r).nodes.map fun p => (p.1, Attrs.get p.2 "typesGH"),
      r.edges.map fun e => (e.1, e.2.1, Attrs.get e.2.2 "order"))
    ∀ T ∈ [I, ITS.getRc {} I],
      ((concrete 5040 (compSearch false 5000)).results .all false (qG.relabel (· + 7)) T).map view =
        [view (I.relabel (· + 7))] ∧
      ((concrete 5040 (compSearch false 5000)).results .all true (qH.relabel (· + 7)) T).map (fun r => (view r).1) =
        [(view ((ITS.construct {} qH qG).relabel (· + 7))).1] := by decide

end ITSLink

end SynKit.ReactorInv

import SynKitModel.Cluster
import SynKitProofs.ClusterLemmas
import SynKitProofs.ClusterIso
/-!
# C13 — clustering partitions graphs exactly into isomorphism classes

Property theorems only; helper lemmas live in `SynKitProofs/ClusterLemmas.lean`.
The items, the isomorphism test `iso` and the pre-grouping attribute `key` are abstract.
`IsEquiv iso` (reflexive, symmetric, transitive) and `KeyInv iso key` (isomorphic items carry equal
attributes) are the hypotheses of the property ("isomorphic on element, charge and bond order",
"isomorphism-invariant pre-grouping attribute or none"); the first four conjuncts of
`cluster_partition`, `libCheck_spec`, `incremental_eq_oneshot` and `batched_eq_oneshot` need no
hypothesis at all.
-/
namespace SynKit.Cluster
variable {α : Type} {κ : Type} [DecidableEq κ]

/-- **C13, "assigns each item exactly one class".** For every list, `iterative_cluster` returns
`clusters` that form a partition of the index set `{0,…,n-1}`: no index occurs twice in the
concatenation of the clusters (pairwise disjoint, duplicate-free), the union is exactly the index
set, no cluster is empty; `rule_to_cluster` agrees with membership in `clusters`; every index
`< n` has exactly one class (`classOf` is a function and is `some c` with `c` a valid cluster number,
the cluster containing an index is unique), indices `≥ n` have none; `GraphCluster.fit` writes that
class to every entry. No hypothesis on `iso` or `key`. -/
theorem cluster_partition (iso : α → α → Bool) (key : α → κ) (xs : List α) :
    let s := iterState iso key xs
    s.clusters.flatten.Nodup ∧
    (∀ j, j ∈ s.clusters.flatten ↔ j < xs.length) ∧
    (∀ C ∈ s.clusters, C ≠ []) ∧
    (∀ j c, classOf iso key xs j = some c ↔ ∃ C, s.clusters[c]? = some C ∧ j ∈ C) ∧
    (∀ j, j < xs.length → ∃ c, classOf iso key xs j = some c ∧ c < s.clusters.length) ∧
    (∀ (j c c' : Nat) (C C' : List Nat), s.clusters[c]? = some C → s.clusters[c']? = some C' → j ∈ C → j ∈ C' → c = c') ∧
    (∀ j, xs.length ≤ j → classOf iso key xs j = none) ∧
    gcClasses iso key xs = (List.range xs.length).map (classOf iso key xs) := by
  intro s
  have hs : s = _ := iterState_eq iso key xs
  obtain ⟨h1, h2, h3⟩ := parts_spec iso key (enumFrom 0 xs) [] (enumFrom_nodup 0 xs) List.nodup_nil
  simp only [List.nil_append, List.not_mem_nil, false_or, enumFrom_map_fst, mem_range'_iff] at h1 h2
  have hcl : s.clusters = parts iso key [] (enumFrom 0 xs) := by rw [hs]
  have hr : s.r2c = label 0 (parts iso key [] (enumFrom 0 xs)) := by rw [hs]
  have h4 : ∀ j c, classOf iso key xs j = some c ↔ ∃ C, s.clusters[c]? = some C ∧ j ∈ C := by
    intro j c
    show dictGet s.r2c j = some c ↔ _
    rw [hr, hcl, dictGet_label _ 0 h1 j c]
    simp
  refine ⟨by rw [hcl]; exact h1, by rw [hcl]; exact h2, by rw [hcl]; exact h3, h4, ?_, ?_, ?_, rfl⟩
  · intro j hj
    obtain ⟨C, hC, hjC⟩ := List.mem_flatten.1 ((h2 j).2 hj)
    obtain ⟨c, hc⟩ := List.mem_iff_getElem?.1 hC
    refine ⟨c, (h4 j c).2 ⟨C, by rw [hcl]; exact hc, hjC⟩, ?_⟩
    rw [hcl]
    exact (List.getElem?_eq_some_iff.1 hc).1
  · intro j c c' C C' hC hC' hj hj'
    have e1 := (h4 j c).2 ⟨C, hC, hj⟩
    have e2 := (h4 j c').2 ⟨C', hC', hj'⟩
    rw [e1] at e2; exact Option.some.inj e2
  · intro j hj
    cases h : classOf iso key xs j with
    | none => rfl
    | some c =>
      obtain ⟨C, hC, hjC⟩ := (h4 j c).1 h
      have : j ∈ s.clusters.flatten := List.mem_flatten.2 ⟨C, List.mem_of_getElem? hC, hjC⟩
      rw [hcl] at this
      exact absurd ((h2 j).1 this) (by omega)

/-- Non-vacuity of `cluster_partition`: seven items, three classes, clusters and classes as the
Python code returns them (residues mod 3 with an invariant key). -/
example : iterativeCluster exIso exKey [0, 1, 3, 4, 2, 6, 7] =
    .ok ([[0, 2, 5], [1, 3, 6], [4]], [(0, 0), (2, 0), (5, 0), (1, 1), (3, 1), (6, 1), (4, 2)]) := by decide

/-- **C13, "two items share a class iff their graphs are isomorphic".** When `iso` is an
equivalence and the attribute is isomorphism-invariant, two positions of the list get the same
class exactly when their items are isomorphic. -/
theorem same_class_iff {iso : α → α → Bool} {key : α → κ} (hE : IsEquiv iso) (hK : KeyInv iso key)
    (xs : List α) (i j : Nat) (hi : i < xs.length) (hj : j < xs.length) :
    classOf iso key xs i = classOf iso key xs j ↔ iso xs[i] xs[j] = true := by
  rw [r2c_eq_seqCls iso key xs i hi, r2c_eq_seqCls iso key xs j hj]
  rw [List.getElem?_eq_getElem (by rw [seqCls_length]; exact hi),
    List.getElem?_eq_getElem (by rw [seqCls_length]; exact hj)]
  rw [← seqCls_same_iff hE hK xs [] i j hi hj]
  exact ⟨Option.some.inj, fun h => by rw [h]⟩

theorem exIso_equiv : IsEquiv exIso where
  refl := by intro x; simp [exIso]
  symm := by intro x y h; simp only [exIso, beq_iff_eq] at *; omega
  trans := by intro x y z h1 h2; simp only [exIso, beq_iff_eq] at *; omega

theorem exKey_inv : KeyInv exIso exKey := by
  intro x y h; simp only [exIso, beq_iff_eq, exKey] at *; rw [h]

/-- Non-vacuity of `same_class_iff`: its hypotheses hold for the concrete instance
(`exIso_equiv`, `exKey_inv`), and on a concrete list positions 0 and 2 share a class (0 ≅ 3)
while positions 0 and 1 do not. -/
example : classOf exIso exKey [0, 1, 3, 4, 2] 0 = classOf exIso exKey [0, 1, 3, 4, 2] 2 ∧
    classOf exIso exKey [0, 1, 3, 4, 2] 0 ≠ classOf exIso exKey [0, 1, 3, 4, 2] 1 := by decide

/-- **C13, "the partition does not depend on the order of the list".** Let `ys` be `xs` read
through any index map `σ` (`ys[a] = xs[σ a]`; for a reordering of the list `σ` is the permutation).
Two positions of `ys` are classified together exactly when their pre-images are classified together
in `xs`: the partition of the positions of the reordered list is the image of the original partition
under the permutation. -/
theorem cluster_perm_invariant {iso : α → α → Bool} {key : α → κ} (hE : IsEquiv iso) (hK : KeyInv iso key)
    (xs ys : List α) (σ : Nat → Nat)
    (hσ : ∀ a, a < ys.length → σ a < xs.length ∧ ys[a]? = xs[σ a]?)
    (a b : Nat) (ha : a < ys.length) (hb : b < ys.length) :
    classOf iso key ys a = classOf iso key ys b ↔ classOf iso key xs (σ a) = classOf iso key xs (σ b) := by
  obtain ⟨ha', ea⟩ := hσ a ha
  obtain ⟨hb', eb⟩ := hσ b hb
  rw [same_class_iff hE hK ys a b ha hb, same_class_iff hE hK xs (σ a) (σ b) ha' hb']
  rw [List.getElem?_eq_getElem ha, List.getElem?_eq_getElem ha'] at ea
  rw [List.getElem?_eq_getElem hb, List.getElem?_eq_getElem hb'] at eb
  rw [Option.some.inj ea, Option.some.inj eb]

/-- The same statement without naming the permutation, for `List.Perm` (or any two lists): items
that occur in both lists are co-classified in the one exactly when they are in the other. -/
theorem cluster_perm_invariant_items {iso : α → α → Bool} {key : α → κ} (hE : IsEquiv iso) (hK : KeyInv iso key)
    (xs ys : List α) (_h : xs.Perm ys) (i j a b : Nat) (hi : i < xs.length) (hj : j < xs.length)
    (ha : a < ys.length) (hb : b < ys.length) (e1 : ys[a] = xs[i]) (e2 : ys[b] = xs[j]) :
    classOf iso key ys a = classOf iso key ys b ↔ classOf iso key xs i = classOf iso key xs j := by
  rw [same_class_iff hE hK ys a b ha hb, same_class_iff hE hK xs i j hi hj, e1, e2]

/-- Non-vacuity of `cluster_perm_invariant`: a list and a reordering of it (σ = [4,2,0,3,1]);
the classes are renumbered (first appearance) but the partition is the image. -/
example : gcClasses exIso exKey [0, 1, 3, 4, 2] = [some 0, some 1, some 0, some 1, some 2] ∧
    gcClasses exIso exKey [2, 3, 0, 4, 1] = [some 0, some 1, some 1, some 2, some 2] := by decide

/-- **C13, "classifying new items against existing class representatives", raw form.** For ANY
template list (no invariant needed) `lib_check` either finds a template with equal attribute that
is isomorphic to the item — the FIRST such in template order —, returns that template's class and
leaves the templates unchanged; or no such template exists, the returned class is fresh (differs
from the class of every template) and exactly one template, the item with that class, is appended. -/
theorem libCheck_spec (iso : α → α → Bool) (key : α → κ) (x : α) (ts : List (Tmpl α)) :
    (∃ pre t post, ts = pre ++ t :: post ∧ (key t.item = key x ∧ iso t.item x = true) ∧
        (∀ u ∈ pre, ¬ (key u.item = key x ∧ iso u.item x = true)) ∧ libCheck iso key x ts = (t.cls, ts)) ∨
    ((∀ t ∈ ts, ¬ (key t.item = key x ∧ iso t.item x = true)) ∧
        libCheck iso key x ts = (newClass ts, ts ++ [⟨x, newClass ts⟩]) ∧ ∀ t ∈ ts, t.cls ≠ newClass ts) :=
  libCheck_cases iso key x ts

/-- **C13, "puts each into the class of its isomorphic representative or into a fresh class when
none exists".** With `iso` an equivalence, an invariant attribute, and templates that are one
representative per class (`TInv`: pairwise non-isomorphic, pairwise different class numbers — the
numbers need not be contiguous): an item isomorphic to a template gets THE class of that template
and the templates are unchanged; an item isomorphic to no template gets a class carried by no
template and becomes the representative of it; in both cases the template invariant is kept. -/
theorem libCheck_joins_representative {iso : α → α → Bool} {key : α → κ} (hE : IsEquiv iso)
    (hK : KeyInv iso key) (ts : List (Tmpl α)) (hT : TInv iso ts) (x : α) :
    (∀ t ∈ ts, iso t.item x = true → libCheck iso key x ts = (t.cls, ts)) ∧
    ((∀ t ∈ ts, iso t.item x = false) →
        (libCheck iso key x ts).1 ∉ ts.map (·.cls) ∧
        (libCheck iso key x ts).2 = ts ++ [⟨x, (libCheck iso key x ts).1⟩]) ∧
    TInv iso (libCheck iso key x ts).2 :=
  libCheck_tinv hE hK ts hT x

/-- Non-vacuity of `libCheck_spec` / `libCheck_joins_representative`: templates with the
non-contiguous classes 7 and 3; 8 ≅ 5 joins class 7, 1 matches nothing and opens class 8. -/
example : libCheck exIso exKey 8 [⟨5, 7⟩, ⟨9, 3⟩] = (7, [⟨5, 7⟩, ⟨9, 3⟩]) ∧
    libCheck exIso exKey 1 [⟨5, 7⟩, ⟨9, 3⟩] = (8, [⟨5, 7⟩, ⟨9, 3⟩, ⟨1, 8⟩]) := by decide

example : TInv exIso ([⟨5, 7⟩, ⟨9, 3⟩] : List (Tmpl Nat)) := by
  intro i j a b ha hb hij
  match i, j with
  | 0, 0 => exact absurd rfl hij
  | 0, 1 => simp at ha hb; subst ha; subst hb; decide
  | 1, 0 => simp at ha hb; subst ha; subst hb; decide
  | 1, 1 => exact absurd rfl hij
  | 0, j + 2 => simp at hb
  | 1, j + 2 => simp at hb
  | i + 2, _ => simp at ha

/-- **C13, classification of a whole arrival sequence against existing representatives.** With
`iso` an equivalence, an invariant attribute and templates that are one representative per class,
`BatchCluster.cluster` keeps the template invariant, only appends templates, and the classes it
writes follow isomorphism: two arrivals share a class iff they are isomorphic, and an arrival gets
the class of a template given at the start iff it is isomorphic to that template (so an arrival
isomorphic to none of them gets a class none of them carries). -/
theorem cluster_with_templates_spec {iso : α → α → Bool} {key : α → κ} (hE : IsEquiv iso)
    (hK : KeyInv iso key) (l : List α) (ts : List (Tmpl α)) (hT : TInv iso ts) :
    TInv iso (clusterRun iso key l ts).2 ∧ (∃ E, (clusterRun iso key l ts).2 = ts ++ E) ∧
    (clusterRun iso key l ts).1.length = l.length ∧
    (∀ (i j : Nat) (xi xj : α) (ci cj : Int), l[i]? = some xi → l[j]? = some xj →
      (clusterRun iso key l ts).1[i]? = some ci → (clusterRun iso key l ts).1[j]? = some cj →
      (ci = cj ↔ iso xi xj = true)) ∧
    (∀ t ∈ ts, ∀ (k : Nat) (x : α) (c : Int), l[k]? = some x → (clusterRun iso key l ts).1[k]? = some c →
      (c = t.cls ↔ iso t.item x = true)) :=
  ⟨(clusterRun_tinv hE hK l ts hT).1, (clusterRun_tinv hE hK l ts hT).2.1, clusterRun_length iso key l ts,
    (clusterRun_spec hE hK l ts hT).1, (clusterRun_spec hE hK l ts hT).2⟩

/-- Non-vacuity of `cluster_with_templates_spec`: arrivals 0,1,3,8 against templates 5↦7, 9↦3. -/
example : clusterRun exIso exKey [0, 1, 3, 8] [⟨5, 7⟩, ⟨9, 3⟩] = ([3, 8, 3, 7], [⟨5, 7⟩, ⟨9, 3⟩, ⟨1, 8⟩]) := by decide

/-- **C13, incremental = one-shot.** Starting from empty templates, `BatchCluster.cluster`
(`lib_check` item by item) gives every item the very class number `GraphCluster.fit` gives it
one-shot (classes are numbered by first appearance in both), and cutting the list into ANY batches
processed one after the other with the templates threaded gives the same classes and templates.
No hypothesis on `iso` or `key`. -/
theorem incremental_eq_oneshot (iso : α → α → Bool) (key : α → κ) (xs : List α) :
    (clusterRun iso key xs []).1.map some = (gcClasses iso key xs).map (Option.map Int.ofNat) ∧
    ∀ bs : List (List α), bs.flatten = xs → fitBatches iso key bs [] = clusterRun iso key xs [] := by
  constructor
  · rw [gcClasses_eq_seqCls, (clusterRun_contig iso key xs [] rfl).1]
    simp only [List.map_map, List.map_nil]
    rfl
  · intro bs h; rw [fitBatches_eq, h]

/-- **C13, incremental classification in any arrival order.** (Equivalence + invariant key.) If the
items arrive in another order (`ys[a] = xs[σ a]`), incremental classification from empty templates
co-classifies two arrivals exactly when one-shot clustering of `xs` co-classifies their originals. -/
theorem incremental_perm_invariant {iso : α → α → Bool} {key : α → κ} (hE : IsEquiv iso) (hK : KeyInv iso key)
    (xs ys : List α) (σ : Nat → Nat)
    (hσ : ∀ a, a < ys.length → σ a < xs.length ∧ ys[a]? = xs[σ a]?)
    (a b : Nat) (ha : a < ys.length) (hb : b < ys.length) :
    (clusterRun iso key ys []).1[a]? = (clusterRun iso key ys []).1[b]? ↔
      classOf iso key xs (σ a) = classOf iso key xs (σ b) := by
  rw [← cluster_perm_invariant hE hK xs ys σ hσ a b ha hb]
  have h := (incremental_eq_oneshot iso key ys).1
  have e : ∀ c, c < ys.length →
      ((clusterRun iso key ys []).1[c]?).map some = some ((classOf iso key ys c).map Int.ofNat) := by
    intro c hc
    have := congrArg (·[c]?) h
    simp only [List.getElem?_map, gcClasses, List.getElem?_range hc, Option.map_some] at this
    rw [← this]
  have ea := e a ha
  have eb := e b hb
  obtain ⟨ca, hca, _⟩ := (cluster_partition iso key ys).2.2.2.2.1 a ha
  obtain ⟨cb, hcb, _⟩ := (cluster_partition iso key ys).2.2.2.2.1 b hb
  rw [hca] at ea ⊢
  rw [hcb] at eb ⊢
  cases ha' : (clusterRun iso key ys []).1[a]? with
  | none => rw [ha'] at ea; simp at ea
  | some va =>
    cases hb' : (clusterRun iso key ys []).1[b]? with
    | none => rw [hb'] at eb; simp at eb
    | some vb =>
      rw [ha'] at ea; rw [hb'] at eb
      simp only [Option.map_some, Option.some.injEq] at ea eb
      subst ea; subst eb
      simp only [Option.some.injEq]
      exact Int.ofNat_inj

/-- Non-vacuity of `incremental_eq_oneshot`: incremental classes of a concrete list equal the
one-shot classes, also in three batches. -/
example : (clusterRun exIso exKey [0, 1, 3, 4, 2, 6, 7] []).1 = [0, 1, 0, 1, 2, 0, 1] ∧
    (fitBatches exIso exKey [[0, 1, 3], [4, 2, 6], [7]] []).1 = [0, 1, 0, 1, 2, 0, 1] ∧
    gcClasses exIso exKey [0, 1, 3, 4, 2, 6, 7] = [some 0, some 1, some 0, some 1, some 2, some 0, some 1] := by
  decide

/-- **C13 (and C14), batched = one-shot for `BatchCluster.fit`.** For a non-empty list, no
templates (`None` or `[]`) and any `batch_size ≥ 1` — or no batch size — `fit` succeeds and writes
exactly the classes of one-shot `GraphCluster.fit`. With non-empty templates the classes and the
resulting templates are those of `cluster` on the whole list, whatever the batch size. -/
theorem batched_eq_oneshot (iso : α → α → Bool) (key : α → κ) (xs : List α) (hx : xs ≠ [])
    (ts0 : Option (List (Tmpl α))) (bs : Option Nat) (hbs : ∀ k, bs = some k → 1 ≤ k) :
    (ts0.getD [] = [] →
      ∃ ts', bcFit iso key xs ts0 bs = .ok ((gcClasses iso key xs).map (Option.map Int.ofNat), ts')) ∧
    (ts0.getD [] ≠ [] →
      bcFit iso key xs ts0 bs =
        .ok ((clusterRun iso key xs (ts0.getD [])).1.map some, (clusterRun iso key xs (ts0.getD [])).2)) := by
  have hgc : gcFit iso key xs = .ok (gcClasses iso key xs) := by
    cases xs with
    | nil => exact absurd rfl hx
    | cons x l => rfl
  have hinc := (incremental_eq_oneshot iso key xs).1
  cases bs with
  | none =>
    constructor
    · intro h0
      refine ⟨firstPerClass (xs.zip (gcClasses iso key xs)) [], ?_⟩
      simp [bcFit, h0, hgc]
    · intro h0
      cases hts : ts0.getD [] with
      | nil => exact absurd hts h0
      | cons t ts => simp [bcFit, hts]
  | some k =>
    have hk := hbs k rfl
    have hkk : ¬ k < 1 := by omega
    have hflat := chunks_flatten k hk xs.length xs (Nat.le_refl _)
    constructor
    · intro h0
      cases hch : chunks k xs.length xs with
      | nil => rw [hch] at hflat; exact absurd hflat.symm hx
      | cons b rest =>
        cases rest with
        | nil =>
          rw [hch] at hflat
          simp only [List.flatten_cons, List.flatten_nil, List.append_nil] at hflat
          subst hflat
          refine ⟨firstPerClass (b.zip (gcClasses iso key b)) [], ?_⟩
          simp [bcFit, batchDicts, hkk, hch, h0, hgc]
        | cons b2 rest =>
          refine ⟨(clusterRun iso key xs []).2, ?_⟩
          simp only [bcFit, batchDicts, hkk, if_false, hch, h0]
          rw [fitBatches_eq, ← hch, hflat, hinc]
    · intro h0
      cases hts : ts0.getD [] with
      | nil => exact absurd hts h0
      | cons t ts =>
        cases hch : chunks k xs.length xs with
        | nil => rw [hch] at hflat; exact absurd hflat.symm hx
        | cons b rest =>
          cases rest with
          | nil =>
            rw [hch] at hflat
            simp only [List.flatten_cons, List.flatten_nil, List.append_nil] at hflat
            subst hflat
            simp [bcFit, batchDicts, hkk, hch, hts]
          | cons b2 rest =>
            simp only [bcFit, batchDicts, hkk, if_false, hch, hts]
            rw [fitBatches_eq, ← hch, hflat]

/-- Non-vacuity of `batched_eq_oneshot`: `fit` with `batch_size = 3` and without batch size, no
templates; and with two pre-existing templates. -/
example : bcFit exIso exKey [0, 1, 3, 4, 2, 6, 7] none (some 3) =
    .ok ([some 0, some 1, some 0, some 1, some 2, some 0, some 1], [⟨0, 0⟩, ⟨1, 1⟩, ⟨2, 2⟩]) := by decide
example : bcFit exIso exKey [0, 1, 3, 4, 2, 6, 7] (some []) none =
    .ok ([some 0, some 1, some 0, some 1, some 2, some 0, some 1], [⟨0, 0⟩, ⟨1, 1⟩, ⟨2, 2⟩]) := by decide
example : bcFit exIso exKey [0, 1, 3] (some [⟨5, 7⟩, ⟨9, 3⟩]) (some 2) =
    .ok ([some 3, some 8, some 3], [⟨5, 7⟩, ⟨9, 3⟩, ⟨1, 8⟩]) := by decide
/-- The error branches are modelled, not totalised away. -/
example : bcFit exIso exKey [0, 1] none (some 0) = .error .valueError := by decide
example : bcFit exIso exKey ([] : List Nat) none none = .error .indexError := by decide

/-- The whole of C13 over the model, for every item type, oracle and attribute. -/
def C13.FullStatement : Prop :=
  ∀ (α κ : Type) [DecidableEq κ] (iso : α → α → Bool) (key : α → κ),
    -- every item gets exactly one class; `clusters` is a partition agreeing with `rule_to_cluster`
    (∀ xs : List α,
      let s := iterState iso key xs
      s.clusters.flatten.Nodup ∧ (∀ j, j ∈ s.clusters.flatten ↔ j < xs.length) ∧ (∀ C ∈ s.clusters, C ≠ []) ∧
      (∀ j c, classOf iso key xs j = some c ↔ ∃ C, s.clusters[c]? = some C ∧ j ∈ C) ∧
      (∀ j, j < xs.length → ∃ c, classOf iso key xs j = some c ∧ c < s.clusters.length)) ∧
    -- incremental (any batching) = one-shot, class numbers included; `fit` batched = one-shot
    (∀ xs : List α,
      (clusterRun iso key xs []).1.map some = (gcClasses iso key xs).map (Option.map Int.ofNat) ∧
      (∀ bs : List (List α), bs.flatten = xs → fitBatches iso key bs [] = clusterRun iso key xs []) ∧
      (xs ≠ [] → ∀ k, 1 ≤ k → ∃ ts',
        bcFit iso key xs none (some k) = .ok ((gcClasses iso key xs).map (Option.map Int.ofNat), ts'))) ∧
    -- raw behaviour of `lib_check` on any templates: first matching template, else a fresh class
    (∀ (x : α) (ts : List (Tmpl α)),
      (∃ (pre : List (Tmpl α)) (t : Tmpl α) (post : List (Tmpl α)), ts = pre ++ t :: post ∧
          (key t.item = key x ∧ iso t.item x = true) ∧
          (∀ u ∈ pre, ¬ (key u.item = key x ∧ iso u.item x = true)) ∧ libCheck iso key x ts = (t.cls, ts)) ∨
      ((∀ t ∈ ts, ¬ (key t.item = key x ∧ iso t.item x = true)) ∧
          libCheck iso key x ts = (newClass ts, ts ++ [⟨x, newClass ts⟩]) ∧ ∀ t ∈ ts, t.cls ≠ newClass ts)) ∧
    (IsEquiv iso → KeyInv iso key →
      -- same class ⇔ isomorphic
      (∀ (xs : List α) (i j : Nat) (hi : i < xs.length) (hj : j < xs.length),
        classOf iso key xs i = classOf iso key xs j ↔ iso xs[i] xs[j] = true) ∧
      -- the partition does not depend on the order of the list (one-shot and incremental)
      (∀ (xs ys : List α) (σ : Nat → Nat), (∀ a, a < ys.length → σ a < xs.length ∧ ys[a]? = xs[σ a]?) →
        ∀ a b, a < ys.length → b < ys.length →
          ((classOf iso key ys a = classOf iso key ys b ↔ classOf iso key xs (σ a) = classOf iso key xs (σ b)) ∧
           ((clusterRun iso key ys []).1[a]? = (clusterRun iso key ys []).1[b]? ↔
              classOf iso key xs (σ a) = classOf iso key xs (σ b)))) ∧
      -- new items join the class of their isomorphic representative, else a fresh class
      (∀ (ts : List (Tmpl α)) (x : α), TInv iso ts →
        (∀ t ∈ ts, iso t.item x = true → libCheck iso key x ts = (t.cls, ts)) ∧
        ((∀ t ∈ ts, iso t.item x = false) →
            (libCheck iso key x ts).1 ∉ ts.map (·.cls) ∧
            (libCheck iso key x ts).2 = ts ++ [⟨x, (libCheck iso key x ts).1⟩]) ∧
        TInv iso (libCheck iso key x ts).2) ∧
      -- … and so does every arrival of a whole sequence classified against existing representatives
      (∀ (l : List α) (ts : List (Tmpl α)), TInv iso ts →
        TInv iso (clusterRun iso key l ts).2 ∧ (∃ E, (clusterRun iso key l ts).2 = ts ++ E) ∧
        (clusterRun iso key l ts).1.length = l.length ∧
        (∀ (i j : Nat) (xi xj : α) (ci cj : Int), l[i]? = some xi → l[j]? = some xj →
          (clusterRun iso key l ts).1[i]? = some ci → (clusterRun iso key l ts).1[j]? = some cj →
          (ci = cj ↔ iso xi xj = true)) ∧
        (∀ t ∈ ts, ∀ (k : Nat) (x : α) (c : Int), l[k]? = some x → (clusterRun iso key l ts).1[k]? = some c →
          (c = t.cls ↔ iso t.item x = true))))

/-- **C13, full statement**, assembled from the theorems above. -/
theorem C13.full : C13.FullStatement := by
  intro α κ _ iso key
  refine ⟨?_, ?_, ?_, ?_⟩
  · intro xs
    obtain ⟨h1, h2, h3, h4, h5, _⟩ := cluster_partition iso key xs
    exact ⟨h1, h2, h3, h4, h5⟩
  · intro xs
    refine ⟨(incremental_eq_oneshot iso key xs).1, (incremental_eq_oneshot iso key xs).2, ?_⟩
    intro hx k hk
    exact (batched_eq_oneshot iso key xs hx none (some k) (by intro k' e; cases e; exact hk)).1 rfl
  · intro x ts; exact libCheck_spec iso key x ts
  · intro hE hK
    refine ⟨same_class_iff hE hK, ?_, ?_, ?_⟩
    · intro xs ys σ hσ a b ha hb
      exact ⟨cluster_perm_invariant hE hK xs ys σ hσ a b ha hb,
        incremental_perm_invariant hE hK xs ys σ hσ a b ha hb⟩
    · intro ts x hT; exact libCheck_joins_representative hE hK ts hT x
    · intro l ts hT; exact cluster_with_templates_spec hE hK l ts hT

/-! ## The theorems relativised to a carrier predicate

The oracle of the real code (`graph_isomorphism`) is an equivalence relation on WELL-FORMED graphs
only, so the hypotheses `IsEquiv` / `KeyInv` are asked on a carrier `P` (`IsEquivOn P iso`,
`KeyInvOn P iso key`) and the lists / templates are assumed to lie in `P`.  Each theorem is obtained from
its unrelativised version over the subtype `{x // P x}` through the pull-back lemmas of
`SynKitProofs/ClusterIso.lean` (`classOf_map`, `libCheck_map`, `clusterRun_map`, `tinv_map`). -/

/-- **C13, "two items share a class iff their graphs are isomorphic"**, relativised to a carrier `P`. -/
theorem same_class_iff_on {P : α → Prop} {iso : α → α → Bool} {key : α → κ} (hE : IsEquivOn P iso)
    (hK : KeyInvOn P iso key) (xs : List α) (hP : ∀ x ∈ xs, P x) (i j : Nat) (hi : i < xs.length) (hj : j < xs.length) :
    classOf iso key xs i = classOf iso key xs j ↔ iso xs[i] xs[j] = true := by
  obtain ⟨ys, rfl⟩ := exists_lift xs hP
  rw [classOf_map, classOf_map]
  simp only [List.getElem_map]
  exact same_class_iff (isEquiv_sub hE) (keyInv_sub hK) ys i j (by simpa using hi) (by simpa using hj)

/-- **C13, "the partition does not depend on the order of the list"**, relativised to a carrier `P`. -/
theorem cluster_perm_invariant_on {P : α → Prop} {iso : α → α → Bool} {key : α → κ} (hE : IsEquivOn P iso)
    (hK : KeyInvOn P iso key) (xs ys : List α) (hPx : ∀ x ∈ xs, P x) (hPy : ∀ y ∈ ys, P y) (σ : Nat → Nat)
    (hσ : ∀ a, a < ys.length → σ a < xs.length ∧ ys[a]? = xs[σ a]?)
    (a b : Nat) (ha : a < ys.length) (hb : b < ys.length) :
    classOf iso key ys a = classOf iso key ys b ↔ classOf iso key xs (σ a) = classOf iso key xs (σ b) := by
  obtain ⟨ha', ea⟩ := hσ a ha
  obtain ⟨hb', eb⟩ := hσ b hb
  rw [same_class_iff_on hE hK ys hPy a b ha hb, same_class_iff_on hE hK xs hPx (σ a) (σ b) ha' hb']
  rw [List.getElem?_eq_getElem ha, List.getElem?_eq_getElem ha'] at ea
  rw [List.getElem?_eq_getElem hb, List.getElem?_eq_getElem hb'] at eb
  rw [Option.some.inj ea, Option.some.inj eb]

/-- Non-vacuity of the relativised theorems: on the carrier `P x := x < 100` the residue oracle is an
equivalence with invariant key (it is one everywhere; the point is that the hypotheses are satisfiable). -/
example : IsEquivOn (fun x : Nat => x < 100) exIso ∧ KeyInvOn (fun x : Nat => x < 100) exIso exKey :=
  ⟨⟨fun x _ => exIso_equiv.refl x, fun x y _ _ => exIso_equiv.symm x y, fun x y z _ _ _ => exIso_equiv.trans x y z⟩,
    fun x y _ _ => exKey_inv x y⟩

/-- **C13, "puts each into the class of its isomorphic representative or into a fresh class when none
exists"**, relativised to a carrier `P` (templates and the item lie in `P`; the new templates do too). -/
theorem libCheck_joins_representative_on {P : α → Prop} {iso : α → α → Bool} {key : α → κ} (hE : IsEquivOn P iso)
    (hK : KeyInvOn P iso key) (ts : List (Tmpl α)) (hPt : ∀ t ∈ ts, P t.item) (hT : TInv iso ts) (x : α) (hx : P x) :
    (∀ t ∈ ts, iso t.item x = true → libCheck iso key x ts = (t.cls, ts)) ∧
    ((∀ t ∈ ts, iso t.item x = false) →
        (libCheck iso key x ts).1 ∉ ts.map (·.cls) ∧
        (libCheck iso key x ts).2 = ts ++ [⟨x, (libCheck iso key x ts).1⟩]) ∧
    TInv iso (libCheck iso key x ts).2 ∧ (∀ t ∈ (libCheck iso key x ts).2, P t.item) := by
  obtain ⟨us, rfl⟩ := exists_lift_tmpl ts hPt
  have hx' : x = (⟨x, hx⟩ : {x // P x}).val := rfl
  obtain ⟨h1, h2, h3⟩ := libCheck_joins_representative (isEquiv_sub hE) (keyInv_sub hK) us
    ((tinv_map iso Subtype.val us).1 hT) ⟨x, hx⟩
  have hcls : (us.map (tmap Subtype.val)).map (·.cls) = us.map (·.cls) := by
    rw [List.map_map]; rfl
  rw [hx', libCheck_map]
  refine ⟨?_, ?_, (tinv_map iso Subtype.val _).2 h3, ?_⟩
  · intro t ht hiso
    obtain ⟨u, hu, rfl⟩ := List.mem_map.1 ht
    rw [h1 u hu hiso]; rfl
  · intro hall
    obtain ⟨g1, g2⟩ := h2 (fun u hu => hall _ (List.mem_map.2 ⟨u, hu, rfl⟩))
    refine ⟨by rw [hcls]; exact g1, ?_⟩
    simp only
    rw [g2, List.map_append]
    rfl
  · intro t ht
    obtain ⟨u, _, rfl⟩ := List.mem_map.1 ht
    exact u.item.2

/-- **C13, classification of a whole arrival sequence against existing representatives**, relativised
to a carrier `P`. -/
theorem cluster_with_templates_spec_on {P : α → Prop} {iso : α → α → Bool} {key : α → κ} (hE : IsEquivOn P iso)
    (hK : KeyInvOn P iso key) (l : List α) (hPl : ∀ x ∈ l, P x) (ts : List (Tmpl α)) (hPt : ∀ t ∈ ts, P t.item)
    (hT : TInv iso ts) :
    TInv iso (clusterRun iso key l ts).2 ∧ (∃ E, (clusterRun iso key l ts).2 = ts ++ E) ∧
    (clusterRun iso key l ts).1.length = l.length ∧
    (∀ (i j : Nat) (xi xj : α) (ci cj : Int), l[i]? = some xi → l[j]? = some xj →
      (clusterRun iso key l ts).1[i]? = some ci → (clusterRun iso key l ts).1[j]? = some cj →
      (ci = cj ↔ iso xi xj = true)) ∧
    (∀ t ∈ ts, ∀ (k : Nat) (x : α) (c : Int), l[k]? = some x → (clusterRun iso key l ts).1[k]? = some c →
      (c = t.cls ↔ iso t.item x = true)) := by
  obtain ⟨us, rfl⟩ := exists_lift_tmpl ts hPt
  obtain ⟨ys, rfl⟩ := exists_lift l hPl
  obtain ⟨h1, ⟨E, h2⟩, h3, h4, h5⟩ := cluster_with_templates_spec (isEquiv_sub hE) (keyInv_sub hK) ys us
    ((tinv_map iso Subtype.val us).1 hT)
  rw [clusterRun_map]
  refine ⟨(tinv_map iso Subtype.val _).2 h1, ⟨E.map (tmap Subtype.val), by simp only; rw [h2, List.map_append]⟩,
    by simpa using h3, ?_, ?_⟩
  · intro i j xi xj ci cj hi hj hci hcj
    rw [List.getElem?_map] at hi hj
    cases hi' : ys[i]? with
    | none => rw [hi'] at hi; cases hi
    | some yi =>
      cases hj' : ys[j]? with
      | none => rw [hj'] at hj; cases hj
      | some yj =>
        rw [hi'] at hi; rw [hj'] at hj
        cases hi; cases hj
        exact h4 i j yi yj ci cj hi' hj' hci hcj
  · intro t ht k x c hk hc
    obtain ⟨u, hu, rfl⟩ := List.mem_map.1 ht
    rw [List.getElem?_map] at hk
    cases hk' : ys[k]? with
    | none => rw [hk'] at hk; cases hk
    | some y =>
      rw [hk'] at hk
      cases hk
      exact h5 u hu k y c hk' hc

/-- **C13, incremental vs one-shot co-classification** (no hypothesis on `iso` or `key`): from empty
templates, incremental classification puts two arrivals into one class exactly when one-shot clustering of
the same list does (consequence of `incremental_eq_oneshot`). -/
theorem incremental_same_class_iff_oneshot (iso : α → α → Bool) (key : α → κ) (ys : List α)
    (a b : Nat) (ha : a < ys.length) (hb : b < ys.length) :
    (clusterRun iso key ys []).1[a]? = (clusterRun iso key ys []).1[b]? ↔
      classOf iso key ys a = classOf iso key ys b := by
  have h := (incremental_eq_oneshot iso key ys).1
  have e : ∀ c, c < ys.length →
      ((clusterRun iso key ys []).1[c]?).map some = some ((classOf iso key ys c).map Int.ofNat) := by
    intro c hc
    have := congrArg (·[c]?) h
    simp only [List.getElem?_map, gcClasses, List.getElem?_range hc, Option.map_some] at this
    rw [← this]
  have ea := e a ha
  have eb := e b hb
  obtain ⟨ca, hca, _⟩ := (cluster_partition iso key ys).2.2.2.2.1 a ha
  obtain ⟨cb, hcb, _⟩ := (cluster_partition iso key ys).2.2.2.2.1 b hb
  rw [hca] at ea ⊢
  rw [hcb] at eb ⊢
  cases ha' : (clusterRun iso key ys []).1[a]? with
  | none => rw [ha'] at ea; simp at ea
  | some va =>
    cases hb' : (clusterRun iso key ys []).1[b]? with
    | none => rw [hb'] at eb; simp at eb
    | some vb =>
      rw [ha'] at ea; rw [hb'] at eb
      simp only [Option.map_some, Option.some.injEq] at ea eb
      subst ea; subst eb
      simp only [Option.some.injEq]
      exact Int.ofNat_inj

/-- **C13, incremental classification in any arrival order**, relativised to a carrier `P`. -/
theorem incremental_perm_invariant_on {P : α → Prop} {iso : α → α → Bool} {key : α → κ} (hE : IsEquivOn P iso)
    (hK : KeyInvOn P iso key) (xs ys : List α) (hPx : ∀ x ∈ xs, P x) (hPy : ∀ y ∈ ys, P y) (σ : Nat → Nat)
    (hσ : ∀ a, a < ys.length → σ a < xs.length ∧ ys[a]? = xs[σ a]?)
    (a b : Nat) (ha : a < ys.length) (hb : b < ys.length) :
    (clusterRun iso key ys []).1[a]? = (clusterRun iso key ys []).1[b]? ↔
      classOf iso key xs (σ a) = classOf iso key xs (σ b) := by
  rw [incremental_same_class_iff_oneshot iso key ys a b ha hb]
  exact cluster_perm_invariant_on hE hK xs ys hPx hPy σ hσ a b ha hb

/-! ## C13 with the real isomorphism: element, charge and bond order

`clIso G H = isoDecide clSel (norm G) (norm H)` (`SynKitProofs/ClusterIso.lean`) is
`graph_isomorphism(G, H, nodeMatch, edgeMatch)` with the matchers `GraphCluster()` / `BatchCluster()`
build: node keys `element`, `charge`, edge key `order`, no hydrogen rule, the `generic_*_match` defaults
(`"*"`, `0`, `1`) written out by `norm` (`nodeOk_norm_iff`, `edgeOk_norm_iff`).  It decides
`∃ m, IsIso clSel (norm G) (norm H) m` (`clIso_iff`) and is an equivalence on well-formed graphs. -/

open SynKit.Match

/-- **The oracle of the code is an equivalence relation on well-formed graphs** (the hypothesis `IsEquiv`
of the abstract theorems, over the subtype of well-formed graphs; `clIso_equivOn` is the same fact with a
carrier predicate): reflexive, symmetric (no hydrogen rule), transitive. -/
theorem clIso_equiv_wf : IsEquiv (fun G H : {G : LGraph // G.WF} => clIso G.1 H.1) :=
  isEquiv_sub clIso_equivOn

omit [DecidableEq κ] in
/-- "Isomorphism-invariant pre-grouping attribute" for the real isomorphism. The constant attribute
(`attribute_key = None`) satisfies it trivially. -/
def KeyInvIso (key : LGraph → κ) : Prop :=
  ∀ G H : LGraph, G.WF → H.WF → (∃ m, IsIso clSel (norm G) (norm H) m) → key G = key H

omit [DecidableEq κ] in
theorem KeyInvIso.on {key : LGraph → κ} (hK : KeyInvIso key) : KeyInvOn LGraph.WF clIso key :=
  fun G H hG hH h => hK G H hG hH ((clIso_iff G H hH).1 h)

/-- **C13, "two items share a class iff their graphs are isomorphic on element, charge and bond order".**
For every list of well-formed graphs and every isomorphism-invariant pre-grouping attribute, two positions
get the same class from `GraphCluster.iterative_cluster` / `fit` exactly when there is a node bijection
between the two graphs that preserves adjacency and non-adjacency, `element`, `charge` (defaults `"*"`, `0`)
and `order` (default `1`). -/
theorem same_class_iff_iso {key : LGraph → κ} (hK : KeyInvIso key) (xs : List LGraph) (hW : ∀ G ∈ xs, G.WF)
    (i j : Nat) (hi : i < xs.length) (hj : j < xs.length) :
    classOf clIso key xs i = classOf clIso key xs j ↔ ∃ m, IsIso clSel (norm xs[i]) (norm xs[j]) m := by
  rw [same_class_iff_on clIso_equivOn hK.on xs hW i j hi hj]
  exact clIso_iff xs[i] xs[j] (hW _ (List.getElem_mem hj))

/-- **C13, "the partition does not depend on the order of the list"**, for the real isomorphism:
if `ys` is `xs` read through an index map `σ` (a reordering), two positions of `ys` are classified
together exactly when their pre-images are classified together in `xs` — and that is exactly when the two
graphs are isomorphic on element, charge and bond order. -/
theorem cluster_perm_invariant_iso {key : LGraph → κ} (hK : KeyInvIso key) (xs ys : List LGraph)
    (hWx : ∀ G ∈ xs, G.WF) (hWy : ∀ G ∈ ys, G.WF) (σ : Nat → Nat)
    (hσ : ∀ a, a < ys.length → σ a < xs.length ∧ ys[a]? = xs[σ a]?)
    (a b : Nat) (ha : a < ys.length) (hb : b < ys.length) :
    (classOf clIso key ys a = classOf clIso key ys b ↔ classOf clIso key xs (σ a) = classOf clIso key xs (σ b)) ∧
    (classOf clIso key ys a = classOf clIso key ys b ↔ ∃ m, IsIso clSel (norm ys[a]) (norm ys[b]) m) :=
  ⟨cluster_perm_invariant_on clIso_equivOn hK.on xs ys hWx hWy σ hσ a b ha hb,
    same_class_iff_iso hK ys hWy a b ha hb⟩

/-- **C13, "classifying new items against existing class representatives", raw form, for the real
isomorphism.** For ANY template list and a well-formed new graph `x`, `lib_check` either finds a template
with equal attribute that is isomorphic to `x` on element, charge and bond order — the FIRST such in
template order —, returns its class and leaves the templates unchanged; or no template with equal attribute
is isomorphic to `x`, the returned class is fresh and exactly one template (`x` with that class) is appended. -/
theorem libCheck_spec_iso (key : LGraph → κ) (x : LGraph) (hx : x.WF) (ts : List (Tmpl LGraph)) :
    (∃ pre t post, ts = pre ++ t :: post ∧
        (key t.item = key x ∧ ∃ m, IsIso clSel (norm t.item) (norm x) m) ∧
        (∀ u ∈ pre, ¬ (key u.item = key x ∧ ∃ m, IsIso clSel (norm u.item) (norm x) m)) ∧
        libCheck clIso key x ts = (t.cls, ts)) ∨
    ((∀ t ∈ ts, ¬ (key t.item = key x ∧ ∃ m, IsIso clSel (norm t.item) (norm x) m)) ∧
        libCheck clIso key x ts = (newClass ts, ts ++ [⟨x, newClass ts⟩]) ∧ ∀ t ∈ ts, t.cls ≠ newClass ts) := by
  have h := libCheck_spec clIso key x ts
  simp only [clIso_iff _ x hx] at h
  exact h

/-- **C13, "puts each into the class of its isomorphic representative or into a fresh class when none
exists", for the real isomorphism.** Well-formed templates that are one representative per class
(pairwise non-isomorphic, pairwise different class numbers), an invariant attribute, a well-formed new
graph: if a template is isomorphic to it on element, charge and bond order it gets THE class of that
template and the templates are unchanged; if none is, it gets a class no template carries and becomes its
representative; the template invariant and well-formedness are kept. -/
theorem libCheck_joins_representative_iso {key : LGraph → κ} (hK : KeyInvIso key) (ts : List (Tmpl LGraph))
    (hWt : ∀ t ∈ ts, t.item.WF) (hT : TInv clIso ts) (x : LGraph) (hx : x.WF) :
    (∀ t ∈ ts, (∃ m, IsIso clSel (norm t.item) (norm x) m) → libCheck clIso key x ts = (t.cls, ts)) ∧
    ((∀ t ∈ ts, ¬ ∃ m, IsIso clSel (norm t.item) (norm x) m) →
        (libCheck clIso key x ts).1 ∉ ts.map (·.cls) ∧
        (libCheck clIso key x ts).2 = ts ++ [⟨x, (libCheck clIso key x ts).1⟩]) ∧
    TInv clIso (libCheck clIso key x ts).2 ∧ (∀ t ∈ (libCheck clIso key x ts).2, t.item.WF) := by
  obtain ⟨h1, h2, h3, h4⟩ := libCheck_joins_representative_on clIso_equivOn hK.on ts hWt hT x hx
  refine ⟨fun t ht hm => h1 t ht ((clIso_iff _ x hx).2 hm), fun hall => h2 (fun t ht => ?_), h3, h4⟩
  cases h : clIso t.item x with
  | false => rfl
  | true => exact absurd ((clIso_iff _ x hx).1 h) (hall t ht)

/-- **C13, classification of a whole arrival sequence against existing representatives, for the real
isomorphism**: two arrivals share a class iff they are isomorphic on element, charge and bond order; an
arrival gets the class of a template given at the start iff it is isomorphic to that template. -/
theorem cluster_with_templates_spec_iso {key : LGraph → κ} (hK : KeyInvIso key) (l : List LGraph)
    (hWl : ∀ G ∈ l, G.WF) (ts : List (Tmpl LGraph)) (hWt : ∀ t ∈ ts, t.item.WF) (hT : TInv clIso ts) :
    TInv clIso (clusterRun clIso key l ts).2 ∧ (∃ E, (clusterRun clIso key l ts).2 = ts ++ E) ∧
    (clusterRun clIso key l ts).1.length = l.length ∧
    (∀ (i j : Nat) (xi xj : LGraph) (ci cj : Int), l[i]? = some xi → l[j]? = some xj →
      (clusterRun clIso key l ts).1[i]? = some ci → (clusterRun clIso key l ts).1[j]? = some cj →
      (ci = cj ↔ ∃ m, IsIso clSel (norm xi) (norm xj) m)) ∧
    (∀ t ∈ ts, ∀ (k : Nat) (x : LGraph) (c : Int), l[k]? = some x → (clusterRun clIso key l ts).1[k]? = some c →
      (c = t.cls ↔ ∃ m, IsIso clSel (norm t.item) (norm x) m)) := by
  obtain ⟨h1, h2, h3, h4, h5⟩ := cluster_with_templates_spec_on clIso_equivOn hK.on l hWl ts hWt hT
  refine ⟨h1, h2, h3, ?_, ?_⟩
  · intro i j xi xj ci cj hi hj hci hcj
    rw [h4 i j xi xj ci cj hi hj hci hcj]
    exact clIso_iff xi xj (hWl _ (List.mem_of_getElem? hj))
  · intro t ht k x c hk hc
    rw [h5 t ht k x c hk hc]
    exact clIso_iff t.item x (hWl _ (List.mem_of_getElem? hk))

/-- **C13, incremental classification in any arrival order, for the real isomorphism.** If the
well-formed graphs of `xs` arrive in another order (`ys[a] = xs[σ a]`), incremental classification from empty
templates (`BatchCluster.cluster`, any batching by `incremental_eq_oneshot`) co-classifies two arrivals exactly
when one-shot clustering of `xs` co-classifies their originals — exactly when the two graphs are isomorphic
on element, charge and bond order. -/
theorem incremental_perm_invariant_iso {key : LGraph → κ} (hK : KeyInvIso key) (xs ys : List LGraph)
    (hWx : ∀ G ∈ xs, G.WF) (hWy : ∀ G ∈ ys, G.WF) (σ : Nat → Nat)
    (hσ : ∀ a, a < ys.length → σ a < xs.length ∧ ys[a]? = xs[σ a]?)
    (a b : Nat) (ha : a < ys.length) (hb : b < ys.length) :
    ((clusterRun clIso key ys []).1[a]? = (clusterRun clIso key ys []).1[b]? ↔
      classOf clIso key xs (σ a) = classOf clIso key xs (σ b)) ∧
    ((clusterRun clIso key ys []).1[a]? = (clusterRun clIso key ys []).1[b]? ↔
      ∃ m, IsIso clSel (norm ys[a]) (norm ys[b]) m) :=
  ⟨incremental_perm_invariant_on clIso_equivOn hK.on xs ys hWx hWy σ hσ a b ha hb,
    (incremental_same_class_iff_oneshot clIso key ys a b ha hb).trans (same_class_iff_iso hK ys hWy a b ha hb)⟩

/-- **C13, relabelled copies land in the same class (one-shot clustering).** If position `j` of a list
of well-formed graphs holds a copy of the graph at position `i` with the node ids renamed by an `f` that
is injective on the nodes of that graph (node order, edge order and all attributes kept — `relabel_nodes`),
both positions get the same class. -/
theorem relabel_same_class_iso {key : LGraph → κ} (hK : KeyInvIso key) (xs : List LGraph) (hW : ∀ G ∈ xs, G.WF)
    (i j : Nat) (hi : i < xs.length) (hj : j < xs.length) (f : Nat → Nat) (hf : InjOnIds xs[i] f)
    (e : xs[j] = xs[i].relabel f) : classOf clIso key xs i = classOf clIso key xs j := by
  have hWi := hW _ (List.getElem_mem hi)
  have hWj := hW _ (List.getElem_mem hj)
  rw [same_class_iff_on clIso_equivOn hK.on xs hW i j hi hj, clIso_symm _ _ hWi hWj, e]
  exact clIso_relabel_self xs[i] hWi f hf

/-- **C13, relabelled copies land in the same class (incremental classification).** With well-formed
one-representative-per-class templates, a well-formed relabelled copy of a template's graph is put into
that template's class and the templates stay as they are. -/
theorem libCheck_relabel_joins_iso {key : LGraph → κ} (hK : KeyInvIso key) (ts : List (Tmpl LGraph))
    (hWt : ∀ t ∈ ts, t.item.WF) (hT : TInv clIso ts) (t : Tmpl LGraph) (ht : t ∈ ts) (f : Nat → Nat)
    (hf : InjOnIds t.item f) (hx : (t.item.relabel f).WF) :
    libCheck clIso key (t.item.relabel f) ts = (t.cls, ts) := by
  have hWt' := hWt t ht
  refine (libCheck_joins_representative_on clIso_equivOn hK.on ts hWt hT _ hx).1 t ht ?_
  rw [clIso_symm _ _ hWt' hx]
  exact clIso_relabel_self t.item hWt' f hf

/-! ### non-vacuity on concrete graphs (`decide`)

`gA`: C(=O)–N⁺ ; `gB`: a relabelled copy (ids renamed, node and edge order changed, one edge written in the
other direction); `gC`: near miss, one charge changed; `gD`: near miss, one bond order changed; `gE`: `gA` with
the charges `0` and the single-bond order left out (the `generic_*_match` defaults apply). -/

def gA : LGraph :=
  { nodes := [(1, [("element", .str "C"), ("charge", .num 0)]), (2, [("element", .str "O"), ("charge", .num 0)]),
              (3, [("element", .str "N"), ("charge", .num 2)])],
    edges := [(1, 2, [("order", .num 4)]), (1, 3, [("order", .num 2)])] }
def gB : LGraph :=
  { nodes := [(5, [("element", .str "N"), ("charge", .num 2)]), (7, [("element", .str "O"), ("charge", .num 0)]),
              (6, [("element", .str "C"), ("charge", .num 0)])],
    edges := [(6, 5, [("order", .num 2)]), (7, 6, [("order", .num 4)])] }
def gC : LGraph :=
  { nodes := [(1, [("element", .str "C"), ("charge", .num 0)]), (2, [("element", .str "O"), ("charge", .num 0)]),
              (3, [("element", .str "N"), ("charge", .num 0)])],
    edges := [(1, 2, [("order", .num 4)]), (1, 3, [("order", .num 2)])] }
def gD : LGraph :=
  { nodes := [(1, [("element", .str "C"), ("charge", .num 0)]), (2, [("element", .str "O"), ("charge", .num 0)]),
              (3, [("element", .str "N"), ("charge", .num 2)])],
    edges := [(1, 2, [("order", .num 2)]), (1, 3, [("order", .num 2)])] }
def gE : LGraph :=
  { nodes := [(1, [("element", .str "C")]), (2, [("element", .str "O")]),
              (3, [("element", .str "N"), ("charge", .num 2)])],
    edges := [(1, 2, [("order", .num 4)]), (1, 3, [])] }

/-- The hypotheses of the `_iso` theorems are satisfiable: the five graphs are well-formed, and the
constant attribute (`attribute_key = None`) is isomorphism-invariant. -/
example : ∀ G ∈ [gA, gC, gB, gD, gE], G.WF := by decide
example : KeyInvIso (fun _ : LGraph => ()) := fun _ _ _ _ _ => rfl

/-- Non-vacuity of `same_class_iff_iso` / `relabel_same_class_iso`: the relabelled copy and the copy with
defaulted attributes share the class of `gA`; each near miss (one charge, one bond order) is alone. -/
example : gcClasses clIso (fun _ => ()) [gA, gC, gB, gD, gE] = [some 0, some 1, some 0, some 2, some 0] := by
  decide

/-- Non-vacuity of `cluster_perm_invariant_iso`: another order of the same list; the classes are renumbered
by first appearance, the partition is the image ({gA, gB, gE}, {gC}, {gD}). -/
example : gcClasses clIso (fun _ => ()) [gD, gE, gC, gB, gA] = [some 0, some 1, some 2, some 1, some 1] := by
  decide

/-- The relabelled copy written with `relabel` (the renaming `v ↦ 8 - v` is injective on the nodes of `gA`,
not on ℕ): verdict `true` in both directions; the near misses are rejected in both directions. -/
example : clIso gA (gA.relabel fun v => 8 - v) = true ∧ clIso (gA.relabel fun v => 8 - v) gA = true ∧
    clIso gA gB = true ∧ clIso gA gC = false ∧ clIso gC gA = false ∧ clIso gA gD = false ∧ clIso gD gA = false ∧
    clIso gA gE = true ∧ clIso gE gA = true := by decide

/-- Non-vacuity of `libCheck_spec_iso` / `libCheck_joins_representative_iso`: templates `gA ↦ 7`, `gC ↦ 3`;
the relabelled copy `gB` joins class 7, the bond-order near miss `gD` matches nothing and opens class 8. -/
example : libCheck clIso (fun _ => ()) gB [⟨gA, 7⟩, ⟨gC, 3⟩] = (7, [⟨gA, 7⟩, ⟨gC, 3⟩]) ∧
    libCheck clIso (fun _ => ()) gD [⟨gA, 7⟩, ⟨gC, 3⟩] = (8, [⟨gA, 7⟩, ⟨gC, 3⟩, ⟨gD, 8⟩]) := by decide

example : TInv clIso ([⟨gA, 7⟩, ⟨gC, 3⟩] : List (Tmpl LGraph)) := by
  intro i j a b ha hb hij
  match i, j with
  | 0, 0 => exact absurd rfl hij
  | 0, 1 => simp at ha hb; subst ha; subst hb; decide
  | 1, 0 => simp at ha hb; subst ha; subst hb; decide
  | 1, 1 => exact absurd rfl hij
  | 0, j + 2 => simp at hb
  | 1, j + 2 => simp at hb
  | i + 2, _ => simp at ha

/-- Non-vacuity of `cluster_with_templates_spec_iso`: arrivals `gB, gD, gE, gD` against templates
`gA ↦ 7`, `gC ↦ 3`. -/
example : (clusterRun clIso (fun _ => ()) [gB, gD, gE, gD] [⟨gA, 7⟩, ⟨gC, 3⟩]).1 = [7, 8, 7, 8] := by decide

/-- Non-vacuity of `incremental_perm_invariant_iso`: incremental classes in two arrival orders. -/
example : (clusterRun clIso (fun _ => ()) [gA, gC, gB, gD, gE] []).1 = [0, 1, 0, 2, 0] ∧
    (clusterRun clIso (fun _ => ()) [gD, gE, gC, gB, gA] []).1 = [0, 1, 2, 1, 1] := by decide

/-- The clauses of C13 that speak of isomorphism, for the real isomorphism test on element, charge and bond
order, for every isomorphism-invariant pre-grouping attribute and all well-formed graphs. (The clauses that
need no hypothesis on the oracle — partition, incremental = one-shot with class numbers, batched = one-shot,
raw `lib_check` — are in `C13.FullStatement` for every oracle, `clIso` included.) -/
def C13.IsoStatement : Prop :=
  ∀ (κ : Type) [DecidableEq κ] (key : LGraph → κ), KeyInvIso key →
    -- same class ⇔ isomorphic on element, charge and bond order
    (∀ (xs : List LGraph), (∀ G ∈ xs, G.WF) → ∀ (i j : Nat) (hi : i < xs.length) (hj : j < xs.length),
      (classOf clIso key xs i = classOf clIso key xs j ↔ ∃ m, IsIso clSel (norm xs[i]) (norm xs[j]) m)) ∧
    -- the partition does not depend on the order of the list (one-shot and incremental)
    (∀ (xs ys : List LGraph), (∀ G ∈ xs, G.WF) → (∀ G ∈ ys, G.WF) → ∀ σ : Nat → Nat,
      (∀ a, a < ys.length → σ a < xs.length ∧ ys[a]? = xs[σ a]?) →
      ∀ a b, a < ys.length → b < ys.length →
        ((classOf clIso key ys a = classOf clIso key ys b ↔ classOf clIso key xs (σ a) = classOf clIso key xs (σ b)) ∧
         ((clusterRun clIso key ys []).1[a]? = (clusterRun clIso key ys []).1[b]? ↔
            classOf clIso key xs (σ a) = classOf clIso key xs (σ b)))) ∧
    -- relabelled copies land in the same class
    (∀ (xs : List LGraph), (∀ G ∈ xs, G.WF) → ∀ (i j : Nat) (hi : i < xs.length) (hj : j < xs.length) (f : Nat → Nat),
      InjOnIds xs[i] f → xs[j] = xs[i].relabel f → classOf clIso key xs i = classOf clIso key xs j) ∧
    -- a new item joins the class of its isomorphic representative, else a fresh class
    (∀ (ts : List (Tmpl LGraph)) (x : LGraph), (∀ t ∈ ts, t.item.WF) → TInv clIso ts → x.WF →
      (∀ t ∈ ts, (∃ m, IsIso clSel (norm t.item) (norm x) m) → libCheck clIso key x ts = (t.cls, ts)) ∧
      ((∀ t ∈ ts, ¬ ∃ m, IsIso clSel (norm t.item) (norm x) m) →
          (libCheck clIso key x ts).1 ∉ ts.map (·.cls) ∧
          (libCheck clIso key x ts).2 = ts ++ [⟨x, (libCheck clIso key x ts).1⟩]) ∧
      TInv clIso (libCheck clIso key x ts).2 ∧ (∀ t ∈ (libCheck clIso key x ts).2, t.item.WF)) ∧
    -- … and so does every arrival of a whole sequence classified against existing representatives
    (∀ (l : List LGraph) (ts : List (Tmpl LGraph)), (∀ G ∈ l, G.WF) → (∀ t ∈ ts, t.item.WF) → TInv clIso ts →
      TInv clIso (clusterRun clIso key l ts).2 ∧ (∃ E, (clusterRun clIso key l ts).2 = ts ++ E) ∧
      (clusterRun clIso key l ts).1.length = l.length ∧
      (∀ (i j : Nat) (xi xj : LGraph) (ci cj : Int), l[i]? = some xi → l[j]? = some xj →
        (clusterRun clIso key l ts).1[i]? = some ci → (clusterRun clIso key l ts).1[j]? = some cj →
        (ci = cj ↔ ∃ m, IsIso clSel (norm xi) (norm xj) m)) ∧
      (∀ t ∈ ts, ∀ (k : Nat) (x : LGraph) (c : Int), l[k]? = some x → (clusterRun clIso key l ts).1[k]? = some c →
        (c = t.cls ↔ ∃ m, IsIso clSel (norm t.item) (norm x) m)))

/-- **C13 for the real isomorphism**, assembled from the `_iso` theorems above. -/
theorem C13.full_iso : C13.IsoStatement := by
  intro κ _ key hK
  refine ⟨fun xs hW i j hi hj => same_class_iff_iso hK xs hW i j hi hj, ?_,
    fun xs hW i j hi hj f hf e => relabel_same_class_iso hK xs hW i j hi hj f hf e,
    fun ts x hWt hT hx => libCheck_joins_representative_iso hK ts hWt hT x hx,
    fun l ts hWl hWt hT => cluster_with_templates_spec_iso hK l hWl ts hWt hT⟩
  intro xs ys hWx hWy σ hσ a b ha hb
  exact ⟨(cluster_perm_invariant_iso hK xs ys hWx hWy σ hσ a b ha hb).1,
    (incremental_perm_invariant_iso hK xs ys hWx hWy σ hσ a b ha hb).1⟩

end SynKit.Cluster

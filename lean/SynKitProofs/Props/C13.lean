import SynKitModel.Cluster
import SynKitProofs.ClusterLemmas
/-!
# C13 — clustering partitions graphs exactly into isomorphism classes

Property theorems only; helper lemmas live in `SynKitProofs/ClusterLemmas.lean`.
The items, the isomorphism test `iso` and the pre-grouping attribute `key` are abstract.
`IsEquiv iso` (reflexive, symmetric, transitive) and `KeyInv iso key` (isomorphic items carry equal
attributes) are the hypotheses of the property ("isomorphic on element, charge and bond order",
"isomorphism-invariant pre-grouping attribute or none"); the first four conjuncts of
`cluster_partition`, `libCheck_spec`, `incremental_eq_oneshot` and `batched_eq_oneshot` need no
hypothesis at all.
-/
namespace SynKit.Cluster
variable {α : Type} {κ : Type} [DecidableEq κ]

/-- **C13, "assigns each item exactly one class".** For every list, `iterative_cluster` returns
`clusters` that form a partition of the index set `{0,…,n-1}`: no index occurs twice in the
concatenation of the clusters (pairwise disjoint, duplicate-free), the union is exactly the index
set, no cluster is empty; `rule_to_cluster` agrees with membership in `clusters`; every index
`< n` has exactly one class (`classOf` is a function and is `some c` with `c` a valid cluster number,
the cluster containing an index is unique), indices `≥ n` have none; `GraphCluster.fit` writes that
class to every entry. No hypothesis on `iso` or `key`. -/
theorem cluster_partition (iso : α → α → Bool) (key : α → κ) (xs : List α) :
    let s := iterState iso key xs
    s.clusters.flatten.Nodup ∧
    (∀ j, j ∈ s.clusters.flatten ↔ j < xs.length) ∧
    (∀ C ∈ s.clusters, C ≠ []) ∧
    (∀ j c, classOf iso key xs j = some c ↔ ∃ C, s.clusters[c]? = some C ∧ j ∈ C) ∧
    (∀ j, j < xs.length → ∃ c, classOf iso key xs j = some c ∧ c < s.clusters.length) ∧
    (∀ (j c c' : Nat) (C C' : List Nat), s.clusters[c]? = some C → s.clusters[c']? = some C' → j ∈ C → j ∈ C' → c = c') ∧
    (∀ j, xs.length ≤ j → classOf iso key xs j = none) ∧
    gcClasses iso key xs = (List.range xs.length).map (classOf iso key xs) := by
  intro s
  have hs : s = _ := iterState_eq iso key xs
  obtain ⟨h1, h2, h3⟩ := parts_spec iso key (enumFrom 0 xs) [] (enumFrom_nodup 0 xs) List.nodup_nil
  simp only [List.nil_append, List.not_mem_nil, false_or, enumFrom_map_fst, mem_range'_iff] at h1 h2
  have hcl : s.clusters = parts iso key [] (enumFrom 0 xs) := by rw [hs]
  have hr : s.r2c = label 0 (parts iso key [] (enumFrom 0 xs)) := by rw [hs]
  have h4 : ∀ j c, classOf iso key xs j = some c ↔ ∃ C, s.clusters[c]? = some C ∧ j ∈ C := by
    intro j c
    show dictGet s.r2c j = some c ↔ _
    rw [hr, hcl, dictGet_label _ 0 h1 j c]
    simp
  refine ⟨by rw [hcl]; exact h1, by rw [hcl]; exact h2, by rw [hcl]; exact h3, h4, ?_, ?_, ?_, rfl⟩
  · intro j hj
    obtain ⟨C, hC, hjC⟩ := List.mem_flatten.1 ((h2 j).2 hj)
    obtain ⟨c, hc⟩ := List.mem_iff_getElem?.1 hC
    refine ⟨c, (h4 j c).2 ⟨C, by rw [hcl]; exact hc, hjC⟩, ?_⟩
    rw [hcl]
    exact (List.getElem?_eq_some_iff.1 hc).1
  · intro j c c' C C' hC hC' hj hj'
    have e1 := (h4 j c).2 ⟨C, hC, hj⟩
    have e2 := (h4 j c').2 ⟨C', hC', hj'⟩
    rw [e1] at e2; exact Option.some.inj e2
  · intro j hj
    cases h : classOf iso key xs j with
    | none => rfl
    | some c =>
      obtain ⟨C, hC, hjC⟩ := (h4 j c).1 h
      have : j ∈ s.clusters.flatten := List.mem_flatten.2 ⟨C, List.mem_of_getElem? hC, hjC⟩
      rw [hcl] at this
      exact absurd ((h2 j).1 this) (by omega)

/-- Non-vacuity of `cluster_partition`: seven items, three classes, clusters and classes as the
Python code returns them (residues mod 3 with an invariant key). -/
example : iterativeCluster exIso exKey [0, 1, 3, 4, 2, 6, 7] =
    .ok ([[0, 2, 5], [1, 3, 6], [4]], [(0, 0), (2, 0), (5, 0), (1, 1), (3, 1), (6, 1), (4, 2)]) := by decide

/-- **C13, "two items share a class iff their graphs are isomorphic".** When `iso` is an
equivalence and the attribute is isomorphism-invariant, two positions of the list get the same
class exactly when their items are isomorphic. -/
theorem same_class_iff {iso : α → α → Bool} {key : α → κ} (hE : IsEquiv iso) (hK : KeyInv iso key)
    (xs : List α) (i j : Nat) (hi : i < xs.length) (hj : j < xs.length) :
    classOf iso key xs i = classOf iso key xs j ↔ iso xs[i] xs[j] = true := by
  rw [r2c_eq_seqCls iso key xs i hi, r2c_eq_seqCls iso key xs j hj]
  rw [List.getElem?_eq_getElem (by rw [seqCls_length]; exact hi),
    List.getElem?_eq_getElem (by rw [seqCls_length]; exact hj)]
  rw [← seqCls_same_iff hE hK xs [] i j hi hj]
  exact ⟨Option.some.inj, fun h => by rw [h]⟩

theorem exIso_equiv : IsEquiv exIso where
  refl := by intro x; simp [exIso]
  symm := by intro x y h; simp only [exIso, beq_iff_eq] at *; omega
  trans := by intro x y z h1 h2; simp only [exIso, beq_iff_eq] at *; omega

theorem exKey_inv : KeyInv exIso exKey := by
  intro x y h; simp only [exIso, beq_iff_eq, exKey] at *; rw [h]

/-- Non-vacuity of `same_class_iff`: its hypotheses hold for the concrete instance
(`exIso_equiv`, `exKey_inv`), and on a concrete list positions 0 and 2 share a class (0 ≅ 3)
while positions 0 and 1 do not. -/
example : classOf exIso exKey [0, 1, 3, 4, 2] 0 = classOf exIso exKey [0, 1, 3, 4, 2] 2 ∧
    classOf exIso exKey [0, 1, 3, 4, 2] 0 ≠ classOf exIso exKey [0, 1, 3, 4, 2] 1 := by decide

/-- **C13, "the partition does not depend on the order of the list".** Let `ys` be `xs` read
through any index map `σ` (`ys[a] = xs[σ a]`; for a reordering of the list `σ` is the permutation).
Two positions of `ys` are classified together exactly when their pre-images are classified together
in `xs`: the partition of the positions of the reordered list is the image of the original partition
under the permutation. -/
theorem cluster_perm_invariant {iso : α → α → Bool} {key : α → κ} (hE : IsEquiv iso) (hK : KeyInv iso key)
    (xs ys : List α) (σ : Nat → Nat)
    (hσ : ∀ a, a < ys.length → σ a < xs.length ∧ ys[a]? = xs[σ a]?)
    (a b : Nat) (ha : a < ys.length) (hb : b < ys.length) :
    classOf iso key ys a = classOf iso key ys b ↔ classOf iso key xs (σ a) = classOf iso key xs (σ b) := by
  obtain ⟨ha', ea⟩ := hσ a ha
  obtain ⟨hb', eb⟩ := hσ b hb
  rw [same_class_iff hE hK ys a b ha hb, same_class_iff hE hK xs (σ a) (σ b) ha' hb']
  rw [List.getElem?_eq_getElem ha, List.getElem?_eq_getElem ha'] at ea
  rw [List.getElem?_eq_getElem hb, List.getElem?_eq_getElem hb'] at eb
  rw [Option.some.inj ea, Option.some.inj eb]

/-- The same statement without naming the permutation, for `List.Perm` (or any two lists): items
that occur in both lists are co-classified in the one exactly when they are in the other. -/
theorem cluster_perm_invariant_items {iso : α → α → Bool} {key : α → κ} (hE : IsEquiv iso) (hK : KeyInv iso key)
    (xs ys : List α) (_h : xs.Perm ys) (i j a b : Nat) (hi : i < xs.length) (hj : j < xs.length)
    (ha : a < ys.length) (hb : b < ys.length) (e1 : ys[a] = xs[i]) (e2 : ys[b] = xs[j]) :
    classOf iso key ys a = classOf iso key ys b ↔ classOf iso key xs i = classOf iso key xs j := by
  rw [same_class_iff hE hK ys a b ha hb, same_class_iff hE hK xs i j hi hj, e1, e2]

/-- Non-vacuity of `cluster_perm_invariant`: a list and a reordering of it (σ = [4,2,0,3,1]);
the classes are renumbered (first appearance) but the partition is the image. -/
example : gcClasses exIso exKey [0, 1, 3, 4, 2] = [some 0, some 1, some 0, some 1, some 2] ∧
    gcClasses exIso exKey [2, 3, 0, 4, 1] = [some 0, some 1, some 1, some 2, some 2] := by decide

/-- **C13, "classifying new items against existing class representatives", raw form.** For ANY
template list (no invariant needed) `lib_check` either finds a template with equal attribute that
is isomorphic to the item — the FIRST such in template order —, returns that template's class and
leaves the templates unchanged; or no such template exists, the returned class is fresh (differs
from the class of every template) and exactly one template, the item with that class, is appended. -/
theorem libCheck_spec (iso : α → α → Bool) (key : α → κ) (x : α) (ts : List (Tmpl α)) :
    (∃ pre t post, ts = pre ++ t :: post ∧ (key t.item = key x ∧ iso t.item x = true) ∧
        (∀ u ∈ pre, ¬ (key u.item = key x ∧ iso u.item x = true)) ∧ libCheck iso key x ts = (t.cls, ts)) ∨
    ((∀ t ∈ ts, ¬ (key t.item = key x ∧ iso t.item x = true)) ∧
        libCheck iso key x ts = (newClass ts, ts ++ [⟨x, newClass ts⟩]) ∧ ∀ t ∈ ts, t.cls ≠ newClass ts) :=
  libCheck_cases iso key x ts

/-- **C13, "puts each into the class of its isomorphic representative or into a fresh class when
none exists".** With `iso` an equivalence, an invariant attribute, and templates that are one
representative per class (`TInv`: pairwise non-isomorphic, pairwise different class numbers — the
numbers need not be contiguous): an item isomorphic to a template gets THE class of that template
and the templates are unchanged; an item isomorphic to no template gets a class carried by no
template and becomes the representative of it; in both cases the template invariant is kept. -/
theorem libCheck_joins_representative {iso : α → α → Bool} {key : α → κ} (hE : IsEquiv iso)
    (hK : KeyInv iso key) (ts : List (Tmpl α)) (hT : TInv iso ts) (x : α) :
    (∀ t ∈ ts, iso t.item x = true → libCheck iso key x ts = (t.cls, ts)) ∧
    ((∀ t ∈ ts, iso t.item x = false) →
        (libCheck iso key x ts).1 ∉ ts.map (·.cls) ∧
        (libCheck iso key x ts).2 = ts ++ [⟨x, (libCheck iso key x ts).1⟩]) ∧
    TInv iso (libCheck iso key x ts).2 :=
  libCheck_tinv hE hK ts hT x

/-- Non-vacuity of `libCheck_spec` / `libCheck_joins_representative`: templates with the
non-contiguous classes 7 and 3; 8 ≅ 5 joins class 7, 1 matches nothing and opens class 8. -/
example : libCheck exIso exKey 8 [⟨5, 7⟩, ⟨9, 3⟩] = (7, [⟨5, 7⟩, ⟨9, 3⟩]) ∧
    libCheck exIso exKey 1 [⟨5, 7⟩, ⟨9, 3⟩] = (8, [⟨5, 7⟩, ⟨9, 3⟩, ⟨1, 8⟩]) := by decide

example : TInv exIso ([⟨5, 7⟩, ⟨9, 3⟩] : List (Tmpl Nat)) := by
  intro i j a b ha hb hij
  match i, j with
  | 0, 0 => exact absurd rfl hij
  | 0, 1 => simp at ha hb; subst ha; subst hb; decide
  | 1, 0 => simp at ha hb; subst ha; subst hb; decide
  | 1, 1 => exact absurd rfl hij
  | 0, j + 2 => simp at hb
  | 1, j + 2 => simp at hb
  | i + 2, _ => simp at ha

/-- **C13, classification of a whole arrival sequence against existing representatives.** With
`iso` an equivalence, an invariant attribute and templates that are one representative per class,
`BatchCluster.cluster` keeps the template invariant, only appends templates, and the classes it
writes follow isomorphism: two arrivals share a class iff they are isomorphic, and an arrival gets
the class of a template given at the start iff it is isomorphic to that template (so an arrival
isomorphic to none of them gets a class none of them carries). -/
theorem cluster_with_templates_spec {iso : α → α → Bool} {key : α → κ} (hE : IsEquiv iso)
    (hK : KeyInv iso key) (l : List α) (ts : List (Tmpl α)) (hT : TInv iso ts) :
    TInv iso (clusterRun iso key l ts).2 ∧ (∃ E, (clusterRun iso key l ts).2 = ts ++ E) ∧
    (clusterRun iso key l ts).1.length = l.length ∧
    (∀ (i j : Nat) (xi xj : α) (ci cj : Int), l[i]? = some xi → l[j]? = some xj →
      (clusterRun iso key l ts).1[i]? = some ci → (clusterRun iso key l ts).1[j]? = some cj →
      (ci = cj ↔ iso xi xj = true)) ∧
    (∀ t ∈ ts, ∀ (k : Nat) (x : α) (c : Int), l[k]? = some x → (clusterRun iso key l ts).1[k]? = some c →
      (c = t.cls ↔ iso t.item x = true)) :=
  ⟨(clusterRun_tinv hE hK l ts hT).1, (clusterRun_tinv hE hK l ts hT).2.1, clusterRun_length iso key l ts,
    (clusterRun_spec hE hK l ts hT).1, (clusterRun_spec hE hK l ts hT).2⟩

/-- Non-vacuity of `cluster_with_templates_spec`: arrivals 0,1,3,8 against templates 5↦7, 9↦3. -/
example : clusterRun exIso exKey [0, 1, 3, 8] [⟨5, 7⟩, ⟨9, 3⟩] = ([3, 8, 3, 7], [⟨5, 7⟩, ⟨9, 3⟩, ⟨1, 8⟩]) := by decide

/-- **C13, incremental = one-shot.** Starting from empty templates, `BatchCluster.cluster`
(`lib_check` item by item) gives every item the very class number `GraphCluster.fit` gives it
one-shot (classes are numbered by first appearance in both), and cutting the list into ANY batches
processed one after the other with the templates threaded gives the same classes and templates.
No hypothesis on `iso` or `key`. -/
theorem incremental_eq_oneshot (iso : α → α → Bool) (key : α → κ) (xs : List α) :
    (clusterRun iso key xs []).1.map some = (gcClasses iso key xs).map (Option.map Int.ofNat) ∧
    ∀ bs : List (List α), bs.flatten = xs → fitBatches iso key bs [] = clusterRun iso key xs [] := by
  constructor
  · rw [gcClasses_eq_seqCls, (clusterRun_contig iso key xs [] rfl).1]
    simp only [List.map_map, List.map_nil]
    rfl
  · intro bs h; rw [fitBatches_eq, h]

/-- **C13, incremental classification in any arrival order.** (Equivalence + invariant key.) If the
items arrive in another order (`ys[a] = xs[σ a]`), incremental classification from empty templates
co-classifies two arrivals exactly when one-shot clustering of `xs` co-classifies their originals. -/
theorem incremental_perm_invariant {iso : α → α → Bool} {key : α → κ} (hE : IsEquiv iso) (hK : KeyInv iso key)
    (xs ys : List α) (σ : Nat → Nat)
    (hσ : ∀ a, a < ys.length → σ a < xs.length ∧ ys[a]? = xs[σ a]?)
    (a b : Nat) (ha : a < ys.length) (hb : b < ys.length) :
    (clusterRun iso key ys []).1[a]? = (clusterRun iso key ys []).1[b]? ↔
      classOf iso key xs (σ a) = classOf iso key xs (σ b) := by
  rw [← cluster_perm_invariant hE hK xs ys σ hσ a b ha hb]
  have h := (incremental_eq_oneshot iso key ys).1
  have e : ∀ c, c < ys.length →
      ((clusterRun iso key ys []).1[c]?).map some = some ((classOf iso key ys c).map Int.ofNat) := by
    intro c hc
    have := congrArg (·[c]?) h
    simp only [List.getElem?_map, gcClasses, List.getElem?_range hc, Option.map_some] at this
    rw [← this]
  have ea := e a ha
  have eb := e b hb
  obtain ⟨ca, hca, _⟩ := (cluster_partition iso key ys).2.2.2.2.1 a ha
  obtain ⟨cb, hcb, _⟩ := (cluster_partition iso key ys).2.2.2.2.1 b hb
  rw [hca] at ea ⊢
  rw [hcb] at eb ⊢
  cases ha' : (clusterRun iso key ys []).1[a]? with
  | none => rw [ha'] at ea; simp at ea
  | some va =>
    cases hb' : (clusterRun iso key ys []).1[b]? with
    | none => rw [hb'] at eb; simp at eb
    | some vb =>
      rw [ha'] at ea; rw [hb'] at eb
      simp only [Option.map_some, Option.some.injEq] at ea eb
      subst ea; subst eb
      simp only [Option.some.injEq]
      exact Int.ofNat_inj

/-- Non-vacuity of `incremental_eq_oneshot`: incremental classes of a concrete list equal the
one-shot classes, also in three batches. -/
example : (clusterRun exIso exKey [0, 1, 3, 4, 2, 6, 7] []).1 = [0, 1, 0, 1, 2, 0, 1] ∧
    (fitBatches exIso exKey [[0, 1, 3], [4, 2, 6], [7]] []).1 = [0, 1, 0, 1, 2, 0, 1] ∧
    gcClasses exIso exKey [0, 1, 3, 4, 2, 6, 7] = [some 0, some 1, some 0, some 1, some 2, some 0, some 1] := by
  decide

/-- **C13 (and C14), batched = one-shot for `BatchCluster.fit`.** For a non-empty list, no
templates (`None` or `[]`) and any `batch_size ≥ 1` — or no batch size — `fit` succeeds and writes
exactly the classes of one-shot `GraphCluster.fit`. With non-empty templates the classes and the
resulting templates are those of `cluster` on the whole list, whatever the batch size. -/
theorem batched_eq_oneshot (iso : α → α → Bool) (key : α → κ) (xs : List α) (hx : xs ≠ [])
    (ts0 : Option (List (Tmpl α))) (bs : Option Nat) (hbs : ∀ k, bs = some k → 1 ≤ k) :
    (ts0.getD [] = [] →
      ∃ ts', bcFit iso key xs ts0 bs = .ok ((gcClasses iso key xs).map (Option.map Int.ofNat), ts')) ∧
    (ts0.getD [] ≠ [] →
      bcFit iso key xs ts0 bs =
        .ok ((clusterRun iso key xs (ts0.getD [])).1.map some, (clusterRun iso key xs (ts0.getD [])).2)) := by
  have hgc : gcFit iso key xs = .ok (gcClasses iso key xs) := by
    cases xs with
    | nil => exact absurd rfl hx
    | cons x l => rfl
  have hinc := (incremental_eq_oneshot iso key xs).1
  cases bs with
  | none =>
    constructor
    · intro h0
      refine ⟨firstPerClass (xs.zip (gcClasses iso key xs)) [], ?_⟩
      simp [bcFit, h0, hgc]
    · intro h0
      cases hts : ts0.getD [] with
      | nil => exact absurd hts h0
      | cons t ts => simp [bcFit, hts]
  | some k =>
    have hk := hbs k rfl
    have hkk : ¬ k < 1 := by omega
    have hflat := chunks_flatten k hk xs.length xs (Nat.le_refl _)
    constructor
    · intro h0
      cases hch : chunks k xs.length xs with
      | nil => rw [hch] at hflat; exact absurd hflat.symm hx
      | cons b rest =>
        cases rest with
        | nil =>
          rw [hch] at hflat
          simp only [List.flatten_cons, List.flatten_nil, List.append_nil] at hflat
          subst hflat
          refine ⟨firstPerClass (b.zip (gcClasses iso key b)) [], ?_⟩
          simp [bcFit, batchDicts, hkk, hch, h0, hgc]
        | cons b2 rest =>
          refine ⟨(clusterRun iso key xs []).2, ?_⟩
          simp only [bcFit, batchDicts, hkk, if_false, hch, h0]
          rw [fitBatches_eq, ← hch, hflat, hinc]
    · intro h0
      cases hts : ts0.getD [] with
      | nil => exact absurd hts h0
      | cons t ts =>
        cases hch : chunks k xs.length xs with
        | nil => rw [hch] at hflat; exact absurd hflat.symm hx
        | cons b rest =>
          cases rest with
          | nil =>
            rw [hch] at hflat
            simp only [List.flatten_cons, List.flatten_nil, List.append_nil] at hflat
            subst hflat
            simp [bcFit, batchDicts, hkk, hch, hts]
          | cons b2 rest =>
            simp only [bcFit, batchDicts, hkk, if_false, hch, hts]
            rw [fitBatches_eq, ← hch, hflat]

/-- Non-vacuity of `batched_eq_oneshot`: `fit` with `batch_size = 3` and without batch size, no
templates; and with two pre-existing templates. -/
example : bcFit exIso exKey [0, 1, 3, 4, 2, 6, 7] none (some 3) =
    .ok ([some 0, some 1, some 0, some 1, some 2, some 0, some 1], [⟨0, 0⟩, ⟨1, 1⟩, ⟨2, 2⟩]) := by decide
example : bcFit exIso exKey [0, 1, 3, 4, 2, 6, 7] (some []) none =
    .ok ([some 0, some 1, some 0, some 1, some 2, some 0, some 1], [⟨0, 0⟩, ⟨1, 1⟩, ⟨2, 2⟩]) := by decide
example : bcFit exIso exKey [0, 1, 3] (some [⟨5, 7⟩, ⟨9, 3⟩]) (some 2) =
    .ok ([some 3, some 8, some 3], [⟨5, 7⟩, ⟨9, 3⟩, ⟨1, 8⟩]) := by decide
/-- The error branches are modelled, not totalised away. -/
example : bcFit exIso exKey [0, 1] none (some 0) = .error .valueError := by decide
example : bcFit exIso exKey ([] : List Nat) none none = .error .indexError := by decide

/-- The whole of C13 over the model, for every item type, oracle and attribute. -/
def C13.FullStatement : Prop :=
  ∀ (α κ : Type) [DecidableEq κ] (iso : α → α → Bool) (key : α → κ),
    -- every item gets exactly one class; `clusters` is a partition agreeing with `rule_to_cluster`
    (∀ xs : List α,
      let s := iterState iso key xs
      s.clusters.flatten.Nodup ∧ (∀ j, j ∈ s.clusters.flatten ↔ j < xs.length) ∧ (∀ C ∈ s.clusters, C ≠ []) ∧
      (∀ j c, classOf iso key xs j = some c ↔ ∃ C, s.clusters[c]? = some C ∧ j ∈ C) ∧
      (∀ j, j < xs.length → ∃ c, classOf iso key xs j = some c ∧ c < s.clusters.length)) ∧
    -- incremental (any batching) = one-shot, class numbers included; `fit` batched = one-shot
    (∀ xs : List α,
      (clusterRun iso key xs []).1.map some = (gcClasses iso key xs).map (Option.map Int.ofNat) ∧
      (∀ bs : List (List α), bs.flatten = xs → fitBatches iso key bs [] = clusterRun iso key xs []) ∧
      (xs ≠ [] → ∀ k, 1 ≤ k → ∃ ts',
        bcFit iso key xs none (some k) = .ok ((gcClasses iso key xs).map (Option.map Int.ofNat), ts'))) ∧
    -- raw behaviour of `lib_check` on any templates: first matching template, else a fresh class
    (∀ (x : α) (ts : List (Tmpl α)),
      (∃ (pre : List (Tmpl α)) (t : Tmpl α) (post : List (Tmpl α)), ts = pre ++ t :: post ∧
          (key t.item = key x ∧ iso t.item x = true) ∧
          (∀ u ∈ pre, ¬ (key u.item = key x ∧ iso u.item x = true)) ∧ libCheck iso key x ts = (t.cls, ts)) ∨
      ((∀ t ∈ ts, ¬ (key t.item = key x ∧ iso t.item x = true)) ∧
          libCheck iso key x ts = (newClass ts, ts ++ [⟨x, newClass ts⟩]) ∧ ∀ t ∈ ts, t.cls ≠ newClass ts)) ∧
    (IsEquiv iso → KeyInv iso key →
      -- same class ⇔ isomorphic
      (∀ (xs : List α) (i j : Nat) (hi : i < xs.length) (hj : j < xs.length),
        classOf iso key xs i = classOf iso key xs j ↔ iso xs[i] xs[j] = true) ∧
      -- the partition does not depend on the order of the list (one-shot and incremental)
      (∀ (xs ys : List α) (σ : Nat → Nat), (∀ a, a < ys.length → σ a < xs.length ∧ ys[a]? = xs[σ a]?) →
        ∀ a b, a < ys.length → b < ys.length →
          ((classOf iso key ys a = classOf iso key ys b ↔ classOf iso key xs (σ a) = classOf iso key xs (σ b)) ∧
           ((clusterRun iso key ys []).1[a]? = (clusterRun iso key ys []).1[b]? ↔
              classOf iso key xs (σ a) = classOf iso key xs (σ b)))) ∧
      -- new items join the class of their isomorphic representative, else a fresh class
      (∀ (ts : List (Tmpl α)) (x : α), TInv iso ts →
        (∀ t ∈ ts, iso t.item x = true → libCheck iso key x ts = (t.cls, ts)) ∧
        ((∀ t ∈ ts, iso t.item x = false) →
            (libCheck iso key x ts).1 ∉ ts.map (·.cls) ∧
            (libCheck iso key x ts).2 = ts ++ [⟨x, (libCheck iso key x ts).1⟩]) ∧
        TInv iso (libCheck iso key x ts).2) ∧
      -- … and so does every arrival of a whole sequence classified against existing representatives
      (∀ (l : List α) (ts : List (Tmpl α)), TInv iso ts →
        TInv iso (clusterRun iso key l ts).2 ∧ (∃ E, (clusterRun iso key l ts).2 = ts ++ E) ∧
        (clusterRun iso key l ts).1.length = l.length ∧
        (∀ (i j : Nat) (xi xj : α) (ci cj : Int), l[i]? = some xi → l[j]? = some xj →
          (clusterRun iso key l ts).1[i]? = some ci → (clusterRun iso key l ts).1[j]? = some cj →
          (ci = cj ↔ iso xi xj = true)) ∧
        (∀ t ∈ ts, ∀ (k : Nat) (x : α) (c : Int), l[k]? = some x → (clusterRun iso key l ts).1[k]? = some c →
          (c = t.cls ↔ iso t.item x = true))))

/-- **C13, full statement**, assembled from the theorems above. -/
theorem C13.full : C13.FullStatement := by
  intro α κ _ iso key
  refine ⟨?_, ?_, ?_, ?_⟩
  · intro xs
    obtain ⟨h1, h2, h3, h4, h5, _⟩ := cluster_partition iso key xs
    exact ⟨h1, h2, h3, h4, h5⟩
  · intro xs
    refine ⟨(incremental_eq_oneshot iso key xs).1, (incremental_eq_oneshot iso key xs).2, ?_⟩
    intro hx k hk
    exact (batched_eq_oneshot iso key xs hx none (some k) (by intro k' e; cases e; exact hk)).1 rfl
  · intro x ts; exact libCheck_spec iso key x ts
  · intro hE hK
    refine ⟨same_class_iff hE hK, ?_, ?_, ?_⟩
    · intro xs ys σ hσ a b ha hb
      exact ⟨cluster_perm_invariant hE hK xs ys σ hσ a b ha hb,
        incremental_perm_invariant hE hK xs ys σ hσ a b ha hb⟩
    · intro ts x hT; exact libCheck_joins_representative hE hK ts hT x
    · intro l ts hT; exact cluster_with_templates_spec hE hK l ts hT

end SynKit.Cluster

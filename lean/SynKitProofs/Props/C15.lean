import SynKitModel.Store
import SynKitProofs.StoreLemmas
/-!
# C15 — the reaction-network store stays consistent under every history of edits

Property theorems only; helper lemmas live in `SynKitProofs/StoreLemmas.lean`.
-/
namespace SynKit.Store

/-- **C15, invariant part.** Every store of every world reachable from empty stores by any
sequence of operations (add with generated or chosen ids, remove, remove species with or
without pruning, merge, copy, assign molecule) satisfies `Store.Inv`: ids unique, species
set exact (up to explicitly kept species), both indices exact, molecule labels only for
present species, sides well formed. -/
theorem inv_reachable (n : Nat) (ops : List Op) : ∀ s ∈ run (initWorld n) ops, s.Inv :=
  inv_run _ ops (initWorld_inv n)

/-- **C15, isolation part.** An operation only changes the store it targets (slot `k`,
or slot `j` for `copy k j`): every other store of the world — in particular a copy taken
earlier, or the source of a merge — is left exactly as it was. -/
theorem step_frame (w : World) (op : Op) (i : Nat) (h : i ≠ op.target) :
    (step w op).1[i]? = w[i]? := step_frame' w op i h

/-- The id generator returns an id that is not in use. -/
theorem firstFree_fresh (ids : List String) (rule : String) (c : Nat) :
    mkId rule (firstFree ids rule c) ∉ ids := firstFree_fresh' ids rule c

/-- Generated ids of one rule are pairwise different. -/
theorem mkId_injective (rule : String) (a b : Nat) (h : mkId rule a = mkId rule b) : a = b :=
  mkId_inj rule a b h

/-- **C15, refinement part (add).** A successful `add` stores exactly the given reaction
under the returned id … -/
theorem add_lookup_self (s s' : Store) (r p rule eid i) (hinv : s.Inv)
    (h : s.add r p rule eid = (s', .ok i)) :
    s'.findEdge i = some ⟨i, normRule rule, normSide r, normSide p⟩ ∧ i ∉ s.ids :=
  add_lookup_self' s s' r p rule eid i hinv h

/-- … and leaves every other id as it was (nothing is overwritten), whether it succeeds or not. -/
theorem add_lookup_other (s s' : Store) (r p rule eid res) (j : String)
    (h : s.add r p rule eid = (s', res)) (hj : ∀ i, res = .ok i → j ≠ i) :
    s'.findEdge j = s.findEdge j := add_lookup_other' s s' r p rule eid res j h hj

/-- **C15, refinement part (remove).** Removing reaction `i` leaves every other reaction alone
and `i` is gone. -/
theorem remove_lookup_other (s s' : Store) (i : String) (res) (h : s.remove i = (s', res)) :
    (∀ j, j ≠ i → s'.findEdge j = s.findEdge j) ∧ (res = .ok () → s'.findEdge i = none) :=
  remove_lookup' s s' i res h

/-- **C15, refinement part (remove species).** After `remove_species sp` the stored reactions are
exactly the old ones with `sp` stripped from both sides, minus those that became empty. -/
theorem removeSpecies_lookup (s s' : Store) (sp : String) (prune : Bool) (hinv : s.Inv)
    (h : s.removeSpecies sp prune = (s', .ok ())) :
    s'.edges = (s.edges.map (·.strip sp)).filter (fun e => !e.isEmpty) :=
  removeSpecies_edges s s' sp prune hinv h

/-- **C15, refinement part (merge).** A successful `merge` leaves every stored reaction untouched
and appends one reaction per reaction of the other network, carrying that reaction's rule and
stoichiometry; by `inv_reachable` the ids of the appended reactions are fresh. -/
theorem merge_edges (s s' : Store) (other : List Edge) (pfx : Bool)
    (h : s.merge other pfx = (s', .ok ())) :
    ∃ added : List Edge, s'.edges = s.edges ++ added ∧
      added.map (fun e => (e.rule, e.reactants, e.products)) =
        other.map (fun e => (normRule (some e.rule), e.reactants, e.products)) :=
  merge_edges' other pfx s s' h

/-- **C15, incidence part.** For a reaction with well-formed sides the sparse incidence
mapping the code builds has entry (produced − consumed) for every species. -/
theorem incidence_spec (e : Edge) (hr : e.reactants.keys.Nodup) (hp : e.products.keys.Nodup)
    (sp : String) :
    (incidenceEdge e).getD sp 0 = coeff e.products sp - coeff e.reactants sp :=
  incidence_spec' e hr hp sp

/-- Non-vacuity: a concrete three-op history reaches a store with two reactions, and its
invariant is therefore covered by `inv_reachable`. -/
example : ((run (initWorld 1)
    [.add 0 [("A", 1)] [("B", 2)] none (some "r_1"), .add 0 [("B", 1)] [("C", 1)] none none,
     .removeSpecies 0 "A" false])[0]?.map (·.ids)) = some ["r_1", "r_2"] := by decide

end SynKit.Store

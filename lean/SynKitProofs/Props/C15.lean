import SynKitModel.Store
import SynKitProofs.StoreLemmas
import SynKitProofs.StoreStrLemmas
/-!
# C15 — the reaction-network store stays consistent under every history of edits

Property theorems only; helper lemmas live in `SynKitProofs/StoreLemmas.lean` and, for the
string entry points (`add_rxn_from_str`, `parse_rxns`), in `SynKitProofs/StoreStrLemmas.lean`.
-/
namespace SynKit.Store

/-- **C15, invariant part.** Every store of every world reachable from empty stores by any
sequence of operations (add with generated or chosen ids, remove, remove species with or
without pruning, merge of another store or of the store itself, merge of a foreign object with
`edge_list()` (also one without: `TypeError`), copy, assign molecule, and the string entry points `add_rxn_from_str`,
`parse_rxns` in all its input forms — including histories in which a line fails to parse and
`parse_rxns` stops half way) satisfies `Store.Inv`: ids unique, species
set exact (up to explicitly kept species), both indices exact, molecule labels only for
present species, sides well formed. -/
theorem inv_reachable (n : Nat) (ops : List Op) : ∀ s ∈ run (initWorld n) ops, s.Inv :=
  inv_run _ ops (initWorld_inv n)

/-- **C15, isolation part.** An operation only changes the store it targets (slot `k`,
or slot `j` for `copy k j`): every other store of the world — in particular a copy taken
earlier, or the source of a merge — is left exactly as it was. -/
theorem step_frame (w : World) (op : Op) (i : Nat) (h : i ≠ op.target) :
    (step w op).1[i]? = w[i]? := step_frame' w op i h

/-- The id generator returns an id that is not in use. -/
theorem firstFree_fresh (ids : List String) (rule : String) (c : Nat) :
    mkId rule (firstFree ids rule c) ∉ ids := firstFree_fresh' ids rule c

/-- Generated ids of one rule are pairwise different. -/
theorem mkId_injective (rule : String) (a b : Nat) (h : mkId rule a = mkId rule b) : a = b :=
  mkId_inj rule a b h

/-- **C15, refinement part (add).** A successful `add` stores exactly the given reaction
under the returned id … -/
theorem add_lookup_self (s s' : Store) (r p rule eid i) (hinv : s.Inv)
    (h : s.add r p rule eid = (s', .ok i)) :
    s'.findEdge i = some ⟨i, normRule rule, normSide r, normSide p⟩ ∧ i ∉ s.ids :=
  add_lookup_self' s s' r p rule eid i hinv h

/-- … and leaves every other id as it was (nothing is overwritten), whether it succeeds or not. -/
theorem add_lookup_other (s s' : Store) (r p rule eid res) (j : String)
    (h : s.add r p rule eid = (s', res)) (hj : ∀ i, res = .ok i → j ≠ i) :
    s'.findEdge j = s.findEdge j := add_lookup_other' s s' r p rule eid res j h hj

/-- **C15, refinement part (remove).** Removing reaction `i` leaves every other reaction alone
and `i` is gone. -/
theorem remove_lookup_other (s s' : Store) (i : String) (res) (h : s.remove i = (s', res)) :
    (∀ j, j ≠ i → s'.findEdge j = s.findEdge j) ∧ (res = .ok () → s'.findEdge i = none) :=
  remove_lookup' s s' i res h

/-- **C15, refinement part (remove species).** After `remove_species sp` the stored reactions are
exactly the old ones with `sp` stripped from both sides, minus those that became empty. -/
theorem removeSpecies_lookup (s s' : Store) (sp : String) (prune : Bool) (hinv : s.Inv)
    (h : s.removeSpecies sp prune = (s', .ok ())) :
    s'.edges = (s.edges.map (·.strip sp)).filter (fun e => !e.isEmpty) :=
  removeSpecies_edges s s' sp prune hinv h

/-- **C15, refinement part (merge).** A successful `merge` leaves every stored reaction untouched
and appends one reaction per reaction of the other network, carrying that reaction's rule and
stoichiometry; by `inv_reachable` the ids of the appended reactions are fresh. -/
theorem merge_edges (s s' : Store) (other : List Edge) (pfx : Bool)
    (h : s.merge other pfx = (s', .ok ())) :
    ∃ added : List Edge, s'.edges = s.edges ++ added ∧
      added.map (fun e => (e.rule, e.reactants, e.products)) =
        other.map (fun e => (normRule (some e.rule), e.reactants, e.products)) :=
  merge_edges' other pfx s s' h

/-- **C15, refinement part (merge of a foreign object).** `merge` accepts any object with
`edge_list()`; a successful merge of such an object — whatever its edges look like: id missing,
`None`, duplicated or clashing with stored ids, rule `""` or missing, sides given as mappings,
label lists or `(species, count)` pairs — leaves every stored reaction untouched and appends one
reaction per foreign edge with that edge's rule and its normalised stoichiometry. (That the store
reached is consistent, also when the merge stops at an empty reaction, is `inv_reachable`.) -/
theorem mergeForeign_edges (s s' : Store) (other : List FEdge) (pfx : Bool)
    (h : s.mergeForeign other pfx = (s', .ok ())) :
    ∃ added : List Edge, s'.edges = s.edges ++ added ∧
      added.map (fun e => (e.rule, e.reactants, e.products)) =
        other.map (fun e => (normRule (some e.rule), normSide (rawOfItems e.reactants),
          normSide (rawOfItems e.products))) :=
  mergeForeign_edges' other pfx s s' h

/-- **C15, stoichiometry of a stored reaction for non-mapping side inputs**
(`RXNSide._normalize_any` on an iterable: `add_rxn(["A", "A", "B"], [("C", 2)])`,
`RXNSide([...])`, `RXNSide.from_any`, foreign edges in `merge`): the coefficient of a species in
the normalised side is the sum of what the elements spell — a `(species, count)` pair its count
when positive, a non-empty label one; nothing else. Together with `add_lookup_self` (which
quantifies over all raw inputs) this fixes the stored stoichiometry for every input form. -/
theorem normSide_items_spec (items : List SideItem) (sp : String) :
    (normSide (rawOfItems items)).getD sp 0 = (items.map (itemContrib sp)).sum := by
  rw [normSide_coeff, rawOfItems_contrib]

/-- Non-vacuity / the documented examples: `["A", "B", "A"]` is `{A: 2, B: 1}`; pairs with
repeated species accumulate, non-positive counts and empty labels are dropped. -/
example : normSide (rawOfItems [.label "A", .label "B", .label "A"]) = [("A", 2), ("B", 1)] := by decide
example : normSide (rawOfItems [.pair "C" 2, .label "", .pair "D" 0, .pair "C" 1, .label "E", .pair "B" (-1)]) =
    [("C", 3), ("E", 1)] := by decide

/-- Non-vacuity of `mergeForeign_edges`, and the id rules of `merge` for foreign edges: no id →
generated from the edge's rule (`""` gives `_1`, stored rule `"r"`); a second edge with an id
already present gets a generated id; `prefix_edges=False` keeps a free id. -/
example : ((({} : Store).mergeForeign
      [⟨none, "", [.label "A"], [.pair "B" 2]⟩, ⟨some "x", "Q", [.pair "A" 1], [.label "B", .label "B"]⟩,
       ⟨some "x", "r", [.pair "A" 1], []⟩] false).1.edges.map (fun e => (e.id, e.rule))) =
    [("_1", "r"), ("x", "Q"), ("r_1", "r")] := by decide

/-- `merge` of an object without `edge_list()` raises `TypeError` and touches nothing; a network
can be merged into itself (the code iterates over a snapshot of the edge list). -/
example : (step [{}] (.mergeEdges 0 none true)).2 = .err .typeError ∧
    ((step [{}] (.mergeEdges 0 none true)).1.map (·.ids)) = [[]] := by decide
example : ((run (initWorld 1) [.add 0 [("A", 1)] [("B", 1)] none none, .merge 0 0 false])[0]?.map (·.ids)) =
    some ["r_1", "r_2"] := by decide

/-- **C15, incidence part.** For a reaction with well-formed sides the sparse incidence
mapping the code builds has entry (produced − consumed) for every species. -/
theorem incidence_spec (e : Edge) (hr : e.reactants.keys.Nodup) (hp : e.products.keys.Nodup)
    (sp : String) :
    (incidenceEdge e).getD sp 0 = coeff e.products sp - coeff e.reactants sp :=
  incidence_spec' e hr hp sp

/-- Non-vacuity: a concrete three-op history reaches a store with two reactions, and its
invariant is therefore covered by `inv_reachable`. -/
example : ((run (initWorld 1)
    [.add 0 [("A", 1)] [("B", 2)] none (some "r_1"), .add 0 [("B", 1)] [("C", 1)] none none,
     .removeSpecies 0 "A" false])[0]?.map (·.ids)) = some ["r_1", "r_2"] := by decide

/-! ## String entry points (`add_rxn_from_str`, `parse_rxns`) -/

open SynKit.Views in
/-- **C15, refinement part (add from string).** A well-formed line — the sides printed the way
`RXNSide.__repr__` prints them from labels that are `WfLabel`, ` >> ` between them, and either a
`| rule=R` suffix that is parsed (`LineMode`, first alternative) or no suffix at all (second) —
adds exactly the reaction it spells: the call succeeds, returns the id the generator hands out
for the decided rule (which was not in use), appends one reaction with that id, the decided rule
and the two spelled sides (in printed order: a permutation of the spelled dict), leaves every
other reaction alone and keeps the invariant. The rule is decided as the code does
(`decidedRule`): the `rule=` argument if it is not `None`; else the suffix's rule; else — and
also for `rule=""` — `"r"`. -/
theorem addFromStr_spec (s : Store) (f : StrFlags) (e : Views.Rxn) (ex : Option String) (sfx : Bool)
    (hm : LineMode f sfx)
    (hs : WfSide e.reactants ∧ WfSide e.products) (hl : WfLabels e.reactants ∧ WfLabels e.products)
    (hr : f.includeRule = true → WfRule e.rule) (hne : e.reactants ≠ [] ∨ e.products ≠ []) :
    let rule := decidedRule ex (if f.includeRule then some e.rule else none)
    let i := (s.nextId rule).2
    let new : Edge := ⟨i, rule, sortSide e.reactants, sortSide e.products⟩
    ∃ s', s.addFromStr (fmtLine f e) ex sfx = (s', .ok i) ∧ i ∉ s.ids ∧
      s'.edges = s.edges ++ [new] ∧ s'.findEdge i = some new ∧
      (∀ j, j ≠ i → s'.findEdge j = s.findEdge j) ∧
      new.reactants.Perm e.reactants ∧ new.products.Perm e.products ∧
      (s.Inv → s'.Inv) := by
  intro rule i new
  have hfresh : i ∉ s.ids := nextId_fresh s rule
  refine ⟨(s.nextId rule).1.insertEdge new, addFromStr_wfLine s f e ex sfx hm hs hl hr hne, hfresh,
    rfl, ?_, ?_, Str.sortSide_perm _, Str.sortSide_perm _, ?_⟩
  · exact findEdge_insertEdge_self (s.nextId rule).1 new hfresh
  · intro j hj
    exact findEdge_insertEdge_other (s.nextId rule).1 new j hj
  · intro hinv
    have := addFromStr_inv s (fmtLine f e) ex sfx hinv
    rw [addFromStr_wfLine s f e ex sfx hm hs hl hr hne] at this
    exact this

/-- **C15, error part (add from string).** Whatever the text layer raises (`ValueError` when
`>>` is missing, `IndexError` on a part made of `*` only) is raised before the store is touched:
same exception class, store unchanged. -/
theorem addFromStr_parse_error (s : Store) (line : List Char) (rule : Option String) (sfx : Bool)
    (err : Views.Err) (h : Views.parseLine rule sfx line = .error err) :
    s.addFromStr line rule sfx = (s, .error (errOfViews err)) := by
  unfold Store.addFromStr
  rw [h]

/-- **C15, refinement part (parse_rxns).** For items that are well formed (`Item.Wf`: bare lines
always; lines with a `| rule=R` suffix when the loop body has the suffix parsed) `parse_rxns`
succeeds and appends, in order, one reaction per item with the spelled sides and the rule
`parseRxnsRule` decides from explicit rule / suffix / `default_rule` / `prefer_suffix`. -/
theorem parseRxns_spec (s : Store) (dr : String) (sfx pref : Bool) (items : List Item)
    (h : ∀ it ∈ items, it.Wf sfx pref) :
    ∃ s', s.parseRxns (items.map Item.line) dr sfx pref = (s', .ok ()) ∧
      ∃ added : List Edge, s'.edges = s.edges ++ added ∧
        added.map Edge.content = items.map (Item.expected dr sfx pref) :=
  parseRxns_wfItems dr sfx pref items s h

/-- **C15, partial effects (parse_rxns).** On arbitrary input — also when some line raises and
`parse_rxns` stops half way — the reactions stored before are untouched and still come first:
the table only grows at the end. (That the store reached is consistent is `inv_reachable`.) -/
theorem parseRxns_only_appends (s : Store) (items : List (List Char × Option String)) (dr : String)
    (sfx pref : Bool) :
    ∃ added, (s.parseRxns items dr sfx pref).1.edges = s.edges ++ added :=
  parseRxns_edges_prefix items dr sfx pref s

/-- `parse_rxns(lines, rules=...)` with a wrong number of rules raises `ValueError` before
anything is added. -/
theorem parseRxnsRules_length_mismatch (s : Store) (lines : List (List Char))
    (rules : List (Option String)) (dr : String) (sfx pref : Bool) (h : lines.length ≠ rules.length) :
    s.parseRxnsRules lines rules dr sfx pref = (s, .error .valueError) := by
  unfold Store.parseRxnsRules
  rw [if_pos h]

section Examples
open SynKit.Views

/-- Non-vacuity of `addFromStr_spec`: its hypotheses hold for the line `2A + B >> C | rule=R1`
(suffix parsed) and for the bare `2A + B >> C` … -/
def exRxn : Views.Rxn := ⟨"", "R1", [("B", 1), ("A", 2)], [("C", 1)]⟩

example : LineMode {} true ∧ LineMode { includeRule := false } false :=
  ⟨Or.inl ⟨rfl, rfl⟩, Or.inr ⟨rfl, rfl⟩⟩
example : (WfSide exRxn.reactants ∧ WfSide exRxn.products) ∧
    (WfLabels exRxn.reactants ∧ WfLabels exRxn.products) ∧ WfRule exRxn.rule ∧
    (exRxn.reactants ≠ [] ∨ exRxn.products ≠ []) := by
  unfold WfSide WfLabels WfRule; decide
example : String.ofList (fmtLine {} exRxn) = "2A + B >> C | rule=R1" := by decide

/-- … and the model computes what the theorem says: rule from the suffix, from the argument
(argument wins over suffix), default `"r"` (also for `rule=""`). -/
example : (({} : Store).addFromStr "2A + B >> C | rule=R1".toList none true).1.edges =
    [⟨"R1_1", "R1", [("A", 2), ("B", 1)], [("C", 1)]⟩] := by decide
example : (({} : Store).addFromStr "2A + B >> C | rule=R1".toList (some "X") true).1.edges =
    [⟨"X_1", "X", [("A", 2), ("B", 1)], [("C", 1)]⟩] := by decide
example : (step [{}] (.addFromStr 0 "2A+B>>C".toList (some "") false)).2 = .okId "r_1" := by decide

/-- Why a line with suffix is not well formed under `parse_rule_from_suffix=False` (which is
also how `parse_rxns` hands over a line that comes with an explicit per-line rule unless
`prefer_suffix`): the suffix stays in the text and becomes part of the last product label. -/
theorem suffix_unparsed_example :
    (({} : Store).addFromStr "A >> B | rule=R1".toList (some "X") false).1.edges =
      [⟨"X_1", "X", [("A", 1)], [("B | rule=R1", 1)]⟩] ∧
    (({} : Store).parseRxns [("A >> B | rule=R1".toList, some "X")] "r" true false).1.edges =
      [⟨"X_1", "X", [("A", 1)], [("B | rule=R1", 1)]⟩] := by decide

/-- Error branches are modelled explicitly: missing `>>`, a `*`-only part, an empty reaction
(`ValueError` of `add_rxn`, raised after the counter was advanced). -/
example : (step [{}] (.addFromStr 0 "A + B".toList none true)).2 = .err .valueError := by decide
example : (step [{}] (.addFromStr 0 "* >> B".toList none true)).2 = .err .indexError := by decide
example : (step [{}] (.addFromStr 0 "∅ >> ∅".toList none true)).2 = .err .valueError ∧
    (({} : Store).addFromStr "∅ >> ∅".toList none true).1.counters = [("r", 1)] := by decide

/-- `parse_rxns` stops at the first failing line and keeps what it added before it (here also the
counter advanced by the failing `add_rxn`): the next generated id is `r_3`. -/
example : (step [{}] (.parseRxns 0
      [("A>>B".toList, none), ("∅>>∅".toList, none), ("C>>D".toList, none)] "r" true false)).2 =
    .err .valueError := by decide
example : ((run (initWorld 1)
    [.parseRxns 0 [("A>>B".toList, none), ("∅>>∅".toList, none), ("C>>D".toList, none)] "r" true false,
     .addFromStr 0 "C>>D".toList none true])[0]?.map (·.ids)) = some ["r_1", "r_3"] := by decide

/-- The rule table of `parse_rxns`: `default_rule` only counts when suffixes are not parsed;
`prefer_suffix` lets the suffix override an explicit rule. -/
example : ((({} : Store).parseRxns
      [("A>>B".toList, none), ("A>>B | rule=R1".toList, none), ("A>>B".toList, some "X"),
       ("A>>B | rule=R1".toList, some "X")] "d" true true).1.edges.map (·.rule)) =
    ["r", "R1", "X", "R1"] := by decide
example : ((({} : Store).parseRxns [("A>>B".toList, none)] "d" false false).1.edges.map (·.rule)) =
    ["d"] := by decide

/-- Non-vacuity of `parseRxns_spec`: a bare line with an explicit rule and a suffixed line
without one are admissible together. -/
example : ∀ it ∈ ([({ includeRule := false }, exRxn, some "X"), ({}, exRxn, none)] : List Item),
    it.Wf true false := by
  intro it hit
  simp only [List.mem_cons, List.not_mem_nil, or_false] at hit
  rcases hit with rfl | rfl
  · exact ⟨Or.inl ⟨rfl, rfl⟩, by unfold WfSide; decide, by unfold WfLabels; decide,
      (by intro h; cases h), by decide⟩
  · exact ⟨Or.inr ⟨rfl, rfl, Or.inl rfl⟩, by unfold WfSide; decide, by unfold WfLabels; decide,
      by intro _; unfold WfRule; decide, by decide⟩

end Examples

end SynKit.Store

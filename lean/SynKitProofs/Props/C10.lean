import SynKitModel.Repr
import SynKitModel.Gml
import SynKitModel.Match
import SynKitProofs.ReprLemmas
import SynKitProofs.ReprHLemmas
import SynKitProofs.ImplicitHLemmas
import SynKitProofs.GmlLemmas
import SynKitProofs.GmlRcLemmas
import SynKitProofs.GmlIsoLemmas
import SynKitProofs.GmlReaderLemmas
import SynKitProofs.GmlReindexLemmas
import SynKitProofs.GmlSmartLemmas
import SynKitModel.ReprOpt
import SynKitProofs.ReprOptLemmas
import SynKitProofs.ReprOptReindexLemmas
/-!
# C10 — changing representation (SMILES ↔ graph, explicit ↔ implicit hydrogens, ITS ↔ GML) loses nothing

Property theorems only; helper lemmas live in `SynKitProofs/ReprLemmas.lean`,
`SynKitProofs/ReprHLemmas.lean`, `SynKitProofs/GmlLemmas.lean` and `SynKitProofs/Gml{Rc,Iso,Reader,Reindex,Smart}Lemmas.lean`.  RDKit (SMILES parsing / printing, sanitisation, aromaticity) is
external: a molecule is its atom/bond table, and the SMILES clause of the property rests on the
correspondence check (`harness/props/c10.py`, stream (a)).
-/
namespace SynKit

open SynKit.Repr SynKit.Gml in
/-- C10 at full strength over the model, as first written down.  Its first nine conjuncts are proved
(`C10.clauses_1_to_9` at the end of this file; the single theorems are `graphToMol_molToGraph`,
`hToImplicit_hToExplicit`, `totalH_hToExplicit`, `totalH_hToImplicit`, `label_roundtrip`,
`gml_roundtrip`, `gml_roundtrip_reindexed`, `gml_two_ways_core`, `gml_two_ways_centre`).  The last
conjunct (full, non-core export: reaction string vs ITS) is **false as written**
(`C10.last_clause_needs_molShape`: a product graph with a bond lacking `order` satisfies its
hypotheses and the two routes differ); it holds, and is proved, for the graphs `rsmi_to_graph`
delivers (`MolShape`: `gml_two_ways_full`).  `C10.FullStatementMol` is the corrected statement and
`C10.fullStatementMol` its proof. -/
def C10.FullStatement : Prop :=
  -- 1. the part of the table the code can carry survives table → graph → table
  (∀ M : Mol, M.WF → graphToMol (molToGraph M) = .ok M.out) ∧
  -- 2. explicit then implicit restores the graph (guard: no explicit H bonded to a heavy atom)
  (∀ G : LGraph, G.WF → HTyped G → NoHeavyBoundH G → hToImplicit (hToExplicit G) = G) ∧
  -- 3./4. neither direction changes the total hydrogen count
  (∀ G : LGraph, totalH (hToExplicit G) = totalH G) ∧
  (∀ G : LGraph, G.WF → HTyped G → HValence G → totalH (hToImplicit G) = totalH G) ∧
  -- 5. element + charge labels
  (∀ e c, alpha e → parseLabel (render e c) = (e, c)) ∧
  -- 6. ITS → GML → ITS keeps atoms, charges, (before, after) orders; core and full export
  (∀ (I : LGraph) (core : Bool), ItsShape (if core then getRc I else I) →
      RuleEq (gmlToIts (itsToGml core false I)) (if core then getRc I else I)) ∧
  -- 7. … and up to renumbering when ids are re-indexed
  (∀ (I : LGraph) (core : Bool), ItsShape (if core then getRc I else I) →
      ∃ m, Match.IsIso ⟨["v"], ["o"], false⟩ (viewGraph (if core then getRc I else I))
        (viewGraph (gmlToIts (itsToGml core true I))) m) ∧
  -- 8. the routes agree: reaction string vs ITS (full or centre), core export; and full export
  (∀ (r p : LGraph) (ri : Bool), smartToGml true ri r p = itsToGml true ri (construct r p)) ∧
  (∀ (I : LGraph) (ri : Bool), itsToGml true ri (getRc I) = itsToGml true ri I) ∧
  (∀ (r p : LGraph) (ri : Bool), ItsShape (construct r p) → r.ids = p.ids →
      ∃ m, Match.IsIso ⟨["v"], ["o"], false⟩ (viewGraph (gmlToIts (smartToGml false ri r p)))
        (viewGraph (gmlToIts (itsToGml false ri (construct r p)))) m)

namespace Repr

/-- **C10, table clause.** For a table as RDKit delivers it (bonds between existing atoms, one of
the four standard bond types) `graph_to_mol(mol_to_graph(M))` hands RDKit exactly the element,
charge, map number and total hydrogen count of every atom (in order) and every bond with its
type (1.5 ↔ aromatic included).  Only the aromatic *flag* is not carried back (RDKit recomputes
it), which is why `Mol.out` omits it. -/
theorem graphToMol_molToGraph (M : Mol) (h : M.WF) : graphToMol (molToGraph M) = .ok M.out :=
  graphToMol_molToGraph' M h

/-- **C10, hydrogens: round trip.**  If no explicit hydrogen is bonded to a heavy atom
(`has_XH(G)` is false) and no hydrogen node carries a count of its own, then making the
hydrogens explicit and implicit again gives back *the same graph* (same nodes in the same order
with the same attribute dicts, same edges).  Hydrogens without a heavy neighbour (H₂, H⁺) are
kept — this is the F18 repair the model follows. -/
theorem hToImplicit_hToExplicit (G : LGraph) (hwf : G.WF) (ht : HTyped G) (hg : NoHeavyBoundH G) :
    hToImplicit (hToExplicit G) = G := hToImplicit_hToExplicit' G hwf ht hg

/-- **C10, hydrogens: count, implicit → explicit.**  No guard at all. -/
theorem totalH_hToExplicit (G : LGraph) : totalH (hToExplicit G) = totalH G := totalH_hToExplicit' G

/-- **C10, hydrogens: count, explicit → implicit — partial** (kept for the record; the full
statement is `totalH_hToImplicit` below).  Proved on the graphs
`hToExplicit G` under the guard of the round trip.  Missing: the statement for an arbitrary
graph with monovalent, count-free hydrogens (`HValence`, fourth clause of `C10.FullStatement`);
that case is gated by the correspondence (Lean evaluates `totalH` and `HValence` on what the
implementation returned). -/
theorem totalH_roundtrip_partial (G : LGraph) (hwf : G.WF) (ht : HTyped G) (hg : NoHeavyBoundH G) :
    totalH (hToImplicit (hToExplicit G)) = totalH (hToExplicit G) := by
  rw [hToImplicit_hToExplicit' G hwf ht hg, totalH_hToExplicit']

/-- **C10, hydrogens: count, explicit → implicit** (fourth clause of `C10.FullStatement`, in full;
supersedes `totalH_roundtrip_partial`).  On *any* well-formed graph whose hydrogen nodes carry no
count of their own and have at most one heavy neighbour (`HValence`), `h_to_implicit` keeps the
total hydrogen count: a hydrogen with a heavy neighbour is removed and that neighbour's count goes
up by one; a hydrogen with only hydrogen neighbours (or none) stays (F18 repair).  `HTyped` is
not needed by the proof and kept only to match the clause. -/
theorem totalH_hToImplicit (G : LGraph) (hwf : G.WF) (ht : HTyped G) (hv : HValence G) :
    totalH (hToImplicit G) = totalH G := totalH_hToImplicit' G hwf ht hv

/-- Non-vacuity: CH₃–H with the fourth hydrogen explicit, next to H₂: the guard holds, the explicit
hydrogen is really folded in (node 5 disappears), H₂ stays, and the count is 6 before and after. -/
example :
    let G : LGraph := { nodes := [(1, [("element", .str "C"), ("hcount", .num 6)]),
                                  (5, [("element", .str "H"), ("hcount", .num 0)]),
                                  (6, [("element", .str "H"), ("hcount", .num 0)]),
                                  (7, [("element", .str "H"), ("hcount", .num 0)])],
                        edges := [(1, 5, [("order", .num 2)]), (6, 7, [("order", .num 2)])] }
    G.WF ∧ HTyped G ∧ HValence G ∧ (hToImplicit G).ids = [1, 6, 7] ∧ totalH G = 6 ∧ totalH (hToImplicit G) = 6 := by
  decide

/-- **C10, hydrogens: count, `implicit_hydrogen`** (the function `graph_to_smi(g, preserve_atom_maps)`
applies; model `implicitHydrogen`, which follows the F29 repair, draft fix 0022).  On a simple graph
whose hydrogen nodes carry no count of their own and have at most one heavy neighbour (`HValence`,
the guard of `totalH_hToImplicit`), folding the non-preserved hydrogens into their heavy neighbours
keeps the number of hydrogens of the molecule, for *every* `preserve` list: hydrogens without heavy
neighbour (H2, H+, H-, H·) are not removed.  No typing guard is needed. -/
theorem totalH_implicitHydrogen (G : LGraph) (preserve : List Nat) (hwf : G.WF) (hv : HValence G) :
    totalH (implicitHydrogen G preserve) = totalH G :=
  ImplH.totalH_implicitH G hwf preserve (ImplH.foldGuard_of_hValence G preserve hv)

/-- **C10, hydrogens: `implicit_hydrogen` keeps free hydrogens** (F29 repair).  A hydrogen node
without a non-hydrogen neighbour is a node of the result, with its whole attribute dict, whatever
the `preserve` list is. -/
theorem implicitHydrogen_free_hydrogen_stays (G : LGraph) (preserve : List Nat) (hn : G.ids.Nodup)
    (p : Nat × Attrs) (hp : p ∈ G.nodes) (hH : isH p.2 = true) (hf : hasHeavyNbr G p.1 = false) :
    p.1 ∈ (implicitHydrogen G preserve).ids ∧ (implicitHydrogen G preserve).attrs p.1 = p.2 := by
  have hattr := attrs_eq_of_mem G hn p hp
  have hmem : p.1 ∈ (implicitHydrogen G preserve).ids :=
    (ImplH.mem_implicitH_ids G hn preserve p.1).2
      ⟨List.mem_map.2 ⟨p, hp, rfl⟩, (ImplH.stays_iff G hn preserve p.1).2 (Or.inr (Or.inr hf))⟩
  exact ⟨hmem, by rw [ImplH.implicitH_attrs_H G hn preserve p.1 hmem (by rw [hattr]; exact hH), hattr]⟩

/-- Non-vacuity: CH₃–H with the fourth hydrogen explicit, next to H₂ and H⁺, none of them preserved
(`preserve = [99]`): the guard holds, the bonded hydrogen is really folded in (node 5 disappears),
H₂ and H⁺ stay, the H–H bond stays, and the count is 7 before and after. -/
example :
    let G : LGraph := { nodes := [(1, [("element", .str "C"), ("hcount", .num 6), ("atom_map", .num 2)]),
                                  (5, [("element", .str "H"), ("hcount", .num 0), ("atom_map", .num 10)]),
                                  (6, [("element", .str "H"), ("hcount", .num 0), ("atom_map", .num 12)]),
                                  (7, [("element", .str "H"), ("hcount", .num 0), ("atom_map", .num 14)]),
                                  (9, [("element", .str "H"), ("hcount", .num 0), ("charge", .num 2), ("atom_map", .num 18)])],
                        edges := [(1, 5, [("order", .num 2)]), (6, 7, [("order", .num 2)])] }
    G.WF ∧ HValence G ∧ implDomain G = true ∧ hasHeavyNbr G 5 = true ∧ hasHeavyNbr G 6 = false ∧ hasHeavyNbr G 9 = false ∧
      (implicitHydrogen G [99]).ids = [1, 6, 7, 9] ∧ hcnt ((implicitHydrogen G [99]).attrs 1) = 4 ∧
      (implicitHydrogen G [99]).edges.map (fun e => (e.1, e.2.1)) = [(6, 7)] ∧
      totalH G = 7 ∧ totalH (implicitHydrogen G [99]) = 7 := by
  decide

/-- The first half of the guard is literally `has_XH`: it is false iff every bond joins two
hydrogens or two heavy atoms. -/
theorem hasXH_false_iff (G : LGraph) :
    hasXH G = false ↔ ∀ e ∈ G.edges, isH (G.attrs e.1) = isH (G.attrs e.2.1) := by
  simp only [hasXH, List.any_eq_false]
  constructor
  · intro h e he
    have := h e he
    cases h1 : isH (G.attrs e.1) <;> cases h2 : isH (G.attrs e.2.1) <;> simp [h1, h2] at this ⊢
  · intro h e he
    rw [h e he]; cases isH (G.attrs e.2.1) <;> simp

/-- Non-vacuity: CH₄ next to H₂ and H⁺ satisfies every hypothesis, and is really expanded
(4 new hydrogen nodes). -/
example :
    let G : LGraph := { nodes := [(1, [("element", .str "C"), ("hcount", .num 8)]),
                                  (5, [("element", .str "H"), ("hcount", .num 0)]),
                                  (6, [("element", .str "H"), ("hcount", .num 0)]),
                                  (9, [("element", .str "H"), ("hcount", .num 0), ("charge", .num 2)])],
                        edges := [(5, 6, [("order", .num 2)])] }
    G.WF ∧ HTyped G ∧ NoHeavyBoundH G ∧ (hToExplicit G).ids = [1, 5, 6, 9, 10, 11, 12, 13] ∧ totalH G = 7 := by
  decide

example : (⟨[⟨"N", 1, 0, 3, false⟩, ⟨"C", 0, 7, 3, false⟩], [⟨0, 1, 2⟩]⟩ : Mol).WF := by decide

end Repr

namespace Gml

/-- **C10, labels.**  For an element string over `[A-Za-z*]` (non-empty) and any integer charge,
parsing the label the writer emits (`O-`, `N2+`, `Cl`, `Mg12-`, …) gives back element and charge. -/
theorem label_roundtrip (e : List Char) (c : Int) (he : alpha e) : parseLabel (render e c) = (e, c) :=
  label_roundtrip' e c he

/-- Bond labels: the four standard orders survive `-`, `:`, `=`, `#`. -/
theorem orderLabel_roundtrip (h : Int) (hh : h = 2 ∨ h = 3 ∨ h = 4 ∨ h = 6) :
    labelOrder (orderLabel (.num h)) = .num h := orderLabel_roundtrip' h hh

/-- **C10, ITS → GML → ITS — partial (token level)** (kept for the record; the full statements are
`gml_roundtrip` and `gml_roundtrip_reindexed` below).  For an ITS graph of the shape
`ITSGraph` / `get_rc` produce, exported in full with ids kept, the written rule contains
everything the property names, in a form the reader's own label functions invert:

* every atom `n` with view `(e, c, e, c')` appears as a `context` node labelled `render e c`
  when its charge does not change, and otherwise as a `left` node labelled `render e c` and a
  `right` node labelled `render e c'`; by `label_roundtrip` these parse back to `(e, c)`, `(e, c')`;
* every bond with order pair `(x, y)` appears in `left` with the label of `x` iff `x ≠ 0` and in
  `right` with the label of `y` iff `y ≠ 0`; by `orderLabel_roundtrip` these parse back to `x`, `y`.

Missing for the sixth clause of `C10.FullStatement`: that `gmlToIts` (sequential `add_node` /
`add_edge`, `_synchronize_nodes_and_edges`, `ITSGraph`) reassembles exactly these tokens into a
graph with the same `nodeView` / `edgeView`, and the reduction of the core export to the full
export of the centre.  Both are checked on every generated case by the correspondence (model
reader = implementation reader; `ruleEqb` on the re-imported graph). -/
theorem gml_roundtrip_partial (I : LGraph) (hs : ItsShape I) :
    (∀ p ∈ I.nodes, ∃ e c c', alpha e.toList ∧ nodeView I p.1 = .tup [.str e, .num c, .str e, .num c'] ∧
      parseLabel (render e.toList (c / 2)) = (e.toList, c / 2) ∧
      parseLabel (render e.toList (c' / 2)) = (e.toList, c' / 2) ∧
      (if c = c' then Item.node p.1 (render e.toList (c / 2)) ∈ (itsToGml false false I).context
       else Item.node p.1 (render e.toList (c / 2)) ∈ (itsToGml false false I).left ∧
            Item.node p.1 (render e.toList (c' / 2)) ∈ (itsToGml false false I).right)) ∧
    (∀ ed ∈ I.edges, ∃ x y, Attrs.get ed.2.2 "order" = .tup [.num x, .num y] ∧
      (x ≠ 0 → Item.edge ed.1 ed.2.1 (orderLabel (.num x)) ∈ (itsToGml false false I).left ∧
               labelOrder (orderLabel (.num x)) = .num x) ∧
      (y ≠ 0 → Item.edge ed.1 ed.2.1 (orderLabel (.num y)) ∈ (itsToGml false false I).right ∧
               labelOrder (orderLabel (.num y)) = .num y)) := by
  constructor
  · intro p hp
    obtain ⟨e, c, c', ha, hv, hmem⟩ := writer_nodes I hs p hp
    exact ⟨e, c, c', ha, hv, label_roundtrip' _ _ ha, label_roundtrip' _ _ ha, hmem⟩
  · intro ed he
    obtain ⟨x, y, _, ho, hx, hy, hl, hr⟩ := writer_edges I hs ed he
    have std : ∀ z : Int, stdOrder z = true → z ≠ 0 → (z = 2 ∨ z = 3 ∨ z = 4 ∨ z = 6) := by
      intro z hz h0
      simp only [stdOrder, Bool.or_eq_true, decide_eq_true_eq] at hz
      omega
    exact ⟨x, y, ho, fun h0 => ⟨hl h0, orderLabel_roundtrip' x (std x hx h0)⟩,
      fun h0 => ⟨hr h0, orderLabel_roundtrip' y (std y hy h0)⟩⟩

/-- **C10, two routes (core export).**  The rule written from the reaction string's two graphs
*is* the rule written from their ITS with `core=True`: identical tokens, not merely equivalent. -/
theorem gml_two_ways_core (r p : LGraph) (ri : Bool) :
    smartToGml true ri r p = itsToGml true ri (construct r p) := rfl

/-- **C10, two routes (full ITS vs centre).**  With `core=True` the export of a full ITS is by
definition the full export of its centre — the F8 repair: left, right *and context* come from the
centre. -/
theorem gml_two_ways_full_is_centre (I : LGraph) (ri : Bool) :
    itsToGml true ri I = itsToGml false ri (getRc I) := rfl

/-- **C10, two routes (centre supplied) — partial** (kept for the record; `gml_two_ways_centre` below
has no hypothesis).  Supplying the centre instead of the full
ITS gives identical tokens *provided* extracting the centre of a centre changes nothing.
Missing: `getRc (getRc I) = getRc I` itself (idempotence of `get_rc`, the subject of C02); it
is exercised by correspondence stream (d) on every corpus reaction and renumbering. -/
theorem gml_two_ways_centre_partial (I : LGraph) (ri : Bool) (hidem : getRc (getRc I) = getRc I) :
    itsToGml true ri (getRc I) = itsToGml true ri I := by
  simp only [itsToGml, if_true, hidem]

/-- **`get_rc` is idempotent** (the `get_rc` the GML entry points call, default options): extracting
the centre of a centre gives back *the same graph* — same nodes in the same order with the same
attribute dicts, same edges — for every input graph (no well-formedness needed). -/
theorem getRc_idem (I : LGraph) : getRc (getRc I) = getRc I := getRc_idem' I

/-- **C10, two routes (centre supplied).**  Supplying the centre instead of the full ITS gives
identical tokens, with or without re-indexing (ninth clause of `C10.FullStatement`). -/
theorem gml_two_ways_centre (I : LGraph) (ri : Bool) : itsToGml true ri (getRc I) = itsToGml true ri I :=
  gml_two_ways_centre_partial I ri (getRc_idem I)

/-- **C10, ITS → GML → ITS** (sixth clause of `C10.FullStatement`), core and full export, ids kept.
The graph the reader assembles from the written rule — sequential `add_node` / `add_edge` per
section, `_synchronize_nodes_and_edges`, `ITSGraph` — is the same rule as the exported graph (the
centre, for `core=True`): same atoms, same (element, charge) before and after on every atom, same
(before, after) order pair on every pair of atoms. -/
theorem gml_roundtrip (I : LGraph) (core : Bool) (hs : ItsShape (if core then getRc I else I)) :
    RuleEq (gmlToIts (itsToGml core false I)) (if core then getRc I else I) := by
  cases core with
  | false => exact gml_roundtrip_full' I hs
  | true => exact gml_roundtrip_full' (getRc I) hs

/-- **C10, ITS → GML → ITS, re-indexed** (seventh clause of `C10.FullStatement`).  With
`reindex=True` the re-imported graph is the exported one up to the re-indexing bijection: their
view graphs (node label = (element, charge) before/after, edge label = order pair) are isomorphic. -/
theorem gml_roundtrip_reindexed (I : LGraph) (core : Bool) (hs : ItsShape (if core then getRc I else I)) :
    ∃ m, Match.IsIso ⟨["v"], ["o"], false⟩ (viewGraph (if core then getRc I else I))
      (viewGraph (gmlToIts (itsToGml core true I))) m := by
  have key : ∀ I : LGraph, ItsShape I →
      ∃ m, Match.IsIso viewSel (viewGraph I) (viewGraph (gmlToIts (itsToGml false true I))) m := by
    intro I hs
    have hf := injOn_indexMap I hs
    rw [itsToGml_reindex I hs]
    exact isIso_of_ruleEq_relabel I _ hs.1 _ hf
      (gml_roundtrip_full' _ (itsShape_relabel I hs _ hf)) (closed_gmlToIts _)
      (fun e he a ha => construct_order_consistent _ _ e he a ha)
  cases core with
  | false => exact key I hs
  | true => exact key (getRc I) hs

/-- **C10, reaction string → GML → ITS.**  The rule `smart_to_gml` writes from the two molecule
graphs of a reaction (full export, ids kept) reads back as the ITS graph of these two graphs. -/
theorem gml_smart_roundtrip (r p : LGraph) (hr : MolShape r) (hp : MolShape p) (hid : r.ids = p.ids)
    (hs : ItsShape (construct r p)) : RuleEq (gmlToIts (smartToGml false false r p)) (construct r p) :=
  smart_roundtrip' r p hr hp hid hs

/-- **C10, two routes (full export).**  For the two molecule graphs `rsmi_to_graph` delivers
(`MolShape`: a NetworkX graph, every atom with an element and an integer charge, every bond with a
standard order; same atoms on both sides), the rule written from the reaction string and the rule
written from the ITS graph of the same two graphs — both in full, with or without re-indexing —
read back as isomorphic rules.  (The tokens themselves differ: the `right` section lists the
product's bonds in the product's own order and orientation on one route, in ITS order on the
other.)  `MolShape` cannot be dropped: `C10.last_clause_needs_molShape`. -/
theorem gml_two_ways_full (r p : LGraph) (ri : Bool) (hr : MolShape r) (hp : MolShape p) (hid : r.ids = p.ids)
    (hs : ItsShape (construct r p)) :
    ∃ m, Match.IsIso ⟨["v"], ["o"], false⟩ (viewGraph (gmlToIts (smartToGml false ri r p)))
      (viewGraph (gmlToIts (itsToGml false ri (construct r p)))) m :=
  two_ways_full' r p ri hr hp hid hs

/-- Non-vacuity for `gml_roundtrip*` / `gml_two_ways_full`: a C–O bond that becomes a double bond
while O loses its charge.  The two molecule graphs have the required shape, so has their ITS, its
centre is non-trivial, and the two routes really write different token lists (`right` section). -/
example :
    let r : LGraph := { nodes := [(1, [("element", .str "C"), ("charge", .num 0)]),
                                  (2, [("element", .str "O"), ("charge", .num (-2))]),
                                  (3, [("element", .str "N"), ("charge", .num 0)])],
                        edges := [(1, 2, [("order", .num 2)]), (1, 3, [("order", .num 2)])] }
    let p : LGraph := { nodes := [(1, [("element", .str "C"), ("charge", .num 0)]),
                                  (2, [("element", .str "O"), ("charge", .num 0)]),
                                  (3, [("element", .str "N"), ("charge", .num 0)])],
                        edges := [(3, 1, [("order", .num 2)]), (2, 1, [("order", .num 4)])] }
    MolShape r ∧ MolShape p ∧ r.ids = p.ids ∧ ItsShape (construct r p) ∧ ItsShape (getRc (construct r p)) ∧
    (getRc (construct r p)).ids = [1, 2] ∧
    smartToGml false false r p ≠ itsToGml false false (construct r p) ∧
    ruleEqb (gmlToIts (smartToGml false true r p)) (gmlToIts (itsToGml false true (construct r p))) = true := by
  decide

/-- Non-vacuity: a two-atom centre (C–O bond formed, O loses its charge) has the required shape,
its element strings satisfy `alpha`, and the written rule has the expected tokens. -/
example :
    let I : LGraph :=
      { nodes := [(1, [("element", .str "C"), ("charge", .num 0),
                       ("typesGH", .tup [.tup [.str "C", .bool false, .num 6, .num 0, .tup []],
                                         .tup [.str "C", .bool false, .num 6, .num 0, .tup []]])]),
                  (2, [("element", .str "O"), ("charge", .num (-2)),
                       ("typesGH", .tup [.tup [.str "O", .bool false, .num 0, .num (-2), .tup []],
                                         .tup [.str "O", .bool false, .num 0, .num 0, .tup []]])])],
        edges := [(1, 2, [("order", .tup [.num 0, .num 2]), ("standard_order", .num (-2))])] }
    ItsShape I ∧ itsToGml false false I =
      { left := [.node 2 ['O', '-']], context := [.node 1 ['C']], right := [.edge 1 2 ['-'], .node 2 ['O']] } ∧
    ruleEqb (gmlToIts (itsToGml false false I)) I = true := by
  decide

example : alpha "Cl".toList ∧ parseLabel (render "Mg".toList 12) = ("Mg".toList, 12) := by decide

end Gml
/-! ## The non-default options (`SynKitModel/ReprOpt.lean`)

`h_to_explicit(G, nodes, its)`, `implicit_hydrogen(reindex=True)`, `MolToGraph.transform` with
`use_index_as_atom_map` / `drop_non_aam`, the GML writer with `explicit_hydrogen`.  Helper lemmas in
`SynKitProofs/ReprOptLemmas.lean` and `SynKitProofs/ReprOptReindexLemmas.lean`. -/
namespace ReprOpt
open SynKit.Repr SynKit.Gml

/-- **C10, hydrogens: count, `h_to_explicit(G, nodes, its)`** (third clause of `C10.FullStatement` for
the node-list option).  For a graph with distinct node ids (the first component of `LGraph.WF`; a
NetworkX graph always has them) and **any** node list `ns` — ids that are not nodes of `G`, repeated
ids, ids of hydrogens the call itself has just created are all allowed; `[]` stands for `None` — and
both values of `its`, the expansion keeps the number of hydrogens of the molecule.  No typing guard
(`HTyped`) and no guard on `typesGH` (`typesDomain` / `explicitDomain`) is needed: the `typesGH`
adjustment does not touch `hcount` or `element`, and `its=True` only rewrites edge attributes. -/
theorem hToExplicitG_totalH (G : LGraph) (hn : G.ids.Nodup) (ns : List Nat) (its : Bool) :
    totalH (hToExplicitG G ns its) = totalH G := hToExplicitG_totalH' G hn ns its

/-- **C10, `h_to_explicit(G, nodes)` in closed form.**  The loop over an arbitrary node list equals
the explicit graph `form G L`: `L` (`expanded G ns`) lists the atoms that are really expanded — the
nodes of `G` with a positive count, each once, in the order of their first visit — their `hcount`
goes to zero (and `typesGH` is adjusted when present), and one block of consecutive fresh hydrogen
ids per atom of `L` is appended after the old nodes (edges likewise). -/
theorem hToExplicitG_closed_form (G : LGraph) (hn : G.ids.Nodup) (ns : List Nat) :
    hToExplicitG G ns false = form G (expanded G ns) ∧ (expanded G ns).Nodup ∧
    ∀ v ∈ expanded G ns, v ∈ G.ids ∧ hcnt (G.attrs v) > 0 :=
  ⟨hToExplicitG_eq_form G hn ns, expanded_inv G ns⟩

/-- **C10, `h_to_explicit(G, nodes=all)` is the default model.**  With `nodes=None` (`[]`) or the
list of all ids, and no `typesGH` on an atom with a positive count (`explicitDomain`, the domain of
the default model `hToExplicit`, which does not model the adjustment), the option model returns
*the same graph* as `hToExplicit`: same node list, same edge list. -/
theorem hToExplicitG_all (G : LGraph) (hn : G.ids.Nodup) (hd : explicitDomain G = true) :
    hToExplicitG G [] false = hToExplicit G ∧ hToExplicitG G G.ids false = hToExplicit G := by
  obtain ⟨h1, h2⟩ := expanded_all G hn
  exact ⟨by rw [hToExplicitG_eq_form G hn, h1, form_all G hn hd],
    by rw [hToExplicitG_eq_form G hn, h2, form_all G hn hd]⟩

/-- **C10, hydrogens: round trip for a node list** (second clause of `C10.FullStatement` for the
node-list option; the node-list version of `hToImplicit_hToExplicit`).  Under the guard of that
theorem (`NoHeavyBoundH`: no explicit hydrogen bonded to a heavy atom, no count on a hydrogen), on
a well-formed typed graph none of whose atoms with a positive count carries `typesGH`
(`explicitDomain`: `h_to_implicit` does not undo the `typesGH` adjustment, see the example below),
expanding **any** node list and folding back gives *the same graph*. -/
theorem hToExplicitG_restores (G : LGraph) (hwf : G.WF) (ht : HTyped G) (hg : NoHeavyBoundH G)
    (hd : explicitDomain G = true) (ns : List Nat) : hToImplicit (hToExplicitG G ns false) = G :=
  hToExplicitG_restores' G hwf ht hg hd ns

/-- Non-vacuity for `hToExplicitG_totalH` / `_closed_form` / `_all` / `_restores`: CH₃–OH next to H₂,
node list `[2, 9, 2, 8, 5]` (an absent id, a repeated id, the id of a hydrogen created for node 2, a
hydrogen of `G`): every hypothesis holds, only the oxygen is expanded (one new node, id 8), the
total is 6 before and after, folding back restores `G`; with all ids both atoms are expanded. -/
example :
    let G : LGraph := { nodes := [(1, [("element", .str "C"), ("hcount", .num 6)]),
                                  (2, [("element", .str "O"), ("hcount", .num 2)]),
                                  (5, [("element", .str "H"), ("hcount", .num 0)]),
                                  (7, [("element", .str "H"), ("hcount", .num 0)])],
                        edges := [(1, 2, [("order", .num 2)]), (5, 7, [("order", .num 2)])] }
    G.WF ∧ HTyped G ∧ NoHeavyBoundH G ∧ explicitDomain G = true ∧ typesDomain G = true ∧
    expanded G [2, 9, 2, 8, 5] = [2] ∧ (hToExplicitG G [2, 9, 2, 8, 5] false).ids = [1, 2, 5, 7, 8] ∧
    totalH G = 6 ∧ totalH (hToExplicitG G [2, 9, 2, 8, 5] true) = 6 ∧
    hToImplicit (hToExplicitG G [2, 9, 2, 8, 5] false) = G ∧
    (hToExplicitG G G.ids false).ids = [1, 2, 5, 7, 8, 9, 10, 11] ∧ hToExplicitG G [] false = hToExplicit G := by
  decide

/-- `explicitDomain` cannot be dropped from `hToExplicitG_restores`: on an ITS node the expansion
also decrements the hydrogen count inside `typesGH`, which `h_to_implicit` does not put back. -/
example :
    let G : LGraph := { nodes := [(1, [("element", .str "O"), ("hcount", .num 2),
                                       ("typesGH", .tup [.tup [.str "O", .bool false, .num 2, .num 0, .tup []],
                                                         .tup [.str "O", .bool false, .num 2, .num 0, .tup []]])])],
                        edges := [] }
    G.WF ∧ HTyped G ∧ NoHeavyBoundH G ∧ typesDomain G = true ∧ explicitDomain G = false ∧
    hToImplicit (hToExplicitG G [1] false) ≠ G ∧ totalH (hToExplicitG G [1] false) = totalH G := by
  decide

/-- **C10, `implicit_hydrogen(reindex=True)` is `implicit_hydrogen` renumbered.**  For a well-formed
graph and every `preserve` list, with `h = implicitHydrogen G K`:
* the new ids are `1..n` in the node order of `h`;
* the renumbering `reindexMap h` (`v ↦ position of v in h + 1`) is injective on the nodes of `h`;
* `implicitHydrogenReindex G K` is `h` relabelled along it, up to the `atom_map` attribute: the
  listed mapping is a label-preserving isomorphism (`Match.IsIso`) for every selection of node /
  edge attributes that does not compare `atom_map` (with or without the hydrogen-count rule);
* every node carries its own new id as `atom_map`. -/
theorem implicitHydrogenReindex_relabel (G : LGraph) (K : List Nat) (hwf : G.WF) :
    (implicitHydrogenReindex G K).ids = List.range' 1 (implicitHydrogen G K).nodes.length ∧
    Match.InjOnIds (implicitHydrogen G K) (reindexMap (implicitHydrogen G K)) ∧
    (∀ sel : Match.Sel, "atom_map" ∉ sel.nodeKeys →
      Match.IsIso sel (implicitHydrogenReindex G K) (implicitHydrogen G K)
        ((implicitHydrogen G K).ids.map fun v => (v, reindexMap (implicitHydrogen G K) v))) ∧
    (∀ p ∈ (implicitHydrogenReindex G K).nodes, atomMapOf p.2 = some p.1) :=
  ⟨implicitHydrogenReindex_ids G K (ImplH.implicitH_ids_nodup G hwf.1 K), reindexMap_injOn _,
    fun sel hk => implicitHydrogenReindex_iso G K hwf sel hk, implicitHydrogenReindex_atomMap G K⟩

/-- **C10, hydrogens: count, `implicit_hydrogen(reindex=True)`.**  Under the guard of
`totalH_implicitHydrogen` (`HValence`) the re-indexed result has as many hydrogens as `G`; without
any guard it has as many as `implicit_hydrogen(reindex=False)`. -/
theorem totalH_implicitHydrogenReindex (G : LGraph) (K : List Nat) :
    totalH (implicitHydrogenReindex G K) = totalH (implicitHydrogen G K) ∧
    (G.WF → HValence G → totalH (implicitHydrogenReindex G K) = totalH G) :=
  ⟨totalH_implicitHydrogenReindex' G K, fun hwf hv => by
    rw [totalH_implicitHydrogenReindex' G K, Repr.totalH_implicitHydrogen G K hwf hv]⟩

/-- Non-vacuity: CH₃–H with the fourth hydrogen explicit next to H₂ (ids 4, 9, 6, 7), nothing
preserved: node 9 is folded in, the survivors 4, 6, 7 become 1, 2, 3 with `atom_map` = new id, the
H–H bond follows, the count is 6 before and after. -/
example :
    let G : LGraph := { nodes := [(4, [("element", .str "C"), ("hcount", .num 6), ("atom_map", .num 2)]),
                                  (9, [("element", .str "H"), ("hcount", .num 0), ("atom_map", .num 10)]),
                                  (6, [("element", .str "H"), ("hcount", .num 0), ("atom_map", .num 12)]),
                                  (7, [("element", .str "H"), ("hcount", .num 0), ("atom_map", .num 14)])],
                        edges := [(4, 9, [("order", .num 2)]), (6, 7, [("order", .num 2)])] }
    G.WF ∧ HValence G ∧ (implicitHydrogen G []).ids = [4, 6, 7] ∧ (implicitHydrogenReindex G []).ids = [1, 2, 3] ∧
    (implicitHydrogenReindex G []).edges.map (fun e => (e.1, e.2.1)) = [(2, 3)] ∧
    (implicitHydrogenReindex G []).nodes.map (fun p => atomMapOf p.2) = [some 1, some 2, some 3] ∧
    totalH G = 6 ∧ totalH (implicitHydrogenReindex G []) = 6 := by
  decide

/-- **C10, table → graph with both flags off is the default.**  On a table whose bonds join
existing atoms (`Mol.WF`), `MolToGraph.transform(mol, drop_non_aam=False, use_index_as_atom_map=False)`
as modelled with its options is `molToGraph`, the function the table clause is about. -/
theorem molToGraphOpt_default (M : Mol) (h : M.WF) : molToGraphOpt false false M = .ok (molToGraph M) :=
  molToGraphOpt_default' M h

/-- **C10, `use_index_as_atom_map=True` renumbers the default graph**: node `idx + 1` becomes the
atom's map number when that is non-zero (`aamMap`), provided no two atoms get the same id (the
model answers `collision` otherwise: NetworkX would merge the atoms). -/
theorem molToGraphOpt_useIdx (M : Mol) (h : M.WF) (hnd : ((molToGraph M).ids.map (aamMap M)).Nodup) :
    molToGraphOpt true false M = .ok ((molToGraph M).relabel (aamMap M)) := molToGraphOpt_useIdx' M h hnd

/-- **C10, `drop_non_aam=True` gives the induced subgraph on the mapped atoms.**  Whenever
`use_index_as_atom_map=True` alone succeeds with graph `G`, adding `drop_non_aam=True` returns
`dropUnmapped G`: the nodes of `G` whose `atom_map` is non-zero, in the same order with the same
attribute dicts (`neighbors` still names dropped neighbours), and exactly the edges of `G` both of
whose ends are kept.  Without `use_index_as_atom_map` the call raises (`molToGraphOpt_valueError`). -/
theorem molToGraphOpt_drop (M : Mol) (G : LGraph) (h : molToGraphOpt true false M = .ok G) :
    molToGraphOpt true true M = .ok (dropUnmapped G) := molToGraphOpt_drop' M G h

/-- Non-vacuity: `[CH3:7][OH:5]` next to an unmapped water: the table is well-formed, the default ids
are 1, 2, 3; with `use_index_as_atom_map` they are 7, 5 and (unmapped, index 2) 3 — no collision;
`drop_non_aam` keeps the two mapped atoms and their bond. -/
example :
    let M : Mol := ⟨[⟨"C", 0, 7, 3, false⟩, ⟨"O", 0, 5, 1, false⟩, ⟨"O", 0, 0, 2, false⟩], [⟨0, 1, 2⟩]⟩
    M.WF ∧ ((molToGraph M).ids.map (aamMap M)).Nodup ∧ (molToGraph M).ids = [1, 2, 3] ∧
    (match molToGraphOpt true false M with | .ok G => G.ids | .error _ => []) = [7, 5, 3] ∧
    (match molToGraphOpt true true M with | .ok G => (G.ids, G.edges.map fun e => (e.1, e.2.1)) | .error _ => ([], [])) =
      ([7, 5], [(7, 5)]) := by
  decide

/-- **C10, GML export with `explicit_hydrogen=False` is the default export**, for `its_to_gml` and
for `smart_to_gml`: every theorem about `itsToGml` / `smartToGml` is a theorem about the option
model with the flag off. -/
theorem itsToGmlX_false (core reindex : Bool) (I r p : LGraph) :
    itsToGmlX core reindex false I = itsToGml core reindex I ∧
    smartToGmlX core reindex false r p = smartToGml core reindex r p :=
  ⟨itsToGmlX_false' core reindex I, smartToGmlX_false' core reindex r p⟩

/-- **C10, ITS → GML (`explicit_hydrogen=True`) → ITS — partial: ids kept** (sixth clause of
`C10.FullStatement` for the explicit-hydrogen export; what correspondence stream (c2) gates).  Let
`I'` be the exported graph (the centre for `core=True`), of the shape `ITSGraph` / `get_rc` produce
(`ItsShape`) and with `standard_order == 0` only on bonds whose order does not change
(`StdConsistent`: `ITSGraph` sets `standard_order = before − after`; the writer decides by
`standard_order` which bonds go into the context section, so a graph lying about it is re-imported
with the wrong "after" order).  Then for the rule written with `reindex=False`,
`explicit_hydrogen=True` and read back by `gml_to_its`:
* its atoms are those of `I'` and the hydrogens `addedH I'` that `h_to_explicit` created
  (consecutive new ids above the largest id);
* on the atoms of `I'` it is `I'`: same (element, charge) before and after on every atom, same
  (before, after) order pair on every pair of atoms — i.e. exactly what the default round trip
  (`gml_roundtrip`) gives;
* every other atom is a hydrogen (`H`, charge 0 on both sides) that is not an atom of `I'`, hangs on
  one atom of `I'` by a (1, 1) bond and has no other bond;
* every atom of `I'` gets as many of them as its `hcount` says;
* (both values of `reindex`) the `left` and `right` sections are those of the default export.

Missing here: the re-import for `reindex=True` — proved in `itsToGmlX_roundtrip_reindex`; the two
together are `itsToGmlX_roundtrip` (the writer renumbers the atoms `1..n` first and expands the
renumbered graph, so that case is this theorem for the renumbered ITS). -/
theorem itsToGmlX_roundtrip_partial (I : LGraph) (core : Bool) (hs : ItsShape (if core then getRc I else I))
    (hc : StdConsistent (if core then getRc I else I)) :
    (∀ n, n ∈ (gmlToIts (itsToGmlX core false true I)).ids ↔
      n ∈ (if core then getRc I else I).ids ∨ ∃ q ∈ addedH (if core then getRc I else I), n = q.1) ∧
    (∀ n ∈ (if core then getRc I else I).ids,
      nodeView (gmlToIts (itsToGmlX core false true I)) n = nodeView (if core then getRc I else I) n ∧
      nodeView (gmlToIts (itsToGmlX core false true I)) n = nodeView (gmlToIts (itsToGml core false I)) n) ∧
    (∀ u ∈ (if core then getRc I else I).ids, ∀ v ∈ (if core then getRc I else I).ids,
      edgeView (gmlToIts (itsToGmlX core false true I)) u v = edgeView (if core then getRc I else I) u v ∧
      edgeView (gmlToIts (itsToGmlX core false true I)) u v = edgeView (gmlToIts (itsToGml core false I)) u v) ∧
    (∀ q ∈ addedH (if core then getRc I else I),
      q.1 ∉ (if core then getRc I else I).ids ∧ q.2 ∈ (if core then getRc I else I).ids ∧
      nodeView (gmlToIts (itsToGmlX core false true I)) q.1 = .tup [.str "H", .num 0, .str "H", .num 0] ∧
      edgeView (gmlToIts (itsToGmlX core false true I)) q.2 q.1 = some (.tup [.num 2, .num 2]) ∧
      ∀ u, u ≠ q.2 → edgeView (gmlToIts (itsToGmlX core false true I)) u q.1 = none) ∧
    (∀ v ∈ (if core then getRc I else I).ids,
      ((addedH (if core then getRc I else I)).map (·.2)).count v = (hcnt ((if core then getRc I else I).attrs v)).toNat) ∧
    (∀ ri, (itsToGmlX core ri true I).left = (itsToGml core ri I).left ∧
      (itsToGmlX core ri true I).right = (itsToGml core ri I).right) := by
  have key : ∀ I : LGraph, ItsShape I → StdConsistent I →
      (∀ n, n ∈ (gmlToIts (itsToGmlX false false true I)).ids ↔ n ∈ I.ids ∨ ∃ q ∈ addedH I, n = q.1) ∧
      (∀ n ∈ I.ids, nodeView (gmlToIts (itsToGmlX false false true I)) n = nodeView I n ∧
        nodeView (gmlToIts (itsToGmlX false false true I)) n = nodeView (gmlToIts (itsToGml false false I)) n) ∧
      (∀ u ∈ I.ids, ∀ v ∈ I.ids, edgeView (gmlToIts (itsToGmlX false false true I)) u v = edgeView I u v ∧
        edgeView (gmlToIts (itsToGmlX false false true I)) u v = edgeView (gmlToIts (itsToGml false false I)) u v) ∧
      (∀ q ∈ addedH I, q.1 ∉ I.ids ∧ q.2 ∈ I.ids ∧
        nodeView (gmlToIts (itsToGmlX false false true I)) q.1 = .tup [.str "H", .num 0, .str "H", .num 0] ∧
        edgeView (gmlToIts (itsToGmlX false false true I)) q.2 q.1 = some (.tup [.num 2, .num 2]) ∧
        ∀ u, u ≠ q.2 → edgeView (gmlToIts (itsToGmlX false false true I)) u q.1 = none) ∧
      (∀ v ∈ I.ids, ((addedH I).map (·.2)).count v = (hcnt (I.attrs v)).toNat) := by
    intro I hs hc
    obtain ⟨a, b, c, d, e⟩ := roundtripX_full I hs hc
    obtain ⟨_, b', c', _⟩ := roundtripX I hs hc
    exact ⟨a, fun n hn => ⟨b n hn, b' n hn⟩, fun u hu v hv => ⟨c u hu v hv, c' u hu v hv⟩, d, e⟩
  cases core with
  | false =>
    obtain ⟨a, b, c, d, e⟩ := key I hs hc
    exact ⟨a, b, c, d, e, fun ri => itsToGmlX_sides false ri I⟩
  | true =>
    obtain ⟨a, b, c, d, e⟩ := key (getRc I) hs hc
    exact ⟨a, b, c, d, e, fun ri => itsToGmlX_sides true ri I⟩

/-- Non-vacuity for `itsToGmlX_roundtrip_partial`: the two-atom centre of the `gml_roundtrip` example
(C–O bond formed, O loses its charge) with three hydrogens on C and one on O: shape and
`standard_order` consistency hold, four hydrogens are added (ids 3..6; three on atom 1, one on
atom 2), they appear as context nodes and context edges of the written rule, and the re-imported
rule has the six atoms. -/
example :
    let I : LGraph :=
      { nodes := [(1, [("element", .str "C"), ("charge", .num 0), ("hcount", .num 6),
                       ("typesGH", .tup [.tup [.str "C", .bool false, .num 6, .num 0, .tup []],
                                         .tup [.str "C", .bool false, .num 6, .num 0, .tup []]])]),
                  (2, [("element", .str "O"), ("charge", .num (-2)), ("hcount", .num 2),
                       ("typesGH", .tup [.tup [.str "O", .bool false, .num 2, .num (-2), .tup []],
                                         .tup [.str "O", .bool false, .num 2, .num 0, .tup []]])])],
        edges := [(1, 2, [("order", .tup [.num 0, .num 2]), ("standard_order", .num (-2))])] }
    ItsShape I ∧ StdConsistent I ∧ typesDomain I = true ∧ addedH I = [(3, 1), (4, 1), (5, 1), (6, 2)] ∧
    (itsToGmlX false false true I).context =
      [.node 1 ['C'], .node 3 ['H'], .node 4 ['H'], .node 5 ['H'], .node 6 ['H'],
       .edge 1 3 ['-'], .edge 1 4 ['-'], .edge 1 5 ['-'], .edge 2 6 ['-']] ∧
    (gmlToIts (itsToGmlX false false true I)).ids = [2, 1, 3, 4, 5, 6] ∧
    edgeView (gmlToIts (itsToGmlX false false true I)) 1 2 = some (.tup [.num 0, .num 2]) ∧
    edgeView (gmlToIts (itsToGmlX false false true I)) 2 6 = some (.tup [.num 2, .num 2]) := by
  decide

/-- `StdConsistent` cannot be dropped: a bond that breaks, (1, 0), but claims `standard_order = 0` is
written into the context section and comes back as (1, 1). -/
example :
    let I : LGraph :=
      { nodes := [(1, [("element", .str "C"), ("charge", .num 0),
                       ("typesGH", .tup [.tup [.str "C", .bool false, .num 0, .num 0, .tup []],
                                         .tup [.str "C", .bool false, .num 0, .num 0, .tup []]])]),
                  (2, [("element", .str "O"), ("charge", .num 0),
                       ("typesGH", .tup [.tup [.str "O", .bool false, .num 0, .num 0, .tup []],
                                         .tup [.str "O", .bool false, .num 0, .num 0, .tup []]])])],
        edges := [(1, 2, [("order", .tup [.num 2, .num 0]), ("standard_order", .num 0)])] }
    ItsShape I ∧ ¬ StdConsistent I ∧ edgeView I 1 2 = some (.tup [.num 2, .num 0]) ∧
    edgeView (gmlToIts (itsToGml false false I)) 1 2 = some (.tup [.num 2, .num 0]) ∧
    edgeView (gmlToIts (itsToGmlX false false true I)) 1 2 = some (.tup [.num 2, .num 2]) := by
  decide

/-- **C10, ITS → GML (`explicit_hydrogen=True`) → ITS: the statement**, for both values of `reindex`.
`I'` is the exported graph (the centre for `core=True`), `f = renum ri I'` the renumbering the writer
applies to its atoms (`reindex=False`: none; `reindex=True`: `indexMap (side 0 I')`, position in the
node list + 1 — the map of `itsToGml_reindex` / `gml_roundtrip_reindexed`), `J = renumG ri I'` the
renumbered graph (`I'` itself for `reindex=False`) and `addedH J` the (new id, parent) pairs
`h_to_explicit` creates on it — the writer renumbers first and expands afterwards, so the new
hydrogens are numbered from the largest renumbered id + 1 and their parents are renumbered atoms.
For the rule written with `explicit_hydrogen=True` and read back by `gml_to_its`:
* its atoms are the renumbered atoms of `I'` and the new hydrogens;
* on the renumbered atoms it is `I'` — same (element, charge) before/after, same (before, after)
  order pair on every pair of atoms — and it is what the default round trip with the same `reindex`
  gives there;
* every new hydrogen is not one of the renumbered atoms, is `H`/0 on both sides, hangs on its parent
  (a renumbered atom) by a (1, 1) bond and has no other bond;
* every atom `v` of `I'` gets `hcount` of them (on `f v`);
* the `left` / `right` sections are those of the default export. -/
def ItsToGmlXRoundtrip (core ri : Bool) (I : LGraph) : Prop :=
  (∀ n, n ∈ (gmlToIts (itsToGmlX core ri true I)).ids ↔
    n ∈ (if core then getRc I else I).ids.map (renum ri (if core then getRc I else I)) ∨
    ∃ q ∈ addedH (renumG ri (if core then getRc I else I)), n = q.1) ∧
  (∀ n ∈ (if core then getRc I else I).ids,
    nodeView (gmlToIts (itsToGmlX core ri true I)) (renum ri (if core then getRc I else I) n) =
      nodeView (if core then getRc I else I) n ∧
    nodeView (gmlToIts (itsToGmlX core ri true I)) (renum ri (if core then getRc I else I) n) =
      nodeView (gmlToIts (itsToGml core ri I)) (renum ri (if core then getRc I else I) n)) ∧
  (∀ u ∈ (if core then getRc I else I).ids, ∀ v ∈ (if core then getRc I else I).ids,
    edgeView (gmlToIts (itsToGmlX core ri true I)) (renum ri (if core then getRc I else I) u)
        (renum ri (if core then getRc I else I) v) = edgeView (if core then getRc I else I) u v ∧
    edgeView (gmlToIts (itsToGmlX core ri true I)) (renum ri (if core then getRc I else I) u)
        (renum ri (if core then getRc I else I) v) =
      edgeView (gmlToIts (itsToGml core ri I)) (renum ri (if core then getRc I else I) u)
        (renum ri (if core then getRc I else I) v)) ∧
  (∀ q ∈ addedH (renumG ri (if core then getRc I else I)),
    q.1 ∉ (if core then getRc I else I).ids.map (renum ri (if core then getRc I else I)) ∧
    q.2 ∈ (if core then getRc I else I).ids.map (renum ri (if core then getRc I else I)) ∧
    nodeView (gmlToIts (itsToGmlX core ri true I)) q.1 = .tup [.str "H", .num 0, .str "H", .num 0] ∧
    edgeView (gmlToIts (itsToGmlX core ri true I)) q.2 q.1 = some (.tup [.num 2, .num 2]) ∧
    ∀ u, u ≠ q.2 → edgeView (gmlToIts (itsToGmlX core ri true I)) u q.1 = none) ∧
  (∀ v ∈ (if core then getRc I else I).ids,
    ((addedH (renumG ri (if core then getRc I else I))).map (·.2)).count (renum ri (if core then getRc I else I) v) =
      (hcnt ((if core then getRc I else I).attrs v)).toNat) ∧
  ((itsToGmlX core ri true I).left = (itsToGml core ri I).left ∧
    (itsToGmlX core ri true I).right = (itsToGml core ri I).right)

/-- **C10, ITS → GML (`explicit_hydrogen=True`, `reindex=True`) → ITS** — the gap named in
`itsToGmlX_roundtrip_partial`, with no id condition.  With `reindex=True` the writer renumbers the
atoms of `I'` `1..n` and then lets `h_to_explicit` expand the renumbered context graph, so the rule
is the `reindex=False` export of the renumbered ITS (`itsToGmlX_reindex`) and the new hydrogens get
the ids `n+1, …`: the two id ranges cannot meet.  The re-imported rule satisfies
`ItsToGmlXRoundtrip` with `ri = true`: the statement of the partial theorem for the renumbered graph,
read through the renumbering `indexMap (side 0 I')`.  (Before the repair of F44 the hydrogens were
added first, numbered from the original largest id, and the statement needed every new id to lie
above `n`; the input with atom ids 0, 1 below was the counterexample.) -/
theorem itsToGmlX_roundtrip_reindex (I : LGraph) (core : Bool) (hs : ItsShape (if core then getRc I else I))
    (hc : StdConsistent (if core then getRc I else I)) :
    ItsToGmlXRoundtrip core true I := by
  cases core with
  | false =>
    obtain ⟨a, b, c, d, e⟩ := roundtripX_reindex I hs hc
    exact ⟨a, b, c, d, e, itsToGmlX_sides false true I⟩
  | true =>
    obtain ⟨a, b, c, d, e⟩ := roundtripX_reindex (getRc I) hs hc
    exact ⟨a, b, c, d, e, itsToGmlX_sides true true I⟩

/-- **C10, ITS → GML (`explicit_hydrogen=True`) → ITS, both values of `reindex`** (sixth and seventh
clause of `C10.FullStatement` for the explicit-hydrogen export): `itsToGmlX_roundtrip_partial`
(`reindex=False`) and `itsToGmlX_roundtrip_reindex` (`reindex=True`) in one statement, under the
shape hypotheses only. -/
theorem itsToGmlX_roundtrip (I : LGraph) (core ri : Bool) (hs : ItsShape (if core then getRc I else I))
    (hc : StdConsistent (if core then getRc I else I)) :
    ItsToGmlXRoundtrip core ri I := by
  cases ri with
  | true => exact itsToGmlX_roundtrip_reindex I core hs hc
  | false =>
    obtain ⟨a, b, c, d, e, g⟩ := itsToGmlX_roundtrip_partial I core hs hc
    unfold ItsToGmlXRoundtrip
    simp only [renum_false, renumG_false, List.map_id, id_eq]
    exact ⟨a, b, c, d, e, g false⟩

/-- Non-vacuity for `itsToGmlX_roundtrip_reindex` / `itsToGmlX_roundtrip` with `reindex = true`: atoms
5, 9, 12 (not `1..n`; C–O bond formed, O loses its charge, an unchanged O–N bond), three hydrogens
on atom 5, one on atom 9.  The hypotheses hold; the atoms become 1, 2, 3 and the hydrogens get the
ids 4..7 (counted from 3), hanging on the renumbered parents 1 and 2; the re-imported rule has the
seven atoms, the changed bond between the renumbered atoms and the hydrogen bonds. -/
example :
    let I : LGraph :=
      { nodes := [(5, [("element", .str "C"), ("charge", .num 0), ("hcount", .num 6),
                       ("typesGH", .tup [.tup [.str "C", .bool false, .num 6, .num 0, .tup []],
                                         .tup [.str "C", .bool false, .num 6, .num 0, .tup []]])]),
                  (9, [("element", .str "O"), ("charge", .num (-2)), ("hcount", .num 2),
                       ("typesGH", .tup [.tup [.str "O", .bool false, .num 2, .num (-2), .tup []],
                                         .tup [.str "O", .bool false, .num 2, .num 0, .tup []]])]),
                  (12, [("element", .str "N"), ("charge", .num 0), ("hcount", .num 0),
                       ("typesGH", .tup [.tup [.str "N", .bool false, .num 0, .num 0, .tup []],
                                         .tup [.str "N", .bool false, .num 0, .num 0, .tup []]])])],
        edges := [(5, 9, [("order", .tup [.num 0, .num 2]), ("standard_order", .num (-2))]),
                  (9, 12, [("order", .tup [.num 2, .num 2]), ("standard_order", .num 0)])] }
    ItsShape I ∧ StdConsistent I ∧ addedH (renumG true I) = [(4, 1), (5, 1), (6, 1), (7, 2)] ∧
    I.ids.map (renum true I) = [1, 2, 3] ∧
    (itsToGmlX false true true I).context =
      [.node 1 ['C'], .node 3 ['N'], .node 4 ['H'], .node 5 ['H'], .node 6 ['H'], .node 7 ['H'],
       .edge 2 3 ['-'], .edge 1 4 ['-'], .edge 1 5 ['-'], .edge 1 6 ['-'], .edge 2 7 ['-']] ∧
    (gmlToIts (itsToGmlX false true true I)).ids = [2, 3, 1, 4, 5, 6, 7] ∧
    edgeView (gmlToIts (itsToGmlX false true true I)) 1 2 = some (.tup [.num 0, .num 2]) ∧
    edgeView (gmlToIts (itsToGmlX false true true I)) 2 3 = some (.tup [.num 2, .num 2]) ∧
    edgeView (gmlToIts (itsToGmlX false true true I)) 2 7 = some (.tup [.num 2, .num 2]) := by
  decide

/-- The former counterexample (F44) now round-trips: the two-atom centre numbered 0, 1 with one
hydrogen on each atom.  `reindex=True` renumbers the atoms 0 ↦ 1, 1 ↦ 2 and `h_to_explicit` then gives
the hydrogens the ids 3, 4 (before the repair: 2, 3, computed from the original ids, so hydrogen 2
and the renumbered oxygen shared an id and the re-imported rule had three atoms and an unchanged
C–O bond).  The re-imported rule has the four atoms, atom 2 is the oxygen, the C–O bond that is
*formed*, (0, 1), comes back as such — as in the default export with `reindex=True` — and each
hydrogen hangs on its parent. -/
example :
    let I : LGraph :=
      { nodes := [(0, [("element", .str "C"), ("charge", .num 0), ("hcount", .num 2),
                       ("typesGH", .tup [.tup [.str "C", .bool false, .num 2, .num 0, .tup []],
                                         .tup [.str "C", .bool false, .num 2, .num 0, .tup []]])]),
                  (1, [("element", .str "O"), ("charge", .num (-2)), ("hcount", .num 2),
                       ("typesGH", .tup [.tup [.str "O", .bool false, .num 2, .num (-2), .tup []],
                                         .tup [.str "O", .bool false, .num 2, .num 0, .tup []]])])],
        edges := [(0, 1, [("order", .tup [.num 0, .num 2]), ("standard_order", .num (-2))])] }
    ItsShape I ∧ StdConsistent I ∧ addedH I = [(2, 0), (3, 1)] ∧ addedH (renumG true I) = [(3, 1), (4, 2)] ∧
    I.ids.map (renum true I) = [1, 2] ∧
    (gmlToIts (itsToGmlX false true true I)).ids = [2, 1, 3, 4] ∧
    nodeView (gmlToIts (itsToGmlX false true true I)) 2 = .tup [.str "O", .num (-2), .str "O", .num 0] ∧
    (itsToGmlX false true true I).context = [.node 1 ['C'], .node 3 ['H'], .node 4 ['H'], .edge 1 3 ['-'], .edge 2 4 ['-']] ∧
    edgeView I 0 1 = some (.tup [.num 0, .num 2]) ∧
    edgeView (gmlToIts (itsToGml false true I)) 1 2 = some (.tup [.num 0, .num 2]) ∧
    edgeView (gmlToIts (itsToGmlX false true true I)) 1 2 = some (.tup [.num 0, .num 2]) ∧
    edgeView (gmlToIts (itsToGmlX false true true I)) 1 3 = some (.tup [.num 2, .num 2]) ∧
    edgeView (gmlToIts (itsToGmlX false true true I)) 2 4 = some (.tup [.num 2, .num 2]) := by
  decide

end ReprOpt

open SynKit.Repr SynKit.Gml in
/-- The first nine conjuncts of `C10.FullStatement`, all proved. -/
theorem C10.clauses_1_to_9 :
    (∀ M : Mol, M.WF → graphToMol (molToGraph M) = .ok M.out) ∧
    (∀ G : LGraph, G.WF → HTyped G → NoHeavyBoundH G → hToImplicit (hToExplicit G) = G) ∧
    (∀ G : LGraph, totalH (hToExplicit G) = totalH G) ∧
    (∀ G : LGraph, G.WF → HTyped G → HValence G → totalH (hToImplicit G) = totalH G) ∧
    (∀ e c, alpha e → parseLabel (render e c) = (e, c)) ∧
    (∀ (I : LGraph) (core : Bool), ItsShape (if core then getRc I else I) →
        RuleEq (gmlToIts (itsToGml core false I)) (if core then getRc I else I)) ∧
    (∀ (I : LGraph) (core : Bool), ItsShape (if core then getRc I else I) →
        ∃ m, Match.IsIso ⟨["v"], ["o"], false⟩ (viewGraph (if core then getRc I else I))
          (viewGraph (gmlToIts (itsToGml core true I))) m) ∧
    (∀ (r p : LGraph) (ri : Bool), smartToGml true ri r p = itsToGml true ri (construct r p)) ∧
    (∀ (I : LGraph) (ri : Bool), itsToGml true ri (getRc I) = itsToGml true ri I) :=
  ⟨Repr.graphToMol_molToGraph, Repr.hToImplicit_hToExplicit, Repr.totalH_hToExplicit, Repr.totalH_hToImplicit,
    fun e c he => Gml.label_roundtrip e c he, Gml.gml_roundtrip, Gml.gml_roundtrip_reindexed,
    Gml.gml_two_ways_core, Gml.gml_two_ways_centre⟩

open SynKit.Gml in
/-- The last conjunct of `C10.FullStatement` is false as written: the reactant C–O with a single
bond and the product C–O whose bond carries no `order` attribute satisfy its hypotheses (their ITS
has the required shape because `ITSGraph` reads the missing order as 0), but `smart_to_gml` writes
the product bond with the writer's default label `-` (order 1) whereas the ITS route drops it, so
the re-imported rules have order pairs (1, 1) and (1, 0) on that bond.  `rsmi_to_graph` never
produces such a bond; `gml_two_ways_full` assumes `MolShape` for that reason. -/
theorem C10.last_clause_needs_molShape :
    ¬ (∀ (r p : LGraph) (ri : Bool), ItsShape (construct r p) → r.ids = p.ids →
        ∃ m, Match.IsIso ⟨["v"], ["o"], false⟩ (viewGraph (gmlToIts (smartToGml false ri r p)))
          (viewGraph (gmlToIts (itsToGml false ri (construct r p)))) m) := by
  intro hall
  let r : LGraph := { nodes := [(1, [("element", .str "C"), ("charge", .num 0)]), (2, [("element", .str "O"), ("charge", .num 0)])],
                      edges := [(1, 2, [("order", .num 2)])] }
  let p : LGraph := { nodes := [(1, [("element", .str "C"), ("charge", .num 0)]), (2, [("element", .str "O"), ("charge", .num 0)])],
                      edges := [(1, 2, [])] }
  have hH : (viewGraph (gmlToIts (smartToGml false false r p))).edges = [(1, 2, [("o", .tup [.num 2, .num 2])])] := by
    decide
  have hP : (1, 2, [("o", Val.tup [.num 2, .num 0])]) ∈
      (viewGraph (gmlToIts (itsToGml false false (construct r p)))).edges := by decide
  obtain ⟨m, ⟨⟨_, _, _, hedge⟩, _⟩, _⟩ := hall r p false (by decide) (by decide)
  obtain ⟨hu, hv, ea, _, _, h3, h4⟩ := hedge _ hP
  obtain ⟨e, he, rfl, _⟩ := Match.edge?_some_mem _ _ _ _ h3
  rw [hH] at he
  simp only [List.mem_singleton] at he
  subst he
  revert h4
  decide

open SynKit.Repr SynKit.Gml in
/-- C10 at full strength over the model, with the last clause stated for the graphs
`rsmi_to_graph` delivers. -/
def C10.FullStatementMol : Prop :=
  (∀ M : Mol, M.WF → graphToMol (molToGraph M) = .ok M.out) ∧
  (∀ G : LGraph, G.WF → HTyped G → NoHeavyBoundH G → hToImplicit (hToExplicit G) = G) ∧
  (∀ G : LGraph, totalH (hToExplicit G) = totalH G) ∧
  (∀ G : LGraph, G.WF → HTyped G → HValence G → totalH (hToImplicit G) = totalH G) ∧
  (∀ e c, alpha e → parseLabel (render e c) = (e, c)) ∧
  (∀ (I : LGraph) (core : Bool), ItsShape (if core then getRc I else I) →
      RuleEq (gmlToIts (itsToGml core false I)) (if core then getRc I else I)) ∧
  (∀ (I : LGraph) (core : Bool), ItsShape (if core then getRc I else I) →
      ∃ m, Match.IsIso ⟨["v"], ["o"], false⟩ (viewGraph (if core then getRc I else I))
        (viewGraph (gmlToIts (itsToGml core true I))) m) ∧
  (∀ (r p : LGraph) (ri : Bool), smartToGml true ri r p = itsToGml true ri (construct r p)) ∧
  (∀ (I : LGraph) (ri : Bool), itsToGml true ri (getRc I) = itsToGml true ri I) ∧
  (∀ (r p : LGraph) (ri : Bool), MolShape r → MolShape p → r.ids = p.ids → ItsShape (construct r p) →
      ∃ m, Match.IsIso ⟨["v"], ["o"], false⟩ (viewGraph (gmlToIts (smartToGml false ri r p)))
        (viewGraph (gmlToIts (itsToGml false ri (construct r p)))) m)

/-- **C10, every clause.** -/
theorem C10.fullStatementMol : C10.FullStatementMol :=
  ⟨Repr.graphToMol_molToGraph, Repr.hToImplicit_hToExplicit, Repr.totalH_hToExplicit, Repr.totalH_hToImplicit,
    fun e c he => Gml.label_roundtrip e c he, Gml.gml_roundtrip, Gml.gml_roundtrip_reindexed,
    Gml.gml_two_ways_core, Gml.gml_two_ways_centre, Gml.gml_two_ways_full⟩

end SynKit

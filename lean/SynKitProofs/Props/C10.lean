import SynKitModel.Repr
import SynKitModel.Gml
import SynKitModel.Match
import SynKitProofs.ReprLemmas
import SynKitProofs.ReprHLemmas
import SynKitProofs.ImplicitHLemmas
import SynKitProofs.GmlLemmas
import SynKitProofs.GmlRcLemmas
import SynKitProofs.GmlIsoLemmas
import SynKitProofs.GmlReaderLemmas
import SynKitProofs.GmlReindexLemmas
import SynKitProofs.GmlSmartLemmas
/-!
# C10 — changing representation (SMILES ↔ graph, explicit ↔ implicit hydrogens, ITS ↔ GML) loses nothing

Property theorems only; helper lemmas live in `SynKitProofs/ReprLemmas.lean`,
`SynKitProofs/ReprHLemmas.lean`, `SynKitProofs/GmlLemmas.lean` and `SynKitProofs/Gml{Rc,Iso,Reader,Reindex,Smart}Lemmas.lean`.  RDKit (SMILES parsing / printing, sanitisation, aromaticity) is
external: a molecule is its atom/bond table, and the SMILES clause of the property rests on the
correspondence check (`harness/props/c10.py`, stream (a)).
-/
namespace SynKit

open SynKit.Repr SynKit.Gml in
/-- C10 at full strength over the model, as first written down.  Its first nine conjuncts are proved
(`C10.clauses_1_to_9` at the end of this file; the single theorems are `graphToMol_molToGraph`,
`hToImplicit_hToExplicit`, `totalH_hToExplicit`, `totalH_hToImplicit`, `label_roundtrip`,
`gml_roundtrip`, `gml_roundtrip_reindexed`, `gml_two_ways_core`, `gml_two_ways_centre`).  The last
conjunct (full, non-core export: reaction string vs ITS) is **false as written**
(`C10.last_clause_needs_molShape`: a product graph with a bond lacking `order` satisfies its
hypotheses and the two routes differ); it holds, and is proved, for the graphs `rsmi_to_graph`
delivers (`MolShape`: `gml_two_ways_full`).  `C10.FullStatementMol` is the corrected statement and
`C10.fullStatementMol` its proof. -/
def C10.FullStatement : Prop :=
  -- 1. the part of the table the code can carry survives table → graph → table
  (∀ M : Mol, M.WF → graphToMol (molToGraph M) = .ok M.out) ∧
  -- 2. explicit then implicit restores the graph (guard: no explicit H bonded to a heavy atom)
  (∀ G : LGraph, G.WF → HTyped G → NoHeavyBoundH G → hToImplicit (hToExplicit G) = G) ∧
  -- 3./4. neither direction changes the total hydrogen count
  (∀ G : LGraph, totalH (hToExplicit G) = totalH G) ∧
  (∀ G : LGraph, G.WF → HTyped G → HValence G → totalH (hToImplicit G) = totalH G) ∧
  -- 5. element + charge labels
  (∀ e c, alpha e → parseLabel (render e c) = (e, c)) ∧
  -- 6. ITS → GML → ITS keeps atoms, charges, (before, after) orders; core and full export
  (∀ (I : LGraph) (core : Bool), ItsShape (if core then getRc I else I) →
      RuleEq (gmlToIts (itsToGml core false I)) (if core then getRc I else I)) ∧
  -- 7. … and up to renumbering when ids are re-indexed
  (∀ (I : LGraph) (core : Bool), ItsShape (if core then getRc I else I) →
      ∃ m, Match.IsIso ⟨["v"], ["o"], false⟩ (viewGraph (if core then getRc I else I))
        (viewGraph (gmlToIts (itsToGml core true I))) m) ∧
  -- 8. the routes agree: reaction string vs ITS (full or centre), core export; and full export
  (∀ (r p : LGraph) (ri : Bool), smartToGml true ri r p = itsToGml true ri (construct r p)) ∧
  (∀ (I : LGraph) (ri : Bool), itsToGml true ri (getRc I) = itsToGml true ri I) ∧
  (∀ (r p : LGraph) (ri : Bool), ItsShape (construct r p) → r.ids = p.ids →
      ∃ m, Match.IsIso ⟨["v"], ["o"], false⟩ (viewGraph (gmlToIts (smartToGml false ri r p)))
        (viewGraph (gmlToIts (itsToGml false ri (construct r p)))) m)

namespace Repr

/-- **C10, table clause.** For a table as RDKit delivers it (bonds between existing atoms, one of
the four standard bond types) `graph_to_mol(mol_to_graph(M))` hands RDKit exactly the element,
charge, map number and total hydrogen count of every atom (in order) and every bond with its
type (1.5 ↔ aromatic included).  Only the aromatic *flag* is not carried back (RDKit recomputes
it), which is why `Mol.out` omits it. -/
theorem graphToMol_molToGraph (M : Mol) (h : M.WF) : graphToMol (molToGraph M) = .ok M.out :=
  graphToMol_molToGraph' M h

/-- **C10, hydrogens: round trip.**  If no explicit hydrogen is bonded to a heavy atom
(`has_XH(G)` is false) and no hydrogen node carries a count of its own, then making the
hydrogens explicit and implicit again gives back *the same graph* (same nodes in the same order
with the same attribute dicts, same edges).  Hydrogens without a heavy neighbour (H₂, H⁺) are
kept — this is the F18 repair the model follows. -/
theorem hToImplicit_hToExplicit (G : LGraph) (hwf : G.WF) (ht : HTyped G) (hg : NoHeavyBoundH G) :
    hToImplicit (hToExplicit G) = G := hToImplicit_hToExplicit' G hwf ht hg

/-- **C10, hydrogens: count, implicit → explicit.**  No guard at all. -/
theorem totalH_hToExplicit (G : LGraph) : totalH (hToExplicit G) = totalH G := totalH_hToExplicit' G

/-- **C10, hydrogens: count, explicit → implicit — partial** (kept for the record; the full
statement is `totalH_hToImplicit` below).  Proved on the graphs
`hToExplicit G` under the guard of the round trip.  Missing: the statement for an arbitrary
graph with monovalent, count-free hydrogens (`HValence`, fourth clause of `C10.FullStatement`);
that case is gated by the correspondence (Lean evaluates `totalH` and `HValence` on what the
implementation returned). -/
theorem totalH_roundtrip_partial (G : LGraph) (hwf : G.WF) (ht : HTyped G) (hg : NoHeavyBoundH G) :
    totalH (hToImplicit (hToExplicit G)) = totalH (hToExplicit G) := by
  rw [hToImplicit_hToExplicit' G hwf ht hg, totalH_hToExplicit']

/-- **C10, hydrogens: count, explicit → implicit** (fourth clause of `C10.FullStatement`, in full;
supersedes `totalH_roundtrip_partial`).  On *any* well-formed graph whose hydrogen nodes carry no
count of their own and have at most one heavy neighbour (`HValence`), `h_to_implicit` keeps the
total hydrogen count: a hydrogen with a heavy neighbour is removed and that neighbour's count goes
up by one; a hydrogen with only hydrogen neighbours (or none) stays (F18 repair).  `HTyped` is
not needed by the proof and kept only to match the clause. -/
theorem totalH_hToImplicit (G : LGraph) (hwf : G.WF) (ht : HTyped G) (hv : HValence G) :
    totalH (hToImplicit G) = totalH G := totalH_hToImplicit' G hwf ht hv

/-- Non-vacuity: CH₃–H with the fourth hydrogen explicit, next to H₂: the guard holds, the explicit
hydrogen is really folded in (node 5 disappears), H₂ stays, and the count is 6 before and after. -/
example :
    let G : LGraph := { nodes := [(1, [("element", .str "C"), ("hcount", .num 6)]),
                                  (5, [("element", .str "H"), ("hcount", .num 0)]),
                                  (6, [("element", .str "H"), ("hcount", .num 0)]),
                                  (7, [("element", .str "H"), ("hcount", .num 0)])],
                        edges := [(1, 5, [("order", .num 2)]), (6, 7, [("order", .num 2)])] }
    G.WF ∧ HTyped G ∧ HValence G ∧ (hToImplicit G).ids = [1, 6, 7] ∧ totalH G = 6 ∧ totalH (hToImplicit G) = 6 := by
  decide

/-- **C10, hydrogens: count, `implicit_hydrogen`** (the function `graph_to_smi(g, preserve_atom_maps)`
applies; model `implicitHydrogen`, which follows the F29 repair, draft fix 0022).  On a simple graph
whose hydrogen nodes carry no count of their own and have at most one heavy neighbour (`HValence`,
the guard of `totalH_hToImplicit`), folding the non-preserved hydrogens into their heavy neighbours
keeps the number of hydrogens of the molecule, for *every* `preserve` list: hydrogens without heavy
neighbour (H2, H+, H-, H·) are not removed.  No typing guard is needed. -/
theorem totalH_implicitHydrogen (G : LGraph) (preserve : List Nat) (hwf : G.WF) (hv : HValence G) :
    totalH (implicitHydrogen G preserve) = totalH G :=
  ImplH.totalH_implicitH G hwf preserve (ImplH.foldGuard_of_hValence G preserve hv)

/-- **C10, hydrogens: `implicit_hydrogen` keeps free hydrogens** (F29 repair).  A hydrogen node
without a non-hydrogen neighbour is a node of the result, with its whole attribute dict, whatever
the `preserve` list is. -/
theorem implicitHydrogen_free_hydrogen_stays (G : LGraph) (preserve : List Nat) (hn : G.ids.Nodup)
    (p : Nat × Attrs) (hp : p ∈ G.nodes) (hH : isH p.2 = true) (hf : hasHeavyNbr G p.1 = false) :
    p.1 ∈ (implicitHydrogen G preserve).ids ∧ (implicitHydrogen G preserve).attrs p.1 = p.2 := by
  have hattr := attrs_eq_of_mem G hn p hp
  have hmem : p.1 ∈ (implicitHydrogen G preserve).ids :=
    (ImplH.mem_implicitH_ids G hn preserve p.1).2
      ⟨List.mem_map.2 ⟨p, hp, rfl⟩, (ImplH.stays_iff G hn preserve p.1).2 (Or.inr (Or.inr hf))⟩
  exact ⟨hmem, by rw [ImplH.implicitH_attrs_H G hn preserve p.1 hmem (by rw [hattr]; exact hH), hattr]⟩

/-- Non-vacuity: CH₃–H with the fourth hydrogen explicit, next to H₂ and H⁺, none of them preserved
(`preserve = [99]`): the guard holds, the bonded hydrogen is really folded in (node 5 disappears),
H₂ and H⁺ stay, the H–H bond stays, and the count is 7 before and after. -/
example :
    let G : LGraph := { nodes := [(1, [("element", .str "C"), ("hcount", .num 6), ("atom_map", .num 2)]),
                                  (5, [("element", .str "H"), ("hcount", .num 0), ("atom_map", .num 10)]),
                                  (6, [("element", .str "H"), ("hcount", .num 0), ("atom_map", .num 12)]),
                                  (7, [("element", .str "H"), ("hcount", .num 0), ("atom_map", .num 14)]),
                                  (9, [("element", .str "H"), ("hcount", .num 0), ("charge", .num 2), ("atom_map", .num 18)])],
                        edges := [(1, 5, [("order", .num 2)]), (6, 7, [("order", .num 2)])] }
    G.WF ∧ HValence G ∧ implDomain G = true ∧ hasHeavyNbr G 5 = true ∧ hasHeavyNbr G 6 = false ∧ hasHeavyNbr G 9 = false ∧
      (implicitHydrogen G [99]).ids = [1, 6, 7, 9] ∧ hcnt ((implicitHydrogen G [99]).attrs 1) = 4 ∧
      (implicitHydrogen G [99]).edges.map (fun e => (e.1, e.2.1)) = [(6, 7)] ∧
      totalH G = 7 ∧ totalH (implicitHydrogen G [99]) = 7 := by
  decide

/-- The first half of the guard is literally `has_XH`: it is false iff every bond joins two
hydrogens or two heavy atoms. -/
theorem hasXH_false_iff (G : LGraph) :
    hasXH G = false ↔ ∀ e ∈ G.edges, isH (G.attrs e.1) = isH (G.attrs e.2.1) := by
  simp only [hasXH, List.any_eq_false]
  constructor
  · intro h e he
    have := h e he
    cases h1 : isH (G.attrs e.1) <;> cases h2 : isH (G.attrs e.2.1) <;> simp [h1, h2] at this ⊢
  · intro h e he
    rw [h e he]; cases isH (G.attrs e.2.1) <;> simp

/-- Non-vacuity: CH₄ next to H₂ and H⁺ satisfies every hypothesis, and is really expanded
(4 new hydrogen nodes). -/
example :
    let G : LGraph := { nodes := [(1, [("element", .str "C"), ("hcount", .num 8)]),
                                  (5, [("element", .str "H"), ("hcount", .num 0)]),
                                  (6, [("element", .str "H"), ("hcount", .num 0)]),
                                  (9, [("element", .str "H"), ("hcount", .num 0), ("charge", .num 2)])],
                        edges := [(5, 6, [("order", .num 2)])] }
    G.WF ∧ HTyped G ∧ NoHeavyBoundH G ∧ (hToExplicit G).ids = [1, 5, 6, 9, 10, 11, 12, 13] ∧ totalH G = 7 := by
  decide

example : (⟨[⟨"N", 1, 0, 3, false⟩, ⟨"C", 0, 7, 3, false⟩], [⟨0, 1, 2⟩]⟩ : Mol).WF := by decide

end Repr

namespace Gml

/-- **C10, labels.**  For an element string over `[A-Za-z*]` (non-empty) and any integer charge,
parsing the label the writer emits (`O-`, `N2+`, `Cl`, `Mg12-`, …) gives back element and charge. -/
theorem label_roundtrip (e : List Char) (c : Int) (he : alpha e) : parseLabel (render e c) = (e, c) :=
  label_roundtrip' e c he

/-- Bond labels: the four standard orders survive `-`, `:`, `=`, `#`. -/
theorem orderLabel_roundtrip (h : Int) (hh : h = 2 ∨ h = 3 ∨ h = 4 ∨ h = 6) :
    labelOrder (orderLabel (.num h)) = .num h := orderLabel_roundtrip' h hh

/-- **C10, ITS → GML → ITS — partial (token level)** (kept for the record; the full statements are
`gml_roundtrip` and `gml_roundtrip_reindexed` below).  For an ITS graph of the shape
`ITSGraph` / `get_rc` produce, exported in full with ids kept, the written rule contains
everything the property names, in a form the reader's own label functions invert:

* every atom `n` with view `(e, c, e, c')` appears as a `context` node labelled `render e c`
  when its charge does not change, and otherwise as a `left` node labelled `render e c` and a
  `right` node labelled `render e c'`; by `label_roundtrip` these parse back to `(e, c)`, `(e, c')`;
* every bond with order pair `(x, y)` appears in `left` with the label of `x` iff `x ≠ 0` and in
  `right` with the label of `y` iff `y ≠ 0`; by `orderLabel_roundtrip` these parse back to `x`, `y`.

Missing for the sixth clause of `C10.FullStatement`: that `gmlToIts` (sequential `add_node` /
`add_edge`, `_synchronize_nodes_and_edges`, `ITSGraph`) reassembles exactly these tokens into a
graph with the same `nodeView` / `edgeView`, and the reduction of the core export to the full
export of the centre.  Both are checked on every generated case by the correspondence (model
reader = implementation reader; `ruleEqb` on the re-imported graph). -/
theorem gml_roundtrip_partial (I : LGraph) (hs : ItsShape I) :
    (∀ p ∈ I.nodes, ∃ e c c', alpha e.toList ∧ nodeView I p.1 = .tup [.str e, .num c, .str e, .num c'] ∧
      parseLabel (render e.toList (c / 2)) = (e.toList, c / 2) ∧
      parseLabel (render e.toList (c' / 2)) = (e.toList, c' / 2) ∧
      (if c = c' then Item.node p.1 (render e.toList (c / 2)) ∈ (itsToGml false false I).context
       else Item.node p.1 (render e.toList (c / 2)) ∈ (itsToGml false false I).left ∧
            Item.node p.1 (render e.toList (c' / 2)) ∈ (itsToGml false false I).right)) ∧
    (∀ ed ∈ I.edges, ∃ x y, Attrs.get ed.2.2 "order" = .tup [.num x, .num y] ∧
      (x ≠ 0 → Item.edge ed.1 ed.2.1 (orderLabel (.num x)) ∈ (itsToGml false false I).left ∧
               labelOrder (orderLabel (.num x)) = .num x) ∧
      (y ≠ 0 → Item.edge ed.1 ed.2.1 (orderLabel (.num y)) ∈ (itsToGml false false I).right ∧
               labelOrder (orderLabel (.num y)) = .num y)) := by
  constructor
  · intro p hp
    obtain ⟨e, c, c', ha, hv, hmem⟩ := writer_nodes I hs p hp
    exact ⟨e, c, c', ha, hv, label_roundtrip' _ _ ha, label_roundtrip' _ _ ha, hmem⟩
  · intro ed he
    obtain ⟨x, y, _, ho, hx, hy, hl, hr⟩ := writer_edges I hs ed he
    have std : ∀ z : Int, stdOrder z = true → z ≠ 0 → (z = 2 ∨ z = 3 ∨ z = 4 ∨ z = 6) := by
      intro z hz h0
      simp only [stdOrder, Bool.or_eq_true, decide_eq_true_eq] at hz
      omega
    exact ⟨x, y, ho, fun h0 => ⟨hl h0, orderLabel_roundtrip' x (std x hx h0)⟩,
      fun h0 => ⟨hr h0, orderLabel_roundtrip' y (std y hy h0)⟩⟩

/-- **C10, two routes (core export).**  The rule written from the reaction string's two graphs
*is* the rule written from their ITS with `core=True`: identical tokens, not merely equivalent. -/
theorem gml_two_ways_core (r p : LGraph) (ri : Bool) :
    smartToGml true ri r p = itsToGml true ri (construct r p) := rfl

/-- **C10, two routes (full ITS vs centre).**  With `core=True` the export of a full ITS is by
definition the full export of its centre — the F8 repair: left, right *and context* come from the
centre. -/
theorem gml_two_ways_full_is_centre (I : LGraph) (ri : Bool) :
    itsToGml true ri I = itsToGml false ri (getRc I) := rfl

/-- **C10, two routes (centre supplied) — partial** (kept for the record; `gml_two_ways_centre` below
has no hypothesis).  Supplying the centre instead of the full
ITS gives identical tokens *provided* extracting the centre of a centre changes nothing.
Missing: `getRc (getRc I) = getRc I` itself (idempotence of `get_rc`, the subject of C02); it
is exercised by correspondence stream (d) on every corpus reaction and renumbering. -/
theorem gml_two_ways_centre_partial (I : LGraph) (ri : Bool) (hidem : getRc (getRc I) = getRc I) :
    itsToGml true ri (getRc I) = itsToGml true ri I := by
  simp only [itsToGml, if_true, hidem]

/-- **`get_rc` is idempotent** (the `get_rc` the GML entry points call, default options): extracting
the centre of a centre gives back *the same graph* — same nodes in the same order with the same
attribute dicts, same edges — for every input graph (no well-formedness needed). -/
theorem getRc_idem (I : LGraph) : getRc (getRc I) = getRc I := getRc_idem' I

/-- **C10, two routes (centre supplied).**  Supplying the centre instead of the full ITS gives
identical tokens, with or without re-indexing (ninth clause of `C10.FullStatement`). -/
theorem gml_two_ways_centre (I : LGraph) (ri : Bool) : itsToGml true ri (getRc I) = itsToGml true ri I :=
  gml_two_ways_centre_partial I ri (getRc_idem I)

/-- **C10, ITS → GML → ITS** (sixth clause of `C10.FullStatement`), core and full export, ids kept.
The graph the reader assembles from the written rule — sequential `add_node` / `add_edge` per
section, `_synchronize_nodes_and_edges`, `ITSGraph` — is the same rule as the exported graph (the
centre, for `core=True`): same atoms, same (element, charge) before and after on every atom, same
(before, after) order pair on every pair of atoms. -/
theorem gml_roundtrip (I : LGraph) (core : Bool) (hs : ItsShape (if core then getRc I else I)) :
    RuleEq (gmlToIts (itsToGml core false I)) (if core then getRc I else I) := by
  cases core with
  | false => exact gml_roundtrip_full' I hs
  | true => exact gml_roundtrip_full' (getRc I) hs

/-- **C10, ITS → GML → ITS, re-indexed** (seventh clause of `C10.FullStatement`).  With
`reindex=True` the re-imported graph is the exported one up to the re-indexing bijection: their
view graphs (node label = (element, charge) before/after, edge label = order pair) are isomorphic. -/
theorem gml_roundtrip_reindexed (I : LGraph) (core : Bool) (hs : ItsShape (if core then getRc I else I)) :
    ∃ m, Match.IsIso ⟨["v"], ["o"], false⟩ (viewGraph (if core then getRc I else I))
      (viewGraph (gmlToIts (itsToGml core true I))) m := by
  have key : ∀ I : LGraph, ItsShape I →
      ∃ m, Match.IsIso viewSel (viewGraph I) (viewGraph (gmlToIts (itsToGml false true I))) m := by
    intro I hs
    have hf := injOn_indexMap I hs
    rw [itsToGml_reindex I hs]
    exact isIso_of_ruleEq_relabel I _ hs.1 _ hf
      (gml_roundtrip_full' _ (itsShape_relabel I hs _ hf)) (closed_gmlToIts _)
      (fun e he a ha => construct_order_consistent _ _ e he a ha)
  cases core with
  | false => exact key I hs
  | true => exact key (getRc I) hs

/-- **C10, reaction string → GML → ITS.**  The rule `smart_to_gml` writes from the two molecule
graphs of a reaction (full export, ids kept) reads back as the ITS graph of these two graphs. -/
theorem gml_smart_roundtrip (r p : LGraph) (hr : MolShape r) (hp : MolShape p) (hid : r.ids = p.ids)
    (hs : ItsShape (construct r p)) : RuleEq (gmlToIts (smartToGml false false r p)) (construct r p) :=
  smart_roundtrip' r p hr hp hid hs

/-- **C10, two routes (full export).**  For the two molecule graphs `rsmi_to_graph` delivers
(`MolShape`: a NetworkX graph, every atom with an element and an integer charge, every bond with a
standard order; same atoms on both sides), the rule written from the reaction string and the rule
written from the ITS graph of the same two graphs — both in full, with or without re-indexing —
read back as isomorphic rules.  (The tokens themselves differ: the `right` section lists the
product's bonds in the product's own order and orientation on one route, in ITS order on the
other.)  `MolShape` cannot be dropped: `C10.last_clause_needs_molShape`. -/
theorem gml_two_ways_full (r p : LGraph) (ri : Bool) (hr : MolShape r) (hp : MolShape p) (hid : r.ids = p.ids)
    (hs : ItsShape (construct r p)) :
    ∃ m, Match.IsIso ⟨["v"], ["o"], false⟩ (viewGraph (gmlToIts (smartToGml false ri r p)))
      (viewGraph (gmlToIts (itsToGml false ri (construct r p)))) m :=
  two_ways_full' r p ri hr hp hid hs

/-- Non-vacuity for `gml_roundtrip*` / `gml_two_ways_full`: a C–O bond that becomes a double bond
while O loses its charge.  The two molecule graphs have the required shape, so has their ITS, its
centre is non-trivial, and the two routes really write different token lists (`right` section). -/
example :
    let r : LGraph := { nodes := [(1, [("element", .str "C"), ("charge", .num 0)]),
                                  (2, [("element", .str "O"), ("charge", .num (-2))]),
                                  (3, [("element", .str "N"), ("charge", .num 0)])],
                        edges := [(1, 2, [("order", .num 2)]), (1, 3, [("order", .num 2)])] }
    let p : LGraph := { nodes := [(1, [("element", .str "C"), ("charge", .num 0)]),
                                  (2, [("element", .str "O"), ("charge", .num 0)]),
                                  (3, [("element", .str "N"), ("charge", .num 0)])],
                        edges := [(3, 1, [("order", .num 2)]), (2, 1, [("order", .num 4)])] }
    MolShape r ∧ MolShape p ∧ r.ids = p.ids ∧ ItsShape (construct r p) ∧ ItsShape (getRc (construct r p)) ∧
    (getRc (construct r p)).ids = [1, 2] ∧
    smartToGml false false r p ≠ itsToGml false false (construct r p) ∧
    ruleEqb (gmlToIts (smartToGml false true r p)) (gmlToIts (itsToGml false true (construct r p))) = true := by
  decide

/-- Non-vacuity: a two-atom centre (C–O bond formed, O loses its charge) has the required shape,
its element strings satisfy `alpha`, and the written rule has the expected tokens. -/
example :
    let I : LGraph :=
      { nodes := [(1, [("element", .str "C"), ("charge", .num 0),
                       ("typesGH", .tup [.tup [.str "C", .bool false, .num 6, .num 0, .tup []],
                                         .tup [.str "C", .bool false, .num 6, .num 0, .tup []]])]),
                  (2, [("element", .str "O"), ("charge", .num (-2)),
                       ("typesGH", .tup [.tup [.str "O", .bool false, .num 0, .num (-2), .tup []],
                                         .tup [.str "O", .bool false, .num 0, .num 0, .tup []]])])],
        edges := [(1, 2, [("order", .tup [.num 0, .num 2]), ("standard_order", .num (-2))])] }
    ItsShape I ∧ itsToGml false false I =
      { left := [.node 2 ['O', '-']], context := [.node 1 ['C']], right := [.edge 1 2 ['-'], .node 2 ['O']] } ∧
    ruleEqb (gmlToIts (itsToGml false false I)) I = true := by
  decide

example : alpha "Cl".toList ∧ parseLabel (render "Mg".toList 12) = ("Mg".toList, 12) := by decide

end Gml
open SynKit.Repr SynKit.Gml in
/-- The first nine conjuncts of `C10.FullStatement`, all proved. -/
theorem C10.clauses_1_to_9 :
    (∀ M : Mol, M.WF → graphToMol (molToGraph M) = .ok M.out) ∧
    (∀ G : LGraph, G.WF → HTyped G → NoHeavyBoundH G → hToImplicit (hToExplicit G) = G) ∧
    (∀ G : LGraph, totalH (hToExplicit G) = totalH G) ∧
    (∀ G : LGraph, G.WF → HTyped G → HValence G → totalH (hToImplicit G) = totalH G) ∧
    (∀ e c, alpha e → parseLabel (render e c) = (e, c)) ∧
    (∀ (I : LGraph) (core : Bool), ItsShape (if core then getRc I else I) →
        RuleEq (gmlToIts (itsToGml core false I)) (if core then getRc I else I)) ∧
    (∀ (I : LGraph) (core : Bool), ItsShape (if core then getRc I else I) →
        ∃ m, Match.IsIso ⟨["v"], ["o"], false⟩ (viewGraph (if core then getRc I else I))
          (viewGraph (gmlToIts (itsToGml core true I))) m) ∧
    (∀ (r p : LGraph) (ri : Bool), smartToGml true ri r p = itsToGml true ri (construct r p)) ∧
    (∀ (I : LGraph) (ri : Bool), itsToGml true ri (getRc I) = itsToGml true ri I) :=
  ⟨Repr.graphToMol_molToGraph, Repr.hToImplicit_hToExplicit, Repr.totalH_hToExplicit, Repr.totalH_hToImplicit,
    fun e c he => Gml.label_roundtrip e c he, Gml.gml_roundtrip, Gml.gml_roundtrip_reindexed,
    Gml.gml_two_ways_core, Gml.gml_two_ways_centre⟩

open SynKit.Gml in
/-- The last conjunct of `C10.FullStatement` is false as written: the reactant C–O with a single
bond and the product C–O whose bond carries no `order` attribute satisfy its hypotheses (their ITS
has the required shape because `ITSGraph` reads the missing order as 0), but `smart_to_gml` writes
the product bond with the writer's default label `-` (order 1) whereas the ITS route drops it, so
the re-imported rules have order pairs (1, 1) and (1, 0) on that bond.  `rsmi_to_graph` never
produces such a bond; `gml_two_ways_full` assumes `MolShape` for that reason. -/
theorem C10.last_clause_needs_molShape :
    ¬ (∀ (r p : LGraph) (ri : Bool), ItsShape (construct r p) → r.ids = p.ids →
        ∃ m, Match.IsIso ⟨["v"], ["o"], false⟩ (viewGraph (gmlToIts (smartToGml false ri r p)))
          (viewGraph (gmlToIts (itsToGml false ri (construct r p)))) m) := by
  intro hall
  let r : LGraph := { nodes := [(1, [("element", .str "C"), ("charge", .num 0)]), (2, [("element", .str "O"), ("charge", .num 0)])],
                      edges := [(1, 2, [("order", .num 2)])] }
  let p : LGraph := { nodes := [(1, [("element", .str "C"), ("charge", .num 0)]), (2, [("element", .str "O"), ("charge", .num 0)])],
                      edges := [(1, 2, [])] }
  have hH : (viewGraph (gmlToIts (smartToGml false false r p))).edges = [(1, 2, [("o", .tup [.num 2, .num 2])])] := by
    decide
  have hP : (1, 2, [("o", Val.tup [.num 2, .num 0])]) ∈
      (viewGraph (gmlToIts (itsToGml false false (construct r p)))).edges := by decide
  obtain ⟨m, ⟨⟨_, _, _, hedge⟩, _⟩, _⟩ := hall r p false (by decide) (by decide)
  obtain ⟨hu, hv, ea, _, _, h3, h4⟩ := hedge _ hP
  obtain ⟨e, he, rfl, _⟩ := Match.edge?_some_mem _ _ _ _ h3
  rw [hH] at he
  simp only [List.mem_singleton] at he
  subst he
  revert h4
  decide

open SynKit.Repr SynKit.Gml in
/-- C10 at full strength over the model, with the last clause stated for the graphs
`rsmi_to_graph` delivers. -/
def C10.FullStatementMol : Prop :=
  (∀ M : Mol, M.WF → graphToMol (molToGraph M) = .ok M.out) ∧
  (∀ G : LGraph, G.WF → HTyped G → NoHeavyBoundH G → hToImplicit (hToExplicit G) = G) ∧
  (∀ G : LGraph, totalH (hToExplicit G) = totalH G) ∧
  (∀ G : LGraph, G.WF → HTyped G → HValence G → totalH (hToImplicit G) = totalH G) ∧
  (∀ e c, alpha e → parseLabel (render e c) = (e, c)) ∧
  (∀ (I : LGraph) (core : Bool), ItsShape (if core then getRc I else I) →
      RuleEq (gmlToIts (itsToGml core false I)) (if core then getRc I else I)) ∧
  (∀ (I : LGraph) (core : Bool), ItsShape (if core then getRc I else I) →
      ∃ m, Match.IsIso ⟨["v"], ["o"], false⟩ (viewGraph (if core then getRc I else I))
        (viewGraph (gmlToIts (itsToGml core true I))) m) ∧
  (∀ (r p : LGraph) (ri : Bool), smartToGml true ri r p = itsToGml true ri (construct r p)) ∧
  (∀ (I : LGraph) (ri : Bool), itsToGml true ri (getRc I) = itsToGml true ri I) ∧
  (∀ (r p : LGraph) (ri : Bool), MolShape r → MolShape p → r.ids = p.ids → ItsShape (construct r p) →
      ∃ m, Match.IsIso ⟨["v"], ["o"], false⟩ (viewGraph (gmlToIts (smartToGml false ri r p)))
        (viewGraph (gmlToIts (itsToGml false ri (construct r p)))) m)

/-- **C10, every clause.** -/
theorem C10.fullStatementMol : C10.FullStatementMol :=
  ⟨Repr.graphToMol_molToGraph, Repr.hToImplicit_hToExplicit, Repr.totalH_hToExplicit, Repr.totalH_hToImplicit,
    fun e c he => Gml.label_roundtrip e c he, Gml.gml_roundtrip, Gml.gml_roundtrip_reindexed,
    Gml.gml_two_ways_core, Gml.gml_two_ways_centre, Gml.gml_two_ways_full⟩

end SynKit

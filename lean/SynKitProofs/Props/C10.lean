import SynKitModel.Repr
import SynKitModel.Gml
import SynKitModel.Match
import SynKitProofs.ReprLemmas
import SynKitProofs.GmlLemmas
/-!
# C10 — changing representation (SMILES ↔ graph, explicit ↔ implicit hydrogens, ITS ↔ GML) loses nothing

Property theorems only; helper lemmas live in `SynKitProofs/ReprLemmas.lean` and
`SynKitProofs/GmlLemmas.lean`.  RDKit (SMILES parsing / printing, sanitisation, aromaticity) is
external: a molecule is its atom/bond table, and the SMILES clause of the property rests on the
correspondence check (`harness/props/c10.py`, stream (a)).
-/
namespace SynKit

open SynKit.Repr SynKit.Gml in
/-- C10 at full strength over the model.  Clauses 1–3 and 5 are proved below; clause 4 is proved
only on the images of `hToExplicit` (`totalH_roundtrip_partial`); clauses 6–8 are proved at the
level of the written tokens (`gml_roundtrip_partial`) and of the entry points
(`gml_two_ways_core`, `gml_two_ways_full_is_centre`, `gml_two_ways_centre_partial`), the
reader's graph assembly and the re-indexing being covered by the correspondence only. -/
def C10.FullStatement : Prop :=
  -- 1. the part of the table the code can carry survives table → graph → table
  (∀ M : Mol, M.WF → graphToMol (molToGraph M) = .ok M.out) ∧
  -- 2. explicit then implicit restores the graph (guard: no explicit H bonded to a heavy atom)
  (∀ G : LGraph, G.WF → HTyped G → NoHeavyBoundH G → hToImplicit (hToExplicit G) = G) ∧
  -- 3./4. neither direction changes the total hydrogen count
  (∀ G : LGraph, totalH (hToExplicit G) = totalH G) ∧
  (∀ G : LGraph, G.WF → HTyped G → HValence G → totalH (hToImplicit G) = totalH G) ∧
  -- 5. element + charge labels
  (∀ e c, alpha e → parseLabel (render e c) = (e, c)) ∧
  -- 6. ITS → GML → ITS keeps atoms, charges, (before, after) orders; core and full export
  (∀ (I : LGraph) (core : Bool), ItsShape (if core then getRc I else I) →
      RuleEq (gmlToIts (itsToGml core false I)) (if core then getRc I else I)) ∧
  -- 7. … and up to renumbering when ids are re-indexed
  (∀ (I : LGraph) (core : Bool), ItsShape (if core then getRc I else I) →
      ∃ m, Match.IsIso ⟨["v"], ["o"], false⟩ (viewGraph (if core then getRc I else I))
        (viewGraph (gmlToIts (itsToGml core true I))) m) ∧
  -- 8. the routes agree: reaction string vs ITS (full or centre), core export; and full export
  (∀ (r p : LGraph) (ri : Bool), smartToGml true ri r p = itsToGml true ri (construct r p)) ∧
  (∀ (I : LGraph) (ri : Bool), itsToGml true ri (getRc I) = itsToGml true ri I) ∧
  (∀ (r p : LGraph) (ri : Bool), ItsShape (construct r p) → r.ids = p.ids →
      ∃ m, Match.IsIso ⟨["v"], ["o"], false⟩ (viewGraph (gmlToIts (smartToGml false ri r p)))
        (viewGraph (gmlToIts (itsToGml false ri (construct r p)))) m)

namespace Repr

/-- **C10, table clause.** For a table as RDKit delivers it (bonds between existing atoms, one of
the four standard bond types) `graph_to_mol(mol_to_graph(M))` hands RDKit exactly the element,
charge, map number and total hydrogen count of every atom (in order) and every bond with its
type (1.5 ↔ aromatic included).  Only the aromatic *flag* is not carried back (RDKit recomputes
it), which is why `Mol.out` omits it. -/
theorem graphToMol_molToGraph (M : Mol) (h : M.WF) : graphToMol (molToGraph M) = .ok M.out :=
  graphToMol_molToGraph' M h

/-- **C10, hydrogens: round trip.**  If no explicit hydrogen is bonded to a heavy atom
(`has_XH(G)` is false) and no hydrogen node carries a count of its own, then making the
hydrogens explicit and implicit again gives back *the same graph* (same nodes in the same order
with the same attribute dicts, same edges).  Hydrogens without a heavy neighbour (H₂, H⁺) are
kept — this is the F18 repair the model follows. -/
theorem hToImplicit_hToExplicit (G : LGraph) (hwf : G.WF) (ht : HTyped G) (hg : NoHeavyBoundH G) :
    hToImplicit (hToExplicit G) = G := hToImplicit_hToExplicit' G hwf ht hg

/-- **C10, hydrogens: count, implicit → explicit.**  No guard at all. -/
theorem totalH_hToExplicit (G : LGraph) : totalH (hToExplicit G) = totalH G := totalH_hToExplicit' G

/-- **C10, hydrogens: count, explicit → implicit — partial.**  Proved on the graphs
`hToExplicit G` under the guard of the round trip.  Missing: the statement for an arbitrary
graph with monovalent, count-free hydrogens (`HValence`, fourth clause of `C10.FullStatement`);
that case is gated by the correspondence (Lean evaluates `totalH` and `HValence` on what the
implementation returned). -/
theorem totalH_roundtrip_partial (G : LGraph) (hwf : G.WF) (ht : HTyped G) (hg : NoHeavyBoundH G) :
    totalH (hToImplicit (hToExplicit G)) = totalH (hToExplicit G) := by
  rw [hToImplicit_hToExplicit' G hwf ht hg, totalH_hToExplicit']

/-- The first half of the guard is literally `has_XH`: it is false iff every bond joins two
hydrogens or two heavy atoms. -/
theorem hasXH_false_iff (G : LGraph) :
    hasXH G = false ↔ ∀ e ∈ G.edges, isH (G.attrs e.1) = isH (G.attrs e.2.1) := by
  simp only [hasXH, List.any_eq_false]
  constructor
  · intro h e he
    have := h e he
    cases h1 : isH (G.attrs e.1) <;> cases h2 : isH (G.attrs e.2.1) <;> simp [h1, h2] at this ⊢
  · intro h e he
    rw [h e he]; cases isH (G.attrs e.2.1) <;> simp

/-- Non-vacuity: CH₄ next to H₂ and H⁺ satisfies every hypothesis, and is really expanded
(4 new hydrogen nodes). -/
example :
    let G : LGraph := { nodes := [(1, [("element", .str "C"), ("hcount", .num 8)]),
                                  (5, [("element", .str "H"), ("hcount", .num 0)]),
                                  (6, [("element", .str "H"), ("hcount", .num 0)]),
                                  (9, [("element", .str "H"), ("hcount", .num 0), ("charge", .num 2)])],
                        edges := [(5, 6, [("order", .num 2)])] }
    G.WF ∧ HTyped G ∧ NoHeavyBoundH G ∧ (hToExplicit G).ids = [1, 5, 6, 9, 10, 11, 12, 13] ∧ totalH G = 7 := by
  decide

example : (⟨[⟨"N", 1, 0, 3, false⟩, ⟨"C", 0, 7, 3, false⟩], [⟨0, 1, 2⟩]⟩ : Mol).WF := by decide

end Repr

namespace Gml

/-- **C10, labels.**  For an element string over `[A-Za-z*]` (non-empty) and any integer charge,
parsing the label the writer emits (`O-`, `N2+`, `Cl`, `Mg12-`, …) gives back element and charge. -/
theorem label_roundtrip (e : List Char) (c : Int) (he : alpha e) : parseLabel (render e c) = (e, c) :=
  label_roundtrip' e c he

/-- Bond labels: the four standard orders survive `-`, `:`, `=`, `#`. -/
theorem orderLabel_roundtrip (h : Int) (hh : h = 2 ∨ h = 3 ∨ h = 4 ∨ h = 6) :
    labelOrder (orderLabel (.num h)) = .num h := orderLabel_roundtrip' h hh

/-- **C10, ITS → GML → ITS — partial (token level).**  For an ITS graph of the shape
`ITSGraph` / `get_rc` produce, exported in full with ids kept, the written rule contains
everything the property names, in a form the reader's own label functions invert:

* every atom `n` with view `(e, c, e, c')` appears as a `context` node labelled `render e c`
  when its charge does not change, and otherwise as a `left` node labelled `render e c` and a
  `right` node labelled `render e c'`; by `label_roundtrip` these parse back to `(e, c)`, `(e, c')`;
* every bond with order pair `(x, y)` appears in `left` with the label of `x` iff `x ≠ 0` and in
  `right` with the label of `y` iff `y ≠ 0`; by `orderLabel_roundtrip` these parse back to `x`, `y`.

Missing for the sixth clause of `C10.FullStatement`: that `gmlToIts` (sequential `add_node` /
`add_edge`, `_synchronize_nodes_and_edges`, `ITSGraph`) reassembles exactly these tokens into a
graph with the same `nodeView` / `edgeView`, and the reduction of the core export to the full
export of the centre.  Both are checked on every generated case by the correspondence (model
reader = implementation reader; `ruleEqb` on the re-imported graph). -/
theorem gml_roundtrip_partial (I : LGraph) (hs : ItsShape I) :
    (∀ p ∈ I.nodes, ∃ e c c', alpha e.toList ∧ nodeView I p.1 = .tup [.str e, .num c, .str e, .num c'] ∧
      parseLabel (render e.toList (c / 2)) = (e.toList, c / 2) ∧
      parseLabel (render e.toList (c' / 2)) = (e.toList, c' / 2) ∧
      (if c = c' then Item.node p.1 (render e.toList (c / 2)) ∈ (itsToGml false false I).context
       else Item.node p.1 (render e.toList (c / 2)) ∈ (itsToGml false false I).left ∧
            Item.node p.1 (render e.toList (c' / 2)) ∈ (itsToGml false false I).right)) ∧
    (∀ ed ∈ I.edges, ∃ x y, Attrs.get ed.2.2 "order" = .tup [.num x, .num y] ∧
      (x ≠ 0 → Item.edge ed.1 ed.2.1 (orderLabel (.num x)) ∈ (itsToGml false false I).left ∧
               labelOrder (orderLabel (.num x)) = .num x) ∧
      (y ≠ 0 → Item.edge ed.1 ed.2.1 (orderLabel (.num y)) ∈ (itsToGml false false I).right ∧
               labelOrder (orderLabel (.num y)) = .num y)) := by
  constructor
  · intro p hp
    obtain ⟨e, c, c', ha, hv, hmem⟩ := writer_nodes I hs p hp
    exact ⟨e, c, c', ha, hv, label_roundtrip' _ _ ha, label_roundtrip' _ _ ha, hmem⟩
  · intro ed he
    obtain ⟨x, y, _, ho, hx, hy, hl, hr⟩ := writer_edges I hs ed he
    have std : ∀ z : Int, stdOrder z = true → z ≠ 0 → (z = 2 ∨ z = 3 ∨ z = 4 ∨ z = 6) := by
      intro z hz h0
      simp only [stdOrder, Bool.or_eq_true, decide_eq_true_eq] at hz
      omega
    exact ⟨x, y, ho, fun h0 => ⟨hl h0, orderLabel_roundtrip' x (std x hx h0)⟩,
      fun h0 => ⟨hr h0, orderLabel_roundtrip' y (std y hy h0)⟩⟩

/-- **C10, two routes (core export).**  The rule written from the reaction string's two graphs
*is* the rule written from their ITS with `core=True`: identical tokens, not merely equivalent. -/
theorem gml_two_ways_core (r p : LGraph) (ri : Bool) :
    smartToGml true ri r p = itsToGml true ri (construct r p) := rfl

/-- **C10, two routes (full ITS vs centre).**  With `core=True` the export of a full ITS is by
definition the full export of its centre — the F8 repair: left, right *and context* come from the
centre. -/
theorem gml_two_ways_full_is_centre (I : LGraph) (ri : Bool) :
    itsToGml true ri I = itsToGml false ri (getRc I) := rfl

/-- **C10, two routes (centre supplied) — partial.**  Supplying the centre instead of the full
ITS gives identical tokens *provided* extracting the centre of a centre changes nothing.
Missing: `getRc (getRc I) = getRc I` itself (idempotence of `get_rc`, the subject of C02); it
is exercised by correspondence stream (d) on every corpus reaction and renumbering. -/
theorem gml_two_ways_centre_partial (I : LGraph) (ri : Bool) (hidem : getRc (getRc I) = getRc I) :
    itsToGml true ri (getRc I) = itsToGml true ri I := by
  simp only [itsToGml, if_true, hidem]

/-- Non-vacuity: a two-atom centre (C–O bond formed, O loses its charge) has the required shape,
its element strings satisfy `alpha`, and the written rule has the expected tokens. -/
example :
    let I : LGraph :=
      { nodes := [(1, [("element", .str "C"), ("charge", .num 0),
                       ("typesGH", .tup [.tup [.str "C", .bool false, .num 6, .num 0, .tup []],
                                         .tup [.str "C", .bool false, .num 6, .num 0, .tup []]])]),
                  (2, [("element", .str "O"), ("charge", .num (-2)),
                       ("typesGH", .tup [.tup [.str "O", .bool false, .num 0, .num (-2), .tup []],
                                         .tup [.str "O", .bool false, .num 0, .num 0, .tup []]])])],
        edges := [(1, 2, [("order", .tup [.num 0, .num 2]), ("standard_order", .num (-2))])] }
    ItsShape I ∧ itsToGml false false I =
      { left := [.node 2 ['O', '-']], context := [.node 1 ['C']], right := [.edge 1 2 ['-'], .node 2 ['O']] } ∧
    ruleEqb (gmlToIts (itsToGml false false I)) I = true := by
  decide

example : alpha "Cl".toList ∧ parseLabel (render "Mg".toList 12) = ("Mg".toList, 12) := by decide

end Gml
end SynKit

import SynKitModel.ViewsClaim
/-!
# C16 claim conditions: the decidable forms are the hypotheses of the theorems

`wfNetB`, `noIdClashB`, `stoichKeptB`, `twoSidedB`, `wfStrNetB` (`SynKitModel/ViewsClaim.lean`)
decide `WfNet`, `NoIdClash`, `StoichKept`, `TwoSided`, `WfStrNet`; `all2` is a pointwise
comparison of two lists of the same length.
-/
namespace SynKit.Views.Raw
open SynKit SynKit.Views

theorem all2_iff {α β : Type} (r : α → β → Bool) (l : List α) (l' : List β) :
    all2 r l l' = true ↔ l.length = l'.length ∧ ∀ z ∈ l.zip l', r z.1 z.2 = true := by
  induction l generalizing l' with
  | nil => cases l' <;> simp [all2]
  | cons a as ih =>
    cases l' with
    | nil => simp [all2]
    | cons b bs =>
      simp only [all2, Bool.and_eq_true, ih, List.length_cons, Nat.add_right_cancel_iff,
        List.zip_cons_cons, List.mem_cons, forall_eq_or_imp]
      constructor
      · rintro ⟨h1, h2, h3⟩; exact ⟨h2, h1, h3⟩
      · rintro ⟨h2, h1, h3⟩; exact ⟨h1, h2, h3⟩

/-- Two lists compared by `all2` are the two projections of their zip. -/
theorem all2_zip {α β : Type} (r : α → β → Bool) (l : List α) (l' : List β) (h : all2 r l l' = true) :
    l = (l.zip l').map Prod.fst ∧ l' = (l.zip l').map Prod.snd ∧ ∀ z ∈ l.zip l', r z.1 z.2 = true := by
  obtain ⟨hl, hz⟩ := (all2_iff r l l').1 h
  refine ⟨?_, ?_, hz⟩
  · rw [List.map_fst_zip]; omega
  · rw [List.map_snd_zip]; omega

theorem wfSideB_iff (m : Side) : wfSideB m = true ↔ WfSide m := by
  unfold wfSideB WfSide
  simp only [Bool.and_eq_true, decide_eq_true_eq, List.all_eq_true]

theorem isEmpty_false_iff {α : Type} (l : List α) : (!l.isEmpty) = true ↔ l ≠ [] := by
  cases l <;> simp

theorem wfNetB_iff (N : Net) : wfNetB N = true ↔ WfNet N := by
  unfold wfNetB
  simp only [Bool.and_eq_true, decide_eq_true_eq, List.all_eq_true, wfSideB_iff, Bool.or_eq_true,
    isEmpty_false_iff]
  constructor
  · rintro ⟨⟨⟨h1, h2⟩, h3⟩, h4⟩
    exact ⟨h1, fun e he => ⟨(h2 e he).1.1.1, (h2 e he).1.1.2⟩, fun e he => (h2 e he).1.2,
      fun e he => (h2 e he).2, h3, h4⟩
  · intro h
    exact ⟨⟨⟨h.idsNodup, fun e he => ⟨⟨h.sides e he, h.nonEmpty e he⟩, h.rules e he⟩⟩, h.speciesNodup⟩,
      h.speciesSup⟩

theorem noIdClashB_iff (f : BipFlags) (N : Net) : noIdClashB f N = true ↔ NoIdClash f N := by
  unfold noIdClashB NoIdClash
  simp only [Bool.or_eq_true, List.all_eq_true, decide_eq_true_eq]

theorem allOnesB_iff (N : Net) : allOnesB N = true ↔ AllOnes N := by
  unfold allOnesB AllOnes
  simp only [List.all_eq_true, Bool.and_eq_true, decide_eq_true_eq]

theorem stoichKeptB_iff (f : BipFlags) (N : Net) : stoichKeptB f N = true ↔ StoichKept f N := by
  unfold stoichKeptB StoichKept
  rw [Bool.or_eq_true, allOnesB_iff]
  rfl

theorem twoSidedB_iff (N : Net) : twoSidedB N = true ↔ TwoSided N := by
  unfold twoSidedB TwoSided
  simp only [List.all_eq_true, Bool.and_eq_true, isEmpty_false_iff]

theorem wfRuleB_iff (r : String) : wfRuleB r = true ↔ WfRule r := by
  unfold wfRuleB WfRule
  simp only [Bool.and_eq_true, decide_eq_true_eq, List.all_eq_true, Bool.not_eq_eq_eq_not, Bool.not_true]

theorem wfLabelsB_iff (m : Side) : wfLabelsB m = true ↔ WfLabels m := by
  unfold wfLabelsB WfLabels
  simp only [List.all_eq_true]

theorem wfStrNetB_iff (N : Net) : wfStrNetB N = true ↔ WfStrNet N := by
  unfold wfStrNetB
  simp only [List.all_eq_true, Bool.and_eq_true, wfSideB_iff, Bool.or_eq_true, isEmpty_false_iff,
    wfLabelsB_iff, wfRuleB_iff]
  constructor
  · intro h
    exact ⟨fun e he => ⟨(h e he).1.1.1.1.1, (h e he).1.1.1.1.2⟩, fun e he => (h e he).1.1.1.2,
      fun e he => ⟨(h e he).1.1.2, (h e he).1.2⟩, fun e he => (h e he).2⟩
  · intro h e he
    exact ⟨⟨⟨⟨h.sides e he, h.nonEmpty e he⟩, (h.labels e he).1⟩, (h.labels e he).2⟩, h.rules e he⟩

end SynKit.Views.Raw

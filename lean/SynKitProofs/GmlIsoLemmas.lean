import SynKitModel.Gml
import SynKitModel.Match
import SynKitProofs.Match
import SynKitProofs.GmlRcLemmas
/-! Helper lemmas for C10: structure of the graphs the GML reader builds, and "same rule"
(`RuleEq`) as a label-preserving isomorphism of the view graphs. -/
namespace SynKit.Gml
open SynKit SynKit.Match

/-! ### structure of the reader's graphs -/

/-- node ids distinct, edges join existing nodes. -/
def Closed (g : LGraph) : Prop := g.ids.Nodup ∧ ∀ e ∈ g.edges, e.1 ∈ g.ids ∧ e.2.1 ∈ g.ids

theorem hasNode_iff' (g : LGraph) (n : Nat) : g.hasNode n = true ↔ n ∈ g.ids := by
  simp [LGraph.hasNode]

theorem updAttrs_ids (g : LGraph) (v : Nat) (f : Attrs → Attrs) : (SynKit.Repr.updAttrs g v f).ids = g.ids := by
  simp only [SynKit.Repr.updAttrs, LGraph.ids, List.map_map]
  apply List.map_congr_left
  intro p _
  simp only [Function.comp]
  split <;> rfl

theorem addNode_ids (g : LGraph) (v : Nat) (a : Attrs) :
    (addNode g v a).ids = if g.hasNode v then g.ids else g.ids ++ [v] := by
  unfold addNode
  split
  · exact updAttrs_ids _ _ _
  · simp [LGraph.ids]

theorem addNode_edges (g : LGraph) (v : Nat) (a : Attrs) : (addNode g v a).edges = g.edges := by
  unfold addNode
  split <;> rfl

theorem touchNode_ids (g : LGraph) (v : Nat) :
    (touchNode g v).ids = if g.hasNode v then g.ids else g.ids ++ [v] := by
  unfold touchNode
  split
  · rfl
  · simp [LGraph.ids]

theorem touchNode_edges (g : LGraph) (v : Nat) : (touchNode g v).edges = g.edges := by
  unfold touchNode
  split <;> rfl

theorem ids_push_nodup (l : List Nat) (v : Nat) (c : Bool) (hc : c = true ↔ v ∈ l) (h : l.Nodup) :
    (if c then l else l ++ [v]).Nodup := by
  cases c with
  | true => exact h
  | false =>
    have : v ∉ l := fun hv => by have := hc.2 hv; cases this
    simp only [Bool.false_eq_true, if_false]
    rw [List.nodup_append]
    exact ⟨h, by simp, by intro a ha b hb; simp only [List.mem_singleton] at hb; subst hb; exact fun e => this (e ▸ ha)⟩

theorem mem_ids_push (l : List Nat) (v n : Nat) (c : Bool) (hc : c = true ↔ v ∈ l) :
    n ∈ (if c then l else l ++ [v]) ↔ n = v ∨ n ∈ l := by
  cases c with
  | true =>
    simp only [if_true]
    constructor
    · exact Or.inr
    · rintro (rfl | h)
      · exact hc.1 rfl
      · exact h
  | false => simp [Or.comm]

theorem mem_addNode_ids (g : LGraph) (v : Nat) (a : Attrs) (n : Nat) :
    n ∈ (addNode g v a).ids ↔ n = v ∨ n ∈ g.ids := by
  rw [addNode_ids]; exact mem_ids_push _ _ _ _ (hasNode_iff' g v)

theorem mem_touchNode_ids (g : LGraph) (v n : Nat) : n ∈ (touchNode g v).ids ↔ n = v ∨ n ∈ g.ids := by
  rw [touchNode_ids]; exact mem_ids_push _ _ _ _ (hasNode_iff' g v)

theorem closed_addNode (g : LGraph) (v : Nat) (a : Attrs) (h : Closed g) : Closed (addNode g v a) := by
  refine ⟨?_, ?_⟩
  · rw [addNode_ids]; exact ids_push_nodup _ _ _ (hasNode_iff' g v) h.1
  · intro e he
    rw [addNode_edges] at he
    rw [mem_addNode_ids, mem_addNode_ids]
    exact ⟨Or.inr (h.2 e he).1, Or.inr (h.2 e he).2⟩

theorem closed_touchNode (g : LGraph) (v : Nat) (h : Closed g) : Closed (touchNode g v) := by
  refine ⟨?_, ?_⟩
  · rw [touchNode_ids]; exact ids_push_nodup _ _ _ (hasNode_iff' g v) h.1
  · intro e he
    rw [touchNode_edges] at he
    rw [mem_touchNode_ids, mem_touchNode_ids]
    exact ⟨Or.inr (h.2 e he).1, Or.inr (h.2 e he).2⟩

theorem addEdge_ids (g : LGraph) (u v : Nat) (a : Attrs) : (addEdge g u v a).ids = (touchNode (touchNode g u) v).ids := by
  unfold addEdge
  simp only
  split <;> rfl

theorem mem_addEdge_ids (g : LGraph) (u v : Nat) (a : Attrs) (n : Nat) :
    n ∈ (addEdge g u v a).ids ↔ n = u ∨ n = v ∨ n ∈ g.ids := by
  rw [addEdge_ids, mem_touchNode_ids, mem_touchNode_ids]
  constructor
  · rintro (h | h | h)
    · exact Or.inr (Or.inl h)
    · exact Or.inl h
    · exact Or.inr (Or.inr h)
  · rintro (h | h | h)
    · exact Or.inr (Or.inl h)
    · exact Or.inl h
    · exact Or.inr (Or.inr h)

theorem mem_addEdge_edges (g : LGraph) (u v : Nat) (a : Attrs) (e : Nat × Nat × Attrs) (he : e ∈ (addEdge g u v a).edges) :
    (∃ e0 ∈ g.edges, ends e = ends e0) ∨ ends e = (u, v) := by
  unfold addEdge at he
  simp only at he
  split at he
  · simp only [touchNode_edges, List.mem_map] at he
    obtain ⟨e0, he0, rfl⟩ := he
    left
    refine ⟨e0, he0, ?_⟩
    split <;> rfl
  · simp only [touchNode_edges, List.mem_append, List.mem_singleton] at he
    rcases he with he | rfl
    · exact Or.inl ⟨e, he, rfl⟩
    · exact Or.inr rfl

theorem closed_addEdge (g : LGraph) (u v : Nat) (a : Attrs) (h : Closed g) : Closed (addEdge g u v a) := by
  refine ⟨?_, ?_⟩
  · rw [addEdge_ids]; exact (closed_touchNode _ _ (closed_touchNode _ _ h)).1
  · intro e he
    rw [mem_addEdge_ids, mem_addEdge_ids]
    rcases mem_addEdge_edges g u v a e he with ⟨e0, he0, hee⟩ | hee
    · simp only [ends, Prod.mk.injEq] at hee
      rw [hee.1, hee.2]
      exact ⟨Or.inr (Or.inr (h.2 e0 he0).1), Or.inr (Or.inr (h.2 e0 he0).2)⟩
    · simp only [ends, Prod.mk.injEq] at hee
      exact ⟨Or.inl hee.1, Or.inr (Or.inl hee.2)⟩

theorem closed_empty : Closed {} := ⟨List.nodup_nil, by intro e he; cases he⟩

theorem closed_readSection (items : List Item) : Closed (readSection items) := by
  unfold readSection
  apply foldl_invariant Closed
  · exact closed_empty
  · intro g it _ hg
    cases it with
    | node id l => exact closed_addNode _ _ _ hg
    | edge s t l => exact closed_addEdge _ _ _ _ hg

theorem closed_syncSide (sd ctx : LGraph) (h : Closed sd) : Closed (syncSide sd ctx) := by
  unfold syncSide
  apply foldl_invariant Closed
  · apply foldl_invariant Closed
    · exact h
    · intro g p _ hg; exact closed_addNode _ _ _ hg
  · intro g e _ hg
    split
    · exact hg
    · exact closed_addEdge _ _ _ _ hg

theorem closed_readLeft (r : Rule) : Closed (readLeft r) := closed_syncSide _ _ (closed_readSection _)
theorem closed_readRight (r : Rule) : Closed (readRight r) := closed_syncSide _ _ (closed_readSection _)

/-! ### `ITSGraph` -/

def cBase (G H : LGraph) : LGraph := if G.nodes.length ≥ H.nodes.length then G else H

def cExtra (G H : LGraph) : List Nat := ((G.ids ++ H.ids).filter fun n => !(cBase G H).hasNode n).eraseDups

theorem construct_ids (G H : LGraph) : (construct G H).ids = (cBase G H).ids ++ cExtra G H := by
  simp only [construct, LGraph.ids, cBase, cExtra, List.map_map, List.map_append]
  congr 1
  simp [Function.comp_def]

theorem construct_edges (G H : LGraph) :
    (construct G H).edges = G.edges.map (fun e => itsEdge G H e.1 e.2.1) ++
      (H.edges.filter fun e => !G.hasEdge e.1 e.2.1).map fun e => itsEdge G H e.1 e.2.1 := rfl

theorem nodup_eraseDups_aux : ∀ (n : Nat) (l : List Nat), l.length ≤ n → l.eraseDups.Nodup := by
  intro n
  induction n with
  | zero =>
    intro l hl
    have : l = [] := List.length_eq_zero_iff.1 (Nat.le_zero.1 hl)
    subst this; simp
  | succ n ih =>
    intro l hl
    cases l with
    | nil => simp
    | cons a as =>
      rw [List.eraseDups_cons, List.nodup_cons]
      constructor
      · rw [List.mem_eraseDups]
        simp
      · apply ih
        exact Nat.le_trans (List.length_filter_le _ _) (Nat.le_of_succ_le_succ hl)

theorem mem_construct_ids (G H : LGraph) (n : Nat) : n ∈ (construct G H).ids ↔ n ∈ G.ids ∨ n ∈ H.ids := by
  rw [construct_ids, List.mem_append]
  unfold cExtra
  rw [List.mem_eraseDups, List.mem_filter, List.mem_append]
  have hb : n ∈ (cBase G H).ids → n ∈ G.ids ∨ n ∈ H.ids := by
    unfold cBase; split
    · exact Or.inl
    · exact Or.inr
  constructor
  · rintro (h | ⟨h, _⟩)
    · exact hb h
    · exact h
  · intro h
    by_cases hn : n ∈ (cBase G H).ids
    · exact Or.inl hn
    · exact Or.inr ⟨h, by simpa [LGraph.hasNode] using hn⟩

theorem closed_construct (G H : LGraph) (hG : Closed G) (hH : Closed H) : Closed (construct G H) := by
  refine ⟨?_, ?_⟩
  · rw [construct_ids, List.nodup_append]
    refine ⟨?_, nodup_eraseDups_aux _ _ (Nat.le_refl _), ?_⟩
    · unfold cBase; split
      · exact hG.1
      · exact hH.1
    · intro a ha b hb e
      subst e
      unfold cExtra at hb
      rw [List.mem_eraseDups, List.mem_filter] at hb
      have := hb.2
      simp [LGraph.hasNode] at this
      exact this ha
  · intro e he
    rw [construct_edges, List.mem_append] at he
    rw [mem_construct_ids, mem_construct_ids]
    rcases he with he | he
    · obtain ⟨e0, he0, rfl⟩ := List.mem_map.1 he
      exact ⟨Or.inl (hG.2 e0 he0).1, Or.inl (hG.2 e0 he0).2⟩
    · obtain ⟨e0, he0, rfl⟩ := List.mem_map.1 he
      have he0' := (List.mem_filter.1 he0).1
      exact ⟨Or.inr (hH.2 e0 he0').1, Or.inr (hH.2 e0 he0').2⟩

theorem closed_gmlToIts (r : Rule) : Closed (gmlToIts r) :=
  closed_construct _ _ (closed_readLeft r) (closed_readRight r)

theorem orderIn_comm (g : LGraph) (u v : Nat) : orderIn g u v = orderIn g v u := by
  unfold orderIn; rw [edge?_comm]

/-- every bond of an `ITSGraph` result carries the order pair of its (unordered) end points. -/
theorem construct_edge_order (G H : LGraph) (e : Nat × Nat × Attrs) (he : e ∈ (construct G H).edges) :
    Attrs.get e.2.2 "order" = .tup [orderIn G e.1 e.2.1, orderIn H e.1 e.2.1] := by
  rw [construct_edges, List.mem_append] at he
  rcases he with he | he <;> obtain ⟨e0, _, rfl⟩ := List.mem_map.1 he <;>
    simp [itsEdge, Attrs.get, Dict.getD, Dict.get?]

/-- parallel bonds (if any) of an `ITSGraph` result carry the same order pair. -/
theorem construct_order_consistent (G H : LGraph) (e : Nat × Nat × Attrs) (he : e ∈ (construct G H).edges)
    (a : Attrs) (ha : (construct G H).edge? e.1 e.2.1 = some a) : Attrs.get a "order" = Attrs.get e.2.2 "order" := by
  obtain ⟨e', he', rfl, hends⟩ := edge?_some_mem _ _ _ _ ha
  rw [construct_edge_order G H e he, construct_edge_order G H e' he']
  rcases hends with ⟨h1, h2⟩ | ⟨h1, h2⟩
  · rw [h1, h2]
  · rw [h1, h2, orderIn_comm G, orderIn_comm H]

/-! ### view graphs -/

theorem viewGraph_ids (I : LGraph) : (viewGraph I).ids = I.ids := by
  simp [viewGraph, LGraph.ids, List.map_map, Function.comp_def]

theorem viewGraph_attrs (I : LGraph) (n : Nat) (h : n ∈ I.ids) :
    (viewGraph I).attrs n = [("v", nodeView I n)] := by
  obtain ⟨p, _, hp1, hp2⟩ := find_fst I.nodes n h
  unfold LGraph.attrs viewGraph
  simp only [List.find?_map]
  have : ((fun q : Nat × Attrs => decide (q.1 = n)) ∘ fun p : Nat × Attrs => (p.1, [("v", nodeView I p.1)])) =
      fun q : Nat × Attrs => decide (q.1 = n) := rfl
  rw [this, hp2]
  simp [hp1]

theorem viewGraph_edge? (I : LGraph) (u v : Nat) :
    (viewGraph I).edge? u v = (I.edge? u v).map fun a => [("o", Attrs.get a "order")] := by
  unfold LGraph.edge? viewGraph
  simp only [List.find?_map, Option.map_map]
  rfl

theorem viewGraph_hasEdge (I : LGraph) (u v : Nat) : (viewGraph I).hasEdge u v = I.hasEdge u v := by
  unfold LGraph.hasEdge; rw [viewGraph_edge?, Option.isSome_map]

def viewSel : Sel := ⟨["v"], ["o"], false⟩

/-- Two graphs that are the same rule (`RuleEq`) have isomorphic view graphs, via the identity. -/
theorem isIso_of_ruleEq (A B : LGraph) (h : RuleEq B A) (hA : A.ids.Nodup) (hB : Closed B)
    (hc : ∀ e ∈ B.edges, ∀ a, B.edge? e.1 e.2.1 = some a → Attrs.get a "order" = Attrs.get e.2.2 "order") :
    IsIso viewSel (viewGraph A) (viewGraph B) (B.ids.map fun n => (n, n)) := by
  obtain ⟨hids, hnv, hev⟩ := h
  have hf : (B.ids.map fun v => (v, v)).map (·.1) = B.ids := by rw [List.map_map]; exact List.map_id' _
  have hs : (B.ids.map fun v => (v, v)).map (·.2) = B.ids := by rw [List.map_map]; exact List.map_id' _
  have hfn : ((B.ids.map fun v => (v, v)).map (·.1)).Nodup := by rw [hf]; exact hB.1
  have hget : ∀ v ∈ B.ids, Mapping.get? (B.ids.map fun v => (v, v)) v = some v :=
    fun v hv => get?_of_mem _ hfn v v (List.mem_map.2 ⟨v, hv, rfl⟩)
  have hhas : ∀ u v, B.hasEdge u v = A.hasEdge u v := by
    intro u v
    have := congrArg Option.isSome (hev u v)
    simpa [edgeView, LGraph.hasEdge] using this
  refine ⟨⟨⟨?_, ?_, ?_, ?_⟩, ?_⟩, ?_⟩
  · rw [hf, viewGraph_ids]
  · rw [hs]; exact hB.1
  · intro ph hph
    obtain ⟨n, hn, rfl⟩ := List.mem_map.1 hph
    have hnA : n ∈ A.ids := (hids n).1 hn
    refine ⟨by rw [viewGraph_ids]; exact hnA, ?_⟩
    show nodeOk viewSel ((viewGraph A).attrs n) ((viewGraph B).attrs n) = true
    rw [viewGraph_attrs A n hnA, viewGraph_attrs B n hn, hnv n hnA]
    simp [nodeOk, viewSel]
  · intro e he
    simp only [viewGraph, List.mem_map] at he
    obtain ⟨e0, he0, rfl⟩ := he
    obtain ⟨h1, h2⟩ := hB.2 e0 he0
    have hsome := edge?_isSome_of_mem B e0 he0
    cases hb : B.edge? e0.1 e0.2.1 with
    | none => rw [hb] at hsome; cases hsome
    | some a =>
      have hao := hc e0 he0 a hb
      have hv := hev e0.1 e0.2.1
      simp only [edgeView, hb, Option.map_some] at hv
      cases ha : A.edge? e0.1 e0.2.1 with
      | none => rw [ha] at hv; cases hv
      | some a' =>
        rw [ha, Option.map_some, Option.some.injEq] at hv
        refine ⟨e0.1, e0.2.1, [("o", Attrs.get a' "order")], hget _ h1, hget _ h2, ?_, ?_⟩
        · rw [viewGraph_edge?, ha]; rfl
        · have : Attrs.get a' "order" = Attrs.get e0.2.2 "order" := by rw [← hao, hv]
          simp [edgeOk, viewSel, Attrs.get, Dict.getD, Dict.get?]
          simpa [Attrs.get, Dict.getD] using this
  · intro p q hp hq g1 g2 hne
    obtain ⟨v, -, hv⟩ := List.mem_map.1 (mem_of_get? _ _ _ g1)
    obtain ⟨w, -, hw⟩ := List.mem_map.1 (mem_of_get? _ _ _ g2)
    obtain ⟨rfl, rfl⟩ := Prod.mk.inj hv
    obtain ⟨rfl, rfl⟩ := Prod.mk.inj hw
    rw [viewGraph_hasEdge] at hne ⊢
    rw [← hhas]; exact hne
  · have hperm : A.ids.Perm B.ids := (List.perm_ext_iff_of_nodup hA hB.1).2 fun a => (hids a).symm
    have := hperm.length_eq
    simpa [viewGraph, LGraph.ids] using this

/-! ### relabelling along a map that is injective on the nodes -/

theorem relabel_WF_on (G : LGraph) (hG : G.WF) (f : Nat → Nat) (hf : InjOnIds G f) : (G.relabel f).WF := by
  obtain ⟨h1, h2, h3⟩ := hG
  refine ⟨?_, ?_, ?_⟩
  · rw [relabel_ids]; exact List.Nodup.map_on hf h1
  · intro e' he'
    unfold LGraph.relabel at he'
    obtain ⟨e, he, rfl⟩ := List.mem_map.1 he'
    obtain ⟨a, b, c⟩ := h2 e he
    rw [relabel_ids]
    exact ⟨List.mem_map.2 ⟨_, a, rfl⟩, List.mem_map.2 ⟨_, b, rfl⟩, fun hh => c (hf _ a _ b hh)⟩
  · unfold LGraph.relabel
    simp only [List.map_map]
    have hE : G.edges.Nodup := List.Nodup.of_map _ h3
    refine List.Nodup.map_on ?_ hE
    intro x hx y hy e
    simp only [Function.comp] at e
    refine List.inj_on_of_nodup_map h3 hx hy ?_
    obtain ⟨e1, e2⟩ := Prod.mk.inj e
    obtain ⟨xa, xb, -⟩ := h2 x hx
    obtain ⟨ya, yb, -⟩ := h2 y hy
    have key : (x.1 = y.1 ∧ x.2.1 = y.2.1) ∨ (x.1 = y.2.1 ∧ x.2.1 = y.1) := by
      rcases Nat.le_total (f x.1) (f x.2.1) with h | h <;> rcases Nat.le_total (f y.1) (f y.2.1) with h' | h'
      · rw [Nat.min_eq_left h, Nat.min_eq_left h'] at e1; rw [Nat.max_eq_right h, Nat.max_eq_right h'] at e2
        exact Or.inl ⟨hf _ xa _ ya e1, hf _ xb _ yb e2⟩
      · rw [Nat.min_eq_left h, Nat.min_eq_right h'] at e1; rw [Nat.max_eq_right h, Nat.max_eq_left h'] at e2
        exact Or.inr ⟨hf _ xa _ yb e1, hf _ xb _ ya e2⟩
      · rw [Nat.min_eq_right h, Nat.min_eq_left h'] at e1; rw [Nat.max_eq_left h, Nat.max_eq_right h'] at e2
        exact Or.inr ⟨hf _ xa _ yb e2, hf _ xb _ ya e1⟩
      · rw [Nat.min_eq_right h, Nat.min_eq_right h'] at e1; rw [Nat.max_eq_left h, Nat.max_eq_left h'] at e2
        exact Or.inl ⟨hf _ xa _ ya e2, hf _ xb _ yb e1⟩
    rcases key with ⟨k1, k2⟩ | ⟨k1, k2⟩
    · simp only [k1, k2]
    · simp only [k1, k2, Nat.min_comm, Nat.max_comm]

theorem itsShape_relabel (I : LGraph) (hs : ItsShape I) (f : Nat → Nat) (hf : InjOnIds I f) :
    ItsShape (I.relabel f) := by
  obtain ⟨hwf, hn, he⟩ := hs
  refine ⟨relabel_WF_on I hwf f hf, ?_, ?_⟩
  · intro p hp
    unfold LGraph.relabel at hp
    obtain ⟨q, hq, rfl⟩ := List.mem_map.1 hp
    exact hn q hq
  · intro e he'
    unfold LGraph.relabel at he'
    obtain ⟨q, hq, rfl⟩ := List.mem_map.1 he'
    exact he q hq

theorem viewGraph_relabel (I : LGraph) (f : Nat → Nat) (hf : InjOnIds I f) :
    viewGraph (I.relabel f) = (viewGraph I).relabel f := by
  unfold viewGraph
  have hn : ∀ p ∈ I.nodes, nodeView (I.relabel f) (f p.1) = nodeView I p.1 := by
    intro p hp
    unfold nodeView
    rw [relabel_attrs_on I f hf p.1 (List.mem_map.2 ⟨p, hp, rfl⟩)]
  simp only [LGraph.relabel, List.map_map, LGraph.mk.injEq]
  constructor
  · apply List.map_congr_left
    intro p hp
    simp only [Function.comp]
    have := hn p hp
    simp only [LGraph.relabel] at this
    rw [this]
  · rfl

/-- the view graph of a relabelled graph is isomorphic to the view graph of the original. -/
theorem isIso_viewGraph_relabel (I : LGraph) (hI : I.WF) (f : Nat → Nat) (hf : InjOnIds I f) :
    ∃ m, IsIso viewSel (viewGraph I) (viewGraph (I.relabel f)) m := by
  have hV : (viewGraph I).WF := by
    obtain ⟨h1, h2, h3⟩ := hI
    refine ⟨by rw [viewGraph_ids]; exact h1, ?_, ?_⟩
    · intro e he
      simp only [viewGraph, List.mem_map] at he
      obtain ⟨e0, he0, rfl⟩ := he
      rw [viewGraph_ids]; exact h2 e0 he0
    · simpa [viewGraph, List.map_map, Function.comp_def] using h3
  have hfV : InjOnIds (viewGraph I) f := by
    intro a ha b hb; rw [viewGraph_ids] at ha hb; exact hf a ha b hb
  rw [viewGraph_relabel I f hf]
  exact ⟨_, isIso_relabel_pattern_on viewSel (viewGraph I) (viewGraph I) hV _ f hfV (isIso_refl viewSel _ hV)⟩

/-- Same rule up to a renumbering `f` of the nodes ⇒ isomorphic view graphs. -/
theorem isIso_of_ruleEq_relabel (I J : LGraph) (hI : I.WF) (f : Nat → Nat) (hf : InjOnIds I f)
    (h : RuleEq J (I.relabel f)) (hJ : Closed J)
    (hc : ∀ e ∈ J.edges, ∀ a, J.edge? e.1 e.2.1 = some a → Attrs.get a "order" = Attrs.get e.2.2 "order") :
    ∃ m, IsIso viewSel (viewGraph I) (viewGraph J) m := by
  obtain ⟨m1, h1⟩ := isIso_viewGraph_relabel I hI f hf
  have h2 := isIso_of_ruleEq (I.relabel f) J h (relabel_WF_on I hI f hf).1 hJ hc
  exact ⟨_, isIso_trans viewSel _ _ _ _ _ h1 h2⟩

end SynKit.Gml

import SynKitModel.Repr
import SynKitProofs.ReprLemmas
/-! C10: `h_to_implicit` keeps the total hydrogen count under the valence guard `HValence`. -/
namespace SynKit.Repr
open SynKit

/-! ### look-ups in node lists -/

/-- `LGraph.attrs` on a bare node list. -/
def attrsOf (N : List (Nat × Attrs)) (v : Nat) : Attrs :=
  match N.find? (·.1 = v) with
  | some p => p.2
  | none => []

theorem attrs_eq_attrsOf (g : LGraph) (v : Nat) : g.attrs v = attrsOf g.nodes v := rfl

theorem attrsOf_cons (p : Nat × Attrs) (N : List (Nat × Attrs)) (v : Nat) :
    attrsOf (p :: N) v = if p.1 = v then p.2 else attrsOf N v := by
  unfold attrsOf
  by_cases h : p.1 = v <;> simp [h]

theorem isH_attrsOf_bumpAt (N : List (Nat × Attrs)) (v n : Nat) :
    isH (attrsOf (bumpAt N v) n) = isH (attrsOf N n) := by
  induction N with
  | nil => rfl
  | cons p N ih =>
    have : bumpAt (p :: N) v = (if p.1 = v then (p.1, bump p.2) else p) :: bumpAt N v := rfl
    rw [this, attrsOf_cons, attrsOf_cons]
    by_cases h1 : p.1 = v
    · rw [if_pos h1]
      by_cases h2 : p.1 = n
      · rw [if_pos h2, if_pos h2, isH_bump]
      · rw [if_neg h2, if_neg h2, ih]
    · rw [if_neg h1]
      by_cases h2 : p.1 = n
      · rw [if_pos h2, if_pos h2]
      · rw [if_neg h2, if_neg h2, ih]

theorem attrsOf_filter_ne (N : List (Nat × Attrs)) (h n : Nat) (hn : n ≠ h) :
    attrsOf (N.filter (fun p => p.1 ≠ h)) n = attrsOf N n := by
  induction N with
  | nil => rfl
  | cons p N ih =>
    by_cases h1 : p.1 = h
    · have h2 : ¬ p.1 = n := fun e => hn (e ▸ h1)
      have h3 : (p :: N).filter (fun p => p.1 ≠ h) = N.filter (fun p => p.1 ≠ h) := by
        simp [h1]
      rw [h3, attrsOf_cons, if_neg h2, ih]
    · have h3 : (p :: N).filter (fun p => p.1 ≠ h) = p :: N.filter (fun p => p.1 ≠ h) := by
        simp [h1]
      rw [h3, attrsOf_cons, attrsOf_cons, ih]

/-- nodes after one effective step of the loop. -/
def stepNodes (N : List (Nat × Attrs)) (n0 h : Nat) : List (Nat × Attrs) :=
  (bumpAt N n0).filter (fun p => p.1 ≠ h)

def stepEdges (E : List (Nat × Nat × Attrs)) (h : Nat) : List (Nat × Nat × Attrs) :=
  E.filter (fun e => e.1 ≠ h ∧ e.2.1 ≠ h)

theorem isH_attrsOf_stepNodes (N : List (Nat × Attrs)) (n0 h n : Nat) (hn : n ≠ h) :
    isH (attrsOf (stepNodes N n0 h) n) = isH (attrsOf N n) := by
  unfold stepNodes
  rw [attrsOf_filter_ne _ _ _ hn, isH_attrsOf_bumpAt]

theorem mem_ids_stepNodes (N : List (Nat × Attrs)) (n0 h v : Nat) :
    v ∈ (stepNodes N n0 h).map (·.1) ↔ v ∈ N.map (·.1) ∧ v ≠ h := by
  unfold stepNodes
  rw [← bumpAt_fst N n0]
  simp only [List.mem_map, List.mem_filter]
  constructor
  · rintro ⟨p, ⟨hp, hne⟩, rfl⟩
    exact ⟨⟨p, hp, rfl⟩, by simpa using hne⟩
  · rintro ⟨⟨p, hp, rfl⟩, hne⟩
    exact ⟨p, ⟨hp, by simpa using hne⟩, rfl⟩

theorem nodup_ids_stepNodes (N : List (Nat × Attrs)) (n0 h : Nat) (hn : (N.map (·.1)).Nodup) :
    ((stepNodes N n0 h).map (·.1)).Nodup := by
  unfold stepNodes
  rw [← bumpAt_fst N n0] at hn
  exact List.Nodup.sublist (List.Sublist.map _ List.filter_sublist) hn

/-! ### the inner loop -/

theorem foldl_bumpIfHeavy (l : List Nat) : ∀ g : LGraph,
    l.foldl bumpIfHeavy g =
      { g with nodes := bumpAll g.nodes (l.filter fun n => !(isH (g.attrs n))) } := by
  induction l with
  | nil => intro g; rfl
  | cons n l ih =>
    intro g
    simp only [List.foldl_cons]
    by_cases hn : isH (g.attrs n) = true
    · have : bumpIfHeavy g n = g := by simp [bumpIfHeavy, hn]
      rw [this, ih g]
      simp [hn]
    · have h1 : bumpIfHeavy g n = { g with nodes := bumpAt g.nodes n } := by
        simp [bumpIfHeavy, hn, updAttrs, bumpAt]
      rw [h1, ih]
      have h2 : (l.filter fun m => !(isH (({ g with nodes := bumpAt g.nodes n } : LGraph).attrs m))) =
          l.filter fun m => !(isH (g.attrs m)) := by
        apply List.filter_congr
        intro m _
        rw [attrs_eq_attrsOf, attrs_eq_attrsOf]
        show (!isH (attrsOf (bumpAt g.nodes n) m)) = _
        rw [isH_attrsOf_bumpAt]
      rw [h2]
      simp [hn, bumpAll]

/-! ### the hydrogen sum -/

theorem hcnt_bump (a : Attrs) : hcnt (bump a) = hcnt a + 1 := by
  simp only [hcnt, bump, hraw_set]; omega

theorem hval_bump (p : Nat × Attrs) : hval (p.1, bump p.2) = hval p + 1 := by
  simp only [hval, hcnt_bump, isH_bump]; omega

theorem bumpAt_notin (N : List (Nat × Attrs)) (v : Nat) (hv : v ∉ N.map (·.1)) :
    bumpAt N v = N := by
  unfold bumpAt
  conv => rhs; rw [← List.map_id N]
  apply List.map_congr_left
  intro p hp
  have : ¬ p.1 = v := fun e => hv (e ▸ List.mem_map.2 ⟨p, hp, rfl⟩)
  simp [this]

theorem sum_hval_bumpAt (N : List (Nat × Attrs)) (v : Nat) (hn : (N.map (·.1)).Nodup)
    (hv : v ∈ N.map (·.1)) : ((bumpAt N v).map hval).sum = (N.map hval).sum + 1 := by
  induction N with
  | nil => simp at hv
  | cons p N ih =>
    have hb : bumpAt (p :: N) v = (if p.1 = v then (p.1, bump p.2) else p) :: bumpAt N v := rfl
    simp only [List.map_cons, List.nodup_cons] at hn
    rw [hb]
    simp only [List.map_cons, List.sum_cons]
    by_cases h1 : p.1 = v
    · rw [if_pos h1, hval_bump, bumpAt_notin N v (h1 ▸ hn.1)]; omega
    · rw [if_neg h1]
      have : v ∈ N.map (·.1) := by
        simp only [List.map_cons, List.mem_cons] at hv
        rcases hv with e | hv
        · exact absurd e.symm h1
        · exact hv
      rw [ih hn.2 this]; omega

theorem filter_ne_notin (N : List (Nat × Attrs)) (h : Nat) (hv : h ∉ N.map (·.1)) :
    N.filter (fun p => p.1 ≠ h) = N := by
  rw [List.filter_eq_self]
  intro p hp
  have : ¬ p.1 = h := fun e => hv (e ▸ List.mem_map.2 ⟨p, hp, rfl⟩)
  simp [this]

theorem sum_hval_filter_ne (N : List (Nat × Attrs)) (hn : (N.map (·.1)).Nodup)
    (p : Nat × Attrs) (hp : p ∈ N) :
    ((N.filter (fun q => q.1 ≠ p.1)).map hval).sum + hval p = (N.map hval).sum := by
  induction N with
  | nil => simp at hp
  | cons q N ih =>
    simp only [List.map_cons, List.nodup_cons] at hn
    rcases List.mem_cons.1 hp with rfl | hp'
    · have h3 : (p :: N).filter (fun q => q.1 ≠ p.1) = N.filter (fun q => q.1 ≠ p.1) := by
        simp
      rw [h3, filter_ne_notin N p.1 hn.1]
      simp only [List.map_cons, List.sum_cons]; omega
    · have h1 : ¬ q.1 = p.1 := fun e => hn.1 (e ▸ List.mem_map.2 ⟨p, hp', rfl⟩)
      have h3 : (q :: N).filter (fun q => q.1 ≠ p.1) = q :: N.filter (fun q => q.1 ≠ p.1) := by
        simp [h1]
      rw [h3]
      simp only [List.map_cons, List.sum_cons]
      have := ih hn.2 hp'
      omega

/-- an effective step keeps the sum: the heavy neighbour gains what the hydrogen node was worth. -/
theorem sum_hval_stepNodes (N : List (Nat × Attrs)) (n0 h : Nat) (hn : (N.map (·.1)).Nodup)
    (hn0 : n0 ∈ N.map (·.1)) (hne : n0 ≠ h) (ph : Nat × Attrs) (hph : ph ∈ N) (hph1 : ph.1 = h)
    (hH : isH ph.2 = true) (hc : hcnt ph.2 = 0) :
    ((stepNodes N n0 h).map hval).sum = (N.map hval).sum := by
  unfold stepNodes
  have hmem : ph ∈ bumpAt N n0 := by
    refine List.mem_map.2 ⟨ph, hph, ?_⟩
    have : ¬ ph.1 = n0 := fun e => hne (e.symm.trans hph1)
    simp [this]
  have h1 := sum_hval_filter_ne (bumpAt N n0) (by rw [bumpAt_fst]; exact hn) ph hmem
  rw [hph1, sum_hval_bumpAt N n0 hn hn0] at h1
  have : hval ph = 1 := by simp [hval, hH, hc]
  omega

/-! ### one iteration of the outer loop -/

/-- what the induction carries: distinct ids, edges join existing nodes, valence guard. -/
def HInv (g : LGraph) : Prop :=
  g.ids.Nodup ∧ (∀ e ∈ g.edges, e.1 ∈ g.ids ∧ e.2.1 ∈ g.ids) ∧ HValence g

theorem nbr_mem_ids (g : LGraph) (he : ∀ e ∈ g.edges, e.1 ∈ g.ids ∧ e.2.1 ∈ g.ids) (v n : Nat)
    (hn : n ∈ g.neighbors v) : n ∈ g.ids ∧ v ∈ g.ids := by
  rw [neighbors_eq] at hn
  obtain ⟨e, hem, hc⟩ := mem_nbrsOf _ _ _ hn
  obtain ⟨h1, h2⟩ := he e hem
  rcases hc with ⟨e1, e2⟩ | ⟨e1, e2⟩
  · exact ⟨e2 ▸ h2, e1 ▸ h1⟩
  · exact ⟨e2 ▸ h1, e1 ▸ h2⟩

theorem singleton_of_length_le_one {α} (l : List α) (x : α) (hx : x ∈ l) (hl : l.length ≤ 1) :
    l = [x] := by
  match l, hx, hl with
  | [a], hx, _ => simp at hx; rw [hx]
  | _ :: _ :: _, _, hl => simp at hl

/-- Either the step does nothing, or it bumps exactly one heavy node `n0` and removes the
hydrogen node `h`. -/
theorem implStep_spec (g : LGraph) (h : Nat) (hinv : HInv g)
    (hh : h ∈ g.ids → isH (g.attrs h) = true) :
    implStep g h = g ∨
    ∃ n0 ph, n0 ≠ h ∧ n0 ∈ g.ids ∧ isH (g.attrs n0) = false ∧
      ph ∈ g.nodes ∧ ph.1 = h ∧ isH ph.2 = true ∧ hcnt ph.2 = 0 ∧
      implStep g h = ⟨stepNodes g.nodes n0 h, stepEdges g.edges h⟩ := by
  obtain ⟨hnd, hed, hval⟩ := hinv
  unfold implStep
  by_cases hall : (g.neighbors h).all (fun n => isH (g.attrs n)) = true
  · left; rw [if_pos hall]
  · right
    rw [if_neg hall]
    have : ∃ n ∈ g.neighbors h, isH (g.attrs n) = false := by
      simpa using hall
    obtain ⟨n0, hn0, hn0H⟩ := this
    obtain ⟨hn0ids, hhids⟩ := nbr_mem_ids g hed h n0 hn0
    have hhH := hh hhids
    obtain ⟨ph, hph, hph1⟩ := List.mem_map.1 hhids
    have hattr : g.attrs ph.1 = ph.2 := attrs_eq_of_mem g hnd ph hph
    have hphH : isH ph.2 = true := by rw [← hattr, hph1]; exact hhH
    obtain ⟨hc, hvl⟩ := hval ph hph hphH
    rw [hph1] at hvl
    have hF : ((g.neighbors h).filter fun n => !(isH (g.attrs n))) = [n0] := by
      apply singleton_of_length_le_one _ _ _ hvl
      exact List.mem_filter.2 ⟨hn0, by simp [hn0H]⟩
    refine ⟨n0, ph, ?_, hn0ids, hn0H, hph, hph1, hphH, hc, ?_⟩
    · intro e; rw [e, hhH] at hn0H; exact Bool.noConfusion hn0H
    · rw [foldl_bumpIfHeavy, hF]
      rfl

/-- an effective step keeps the invariant. -/
theorem HInv_step (g : LGraph) (h n0 : Nat) (hinv : HInv g) (hn0H : isH (g.attrs n0) = false) :
    HInv ⟨stepNodes g.nodes n0 h, stepEdges g.edges h⟩ := by
  obtain ⟨hnd, hed, hval⟩ := hinv
  refine ⟨nodup_ids_stepNodes _ _ _ hnd, ?_, ?_⟩
  · intro e he
    obtain ⟨he1, he2⟩ := List.mem_filter.1 he
    have he2 : e.1 ≠ h ∧ e.2.1 ≠ h := by simpa using he2
    obtain ⟨h1, h2⟩ := hed e he1
    exact ⟨(mem_ids_stepNodes _ _ _ _).2 ⟨h1, he2.1⟩, (mem_ids_stepNodes _ _ _ _).2 ⟨h2, he2.2⟩⟩
  · intro p hp hpH
    have hp' : p ∈ bumpAt g.nodes n0 := (List.mem_filter.1 hp).1
    obtain ⟨q, hq, hqp⟩ := List.mem_map.1 hp'
    by_cases hqn : q.1 = n0
    · -- the bumped node is heavy
      exfalso
      rw [if_pos hqn] at hqp
      rw [← hqp] at hpH
      have : isH q.2 = false := by
        rw [← attrs_eq_of_mem g hnd q hq, hqn]; exact hn0H
      rw [isH_bump, this] at hpH
      exact Bool.noConfusion hpH
    · rw [if_neg hqn] at hqp
      subst hqp
      obtain ⟨hc, hvl⟩ := hval q hq hpH
      refine ⟨hc, Nat.le_trans ?_ hvl⟩
      -- neighbours only shrink, their kind is unchanged
      unfold heavyNbrs
      have hsub : List.Sublist ((⟨stepNodes g.nodes n0 h, stepEdges g.edges h⟩ : LGraph).neighbors q.1)
          (g.neighbors q.1) := by
        rw [neighbors_eq, neighbors_eq]
        exact List.Sublist.filterMap _ List.filter_sublist
      have hcongr : ((⟨stepNodes g.nodes n0 h, stepEdges g.edges h⟩ : LGraph).neighbors q.1).filter
            (fun n => !(isH ((⟨stepNodes g.nodes n0 h, stepEdges g.edges h⟩ : LGraph).attrs n))) =
          ((⟨stepNodes g.nodes n0 h, stepEdges g.edges h⟩ : LGraph).neighbors q.1).filter
            (fun n => !(isH (g.attrs n))) := by
        apply List.filter_congr
        intro n hn
        rw [neighbors_eq] at hn
        obtain ⟨e, he, hcase⟩ := mem_nbrsOf _ _ _ hn
        have he2 : e.1 ≠ h ∧ e.2.1 ≠ h := by simpa using (List.mem_filter.1 he).2
        have hnh : n ≠ h := by
          rcases hcase with ⟨_, e2⟩ | ⟨_, e2⟩
          · exact e2 ▸ he2.2
          · exact e2 ▸ he2.1
        rw [attrs_eq_attrsOf, attrs_eq_attrsOf]
        show (!isH (attrsOf (stepNodes g.nodes n0 h) n)) = _
        rw [isH_attrsOf_stepNodes _ _ _ _ hnh]
      rw [hcongr]
      exact (List.Sublist.filter _ hsub).length_le

/-! ### the outer loop -/

theorem totalH_foldl_implStep (l : List Nat) : ∀ g : LGraph, HInv g →
    (∀ h ∈ l, h ∈ g.ids → isH (g.attrs h) = true) →
    totalH (l.foldl implStep g) = totalH g := by
  induction l with
  | nil => intro g _ _; rfl
  | cons h l ih =>
    intro g hinv hl
    simp only [List.foldl_cons]
    rcases implStep_spec g h hinv (hl h List.mem_cons_self) with hs | ⟨n0, ph, hne, hn0, hn0H, hph, hph1, hphH, hc, hs⟩
    · rw [hs]
      exact ih g hinv fun x hx => hl x (List.mem_cons_of_mem _ hx)
    · rw [hs]
      rw [ih _ (HInv_step g h n0 hinv hn0H)]
      · rw [totalH_eq, totalH_eq]
        exact sum_hval_stepNodes g.nodes n0 h hinv.1 hn0 hne ph hph hph1 hphH hc
      · intro x hx hxids
        obtain ⟨hx1, hx2⟩ := (mem_ids_stepNodes g.nodes n0 h x).1 hxids
        have := hl x (List.mem_cons_of_mem _ hx) hx1
        rw [attrs_eq_attrsOf] at this ⊢
        show isH (attrsOf (stepNodes g.nodes n0 h) x) = true
        rw [isH_attrsOf_stepNodes _ _ _ _ hx2]; exact this

/-- `h_to_implicit` keeps the number of hydrogens of the molecule when every hydrogen node is
monovalent and carries no count of its own. -/
theorem totalH_hToImplicit' (G : LGraph) (hwf : G.WF) (ht : HTyped G) (hv : HValence G) :
    totalH (hToImplicit G) = totalH G := by
  have _ := ht
  obtain ⟨hnd, hed, _⟩ := hwf
  unfold hToImplicit
  apply totalH_foldl_implStep
  · exact ⟨hnd, fun e he => ⟨(hed e he).1, (hed e he).2.1⟩, hv⟩
  · intro h hh _
    obtain ⟨p, hp, rfl⟩ := List.mem_map.1 hh
    obtain ⟨hp1, hp2⟩ := List.mem_filter.1 hp
    rw [attrs_eq_of_mem G hnd p hp1]
    exact hp2

end SynKit.Repr

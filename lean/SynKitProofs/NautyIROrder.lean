import SynKitModel.NautyIR
import SynKitProofs.CanonOrder
import Mathlib.Data.List.Nodup
import Mathlib.Data.List.Perm.Basic
import Mathlib.Data.List.Forall2
/-!
# Order and list lemmas for the individualisation–refinement model (C08)

`irDedup`, `sortNat`, `irSplitBy` (grouping by a key is equivariant), the signature order
`IRSig.lt` is a strict total order, and the relation between partitions of two graphs related by a
node map.
-/
set_option linter.unusedSimpArgs false
set_option linter.unusedVariables false
namespace SynKit.Canon
open SynKit

/-! ## `irDedup` -/

theorem mem_irDedup {α : Type} [DecidableEq α] (x : α) (l : List α) : x ∈ irDedup l ↔ x ∈ l := by
  induction l with
  | nil => simp [irDedup]
  | cons y ys ih =>
    simp only [irDedup]
    split
    · rename_i h
      rw [ih, List.mem_cons]
      constructor
      · exact Or.inr
      · rintro (rfl | h')
        · exact (ih).1 h
        · exact h'
    · rw [List.mem_cons, List.mem_cons, ih]

theorem nodup_irDedup {α : Type} [DecidableEq α] (l : List α) : (irDedup l).Nodup := by
  induction l with
  | nil => simp [irDedup]
  | cons y ys ih =>
    simp only [irDedup]
    split
    · exact ih
    · rename_i h
      exact List.nodup_cons.2 ⟨h, ih⟩

theorem irDedup_perm_of_mem_iff {α : Type} [DecidableEq α] (l₁ l₂ : List α) (h : ∀ x, x ∈ l₁ ↔ x ∈ l₂) :
    (irDedup l₁).Perm (irDedup l₂) := by
  rw [List.perm_ext_iff_of_nodup (nodup_irDedup l₁) (nodup_irDedup l₂)]
  intro x
  rw [mem_irDedup, mem_irDedup, h]

theorem irDedup_perm_of_perm {α : Type} [DecidableEq α] (l₁ l₂ : List α) (h : l₁.Perm l₂) :
    (irDedup l₁).Perm (irDedup l₂) :=
  irDedup_perm_of_mem_iff l₁ l₂ fun _ => h.mem_iff

/-! ## `sortNat` -/

theorem sortNat_perm (l : List Nat) : (sortNat l).Perm l := sortBy_perm natLt l

theorem mem_sortNat (x : Nat) (l : List Nat) : x ∈ sortNat l ↔ x ∈ l := (sortNat_perm l).mem_iff

theorem sortNat_length (l : List Nat) : (sortNat l).length = l.length := (sortNat_perm l).length_eq

/-! ## Strict total orders: sorting depends on the multiset only -/

theorem sortBy_eq_of_perm_strictTotal {α : Type} (lt : α → α → Bool) (h : StrictTotal lt)
    (xs ys : List α) (hp : xs.Perm ys) : sortBy lt xs = sortBy lt ys :=
  sortBy_eq_of_perm lt h.irrefl h.trans xs ys hp (fun a _ b _ => by
    rcases h.total a b with h1 | h1 | h1
    · exact Or.inr (Or.inl h1)
    · exact Or.inl h1
    · exact Or.inr (Or.inr h1))

/-! ## Cells and partitions related by a node map -/

/-- The cell `c'` of the second graph corresponds to the cell `c` of the first under `g`
(cells are kept sorted by id, so they correspond up to order). -/
def CellRel (g : Nat → Nat) (c' c : List Nat) : Prop := (c'.map g).Perm c

/-- Partitions correspond cell by cell. -/
def PartRel (g : Nat → Nat) (P' P : List (List Nat)) : Prop := List.Forall₂ (CellRel g) P' P

theorem CellRel.length_eq {g : Nat → Nat} {c' c : List Nat} (h : CellRel g c' c) : c'.length = c.length := by
  have := List.Perm.length_eq h
  simpa using this

theorem PartRel.length_eq {g : Nat → Nat} {P' P : List (List Nat)} (h : PartRel g P' P) : P'.length = P.length :=
  List.Forall₂.length_eq h

theorem forall₂_flatMap {α β γ δ : Type} {R : α → β → Prop} {S : γ → δ → Prop}
    {f : α → List γ} {f' : β → List δ} {l : List α} {l' : List β}
    (h : List.Forall₂ R l l') (hf : ∀ a b, R a b → List.Forall₂ S (f a) (f' b)) :
    List.Forall₂ S (l.flatMap f) (l'.flatMap f') := by
  induction h with
  | nil => simp
  | cons hab _ ih =>
    simp only [List.flatMap_cons]
    exact List.rel_append (hf _ _ hab) ih

theorem forall₂_map_same {α β γ : Type} {S : β → γ → Prop} (f : α → β) (f' : α → γ) (l : List α)
    (h : ∀ a ∈ l, S (f a) (f' a)) : List.Forall₂ S (l.map f) (l.map f') := by
  induction l with
  | nil => simp
  | cons x xs ih =>
    simp only [List.map_cons]
    exact List.Forall₂.cons (h x List.mem_cons_self) (ih fun a ha => h a (List.mem_cons_of_mem _ ha))

/-- Grouping by a key commutes with a node map that preserves the key. -/
theorem irSplitBy_rel {κ : Type} [DecidableEq κ] (lt : κ → κ → Bool) (hlt : StrictTotal lt)
    (g : Nat → Nat) (key' key : Nat → κ) (c' c : List Nat)
    (hc : CellRel g c' c) (hk : ∀ w ∈ c', key (g w) = key' w) :
    PartRel g (irSplitBy lt key' c') (irSplitBy lt key c) := by
  unfold irSplitBy
  have hkeys : sortBy lt (irDedup (c'.map key')) = sortBy lt (irDedup (c.map key)) := by
    apply sortBy_eq_of_perm_strictTotal lt hlt
    apply irDedup_perm_of_perm
    have e : c'.map key' = (c'.map g).map key := by
      rw [List.map_map]
      apply List.map_congr_left
      intro w hw
      exact (hk w hw).symm
    rw [e]
    exact hc.map key
  rw [hkeys]
  apply forall₂_map_same
  intro k _
  unfold CellRel
  refine ((sortNat_perm _).map g).trans (List.Perm.trans ?_ (sortNat_perm _).symm)
  have e : (c'.filter fun v => decide (key' v = k)).map g = (c'.map g).filter fun v => decide (key v = k) := by
    rw [List.filter_map]
    congr 1
    apply List.filter_congr
    intro w hw
    simp only [Function.comp_apply, hk w hw]
  rw [e]
  exact hc.filter _

/-! ## The signature order -/

theorem IRSig.ext' (a b : IRSig) (h1 : a.attrs = b.attrs) (h2 : a.degree = b.degree)
    (h3 : a.counts = b.counts) (h4 : a.edges = b.edges) : a = b := by
  cases a; cases b; simp_all

theorem IRSig.lt_strictTotal : StrictTotal IRSig.lt := by
  have h := lexIte_strictTotal Val.ltList (lexIte natLt (lexIte (ltLex natLt) (ltLex Val.ltList)))
    Val.ltList_strictTotal
    (lexIte_strictTotal natLt _ natLt_strictTotal
      (lexIte_strictTotal _ _ (ltLex_strictTotal natLt natLt_strictTotal)
        (ltLex_strictTotal Val.ltList Val.ltList_strictTotal)))
  refine h.pullback (fun s : IRSig => (s.attrs, s.degree, s.counts, s.edges)) ?_ IRSig.lt ?_
  · intro a b e
    simp only [Prod.mk.injEq] at e
    exact IRSig.ext' a b e.1 e.2.1 e.2.2.1 e.2.2.2
  · intro a b
    simp only [IRSig.lt, lexIte]

end SynKit.Canon

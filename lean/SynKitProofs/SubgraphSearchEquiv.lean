import SynKitModel.SubgraphSearch
import SynKitModel.ReactorInv
import SynKitProofs.SubgraphSearchLemmas
import SynKitProofs.ReactorInvLemmas
import SynKitProofs.ReactorLink
/-!
# The component-aware search (C06 model) commutes with renumbering host and pattern

`findComp sel (H.relabel f) (P.relabel π) k strict thr = (findComp sel H P k strict thr).map (f ∘ · ∘ π⁻¹)`
for injective `f`, `π` — a list equality (order included), with every limit (`max_results`,
`strict_cc_count`, `threshold`) in place and no well-formedness hypothesis.  Hence
`SearchEquivariant` for the component-aware and the fallback strategy (used by C05).

Chain: connected components (`GraphAlg.components`, label propagation) → `sub` → per-component
embeddings (`allMonos`, already equivariant) → stable sort by length → the back-tracking assembly in
its closed form (`enum`, `findComp_eq`).
-/
namespace SynKit.SubgraphSearch
open SynKit SynKit.Match SynKit.GraphAlg SynKit.ReactorInv

/-! ## connected components -/

section Components
variable {f : Nat → Nat} (hf : Function.Injective f)

/-- renumber a labelling -/
def mapL (f : Nat → Nat) (L : List (Nat × Nat)) : List (Nat × Nat) := L.map fun p => (f p.1, f p.2)

include hf in
theorem lookup_mapL (x : Nat) (L : List (Nat × Nat)) : lookup (f x) (mapL f L) = (lookup x L).map f := by
  induction L with
  | nil => rfl
  | cons p rest ih =>
    simp only [mapL, List.map_cons, lookup] at ih ⊢
    by_cases h : p.1 = x
    · simp [h]
    · have h' : ¬ f p.1 = f x := fun e => h (hf e)
      simp only [beq_iff_eq, h, h', if_false]
      exact ih

include hf in
theorem relabel_map (la lb l : Nat) : GraphAlg.relabel (f la) (f lb) (f l) = f (GraphAlg.relabel la lb l) := by
  unfold GraphAlg.relabel
  by_cases h : l = la
  · simp [h]
  · have h' : ¬ f l = f la := fun e => h (hf e)
    simp [h, h']

include hf in
theorem step_mapL (L : List (Nat × Nat)) (e : Nat × Nat) :
    step (mapL f L) (f e.1, f e.2) = mapL f (step L e) := by
  unfold step
  simp only [lookup_mapL hf]
  cases lookup e.1 L with
  | none => rfl
  | some la =>
    cases lookup e.2 L with
    | none => rfl
    | some lb =>
      simp only [Option.map_some, mapL, List.map_map]
      apply List.map_congr_left
      intro p _
      simp only [Function.comp, relabel_map hf]

include hf in
theorem labels_map (nodes : List Nat) (edges : List (Nat × Nat)) :
    labels (nodes.map f) (edges.map fun e => (f e.1, f e.2)) = mapL f (labels nodes edges) := by
  unfold labels
  have hinit : initLabels (nodes.map f) = mapL f (initLabels nodes) := by
    simp [initLabels, mapL, List.map_map, Function.comp_def]
  rw [hinit]
  generalize initLabels nodes = L
  induction edges generalizing L with
  | nil => rfl
  | cons e rest ih =>
    simp only [List.map_cons, List.foldl_cons]
    rw [step_mapL hf, ih]

include hf in
theorem classOf_mapL (L : List (Nat × Nat)) (l : Nat) : classOf (mapL f L) (f l) = (classOf L l).map f := by
  unfold classOf mapL
  rw [List.filter_map, List.map_map, List.map_map]
  have : ((fun p : Nat × Nat => p.2 == f l) ∘ fun p : Nat × Nat => (f p.1, f p.2)) = fun p => p.2 == l := by
    funext p
    simp only [Function.comp]
    by_cases h : p.2 = l
    · simp [h]
    · have h' : ¬ f p.2 = f l := fun e => h (hf e)
      simp [h, h']
  rw [this]
  rfl

include hf in
theorem isFirst_mapL (L : List (Nat × Nat)) (p : Nat × Nat) :
    isFirst (mapL f L) (f p.1, f p.2) = isFirst L p := by
  unfold isFirst mapL
  rw [List.find?_map]
  have : ((fun q : Nat × Nat => q.2 == f p.2) ∘ fun p : Nat × Nat => (f p.1, f p.2)) = fun q => q.2 == p.2 := by
    funext q
    simp only [Function.comp]
    by_cases h : q.2 = p.2
    · simp [h]
    · have h' : ¬ f q.2 = f p.2 := fun e => h (hf e)
      simp [h, h']
  rw [this]
  cases L.find? (fun q => q.2 == p.2) with
  | none => rfl
  | some q =>
    simp only [Option.map_some]
    by_cases h : q.1 = p.1
    · simp [h]
    · have h' : ¬ f q.1 = f p.1 := fun e => h (hf e)
      simp [h, h']

include hf in
theorem componentsOf_mapL (L : List (Nat × Nat)) : componentsOf (mapL f L) = (componentsOf L).map (List.map f) := by
  unfold componentsOf
  have h1 : (mapL f L).filter (isFirst (mapL f L)) = mapL f (L.filter (isFirst L)) := by
    unfold mapL
    rw [List.filter_map]
    congr 1
    apply List.filter_congr
    intro p _
    simp only [Function.comp]
    exact isFirst_mapL hf L p
  rw [h1]
  unfold mapL
  rw [List.map_map, List.map_map]
  apply List.map_congr_left
  intro p _
  simp only [Function.comp]
  exact classOf_mapL hf L p.2

include hf in
theorem components_map (nodes : List Nat) (edges : List (Nat × Nat)) :
    components (nodes.map f) (edges.map fun e => (f e.1, f e.2)) = (components nodes edges).map (List.map f) := by
  unfold components
  rw [labels_map hf, componentsOf_mapL hf]

include hf in
theorem comps_relabel (G : LGraph) : comps (G.relabel f) = (comps G).map (List.map f) := by
  unfold comps
  have h1 : (G.relabel f).ids = G.ids.map f := SynKit.Match.relabel_ids G f
  have h2 : endpoints (G.relabel f) = (endpoints G).map fun e => (f e.1, f e.2) := by
    simp [endpoints, LGraph.relabel, List.map_map, Function.comp_def]
  rw [h1, h2, components_map hf]

include hf in
theorem contains_map_inj (c : List Nat) (x : Nat) : (c.map f).contains (f x) = c.contains x := by
  rw [Bool.eq_iff_iff, List.contains_iff_mem, List.contains_iff_mem, List.mem_map_of_injective hf]

include hf in
theorem sub_relabel (G : LGraph) (c : List Nat) : sub (G.relabel f) (c.map f) = (sub G c).relabel f := by
  unfold sub LGraph.relabel
  simp only [List.filter_map, LGraph.mk.injEq]
  constructor
  · congr 1
    apply List.filter_congr
    intro n _
    simp only [Function.comp, contains_map_inj hf]
  · congr 1
    apply List.filter_congr
    intro e _
    simp only [Function.comp, contains_map_inj hf]

include hf in
theorem compGraphs_relabel (G : LGraph) :
    (comps (G.relabel f)).map (sub (G.relabel f)) = ((comps G).map (sub G)).map (·.relabel f) := by
  rw [comps_relabel hf, List.map_map, List.map_map]
  apply List.map_congr_left
  intro c _
  simp only [Function.comp]
  exact sub_relabel hf G c

end Components

/-! ## per-component embeddings, sorting, assembly -/

/-- renumber a match on both sides -/
def rb (f π : Nat → Nat) (m : Mapping) : Mapping := relabelHost f (relabelPat π m)

/-- renumber a tagged per-component embedding -/
def rbT (f π : Nat → Nat) (im : Nat × Mapping) : Nat × Mapping := (im.1, rb f π im.2)

theorem rb_eq (f π : Nat → Nat) (m : Mapping) : rb f π m = m.map fun x => (π x.1, f x.2) := by
  simp [rb, relabelHost, relabelPat, List.map_map, Function.comp_def]

theorem rb_append (f π : Nat → Nat) (a b : Mapping) : rb f π (a ++ b) = rb f π a ++ rb f π b := by
  simp [rb_eq]

theorem rb_nil (f π : Nat → Nat) : rb f π [] = [] := rfl

section Assembly
variable {f π : Nat → Nat} (hf : Function.Injective f) (hπ : Function.Injective π)

include hf hπ in
theorem allMonos_relabel_both (sel : Sel) (H P : LGraph) :
    allMonos sel (H.relabel f) (P.relabel π) = (allMonos sel H P).map (rb f π) := by
  rw [allMonos_relabel_host_list hf, allMonos_relabel_pattern_list hπ, List.map_map]
  rfl

include hf hπ in
theorem perComponent_relabel (sel : Sel) (hostCcs : List LGraph) (pc : LGraph) :
    perComponent sel (hostCcs.map (·.relabel f)) (pc.relabel π) =
      (perComponent sel hostCcs pc).map (rbT f π) := by
  unfold perComponent
  rw [List.zipIdx_map, List.filter_map, List.flatMap_map, List.map_flatMap]
  have hp : ((fun hi : LGraph × Nat => decide (hi.1.nodes.length ≥ (pc.relabel π).nodes.length)) ∘
      Prod.map (fun x : LGraph => x.relabel f) id) = fun hi => decide (hi.1.nodes.length ≥ pc.nodes.length) := by
    funext hi
    simp [LGraph.relabel]
  rw [hp]
  apply SynKit.ReactorInv.flatMap_congr'
  intro hi _
  simp only [Prod.map, id]
  rw [allMonos_relabel_both hf hπ, List.map_map, List.map_map]
  rfl

theorem insertByLen_mapLen {α β : Type} (g : α → β) (x : List α) (ys : List (List α)) :
    insertByLen (x.map g) (ys.map (List.map g)) = (insertByLen x ys).map (List.map g) := by
  induction ys with
  | nil => rfl
  | cons y ys ih =>
    simp only [List.map_cons, insertByLen, List.length_map]
    split
    · rfl
    · rw [ih]; rfl

theorem sortByLen_mapLen {α β : Type} (g : α → β) (xs : List (List α)) :
    sortByLen (xs.map (List.map g)) = (sortByLen xs).map (List.map g) := by
  unfold sortByLen
  have : ∀ init : List (List α),
      (xs.map (List.map g)).foldl (fun acc x => insertByLen x acc) (init.map (List.map g)) =
        (xs.foldl (fun acc x => insertByLen x acc) init).map (List.map g) := by
    induction xs with
    | nil => intro init; rfl
    | cons x xs ih =>
      intro init
      simp only [List.map_cons, List.foldl_cons]
      rw [insertByLen_mapLen, ih]
  exact this []

include hπ in
theorem get?_rb (m : Mapping) (p : Nat) : (rb f π m).get? (π p) = (m.get? p).map f := by
  rw [rb_eq]
  unfold Mapping.get?
  rw [List.find?_map]
  have : ((fun x : Nat × Nat => decide (x.1 = π p)) ∘ fun x : Nat × Nat => (π x.1, f x.2)) =
      fun x => decide (x.1 = p) := by
    funext x; simp only [Function.comp]; exact decide_eq_decide.2 hπ.eq_iff
  rw [this]
  cases m.find? _ <;> rfl

include hπ in
theorem normalize_relabel (P : LGraph) (acc : Mapping) :
    normalize (P.relabel π) (rb f π acc) = rb f π (normalize P acc) := by
  unfold normalize
  rw [SynKit.Match.relabel_ids, List.filterMap_map]
  conv_rhs => rw [rb_eq, List.map_filterMap]
  apply List.filterMap_congr
  intro p _
  simp only [Function.comp]
  rw [get?_rb hπ]
  cases acc.get? p <;> rfl

include hπ in
theorem skip_relabel (used : List Nat) (acc : Mapping) (hi : Nat) (m : Mapping) :
    skip used (rb f π acc) hi (rb f π m) = skip used acc hi m := by
  unfold skip
  congr 1
  rw [rb_eq, rb_eq, List.any_map]
  congr 1
  funext ph
  simp only [Function.comp]
  rw [List.any_map]
  congr 1
  funext qh
  simp only [Function.comp]
  exact decide_eq_decide.2 hπ.eq_iff

include hπ in
theorem enum_relabel (P : LGraph) (levels : List (List (Nat × Mapping))) (used : List Nat) (acc : Mapping) :
    enum (P.relabel π) (levels.map (List.map (rbT f π))) used (rb f π acc) =
      (enum P levels used acc).map (rb f π) := by
  induction levels generalizing used acc with
  | nil => simp only [List.map_nil, enum, List.map_cons, normalize_relabel hπ]
  | cons lvl rest ih =>
    simp only [List.map_cons, enum, List.flatMap_map, List.map_flatMap]
    apply SynKit.ReactorInv.flatMap_congr'
    intro hm _
    simp only [rbT, skip_relabel hπ]
    split
    · rfl
    · rw [← rb_append, ih]

theorem collect_map {α β : Type} (g : α → β) (k thr : Nat) (l : List α) :
    collect k thr (l.map g) [] = (collect k thr l []).map g := by
  rw [collect_eq, collect_eq]
  simp only [List.length_map]
  split
  · rw [List.map_take]
  · split
    · rfl
    · rfl

include hf hπ in
theorem perCc_relabel (sel : Sel) (H P : LGraph) :
    perCc sel (H.relabel f) (P.relabel π) = (perCc sel H P).map (List.map (rbT f π)) := by
  unfold perCc
  rw [compGraphs_relabel hf, compGraphs_relabel hπ]
  generalize (comps H).map (sub H) = hostCcs
  generalize (comps P).map (sub P) = patCcs
  rw [List.map_map, List.map_map]
  apply List.map_congr_left
  intro c _
  simp only [Function.comp]
  exact perComponent_relabel hf hπ sel _ _

include hf hπ in
/-- **The component-aware search commutes with renumbering**, limits included. -/
theorem findComp_relabel (sel : Sel) (H P : LGraph) (k : Nat) (strict : Bool) (thr : Nat) :
    findComp sel (H.relabel f) (P.relabel π) k strict thr = (findComp sel H P k strict thr).map (rb f π) := by
  rw [findComp_eq, findComp_eq]
  have hcP : (comps (P.relabel π)).length = (comps P).length := by rw [comps_relabel hπ, List.length_map]
  have hcH : (comps (H.relabel f)).length = (comps H).length := by rw [comps_relabel hf, List.length_map]
  rw [hcP, hcH, perCc_relabel hf hπ]
  have hany1 : ((perCc sel H P).map (List.map (rbT f π))).any (fun maps => maps.isEmpty) =
      (perCc sel H P).any (fun maps => maps.isEmpty) := by
    rw [List.any_map]; congr 1; funext maps; simp [Function.comp]
  have hany2 : ((perCc sel H P).map (List.map (rbT f π))).any (fun maps => decide (maps.length > thr)) =
      (perCc sel H P).any (fun maps => decide (maps.length > thr)) := by
    rw [List.any_map]; congr 1; funext maps; simp [Function.comp]
  rw [hany1, hany2]
  split
  · rfl
  · split
    · unfold findAll
      rw [allMonos_relabel_both hf hπ, collect_map]
    · split
      · rfl
      · split
        · rfl
        · split
          · rfl
          · unfold compEnum
            have := enum_relabel (f := f) hπ P (sortByLen (perCc sel H P)) [] []
            rw [rb_nil] at this
            rw [perCc_relabel hf hπ, sortByLen_mapLen, this, List.map_take]

end Assembly

/-- **`SearchEquivariant` for the component-aware strategy** of the C06 model, for every setting of
`max_results`, `strict_cc_count` and `threshold`. -/
theorem findComp_searchEquivariant (sel : Sel) (k : Nat) (strict : Bool) (thr : Nat) :
    SearchEquivariant (fun H P => findComp sel H P k strict thr) := by
  intro H P f π hf hπ m
  simp only [findComp_relabel hf hπ, List.mem_map]
  constructor
  · rintro ⟨m₀, h, rfl⟩; exact ⟨m₀, h, rfl⟩
  · rintro ⟨m₀, h, rfl⟩; exact ⟨m₀, h, rfl⟩

/-! ## the component-aware search does not read `atom_map` -/

section NoMap
open SynKit.ReactorLink

theorem comps_noMap (P : LGraph) : comps (noMap P) = comps P := by
  unfold comps
  rw [noMap_ids]
  rfl

theorem sub_noMap (P : LGraph) (c : List Nat) : sub (noMap P) c = noMap (sub P c) := by
  unfold sub noMap
  simp only [List.filter_map, LGraph.mk.injEq, and_true]
  rfl

theorem perComponent_noMap (sel : Sel) (hk : "atom_map" ∉ sel.nodeKeys) (hostCcs : List LGraph) (pc : LGraph) :
    perComponent sel hostCcs (noMap pc) = perComponent sel hostCcs pc := by
  unfold perComponent
  have hl : (noMap pc).nodes.length = pc.nodes.length := by simp [noMap]
  rw [hl]
  apply SynKit.ReactorInv.flatMap_congr'
  intro hi _
  rw [allMonos_noMap sel hk]

theorem perCc_noMap (sel : Sel) (hk : "atom_map" ∉ sel.nodeKeys) (H P : LGraph) :
    perCc sel H (noMap P) = perCc sel H P := by
  unfold perCc
  rw [comps_noMap, List.map_map, List.map_map]
  apply List.map_congr_left
  intro c _
  simp only [Function.comp]
  rw [sub_noMap, perComponent_noMap sel hk]

theorem enum_noMap (P : LGraph) (levels : List (List (Nat × Mapping))) (used : List Nat) (acc : Mapping) :
    enum (noMap P) levels used acc = enum P levels used acc := by
  induction levels generalizing used acc with
  | nil => simp only [enum, normalize, noMap_ids]
  | cons lvl rest ih =>
    simp only [enum]
    apply SynKit.ReactorInv.flatMap_congr'
    intro hm _
    rw [ih]

/-- The component-aware search gives the same matches for a pattern with and without `atom_map`
(unless `atom_map` is a selected attribute). -/
theorem findComp_noMap (sel : Sel) (hk : "atom_map" ∉ sel.nodeKeys) (H P : LGraph) (k : Nat) (strict : Bool) (thr : Nat) :
    findComp sel H (noMap P) k strict thr = findComp sel H P k strict thr := by
  rw [findComp_eq, findComp_eq, comps_noMap, perCc_noMap sel hk]
  unfold findAll compEnum
  rw [allMonos_noMap sel hk, perCc_noMap sel hk, enum_noMap]

end NoMap

end SynKit.SubgraphSearch

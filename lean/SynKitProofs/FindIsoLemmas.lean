import SynKitModel.FindIso
import SynKitProofs.GraphMatcherEngineLemmas
/-! Helper lemmas for C07: the search-free certificate checkers, the invariants of isomorphic graphs and
`find_graph_isomorphism` (`SynKitModel/FindIso.lean`). -/
namespace SynKit.GME
open SynKit.Match

/-! ## the executable checkers are the specifications -/

theorem isMonoB_iff' (sel : Sel) (H P : LGraph) (m : Mapping) : isMonoB sel H P m = true ↔ IsMono sel H P m := by
  unfold isMonoB IsMono
  simp only [Bool.and_eq_true, decide_eq_true_eq, List.all_eq_true, List.contains_iff_mem]
  constructor
  · rintro ⟨⟨⟨h1, h2⟩, h3⟩, h4⟩
    refine ⟨h1, h2, fun ph hph => h3 ph hph, ?_⟩
    intro e he
    have := h4 e he
    cases g1 : m.get? e.1 with
    | none => simp [g1] at this
    | some hu =>
      cases g2 : m.get? e.2.1 with
      | none => simp [g1, g2] at this
      | some hv =>
        simp only [g1, g2] at this
        cases g3 : H.edge? hu hv with
        | none => simp [g3] at this
        | some ea =>
          simp only [g3] at this
          exact ⟨hu, hv, ea, rfl, rfl, g3, this⟩
  · rintro ⟨h1, h2, h3, h4⟩
    refine ⟨⟨⟨h1, h2⟩, fun ph hph => h3 ph hph⟩, ?_⟩
    intro e he
    obtain ⟨hu, hv, ea, g1, g2, g3, g4⟩ := h4 e he
    simp [g1, g2, g3, g4]

theorem nonEdgesB_iff (H P : LGraph) (m : Mapping) :
    nonEdgesB H P m = true ↔
      ∀ p q hp hq, m.get? p = some hp → m.get? q = some hq → P.hasEdge p q = false → H.hasEdge hp hq = false := by
  unfold nonEdgesB
  rw [List.all_eq_true]
  constructor
  · intro h p q hp hq g1 g2 hne
    have h1 := h (p, hp) (mem_of_get? m p hp g1)
    simp only [g1] at h1
    rw [List.all_eq_true] at h1
    have h2 := h1 (q, hq) (mem_of_get? m q hq g2)
    simp only [g2, hne, Bool.false_or, Bool.not_eq_true'] at h2
    exact h2
  · intro h a _
    cases g1 : m.get? a.1 with
    | none => rfl
    | some hp =>
      simp only
      rw [List.all_eq_true]
      intro b _
      cases g2 : m.get? b.1 with
      | none => rfl
      | some hq =>
        simp only
        cases hpe : P.hasEdge a.1 b.1 with
        | true => rfl
        | false => rw [h a.1 b.1 hp hq g1 g2 hpe]; rfl

theorem isInducedB_iff' (sel : Sel) (H P : LGraph) (m : Mapping) : isInducedB sel H P m = true ↔ IsInduced sel H P m := by
  unfold isInducedB IsInduced
  rw [Bool.and_eq_true, isMonoB_iff', nonEdgesB_iff]

theorem isIsoB_iff' (sel : Sel) (H P : LGraph) (m : Mapping) : isIsoB sel H P m = true ↔ IsIso sel H P m := by
  unfold isIsoB IsIso
  rw [Bool.and_eq_true, isInducedB_iff', decide_eq_true_eq]

/-! ## invariants -/

theorem isIso_noH (sel : Sel) (H P : LGraph) (m : Mapping) (hm : IsIso sel H P m) :
    IsIso { sel with hcountRule := false } H P m := by
  obtain ⟨⟨⟨a, b, c, d⟩, i⟩, l⟩ := hm
  refine ⟨⟨⟨a, b, ?_, d⟩, i⟩, l⟩
  intro ph hph
  refine ⟨(c ph hph).1, ?_⟩
  have := (c ph hph).2
  unfold nodeOk at this ⊢
  simp only [Bool.and_eq_true] at this ⊢
  exact ⟨this.1, by simp⟩

/-- Isomorphic graphs have equally many edges. -/
theorem iso_edges_eq (sel : Sel) (H P : LGraph) (m : Mapping) (hH : H.WF) (hP : P.WF) (hm : IsIso sel H P m) :
    H.edges.length = P.edges.length := by
  have hinv := isIso_symm _ H P m hH hP (isIso_noH sel H P m hm)
    (fun x _ hok => nodeOk_symm_of_noH _ rfl _ _ hok)
  have h1 := mono_edges_le hH hinv.1.1
  have h2 := mono_edges_le hP hm.1.1
  omega

/-- Isomorphic graphs have the same degree sequence (as a multiset). -/
theorem iso_degreeSeq_perm (sel : Sel) (H P : LGraph) (m : Mapping) (hH : H.WF) (hP : P.WF) (hm : IsIso sel H P m) :
    (degreeSeq P).Perm (degreeSeq H) := by
  obtain ⟨f, hf, hs⟩ := mono_nodes_subperm hH.1 hP.1 hm.1.1
  have hfst : m.map (·.1) = P.ids := hm.1.1.1
  have hmfn : (m.map (·.1)).Nodup := by rw [hfst]; exact hP.1
  have hperm : (P.nodes.map f).Perm H.nodes := by
    refine hs.perm_of_length_le ?_
    rw [List.length_map]; exact Nat.le_of_eq hm.2
  have hdeg : ∀ pn ∈ P.nodes, (H.neighbors (f pn).1).length = (P.neighbors pn.1).length := by
    intro pn hpn
    have hpid : pn.1 ∈ P.ids := List.mem_map.2 ⟨pn, hpn, rfl⟩
    have hfp : mapFn m pn.1 = (f pn).1 := mapFn_of_mem m hmfn _ _ (hf pn hpn).1
    have := (iso_neighbors_perm sel H P m hH hP hm pn.1 hpid).length_eq
    rw [List.length_map, hfp] at this
    exact this.symm
  unfold degreeSeq LGraph.ids
  rw [List.map_map, List.map_map]
  have h1 := hperm.map (fun n => (H.neighbors n.1).length)
  rw [List.map_map] at h1
  refine List.Perm.trans (List.Perm.of_eq ?_) h1
  refine List.map_congr_left ?_
  intro pn hpn
  simp only [Function.comp]
  exact (hdeg pn hpn).symm

/-- **Every invariant holds for isomorphic graphs.** -/
theorem isoInvariants_of_iso' (sel : Sel) (H P : LGraph) (m : Mapping) (hH : H.WF) (hP : P.WF) (hm : IsIso sel H P m) :
    isoInvariants sel H P = true := by
  unfold isoInvariants
  simp only [Bool.and_eq_true, decide_eq_true_eq, List.isPerm_iff]
  exact ⟨⟨⟨⟨hm.2, iso_edges_eq sel H P m hH hP hm⟩, iso_degreeSeq_perm sel H P m hH hP hm⟩,
    baseContained_of_mono sel H P m hH.1 hP.1 hm.1.1⟩, wlContained_of_iso sel _ H P m rfl hH hP hm⟩

theorem containInvariants_of_mono' (sel : Sel) (H P : LGraph) (m : Mapping) (hH : H.WF) (hP : P.WF) (hm : IsMono sel H P m) :
    containInvariants sel H P = true := by
  unfold containInvariants
  simp only [Bool.and_eq_true, decide_eq_true_eq]
  exact ⟨⟨mono_nodes_le hH.1 hP.1 hm, mono_edges_le hP hm⟩, baseContained_of_mono sel H P m hH.1 hP.1 hm⟩

/-! ## `findPrep` keeps the skeleton -/

theorem applyEdgeDefault_ids (key : String) (d : Val) (G : LGraph) : (applyEdgeDefault key d G).ids = G.ids := rfl

theorem applyEdgeDefault_WF (key : String) (d : Val) (G : LGraph) (h : G.WF) : (applyEdgeDefault key d G).WF := by
  obtain ⟨h1, h2, h3⟩ := h
  refine ⟨h1, ?_, ?_⟩
  · intro e he
    unfold applyEdgeDefault at he
    obtain ⟨e0, he0, rfl⟩ := List.mem_map.1 he
    exact h2 e0 he0
  · unfold applyEdgeDefault
    simp only [List.map_map]
    exact h3

theorem applyEdgeDefault_neighbors (key : String) (d : Val) (G : LGraph) (v : Nat) :
    (applyEdgeDefault key d G).neighbors v = G.neighbors v := by
  unfold applyEdgeDefault LGraph.neighbors
  simp only [List.filterMap_map]
  rfl

theorem applyNodeDefaults_neighbors (names : List String) (defaults : List Val) (G : LGraph) (v : Nat) :
    (applyNodeDefaults names defaults G).neighbors v = G.neighbors v := rfl

theorem findPrep_WF (d : Bool) (G : LGraph) (h : G.WF) : (findPrep d G).WF := by
  unfold findPrep
  split
  · exact applyEdgeDefault_WF _ _ _ (applyNodeDefaults_WF _ _ _ h)
  · exact h

theorem findPrep_nodes_length (d : Bool) (G : LGraph) : (findPrep d G).nodes.length = G.nodes.length := by
  unfold findPrep
  split
  · simp [applyEdgeDefault, applyNodeDefaults]
  · rfl

theorem findPrep_edges_length (d : Bool) (G : LGraph) : (findPrep d G).edges.length = G.edges.length := by
  unfold findPrep
  split
  · simp [applyEdgeDefault, applyNodeDefaults]
  · rfl

theorem findPrep_degreeSeq (d : Bool) (G : LGraph) : degreeSeq (findPrep d G) = degreeSeq G := by
  unfold findPrep
  split
  · unfold degreeSeq
    rw [applyEdgeDefault_ids, applyNodeDefaults_ids]
    refine List.map_congr_left ?_
    intro v _
    rw [applyEdgeDefault_neighbors, applyNodeDefaults_neighbors]
  · rfl

/-- The quick invariants of `find_graph_isomorphism` hold whenever the (defaulted) graphs are isomorphic. -/
theorem fastInvariants_of_iso (d : Bool) (sel : Sel) (g1 g2 : LGraph) (h1 : g1.WF) (h2 : g2.WF) (m : Mapping)
    (hm : IsIso sel (findPrep d g2) (findPrep d g1) m) : fastInvariants g1 g2 = true := by
  have hH := findPrep_WF d g2 h2
  have hP := findPrep_WF d g1 h1
  have hn := hm.2
  have he := iso_edges_eq sel _ _ m hH hP hm
  have hd := iso_degreeSeq_perm sel _ _ m hH hP hm
  rw [findPrep_nodes_length, findPrep_nodes_length] at hn
  rw [findPrep_edges_length, findPrep_edges_length] at he
  rw [findPrep_degreeSeq, findPrep_degreeSeq] at hd
  unfold fastInvariants
  simp only [Bool.and_eq_true, decide_eq_true_eq, List.isPerm_iff]
  exact ⟨⟨hn.symm, he.symm⟩, hd⟩

end SynKit.GME

import SynKitModel.CrnIR
import SynKitProofs.CrnIROrder
import SynKitProofs.NautyIREquiv
/-!
# Equivariance of the CRN individualisation–refinement search (C18)

For two directed attribute graphs with distinct node ids related by a node map `g : H → G` that
preserves the look-ups of the selected node attributes and, for every ordered pair (self-loops
included), the presence of the arc and the look-ups of the selected arc attributes (`CrnIso`), every
stage of the search on `H` is carried by `g` to the corresponding stage on `G`: initial partition,
signatures, refinement, target cell, individualisation, the leaves of the search tree and their
labels.  The partition-level lemmas that do not mention the graph are those of `NautyIREquiv`.
-/
set_option linter.unusedSimpArgs false
set_option linter.unusedVariables false
namespace SynKit.CrnCanon
open SynKit
open SynKit.Canon (StrictTotal sortBy sortNat irDedup irSplitBy ltLex natLt irNormEdgeVal irIsDiscrete irTargetCell
  irIndividualise CellRel PartRel PartSub sortNat_perm mem_sortNat sortBy_eq_of_perm_strictTotal
  forall₂_flatMap forall₂_map_same forall₂_map_eq forall₂_and_left_mem irSplitBy_rel irSplitBy_sub
  cellRel_contains irIsDiscrete_rel flatten_rel_of_discrete irTargetCell_rel irTargetCell_mem
  irIndividualise_rel irIndividualise_sub CellRel.length_eq PartRel.length_eq)

/-- The arc attributes the search reads, as raw look-ups. -/
def crnEdgeGet (sel : SelD) (a : Attrs) : List (Option Val) := sel.edgeKeys.map (Dict.get? a)

/-- `g` maps the nodes of `H` bijectively onto the nodes of `G`, preserving the look-ups of the
selected node attributes and, for every ordered pair, the arc together with the look-ups of the
selected arc attributes (absent stays absent). -/
structure CrnIso (sel : SelD) (G H : LGraph) (g : Nat → Nat) : Prop where
  perm : (H.ids.map g).Perm G.ids
  node : ∀ p ∈ H.ids, ∀ k ∈ sel.nodeKeys, Dict.get? (G.attrs (g p)) k = Dict.get? (H.attrs p) k
  arc : ∀ p ∈ H.ids, ∀ q ∈ H.ids, (G.arc? (g p) (g q)).map (crnEdgeGet sel) = (H.arc? p q).map (crnEdgeGet sel)

section basics

theorem crnNodeKey_congr (sel : SelD) (a b : Attrs) (h : ∀ k ∈ sel.nodeKeys, Dict.get? a k = Dict.get? b k) :
    crnNodeKey sel a = crnNodeKey sel b := by
  unfold crnNodeKey
  apply List.map_congr_left
  intro k hk
  unfold Attrs.get Dict.getD
  rw [h k hk]

theorem crnNodeLabKey_congr (sel : SelD) (a b : Attrs) (h : ∀ k ∈ sel.nodeKeys, Dict.get? a k = Dict.get? b k) :
    crnNodeLabKey sel a = crnNodeLabKey sel b := by
  unfold crnNodeLabKey
  apply List.map_congr_left
  intro k hk
  unfold Dict.getD
  rw [h k hk]

theorem crnEdgeGet_eq_iff (sel : SelD) (a b : Attrs) :
    crnEdgeGet sel a = crnEdgeGet sel b ↔ ∀ k ∈ sel.edgeKeys, Dict.get? a k = Dict.get? b k := by
  unfold crnEdgeGet
  exact List.map_inj_left

theorem crnEdgeSigKey_congr (sel : SelD) (a b : Attrs) (h : crnEdgeGet sel a = crnEdgeGet sel b) :
    crnEdgeSigKey sel a = crnEdgeSigKey sel b := by
  rw [crnEdgeGet_eq_iff] at h
  unfold crnEdgeSigKey
  apply List.map_congr_left
  intro k hk
  unfold Attrs.get Dict.getD
  rw [h k hk]

theorem crnEdgeLabKey_congr (sel : SelD) (a b : Attrs) (h : crnEdgeGet sel a = crnEdgeGet sel b) :
    crnEdgeLabKey sel a = crnEdgeLabKey sel b := by
  rw [crnEdgeGet_eq_iff] at h
  unfold crnEdgeLabKey
  apply List.map_congr_left
  intro k hk
  unfold Dict.getD
  rw [h k hk]

end basics

section chain
variable {sel : SelD} {G H : LGraph} {g : Nat → Nat}

theorem CrnIso.inj (hG : G.ids.Nodup) (h : CrnIso sel G H g) : ∀ a ∈ H.ids, ∀ b ∈ H.ids, g a = g b → a = b :=
  List.inj_on_of_nodup_map (h.perm.nodup_iff.2 hG)

theorem CrnIso.mem (h : CrnIso sel G H g) {p : Nat} (hp : p ∈ H.ids) : g p ∈ G.ids :=
  h.perm.mem_iff.1 (List.mem_map.2 ⟨p, hp, rfl⟩)

theorem CrnIso.surj (h : CrnIso sel G H g) {v : Nat} (hv : v ∈ G.ids) : ∃ p ∈ H.ids, g p = v := by
  have := h.perm.mem_iff.2 hv
  obtain ⟨p, hp, e⟩ := List.mem_map.1 this
  exact ⟨p, hp, e⟩

theorem CrnIso.length_eq (h : CrnIso sel G H g) : G.nodes.length = H.nodes.length := by
  have := h.perm.length_eq
  simpa [LGraph.ids] using this.symm

theorem CrnIso.hasArc (h : CrnIso sel G H g) {p q : Nat} (hp : p ∈ H.ids) (hq : q ∈ H.ids) :
    (G.arc? (g p) (g q)).isSome = (H.arc? p q).isSome := by
  have := congrArg Option.isSome (h.arc p hp q hq)
  simpa using this

/-- a filter of the node list by corresponding predicates corresponds -/
theorem CrnIso.filter_perm (h : CrnIso sel G H g) (pG pH : Nat → Bool) (hp : ∀ w ∈ H.ids, pG (g w) = pH w) :
    ((H.ids.filter pH).map g).Perm (G.ids.filter pG) := by
  have e : (H.ids.filter pH).map g = (H.ids.map g).filter pG := by
    rw [List.filter_map]
    congr 1
    apply List.filter_congr
    intro w hw
    simp only [Function.comp_apply, hp w hw]
  rw [e]
  exact h.perm.filter _

theorem CrnIso.succs (h : CrnIso sel G H g) {p : Nat} (hp : p ∈ H.ids) :
    ((crnSuccs H p).map g).Perm (crnSuccs G (g p)) :=
  h.filter_perm _ _ fun w hw => h.hasArc hp hw

theorem CrnIso.preds (h : CrnIso sel G H g) {p : Nat} (hp : p ∈ H.ids) :
    ((crnPreds H p).map g).Perm (crnPreds G (g p)) :=
  h.filter_perm _ _ fun w hw => h.hasArc hw hp

theorem CrnIso.nbrs (h : CrnIso sel G H g) {p : Nat} (hp : p ∈ H.ids) :
    ((crnNbrs H p).map g).Perm (crnNbrs G (g p)) :=
  h.filter_perm _ _ fun w hw => by rw [h.hasArc hp hw, h.hasArc hw hp]

theorem crnNbrs_sub (G : LGraph) (v : Nat) : crnNbrs G v ⊆ G.ids := fun _ hx => (List.mem_filter.1 hx).1
theorem crnSuccs_sub (G : LGraph) (v : Nat) : crnSuccs G v ⊆ G.ids := fun _ hx => (List.mem_filter.1 hx).1

/-- **Signatures are invariant.** -/
theorem crnSig_rel (hG : G.ids.Nodup) (h : CrnIso sel G H g) {P' P : List (List Nat)}
    (hP : PartRel g P' P) (hsub : PartSub H.ids P') {p : Nat} (hp : p ∈ H.ids) :
    crnSig sel G P (g p) = crnSig sel H P' p := by
  have hN := h.nbrs hp
  have hS := h.succs hp
  have hinj := h.inj hG
  apply CrnSig.ext'
  · exact crnNodeKey_congr sel _ _ (h.node p hp)
  · simp only [crnSig]
    have := (h.preds hp).length_eq
    simpa using this.symm
  · simp only [crnSig]
    have := hS.length_eq
    simpa using this.symm
  · simp only [crnSig]
    symm
    apply forall₂_map_eq (forall₂_and_left_mem hP hsub)
    intro c' c ⟨hs, hc⟩
    have e1 : ((crnNbrs G (g p)).filter fun w => c.contains w).length =
        (((crnNbrs H p).map g).filter fun w => c.contains w).length := (hN.filter _).length_eq.symm
    rw [e1, List.filter_map, List.length_map]
    congr 1
    apply List.filter_congr
    intro w hw
    simp only [Function.comp_apply]
    exact (cellRel_contains hinj hs hc (crnNbrs_sub H p hw)).symm
  · simp only [crnSig]
    apply sortBy_eq_of_perm_strictTotal Canon.Val.ltList Canon.Val.ltList_strictTotal
    refine (hS.map _).symm.trans ?_
    rw [List.map_map]
    apply List.Perm.of_eq
    apply List.map_congr_left
    intro w hw
    simp only [Function.comp_apply]
    have hw' := crnSuccs_sub H p hw
    have he := h.arc p hp w hw'
    cases hx : G.arc? (g p) (g w) <;> cases hy : H.arc? p w <;> rw [hx, hy] at he <;> simp at he
    · simp only [Option.getD_some]
      exact crnEdgeSigKey_congr sel _ _ he

theorem crnRefineCell_sub (sel : SelD) (G : LGraph) (P : List (List Nat)) (c : List Nat) :
    ∀ d ∈ crnRefineCell sel G P c, d ⊆ c := by
  intro d hd
  unfold crnRefineCell at hd
  split at hd
  · simp only [List.mem_singleton] at hd; subst hd; exact fun _ h => h
  · simp only at hd
    split at hd
    · exact irSplitBy_sub _ _ _ d hd
    · simp only [List.mem_singleton] at hd; subst hd
      intro x hx
      exact (mem_sortNat x c).1 hx

theorem crnRefineStep_sub (sel : SelD) (G : LGraph) (ids : List Nat) (P : List (List Nat)) (hs : PartSub ids P) :
    PartSub ids (crnRefineStep sel G P) := by
  intro d hd
  unfold crnRefineStep at hd
  obtain ⟨c, hc, hdc⟩ := List.mem_flatMap.1 hd
  exact fun x hx => hs c hc (crnRefineCell_sub sel G P c d hdc hx)

theorem crnRefineLoop_sub (sel : SelD) (G : LGraph) (ids : List Nat) (k : Nat) (P : List (List Nat))
    (hs : PartSub ids P) : PartSub ids (crnRefineLoop sel G k P) := by
  induction k generalizing P with
  | zero => exact hs
  | succ k ih =>
    simp only [crnRefineLoop]
    split
    · exact crnRefineStep_sub sel G ids P hs
    · exact ih _ (crnRefineStep_sub sel G ids P hs)

theorem crnRefine_sub (sel : SelD) (G : LGraph) (ids : List Nat) (P : List (List Nat)) (hs : PartSub ids P) :
    PartSub ids (crnRefine sel G P) := crnRefineLoop_sub sel G ids _ P hs

theorem crnRefineCell_rel (hG : G.ids.Nodup) (h : CrnIso sel G H g) {P' P : List (List Nat)}
    (hP : PartRel g P' P) (hsub : PartSub H.ids P') {c' c : List Nat} (hs : c' ⊆ H.ids) (hc : CellRel g c' c) :
    PartRel g (crnRefineCell sel H P' c') (crnRefineCell sel G P c) := by
  have hparts : PartRel g (irSplitBy CrnSig.lt (crnSig sel H P') c') (irSplitBy CrnSig.lt (crnSig sel G P) c) :=
    irSplitBy_rel CrnSig.lt CrnSig.lt_strictTotal g _ _ c' c hc
      (fun w hw => crnSig_rel hG h hP hsub (hs hw))
  have hl := hparts.length_eq
  unfold crnRefineCell
  rw [hc.length_eq]
  split
  · exact List.Forall₂.cons hc List.Forall₂.nil
  · simp only [hl]
    split
    · exact hparts
    · refine List.Forall₂.cons ?_ List.Forall₂.nil
      unfold CellRel
      exact ((sortNat_perm _).map g).trans (hc.trans (sortNat_perm _).symm)

/-- **One refinement pass is equivariant.** -/
theorem crnRefineStep_rel (hG : G.ids.Nodup) (h : CrnIso sel G H g) {P' P : List (List Nat)}
    (hP : PartRel g P' P) (hsub : PartSub H.ids P') :
    PartRel g (crnRefineStep sel H P') (crnRefineStep sel G P) := by
  unfold crnRefineStep
  apply forall₂_flatMap (forall₂_and_left_mem hP hsub)
  intro c' c ⟨hs, hc⟩
  exact crnRefineCell_rel hG h hP hsub hs hc

theorem crnRefineLoop_rel (hG : G.ids.Nodup) (h : CrnIso sel G H g) (k : Nat) {P' P : List (List Nat)}
    (hP : PartRel g P' P) (hsub : PartSub H.ids P') :
    PartRel g (crnRefineLoop sel H k P') (crnRefineLoop sel G k P) := by
  induction k generalizing P' P with
  | zero => exact hP
  | succ k ih =>
    have hstep := crnRefineStep_rel hG h hP hsub
    simp only [crnRefineLoop]
    rw [hstep.length_eq, hP.length_eq]
    split
    · exact hstep
    · exact ih hstep (crnRefineStep_sub sel H H.ids P' hsub)

/-- **Refinement is equivariant.** -/
theorem crnRefine_rel (hG : G.ids.Nodup) (h : CrnIso sel G H g) {P' P : List (List Nat)}
    (hP : PartRel g P' P) (hsub : PartSub H.ids P') :
    PartRel g (crnRefine sel H P') (crnRefine sel G P) := by
  unfold crnRefine
  rw [h.length_eq]
  exact crnRefineLoop_rel hG h _ hP hsub

/-- **The initial partitions correspond.** -/
theorem crnInitPart_rel (h : CrnIso sel G H g) : PartRel g (crnInitPart sel H) (crnInitPart sel G) := by
  have hemp : H.ids.isEmpty = G.ids.isEmpty := by
    have hl := h.perm.length_eq
    rw [List.length_map] at hl
    cases hH : H.ids <;> cases hG' : G.ids <;> simp [hH, hG'] at hl ⊢
  unfold crnInitPart
  split
  · rw [hemp]
    split
    · exact List.Forall₂.nil
    · refine List.Forall₂.cons ?_ List.Forall₂.nil
      unfold CellRel
      exact ((sortNat_perm _).map g).trans (h.perm.trans (sortNat_perm _).symm)
  · apply irSplitBy_rel Canon.Val.ltList Canon.Val.ltList_strictTotal g _ _ H.ids G.ids h.perm
    intro w hw
    exact crnNodeKey_congr sel _ _ (h.node w hw)

theorem crnInitPart_sub (sel : SelD) (G : LGraph) : PartSub G.ids (crnInitPart sel G) := by
  unfold crnInitPart
  split
  · split
    · intro c hc
      exact absurd hc List.not_mem_nil
    · intro c hc
      simp only [List.mem_singleton] at hc
      subst hc
      intro x hx
      exact (mem_sortNat x _).1 hx
  · exact irSplitBy_sub _ _ _

theorem mem_crnChildren (c : List Nat) (v : Nat) : v ∈ crnChildren c ↔ v ∈ c := mem_sortNat v c

/-- **The leaves of the search trees correspond** (as sets). -/
theorem crnLeaves_rel (hG : G.ids.Nodup) (h : CrnIso sel G H g) (fuel : Nat) {P' P : List (List Nat)}
    (hP : PartRel g P' P) (hsub : PartSub H.ids P') (pfx' : List Nat) :
    ∀ l, l ∈ crnLeaves sel G fuel P (pfx'.map g) ↔
      ∃ l' ∈ crnLeaves sel H fuel P' pfx', l = (l'.1.map g, l'.2.map g) := by
  induction fuel generalizing P' P pfx' with
  | zero => intro l; simp [crnLeaves]
  | succ fuel ih =>
    intro l
    have hR := crnRefine_rel hG h hP hsub
    have hRs := crnRefine_sub sel H H.ids P' hsub
    simp only [crnLeaves]
    rw [← irIsDiscrete_rel hR]
    split
    · rename_i hd
      rw [← flatten_rel_of_discrete hR hd]
      simp
    · obtain ⟨hnone, hsome⟩ := irTargetCell_rel hR
      cases ht : irTargetCell (crnRefine sel H P') with
      | none => simp [hnone ht]
      | some r =>
        obtain ⟨pre', c', post'⟩ := r
        obtain ⟨pre, c, post, e, hpre, hc, hpost⟩ := hsome _ _ _ ht
        rw [e]
        simp only [List.mem_flatMap, mem_crnChildren]
        have hmem := irTargetCell_mem ht
        have hcs : c' ⊆ H.ids := hRs c' (by rw [hmem]; simp)
        constructor
        · rintro ⟨v, hv, hl⟩
          obtain ⟨v', hv', rfl⟩ := List.mem_map.1 (hc.mem_iff.2 hv)
          have hrel := irIndividualise_rel (h.inj hG) hpre hc hpost hcs hv'
          have hsub' : PartSub H.ids (irIndividualise pre' c' post' v') :=
            irIndividualise_sub (by rw [← hmem]; exact hRs) hv'
          have := (ih hrel hsub' (pfx' ++ [v']) l).1 (by simpa using hl)
          obtain ⟨l', hl', rfl⟩ := this
          exact ⟨l', ⟨v', hv', hl'⟩, rfl⟩
        · rintro ⟨l', ⟨v', hv', hl'⟩, rfl⟩
          have hrel := irIndividualise_rel (h.inj hG) hpre hc hpost hcs hv'
          have hsub' : PartSub H.ids (irIndividualise pre' c' post' v') :=
            irIndividualise_sub (by rw [← hmem]; exact hRs) hv'
          refine ⟨g v', hc.mem_iff.1 (List.mem_map.2 ⟨v', hv', rfl⟩), ?_⟩
          have := (ih hrel hsub' (pfx' ++ [v']) (l'.1.map g, l'.2.map g)).2 ⟨l', hl', rfl⟩
          simpa using this

/-- The nodes occurring in leaves are nodes of the graph. -/
theorem crnLeaves_sub (sel : SelD) (G : LGraph) (ids : List Nat) (fuel : Nat) (P : List (List Nat)) (pfx : List Nat)
    (hsub : PartSub ids P) (hp : pfx ⊆ ids) : ∀ l ∈ crnLeaves sel G fuel P pfx, l.1 ⊆ ids ∧ l.2 ⊆ ids := by
  induction fuel generalizing P pfx with
  | zero => intro l hl; simp [crnLeaves] at hl
  | succ fuel ih =>
    intro l hl
    have hRs := crnRefine_sub sel G ids P hsub
    simp only [crnLeaves] at hl
    split at hl
    · simp only [List.mem_singleton] at hl
      subst hl
      refine ⟨hp, ?_⟩
      intro x hx
      obtain ⟨c, hc, hxc⟩ := List.mem_flatten.1 hx
      exact hRs c hc hxc
    · cases ht : irTargetCell (crnRefine sel G P) with
      | none => rw [ht] at hl; simp at hl
      | some r =>
        obtain ⟨pre, c, post⟩ := r
        rw [ht] at hl
        simp only [List.mem_flatMap, mem_crnChildren] at hl
        obtain ⟨v, hv, hl⟩ := hl
        have hmem := irTargetCell_mem ht
        have hcs : c ⊆ ids := hRs c (by rw [hmem]; simp)
        refine ih _ _ (irIndividualise_sub (by rw [← hmem]; exact hRs) hv) ?_ l hl
        intro x hx
        rcases List.mem_append.1 hx with hx | hx
        · exact hp hx
        · simp only [List.mem_singleton] at hx; subst hx; exact hcs hv

/-! ### Labels -/

theorem crnNodeSeg_rel (h : CrnIso sel G H g) (s : List Nat) (hs : s ⊆ H.ids) :
    crnNodeSeg sel G (s.map g) = crnNodeSeg sel H s := by
  unfold crnNodeSeg
  rw [List.map_map]
  apply List.map_congr_left
  intro v hv
  exact crnNodeLabKey_congr sel _ _ (h.node v (hs hv))

theorem crnBit_rel (h : CrnIso sel G H g) {u v : Nat} (hu : u ∈ H.ids) (hv : v ∈ H.ids) :
    crnBit sel G (g u) (g v) = crnBit sel H u v := by
  have he := h.arc u hu v hv
  unfold crnBit
  cases hx : G.arc? (g u) (g v) <;> cases hy : H.arc? u v <;> rw [hx, hy] at he <;> simp at he
  · simp only
    rw [crnEdgeLabKey_congr sel _ _ he]

theorem crnRows_rel (h : CrnIso sel G H g) (s : List Nat) (hs : s ⊆ H.ids) :
    crnRows sel G (s.map g) = crnRows sel H s := by
  unfold crnRows
  rw [List.zipIdx_map, List.map_map]
  apply List.map_congr_left
  intro ui hui
  simp only [Function.comp_apply, List.map_map]
  apply List.map_congr_left
  intro vj hvj
  simp only [Function.comp_apply, Prod.map_fst, Prod.map_snd, id_eq]
  split
  · rfl
  · exact crnBit_rel h (hs (List.fst_mem_of_mem_zipIdx hui)) (hs (List.fst_mem_of_mem_zipIdx hvj))

/-- **Leaf labels are invariant.** -/
theorem crnBuildLabel_rel (h : CrnIso sel G H g) (s : List Nat) (hs : s ⊆ H.ids) :
    crnBuildLabel sel G (s.map g) = crnBuildLabel sel H s := by
  unfold crnBuildLabel
  rw [crnNodeSeg_rel h s hs, crnRows_rel h s hs]

/-- The leaves of `G`'s search tree are the images of the leaves of `H`'s. -/
theorem crnRootLeaves_rel (hG : G.ids.Nodup) (h : CrnIso sel G H g) :
    ∀ l, l ∈ crnRootLeaves sel G ↔ ∃ l' ∈ crnRootLeaves sel H, l = (l'.1.map g, l'.2.map g) := by
  have hrel := crnLeaves_rel hG h (H.nodes.length + 1) (crnInitPart_rel h) (crnInitPart_sub sel H) []
  rw [← h.length_eq] at hrel
  simp only [List.map_nil] at hrel
  unfold crnRootLeaves
  rw [← h.length_eq]
  exact hrel

theorem crnRootLeaves_sub (sel : SelD) (G : LGraph) : ∀ l ∈ crnRootLeaves sel G, l.1 ⊆ G.ids ∧ l.2 ⊆ G.ids :=
  crnLeaves_sub sel G G.ids _ _ [] (crnInitPart_sub sel G) (by simp)

/-- corresponding leaves carry the same label -/
theorem crnLeafLabel_rel (h : CrnIso sel G H g) {l' : List Nat × List Nat} (hl' : l' ∈ crnRootLeaves sel H) :
    crnLeafLabel sel G (l'.1.map g, l'.2.map g) = crnLeafLabel sel H l' := by
  unfold crnLeafLabel
  exact crnBuildLabel_rel h l'.2 (crnRootLeaves_sub sel H l' hl').2

/-- The two search trees have the same set of leaf labels. -/
theorem crnLeafLabels_rel (hG : G.ids.Nodup) (h : CrnIso sel G H g) (k : CrnLabel) :
    (∃ a ∈ crnRootLeaves sel G, crnLeafLabel sel G a = k) ↔ (∃ b ∈ crnRootLeaves sel H, crnLeafLabel sel H b = k) := by
  have hrel := crnRootLeaves_rel hG h
  constructor
  · rintro ⟨a, ha, rfl⟩
    obtain ⟨b, hb, rfl⟩ := (hrel a).1 ha
    exact ⟨b, hb, (crnLeafLabel_rel h hb).symm⟩
  · rintro ⟨b, hb, rfl⟩
    exact ⟨_, (hrel _).2 ⟨b, hb, rfl⟩, crnLeafLabel_rel h hb⟩

end chain

end SynKit.CrnCanon

import SynKitModel.ViewsRaw
import SynKitProofs.ViewsLemmas.Bip
/-!
# The raw importers (`ViewsRaw.lean`) restricted to exported views are the importers of `Views.lean`

`ViewsRaw.lean` models the importers of C16 on graphs / inputs the exporters do not produce
(reached by the raw streams of `harness/props/c16.py`).  These lemmas tie it to the definitions
the property theorems of `Props/C16.lean` are about: on an exported view, with the default
options, the raw importer *is* the importer of `Views.lean`; `parse_rxns` without explicit
per-line rules is `parseLinesFrom`.
-/
namespace SynKit.Views

/-! ## `parse_rxns` -/

theorem parseItemsFrom_plain (parseSuffix preferSuffix : Bool) (defaultRule : String) (st : PState)
    (ls : List (List Char)) :
    parseItemsFrom parseSuffix preferSuffix defaultRule st (ls.map fun l => (l, none)) =
      parseLinesFrom parseSuffix defaultRule st ls := by
  induction ls generalizing st with
  | nil => rfl
  | cons l ls ih =>
    cases parseSuffix
    · simp only [List.map_cons, parseItemsFrom, parseLinesFrom, Bool.false_eq_true, if_false]
      cases parseLine (some defaultRule) false l with
      | error e => rfl
      | ok pl =>
        simp only []
        cases st.addGen pl with
        | error e => rfl
        | ok st' => exact ih st'
    · simp only [List.map_cons, parseItemsFrom, parseLinesFrom, if_true]
      cases parseLine none true l with
      | error e => rfl
      | ok pl =>
        simp only []
        cases st.addGen pl with
        | error e => rfl
        | ok st' => exact ih st'

/-! ## Species graph -/

theorem materialiseRaw_default (N : Net) (es : List Entry) : materialiseRaw "r" N es = materialise N es := by
  induction es generalizing N with
  | nil => rfl
  | cons x rest ih =>
    simp only [materialiseRaw, materialise]
    cases N.addRxn x.reactants x.products (x.rules.head?.getD "r") x.eid with
    | error e => rfl
    | ok N' => exact ih N'

theorem importMolSRaw_toRaw (g : SGraph) (N : Net) : importMolSRaw true g.toRaw N = importMolS g N := rfl

theorem labelOf_toRaw (g : SGraph) (i : String) : g.toRaw.labelOf i = g.labelOf i := rfl

theorem collectEntriesRaw_toRaw (genArc : GenArc) (g : SGraph) :
    collectEntriesRaw genArc g.toRaw = collectEntries genArc g := by
  unfold collectEntriesRaw collectEntries
  show List.foldl _ [] (g.edgesIter.map _) = _
  rw [List.foldl_map]
  congr 1
  funext es a
  have heids : REdge.eids genArc
      { src := a.src, dst := a.dst, via := .seq a.via, rules := .set a.rules, stoichR := some a.stoichR,
        stoichP := some a.stoichP, rMap := some a.rMap, pMap := some a.pMap } =
      (if a.via.isEmpty then [genArc a.src a.dst] else a.via) := by
    cases h : a.via <;> simp [REdge.eids]
  simp only [heids, labelOf_toRaw]
  congr 1
  funext es eid
  simp [coeffFor, RulesAttr.toList, Option.getD]
  congr 1 <;> (split <;> simp_all)

/-- **Tie, species graph.** On an exported species graph, with the default `default_rule="r"` and
`mol_attr="mol"`, the raw importer is `ofSpeciesGraph`. -/
theorem ofSpeciesGraphRaw_toRaw (genArc : GenArc) (g : SGraph) :
    ofSpeciesGraphRaw genArc "r" true g.toRaw = ofSpeciesGraph genArc g := by
  unfold ofSpeciesGraphRaw ofSpeciesGraph
  rw [collectEntriesRaw_toRaw, materialiseRaw_default]
  cases materialise {} (collectEntries genArc g) <;> rfl

/-! ## Bipartite graph -/

/-- The node map of `BGraph.toRaw`. -/
def rawOfBNode (n : BNode) : RNode :=
  { id := n.id, kind := some (match n.kind with | .species => "species" | .reaction => "reaction"),
    spLabel := some n.label, rxLabel := some n.label, edgeId := n.edgeId, mol := n.mol }

theorem toRaw_nodes (g : BGraph) : g.toRaw.nodes = g.nodes.map rawOfBNode := rfl
theorem toRaw_edges (g : BGraph) : g.toRaw.edges = g.edges := rfl

theorem classifyTagged_fold (o : ImpOpts) (ns : List BNode) (acc : List NodeId × List NodeId) :
    (ns.map rawOfBNode).foldl (fun acc n =>
      if n.kind = some "species" then (acc.1 ++ [n.id], acc.2)
      else if n.kind = some "reaction" then (acc.1, acc.2 ++ [n.id])
      else if n.id.startsWith o.speciesPrefix then (acc.1 ++ [n.id], acc.2)
      else if n.id.startsWith o.reactionPrefix then (acc.1, acc.2 ++ [n.id])
      else acc) acc =
    (acc.1 ++ (ns.filter (·.kind = .species)).map (·.id), acc.2 ++ (ns.filter (·.kind = .reaction)).map (·.id)) := by
  induction ns generalizing acc with
  | nil => simp
  | cons n ns ih =>
    simp only [List.map_cons, List.foldl_cons]
    rw [ih]
    cases hk : n.kind <;> simp [rawOfBNode, hk]

theorem classifyTagged_toRaw (o : ImpOpts) (g : BGraph) :
    classifyTagged o g.toRaw =
      ((g.nodes.filter (·.kind = .species)).map (·.id), (g.nodes.filter (·.kind = .reaction)).map (·.id)) := by
  unfold classifyTagged
  rw [toRaw_nodes, classifyTagged_fold]
  simp

/-- Tagged graphs never reach the degree heuristic (an empty classification means no nodes). -/
theorem classify_toRaw (o : ImpOpts) (g : BGraph) :
    classify o g.toRaw =
      ((g.nodes.filter (·.kind = .species)).map (·.id), (g.nodes.filter (·.kind = .reaction)).map (·.id)) := by
  unfold classify
  rw [classifyTagged_toRaw]
  simp only []
  split
  · rename_i h
    have hn : g.nodes = [] := by
      cases hg : g.nodes with
      | nil => rfl
      | cons n ns =>
        rw [hg] at h
        cases hk : n.kind <;> simp [hk] at h
    simp [toRaw_nodes, hn]
  · rfl

theorem node?_toRaw (g : BGraph) (i : NodeId) : g.toRaw.node? i = (g.node? i).map rawOfBNode := by
  unfold RBGraph.node? BGraph.node?
  rw [toRaw_nodes, List.find?_map]
  rfl

theorem rawSide_toRaw (g : BGraph) (sp : List NodeId) (ends : List (NodeId × Option Nat)) :
    rawSide g.toRaw sp ends = sideOfArcs g sp ends := by
  unfold rawSide sideOfArcs
  congr 1
  funext m us
  rw [node?_toRaw]
  cases g.node? us.1 <;> simp [rawOfBNode]

theorem rawOfRNode_toRaw (g : BGraph) (sp : List NodeId) (r : NodeId) :
    rawOfRNode {} g.toRaw sp r = rawOfNode g sp r := by
  unfold rawOfRNode rawOfNode
  simp only [rawSide_toRaw, toRaw_edges, node?_toRaw]
  cases g.node? r <;> simp [rawOfBNode]

theorem importMolRaw_toRaw (g : BGraph) (N : Net) (hnd : (g.nodes.map (·.id)).Nodup) :
    importMolRaw {} g.toRaw ((g.nodes.filter (·.kind = .species)).map (·.id)) N = importMol g N := by
  unfold importMolRaw importMol
  simp only [if_true, toRaw_nodes, List.filter_map, List.foldl_map]
  have hf : g.nodes.filter ((fun n : RNode => decide (n.id ∈ (g.nodes.filter (·.kind = .species)).map (·.id))) ∘ rawOfBNode) =
      g.nodes.filter (·.kind = .species) := by
    apply List.filter_congr
    intro n hn
    simp only [Function.comp, rawOfBNode]
    apply decide_eq_decide.2
    rw [List.mem_map]
    constructor
    · rintro ⟨m, hm, hid⟩
      rw [List.mem_filter] at hm
      have : m = n := Bip.inj_of_nodup_map (·.id) g.nodes hnd m n hm.1 hn hid
      exact this ▸ (of_decide_eq_true hm.2)
    · intro hk
      exact ⟨n, List.mem_filter.2 ⟨hn, decide_eq_true hk⟩, rfl⟩
  rw [hf]
  congr 1

/-- **Tie, bipartite graph.** On a graph whose nodes all carry `kind` and `label` (node ids
distinct, as in any NetworkX graph), with the importer's default options, the raw importer is
`ofBipartite`. -/
theorem ofBipartiteRaw_toRaw (genId : GenId) (g : BGraph) (hnd : (g.nodes.map (·.id)).Nodup) :
    ofBipartiteRaw genId {} g.toRaw = ofBipartite genId g := by
  unfold ofBipartiteRaw ofBipartite
  simp only [classify_toRaw]
  have hr : (fun r => rawOfRNode {} g.toRaw ((g.nodes.filter (·.kind = .species)).map (·.id)) r) =
      rawOfNode g ((g.nodes.filter (·.kind = .species)).map (·.id)) := by
    funext r; exact rawOfRNode_toRaw g _ r
  rw [show rawOfRNode {} g.toRaw ((g.nodes.filter (·.kind = .species)).map (·.id)) = _ from hr]
  cases importRxns genId {} _ with
  | error e => rfl
  | ok N => simp only [importMolRaw_toRaw g N hnd]

end SynKit.Views

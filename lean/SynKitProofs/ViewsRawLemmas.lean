import SynKitModel.ViewsRaw
import SynKitModel.ViewsClaim
import SynKitProofs.ViewsLemmas.Bip
import SynKitProofs.ViewsClaimBasic
import SynKitProofs.ViewsClaimSpecies
import SynKitProofs.ViewsClaimParse
/-!
# The raw importers (`ViewsRaw.lean`) restricted to exported views are the importers of `Views.lean`

`ViewsRaw.lean` models the importers of C16 on graphs / inputs the exporters do not produce
(reached by the raw streams of `harness/props/c16.py`).  These lemmas tie it to the definitions
the property theorems of `Props/C16.lean` are about: on an exported view, with the default
options, the raw importer *is* the importer of `Views.lean`; `parse_rxns` without explicit
per-line rules is `parseLinesFrom`.

Second part (namespace `SynKit.Views.Raw`, below): the claim conditions of the raw streams
(`SynKitModel/ViewsClaim.lean`, decided by the driver) imply the round trips — lemma forms of the
degraded-view theorems of `Props/C16.lean`.
-/
namespace SynKit.Views

/-! ## `parse_rxns` -/

theorem parseItemsFrom_plain (parseSuffix preferSuffix : Bool) (defaultRule : String) (st : PState)
    (ls : List (List Char)) :
    parseItemsFrom parseSuffix preferSuffix defaultRule st (ls.map fun l => (l, none)) =
      parseLinesFrom parseSuffix defaultRule st ls := by
  induction ls generalizing st with
  | nil => rfl
  | cons l ls ih =>
    cases parseSuffix
    · simp only [List.map_cons, parseItemsFrom, parseLinesFrom, Bool.false_eq_true, if_false]
      cases parseLine (some defaultRule) false l with
      | error e => rfl
      | ok pl =>
        simp only []
        cases st.addGen pl with
        | error e => rfl
        | ok st' => exact ih st'
    · simp only [List.map_cons, parseItemsFrom, parseLinesFrom, if_true]
      cases parseLine none true l with
      | error e => rfl
      | ok pl =>
        simp only []
        cases st.addGen pl with
        | error e => rfl
        | ok st' => exact ih st'

/-! ## Species graph -/

theorem materialiseRaw_default (N : Net) (es : List Entry) : materialiseRaw "r" N es = materialise N es := by
  induction es generalizing N with
  | nil => rfl
  | cons x rest ih =>
    simp only [materialiseRaw, materialise]
    cases N.addRxn x.reactants x.products (x.rules.head?.getD "r") x.eid with
    | error e => rfl
    | ok N' => exact ih N'

theorem importMolSRaw_toRaw (g : SGraph) (N : Net) : importMolSRaw true g.toRaw N = importMolS g N := rfl

theorem labelOf_toRaw (g : SGraph) (i : String) : g.toRaw.labelOf i = g.labelOf i := rfl

theorem collectEntriesRaw_toRaw (genArc : GenArc) (g : SGraph) :
    collectEntriesRaw genArc g.toRaw = collectEntries genArc g := by
  unfold collectEntriesRaw collectEntries
  show List.foldl _ [] (g.edgesIter.map _) = _
  rw [List.foldl_map]
  congr 1
  funext es a
  have heids : REdge.eids genArc
      { src := a.src, dst := a.dst, via := .seq a.via, rules := .set a.rules, stoichR := some a.stoichR,
        stoichP := some a.stoichP, rMap := some a.rMap, pMap := some a.pMap } =
      (if a.via.isEmpty then [genArc a.src a.dst] else a.via) := by
    cases h : a.via <;> simp [REdge.eids]
  simp only [heids, labelOf_toRaw]
  congr 1
  funext es eid
  simp [coeffFor, RulesAttr.toList, Option.getD]
  congr 1 <;> (split <;> simp_all)

/-- **Tie, species graph.** On an exported species graph, with the default `default_rule="r"` and
`mol_attr="mol"`, the raw importer is `ofSpeciesGraph`. -/
theorem ofSpeciesGraphRaw_toRaw (genArc : GenArc) (g : SGraph) :
    ofSpeciesGraphRaw genArc "r" true g.toRaw = ofSpeciesGraph genArc g := by
  unfold ofSpeciesGraphRaw ofSpeciesGraph
  rw [collectEntriesRaw_toRaw, materialiseRaw_default]
  cases materialise {} (collectEntries genArc g) <;> rfl

/-! ## Bipartite graph -/

/-- The node map of `BGraph.toRaw`. -/
def rawOfBNode (n : BNode) : RNode :=
  { id := n.id, kind := some (match n.kind with | .species => "species" | .reaction => "reaction"),
    spLabel := some n.label, rxLabel := some n.label, edgeId := n.edgeId, mol := n.mol }

theorem toRaw_nodes (g : BGraph) : g.toRaw.nodes = g.nodes.map rawOfBNode := rfl
theorem toRaw_edges (g : BGraph) : g.toRaw.edges = g.edges := rfl

theorem classifyTagged_fold (o : ImpOpts) (ns : List BNode) (acc : List NodeId × List NodeId) :
    (ns.map rawOfBNode).foldl (fun acc n =>
      if n.kind = some "species" then (acc.1 ++ [n.id], acc.2)
      else if n.kind = some "reaction" then (acc.1, acc.2 ++ [n.id])
      else if n.id.startsWith o.speciesPrefix then (acc.1 ++ [n.id], acc.2)
      else if n.id.startsWith o.reactionPrefix then (acc.1, acc.2 ++ [n.id])
      else acc) acc =
    (acc.1 ++ (ns.filter (·.kind = .species)).map (·.id), acc.2 ++ (ns.filter (·.kind = .reaction)).map (·.id)) := by
  induction ns generalizing acc with
  | nil => simp
  | cons n ns ih =>
    simp only [List.map_cons, List.foldl_cons]
    rw [ih]
    cases hk : n.kind <;> simp [rawOfBNode, hk]

theorem classifyTagged_toRaw (o : ImpOpts) (g : BGraph) :
    classifyTagged o g.toRaw =
      ((g.nodes.filter (·.kind = .species)).map (·.id), (g.nodes.filter (·.kind = .reaction)).map (·.id)) := by
  unfold classifyTagged
  rw [toRaw_nodes, classifyTagged_fold]
  simp

/-- Tagged graphs never reach the degree heuristic (an empty classification means no nodes). -/
theorem classify_toRaw (o : ImpOpts) (g : BGraph) :
    classify o g.toRaw =
      ((g.nodes.filter (·.kind = .species)).map (·.id), (g.nodes.filter (·.kind = .reaction)).map (·.id)) := by
  unfold classify
  rw [classifyTagged_toRaw]
  simp only []
  split
  · rename_i h
    have hn : g.nodes = [] := by
      cases hg : g.nodes with
      | nil => rfl
      | cons n ns =>
        rw [hg] at h
        cases hk : n.kind <;> simp [hk] at h
    simp [toRaw_nodes, hn]
  · rfl

theorem node?_toRaw (g : BGraph) (i : NodeId) : g.toRaw.node? i = (g.node? i).map rawOfBNode := by
  unfold RBGraph.node? BGraph.node?
  rw [toRaw_nodes, List.find?_map]
  rfl

theorem rawSide_toRaw (g : BGraph) (sp : List NodeId) (ends : List (NodeId × Option Nat)) :
    rawSide g.toRaw sp ends = sideOfArcs g sp ends := by
  unfold rawSide sideOfArcs
  congr 1
  funext m us
  rw [node?_toRaw]
  cases g.node? us.1 <;> simp [rawOfBNode]

theorem rawOfRNode_toRaw (g : BGraph) (sp : List NodeId) (r : NodeId) :
    rawOfRNode {} g.toRaw sp r = rawOfNode g sp r := by
  unfold rawOfRNode rawOfNode
  simp only [rawSide_toRaw, toRaw_edges, node?_toRaw]
  cases g.node? r <;> simp [rawOfBNode]

theorem importMolRaw_toRaw (g : BGraph) (N : Net) (hnd : (g.nodes.map (·.id)).Nodup) :
    importMolRaw {} g.toRaw ((g.nodes.filter (·.kind = .species)).map (·.id)) N = importMol g N := by
  unfold importMolRaw importMol
  simp only [if_true, toRaw_nodes, List.filter_map, List.foldl_map]
  have hf : g.nodes.filter ((fun n : RNode => decide (n.id ∈ (g.nodes.filter (·.kind = .species)).map (·.id))) ∘ rawOfBNode) =
      g.nodes.filter (·.kind = .species) := by
    apply List.filter_congr
    intro n hn
    simp only [Function.comp, rawOfBNode]
    apply decide_eq_decide.2
    rw [List.mem_map]
    constructor
    · rintro ⟨m, hm, hid⟩
      rw [List.mem_filter] at hm
      have : m = n := Bip.inj_of_nodup_map (·.id) g.nodes hnd m n hm.1 hn hid
      exact this ▸ (of_decide_eq_true hm.2)
    · intro hk
      exact ⟨n, List.mem_filter.2 ⟨hn, decide_eq_true hk⟩, rfl⟩
  rw [hf]
  congr 1

/-- **Tie, bipartite graph.** On a graph whose nodes all carry `kind` and `label` (node ids
distinct, as in any NetworkX graph), with the importer's default options, the raw importer is
`ofBipartite`. -/
theorem ofBipartiteRaw_toRaw (genId : GenId) (g : BGraph) (hnd : (g.nodes.map (·.id)).Nodup) :
    ofBipartiteRaw genId {} g.toRaw = ofBipartite genId g := by
  unfold ofBipartiteRaw ofBipartite
  simp only [classify_toRaw]
  have hr : (fun r => rawOfRNode {} g.toRaw ((g.nodes.filter (·.kind = .species)).map (·.id)) r) =
      rawOfNode g ((g.nodes.filter (·.kind = .species)).map (·.id)) := by
    funext r; exact rawOfRNode_toRaw g _ r
  rw [show rawOfRNode {} g.toRaw ((g.nodes.filter (·.kind = .species)).map (·.id)) = _ from hr]
  cases importRxns genId {} _ with
  | error e => rfl
  | ok N => simp only [importMolRaw_toRaw g N hnd]

end SynKit.Views

/-!
# The claim conditions of the raw streams (`SynKitModel/ViewsClaim.lean`) imply the round trips

Species graph: `SynKitProofs/ViewsClaimSpecies.lean`; `parse_rxns` input forms:
`SynKitProofs/ViewsClaimParse.lean`; decidable forms of the hypotheses: `SynKitProofs/ViewsClaimBasic.lean`.
Below: the bipartite importer on degraded views.

1. `ofBipartiteRaw_congr`: the importer only looks at the classification, at the label / molecule
   label of the nodes it classified as species, at the rule / edge id of the nodes it classified as
   reactions, and at the ends and the coefficient of every arc.
2. the classification of a degraded exported graph (`kind` kept, or unusable and decided by prefix);
3. the claim condition `bipRawClaimWith` implies the round trip.
-/
namespace SynKit.Views.Raw
open SynKit SynKit.Views

/-! ## 0. Generic list facts -/

theorem find?_congr_mem {α : Type} (p q : α → Bool) (l : List α) (h : ∀ x ∈ l, p x = q x) :
    l.find? p = l.find? q := by
  induction l with
  | nil => rfl
  | cons a l ih =>
    simp only [List.find?_cons, h a List.mem_cons_self]
    rw [ih (fun x hx => h x (List.mem_cons_of_mem _ hx))]

theorem filter_congr_mem {α : Type} (p q : α → Bool) (l : List α) (h : ∀ x ∈ l, p x = q x) :
    l.filter p = l.filter q := by
  induction l with
  | nil => rfl
  | cons a l ih =>
    simp only [List.filter_cons, h a List.mem_cons_self]
    rw [ih (fun x hx => h x (List.mem_cons_of_mem _ hx))]

/-- In a list with distinct keys, looking a member's key up finds the member. -/
theorem find?_key_of_nodup {α β : Type} [DecidableEq β] (key : α → β) (l : List α)
    (hnd : (l.map key).Nodup) (a : α) (ha : a ∈ l) :
    l.find? (fun x => decide (key x = key a)) = some a := by
  induction l with
  | nil => cases ha
  | cons b l ih =>
    rw [List.map_cons, List.nodup_cons] at hnd
    rcases List.mem_cons.1 ha with rfl | ha'
    · simp
    · have hne : key b ≠ key a := fun h => hnd.1 (h ▸ List.mem_map.2 ⟨a, ha', rfl⟩)
      simp only [List.find?_cons, hne, decide_false]
      exact ih hnd.2 ha'

/-! ## 1. The importer reads only what it needs -/

/-- A raw graph given as a reading `φ` of an index list of nodes and a reading `ψ` of an index list
of arcs. -/
def mkG {ι κ : Type} (zs : List ι) (φ : ι → RNode) (ws : List κ) (ψ : κ → BEdge) : RBGraph :=
  { nodes := zs.map φ, edges := ws.map ψ }

/-- The id the importer gives the reaction of node `n`. -/
def effId (gen : GenId) (n : RNode) (r p : Side) (ru : String) : String :=
  match n.edgeId with
  | some i => i
  | none => gen n.id r p ru

theorem node?_mkG {ι κ : Type} (zs : List ι) (φ : ι → RNode) (ws : List κ) (ψ : κ → BEdge) (i : NodeId) :
    (mkG zs φ ws ψ).node? i = (zs.find? (fun z => decide ((φ z).id = i))).map φ := by
  unfold RBGraph.node? mkG
  simp only [List.find?_map]
  rfl

/-- The step of the classification loop. -/
def clsStep (o : ImpOpts) (acc : List NodeId × List NodeId) (n : RNode) : List NodeId × List NodeId :=
  if n.kind = some "species" then (acc.1 ++ [n.id], acc.2)
  else if n.kind = some "reaction" then (acc.1, acc.2 ++ [n.id])
  else if n.id.startsWith o.speciesPrefix then (acc.1 ++ [n.id], acc.2)
  else if n.id.startsWith o.reactionPrefix then (acc.1, acc.2 ++ [n.id])
  else acc

theorem classifyTagged_eq (o : ImpOpts) (g : RBGraph) : classifyTagged o g = g.nodes.foldl (clsStep o) ([], []) := rfl

theorem clsFold_mem (o : ImpOpts) (ns : List RNode) : ∀ (acc : List NodeId × List NodeId) (r : NodeId),
    (r ∈ (ns.foldl (clsStep o) acc).1 → r ∈ acc.1 ∨ ∃ n ∈ ns, n.id = r) ∧
    (r ∈ (ns.foldl (clsStep o) acc).2 → r ∈ acc.2 ∨ ∃ n ∈ ns, n.id = r) := by
  induction ns with
  | nil => intro acc r; exact ⟨Or.inl, Or.inl⟩
  | cons n ns ih =>
    intro acc r
    simp only [List.foldl_cons]
    have hstep : (r ∈ (clsStep o acc n).1 → r ∈ acc.1 ∨ n.id = r) ∧
        (r ∈ (clsStep o acc n).2 → r ∈ acc.2 ∨ n.id = r) := by
      unfold clsStep
      split
      · simp only [List.mem_append, List.mem_singleton]
        exact ⟨fun h => h.imp id Eq.symm, Or.inl⟩
      · split
        · simp only [List.mem_append, List.mem_singleton]
          exact ⟨Or.inl, fun h => h.imp id Eq.symm⟩
        · split
          · simp only [List.mem_append, List.mem_singleton]
            exact ⟨fun h => h.imp id Eq.symm, Or.inl⟩
          · split
            · simp only [List.mem_append, List.mem_singleton]
              exact ⟨Or.inl, fun h => h.imp id Eq.symm⟩
            · exact ⟨Or.inl, Or.inl⟩
    obtain ⟨i1, i2⟩ := ih (clsStep o acc n) r
    constructor
    · intro h
      rcases i1 h with h | ⟨m, hm, hr⟩
      · rcases hstep.1 h with h | h
        · exact Or.inl h
        · exact Or.inr ⟨n, List.mem_cons_self, h⟩
      · exact Or.inr ⟨m, List.mem_cons_of_mem _ hm, hr⟩
    · intro h
      rcases i2 h with h | ⟨m, hm, hr⟩
      · rcases hstep.2 h with h | h
        · exact Or.inl h
        · exact Or.inr ⟨n, List.mem_cons_self, h⟩
      · exact Or.inr ⟨m, List.mem_cons_of_mem _ hm, hr⟩

/-- Every classified node is a node. -/
theorem classify_mem (o : ImpOpts) (g : RBGraph) (r : NodeId) :
    (r ∈ (classify o g).1 → ∃ n ∈ g.nodes, n.id = r) ∧ (r ∈ (classify o g).2 → ∃ n ∈ g.nodes, n.id = r) := by
  unfold classify
  simp only []
  split
  · simp only [List.mem_map, List.mem_filter]
    exact ⟨fun ⟨n, hn, h⟩ => ⟨n, hn.1, h⟩, fun ⟨n, hn, h⟩ => ⟨n, hn.1, h⟩⟩
  · rw [classifyTagged_eq]
    obtain ⟨h1, h2⟩ := clsFold_mem o g.nodes ([], []) r
    constructor
    · intro h
      rcases h1 h with h | h
      · cases h
      · exact h
    · intro h
      rcases h2 h with h | h
      · cases h
      · exact h

theorem find?_isSome_of_mem {α : Type} (p : α → Bool) (l : List α) (a : α) (ha : a ∈ l) (hp : p a = true) :
    ∃ b, l.find? p = some b := by
  cases h : l.find? p with
  | some b => exact ⟨b, rfl⟩
  | none =>
    rw [List.find?_eq_none] at h
    exact absurd hp (h a ha)

theorem importRxns_congr {α : Type} (gen gen' : GenId) (xs : List α) (ρ ρ' : α → RawRxn)
    (h : ∀ x ∈ xs, (ρ' x).reactants = (ρ x).reactants ∧ (ρ' x).products = (ρ x).products ∧
      (ρ' x).rule = (ρ x).rule ∧ Bip.rawId gen' (ρ' x) = Bip.rawId gen (ρ x)) :
    ∀ N : Net, importRxns gen' N (xs.map ρ') = importRxns gen N (xs.map ρ) := by
  induction xs with
  | nil => intro N; rfl
  | cons x xs ih =>
    intro N
    obtain ⟨h1, h2, h3, h4⟩ := h x List.mem_cons_self
    have ih' := ih (fun y hy => h y (List.mem_cons_of_mem _ hy))
    simp only [List.map_cons, importRxns]
    change (if ((ρ' x).reactants.isEmpty && (ρ' x).products.isEmpty) = true then _ else
      match N.addRxn (ρ' x).reactants (ρ' x).products (ρ' x).rule (Bip.rawId gen' (ρ' x)) with
      | .ok N' => importRxns gen' N' (xs.map ρ')
      | .error e => .error e) =
      (if ((ρ x).reactants.isEmpty && (ρ x).products.isEmpty) = true then _ else
      match N.addRxn (ρ x).reactants (ρ x).products (ρ x).rule (Bip.rawId gen (ρ x)) with
      | .ok N' => importRxns gen N' (xs.map ρ)
      | .error e => .error e)
    rw [h1, h2, h3, h4, ih' N]
    split
    · rfl
    · cases N.addRxn (ρ x).reactants (ρ x).products (ρ x).rule (Bip.rawId gen (ρ x)) with
      | error e => rfl
      | ok N' => exact ih' N'

/-- `importMolRaw` through `effMol`. -/
def molStepRaw (o : ImpOpts) (N : Net) (n : RNode) : Net :=
  match effMol o n with
  | some m =>
    let l := n.spLabel.getD n.id.toStr
    if l ∈ N.species then { N with mol := N.mol.set l m } else N
  | none => N

theorem importMolRaw_eq (o : ImpOpts) (g : RBGraph) (sp : List NodeId) (N : Net) :
    importMolRaw o g sp N = (g.nodes.filter (fun n => decide (n.id ∈ sp))).foldl (molStepRaw o) N := by
  unfold importMolRaw
  by_cases hm : o.molOn = true
  · rw [if_pos hm]
    congr 1
    funext N n
    unfold molStepRaw effMol
    simp only [hm, if_true]
    cases n.mol <;> rfl
  · rw [if_neg hm]
    have hm' : o.molOn = false := by simpa using hm
    have : ∀ (l : List RNode) (N : Net), l.foldl (molStepRaw o) N = N := by
      intro l
      induction l with
      | nil => intro N; rfl
      | cons n l ih =>
        intro N
        rw [List.foldl_cons]
        have : molStepRaw o N n = N := by simp [molStepRaw, effMol, hm']
        rw [this, ih]
    rw [this]

theorem ofBipartiteRaw_congr {ι κ : Type} (gen gen' : GenId) (o o' : ImpOpts)
    (zs : List ι) (φ φ' : ι → RNode) (ws : List κ) (ψ ψ' : κ → BEdge)
    (hid : ∀ z ∈ zs, (φ' z).id = (φ z).id)
    (hcl : classify o' (mkG zs φ' ws ψ') = classify o (mkG zs φ ws ψ))
    (hsp : ∀ z ∈ zs, (φ z).id ∈ (classify o (mkG zs φ ws ψ)).1 →
      (φ' z).spLabel.getD (φ z).id.toStr = (φ z).spLabel.getD (φ z).id.toStr ∧
      effMol o' (φ' z) = effMol o (φ z))
    (hrx : ∀ z ∈ zs, (φ z).id ∈ (classify o (mkG zs φ ws ψ)).2 →
      (φ' z).rxLabel.getD o'.defaultRule = (φ z).rxLabel.getD o.defaultRule ∧
      ∀ r p ru, effId gen' (φ' z) r p ru = effId gen (φ z) r p ru)
    (hed : ∀ w ∈ ws, (ψ' w).src = (ψ w).src ∧ (ψ' w).dst = (ψ w).dst ∧
      (ψ' w).stoich.getD 1 = (ψ w).stoich.getD 1) :
    ofBipartiteRaw gen' o' (mkG zs φ' ws ψ') = ofBipartiteRaw gen o (mkG zs φ ws ψ) := by
  generalize hc : classify o (mkG zs φ ws ψ) = c at hcl hsp hrx
  -- node lookups
  have hfind : ∀ i : NodeId, zs.find? (fun z => decide ((φ' z).id = i)) = zs.find? (fun z => decide ((φ z).id = i)) := by
    intro i
    apply find?_congr_mem
    intro z hz
    rw [hid z hz]
  -- sides
  have hside : ∀ (pick : BEdge → Bool) (nd : BEdge → NodeId)
      (_ : ∀ w ∈ ws, pick (ψ' w) = pick (ψ w)) (_ : ∀ w ∈ ws, nd (ψ' w) = nd (ψ w)),
      rawSide (mkG zs φ' ws ψ') c.1 (((mkG zs φ' ws ψ').edges.filter pick).map (fun e => (nd e, e.stoich))) =
      rawSide (mkG zs φ ws ψ) c.1 (((mkG zs φ ws ψ).edges.filter pick).map (fun e => (nd e, e.stoich))) := by
    intro pick nd hpick hnd
    unfold rawSide
    simp only [mkG, List.filter_map, List.map_map, List.foldl_map]
    rw [filter_congr_mem (pick ∘ ψ') (pick ∘ ψ) ws (fun w hw => hpick w hw)]
    apply Bip.foldl_congr_mem
    intro m w hw
    have hw' : w ∈ ws := (List.mem_filter.1 hw).1
    simp only [Function.comp, hnd w hw', (hed w hw').2.2]
    by_cases hmem : nd (ψ w) ∈ c.1
    · simp only [hmem, if_true]
      have h1 := node?_mkG zs φ' ws ψ' (nd (ψ w))
      have h2 := node?_mkG zs φ ws ψ (nd (ψ w))
      unfold mkG at h1 h2
      rw [h1, h2, hfind]
      cases hz : zs.find? (fun z => decide ((φ z).id = nd (ψ w))) with
      | none => rfl
      | some z =>
        have hzm := List.mem_of_find?_eq_some hz
        have hzi : (φ z).id = nd (ψ w) := by simpa using List.find?_some hz
        simp only [Option.map_some]
        rw [← hzi, (hsp z hzm (hzi ▸ hmem)).1]
    · simp only [hmem, if_false]
  -- reactions
  have hraw : ∀ r ∈ c.2,
      (rawOfRNode o' (mkG zs φ' ws ψ') c.1 r).reactants = (rawOfRNode o (mkG zs φ ws ψ) c.1 r).reactants ∧
      (rawOfRNode o' (mkG zs φ' ws ψ') c.1 r).products = (rawOfRNode o (mkG zs φ ws ψ) c.1 r).products ∧
      (rawOfRNode o' (mkG zs φ' ws ψ') c.1 r).rule = (rawOfRNode o (mkG zs φ ws ψ) c.1 r).rule ∧
      Bip.rawId gen' (rawOfRNode o' (mkG zs φ' ws ψ') c.1 r) = Bip.rawId gen (rawOfRNode o (mkG zs φ ws ψ) c.1 r) := by
    intro r hr
    have hR := hside (fun e => decide (e.dst = r)) (fun e => e.src)
      (fun w hw => by simp only [(hed w hw).2.1]) (fun w hw => (hed w hw).1)
    have hP := hside (fun e => decide (e.src = r)) (fun e => e.dst)
      (fun w hw => by simp only [(hed w hw).1]) (fun w hw => (hed w hw).2.1)
    obtain ⟨n, hn, hnr⟩ := (classify_mem o (mkG zs φ ws ψ) r).2 (hc ▸ hr)
    obtain ⟨z0, hz0, rfl⟩ := List.mem_map.1 (show n ∈ zs.map φ from hn)
    obtain ⟨z, hz⟩ := find?_isSome_of_mem (fun z => decide ((φ z).id = r)) zs z0 hz0 (by simp [hnr])
    have hzm := List.mem_of_find?_eq_some hz
    have hzi : (φ z).id = r := by simpa using List.find?_some hz
    have hn' : (mkG zs φ' ws ψ').node? r = some (φ' z) := by rw [node?_mkG, hfind, hz]; rfl
    have hn0 : (mkG zs φ ws ψ).node? r = some (φ z) := by rw [node?_mkG, hz]; rfl
    obtain ⟨hrule, heff⟩ := hrx z hzm (hzi ▸ hr)
    refine ⟨hR, hP, ?_, ?_⟩
    · simp only [rawOfRNode, hn', hn0, Option.bind_some]
      cases h1 : (φ' z).rxLabel <;> cases h2 : (φ z).rxLabel <;> simp [h1, h2] at hrule ⊢ <;> exact hrule
    · have e1 : (rawOfRNode o' (mkG zs φ' ws ψ') c.1 r).eid = (φ' z).edgeId := by
        simp only [rawOfRNode, hn', Option.bind_some]
      have e2 : (rawOfRNode o (mkG zs φ ws ψ) c.1 r).eid = (φ z).edgeId := by
        simp only [rawOfRNode, hn0, Option.bind_some]
      have hrule' : (rawOfRNode o' (mkG zs φ' ws ψ') c.1 r).rule = (rawOfRNode o (mkG zs φ ws ψ) c.1 r).rule := by
        simp only [rawOfRNode, hn', hn0, Option.bind_some]
        cases h1 : (φ' z).rxLabel <;> cases h2 : (φ z).rxLabel <;> simp [h1, h2] at hrule ⊢ <;> exact hrule
      have r1 : (rawOfRNode o' (mkG zs φ' ws ψ') c.1 r).rnode = r := rfl
      have r2 : (rawOfRNode o (mkG zs φ ws ψ) c.1 r).rnode = r := rfl
      have := heff (sortSide (rawOfRNode o (mkG zs φ ws ψ) c.1 r).reactants)
        (sortSide (rawOfRNode o (mkG zs φ ws ψ) c.1 r).products) (rawOfRNode o (mkG zs φ ws ψ) c.1 r).rule
      unfold effId at this
      unfold Bip.rawId
      rw [e1, e2, r1, r2, hrule']
      have hR' : (rawOfRNode o' (mkG zs φ' ws ψ') c.1 r).reactants = (rawOfRNode o (mkG zs φ ws ψ) c.1 r).reactants := hR
      have hP' : (rawOfRNode o' (mkG zs φ' ws ψ') c.1 r).products = (rawOfRNode o (mkG zs φ ws ψ) c.1 r).products := hP
      rw [hR', hP']
      rw [hid z hzm, hzi] at this
      exact this
  -- molecule labels
  have hmol : ∀ N : Net, importMolRaw o' (mkG zs φ' ws ψ') c.1 N = importMolRaw o (mkG zs φ ws ψ) c.1 N := by
    intro N
    rw [importMolRaw_eq, importMolRaw_eq]
    simp only [mkG, List.filter_map, List.foldl_map]
    rw [filter_congr_mem ((fun n : RNode => decide (n.id ∈ c.1)) ∘ φ') ((fun n : RNode => decide (n.id ∈ c.1)) ∘ φ) zs
      (fun z hz => by simp only [Function.comp, hid z hz])]
    apply Bip.foldl_congr_mem
    intro M z hz
    obtain ⟨hzm, hzc⟩ := List.mem_filter.1 hz
    have hzc' : (φ z).id ∈ c.1 := of_decide_eq_true hzc
    obtain ⟨hl, he⟩ := hsp z hzm hzc'
    simp only [molStepRaw, he, hid z hzm, hl]
  unfold ofBipartiteRaw
  simp only [hcl, hc]
  have hmap : (sortBy NodeId.le c.2).map (rawOfRNode o' (mkG zs φ' ws ψ') c.1) =
      (sortBy NodeId.le c.2).map (fun r => rawOfRNode o' (mkG zs φ' ws ψ') c.1 r) := rfl
  rw [importRxns_congr gen gen' (sortBy NodeId.le c.2) (rawOfRNode o (mkG zs φ ws ψ) c.1)
    (rawOfRNode o' (mkG zs φ' ws ψ') c.1)
    (fun r hr => hraw r ((Bip.sortBy_perm _ _).mem_iff.1 hr)) {}]
  cases importRxns gen {} ((sortBy NodeId.le c.2).map (rawOfRNode o (mkG zs φ ws ψ) c.1)) with
  | error e => rfl
  | ok N => simp only [hmol N]

/-! ## 2. Classification of a degraded tagged graph -/

/-- A node the exporter tagged. -/
def Tagged (n : RNode) : Prop := n.kind = some "species" ∨ n.kind = some "reaction"

theorem clsStep_kindOK (o o' : ImpOpts) (acc : List NodeId × List NodeId) (n n' : RNode)
    (ht : Tagged n) (hid : n'.id = n.id) (hk : kindOK o' n n' = true) :
    clsStep o' acc n' = clsStep o acc n := by
  unfold kindOK at hk
  simp only [Bool.or_eq_true, Bool.and_eq_true, decide_eq_true_eq] at hk
  rcases hk with hk | ⟨⟨h1, h2⟩, h3⟩
  · unfold clsStep
    rw [hk, hid]
    rcases ht with ht | ht
    · simp only [ht, if_true]
    · have : ¬ (some "reaction" : Option String) = some "species" := by decide
      simp only [ht, this, if_false, if_true]
  · rcases ht with ht | ht
    · rw [if_pos ht] at h3
      unfold clsStep
      simp only [h1, h2, if_false, hid, h3, if_true, ht]
    · have hns : ¬ n.kind = some "species" := by rw [ht]; decide
      rw [if_neg hns] at h3
      simp only [Bool.and_eq_true, Bool.not_eq_eq_eq_not, Bool.not_true] at h3
      have hrs : ¬ (some "reaction" : Option String) = some "species" := by decide
      unfold clsStep
      simp only [h1, h2, if_false, hid, h3.1, h3.2, if_true, ht, hrs, Bool.false_eq_true]

theorem clsStep_ne (o : ImpOpts) (acc : List NodeId × List NodeId) (n : RNode)
    (h : acc.1 ≠ [] ∨ acc.2 ≠ []) : (clsStep o acc n).1 ≠ [] ∨ (clsStep o acc n).2 ≠ [] := by
  unfold clsStep
  split
  · exact Or.inl (by simp)
  · split
    · exact Or.inr (by simp)
    · split
      · exact Or.inl (by simp)
      · split
        · exact Or.inr (by simp)
        · exact h

theorem clsFold_ne (o : ImpOpts) (ns : List RNode) : ∀ acc : List NodeId × List NodeId,
    (acc.1 ≠ [] ∨ acc.2 ≠ []) →
    (ns.foldl (clsStep o) acc).1 ≠ [] ∨ (ns.foldl (clsStep o) acc).2 ≠ [] := by
  induction ns with
  | nil => intro acc h; exact h
  | cons n ns ih => intro acc h; exact ih _ (clsStep_ne o acc n h)

theorem clsStep_tagged_ne (o : ImpOpts) (acc : List NodeId × List NodeId) (n : RNode) (ht : Tagged n) :
    (clsStep o acc n).1 ≠ [] ∨ (clsStep o acc n).2 ≠ [] := by
  unfold clsStep
  rcases ht with ht | ht
  · rw [if_pos ht]; exact Or.inl (by simp)
  · have hns : ¬ n.kind = some "species" := by rw [ht]; decide
    rw [if_neg hns, if_pos ht]; exact Or.inr (by simp)

/-- A graph whose nodes keep their tag, or lose it where the prefix heuristic re-derives it, is
classified like the tagged graph (the degree heuristic is never reached). -/
theorem classify_degraded {ι κ : Type} (o o' : ImpOpts)
    (zs : List ι) (φ φ' : ι → RNode) (ws : List κ) (ψ ψ' : κ → BEdge)
    (hid : ∀ z ∈ zs, (φ' z).id = (φ z).id) (ht : ∀ z ∈ zs, Tagged (φ z))
    (hk : ∀ z ∈ zs, kindOK o' (φ z) (φ' z) = true) :
    classify o' (mkG zs φ' ws ψ') = classify o (mkG zs φ ws ψ) := by
  have hct : classifyTagged o' (mkG zs φ' ws ψ') = classifyTagged o (mkG zs φ ws ψ) := by
    rw [classifyTagged_eq, classifyTagged_eq]
    simp only [mkG, List.foldl_map]
    apply Bip.foldl_congr_mem
    intro acc z hz
    exact clsStep_kindOK o o' acc (φ z) (φ' z) (ht z hz) (hid z hz) (hk z hz)
  unfold classify
  rw [hct]
  cases zs with
  | nil => rfl
  | cons z zs =>
    have hne : (classifyTagged o (mkG (z :: zs) φ ws ψ)).1 ≠ [] ∨ (classifyTagged o (mkG (z :: zs) φ ws ψ)).2 ≠ [] := by
      rw [classifyTagged_eq]
      simp only [mkG, List.map_cons, List.foldl_cons]
      exact clsFold_ne o _ _ (clsStep_tagged_ne o _ _ (ht z List.mem_cons_self))
    have hcond : ((classifyTagged o (mkG (z :: zs) φ ws ψ)).1.isEmpty &&
        (classifyTagged o (mkG (z :: zs) φ ws ψ)).2.isEmpty) = false := by
      rcases hne with h | h
      · cases hh : (classifyTagged o (mkG (z :: zs) φ ws ψ)).1 with
        | nil => exact absurd hh h
        | cons _ _ => rfl
      · cases hh : (classifyTagged o (mkG (z :: zs) φ ws ψ)).2 with
        | nil => exact absurd hh h
        | cons _ _ => simp
    simp only [hcond, Bool.false_eq_true, if_false]

/-! ## 3. The exported graph; stripping `kind` -/

theorem toBipartite_ids_nodup (f : BipFlags) (N : Net) (hN : WfNet N) (hc : NoIdClash f N) :
    ((toBipartite f N).nodes.map (·.id)).Nodup := by
  have I := Bip.ids_concrete f N hN hc
  rw [Bip.toBipartite_clean f N hN hc]
  unfold Bip.cleanGraph
  simp only [List.map_append, List.map_map]
  rw [List.nodup_append]
  refine ⟨?_, ?_, ?_⟩
  · exact Bip.nodup_map_of_inj_on _ _ (Bip.speciesIter_nodup f N hN) (fun a ha b hb h => I.sidInj a ha b hb h)
  · exact Bip.nodup_map_of_inj_on _ _ (Bip.sortRxns_nodup N hN) (fun a ha b hb h => I.ridInj a ha b hb h)
  · intro a ha b hb
    obtain ⟨s, hs, rfl⟩ := List.mem_map.1 ha
    obtain ⟨e, he, rfl⟩ := List.mem_map.1 hb
    exact I.disj s hs e he

theorem rawOfBNode_tagged (m : BNode) : Tagged (rawOfBNode m) := by
  unfold Tagged rawOfBNode
  cases m.kind
  · exact Or.inl rfl
  · exact Or.inr rfl

theorem toRaw_eq_mkG (B : BGraph) : B.toRaw = mkG B.nodes rawOfBNode B.edges id := by
  unfold mkG
  rw [List.map_id]
  rfl

theorem setKind_toRaw_eq_mkG (B : BGraph) (p : NodeId → Bool) (k : Option String) :
    B.toRaw.setKind p k =
      mkG B.nodes (fun m => if p (rawOfBNode m).id then { rawOfBNode m with kind := k } else rawOfBNode m) B.edges id := by
  unfold mkG RBGraph.setKind
  rw [List.map_id, toRaw_nodes, List.map_map]
  rfl

/-- Stripping (or overwriting with an unusable value) the `kind` of any set of nodes of a tagged
graph does not change what the importer returns, as long as the prefix heuristic re-derives the
tag of every such node. Any `default_rule` (every reaction node carries its rule). -/
theorem ofBipartiteRaw_setKind (gen : GenId) (o' : ImpOpts) (hm : o'.molOn = true) (B : BGraph)
    (hnd : (B.nodes.map (·.id)).Nodup) (p : NodeId → Bool) (k : Option String)
    (hk : ∀ m ∈ B.nodes, p (rawOfBNode m).id = true →
      kindOK o' (rawOfBNode m) { rawOfBNode m with kind := k } = true) :
    ofBipartiteRaw gen o' (B.toRaw.setKind p k) = ofBipartite gen B := by
  rw [← ofBipartiteRaw_toRaw gen B hnd, setKind_toRaw_eq_mkG, toRaw_eq_mkG]
  have hφ : ∀ m : BNode, ∃ k', (if p (rawOfBNode m).id then { rawOfBNode m with kind := k } else rawOfBNode m) =
      { rawOfBNode m with kind := k' } := by
    intro m
    by_cases hp : p (rawOfBNode m).id = true
    · exact ⟨k, by rw [if_pos hp]⟩
    · exact ⟨(rawOfBNode m).kind, by rw [if_neg hp]⟩
  apply ofBipartiteRaw_congr gen gen {} o'
  · intro m _; obtain ⟨k', h⟩ := hφ m; rw [h]
  · apply classify_degraded
    · intro m _; obtain ⟨k', h⟩ := hφ m; rw [h]
    · intro m _; exact rawOfBNode_tagged m
    · intro m hm'
      by_cases hp : p (rawOfBNode m).id = true
      · rw [if_pos hp]; exact hk m hm' hp
      · rw [if_neg hp]; simp [kindOK]
  · intro m _ _
    obtain ⟨k', h⟩ := hφ m
    rw [h]
    exact ⟨rfl, by unfold effMol; rw [hm]⟩
  · intro m _ _
    obtain ⟨k', h⟩ := hφ m
    rw [h]
    exact ⟨rfl, fun r q ru => rfl⟩
  · intro w _; exact ⟨rfl, rfl, rfl⟩

theorem startsWith_append (sp s : String) : (NodeId.str (sp ++ s)).startsWith sp = true := by
  unfold NodeId.startsWith
  simp only [String.toList_append]
  exact List.isPrefixOf_iff_prefix.2 (List.prefix_append _ _)

/-- Under `PrefixDisjoint` the prefix heuristic re-derives the tag of every node of the string-id
view exported with the prefixes `sp` / `rp`. -/
theorem kindOK_prefix (f : BipFlags) (N : Net) (hN : WfNet N) (hc : NoIdClash f N) (sp rp : String)
    (hstr : f.integerIds = false) (hsp : f.speciesPrefix = some sp) (hrp : f.reactionPrefix = some rp)
    (hd : PrefixDisjoint sp rp N) (o' : ImpOpts) (ho1 : o'.speciesPrefix = sp) (ho2 : o'.reactionPrefix = rp)
    (k : Option String) (hk1 : k ≠ some "species") (hk2 : k ≠ some "reaction") :
    ∀ m ∈ (toBipartite f N).nodes, kindOK o' (rawOfBNode m) { rawOfBNode m with kind := k } = true := by
  rw [Bip.toBipartite_clean f N hN hc]
  intro m hm
  unfold Bip.cleanGraph at hm
  simp only [List.mem_append, List.mem_map] at hm
  unfold kindOK
  simp only [Bool.or_eq_true, Bool.and_eq_true, decide_eq_true_eq]
  right
  refine ⟨⟨hk1, hk2⟩, ?_⟩
  rcases hm with ⟨s, _, rfl⟩ | ⟨e, he, rfl⟩
  · have h1 : (rawOfBNode (Bip.spNode f N (Bip.sid f (speciesIter f N)) s)).kind = some "species" := rfl
    have h2 : (rawOfBNode (Bip.spNode f N (Bip.sid f (speciesIter f N)) s)).id = .str (sp ++ s) := by
      show Bip.sid f (speciesIter f N) s = _
      unfold Bip.sid
      simp [hstr, hsp, withPrefix]
    rw [if_pos h1, h2, ho1]
    exact startsWith_append sp s
  · have h1 : ¬ (rawOfBNode (Bip.rxNode f (Bip.rid f (speciesIter f N).length (sortRxns N.rxns)) e)).kind = some "species" := by
      show ¬ (some "reaction" : Option String) = some "species"
      decide
    have h2 : (rawOfBNode (Bip.rxNode f (Bip.rid f (speciesIter f N).length (sortRxns N.rxns)) e)).id = .str (rp ++ e.id) := by
      show Bip.rid f (speciesIter f N).length (sortRxns N.rxns) e = _
      unfold Bip.rid
      simp [hstr, hrp, withPrefix]
    rw [if_neg h1, h2, ho1, ho2]
    have he' : e ∈ N.rxns := (Bip.sortRxns_perm N.rxns).mem_iff.1 he
    simp only [Bool.and_eq_true, Bool.not_eq_eq_eq_not, Bool.not_true]
    exact ⟨hd e he', startsWith_append rp e.id⟩

/-- **`ofBipartiteRaw_prefix_roundtrip`, lemma form.** -/
theorem ofBipartiteRaw_prefix_roundtrip' (f : BipFlags) (N : Net) (gen : GenId) (sp rp : String)
    (o' : ImpOpts) (ho1 : o'.speciesPrefix = sp) (ho2 : o'.reactionPrefix = rp) (hm : o'.molOn = true)
    (p : NodeId → Bool) (k : Option String) (hk1 : k ≠ some "species") (hk2 : k ≠ some "reaction")
    (hN : WfNet N) (hc : NoIdClash f N) (hs : StoichKept f N) (hid : f.includeEdgeIdAttr = true)
    (hstr : f.integerIds = false) (hsp : f.speciesPrefix = some sp) (hrp : f.reactionPrefix = some rp)
    (hd : PrefixDisjoint sp rp N) :
    ∃ N', ofBipartiteRaw gen o' ((toBipartite f N).toRaw.setKind p k) = .ok N' ∧
      N'.rxns.Perm N.rxns ∧
      (∀ s, s ∈ N'.species ↔ s ∈ N.rxnSpecies) ∧
      (∀ s, N'.mol.get? s = if f.includeMol = true ∧ s ∈ N.rxnSpecies then N.mol.get? s else none) := by
  rw [ofBipartiteRaw_setKind gen o' hm (toBipartite f N) (toBipartite_ids_nodup f N hN hc) p k
    (fun m hm' _ => kindOK_prefix f N hN hc sp rp hstr hsp hrp hd o' ho1 ho2 k hk1 hk2 m hm')]
  exact Bip.bipartite_roundtrip' f N gen hN hc hs hid

/-! ## 4. The claim condition implies the round trip -/

theorem all2_map_left {α β γ : Type} (r : β → γ → Bool) (h : α → β) (l : List α) (l' : List γ) :
    all2 r (l.map h) l' = all2 (fun a b => r (h a) b) l l' := by
  induction l generalizing l' with
  | nil => cases l' <;> rfl
  | cons a l ih =>
    cases l' with
    | nil => rfl
    | cons b l' => simp only [List.map_cons, all2, ih]

abbrev Idx := String ⊕ Rxn

/-- The nodes of the exported graph, species first. -/
def idxOf (f : BipFlags) (N : Net) : List Idx :=
  (speciesIter f N).map Sum.inl ++ (sortRxns N.rxns).map Sum.inr

def refNode (f : BipFlags) (N : Net) (sd : String → NodeId) (rd : Rxn → NodeId) : Idx → RNode
  | .inl s => rawOfBNode (Bip.spNode f N sd s)
  | .inr e => rawOfBNode (Bip.rxNode f rd e)

/-- Flags of the two reference views. -/
def f0 (f : BipFlags) (mol : Bool) : BipFlags :=
  { f with includeEdgeIdAttr := false, includeMol := f.includeMol && mol }
def f1 (f : BipFlags) : BipFlags := { f with includeEdgeIdAttr := true }

theorem toRaw_toBipartite_nodes (fx : BipFlags) (N : Net) (hN : WfNet N) (hc : NoIdClash fx N) :
    (toBipartite fx N).toRaw.nodes = (idxOf fx N).map
      (refNode fx N (Bip.sid fx (speciesIter fx N)) (Bip.rid fx (speciesIter fx N).length (sortRxns N.rxns))) := by
  rw [Bip.toBipartite_clean fx N hN hc, toRaw_nodes]
  unfold Bip.cleanGraph idxOf
  simp only [List.map_append, List.map_map]
  rfl

/-- The id generator that reproduces, on the view without edge ids, the ids the importer hands
out on the degraded graph. -/
def genOf (gen : GenId) (zs : List (Idx × RNode)) (key : Idx → NodeId) : GenId := fun rnode r p ru =>
  match zs.find? (fun z => decide (key z.1 = rnode)) with
  | some z => effId gen z.2 r p ru
  | none => gen rnode r p ru

theorem mem_zip_of_mem_left {α β : Type} (l : List α) (l' : List β) (h : l = (l.zip l').map Prod.fst)
    (a : α) (ha : a ∈ l) : ∃ b, (a, b) ∈ l.zip l' := by
  rw [h] at ha
  obtain ⟨z, hz, rfl⟩ := List.mem_map.1 ha
  exact ⟨z.2, hz⟩

theorem bipRawClaim_core (mol : Bool) (f : BipFlags) (o : ImpOpts) (N : Net) (g' : RBGraph) (gen : GenId)
    (h : bipRawClaimWith mol f o N g' = true) :
    ∃ (idOf : Rxn → String) (nodeOf : Rxn → NodeId),
      (∀ a ∈ N.rxns, ∀ b ∈ N.rxns, nodeOf a = nodeOf b → a = b) ∧
      (∀ e ∈ N.rxns, idOf e = e.id ∨
        idOf e = gen (nodeOf e) (sortSide e.reactants) (sortSide e.products) e.rule) ∧
      (bipRawIdsKept f N g' = true → ∀ e ∈ N.rxns, idOf e = e.id) ∧
      ((N.rxns.map idOf).Nodup →
        ∃ N', ofBipartiteRaw gen o g' = .ok N' ∧
          N'.rxns.Perm (N.rxns.map fun e => ⟨idOf e, e.rule, e.reactants, e.products⟩) ∧
          (∀ s, s ∈ N'.species ↔ s ∈ N.rxnSpecies) ∧
          (∀ s, N'.mol.get? s =
            if (f.includeMol && mol) = true ∧ s ∈ N.rxnSpecies then N.mol.get? s else none)) := by
  unfold bipRawClaimWith at h
  simp only [Bool.and_eq_true] at h
  obtain ⟨⟨⟨⟨⟨hN, hc⟩, hs⟩, hnodes⟩, hedges⟩, hidok⟩ := h
  rw [wfNetB_iff] at hN
  rw [noIdClashB_iff] at hc
  rw [stoichKeptB_iff] at hs
  have hc0 : NoIdClash (f0 f mol) N := hc
  have hs0 : StoichKept (f0 f mol) N := hs
  have hc1 : NoIdClash (f1 f) N := hc
  have I := Bip.ids_concrete f N hN hc
  -- names
  generalize hsd : Bip.sid f (speciesIter f N) = sd at I
  generalize hrd : Bip.rid f (speciesIter f N).length (sortRxns N.rxns) = rd at I
  have hn0 : (bipRef f mol N).nodes = (idxOf f N).map (refNode (f0 f mol) N sd rd) := by
    rw [← hsd, ← hrd]; exact toRaw_toBipartite_nodes (f0 f mol) N hN hc0
  have hn1 : (bipIdRef f N).nodes = (idxOf f N).map (refNode (f1 f) N sd rd) := by
    rw [← hsd, ← hrd]; exact toRaw_toBipartite_nodes (f1 f) N hN hc1
  have hnd0 : ((toBipartite (f0 f mol) N).nodes.map (·.id)).Nodup := toBipartite_ids_nodup _ N hN hc0
  -- the zips
  rw [hn0, all2_map_left] at hnodes
  rw [hn1, all2_map_left] at hidok
  obtain ⟨hz1, hz2, hzn⟩ := all2_zip _ _ _ hnodes
  obtain ⟨_, _, hzi⟩ := all2_zip _ _ _ hidok
  obtain ⟨hw1, hw2, hwe⟩ := all2_zip _ _ _ hedges
  generalize hzs : (idxOf f N).zip g'.nodes = zs at hz1 hz2 hzn hzi
  generalize hws : (bipRef f mol N).edges.zip g'.edges = ws at hw1 hw2 hwe
  have hg' : g' = mkG zs Prod.snd ws Prod.snd := by
    cases g' with
    | mk ns es => simp only [mkG] at hz2 hw2 ⊢; rw [← hz2, ← hw2]
  have href : bipRef f mol N = mkG zs (fun z => refNode (f0 f mol) N sd rd z.1) ws Prod.fst := by
    have : (bipRef f mol N).nodes = zs.map (fun z => refNode (f0 f mol) N sd rd z.1) := by
      rw [hn0]; conv => lhs; rw [hz1]
      rw [List.map_map]; rfl
    cases hb : bipRef f mol N with
    | mk ns es => rw [hb] at this hw1; simp only [mkG] at this hw1 ⊢; rw [← this, ← hw1]
  -- facts about the nodes
  have hnodeOK : ∀ z ∈ zs, z.2.id = (refNode (f0 f mol) N sd rd z.1).id ∧
      kindOK o (refNode (f0 f mol) N sd rd z.1) z.2 = true := by
    intro z hz
    have := hzn z hz
    unfold nodeOK at this
    simp only [Bool.and_eq_true, decide_eq_true_eq] at this
    exact ⟨this.1.1, this.1.2⟩
  have hkey : (zs.map fun z => (refNode (f0 f mol) N sd rd z.1).id).Nodup := by
    have h1 : (zs.map fun z => (refNode (f0 f mol) N sd rd z.1).id) = (bipRef f mol N).nodes.map (·.id) := by
      rw [href]; simp only [mkG, List.map_map]; rfl
    rw [h1]
    unfold bipRef
    rw [toRaw_nodes, List.map_map]
    exact hnd0
  -- classification of the reference view
  have hcls : classify {} (bipRef f mol N) = ((speciesIter f N).map sd, (sortRxns N.rxns).map rd) := by
    unfold bipRef
    rw [classify_toRaw]
    have := Bip.toBipartite_clean (f0 f mol) N hN hc0
    rw [show (toBipartite { f with includeEdgeIdAttr := false, includeMol := f.includeMol && mol } N) =
      toBipartite (f0 f mol) N from rfl, this, Bip.clean_speciesNodes, Bip.clean_reactionNodes]
    rw [← hsd, ← hrd]
    rfl
  -- every reaction has its node in the degraded graph
  have hrxn : ∀ e ∈ N.rxns, ∃ n', (Sum.inr e, n') ∈ zs ∧ n'.id = rd e ∧
      ∀ r p ru, genOf gen zs (fun i => (refNode (f0 f mol) N sd rd i).id) (rd e) r p ru = effId gen n' r p ru := by
    intro e he
    have he' : (Sum.inr e : Idx) ∈ idxOf f N := by
      unfold idxOf
      exact List.mem_append_right _ (List.mem_map.2 ⟨e, (Bip.sortRxns_perm N.rxns).mem_iff.2 he, rfl⟩)
    rw [hz1] at he'
    obtain ⟨z, hz, hze⟩ := List.mem_map.1 he'
    obtain ⟨i, n'⟩ := z
    simp only at hze
    subst hze
    refine ⟨n', hz, (hnodeOK _ hz).1, ?_⟩
    intro r p ru
    unfold genOf
    have := find?_key_of_nodup (fun z : Idx × RNode => (refNode (f0 f mol) N sd rd z.1).id) zs hkey _ hz
    have hk : (refNode (f0 f mol) N sd rd (Sum.inr e)).id = rd e := rfl
    simp only [hk] at this
    rw [this]
  have hidcase : ∀ e ∈ N.rxns, ∀ n', (Sum.inr e, n') ∈ zs → n'.edgeId = none ∨ n'.edgeId = some e.id := by
    intro e _ n' hz
    have := hzi _ hz
    unfold idOK at this
    have hk : (refNode (f1 f) N sd rd (Sum.inr e)).kind = some "reaction" := rfl
    have hi : (refNode (f1 f) N sd rd (Sum.inr e)).edgeId = some e.id := rfl
    simp only [hk, hi, Bool.or_eq_true, decide_eq_true_eq, ne_eq, not_true_eq_false, false_or] at this
    exact this
  refine ⟨fun e => genOf gen zs (fun i => (refNode (f0 f mol) N sd rd i).id) (rd e)
    (sortSide e.reactants) (sortSide e.products) e.rule, rd, ?_, ?_, ?_, ?_⟩
  · intro a ha b hb hab
    exact I.ridInj a ((Bip.sortRxns_perm N.rxns).mem_iff.2 ha) b ((Bip.sortRxns_perm N.rxns).mem_iff.2 hb) hab
  · intro e he
    show genOf gen zs _ (rd e) _ _ _ = _ ∨ genOf gen zs _ (rd e) _ _ _ = _
    obtain ⟨n', hz, hid, hgen⟩ := hrxn e he
    rw [hgen]
    unfold effId
    rcases hidcase e he n' hz with h | h
    · right; rw [h, hid]
    · left; rw [h]
  · intro hkept e he
    show genOf gen zs _ (rd e) _ _ _ = _
    obtain ⟨n', hz, _, hgen⟩ := hrxn e he
    rw [hgen]
    unfold bipRawIdsKept at hkept
    rw [hn1, all2_map_left] at hkept
    obtain ⟨_, _, hzk⟩ := all2_zip _ _ _ hkept
    rw [hzs] at hzk
    have := hzk _ hz
    unfold idKept at this
    have hk : (refNode (f1 f) N sd rd (Sum.inr e)).kind = some "reaction" := rfl
    have hi : (refNode (f1 f) N sd rd (Sum.inr e)).edgeId = some e.id := rfl
    simp only [hk, hi, Bool.or_eq_true, decide_eq_true_eq, ne_eq, not_true_eq_false, false_or] at this
    unfold effId
    rw [this]
  · intro hnodup
    have hidx_inr : ∀ e n', ((Sum.inr e : Idx), n') ∈ zs → e ∈ sortRxns N.rxns := by
      intro e n' hz
      have : (Sum.inr e : Idx) ∈ idxOf f N := by rw [hz1]; exact List.mem_map.2 ⟨_, hz, rfl⟩
      unfold idxOf at this
      simp only [List.mem_append, List.mem_map, reduceCtorEq, and_false, exists_false, false_or,
        Sum.inr.injEq, exists_eq_right] at this
      exact this
    have hidx_inl : ∀ s n', ((Sum.inl s : Idx), n') ∈ zs → s ∈ speciesIter f N := by
      intro s n' hz
      have : (Sum.inl s : Idx) ∈ idxOf f N := by rw [hz1]; exact List.mem_map.2 ⟨_, hz, rfl⟩
      unfold idxOf at this
      simp only [List.mem_append, List.mem_map, reduceCtorEq, and_false, exists_false, or_false,
        Sum.inl.injEq, exists_eq_right] at this
      exact this
    have hgenz : ∀ e n', ((Sum.inr e : Idx), n') ∈ zs → ∀ r p ru,
        genOf gen zs (fun i => (refNode (f0 f mol) N sd rd i).id) (rd e) r p ru = effId gen n' r p ru := by
      intro e n' hz r p ru
      unfold genOf
      have := find?_key_of_nodup (fun z : Idx × RNode => (refNode (f0 f mol) N sd rd z.1).id) zs hkey _ hz
      have hk : (refNode (f0 f mol) N sd rd (Sum.inr e)).id = rd e := rfl
      simp only [hk] at this
      rw [this]
    have hcls' : classify {} (mkG zs (fun z => refNode (f0 f mol) N sd rd z.1) ws Prod.fst) =
        ((speciesIter f N).map sd, (sortRxns N.rxns).map rd) := href ▸ hcls
    have hcongr : ofBipartiteRaw gen o g' =
        ofBipartiteRaw (genOf gen zs (fun i => (refNode (f0 f mol) N sd rd i).id)) {} (bipRef f mol N) := by
      rw [href]
      conv => lhs; rw [hg']
      apply ofBipartiteRaw_congr _ gen {} o
      · intro z hz; exact (hnodeOK z hz).1
      · apply classify_degraded
        · intro z hz; exact (hnodeOK z hz).1
        · intro z _
          obtain ⟨i, n'⟩ := z
          cases i <;> exact rawOfBNode_tagged _
        · intro z hz; exact (hnodeOK z hz).2
      · intro z hz hmem
        rw [hcls'] at hmem
        obtain ⟨i, n'⟩ := z
        have hok := hzn _ hz
        cases i with
        | inl s =>
          unfold nodeOK at hok
          have hk : (refNode (f0 f mol) N sd rd (Sum.inl s)).kind = some "species" := rfl
          simp only [hk, if_true, Bool.and_eq_true, decide_eq_true_eq] at hok
          exact ⟨hok.2.1, hok.2.2⟩
        | inr e =>
          exfalso
          obtain ⟨s, hs, hse⟩ := List.mem_map.1 hmem
          exact I.disj s hs e (hidx_inr e n' hz) hse
      · intro z hz hmem
        rw [hcls'] at hmem
        obtain ⟨i, n'⟩ := z
        have hok := hzn _ hz
        cases i with
        | inl s =>
          exfalso
          obtain ⟨e, he, hse⟩ := List.mem_map.1 hmem
          exact I.disj s (hidx_inl s n' hz) e he hse.symm
        | inr e =>
          unfold nodeOK at hok
          have hk : ¬ (refNode (f0 f mol) N sd rd (Sum.inr e)).kind = some "species" := by
            show ¬ (some "reaction" : Option String) = some "species"
            decide
          simp only [hk, if_false, Bool.and_eq_true, decide_eq_true_eq] at hok
          refine ⟨hok.2, ?_⟩
          intro r p ru
          have hn : effId (genOf gen zs (fun i => (refNode (f0 f mol) N sd rd i).id))
              (refNode (f0 f mol) N sd rd (Sum.inr e)) r p ru =
              genOf gen zs (fun i => (refNode (f0 f mol) N sd rd i).id) (rd e) r p ru := rfl
          rw [hn, hgenz e n' hz]
      · intro w hw
        have := hwe w hw
        unfold edgeOK at this
        simp only [Bool.and_eq_true, decide_eq_true_eq] at this
        exact ⟨this.1.1, this.1.2, this.2⟩
    have htie : ofBipartiteRaw (genOf gen zs (fun i => (refNode (f0 f mol) N sd rd i).id)) {} (bipRef f mol N) =
        ofBipartite (genOf gen zs (fun i => (refNode (f0 f mol) N sd rd i).id)) (toBipartite (f0 f mol) N) :=
      ofBipartiteRaw_toRaw _ _ hnd0
    have hrd0 : Bip.rid (f0 f mol) (speciesIter (f0 f mol) N).length (sortRxns N.rxns) = rd := hrd
    obtain ⟨N', h1, h2, h3, h4⟩ := Bip.roundtrip_general (f0 f mol) N
      (genOf gen zs (fun i => (refNode (f0 f mol) N sd rd i).id)) hN hc0 hs0
      (by rw [hrd0]; exact hnodup)
    refine ⟨N', by rw [hcongr, htie]; exact h1, ?_, h3, h4⟩
    rw [hrd0] at h2
    exact h2

/-- Claim condition met and every reaction node still carries its edge id: the reactions come
back with their ids. -/
theorem bipRawClaim_roundtrip_ids (mol : Bool) (f : BipFlags) (o : ImpOpts) (N : Net) (g' : RBGraph)
    (gen : GenId) (h : bipRawClaimWith mol f o N g' = true) (hk : bipRawIdsKept f N g' = true) :
    ∃ N', ofBipartiteRaw gen o g' = .ok N' ∧ N'.rxns.Perm N.rxns ∧
      (∀ s, s ∈ N'.species ↔ s ∈ N.rxnSpecies) ∧
      (∀ s, N'.mol.get? s =
        if (f.includeMol && mol) = true ∧ s ∈ N.rxnSpecies then N.mol.get? s else none) := by
  have hN : WfNet N := by
    unfold bipRawClaimWith at h
    simp only [Bool.and_eq_true] at h
    exact (wfNetB_iff N).1 h.1.1.1.1.1
  obtain ⟨idOf, nodeOf, _, _, hkept, hmain⟩ := bipRawClaim_core mol f o N g' gen h
  have hid := hkept hk
  have e1 : N.rxns.map idOf = N.ids := List.map_congr_left hid
  have e2 : (N.rxns.map fun e => (⟨idOf e, e.rule, e.reactants, e.products⟩ : Rxn)) = N.rxns := by
    rw [List.map_congr_left (g := id) (fun e he => by rw [hid e he]; rfl), List.map_id]
  obtain ⟨N', h1, h2, h3, h4⟩ := hmain (by rw [e1]; exact hN.idsNodup)
  exact ⟨N', h1, e2 ▸ h2, h3, h4⟩

/-- Claim condition met, some or all edge ids missing: the missing ids are synthesised (`gen`, a
hash in the real code); if the synthesised ids collide neither with each other nor with an id of
the network, everything but the ids comes back. -/
theorem bipRawClaim_roundtrip_noid (mol : Bool) (f : BipFlags) (o : ImpOpts) (N : Net) (g' : RBGraph)
    (gen : GenId) (h : bipRawClaimWith mol f o N g' = true)
    (hgen : ∀ a b r p r' p' ru ru', gen a r p ru = gen b r' p' ru' → a = b)
    (hfresh : ∀ a r p ru, gen a r p ru ∉ N.ids) :
    ∃ N', ofBipartiteRaw gen o g' = .ok N' ∧
      (N'.rxns.map Rxn.content).Perm (N.rxns.map Rxn.content) ∧
      (∀ s, s ∈ N'.species ↔ s ∈ N.rxnSpecies) ∧
      (∀ s, N'.mol.get? s =
        if (f.includeMol && mol) = true ∧ s ∈ N.rxnSpecies then N.mol.get? s else none) := by
  have hN : WfNet N := by
    unfold bipRawClaimWith at h
    simp only [Bool.and_eq_true] at h
    exact (wfNetB_iff N).1 h.1.1.1.1.1
  obtain ⟨idOf, nodeOf, hinj, hcase, _, hmain⟩ := bipRawClaim_core mol f o N g' gen h
  have hmemid : ∀ e ∈ N.rxns, e.id ∈ N.ids := fun e he => List.mem_map.2 ⟨e, he, rfl⟩
  have hnd : (N.rxns.map idOf).Nodup := by
    apply Bip.nodup_map_of_inj_on _ _ (Bip.nodup_of_nodup_map _ _ hN.idsNodup)
    intro a ha b hb hab
    rcases hcase a ha with h1 | h1 <;> rcases hcase b hb with h2 | h2
    · exact Bip.inj_of_nodup_map _ N.rxns hN.idsNodup a b ha hb (by rw [← h1, ← h2, hab])
    · exact absurd (hmemid a ha) (by rw [← h1, hab, h2]; exact hfresh _ _ _ _)
    · exact absurd (hmemid b hb) (by rw [← h2, ← hab, h1]; exact hfresh _ _ _ _)
    · exact hinj a ha b hb (hgen _ _ _ _ _ _ _ _ (by rw [← h1, ← h2, hab]))
  obtain ⟨N', h1, h2, h3, h4⟩ := hmain hnd
  refine ⟨N', h1, ?_, h3, h4⟩
  have := h2.map Rxn.content
  rw [List.map_map] at this
  exact this

/-! ## 5. Attribute names -/

theorem get?_renameKeys {α : Type} (ρ : String → String) (d : Dict α) (k : String)
    (hρ : ∀ x ∈ d.keys, ρ x = ρ k → x = k) : (renameKeys ρ d).get? (ρ k) = d.get? k := by
  induction d with
  | nil => rfl
  | cons kv d ih =>
    obtain ⟨x, v⟩ := kv
    have hx := hρ x (by simp [Dict.keys])
    have ih' := ih (fun y hy => hρ y (by simp only [Dict.keys, List.map_cons, List.mem_cons] at hy ⊢; exact Or.inr hy))
    simp only [renameKeys, List.map_cons, Dict.get?] at ih' ⊢
    by_cases hxk : x = k
    · simp [hxk]
    · have : ¬ ρ x = ρ k := fun h => hxk (hx h)
      simp only [hxk, this, if_false]
      exact ih'

/-- **Attribute names, congruence.** Renaming the node attributes by `ρ` and the arc attributes by
`σ` (injective; `kind` is not an argument of the importer and keeps its name) in the graph *and*
in the importer's keyword arguments leaves the graph as the importer reads it unchanged. -/
theorem read_rename (ρ σ : String → String) (hρ : ∀ a b, ρ a = ρ b → a = b) (hσ : ∀ a b, σ a = σ b → a = b)
    (hk : ρ "kind" = "kind") (a : AttrNames) (g : ABGraph) :
    (g.rename ρ σ).read (a.rename ρ σ) = g.read a := by
  have hget : ∀ (d : Dict String) (k : String), (renameKeys ρ d).get? (ρ k) = d.get? k :=
    fun d k => get?_renameKeys ρ d k (fun x _ h => hρ x k h)
  have hgetσ : ∀ (d : Dict Nat) (k : String), (renameKeys σ d).get? (σ k) = d.get? k :=
    fun d k => get?_renameKeys σ d k (fun x _ h => hσ x k h)
  unfold ABGraph.read ABGraph.rename AttrNames.rename
  simp only [List.map_map]
  congr 1
  · apply List.map_congr_left
    intro n _
    simp only [Function.comp, hget]
    have h1 : (renameKeys ρ n.attrs).get? "kind" = n.attrs.get? "kind" := by
      have := hget n.attrs "kind"; rw [hk] at this; exact this
    rw [h1]
    cases a.mol <;> simp [hget]
  · apply List.map_congr_left
    intro e _
    simp only [Function.comp, hgetσ]

theorem ofBipartiteAttr_rename (gen : GenId) (sp rp d : String) (ρ σ : String → String)
    (hρ : ∀ a b, ρ a = ρ b → a = b) (hσ : ∀ a b, σ a = σ b → a = b) (hk : ρ "kind" = "kind")
    (a : AttrNames) (g : ABGraph) :
    ofBipartiteAttr gen sp rp d (a.rename ρ σ) (g.rename ρ σ) = ofBipartiteAttr gen sp rp d a g := by
  unfold ofBipartiteAttr
  rw [read_rename ρ σ hρ hσ hk]
  have : (a.rename ρ σ).mol.isSome = a.mol.isSome := by
    unfold AttrNames.rename; cases a.mol <;> rfl
  rw [this]

/-- **`default_rule`** is the rule of a reaction node exactly when the node has no rule attribute
(or is not a node at all). -/
theorem rawOfRNode_rule (o : ImpOpts) (g : RBGraph) (sp : List NodeId) (r : NodeId) :
    (rawOfRNode o g sp r).rule =
      match (g.node? r).bind (·.rxLabel) with
      | some l => l
      | none => o.defaultRule := by
  unfold rawOfRNode
  simp only []
  cases (g.node? r).bind (·.rxLabel) <;> rfl

end SynKit.Views.Raw

import SynKitModel.Reactor
import SynKitProofs.ReactorLemmas
import Mathlib.Data.List.Nodup
import Mathlib.Data.List.Pairwise
import Mathlib.Tactic.Linarith
/-! `_explicit_h` moves hydrogens and never creates or destroys them: bookkeeping lemmas
(C03, `explicitH_balance`).  All `Int` quantities are in half-units (one hydrogen = 2). -/
namespace SynKit.Reactor

/-! ### the receiver queue (`takeRecip`, `giveN`, `migrateComp`) -/

/-- Remaining capacity of receiver `r`. -/
def capOf (rc : List (Nat × Int)) (r : Nat) : Int := ((rc.filter (·.1 = r)).map (·.2)).sum
def capTotal (rc : List (Nat × Int)) : Int := (rc.map (·.2)).sum
def cntDst (ms : List (Nat × Nat)) (r : Nat) : Int := ((ms.filter (·.2 = r)).length : Int)
def cntSrc (ms : List (Nat × Nat)) (n : Nat) : Int := ((ms.filter (·.1 = n)).length : Int)
def GoodCaps (rc : List (Nat × Int)) : Prop := ∀ e ∈ rc, e.2 ≥ 0 ∧ e.2 % 2 = 0

theorem capOf_cons (r x : Nat) (c : Int) (rest : List (Nat × Int)) :
    capOf ((r, c) :: rest) x = (if r = x then c else 0) + capOf rest x := by
  unfold capOf
  by_cases h : r = x <;> simp [List.filter_cons, h]

theorem takeRecip_spec (rc : List (Nat × Int)) (r : Nat) (rc' : List (Nat × Int))
    (h : takeRecip rc = some (r, rc')) (hg : GoodCaps rc) :
    GoodCaps rc' ∧ rc'.map (·.1) = rc.map (·.1) ∧ r ∈ rc.map (·.1) ∧
    (∀ x, capOf rc' x = capOf rc x - (if r = x then 2 else 0)) ∧ capTotal rc' = capTotal rc - 2 := by
  induction rc generalizing r rc' with
  | nil => simp [takeRecip] at h
  | cons e rest ih =>
    obtain ⟨r0, cap⟩ := e
    have hg0 := hg (r0, cap) (List.mem_cons_self)
    have hgr : GoodCaps rest := fun e he => hg e (List.mem_cons_of_mem _ he)
    simp only [takeRecip] at h
    by_cases hc : cap > 0
    · simp only [hc, if_true, Option.some.injEq, Prod.mk.injEq] at h
      obtain ⟨rfl, rfl⟩ := h
      refine ⟨?_, rfl, by simp, ?_, ?_⟩
      · intro e he
        simp only [List.mem_cons] at he
        rcases he with rfl | he
        · simp only at hg0 ⊢; constructor <;> omega
        · exact hgr e he
      · intro x; rw [capOf_cons, capOf_cons]; by_cases hx : r0 = x <;> simp [hx]; ring
      · simp [capTotal]; ring
    · simp only [hc, if_false] at h
      cases ht : takeRecip rest with
      | none => simp [ht] at h
      | some y =>
        obtain ⟨r1, rest'⟩ := y
        simp only [ht, Option.map_some, Option.some.injEq, Prod.mk.injEq] at h
        obtain ⟨rfl, rfl⟩ := h
        obtain ⟨a1, a2, a3, a4, a5⟩ := ih r1 rest' ht hgr
        refine ⟨?_, ?_, ?_, ?_, ?_⟩
        · intro e he
          simp only [List.mem_cons] at he
          rcases he with rfl | he
          · exact hg0
          · exact a1 e he
        · simp [a2]
        · simp only [List.map_cons, List.mem_cons]; exact Or.inr a3
        · intro x; rw [capOf_cons, capOf_cons, a4 x]; ring
        · simp only [capTotal, List.map_cons, List.sum_cons] at a5 ⊢; rw [a5]; ring

theorem cntDst_cons (d r x : Nat) (ms : List (Nat × Nat)) :
    cntDst ((d, r) :: ms) x = (if r = x then 1 else 0) + cntDst ms x := by
  unfold cntDst
  by_cases h : r = x <;> simp [List.filter_cons, h]; ring

theorem cntSrc_cons (d r x : Nat) (ms : List (Nat × Nat)) :
    cntSrc ((d, r) :: ms) x = (if d = x then 1 else 0) + cntSrc ms x := by
  unfold cntSrc
  by_cases h : d = x <;> simp [List.filter_cons, h]; ring

theorem giveN_spec (donor : Nat) (k : Nat) (rc : List (Nat × Int)) (ms : List (Nat × Nat)) (rc' : List (Nat × Int))
    (h : giveN donor k rc = some (ms, rc')) (hg : GoodCaps rc) :
    GoodCaps rc' ∧ rc'.map (·.1) = rc.map (·.1) ∧ ms.length = k ∧
    (∀ x ∈ ms, x.1 = donor ∧ x.2 ∈ rc.map (·.1)) ∧
    (∀ x, capOf rc' x + 2 * cntDst ms x = capOf rc x) ∧ capTotal rc' + 2 * (k : Int) = capTotal rc := by
  induction k generalizing rc ms rc' with
  | zero =>
    simp only [giveN, Option.some.injEq, Prod.mk.injEq] at h
    obtain ⟨rfl, rfl⟩ := h
    exact ⟨hg, rfl, rfl, by simp, by simp [cntDst], by simp⟩
  | succ k ih =>
    simp only [giveN] at h
    cases ht : takeRecip rc with
    | none => simp [ht] at h
    | some y =>
      obtain ⟨r, rc1⟩ := y
      simp only [ht] at h
      cases hgN : giveN donor k rc1 with
      | none => simp [hgN] at h
      | some z =>
        obtain ⟨ms1, rc2⟩ := z
        simp only [hgN, Option.map_some, Option.some.injEq, Prod.mk.injEq] at h
        obtain ⟨rfl, rfl⟩ := h
        obtain ⟨b1, b2, b3, b4, b5⟩ := takeRecip_spec rc r rc1 ht hg
        obtain ⟨c1, c2, c3, c4, c5, c6⟩ := ih rc1 ms1 rc2 hgN b1
        refine ⟨c1, by rw [c2, b2], by simp [c3], ?_, ?_, ?_⟩
        · intro x hx
          simp only [List.mem_cons] at hx
          rcases hx with rfl | hx
          · exact ⟨rfl, b3⟩
          · have := c4 x hx; rw [b2] at this; exact this
        · intro x; rw [cntDst_cons]; have := c5 x; rw [b4 x] at this
          by_cases hx : r = x <;> simp [hx] at this ⊢ <;> linarith
        · push_cast; linarith

theorem cntDst_append (a b : List (Nat × Nat)) (x : Nat) : cntDst (a ++ b) x = cntDst a x + cntDst b x := by
  unfold cntDst; simp [List.filter_append]

theorem cntSrc_append (a b : List (Nat × Nat)) (x : Nat) : cntSrc (a ++ b) x = cntSrc a x + cntSrc b x := by
  unfold cntSrc; simp [List.filter_append]

theorem cntSrc_eq_zero (ms : List (Nat × Nat)) (n : Nat) (h : ∀ x ∈ ms, x.1 ≠ n) : cntSrc ms n = 0 := by
  unfold cntSrc
  have : ms.filter (fun x => decide (x.1 = n)) = [] := by
    apply List.filter_eq_nil_iff.2
    intro x hx; simp [h x hx]
  simp [this]

theorem cntDst_eq_zero (ms : List (Nat × Nat)) (n : Nat) (h : ∀ x ∈ ms, x.2 ≠ n) : cntDst ms n = 0 := by
  unfold cntDst
  have : ms.filter (fun x => decide (x.2 = n)) = [] := by
    apply List.filter_eq_nil_iff.2
    intro x hx; simp [h x hx]
  simp [this]

theorem cntSrc_all (ms : List (Nat × Nat)) (n : Nat) (h : ∀ x ∈ ms, x.1 = n) : cntSrc ms n = ms.length := by
  unfold cntSrc
  have : ms.filter (fun x => decide (x.1 = n)) = ms := by
    apply List.filter_eq_self.2
    intro x hx; simp [h x hx]
  rw [this]

/-- Hydrogens (as a count) a donor list gives away from atom `n`. -/
def donorAmt (donors : List (Nat × Int)) (n : Nat) : Int :=
  ((donors.filter (·.1 = n)).map (fun d => (((d.2 / 2).toNat : Nat) : Int))).sum

def donorTotal (donors : List (Nat × Int)) : Int := (donors.map (fun d => (((d.2 / 2).toNat : Nat) : Int))).sum

theorem donorAmt_cons (n0 : Nat) (a : Int) (rest : List (Nat × Int)) (n : Nat) :
    donorAmt ((n0, a) :: rest) n = (if n0 = n then (((a / 2).toNat : Nat) : Int) else 0) + donorAmt rest n := by
  unfold donorAmt
  by_cases h : n0 = n <;> simp [List.filter_cons, h]

theorem fold_none (donors : List (Nat × Int)) :
    donors.foldl (fun (acc : Option (List (Nat × Nat) × List (Nat × Int))) d =>
      match acc with
      | none => none
      | some (ms, rc) => (giveN d.1 (d.2 / 2).toNat rc).map fun x => (ms ++ x.1, x.2)) none = none := by
  induction donors with
  | nil => rfl
  | cons d rest ih => simp only [List.foldl_cons]; exact ih

theorem fold_spec (donors : List (Nat × Int)) (ms0 : List (Nat × Nat)) (rc0 : List (Nat × Int))
    (ms : List (Nat × Nat)) (rc' : List (Nat × Int))
    (h : donors.foldl (fun (acc : Option (List (Nat × Nat) × List (Nat × Int))) d =>
      match acc with
      | none => none
      | some (ms, rc) => (giveN d.1 (d.2 / 2).toNat rc).map fun x => (ms ++ x.1, x.2)) (some (ms0, rc0)) = some (ms, rc'))
    (hg : GoodCaps rc0) :
    GoodCaps rc' ∧ ∃ ms1, ms = ms0 ++ ms1 ∧ (ms1.length : Int) = donorTotal donors ∧
      (∀ x ∈ ms1, x.1 ∈ donors.map (·.1) ∧ x.2 ∈ rc0.map (·.1)) ∧
      (∀ x, capOf rc' x + 2 * cntDst ms1 x = capOf rc0 x) ∧
      (∀ n, cntSrc ms1 n = donorAmt donors n) ∧
      capTotal rc' + 2 * (ms1.length : Int) = capTotal rc0 := by
  induction donors generalizing ms0 rc0 with
  | nil =>
    simp only [List.foldl_nil, Option.some.injEq, Prod.mk.injEq] at h
    obtain ⟨rfl, rfl⟩ := h
    exact ⟨hg, [], by simp, by simp [donorTotal], by simp, by simp [cntDst], by simp [cntSrc, donorAmt], by simp⟩
  | cons d rest ih =>
    obtain ⟨n0, a⟩ := d
    simp only [List.foldl_cons] at h
    cases hgN : giveN n0 (a / 2).toNat rc0 with
    | none =>
      simp only [hgN, Option.map_none] at h
      rw [fold_none] at h; cases h
    | some z =>
      obtain ⟨msA, rcA⟩ := z
      simp only [hgN, Option.map_some] at h
      obtain ⟨c1, c2, c3, c4, c5, c6⟩ := giveN_spec n0 _ rc0 msA rcA hgN hg
      obtain ⟨d1, msB, d2, d3, d4, d5, d6, d7⟩ := ih (ms0 ++ msA) rcA h c1
      refine ⟨d1, msA ++ msB, by rw [d2, List.append_assoc], ?_, ?_, ?_, ?_, ?_⟩
      · simp only [List.length_append, donorTotal, List.map_cons, List.sum_cons] at d3 ⊢
        push_cast; rw [d3, c3]
      · intro x hx
        simp only [List.mem_append] at hx
        rcases hx with hx | hx
        · have := c4 x hx; simp only [List.map_cons, List.mem_cons]; exact ⟨Or.inl this.1, this.2⟩
        · have := d4 x hx; rw [c2] at this
          simp only [List.map_cons, List.mem_cons]; exact ⟨Or.inr this.1, this.2⟩
      · intro x; rw [cntDst_append]; have e1 := c5 x; have e2 := d5 x; linarith
      · intro n
        rw [cntSrc_append, d6 n, donorAmt_cons]
        by_cases hn : n0 = n
        · subst hn
          rw [cntSrc_all msA n0 (fun x hx => (c4 x hx).1), c3]; simp
        · rw [cntSrc_eq_zero msA n (fun x hx => by rw [(c4 x hx).1]; exact hn)]; simp [hn]
      · simp only [List.length_append]; push_cast; have := d7; rw [c3]; linarith

theorem caps_zero (rc : List (Nat × Int)) (hg : GoodCaps rc) (h0 : capTotal rc = 0) : ∀ x, capOf rc x = 0 := by
  induction rc with
  | nil => intro x; simp [capOf]
  | cons e rest ih =>
    obtain ⟨r, c⟩ := e
    have hc := (hg (r, c) (List.mem_cons_self)).1
    have hgr : GoodCaps rest := fun e he => hg e (List.mem_cons_of_mem _ he)
    have hnn : ∀ l : List (Nat × Int), GoodCaps l → capTotal l ≥ 0 := by
      intro l hl
      induction l with
      | nil => simp [capTotal]
      | cons e' r' ih' =>
        have := (hl e' (List.mem_cons_self)).1
        have := ih' (fun e he => hl e (List.mem_cons_of_mem _ he))
        simp only [capTotal, List.map_cons, List.sum_cons] at *; linarith
    have hr := hnn rest hgr
    simp only [capTotal, List.map_cons, List.sum_cons] at h0 hr
    have hc0 : c = 0 := by simp only at hc; linarith
    have hr0 : capTotal rest = 0 := by simp only [capTotal]; linarith
    intro x
    rw [capOf_cons, ih hgr hr0 x, hc0]; simp

theorem migrateComp_spec (donors recips : List (Nat × Int)) (ms : List (Nat × Nat))
    (h : migrateComp donors recips = some ms) (hg : GoodCaps recips)
    (hbal : capTotal recips = 2 * donorTotal donors) :
    (∀ n, cntSrc ms n = donorAmt donors n) ∧ (∀ x, 2 * cntDst ms x = capOf recips x) ∧
    (∀ x ∈ ms, x.1 ∈ donors.map (·.1) ∧ x.2 ∈ recips.map (·.1)) := by
  unfold migrateComp at h
  obtain ⟨⟨ms', rc'⟩, hf, hms⟩ := Option.map_eq_some_iff.1 h
  simp only at hms; subst hms
  obtain ⟨g1, ms1, e1, e2, e3, e4, e5, e6⟩ := fold_spec donors [] recips ms' rc' hf hg
  simp only [List.nil_append] at e1; subst e1
  have hz : capTotal rc' = 0 := by rw [e2] at e6; linarith
  have := caps_zero rc' g1 hz
  exact ⟨e5, fun x => by have := e4 x; rw [caps_zero rc' g1 hz x] at this; linarith, e3⟩

/-! ### the decrement loop (`decH`, `updNode`) -/

/-- Both `typesGH` rows have at least three entries. -/
def TgWF (a : Attrs) : Prop :=
  3 ≤ (tupList (tupGet (Attrs.get a "typesGH") 0)).length ∧ 3 ≤ (tupList (tupGet (Attrs.get a "typesGH") 1)).length

theorem getD_take_mid (t : List Val) (x : Val) (h : 3 ≤ t.length) :
    (t.take 2 ++ [x] ++ t.drop 3).getD 2 Val.none = x ∧ (t.take 2 ++ [x] ++ t.drop 3).length = t.length := by
  match t, h with
  | a :: b :: c :: rest, _ => simp

theorem tup2_0 (X Y : List Val) : tupList (tupGet (.tup [.tup X, .tup Y]) 0) = X := rfl
theorem tup2_1 (X Y : List Val) : tupList (tupGet (.tup [.tup X, .tup Y]) 1) = Y := rfl

theorem decH_get (a : Attrs) :
    Attrs.get (decH a) "typesGH" =
      (if hL a - hR a ≥ 0 then
        .tup [.tup ((tupList (tupGet (Attrs.get a "typesGH") 0)).take 2 ++ [Val.num (hL a - 2)] ++
                     (tupList (tupGet (Attrs.get a "typesGH") 0)).drop 3),
              .tup ((tupList (tupGet (Attrs.get a "typesGH") 1)).take 2 ++
                     [(tupList (tupGet (Attrs.get a "typesGH") 1)).getD 2 Val.none] ++
                     (tupList (tupGet (Attrs.get a "typesGH") 1)).drop 3)]
       else
        .tup [.tup ((tupList (tupGet (Attrs.get a "typesGH") 0)).take 2 ++
                     [(tupList (tupGet (Attrs.get a "typesGH") 0)).getD 2 Val.none] ++
                     (tupList (tupGet (Attrs.get a "typesGH") 0)).drop 3),
              .tup ((tupList (tupGet (Attrs.get a "typesGH") 1)).take 2 ++ [Val.num (hR a - 2)] ++
                     (tupList (tupGet (Attrs.get a "typesGH") 1)).drop 3)]) := by
  have hLa : hL a = numOf ((tupList (tupGet (Attrs.get a "typesGH") 0)).getD 2 Val.none) := rfl
  have hRa : hR a = numOf ((tupList (tupGet (Attrs.get a "typesGH") 1)).getD 2 Val.none) := rfl
  unfold decH
  simp only [get_set_self, ← hLa, ← hRa]
  split <;> rfl

theorem decH_spec (a : Attrs) (hw : TgWF a) :
    TgWF (decH a) ∧
    hL (decH a) = (if hL a - hR a ≥ 0 then hL a - 2 else hL a) ∧
    hR (decH a) = (if hL a - hR a ≥ 0 then hR a else hR a - 2) := by
  obtain ⟨w0, w1⟩ := hw
  have e := decH_get a
  have hLd : hL (decH a) = numOf ((tupList (tupGet (Attrs.get (decH a) "typesGH") 0)).getD 2 Val.none) := rfl
  have hRd : hR (decH a) = numOf ((tupList (tupGet (Attrs.get (decH a) "typesGH") 1)).getD 2 Val.none) := rfl
  have hLa : hL a = numOf ((tupList (tupGet (Attrs.get a "typesGH") 0)).getD 2 Val.none) := rfl
  have hRa : hR a = numOf ((tupList (tupGet (Attrs.get a "typesGH") 1)).getD 2 Val.none) := rfl
  unfold TgWF
  rw [hLd, hRd, e]
  by_cases hd : hL a - hR a ≥ 0
  · simp only [hd, if_true, tup2_0, tup2_1]
    rw [(getD_take_mid _ _ w0).1, (getD_take_mid _ _ w1).1, (getD_take_mid _ _ w0).2, (getD_take_mid _ _ w1).2]
    exact ⟨⟨w0, w1⟩, rfl, hRa.symm⟩
  · simp only [hd, if_false, tup2_0, tup2_1]
    rw [(getD_take_mid _ _ w0).1, (getD_take_mid _ _ w1).1, (getD_take_mid _ _ w0).2, (getD_take_mid _ _ w1).2]
    exact ⟨⟨w0, w1⟩, hLa.symm, rfl⟩

/-- `k` passes of the decrement on an atom whose hydrogen difference is exactly `±2k`: the larger
side comes down to the smaller one, nothing else moves. -/
theorem decH_iter (k : Nat) (a : Attrs) (hw : TgWF a) (hk : 2 * (k : Int) = |hL a - hR a|) :
    hL (decH^[k] a) = (if hL a - hR a ≥ 0 then hL a - 2 * k else hL a) ∧
    hR (decH^[k] a) = (if hL a - hR a ≥ 0 then hR a else hR a - 2 * k) := by
  induction k generalizing a with
  | zero =>
    simp only [Function.iterate_zero, id_eq, Nat.cast_zero, mul_zero, sub_zero]
    constructor <;> split <;> rfl
  | succ k ih =>
    obtain ⟨w', l', r'⟩ := decH_spec a hw
    simp only [Function.iterate_succ, Function.comp]
    push_cast at hk
    by_cases hd : hL a - hR a ≥ 0
    · rw [abs_of_nonneg hd] at hk
      simp only [hd, if_true] at l' r'
      have hk' : 2 * (k : Int) = |hL (decH a) - hR (decH a)| := by
        rw [l', r', abs_of_nonneg (by linarith)]; linarith
      obtain ⟨i1, i2⟩ := ih (decH a) w' hk'
      have hd2 : hL (decH a) - hR (decH a) ≥ 0 := by rw [l', r']; linarith
      simp only [hd2, hd, if_true] at i1 i2 ⊢
      rw [i1, i2, l', r']; push_cast; constructor <;> ring
    · have hneg : hL a - hR a < 0 := lt_of_not_ge hd
      rw [abs_of_neg hneg] at hk
      simp only [hd, if_false] at l' r'
      by_cases hk0 : k = 0
      · subst hk0
        simp only [Function.iterate_zero, id_eq, hd, if_false, l', r']
        constructor <;> simp
      · have hkpos : (k : Int) ≥ 1 := by omega
        have hneg2 : hL (decH a) - hR (decH a) < 0 := by rw [l', r']; linarith
        have hk' : 2 * (k : Int) = |hL (decH a) - hR (decH a)| := by
          rw [abs_of_neg hneg2, l', r']; linarith
        obtain ⟨i1, i2⟩ := ih (decH a) w' hk'
        have hd2 : ¬ (hL (decH a) - hR (decH a) ≥ 0) := not_le.2 hneg2
        simp only [hd2, hd, if_false] at i1 i2 ⊢
        rw [i1, i2, l', r']; push_cast; constructor <;> ring

theorem updNode_ids (G : LGraph) (n : Nat) (f : Attrs → Attrs) : (updNode G n f).ids = G.ids := by
  unfold updNode LGraph.ids
  simp only [List.map_map]
  apply List.map_congr_left
  intro p _
  simp only [Function.comp]
  split <;> rfl

theorem updNode_attrs (G : LGraph) (n : Nat) (f : Attrs → Attrs) (v : Nat) (hv : v ∈ G.ids) :
    (updNode G n f).attrs v = if n = v then f (G.attrs v) else G.attrs v := by
  have := attrs_map_nodes G.nodes G.edges G.edges (fun p => if p.1 = n then (p.1, f p.2) else p)
    (fun p => by split <;> rfl) v hv
  unfold updNode
  rw [this]
  simp only
  by_cases h : n = v
  · subst h; simp
  · have h' : ¬ v = n := fun e => h e.symm
    simp [h, h']

theorem fold_upd_attrs (l : List Nat) (G : LGraph) (f : Attrs → Attrs) (v : Nat) (hv : v ∈ G.ids) :
    (l.foldl (fun G n => updNode G n f) G).attrs v = f^[l.count v] (G.attrs v) := by
  induction l generalizing G with
  | nil => rfl
  | cons n rest ih =>
    simp only [List.foldl_cons]
    have hv' : v ∈ (updNode G n f).ids := by rw [updNode_ids]; exact hv
    rw [ih (updNode G n f) hv', updNode_attrs G n f v hv]
    by_cases h : n = v
    · subst h
      simp only [if_true, List.count_cons_self, Function.iterate_succ, Function.comp]
    · simp only [h, if_false]
      rw [List.count_cons_of_ne h]

theorem fold_upd_ids (l : List Nat) (G : LGraph) (f : Attrs → Attrs) :
    (l.foldl (fun G n => updNode G n f) G).ids = G.ids := by
  induction l generalizing G with
  | nil => rfl
  | cons n rest ih => simp only [List.foldl_cons]; rw [ih, updNode_ids]

theorem attrs_append_left (ns extra : List (Nat × Attrs)) (es es' : List (Nat × Nat × Attrs)) (v : Nat)
    (hv : v ∈ ns.map (·.1)) : LGraph.attrs ⟨ns ++ extra, es⟩ v = LGraph.attrs ⟨ns, es'⟩ v := by
  unfold LGraph.attrs
  simp only [List.find?_append]
  obtain ⟨p, hp, rfl⟩ := List.mem_map.1 hv
  cases hf : ns.find? (fun q => decide (q.1 = p.1)) with
  | none =>
    have := List.find?_eq_none.1 hf p hp
    simp at this
  | some q => simp

/-! ### `sortNat` is a rearrangement -/

theorem mem_insertSorted (x y : Nat) (l : List Nat) : y ∈ insertSorted x l ↔ y = x ∨ y ∈ l := by
  induction l with
  | nil => simp [insertSorted]
  | cons z zs ih =>
    simp only [insertSorted]
    split
    · simp
    · simp only [List.mem_cons, ih]; tauto

theorem mem_sortNat (y : Nat) (l : List Nat) : y ∈ sortNat l ↔ y ∈ l := by
  induction l with
  | nil => simp [sortNat]
  | cons z zs ih =>
    have : sortNat (z :: zs) = insertSorted z (sortNat zs) := rfl
    rw [this, mem_insertSorted, ih]; simp

theorem nodup_insertSorted (x : Nat) (l : List Nat) (h : l.Nodup) (hx : x ∉ l) : (insertSorted x l).Nodup := by
  induction l with
  | nil => simp [insertSorted]
  | cons z zs ih =>
    simp only [insertSorted]
    have hz := List.nodup_cons.1 h
    split
    · exact List.nodup_cons.2 ⟨hx, h⟩
    · refine List.nodup_cons.2 ⟨?_, ih hz.2 (fun hh => hx (List.mem_cons_of_mem _ hh))⟩
      rw [mem_insertSorted]
      rintro (rfl | hh)
      · exact hx (List.mem_cons_self)
      · exact hz.1 hh

theorem nodup_sortNat (l : List Nat) (h : l.Nodup) : (sortNat l).Nodup := by
  induction l with
  | nil => simp [sortNat]
  | cons z zs ih =>
    have : sortNat (z :: zs) = insertSorted z (sortNat zs) := rfl
    rw [this]
    have hz := List.nodup_cons.1 h
    exact nodup_insertSorted z _ (ih hz.2) (fun hh => hz.1 ((mem_sortNat z zs).1 hh))

theorem sum_insertSorted (f : Nat → Int) (x : Nat) (l : List Nat) :
    ((insertSorted x l).map f).sum = f x + (l.map f).sum := by
  induction l with
  | nil => simp [insertSorted]
  | cons z zs ih =>
    simp only [insertSorted]
    split
    · simp
    · simp only [List.map_cons, List.sum_cons, ih]; ring

theorem sum_sortNat (f : Nat → Int) (l : List Nat) : ((sortNat l).map f).sum = (l.map f).sum := by
  induction l with
  | nil => simp [sortNat]
  | cons z zs ih =>
    have : sortNat (z :: zs) = insertSorted z (sortNat zs) := rfl
    rw [this, sum_insertSorted, ih]; simp

/-! ### sums over a duplicate-free list of atoms -/

/-- In a duplicate-free list, the entries of a filtered-and-paired list that belong to atom `n`. -/
theorem sum_pick (c : List Nat) (hc : c.Nodup) (P : Nat → Bool) (g : Nat → Int) (w : Int → Int) (n : Nat) :
    ((((c.filter P).map fun m => (m, g m)).filter (·.1 = n)).map fun d => w d.2).sum =
      if n ∈ c ∧ P n = true then w (g n) else 0 := by
  induction c with
  | nil => simp
  | cons z zs ih =>
    have hz := List.nodup_cons.1 hc
    by_cases hP : P z = true
    · simp only [List.filter_cons, hP, if_true, List.map_cons]
      by_cases hzn : z = n
      · subst hzn
        simp only [decide_true, if_true, List.map_cons, List.sum_cons, ih hz.2, List.mem_cons, true_or, true_and, hP]
        simp [hz.1]
      · simp only [hzn, decide_false, Bool.false_eq_true, if_false, ih hz.2, List.mem_cons]
        have : ¬ n = z := fun e => hzn e.symm
        simp [this]
    · simp only [List.filter_cons, hP, Bool.false_eq_true, if_false, ih hz.2, List.mem_cons]
      by_cases hzn : n = z
      · subst hzn; simp [hP, hz.1]
      · simp [hzn]

theorem sum_split_sign (c : List Nat) (d : Nat → Int) :
    (c.map d).sum = (((c.filter fun n => d n > 0).map d).sum) - (((c.filter fun n => d n < 0).map fun n => - d n).sum) := by
  induction c with
  | nil => simp
  | cons z zs ih =>
    simp only [List.map_cons, List.sum_cons, List.filter_cons, ih]
    by_cases h1 : d z > 0
    · have h2 : ¬ d z < 0 := by linarith
      simp [h1, h2]; ring
    · by_cases h2 : d z < 0
      · simp [h1, h2]; ring
      · have : d z = 0 := by linarith
        simp [h1, h2, this]

/-! ### hydrogen-pair components partition the affected atoms -/

theorem mem_dedupNat (l : List Nat) (x : Nat) : x ∈ dedupNat l ↔ x ∈ l := by
  induction l with
  | nil => simp [dedupNat]
  | cons y ys ih =>
    simp only [dedupNat]
    split
    · rename_i h
      simp only [List.mem_cons, ih]
      constructor
      · exact Or.inr
      · rintro (rfl | h')
        · exact ih.1 h
        · exact h'
    · simp only [List.mem_cons, ih]

theorem nodup_dedupNat (l : List Nat) : (dedupNat l).Nodup := by
  induction l with
  | nil => simp [dedupNat]
  | cons y ys ih =>
    simp only [dedupNat]
    split
    · exact ih
    · rename_i h; exact List.nodup_cons.2 ⟨h, ih⟩

theorem mem_flatten_mergeComp (cs : List (List Nat)) (cl : List Nat) (x : Nat) :
    x ∈ (mergeComp cs cl).flatten ↔ x ∈ cs.flatten ∨ x ∈ cl := by
  unfold mergeComp
  simp only [List.flatten_append, List.mem_append, List.flatten_cons, List.flatten_nil, List.append_nil,
    mem_dedupNat, List.mem_flatten, List.mem_filter]
  constructor
  · rintro (⟨c, ⟨hc, _⟩, hx⟩ | ⟨c, ⟨hc, _⟩, hx⟩ | h)
    · exact Or.inl ⟨c, hc, hx⟩
    · exact Or.inl ⟨c, hc, hx⟩
    · exact Or.inr h
  · rintro (⟨c, hc, hx⟩ | h)
    · by_cases hany : c.any (fun y => decide (y ∈ cl)) = true
      · exact Or.inr (Or.inl ⟨c, ⟨hc, hany⟩, hx⟩)
      · exact Or.inl ⟨c, ⟨hc, by simpa using hany⟩, hx⟩
    · exact Or.inr (Or.inr h)

theorem nodup_flatten_mergeComp (cs : List (List Nat)) (cl : List Nat) (h : cs.flatten.Nodup) :
    (mergeComp cs cl).flatten.Nodup := by
  rw [List.nodup_flatten] at h ⊢
  obtain ⟨h1, h2⟩ := h
  unfold mergeComp
  simp only
  constructor
  · intro l hl
    simp only [List.mem_append, List.mem_filter, List.mem_singleton] at hl
    rcases hl with ⟨hl, _⟩ | rfl
    · exact h1 l hl
    · exact nodup_dedupNat _
  · rw [List.pairwise_append]
    refine ⟨h2.filter _, by simp, ?_⟩
    intro c hc d hd
    simp only [List.mem_singleton] at hd
    subst hd
    simp only [List.mem_filter, Bool.not_eq_true'] at hc
    obtain ⟨hcm, hcany⟩ := hc
    rw [List.disjoint_left]
    intro x hxc hxd
    rw [mem_dedupNat, List.mem_append, List.mem_flatten] at hxd
    rcases hxd with ⟨c', hc', hxc'⟩ | hxcl
    · simp only [List.mem_filter] at hc'
      obtain ⟨hc'm, hc'any⟩ := hc'
      -- c and c' are both in cs and share x, so c = c'
      by_cases hcc : c = c'
      · subst hcc; rw [hcany] at hc'any; exact Bool.noConfusion hc'any
      · have : Std.Symm (List.Disjoint (α := Nat)) := ⟨fun _ _ h => fun a ha hb => h hb ha⟩
        have := List.Pairwise.forall h2 hcm hc'm hcc
        exact (List.disjoint_left.1 this) hxc hxc'
    · have : c.any (fun y => decide (y ∈ cl)) = true := by
        simp only [List.any_eq_true, decide_eq_true_eq]; exact ⟨x, hxc, hxcl⟩
      rw [this] at hcany; exact Bool.noConfusion hcany


theorem components_fold (p2n : List (Val × List Nat)) (cs0 : List (List Nat)) (h0 : cs0.flatten.Nodup) :
    (p2n.foldl (fun cs kv => mergeComp cs kv.2) cs0).flatten.Nodup ∧
    ∀ x, x ∈ (p2n.foldl (fun cs kv => mergeComp cs kv.2) cs0).flatten ↔ x ∈ cs0.flatten ∨ x ∈ p2n.flatMap (·.2) := by
  induction p2n generalizing cs0 with
  | nil => simp [h0]
  | cons kv rest ih =>
    simp only [List.foldl_cons]
    obtain ⟨a, b⟩ := ih (mergeComp cs0 kv.2) (nodup_flatten_mergeComp cs0 kv.2 h0)
    refine ⟨a, fun x => ?_⟩
    rw [b x, mem_flatten_mergeComp]
    simp only [List.flatMap_cons, List.mem_append]
    tauto

theorem components_spec (p2n : List (Val × List Nat)) :
    (components p2n).flatten.Nodup ∧ ∀ x, x ∈ (components p2n).flatten ↔ x ∈ p2n.flatMap (·.2) := by
  obtain ⟨a, b⟩ := components_fold p2n [] (by simp)
  exact ⟨a, fun x => by rw [components, b x]; simp⟩

/-! ### one component -/

theorem sum_map_scale (l : List Nat) (f g : Nat → Int) (h : ∀ n ∈ l, 2 * f n = g n) :
    2 * (l.map f).sum = (l.map g).sum := by
  induction l with
  | nil => simp
  | cons z zs ih =>
    simp only [List.map_cons, List.sum_cons]
    rw [← ih (fun n hn => h n (List.mem_cons_of_mem _ hn)), ← h z (List.mem_cons_self)]; ring

theorem two_toNat_half (x : Int) (hpos : x > 0) (hev : x % 2 = 0) : 2 * (((x / 2).toNat : Nat) : Int) = x := by
  have : (((x / 2).toNat : Nat) : Int) = x / 2 := Int.toNat_of_nonneg (by omega)
  rw [this]; omega

theorem compMigrations_spec (I : LGraph) (comp : List Nat) (p : List (Nat × Nat))
    (h : compMigrations I comp = some p) (hn : comp.Nodup)
    (hev : ∀ n ∈ comp, dOf I n % 2 = 0) (hbal : (comp.map (dOf I)).sum = 0) :
    (∀ n, 2 * cntSrc p n = if n ∈ comp ∧ dOf I n > 0 then dOf I n else 0) ∧
    (∀ n, 2 * cntDst p n = if n ∈ comp ∧ dOf I n < 0 then - dOf I n else 0) ∧
    (∀ x ∈ p, x.1 ∈ comp ∧ x.2 ∈ comp) := by
  unfold compMigrations at h
  simp only at h
  have hc : (sortNat comp).Nodup := nodup_sortNat comp hn
  have hmem : ∀ y, y ∈ sortNat comp ↔ y ∈ comp := fun y => mem_sortNat y comp
  -- receivers have non-negative even capacities
  have hg : GoodCaps (((sortNat comp).filter fun n => dOf I n < 0).map fun n => (n, - dOf I n)) := by
    intro e he
    obtain ⟨n, hn', rfl⟩ := List.mem_map.1 he
    simp only [List.mem_filter, decide_eq_true_eq] at hn'
    have := hev n ((hmem n).1 hn'.1)
    simp only; constructor <;> omega
  -- as many hydrogens offered as accepted
  have hb : capTotal (((sortNat comp).filter fun n => dOf I n < 0).map fun n => (n, - dOf I n)) =
      2 * donorTotal (((sortNat comp).filter fun n => dOf I n > 0).map fun n => (n, dOf I n)) := by
    have hs := sum_split_sign (sortNat comp) (dOf I)
    rw [sum_sortNat, hbal] at hs
    have e1 : capTotal (((sortNat comp).filter fun n => dOf I n < 0).map fun n => (n, - dOf I n)) =
        (((sortNat comp).filter fun n => dOf I n < 0).map fun n => - dOf I n).sum := by
      unfold capTotal; rw [List.map_map]; rfl
    have e2 : 2 * donorTotal (((sortNat comp).filter fun n => dOf I n > 0).map fun n => (n, dOf I n)) =
        (((sortNat comp).filter fun n => dOf I n > 0).map (dOf I)).sum := by
      unfold donorTotal; rw [List.map_map]
      apply sum_map_scale
      intro n hn'
      simp only [List.mem_filter, decide_eq_true_eq] at hn'
      exact two_toNat_half _ hn'.2 (hev n ((hmem n).1 hn'.1))
    rw [e1, e2]; linarith
  obtain ⟨s1, s2, s3⟩ := migrateComp_spec _ _ p h hg hb
  refine ⟨?_, ?_, ?_⟩
  · intro n
    rw [s1 n]
    unfold donorAmt
    have := sum_pick (sortNat comp) hc (fun n => decide (dOf I n > 0)) (dOf I)
      (fun a => (((a / 2).toNat : Nat) : Int)) n
    rw [this]
    by_cases hcase : n ∈ comp ∧ dOf I n > 0
    · have h1 : n ∈ sortNat comp ∧ decide (dOf I n > 0) = true := ⟨(hmem n).2 hcase.1, by simpa using hcase.2⟩
      rw [if_pos h1, if_pos hcase]
      exact two_toNat_half _ hcase.2 (hev n hcase.1)
    · have h1 : ¬ (n ∈ sortNat comp ∧ decide (dOf I n > 0) = true) := by
        rintro ⟨a, b⟩; exact hcase ⟨(hmem n).1 a, by simpa using b⟩
      rw [if_neg h1, if_neg hcase]; rfl
  · intro n
    rw [s2 n]
    unfold capOf
    have := sum_pick (sortNat comp) hc (fun n => decide (dOf I n < 0)) (fun n => - dOf I n) (fun a => a) n
    rw [this]
    by_cases hcase : n ∈ comp ∧ dOf I n < 0
    · have h1 : n ∈ sortNat comp ∧ decide (dOf I n < 0) = true := ⟨(hmem n).2 hcase.1, by simpa using hcase.2⟩
      rw [if_pos h1, if_pos hcase]
    · have h1 : ¬ (n ∈ sortNat comp ∧ decide (dOf I n < 0) = true) := by
        rintro ⟨a, b⟩; exact hcase ⟨(hmem n).1 a, by simpa using b⟩
      rw [if_neg h1, if_neg hcase]
  · intro x hx
    obtain ⟨a, b⟩ := s3 x hx
    simp only [List.map_map, List.mem_map, List.mem_filter, Function.comp] at a b
    obtain ⟨n1, ⟨hn1, _⟩, e1⟩ := a
    obtain ⟨n2, ⟨hn2, _⟩, e2⟩ := b
    exact ⟨by rw [← e1]; exact (hmem n1).1 hn1, by rw [← e2]; exact (hmem n2).1 hn2⟩

/-! ### all components, and `_explicit_h` itself -/

theorem migfold_none (I : LGraph) (cs : List (List Nat)) :
    cs.foldl (fun (acc : Option (List (Nat × Nat))) comp =>
      match acc with
      | none => none
      | some ms => (compMigrations I comp).map fun x => ms ++ x) none = none := by
  induction cs with
  | nil => rfl
  | cons c rest ih => simp only [List.foldl_cons]; exact ih

theorem migfold_spec (I : LGraph) (cs : List (List Nat)) (ms0 ms : List (Nat × Nat))
    (h : cs.foldl (fun (acc : Option (List (Nat × Nat))) comp =>
      match acc with
      | none => none
      | some ms => (compMigrations I comp).map fun x => ms ++ x) (some ms0) = some ms)
    (hn : cs.flatten.Nodup) (hev : ∀ n ∈ cs.flatten, dOf I n % 2 = 0)
    (hbal : ∀ c ∈ cs, (c.map (dOf I)).sum = 0) :
    ∀ n, 2 * cntSrc ms n = 2 * cntSrc ms0 n + (if n ∈ cs.flatten ∧ dOf I n > 0 then dOf I n else 0) ∧
         2 * cntDst ms n = 2 * cntDst ms0 n + (if n ∈ cs.flatten ∧ dOf I n < 0 then - dOf I n else 0) := by
  induction cs generalizing ms0 with
  | nil =>
    simp only [List.foldl_nil, Option.some.injEq] at h
    subst h; intro n; simp
  | cons c rest ih =>
    simp only [List.foldl_cons] at h
    cases hc : compMigrations I c with
    | none =>
      simp only [hc, Option.map_none] at h
      rw [migfold_none] at h; cases h
    | some p =>
      simp only [hc, Option.map_some] at h
      simp only [List.flatten_cons] at hn hev
      have hnc : c.Nodup := (List.nodup_append.1 hn).1
      have hnr : rest.flatten.Nodup := (List.nodup_append.1 hn).2.1
      have hdisj : ∀ x, x ∈ c → x ∈ rest.flatten → False := by
        intro x h1 h2; exact (List.nodup_append.1 hn).2.2 x h1 x h2 rfl
      obtain ⟨s1, s2, _⟩ := compMigrations_spec I c p hc hnc
        (fun n hn' => hev n (List.mem_append_left _ hn')) (hbal c (List.mem_cons_self))
      have := ih (ms0 ++ p) h hnr (fun n hn' => hev n (List.mem_append_right _ hn'))
        (fun c' hc' => hbal c' (List.mem_cons_of_mem _ hc'))
      intro n
      obtain ⟨t1, t2⟩ := this n
      rw [cntSrc_append] at t1
      rw [cntDst_append] at t2
      have u1 := s1 n
      have u2 := s2 n
      simp only [List.flatten_cons, List.mem_append]
      constructor
      · by_cases hpos : dOf I n > 0
        · by_cases a : n ∈ c
          · have b : n ∉ rest.flatten := fun b => hdisj n a b
            simp only [a, b, hpos, and_self, true_or, or_false, if_true, false_and, if_false, true_and] at t1 u1 ⊢
            linarith
          · simp only [a, hpos, false_and, if_false, false_or, and_true] at t1 u1 ⊢
            linarith
        · simp only [hpos, and_false, if_false] at t1 u1 ⊢; linarith
      · by_cases hneg : dOf I n < 0
        · by_cases a : n ∈ c
          · have b : n ∉ rest.flatten := fun b => hdisj n a b
            simp only [a, b, hneg, and_self, true_or, or_false, if_true, false_and, if_false, true_and] at t2 u2 ⊢
            linarith
          · simp only [a, hneg, false_and, if_false, false_or, and_true] at t2 u2 ⊢
            linarith
        · simp only [hneg, and_false, if_false] at t2 u2 ⊢; linarith

/-- **`_explicit_h` moves hydrogens; it never creates or destroys them.**  Suppose every atom that
carries hydrogen-pair ids carries exactly as many as its hydrogen count changes (`hcons`), and every
pair component gives as many hydrogens as it takes (`hbal`).  Then for every atom `n` of the input:
its reactant-side count drops by exactly the number of new hydrogen atoms bonded to it on the
reactant side (migrations out of `n`), its product-side count by the number bonded to it on the
product side (migrations into `n`); the graph otherwise only gains those hydrogen atoms and bonds. -/
theorem explicitH_conserves (I I' : LGraph) (h : explicitH I = some I')
    (hw : ∀ n ∈ affected I, TgWF (I.attrs n))
    (hcons : ∀ n ∈ affected I, 2 * ((affected I).count n : Int) = |dOf I n|)
    (hbal : componentsBalanced I = true) :
    ∃ ms, migrations I = some ms ∧
      I'.ids = I.ids ++ (newHNodes (nextId I) ms).map (·.1) ∧
      ∀ n ∈ I.ids,
        hL (I'.attrs n) + 2 * cntSrc ms n = hL (I.attrs n) ∧
        hR (I'.attrs n) + 2 * cntDst ms n = hR (I.attrs n) := by
  unfold explicitH at h
  cases hm : migrations I with
  | none => simp [hm] at h
  | some ms =>
    simp only [hm, Option.some.injEq] at h
    refine ⟨ms, rfl, ?_, ?_⟩
    · rw [← h, fold_upd_ids]; simp [LGraph.ids]
    · intro n hn
      have hn1 : n ∈ (LGraph.mk (I.nodes ++ newHNodes (nextId I) ms) (I.edges ++ newHEdges (nextId I) ms)).ids := by
        simp only [LGraph.ids, List.map_append, List.mem_append]; exact Or.inl hn
      have hat := fold_upd_attrs (affected I) ⟨I.nodes ++ newHNodes (nextId I) ms, I.edges ++ newHEdges (nextId I) ms⟩ decH n hn1
      rw [h] at hat
      have hold : LGraph.attrs ⟨I.nodes ++ newHNodes (nextId I) ms, I.edges ++ newHEdges (nextId I) ms⟩ n = I.attrs n :=
        attrs_append_left I.nodes _ _ I.edges n hn
      rw [hold] at hat
      -- what the components say about the migrations of n
      obtain ⟨cn, cm⟩ := components_spec (pairToNodes I)
      have hev : ∀ x ∈ (components (pairToNodes I)).flatten, dOf I x % 2 = 0 := by
        intro x hx
        have hx' : x ∈ affected I := (cm x).1 hx
        have := hcons x hx'
        rcases abs_cases (dOf I x) with ⟨e, _⟩ | ⟨e, _⟩ <;> rw [e] at this <;> omega
      have hb : ∀ c ∈ components (pairToNodes I), (c.map (dOf I)).sum = 0 := by
        intro c hc
        unfold componentsBalanced at hbal
        have := List.all_eq_true.1 hbal c hc
        simpa using this
      unfold migrations at hm
      obtain ⟨q1, q2⟩ := migfold_spec I _ [] ms hm cn hev hb n
      simp only [cntSrc, cntDst, List.filter_nil, List.length_nil, Nat.cast_zero, mul_zero, zero_add] at q1 q2
      rw [hat]
      by_cases hk : (affected I).count n = 0
      · have hna : n ∉ affected I := List.count_eq_zero.1 hk
        have hnc : n ∉ (components (pairToNodes I)).flatten := fun hh => hna ((cm n).1 hh)
        simp only [hnc, false_and, if_false] at q1 q2
        rw [hk]
        simp only [Function.iterate_zero, id_eq]
        unfold cntSrc cntDst
        constructor <;> linarith
      · have hna : n ∈ affected I := by
          by_contra hh; exact hk (List.count_eq_zero.2 hh)
        have hnc : n ∈ (components (pairToNodes I)).flatten := (cm n).2 hna
        have hc := hcons n hna
        obtain ⟨i1, i2⟩ := decH_iter ((affected I).count n) (I.attrs n) (hw n hna) hc
        have hd : dOf I n = hL (I.attrs n) - hR (I.attrs n) := rfl
        rw [← hd] at i1 i2
        rw [i1, i2]
        simp only [hnc, true_and] at q1 q2
        unfold cntSrc cntDst
        by_cases hpos : dOf I n > 0
        · have hge : dOf I n ≥ 0 := le_of_lt hpos
          have hnl : ¬ dOf I n < 0 := not_lt.2 hge
          rw [abs_of_nonneg hge] at hc
          simp only [hpos, hnl, hge, if_true, if_false] at q1 q2 ⊢
          constructor <;> linarith
        · by_cases hneg : dOf I n < 0
          · have hnge : ¬ dOf I n ≥ 0 := not_le.2 hneg
            rw [abs_of_neg hneg] at hc
            simp only [hpos, hneg, hnge, if_true, if_false] at q1 q2 ⊢
            constructor <;> linarith
          · have hz : dOf I n = 0 := by linarith
            rw [hz, abs_zero] at hc
            simp only [hz, lt_self_iff_false, ge_iff_le, le_refl, if_true, if_false] at q1 q2 ⊢
            constructor <;> linarith

end SynKit.Reactor

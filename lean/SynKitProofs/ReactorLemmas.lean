import SynKitModel.Reactor
import Mathlib.Data.List.Nodup
import Mathlib.Tactic.Linarith
import Mathlib.Tactic.Ring
/-! Helper lemmas for the reactor model (C03).  Property theorems are in `Props/C03.lean`. -/
namespace SynKit.Reactor
open SynKit.Match

/-! ### attribute dictionaries -/

theorem get_set_self (a : Attrs) (k : String) (v : Val) : Attrs.get (Dict.set a k v) k = v := by
  simp [Attrs.get, Dict.getD, Dict.get?_set_self]

theorem get_set_other (a : Attrs) (k x : String) (v : Val) (h : x ≠ k) :
    Attrs.get (Dict.set a k v) x = Attrs.get a x := by
  simp [Attrs.get, Dict.getD, Dict.get?_set_other _ _ _ _ h]

theorem pyGet_set_self (a : Attrs) (k : String) (v d : Val) : pyGet (Dict.set a k v) k d = v := by
  simp [pyGet, Dict.getD, Dict.get?_set_self]

theorem pyGet_set_other (a : Attrs) (k x : String) (v d : Val) (h : x ≠ k) :
    pyGet (Dict.set a k v) x d = pyGet a x d := by
  simp [pyGet, Dict.getD, Dict.get?_set_other _ _ _ _ h]

theorem hasKey_set_self (a : Attrs) (k : String) (v : Val) : hasKey (Dict.set a k v) k = true := by
  simp [hasKey, Dict.get?_set_self]

theorem hasKey_set_other (a : Attrs) (k x : String) (v : Val) (h : x ≠ k) :
    hasKey (Dict.set a k v) x = hasKey a x := by
  simp [hasKey, Dict.get?_set_other _ _ _ _ h]

theorem numOf_pyGet_zero (a : Attrs) (k : String) : numOf (pyGet a k (.num 0)) = numOf (a.get k) := by
  unfold pyGet Attrs.get Dict.getD
  cases Dict.get? a k <;> rfl

theorem pyGet_of_get_ne_none (a : Attrs) (k : String) (d : Val) (h : a.get k ≠ Val.none) :
    pyGet a k d = a.get k := by
  unfold pyGet Attrs.get Dict.getD at *
  cases hh : Dict.get? a k with
  | none => simp [hh] at h
  | some v => rfl

theorem hasKey_of_get_ne_none (a : Attrs) (k : String) (h : a.get k ≠ Val.none) : hasKey a k = true := by
  unfold hasKey Attrs.get Dict.getD at *
  cases hh : Dict.get? a k with
  | none => simp [hh] at h
  | some v => rfl

theorem pyGet_of_hasKey (a : Attrs) (k : String) (d : Val) (h : hasKey a k = true) : pyGet a k d = a.get k := by
  unfold pyGet Attrs.get Dict.getD hasKey at *
  cases hh : Dict.get? a k with
  | none => simp [hh] at h
  | some v => rfl

theorem hasKey_false_iff (a : Attrs) (k : String) : hasKey a k = false ↔ k ∉ Dict.keys a := by
  unfold hasKey
  rw [← Dict.get?_eq_none_iff]
  cases Dict.get? a k <;> simp

theorem get_cons (k' : String) (v' : Val) (rest : Attrs) (k : String) :
    Attrs.get ((k', v') :: rest) k = if k' = k then v' else Attrs.get rest k := by
  unfold Attrs.get Dict.getD
  simp only [Dict.get?]
  split <;> rfl

theorem hasKey_cons (k' : String) (v' : Val) (rest : Attrs) (k : String) :
    hasKey ((k', v') :: rest) k = if k' = k then true else hasKey rest k := by
  unfold hasKey
  simp only [Dict.get?]
  split <;> rfl

/-- `d.update(b)` when `b` has distinct keys: `b`'s entries win. -/
theorem get_update (b : Attrs) (hb : (Dict.keys b).Nodup) (a : Attrs) (k : String) :
    Attrs.get (update a b) k = if hasKey b k = true then Attrs.get b k else Attrs.get a k := by
  induction b generalizing a with
  | nil => simp [update, hasKey, Dict.get?]
  | cons kv rest ih =>
    obtain ⟨k', v'⟩ := kv
    have hn : (Dict.keys rest).Nodup := by
      simp only [Dict.keys, List.map_cons, List.nodup_cons] at hb; exact hb.2
    have hnot : k' ∉ Dict.keys rest := by
      simp only [Dict.keys, List.map_cons, List.nodup_cons] at hb; exact hb.1
    have := ih hn (Dict.set a k' v')
    simp only [update, List.foldl_cons] at this ⊢
    rw [this, hasKey_cons, get_cons]
    by_cases hk : k' = k
    · subst hk
      have : hasKey rest k' = false := (hasKey_false_iff _ _).2 hnot
      simp [this, get_set_self]
    · simp [hk, get_set_other _ _ _ _ (Ne.symm hk)]

/-! ### list helpers -/

theorem filterMap_eq_map_of {α β : Type} (f : α → Option β) (g : α → β) (l : List α)
    (h : ∀ x ∈ l, f x = some (g x)) : l.filterMap f = l.map g := by
  induction l with
  | nil => rfl
  | cons x xs ih =>
    have hx := h x (List.mem_cons_self)
    simp only [List.filterMap_cons, hx, List.map_cons]
    rw [ih (fun y hy => h y (List.mem_cons_of_mem _ hy))]

theorem filterMap_eq_nil_of {α β : Type} (f : α → Option β) (l : List α)
    (h : ∀ x ∈ l, f x = none) : l.filterMap f = [] := by
  induction l with
  | nil => rfl
  | cons x xs ih =>
    simp only [List.filterMap_cons, h x (List.mem_cons_self)]
    exact ih (fun y hy => h y (List.mem_cons_of_mem _ hy))

theorem append_eq_of {α : Type} {A B C : List α} (hB : B = []) (hA : A = C) : A ++ B = C := by
  simp [hA, hB]

/-! ### graphs -/

theorem attrs_mem (g : LGraph) (v : Nat) (h : v ∈ g.ids) : (v, g.attrs v) ∈ g.nodes := by
  unfold LGraph.attrs
  unfold LGraph.ids at h
  obtain ⟨p, hp, rfl⟩ := List.mem_map.1 h
  cases hf : g.nodes.find? (fun q => decide (q.1 = p.1)) with
  | none =>
    have := List.find?_eq_none.1 hf p hp
    simp at this
  | some q =>
    have h1 := List.find?_some hf
    have h2 := List.mem_of_find?_eq_some hf
    simp only [decide_eq_true_eq] at h1
    simp only
    rw [← h1]; exact h2

/-! ### node glue -/

/-- Label pair written by `_node_glue` on a freshly prepared host node (no wildcard in the
template node). -/
theorem nodeGlue_tg (a p : Attrs) (hno : hasKey a "typesGH" = false)
    (hp0 : tgField p 0 0 ≠ .str "*") (hp1 : tgField p 1 0 ≠ .str "*") :
    Attrs.get (nodeGlue (prepNode (n, a)).2 p) "typesGH" =
      .tup [.tup [pyGet a "element" (.str "*"), pyGet a "aromatic" (.bool false), pyGet a "hcount" (.num 0),
                  pyGet a "charge" (.num 0), pyGet a "neighbors" (.tup [])],
            .tup [pyGet a "element" (.str "*"), pyGet a "aromatic" (.bool false),
                  .num (numOf (pyGet a "hcount" (.num 0)) - (numOf (tgField p 0 2) - numOf (tgField p 1 2))),
                  tgField p 1 3, pyGet a "neighbors" (.tup [])]] := by
  have e1 : (prepNode (n, a)).2 = Dict.set a "typesGH" (defaultTg a) := by
    simp [prepNode, setDefault, hno]
  have hp0' : tupGet (tupGet (Attrs.get p "typesGH") 0) 0 ≠ .str "*" := hp0
  have hp1' : tupGet (tupGet (Attrs.get p "typesGH") 1) 0 ≠ .str "*" := hp1
  unfold nodeGlue
  rw [e1]
  simp only [get_set_self, hp0', hp1', if_false]
  have key : ∀ (x : Attrs), Attrs.get (if hasKey p "h_pairs" = true then Dict.set x "h_pairs" (Attrs.get p "h_pairs") else x) "typesGH"
      = Attrs.get x "typesGH" := by
    intro x; split
    · exact get_set_other _ _ _ _ (by decide)
    · rfl
  rw [key, get_set_self]
  simp [defaultTg, tupGet, tupList, tgField]

theorem nodeGlue_hasKey (h p : Attrs) : hasKey (nodeGlue h p) "typesGH" = true := by
  unfold nodeGlue
  simp only
  split
  · rw [hasKey_set_other _ _ _ _ (by decide)]; exact hasKey_set_self _ _ _
  · exact hasKey_set_self _ _ _

/-! ### facts about matches -/

theorem left_ids (T : LGraph) (hT : WFTemplate T) : (left T).ids = T.ids := by
  unfold left decompSide LGraph.ids
  simp only
  rw [filterMap_eq_map_of _ (fun p => sideNode p.1 (tupGet (Attrs.get p.2 "typesGH") 0))]
  · simp [sideNode]
  · intro p hp; simp [(hT.2.1 p hp).1]

theorem mem_left_edges (T : LGraph) (hT : WFTemplate T) (te : Nat × Nat × Attrs) (hte : te ∈ T.edges)
    (hpos : numOf (ordAt te.2.2 0) > 0) : (te.1, te.2.1, [("order", ordAt te.2.2 0)]) ∈ (left T).edges := by
  unfold left decompSide
  simp only [List.mem_filterMap]
  refine ⟨te, hte, ?_⟩
  simp [(hT.2.2 te hte).2.1, hpos]

theorem mget_mem (m : Mapping) (p h : Nat) (hg : m.get? p = some h) : (p, h) ∈ m := by
  unfold Mapping.get? at hg
  cases hf : m.find? (fun x => decide (x.1 = p)) with
  | none => simp [hf] at hg
  | some q =>
    simp only [hf, Option.map_some, Option.some.injEq] at hg
    have h1 := List.find?_some hf
    have h2 := List.mem_of_find?_eq_some hf
    simp only [decide_eq_true_eq] at h1
    obtain ⟨q1, q2⟩ := q
    simp only at h1 hg
    subst h1; subst hg; exact h2

theorem mget_total (m : Mapping) (p : Nat) (hp : p ∈ m.map (·.1)) : ∃ h, m.get? p = some h := by
  obtain ⟨q, hq, rfl⟩ := List.mem_map.1 hp
  unfold Mapping.get?
  cases hf : m.find? (fun x => decide (x.1 = q.1)) with
  | none =>
    have := List.find?_eq_none.1 hf q hq
    simp at this
  | some r => exact ⟨r.2, rfl⟩

/-- Injectivity of a mapping with distinct images. -/
theorem mget_inj (m : Mapping) (hn : (m.map (·.2)).Nodup) (p q h : Nat)
    (hp : m.get? p = some h) (hq : m.get? q = some h) : p = q := by
  have h1 := mget_mem m p h hp
  have h2 := mget_mem m q h hq
  have := List.inj_on_of_nodup_map hn h1 h2 rfl
  exact congrArg Prod.fst this

theorem preimage_mem (m : Mapping) (h q : Nat) (hq : preimage m h = some q) : (q, h) ∈ m := by
  unfold preimage at hq
  cases hf : m.find? (fun x => decide (x.2 = h)) with
  | none => simp [hf] at hq
  | some r =>
    simp only [hf, Option.map_some, Option.some.injEq] at hq
    have h1 := List.find?_some hf
    have h2 := List.mem_of_find?_eq_some hf
    simp only [decide_eq_true_eq] at h1
    obtain ⟨r1, r2⟩ := r
    simp only at h1 hq
    subst h1; subst hq; exact h2

/-! ### clause (a), nodes -/

theorem glue_left_nodes (host T : LGraph) (m : Mapping) (hH : WFHost host) (hT : WFTemplate T)
    (hm : IsMono monoSel host (left T) m) :
    (left (glue host T m)).nodes = (hostProj host).nodes := by
  unfold left decompSide glue prepHost hostProj
  simp only [List.filterMap_map, List.map_map]
  apply filterMap_eq_map_of
  intro p hp
  unfold glueNode
  have hno := hH.2.1 p hp
  simp only [Function.comp]
  have hprep : (prepNode p).1 = p.1 := rfl
  rw [hprep]
  cases hpre : preimage m p.1 with
  | none =>
    simp only
    have e1 : (prepNode p).2 = Dict.set p.2 "typesGH" (defaultTg p.2) := by
      simp [prepNode, setDefault, hno]
    rw [e1, hasKey_set_self, get_set_self]
    simp [sideNode, defaultTg, tupGet, tupList, prepNode]
  | some q =>
    simp only
    have hqm := preimage_mem m p.1 q hpre
    have hq : q ∈ T.ids := by
      rw [← left_ids T hT, ← hm.1]; exact List.mem_map.2 ⟨(q, p.1), hqm, rfl⟩
    have hqa := hT.2.1 (q, T.attrs q) (attrs_mem T q hq)
    have e2 : (prepNode (q, T.attrs q)).2 = T.attrs q := by
      simp [prepNode, setDefault, hqa.1]
    rw [e2, nodeGlue_hasKey]
    have := nodeGlue_tg (n := p.1) p.2 (T.attrs q) hno hqa.2.1 hqa.2.2.1
    have e3 : (prepNode p) = (prepNode (p.1, p.2)) := rfl
    rw [e3, this]
    simp [sideNode, tupGet, tupList]

/-! ### edges: lookup in a well-formed graph -/

theorem mm_eq {a b c d : Nat} (h : (a = c ∧ b = d) ∨ (a = d ∧ b = c)) : (min a b, max a b) = (min c d, max c d) := by
  rcases h with ⟨rfl, rfl⟩ | ⟨rfl, rfl⟩
  · rfl
  · rw [Nat.min_comm, Nat.max_comm]

theorem mm_inv {a b c d : Nat} (h : (min a b, max a b) = (min c d, max c d)) : (a = c ∧ b = d) ∨ (a = d ∧ b = c) := by
  simp only [Prod.mk.injEq] at h
  omega

theorem edge?_some_mem (g : LGraph) (x y : Nat) (a : Attrs) (h : g.edge? x y = some a) :
    ∃ e ∈ g.edges, e.2.2 = a ∧ ((e.1 = x ∧ e.2.1 = y) ∨ (e.1 = y ∧ e.2.1 = x)) := by
  unfold LGraph.edge? at h
  obtain ⟨e, hf, hea⟩ := Option.map_eq_some_iff.1 h
  have h1 := List.find?_some hf
  have h2 := List.mem_of_find?_eq_some hf
  simp only [decide_eq_true_eq] at h1
  exact ⟨e, h2, hea, h1⟩

theorem edge?_of_mem (g : LGraph) (hwf : g.WF) (e : Nat × Nat × Attrs) (he : e ∈ g.edges) (x y : Nat)
    (h : (e.1 = x ∧ e.2.1 = y) ∨ (e.1 = y ∧ e.2.1 = x)) : g.edge? x y = some e.2.2 := by
  unfold LGraph.edge?
  cases hf : g.edges.find? (fun e => decide ((e.1 = x ∧ e.2.1 = y) ∨ (e.1 = y ∧ e.2.1 = x))) with
  | none =>
    have := List.find?_eq_none.1 hf e he
    exact absurd (decide_eq_true h) this
  | some e' =>
    have h1 : (e'.1 = x ∧ e'.2.1 = y) ∨ (e'.1 = y ∧ e'.2.1 = x) := by simpa using List.find?_some hf
    have h2 := List.mem_of_find?_eq_some hf
    have : e' = e := by
      apply List.inj_on_of_nodup_map hwf.2.2 h2 he
      apply mm_eq
      rcases h with ⟨a1, a2⟩ | ⟨a1, a2⟩ <;> rcases h1 with ⟨b1, b2⟩ | ⟨b1, b2⟩ <;> omega
    simp [this]

theorem hasEdge_of_mem (g : LGraph) (hwf : g.WF) (e : Nat × Nat × Attrs) (he : e ∈ g.edges) (x y : Nat)
    (h : (e.1 = x ∧ e.2.1 = y) ∨ (e.1 = y ∧ e.2.1 = x)) : g.hasEdge x y = true := by
  unfold LGraph.hasEdge; rw [edge?_of_mem g hwf e he x y h]; rfl

theorem landsOn_iff (m : Mapping) (te : Nat × Nat × Attrs) (x y : Nat) :
    landsOn m te x y = true ↔ ∃ hu hv, m.get? te.1 = some hu ∧ m.get? te.2.1 = some hv ∧
      ((hu = x ∧ hv = y) ∨ (hu = y ∧ hv = x)) := by
  unfold landsOn
  cases h1 : m.get? te.1 <;> cases h2 : m.get? te.2.1 <;> simp

theorem hasKey_update (b a : Attrs) (k : String) : hasKey (update a b) k = (hasKey a k || hasKey b k) := by
  induction b generalizing a with
  | nil => simp [update, hasKey, Dict.get?]
  | cons kv rest ih =>
    obtain ⟨k', v'⟩ := kv
    have := ih (Dict.set a k' v')
    simp only [update, List.foldl_cons] at this ⊢
    rw [this, hasKey_cons]
    by_cases hk : k' = k
    · subst hk; simp [hasKey_set_self]
    · simp [hk, hasKey_set_other _ _ _ _ (Ne.symm hk)]

theorem prepEdge_order (a : Attrs) :
    Attrs.get (prepEdgeAttrs a) "order" = .tup [pyGet a "order" (.num 2), pyGet a "order" (.num 2)] ∧
    hasKey (prepEdgeAttrs a) "order" = true := by
  unfold prepEdgeAttrs setDefault
  simp only
  split
  · exact ⟨get_set_self _ _ _, hasKey_set_self _ _ _⟩
  · rw [get_set_other _ _ _ _ (by decide), hasKey_set_other _ _ _ _ (by decide)]
    exact ⟨get_set_self _ _ _, hasKey_set_self _ _ _⟩

/-- What `mergeEdge` leaves in `order`. -/
theorem mergeEdge_order (a ta : Attrs) (hk : (Dict.keys ta).Nodup) (hta : hasKey ta "order" = true) :
    Attrs.get (mergeEdge a ta) "order" =
      (if ordAt ta 0 = .num 0 then
        .tup [ordAt a 0, .num (pyRound (numOf (ordAt a 1) + numOf (ordAt ta 1)))]
       else Attrs.get ta "order") ∧
    (hasKey a "order" = true → hasKey (mergeEdge a ta) "order" = true) := by
  unfold mergeEdge
  simp only [pyGet_of_hasKey ta "order" _ hta]
  have : tupGet (Attrs.get ta "order") 0 = ordAt ta 0 := rfl
  rw [this]
  split
  · constructor
    · rw [get_set_other _ _ _ _ (by decide), get_set_self]; rfl
    · intro _; rw [hasKey_set_other _ _ _ _ (by decide)]; exact hasKey_set_self _ _ _
  · constructor
    · rw [get_update ta hk, hta]; simp
    · intro h; rw [hasKey_update, h]; rfl

/-! ### clause (a), edges -/

theorem mono_edge (host T : LGraph) (m : Mapping) (hH : WFHost host) (hT : WFTemplate T)
    (hm : IsMono monoSel host (left T) m) (te : Nat × Nat × Attrs) (hte : te ∈ T.edges)
    (hpos : numOf (ordAt te.2.2 0) > 0) :
    ∃ hu hv e, m.get? te.1 = some hu ∧ m.get? te.2.1 = some hv ∧ e ∈ host.edges ∧
      ((e.1 = hu ∧ e.2.1 = hv) ∨ (e.1 = hv ∧ e.2.1 = hu)) ∧ Attrs.get e.2.2 "order" = ordAt te.2.2 0 := by
  obtain ⟨hu, hv, ea, h1, h2, h3, h4⟩ := hm.2.2.2 _ (mem_left_edges T hT te hte hpos)
  obtain ⟨e, he, rfl, hend⟩ := edge?_some_mem host hu hv ea h3
  refine ⟨hu, hv, e, h1, h2, he, hend, ?_⟩
  simp only [edgeOk, monoSel, List.all_cons, List.all_nil, Bool.and_true, decide_eq_true_eq] at h4
  rw [h4]; simp [get_cons]

theorem glue_left_edges (host T : LGraph) (m : Mapping) (hH : WFHost host) (hT : WFTemplate T)
    (hm : IsMono monoSel host (left T) m) :
    (left (glue host T m)).edges = (hostProj host).edges := by
  unfold left decompSide glue prepHost hostProj
  simp only [List.filterMap_append, List.filterMap_map, List.map_map, List.filterMap_filterMap]
  apply append_eq_of
  rotate_left
  · apply filterMap_eq_map_of
    intro e he
    unfold glueHostEdge
    simp only [Function.comp, prepEdge]
    have hpo := prepEdge_order e.2.2
    have hopos := hH.2.2 e he
    have hord0 : ordAt (prepEdgeAttrs e.2.2) 0 = pyGet e.2.2 "order" (.num 2) := by
      unfold ordAt; rw [hpo.1]; rfl
    have hcases : tplEdgeFor T m e.1 e.2.1 = none ∨ ∃ te, tplEdgeFor T m e.1 e.2.1 = some te := by
      cases tplEdgeFor T m e.1 e.2.1 <;> simp
    rcases hcases with htf | ⟨te, htf⟩
    · simp only [htf, hpo.2, hord0, hopos, and_self, if_true]
    · simp only [htf]
      unfold tplEdgeFor at htf
      have hte := List.mem_of_find?_eq_some htf
      have hland := List.find?_some htf
      have hTe := hT.2.2 te hte
      have hmo := mergeEdge_order (prepEdgeAttrs e.2.2) te.2.2 hTe.1 hTe.2.1
      have hkey := hmo.2 hpo.2
      have h0 : ordAt (mergeEdge (prepEdgeAttrs e.2.2) te.2.2) 0 = pyGet e.2.2 "order" (.num 2) := by
        unfold ordAt; rw [hmo.1]
        split
        · simp only [tupGet, tupList, List.getD_cons_zero]; exact hord0
        · rename_i hne
          have hx : numOf (ordAt te.2.2 0) > 0 := by
            have h1 := hTe.2.2.1; have h2 := hTe.2.2.2.1
            rcases lt_or_eq_of_le h2 with h | h
            · exact h
            · rw [← h] at h1; exact absurd h1 hne
          obtain ⟨hu, hv, e', g1, g2, he', hend, hord⟩ := mono_edge host T m hH hT hm te hte hx
          obtain ⟨hu', hv', g1', g2', hend'⟩ := (landsOn_iff m te e.1 e.2.1).1 hland
          rw [g1] at g1'; rw [g2] at g2'
          simp only [Option.some.injEq] at g1' g2'
          subst g1' g2'
          have : host.edge? hu hv = some e.2.2 := edge?_of_mem host hH.1 e he hu hv (by omega)
          have h' : host.edge? hu hv = some e'.2.2 := edge?_of_mem host hH.1 e' he' hu hv hend
          rw [this] at h'
          simp only [Option.some.injEq] at h'
          have hget : Attrs.get e.2.2 "order" = ordAt te.2.2 0 := by rw [h']; exact hord
          have hne' : Attrs.get e.2.2 "order" ≠ Val.none := by rw [hget, hTe.2.2.1]; simp
          rw [pyGet_of_get_ne_none _ _ _ hne', hget]; rfl
      simp only [hkey, h0, hopos, and_self, if_true]
  · apply filterMap_eq_nil_of
    intro te hte
    unfold glueNewEdge
    cases g1 : m.get? te.1 with
    | none => rfl
    | some hu =>
      cases g2 : m.get? te.2.1 with
      | none => rfl
      | some hv =>
        simp only
        cases hhe : host.hasEdge hu hv with
        | true => simp
        | false =>
          simp only [Bool.false_eq_true, if_false]
          have hTe := hT.2.2 te hte
          by_cases hx : numOf (ordAt te.2.2 0) > 0
          · exfalso
            obtain ⟨hu', hv', e', g1', g2', he', hend, _⟩ := mono_edge host T m hH hT hm te hte hx
            rw [g1] at g1'; rw [g2] at g2'
            simp only [Option.some.injEq] at g1' g2'
            subst g1' g2'
            have := hasEdge_of_mem host hH.1 e' he' hu hv hend
            rw [this] at hhe; exact Bool.noConfusion hhe
          · simp [hx]

/-! ### clause (c): the changed bonds of the result are the image of the template's -/

theorem pyRound_even (h : Int) (he : h % 2 = 0) : pyRound h = h := by simp [pyRound, he]

theorem prepEdge_ordAt (a : Attrs) (s : Nat) (hs : s < 2) : ordAt (prepEdgeAttrs a) s = pyGet a "order" (.num 2) := by
  unfold ordAt; rw [(prepEdge_order a).1]
  have : s = 0 ∨ s = 1 := by omega
  rcases this with rfl | rfl <;> rfl

theorem prepEdge_delta (a : Attrs) : delta (prepEdgeAttrs a) = 0 := by
  unfold delta; rw [prepEdge_ordAt a 0 (by omega), prepEdge_ordAt a 1 (by omega)]; omega

/-- Order change written by `mergeEdge` on a prepared host edge. -/
theorem mergeEdge_delta (a ta : Attrs) (hk : (Dict.keys ta).Nodup) (hta : hasKey ta "order" = true)
    (hround : ordAt ta 0 = .num 0 → (numOf (pyGet a "order" (.num 2)) + numOf (ordAt ta 1)) % 2 = 0) :
    delta (mergeEdge (prepEdgeAttrs a) ta) = delta ta := by
  unfold delta
  have hmo := (mergeEdge_order (prepEdgeAttrs a) ta hk hta).1
  unfold ordAt at *
  rw [hmo]
  split
  · rename_i hz
    have hz' : tupGet (Attrs.get ta "order") 0 = .num 0 := hz
    have := hround hz
    rw [(prepEdge_order a).1]
    simp only [tupGet, tupList, List.getD_cons_zero, List.getD_cons_succ] at this hz' ⊢
    rw [pyRound_even _ this, hz']
    simp [numOf]
  · rfl

theorem tpl_edge_unique (T : LGraph) (hT : T.WF) (m : Mapping) (hn : (m.map (·.2)).Nodup)
    (te te' : Nat × Nat × Attrs) (h1 : te ∈ T.edges) (h2 : te' ∈ T.edges) (x y : Nat)
    (l1 : landsOn m te x y = true) (l2 : landsOn m te' x y = true) : te = te' := by
  obtain ⟨hu, hv, a1, a2, a3⟩ := (landsOn_iff _ _ _ _).1 l1
  obtain ⟨hu', hv', b1, b2, b3⟩ := (landsOn_iff _ _ _ _).1 l2
  apply List.inj_on_of_nodup_map hT.2.2 h1 h2
  apply mm_eq
  have hc : (hu = hu' ∧ hv = hv') ∨ (hu = hv' ∧ hv = hu') := by omega
  rcases hc with ⟨rfl, rfl⟩ | ⟨rfl, rfl⟩
  · exact Or.inl ⟨mget_inj m hn _ _ _ a1 b1, mget_inj m hn _ _ _ a2 b2⟩
  · exact Or.inr ⟨mget_inj m hn _ _ _ a1 b2, mget_inj m hn _ _ _ a2 b1⟩

theorem glueHostEdge_ends (T : LGraph) (m : Mapping) (e : Nat × Nat × Attrs) :
    (glueHostEdge T m e).1 = e.1 ∧ (glueHostEdge T m e).2.1 = e.2.1 := by
  unfold glueHostEdge; cases tplEdgeFor T m e.1 e.2.1 <;> exact ⟨rfl, rfl⟩

theorem glueHostEdge_cases (T : LGraph) (m : Mapping) (e : Nat × Nat × Attrs) :
    (tplEdgeFor T m e.1 e.2.1 = none ∧ glueHostEdge T m e = e) ∨
    (∃ te, tplEdgeFor T m e.1 e.2.1 = some te ∧ glueHostEdge T m e = (e.1, e.2.1, mergeEdge e.2.2 te.2.2)) := by
  unfold glueHostEdge
  cases tplEdgeFor T m e.1 e.2.1 with
  | none => exact Or.inl ⟨rfl, rfl⟩
  | some te => exact Or.inr ⟨te, rfl, rfl⟩

theorem glueNewEdge_some (host : LGraph) (m : Mapping) (te e : Nat × Nat × Attrs) (h : glueNewEdge host m te = some e) :
    m.get? te.1 = some e.1 ∧ m.get? te.2.1 = some e.2.1 ∧ e.2.2 = te.2.2 ∧ host.hasEdge e.1 e.2.1 = false := by
  unfold glueNewEdge at h
  cases g1 : m.get? te.1 with
  | none => simp [g1] at h
  | some hu =>
    cases g2 : m.get? te.2.1 with
    | none => simp [g1, g2] at h
    | some hv =>
      simp only [g1, g2] at h
      cases hhe : host.hasEdge hu hv with
      | true => simp [hhe] at h
      | false =>
        simp only [hhe, Bool.false_eq_true, if_false, Option.some.injEq] at h
        subst h; exact ⟨rfl, rfl, rfl, hhe⟩

/-- Every edge of the glued graph is either the image of a template edge, with the same order
change, or a substrate bond that is the image of no template edge and keeps `(o, o)`. -/
theorem glue_edges_classified (host T : LGraph) (m : Mapping) (hT : WFTemplate T) (hr : RoundExact host T m) :
    ∀ e ∈ (glue host T m).edges,
      (∃ te ∈ T.edges, landsOn m te e.1 e.2.1 = true ∧ delta e.2.2 = delta te.2.2) ∨
      (delta e.2.2 = 0 ∧ ordAt e.2.2 0 = ordAt e.2.2 1 ∧ ∀ te ∈ T.edges, landsOn m te e.1 e.2.1 = false) := by
  intro e he
  have he' : (∃ e0 ∈ host.edges, e = glueHostEdge T m (prepEdge e0)) ∨ (∃ te ∈ T.edges, glueNewEdge host m te = some e) := by
    unfold glue prepHost at he
    simp only [List.mem_append, List.mem_map, List.mem_filterMap] at he
    rcases he with ⟨e1, ⟨e0, he0, rfl⟩, rfl⟩ | ⟨te, hte, hsome⟩
    · exact Or.inl ⟨e0, he0, rfl⟩
    · exact Or.inr ⟨te, hte, hsome⟩
  rcases he' with ⟨e0, he0, rfl⟩ | ⟨te, hte, hsome⟩
  · rcases glueHostEdge_cases T m (prepEdge e0) with ⟨htf, heq⟩ | ⟨te, htf, heq⟩
    · right
      rw [heq]
      refine ⟨prepEdge_delta _, ?_, ?_⟩
      · show ordAt (prepEdgeAttrs e0.2.2) 0 = ordAt (prepEdgeAttrs e0.2.2) 1
        rw [prepEdge_ordAt _ 0 (by omega), prepEdge_ordAt _ 1 (by omega)]
      · intro te hte
        unfold tplEdgeFor at htf
        have := List.find?_eq_none.1 htf te hte
        simpa using this
    · left
      rw [heq]
      unfold tplEdgeFor at htf
      have hte := List.mem_of_find?_eq_some htf
      have hland : landsOn m te e0.1 e0.2.1 = true := by
        have := List.find?_some htf
        simpa [prepEdge] using this
      have hTe := hT.2.2 te hte
      exact ⟨te, hte, hland, mergeEdge_delta _ _ hTe.1 hTe.2.1 (fun hz => hr te hte e0 he0 hland hz)⟩
  · left
    obtain ⟨g1, g2, g3, _⟩ := glueNewEdge_some host m te e hsome
    exact ⟨te, hte, (landsOn_iff _ _ _ _).2 ⟨e.1, e.2.1, g1, g2, Or.inl ⟨rfl, rfl⟩⟩, by rw [g3]⟩

/-- Every template edge has an image in the glued graph, with the same order change. -/
theorem glue_edge_image (host T : LGraph) (m : Mapping) (hT : WFTemplate T)
    (hm : IsMono monoSel host (left T) m) (hr : RoundExact host T m) :
    ∀ te ∈ T.edges, ∃ e ∈ (glue host T m).edges, landsOn m te e.1 e.2.1 = true ∧ delta e.2.2 = delta te.2.2 := by
  intro te hte
  have hends := hT.1.2.1 te hte
  have hdom : ∀ v ∈ T.ids, ∃ h, m.get? v = some h := by
    intro v hv; apply mget_total; rw [hm.1, left_ids T hT]; exact hv
  obtain ⟨hu, g1⟩ := hdom _ hends.1
  obtain ⟨hv, g2⟩ := hdom _ hends.2.1
  have hex : ∃ e ∈ (glue host T m).edges, landsOn m te e.1 e.2.1 = true := by
    cases hhe : host.hasEdge hu hv with
    | true =>
      unfold LGraph.hasEdge at hhe
      obtain ⟨a, ha⟩ := Option.isSome_iff_exists.1 hhe
      obtain ⟨e0, he0, _, hend⟩ := edge?_some_mem host hu hv a ha
      have hl : landsOn m te e0.1 e0.2.1 = true :=
        (landsOn_iff _ _ _ _).2 ⟨hu, hv, g1, g2, by omega⟩
      refine ⟨glueHostEdge T m (prepEdge e0), ?_, ?_⟩
      · unfold glue prepHost
        simp only [List.mem_append, List.mem_map]
        exact Or.inl ⟨prepEdge e0, ⟨e0, he0, rfl⟩, rfl⟩
      · rw [(glueHostEdge_ends T m (prepEdge e0)).1, (glueHostEdge_ends T m (prepEdge e0)).2]; exact hl
    | false =>
      refine ⟨(hu, hv, te.2.2), ?_, (landsOn_iff _ _ _ _).2 ⟨hu, hv, g1, g2, Or.inl ⟨rfl, rfl⟩⟩⟩
      unfold glue
      simp only [List.mem_append, List.mem_filterMap]
      exact Or.inr ⟨te, hte, by simp [glueNewEdge, g1, g2, hhe]⟩
  obtain ⟨e, he, hl⟩ := hex
  refine ⟨e, he, hl, ?_⟩
  rcases glue_edges_classified host T m hT hr e he with ⟨te', hte', hl', hd⟩ | ⟨_, _, hnone⟩
  · have := tpl_edge_unique T hT.1 m hm.2.1 te te' hte hte' _ _ hl hl'
    rw [this]; exact hd
  · rw [hnone te hte] at hl; exact Bool.noConfusion hl

/-! ### node attributes of the glued graph -/

theorem attrs_map_nodes (l : List (Nat × Attrs)) (es es' : List (Nat × Nat × Attrs)) (F : Nat × Attrs → Nat × Attrs)
    (hF : ∀ p, (F p).1 = p.1) (v : Nat) (hv : v ∈ l.map (·.1)) :
    LGraph.attrs ⟨l.map F, es⟩ v = (F (v, LGraph.attrs ⟨l, es'⟩ v)).2 := by
  unfold LGraph.attrs
  simp only
  induction l with
  | nil => simp at hv
  | cons p rest ih =>
    simp only [List.map_cons, List.find?_cons, hF]
    by_cases hp : p.1 = v
    · simp only [hp, decide_true]
      have : p = (v, p.2) := by rw [← hp]
      rw [this]
    · simp only [hp, decide_false]
      have hv' : v ∈ rest.map (·.1) := by
        simp only [List.map_cons, List.mem_cons] at hv
        rcases hv with h | h
        · exact absurd h.symm hp
        · exact h
      exact ih hv'

theorem attrs_of_mem (g : LGraph) (hn : g.ids.Nodup) (p : Nat × Attrs) (hp : p ∈ g.nodes) : g.attrs p.1 = p.2 := by
  have h1 := attrs_mem g p.1 (List.mem_map.2 ⟨p, hp, rfl⟩)
  have := List.inj_on_of_nodup_map hn h1 hp rfl
  exact congrArg Prod.snd this

theorem preimage_of_mem (m : Mapping) (hn : (m.map (·.2)).Nodup) (q h : Nat) (hqh : (q, h) ∈ m) :
    preimage m h = some q := by
  unfold preimage
  cases hf : m.find? (fun x => decide (x.2 = h)) with
  | none =>
    have := List.find?_eq_none.1 hf (q, h) hqh
    simp at this
  | some r =>
    have h1 : r.2 = h := by simpa using List.find?_some hf
    have h2 := List.mem_of_find?_eq_some hf
    have := List.inj_on_of_nodup_map hn h2 hqh h1
    simp [this]

theorem preimage_none_of_not_mem (m : Mapping) (h : Nat) (hh : h ∉ m.map (·.2)) : preimage m h = none := by
  unfold preimage
  cases hf : m.find? (fun x => decide (x.2 = h)) with
  | none => rfl
  | some r =>
    have h1 : r.2 = h := by simpa using List.find?_some hf
    have h2 := List.mem_of_find?_eq_some hf
    exact absurd (List.mem_map.2 ⟨r, h2, h1⟩) hh

theorem glueNode_fst (T : LGraph) (m : Mapping) (p : Nat × Attrs) : (glueNode T m p).1 = p.1 := by
  unfold glueNode; cases preimage m p.1 <;> rfl

theorem glue_attrs (host T : LGraph) (m : Mapping) (h : Nat) (hh : h ∈ host.ids) :
    (glue host T m).attrs h = (glueNode T m (prepNode (h, host.attrs h))).2 := by
  unfold glue prepHost
  simp only [List.map_map]
  have := attrs_map_nodes host.nodes
    (List.map (glueHostEdge T m ∘ prepEdge) host.edges ++ List.filterMap (glueNewEdge host m) T.edges)
    host.edges (glueNode T m ∘ prepNode) (fun p => by simp [Function.comp, glueNode_fst, prepNode]) h hh
  rw [this]; rfl

/-- Label pair of a matched atom in the glued graph. -/
theorem glue_tg_matched (host T : LGraph) (m : Mapping) (hH : WFHost host) (hT : WFTemplate T)
    (hm : IsMono monoSel host (left T) m) (q h : Nat) (hqh : (q, h) ∈ m) :
    Attrs.get ((glue host T m).attrs h) "typesGH" =
      .tup [.tup [pyGet (host.attrs h) "element" (.str "*"), pyGet (host.attrs h) "aromatic" (.bool false),
                  pyGet (host.attrs h) "hcount" (.num 0), pyGet (host.attrs h) "charge" (.num 0),
                  pyGet (host.attrs h) "neighbors" (.tup [])],
            .tup [pyGet (host.attrs h) "element" (.str "*"), pyGet (host.attrs h) "aromatic" (.bool false),
                  .num (numOf (pyGet (host.attrs h) "hcount" (.num 0)) -
                        (numOf (tgField (T.attrs q) 0 2) - numOf (tgField (T.attrs q) 1 2))),
                  tgField (T.attrs q) 1 3, pyGet (host.attrs h) "neighbors" (.tup [])]] := by
  have hh : h ∈ host.ids := (hm.2.2.1 (q, h) hqh).1
  rw [glue_attrs host T m h hh]
  unfold glueNode
  have : (prepNode (h, host.attrs h)).1 = h := rfl
  rw [this, preimage_of_mem m hm.2.1 q h hqh]
  simp only
  have hq : q ∈ T.ids := by
    rw [← left_ids T hT, ← hm.1]; exact List.mem_map.2 ⟨(q, h), hqh, rfl⟩
  have hqa := hT.2.1 (q, T.attrs q) (attrs_mem T q hq)
  have e2 : (prepNode (q, T.attrs q)).2 = T.attrs q := by
    simp [prepNode, setDefault, hqa.1]
  rw [e2]
  have hno := hH.2.1 (h, host.attrs h) (attrs_mem host h hh)
  exact nodeGlue_tg (n := h) (host.attrs h) (T.attrs q) hno hqa.2.1 hqa.2.2.1

/-- Label pair of an atom outside the match: both sides are the substrate's label. -/
theorem glue_tg_unmatched (host T : LGraph) (m : Mapping) (hH : WFHost host) (h : Nat) (hh : h ∈ host.ids)
    (hpre : preimage m h = none) :
    Attrs.get ((glue host T m).attrs h) "typesGH" = defaultTg (host.attrs h) := by
  rw [glue_attrs host T m h hh]
  unfold glueNode
  have : (prepNode (h, host.attrs h)).1 = h := rfl
  rw [this, hpre]
  simp only
  have hno := hH.2.1 (h, host.attrs h) (attrs_mem host h hh)
  simp [prepNode, setDefault, hno, get_set_self]

theorem left_attrs_get (T : LGraph) (hT : WFTemplate T) (q : Nat) (hq : q ∈ T.ids) :
    Attrs.get ((left T).attrs q) "element" = tgField (T.attrs q) 0 0 ∧
    Attrs.get ((left T).attrs q) "charge" = tgField (T.attrs q) 0 3 := by
  have hnodes : (left T).nodes = T.nodes.map (fun p => sideNode p.1 (tupGet (Attrs.get p.2 "typesGH") 0)) := by
    unfold left decompSide
    simp only
    apply filterMap_eq_map_of
    intro p hp; simp [(hT.2.1 p hp).1]
  have : (left T).attrs q = (sideNode q (tupGet (Attrs.get (T.attrs q) "typesGH") 0)).2 := by
    have h1 : left T = ⟨(left T).nodes, (left T).edges⟩ := rfl
    rw [h1, hnodes]
    have := attrs_map_nodes T.nodes (left T).edges T.edges
      (fun p => sideNode p.1 (tupGet (Attrs.get p.2 "typesGH") 0)) (fun p => rfl) q hq
    rw [this]
  rw [this]
  simp [sideNode, get_cons, tgField]

/-- What the match guarantees about a matched atom: element and charge of the substrate atom are
those of the template's reactant side. -/
theorem mono_node (host T : LGraph) (m : Mapping) (hT : WFTemplate T)
    (hm : IsMono monoSel host (left T) m) (q h : Nat) (hqh : (q, h) ∈ m) :
    Attrs.get (host.attrs h) "element" = tgField (T.attrs q) 0 0 ∧
    Attrs.get (host.attrs h) "charge" = tgField (T.attrs q) 0 3 := by
  have hq : q ∈ T.ids := by
    rw [← left_ids T hT, ← hm.1]; exact List.mem_map.2 ⟨(q, h), hqh, rfl⟩
  have hok := (hm.2.2.1 (q, h) hqh).2
  have hl := left_attrs_get T hT q hq
  simp only [nodeOk, monoSel, List.all_cons, List.all_nil, Bool.and_true, Bool.and_eq_true,
    decide_eq_true_eq] at hok
  exact ⟨by rw [hok.1.1, hl.1], by rw [hok.1.2, hl.2]⟩

/-! ### clause (b): sums over the glued graph -/

theorem sum_map_zero {α : Type} (l : List α) (f : α → Int) (h : ∀ x ∈ l, f x = 0) : (l.map f).sum = 0 := by
  induction l with
  | nil => rfl
  | cons x xs ih =>
    simp only [List.map_cons, List.sum_cons, h x (List.mem_cons_self)]
    rw [ih (fun y hy => h y (List.mem_cons_of_mem _ hy))]; rfl

theorem sum_map_add' {α : Type} (l : List α) (f g : α → Int) :
    (l.map (fun x => f x + g x)).sum = (l.map f).sum + (l.map g).sum := by
  induction l with
  | nil => rfl
  | cons x xs ih => simp only [List.map_cons, List.sum_cons, ih]; ring

theorem sum_indicator (l : List (Nat × Attrs)) (hn : (l.map (·.1)).Nodup) (h0 : Nat) (hh : h0 ∈ l.map (·.1)) (c : Int) :
    (l.map (fun p => if p.1 = h0 then c else 0)).sum = c := by
  induction l with
  | nil => simp at hh
  | cons p rest ih =>
    simp only [List.map_cons, List.nodup_cons, List.mem_cons, List.sum_cons] at hn hh ⊢
    by_cases hp : p.1 = h0
    · have : (rest.map (fun p => if p.1 = h0 then c else 0)).sum = 0 := by
        apply sum_map_zero
        intro r hr
        have : r.1 ≠ h0 := by
          intro e; apply hn.1; rw [hp, ← e]; exact List.mem_map.2 ⟨r, hr, rfl⟩
        simp [this]
      simp [hp, this]
    · have hh' : h0 ∈ rest.map (·.1) := by
        rcases hh with h | h
        · exact absurd h.symm hp
        · exact h
      simp [hp, ih hn.2 hh']

theorem preimage_cons (q0 h0 : Nat) (m : Mapping) (h : Nat) :
    preimage ((q0, h0) :: m) h = if h0 = h then some q0 else preimage m h := by
  unfold preimage
  simp only [List.find?_cons]
  by_cases hh : h0 = h <;> simp [hh]

theorem sum_preimage (l : List (Nat × Attrs)) (hn : (l.map (·.1)).Nodup) (val : Nat → Int) (m : Mapping)
    (hm : (m.map (·.2)).Nodup) (hsub : ∀ x ∈ m, x.2 ∈ l.map (·.1)) :
    (l.map (fun p => match preimage m p.1 with | some q => val q | none => 0)).sum = (m.map (fun x => val x.1)).sum := by
  induction m with
  | nil => simp [preimage]
  | cons x rest ih =>
    obtain ⟨q0, h0⟩ := x
    simp only [List.map_cons, List.nodup_cons, List.sum_cons] at hm ⊢
    have ih' := ih hm.2 (fun y hy => hsub y (List.mem_cons_of_mem _ hy))
    have hsplit : ∀ p ∈ l, (match preimage ((q0, h0) :: rest) p.1 with | some q => val q | none => 0) =
        (if p.1 = h0 then val q0 else 0) + (match preimage rest p.1 with | some q => val q | none => 0) := by
      intro p _
      rw [preimage_cons]
      by_cases hp : h0 = p.1
      · have : preimage rest p.1 = none := preimage_none_of_not_mem rest p.1 (by rw [← hp]; exact hm.1)
        simp [hp, this]
      · have hp' : ¬ p.1 = h0 := fun e => hp e.symm
        simp [hp, hp']
    rw [List.map_congr_left hsplit, sum_map_add', ih',
      sum_indicator l hn h0 (hsub (q0, h0) (List.mem_cons_self)) (val q0)]

/-- Sum over the glued graph of a quantity that depends only on `typesGH`, vanishes on unchanged
labels and equals `val q` on the image of template node `q`. -/
theorem glue_sum (host T : LGraph) (m : Mapping) (hH : WFHost host) (hT : WFTemplate T)
    (hm : IsMono monoSel host (left T) m) (f : Val → Int)
    (h0 : ∀ a : Attrs, f (defaultTg a) = 0)
    (hq : ∀ q h, (q, h) ∈ m → f (Attrs.get ((glue host T m).attrs h) "typesGH") = f (Attrs.get (T.attrs q) "typesGH")) :
    sumBy (glue host T m) (fun a => f (Attrs.get a "typesGH")) = sumBy T (fun a => f (Attrs.get a "typesGH")) := by
  unfold sumBy
  have hnodes : (glue host T m).nodes = host.nodes.map (glueNode T m ∘ prepNode) := by
    unfold glue prepHost; simp only [List.map_map]
  rw [hnodes, List.map_map]
  have hpt : ∀ p ∈ host.nodes, ((fun p : Nat × Attrs => f (Attrs.get p.2 "typesGH")) ∘ (glueNode T m ∘ prepNode)) p =
      (match preimage m p.1 with | some q => f (Attrs.get (T.attrs q) "typesGH") | none => 0) := by
    intro p hp
    have hid : p.1 ∈ host.ids := List.mem_map.2 ⟨p, hp, rfl⟩
    have hat : host.attrs p.1 = p.2 := attrs_of_mem host hH.1.1 p hp
    have hga := glue_attrs host T m p.1 hid
    rw [hat] at hga
    simp only [Function.comp]
    have e : prepNode p = prepNode (p.1, p.2) := rfl
    rw [e, ← hga]
    cases hpre : preimage m p.1 with
    | none =>
      simp only
      rw [glue_tg_unmatched host T m hH p.1 hid hpre]; exact h0 _
    | some q =>
      simp only
      exact hq q p.1 (preimage_mem m p.1 q hpre)
  rw [List.map_congr_left hpt]
  rw [sum_preimage host.nodes hH.1.1 (fun q => f (Attrs.get (T.attrs q) "typesGH")) m hm.2.1
    (fun x hx => (hm.2.2.1 x hx).1)]
  have h1 : (m.map (fun x => f (Attrs.get (T.attrs x.1) "typesGH"))) =
      (m.map (·.1)).map (fun q => f (Attrs.get (T.attrs q) "typesGH")) := by simp [List.map_map]
  rw [h1, hm.1, left_ids T hT]
  unfold LGraph.ids
  rw [List.map_map]
  apply congrArg
  apply List.map_congr_left
  intro p hp
  simp only [Function.comp]
  rw [attrs_of_mem T hT.1.1 p hp]

theorem glue_nodes_attrs (host T : LGraph) (m : Mapping) (hH : WFHost host) :
    ∀ p ∈ (glue host T m).nodes, p.1 ∈ host.ids ∧ p.2 = (glue host T m).attrs p.1 := by
  intro p hp
  have hnodes : (glue host T m).nodes = host.nodes.map (glueNode T m ∘ prepNode) := by
    unfold glue prepHost; simp only [List.map_map]
  rw [hnodes] at hp
  obtain ⟨p0, hp0, rfl⟩ := List.mem_map.1 hp
  have hid : p0.1 ∈ host.ids := List.mem_map.2 ⟨p0, hp0, rfl⟩
  have h1 : ((glueNode T m ∘ prepNode) p0).1 = p0.1 := by simp [Function.comp, glueNode_fst, prepNode]
  rw [h1]
  refine ⟨hid, ?_⟩
  rw [glue_attrs host T m p0.1 hid, attrs_of_mem host hH.1.1 p0 hp0]
  rfl

/-! ### `_invert_template` -/

/-- Bond orders are numbers (true of every graph the reactor builds). -/
def NumericOrders (T : LGraph) : Prop :=
  ∀ e ∈ T.edges, ordAt e.2.2 0 = .num (numOf (ordAt e.2.2 0)) ∧ ordAt e.2.2 1 = .num (numOf (ordAt e.2.2 1))

theorem invert_numeric (T : LGraph) : NumericOrders (invert T) := by
  intro e he
  unfold invert at he
  simp only [List.mem_filterMap] at he
  obtain ⟨e0, _, h⟩ := he
  split at h
  · split at h
    · simp only [Option.some.injEq] at h
      subst h
      simp [ordAt, get_cons, tupGet, tupList, numOf]
    · simp at h
  · simp at h

theorem invert_left_nodes (T : LGraph) : (left (invert T)).nodes = (right T).nodes := by
  unfold left right decompSide invert
  simp only [List.filterMap_filterMap]
  apply List.filterMap_congr
  intro p _
  by_cases h : hasKey p.2 "typesGH" = true
  · simp [h, hasKey_cons, get_cons, sideNode, tupGet, tupList]
  · simp [h]

theorem invert_right_nodes (T : LGraph) : (right (invert T)).nodes = (left T).nodes := by
  unfold left right decompSide invert
  simp only [List.filterMap_filterMap]
  apply List.filterMap_congr
  intro p _
  by_cases h : hasKey p.2 "typesGH" = true
  · simp [h, hasKey_cons, get_cons, sideNode, tupGet, tupList]
  · simp [h]

theorem ordAt_mk (a b : Int) (c : Val) (s : Nat) (hs : s < 2) :
    ordAt [("order", Val.tup [.num a, .num b]), ("standard_order", c)] s = if s = 0 then .num a else .num b := by
  have : s = 0 ∨ s = 1 := by omega
  rcases this with rfl | rfl <;> simp [ordAt, get_cons, tupGet, tupList]

theorem hasKey_mk (x c : Val) : hasKey [("order", x), ("standard_order", c)] "order" = true := by
  simp [hasKey_cons]

/-- One edge through `invert` and then one side of `its_decompose`. -/
@[simp] theorem numOf_num (x : Int) : numOf (.num x) = x := rfl

theorem invert_edge_side (e : Nat × Nat × Attrs) (s : Nat) (hs : s < 2)
    (hn : ordAt e.2.2 (1 - s) = .num (numOf (ordAt e.2.2 (1 - s)))) :
    ((if hasKey e.2.2 "order" = true then
        (if numOf (ordAt e.2.2 0) > 0 ∨ numOf (ordAt e.2.2 1) > 0 then
          some (e.1, e.2.1, ([("order", Val.tup [.num (if numOf (ordAt e.2.2 1) > 0 then numOf (ordAt e.2.2 1) else 0),
                                                  .num (if numOf (ordAt e.2.2 0) > 0 then numOf (ordAt e.2.2 0) else 0)]),
                              ("standard_order", Val.num ((if numOf (ordAt e.2.2 1) > 0 then numOf (ordAt e.2.2 1) else 0) -
                                  (if numOf (ordAt e.2.2 0) > 0 then numOf (ordAt e.2.2 0) else 0)))] : Attrs))
        else none)
      else none).bind fun e' : Nat × Nat × Attrs =>
        if hasKey e'.2.2 "order" = true ∧ numOf (ordAt e'.2.2 s) > 0 then some (e'.1, e'.2.1, [("order", ordAt e'.2.2 s)])
        else none) =
    (if hasKey e.2.2 "order" = true ∧ numOf (ordAt e.2.2 (1 - s)) > 0 then
        some (e.1, e.2.1, [("order", ordAt e.2.2 (1 - s))]) else none) := by
  by_cases h : hasKey e.2.2 "order" = true
  · simp only [h, if_true, true_and]
    have hs' : s = 0 ∨ s = 1 := by omega
    rcases hs' with rfl | rfl
    · simp only [Nat.sub_zero] at hn ⊢
      by_cases h1 : numOf (ordAt e.2.2 1) > 0
      · simp only [h1, or_true, if_true, Option.bind_some, hasKey_mk, ordAt_mk _ _ _ 0 (by omega), numOf_num, true_and]
        rw [← hn]
      · by_cases h0 : numOf (ordAt e.2.2 0) > 0
        · simp [h1, h0, hasKey_mk, ordAt_mk _ _ _ 0 (by omega), numOf_num]
        · simp [h1, h0]
    · simp only [Nat.sub_self] at hn ⊢
      by_cases h0 : numOf (ordAt e.2.2 0) > 0
      · simp only [h0, true_or, if_true, Option.bind_some, hasKey_mk, ordAt_mk _ _ _ 1 (by omega), numOf_num, true_and]
        simp only [Nat.one_ne_zero, if_false, h0, if_true]
        rw [← hn]
        simp [h0]
      · by_cases h1 : numOf (ordAt e.2.2 1) > 0
        · simp [h1, h0, hasKey_mk, ordAt_mk _ _ _ 1 (by omega), numOf_num]
        · simp [h1, h0]
  · simp [h]

theorem invert_left_edges (T : LGraph) (hT : NumericOrders T) : (left (invert T)).edges = (right T).edges := by
  unfold left right decompSide invert
  simp only [List.filterMap_filterMap]
  apply List.filterMap_congr
  intro e he
  exact invert_edge_side e 0 (by omega) (hT e he).2

theorem invert_right_edges (T : LGraph) (hT : NumericOrders T) : (right (invert T)).edges = (left T).edges := by
  unfold left right decompSide invert
  simp only [List.filterMap_filterMap]
  apply List.filterMap_congr
  intro e he
  exact invert_edge_side e 1 (by omega) (hT e he).1

/-! ### the executable mono check -/

theorem isMonoB_iff (sel : Sel) (H P : LGraph) (m : Mapping) : isMonoB sel H P m = true ↔ IsMono sel H P m := by
  unfold isMonoB IsMono
  simp only [Bool.and_eq_true, decide_eq_true_eq, List.all_eq_true, List.contains_iff_mem]
  constructor
  · rintro ⟨⟨⟨h1, h2⟩, h3⟩, h4⟩
    refine ⟨h1, h2, fun ph hph => h3 ph hph, ?_⟩
    intro e he
    have := h4 e he
    cases g1 : m.get? e.1 with
    | none => simp [g1] at this
    | some hu =>
      cases g2 : m.get? e.2.1 with
      | none => simp [g1, g2] at this
      | some hv =>
        simp only [g1, g2] at this
        cases g3 : H.edge? hu hv with
        | none => simp [g3] at this
        | some ea =>
          simp only [g3] at this
          exact ⟨hu, hv, ea, rfl, rfl, g3, this⟩
  · rintro ⟨h1, h2, h3, h4⟩
    refine ⟨⟨⟨h1, h2⟩, fun ph hph => h3 ph hph⟩, ?_⟩
    intro e he
    obtain ⟨hu, hv, ea, g1, g2, g3, g4⟩ := h4 e he
    simp [g1, g2, g3, g4]

end SynKit.Reactor

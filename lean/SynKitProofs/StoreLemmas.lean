import SynKitModel.Store
import Std.Data.String.ToNat
/-! Helper lemmas for C15 (store invariants). -/
namespace SynKit.Store

/-- The store invariant of C15. -/
structure Store.Inv (s : Store) : Prop where
  ids_nodup : s.ids.Nodup
  species_iff : ∀ sp, sp ∈ s.species ↔ (∃ e ∈ s.edges, sp ∈ e.speciesOf) ∨ sp ∈ s.kept
  in_iff : ∀ sp i, i ∈ s.inIdx.getD sp [] ↔ ∃ e ∈ s.edges, e.id = i ∧ sp ∈ e.products.keys
  out_iff : ∀ sp i, i ∈ s.outIdx.getD sp [] ↔ ∃ e ∈ s.edges, e.id = i ∧ sp ∈ e.reactants.keys
  mol_sub : ∀ sp ∈ s.mol.keys, sp ∈ s.species
  sides_wf : ∀ e ∈ s.edges, e.reactants.keys.Nodup ∧ e.products.keys.Nodup
  nonempty : ∀ e ∈ s.edges, e.isEmpty = false

def Op.target : Op → Nat
  | .add k .. => k
  | .remove k _ => k
  | .removeSpecies k .. => k
  | .merge k .. => k
  | .mergeEdges k .. => k
  | .copy _ j => j
  | .assignMol k .. => k
  | .setMolMap k .. => k
  | .addFromStr k .. => k
  | .parseRxns k .. => k
  | .parseRxnsRules k .. => k

theorem mkId_inj (rule : String) (a b : Nat) (h : mkId rule a = mkId rule b) : a = b := by
  unfold mkId at h
  have h2 := (String.append_right_inj _).mp h
  exact Nat.repr_injective h2

theorem firstFreeAux_spec (rule : String) : ∀ (fuel : Nat) (ids : List String) (c : Nat),
    ids.length < fuel →
    mkId rule (firstFreeAux fuel ids rule c) ∉ ids ∧ c ≤ firstFreeAux fuel ids rule c := by
  intro fuel
  induction fuel with
  | zero => intro ids c h; omega
  | succ fuel ih =>
    intro ids c h
    unfold firstFreeAux
    split
    · rename_i hm
      have hl : (ids.erase (mkId rule c)).length < fuel := by
        rw [List.length_erase_of_mem hm]
        have : 0 < ids.length := List.length_pos_of_mem hm
        omega
      obtain ⟨h1, h2⟩ := ih (ids.erase (mkId rule c)) (c + 1) hl
      refine ⟨?_, by omega⟩
      intro hmem
      apply h1
      refine (List.mem_erase_of_ne ?_).2 hmem
      intro heq
      have := mkId_inj _ _ _ heq
      omega
    · rename_i hm
      exact ⟨hm, Nat.le_refl _⟩

theorem firstFree_fresh' (ids : List String) (rule : String) (c : Nat) :
    mkId rule (firstFree ids rule c) ∉ ids :=
  (firstFreeAux_spec rule _ ids c (Nat.lt_succ_self _)).1

theorem step_frame' (w : World) (op : Op) (i : Nat) (h : i ≠ op.target) :
    (step w op).1[i]? = w[i]? := by
  cases op <;> simp only [Op.target] at h <;> unfold step <;> simp only [World.put] <;>
    (repeat' split) <;> simp [List.getElem?_set_ne (Ne.symm h)]

/-! ### General `Dict` lemmas -/

theorem getD_set_self {α} (d : Dict α) (k : String) (v dflt : α) : (d.set k v).getD k dflt = v := by
  simp [Dict.getD, Dict.get?_set_self]

theorem getD_set_other {α} (d : Dict α) (k : String) (v dflt : α) (x : String) (hx : x ≠ k) :
    (d.set k v).getD x dflt = d.getD x dflt := by
  simp [Dict.getD, Dict.get?_set_other _ _ _ _ hx]

theorem getD_erase_self {α} (d : Dict α) (k : String) (dflt : α) : (d.erase k).getD k dflt = dflt := by
  simp [Dict.getD, Dict.get?_erase_self]

theorem getD_erase_other {α} (d : Dict α) (k : String) (dflt : α) (x : String) (hx : x ≠ k) :
    (d.erase k).getD x dflt = d.getD x dflt := by
  simp [Dict.getD, Dict.get?_erase_other _ _ _ hx]

theorem keys_set {α} (d : Dict α) (k : String) (v : α) :
    (d.set k v).keys = if k ∈ d.keys then d.keys else d.keys ++ [k] := by
  induction d with
  | nil => simp [Dict.set, Dict.keys]
  | cons p rest ih =>
    obtain ⟨k', v'⟩ := p
    simp only [Dict.set]
    by_cases h : k' = k
    · subst h; simp [Dict.keys]
    · simp only [h, if_false]
      simp only [Dict.keys, List.map_cons, List.mem_cons] at ih ⊢
      rw [ih]
      have : ¬ k = k' := fun h' => h h'.symm
      simp only [this, false_or]
      split <;> simp [*]

theorem nodup_keys_set {α} (d : Dict α) (k : String) (v : α) (h : d.keys.Nodup) :
    (d.set k v).keys.Nodup := by
  rw [keys_set]
  split
  · exact h
  · rename_i hk
    rw [List.nodup_append]
    refine ⟨h, by simp, ?_⟩
    intro a ha b hb
    simp only [List.mem_singleton] at hb
    subst hb
    intro hab; subst hab; exact hk ha

theorem nodup_keys_erase {α} (d : Dict α) (k : String) (h : d.keys.Nodup) :
    (d.erase k).keys.Nodup :=
  List.Nodup.sublist ((Dict.erase_sublist d k).map _) h

theorem erase_of_not_mem {α} (d : Dict α) (k : String) (h : k ∉ d.keys) : d.erase k = d := by
  induction d with
  | nil => rfl
  | cons p rest ih =>
    obtain ⟨k', v'⟩ := p
    simp only [Dict.keys, List.map_cons, List.mem_cons, not_or] at h
    simp only [Dict.erase]
    have : ¬ k' = k := fun h' => h.1 h'.symm
    simp only [this, if_false]
    rw [ih h.2]

theorem isEmpty_false_of_mem_keys {α} (d : Dict α) (k : String) (h : k ∈ d.keys) :
    d.isEmpty = false := by
  cases d with
  | nil => simp [Dict.keys] at h
  | cons _ _ => rfl

/-! ### Incidence -/

theorem foldl_acc_getD (op : Int → Nat → Int) (d : Dict Nat) (hn : d.keys.Nodup) (sp : String) :
    ∀ (m : Dict Int),
    (d.foldl (fun (m : Dict Int) kv => m.set kv.1 (op (m.getD kv.1 0) kv.2)) m).getD sp 0 =
      match d.get? sp with
      | some v => op (m.getD sp 0) v
      | none => m.getD sp 0 := by
  induction d with
  | nil => intro m; simp [Dict.get?]
  | cons p rest ih =>
    obtain ⟨k, v⟩ := p
    intro m
    simp only [Dict.keys, List.map_cons, List.nodup_cons] at hn
    simp only [List.foldl_cons]
    rw [ih hn.2]
    simp only [Dict.get?]
    by_cases hk : k = sp
    · subst hk
      have : Dict.get? rest k = none := (Dict.get?_eq_none_iff rest k).2 hn.1
      simp [this, getD_set_self]
    · have hk' : sp ≠ k := fun h => hk h.symm
      simp only [hk, if_false, getD_set_other _ _ _ _ _ hk']

theorem incidence_spec' (e : Edge) (hr : e.reactants.keys.Nodup) (hp : e.products.keys.Nodup)
    (sp : String) :
    (incidenceEdge e).getD sp 0 = coeff e.products sp - coeff e.reactants sp := by
  unfold incidenceEdge
  simp only []
  rw [foldl_acc_getD (fun a b => a + (b : Int)) e.products hp sp]
  rw [foldl_acc_getD (fun a b => a - (b : Int)) e.reactants hr sp]
  simp only [coeff, Dict.getD]
  cases e.products.get? sp <;> cases e.reactants.get? sp <;> simp [Dict.get?] <;> omega

/-! ### Lookup lemmas -/

@[simp] theorem nextId_edges (s : Store) (rule : String) : (s.nextId rule).1.edges = s.edges := rfl
@[simp] theorem nextId_ids (s : Store) (rule : String) : (s.nextId rule).1.ids = s.ids := rfl

theorem nextId_fresh (s : Store) (rule : String) : (s.nextId rule).2 ∉ s.ids :=
  firstFree_fresh' _ _ _

theorem findEdge_insertEdge_other (s : Store) (e : Edge) (j : String) (h : j ≠ e.id) :
    (s.insertEdge e).findEdge j = s.findEdge j := by
  simp [Store.findEdge, Store.insertEdge, List.find?_append, Ne.symm h]

theorem findEdge_eq_none_of_not_mem (s : Store) (i : String) (h : i ∉ s.ids) :
    s.findEdge i = none := by
  simp only [Store.findEdge, List.find?_eq_none, decide_eq_true_eq]
  intro e he heq
  exact h (heq ▸ List.mem_map.2 ⟨e, he, rfl⟩)

theorem findEdge_insertEdge_self (s : Store) (e : Edge) (h : e.id ∉ s.ids) :
    (s.insertEdge e).findEdge e.id = some e := by
  have := findEdge_eq_none_of_not_mem s e.id h
  simp only [Store.findEdge] at this
  simp [Store.findEdge, Store.insertEdge, List.find?_append, this]

theorem addNorm_ok (s s' : Store) (r p : Side) (rule eid i)
    (h : s.addNorm r p rule eid = (s', .ok i)) :
    i ∉ s.ids ∧ (r.isEmpty && p.isEmpty) = false ∧
      ∃ s0 : Store, s0.edges = s.edges ∧ s0.species = s.species ∧ s0.inIdx = s.inIdx ∧
        s0.outIdx = s.outIdx ∧ s0.mol = s.mol ∧ s0.kept = s.kept ∧
        s' = s0.insertEdge ⟨i, normRule rule, r, p⟩ := by
  unfold Store.addNorm at h
  cases eid with
  | some i0 =>
    simp only at h
    split at h
    · simp at h
    · split at h
      · simp at h
      · rename_i h1 h2
        simp only [Prod.mk.injEq, Except.ok.injEq] at h
        obtain ⟨h3, h4⟩ := h
        subst h4
        exact ⟨h1, by simpa using h2, s, rfl, rfl, rfl, rfl, rfl, rfl, h3.symm⟩
  | none =>
    simp only at h
    split at h
    · simp at h
    · rename_i h2
      simp only [Prod.mk.injEq, Except.ok.injEq] at h
      obtain ⟨h3, h4⟩ := h
      subst h4
      exact ⟨nextId_fresh s _, by simpa using h2, (s.nextId (normRule rule)).1,
        rfl, rfl, rfl, rfl, rfl, rfl, h3.symm⟩

theorem addNorm_err_edges (s s' : Store) (r p : Side) (rule eid err)
    (h : s.addNorm r p rule eid = (s', .error err)) : s'.edges = s.edges := by
  unfold Store.addNorm at h
  cases eid with
  | some i0 =>
    simp only at h
    split at h
    · simp only [Prod.mk.injEq] at h; rw [← h.1]
    · split at h
      · simp only [Prod.mk.injEq] at h; rw [← h.1]
      · simp at h
  | none =>
    simp only at h
    split at h
    · simp only [Prod.mk.injEq] at h; rw [← h.1]; rfl
    · simp at h

theorem add_lookup_self' (s s' : Store) (r p rule eid i) (hinv : s.Inv)
    (h : s.add r p rule eid = (s', .ok i)) :
    s'.findEdge i = some ⟨i, normRule rule, normSide r, normSide p⟩ ∧ i ∉ s.ids := by
  have _ := hinv
  obtain ⟨h1, _, s0, he, _, _, _, _, _, hs'⟩ := addNorm_ok _ _ _ _ _ _ _ h
  refine ⟨?_, h1⟩
  subst hs'
  have : i ∉ s0.ids := by simpa [Store.ids, he] using h1
  exact findEdge_insertEdge_self s0 ⟨i, normRule rule, normSide r, normSide p⟩ this

theorem add_lookup_other' (s s' : Store) (r p rule eid res) (j : String)
    (h : s.add r p rule eid = (s', res)) (hj : ∀ i, res = .ok i → j ≠ i) :
    s'.findEdge j = s.findEdge j := by
  cases res with
  | ok i =>
    obtain ⟨h1, _, s0, he, _, _, _, _, _, hs'⟩ := addNorm_ok _ _ _ _ _ _ _ h
    subst hs'
    rw [findEdge_insertEdge_other _ _ _ (hj i rfl)]
    simp [Store.findEdge, he]
  | error err =>
    have := addNorm_err_edges _ _ _ _ _ _ _ h
    simp [Store.findEdge, this]

theorem find?_congr' {α} (l : List α) (p q : α → Bool) (h : ∀ x ∈ l, p x = q x) :
    l.find? p = l.find? q := by
  induction l with
  | nil => rfl
  | cons a l ih =>
    simp only [List.find?_cons, h a (List.mem_cons_self ..)]
    rw [ih (fun x hx => h x (List.mem_cons_of_mem _ hx))]

theorem foldl_dropIfOrphan_edges (l : List String) : ∀ (s : Store),
    (l.foldl Store.dropIfOrphan s).edges = s.edges := by
  induction l with
  | nil => intro s; rfl
  | cons a l ih =>
    intro s
    simp only [List.foldl_cons, ih]
    unfold Store.dropIfOrphan
    split <;> rfl

theorem remove_lookup' (s s' : Store) (i : String) (res) (h : s.remove i = (s', res)) :
    (∀ j, j ≠ i → s'.findEdge j = s.findEdge j) ∧ (res = .ok () → s'.findEdge i = none) := by
  unfold Store.remove at h
  split at h
  · rename_i hf
    simp only [Prod.mk.injEq] at h
    obtain ⟨h1, h2⟩ := h
    subst h1; subst h2
    exact ⟨fun _ _ => rfl, by simp⟩
  · rename_i e hf
    simp only [Prod.mk.injEq] at h
    obtain ⟨h1, h2⟩ := h
    subst h1
    simp only [Store.findEdge, foldl_dropIfOrphan_edges]
    constructor
    · intro j hj
      rw [List.find?_filter]
      apply find?_congr'
      intro x _
      by_cases hx : x.id = j
      · simp [hx, hj]
      · simp [hx]
    · intro _
      simp [List.find?_eq_none]

/-! ### Index and set folds -/

theorem mem_idxAdd (sps : List String) (id sp i : String) : ∀ (idx : Dict (List String)),
    i ∈ (idxAdd idx sps id).getD sp [] ↔ i ∈ idx.getD sp [] ∨ (i = id ∧ sp ∈ sps) := by
  induction sps with
  | nil => intro idx; simp [idxAdd]
  | cons a rest ih =>
    intro idx
    have := ih (idx.set a (setAdd (idx.getD a []) id))
    simp only [idxAdd, List.foldl_cons] at this ⊢
    rw [this]
    by_cases h : sp = a
    · subst h
      rw [getD_set_self, mem_setAdd]
      simp only [List.mem_cons, true_or, and_true]
      constructor
      · rintro ((h | h) | h)
        · exact Or.inl h
        · exact Or.inr h
        · exact Or.inr h.1
      · rintro (h | h)
        · exact Or.inl (Or.inl h)
        · exact Or.inl (Or.inr h)
    · rw [getD_set_other _ _ _ _ _ h]
      simp [h]

theorem mem_idxDiscard (sps : List String) (id sp i : String) : ∀ (idx : Dict (List String)),
    i ∈ (idxDiscard idx sps id).getD sp [] ↔ i ∈ idx.getD sp [] ∧ ¬(i = id ∧ sp ∈ sps) := by
  induction sps with
  | nil => intro idx; simp [idxDiscard]
  | cons a rest ih =>
    intro idx
    have := ih (idx.set a (setDiscard (idx.getD a []) id))
    simp only [idxDiscard, List.foldl_cons] at this ⊢
    rw [this]
    by_cases h : sp = a
    · subst h
      rw [getD_set_self, mem_setDiscard]
      simp only [List.mem_cons, true_or, and_true]
      constructor
      · rintro ⟨⟨h1, h2⟩, _⟩
        exact ⟨h1, h2⟩
      · rintro ⟨h1, h2⟩
        exact ⟨⟨h1, h2⟩, fun h => h2 h.1⟩
    · rw [getD_set_other _ _ _ _ _ h]
      simp [h]

theorem getD_idxTouch (sps : List String) (sp : String) : ∀ (idx : Dict (List String)),
    (idxTouch idx sps).getD sp [] = idx.getD sp [] := by
  induction sps with
  | nil => intro idx; rfl
  | cons a rest ih =>
    intro idx
    simp only [idxTouch, List.foldl_cons]
    have := ih (if idx.contains a then idx else idx.set a [])
    simp only [idxTouch] at this
    rw [this]
    split
    · rfl
    · rename_i hc
      by_cases h : sp = a
      · subst h
        rw [getD_set_self]
        simp only [Dict.contains, decide_eq_true_eq] at hc
        simp [Dict.getD, (Dict.get?_eq_none_iff idx sp).2 hc]
      · rw [getD_set_other _ _ _ _ _ h]

theorem mem_foldl_setAdd (l : List String) (x : String) : ∀ (S : List String),
    x ∈ l.foldl setAdd S ↔ x ∈ S ∨ x ∈ l := by
  induction l with
  | nil => intro S; simp
  | cons a l ih =>
    intro S
    simp only [List.foldl_cons, ih, mem_setAdd, List.mem_cons]
    constructor
    · rintro ((h | h) | h)
      · exact Or.inl h
      · exact Or.inr (Or.inl h)
      · exact Or.inr (Or.inr h)
    · rintro (h | h | h)
      · exact Or.inl (Or.inl h)
      · exact Or.inl (Or.inr h)
      · exact Or.inr h

/-! ### Preservation of the invariant -/

theorem mem_speciesOf (e : Edge) (sp : String) :
    sp ∈ e.speciesOf ↔ sp ∈ e.reactants.keys ∨ sp ∈ e.products.keys := by
  simp [Edge.speciesOf]

theorem inj_of_nodup_map {α β} (f : α → β) (l : List α) (h : (l.map f).Nodup) :
    ∀ x ∈ l, ∀ y ∈ l, f x = f y → x = y := by
  induction l with
  | nil => intro x hx; simp at hx
  | cons a l ih =>
    simp only [List.map_cons, List.nodup_cons, List.mem_map, not_exists, not_and] at h
    intro x hx y hy hxy
    simp only [List.mem_cons] at hx hy
    rcases hx with rfl | hx <;> rcases hy with rfl | hy
    · rfl
    · exact absurd hxy.symm (h.1 y hy)
    · exact absurd hxy (h.1 x hx)
    · exact ih h.2 x hx y hy hxy

theorem Store.Inv.edge_unique {s : Store} (h : s.Inv) {e1 e2 : Edge} (h1 : e1 ∈ s.edges)
    (h2 : e2 ∈ s.edges) (heq : e1.id = e2.id) : e1 = e2 :=
  inj_of_nodup_map (fun e : Edge => e.id) s.edges h.ids_nodup e1 h1 e2 h2 heq

/-- Only `counters` differs. -/
theorem Store.Inv.of_fields_eq {s s0 : Store} (h : s.Inv) (h1 : s0.edges = s.edges)
    (h2 : s0.species = s.species) (h3 : s0.inIdx = s.inIdx) (h4 : s0.outIdx = s.outIdx)
    (h5 : s0.mol = s.mol) (h6 : s0.kept = s.kept) : s0.Inv := by
  obtain ⟨a, b, c, d, e, f, g⟩ := h
  constructor
  · simpa [Store.ids, h1] using a
  · simpa [h1, h2, h6] using b
  · simpa [h1, h3] using c
  · simpa [h1, h4] using d
  · simpa [h2, h5] using e
  · simpa [h1] using f
  · simpa [h1] using g

theorem insertEdge_inv (s : Store) (e : Edge) (h : s.Inv) (hid : e.id ∉ s.ids)
    (hr : e.reactants.keys.Nodup) (hp : e.products.keys.Nodup) (hne : e.isEmpty = false) :
    (s.insertEdge e).Inv := by
  constructor
  · show ((s.edges ++ [e]).map (·.id)).Nodup
    rw [List.map_append, List.nodup_append]
    refine ⟨h.ids_nodup, by simp, ?_⟩
    intro a ha b hb
    simp only [List.map_cons, List.map_nil, List.mem_singleton] at hb
    subst hb
    intro hab; subst hab; exact hid ha
  · intro sp
    show sp ∈ e.speciesOf.foldl setAdd s.species ↔ (∃ e' ∈ s.edges ++ [e], sp ∈ e'.speciesOf) ∨ sp ∈ s.kept
    rw [mem_foldl_setAdd, h.species_iff]
    simp only [List.mem_append, List.mem_singleton]
    constructor
    · rintro ((⟨e', he', hs⟩ | hk) | he)
      · exact Or.inl ⟨e', Or.inl he', hs⟩
      · exact Or.inr hk
      · exact Or.inl ⟨e, Or.inr rfl, he⟩
    · rintro (⟨e', he' | he', hs⟩ | hk)
      · exact Or.inl (Or.inl ⟨e', he', hs⟩)
      · subst he'; exact Or.inr hs
      · exact Or.inl (Or.inr hk)
  · intro sp i
    show i ∈ (idxAdd (idxTouch s.inIdx e.speciesOf) e.products.keys e.id).getD sp [] ↔
      ∃ e' ∈ s.edges ++ [e], e'.id = i ∧ sp ∈ e'.products.keys
    rw [mem_idxAdd, getD_idxTouch, h.in_iff]
    simp only [List.mem_append, List.mem_singleton]
    constructor
    · rintro (⟨e', he', hs⟩ | ⟨h1, h2⟩)
      · exact ⟨e', Or.inl he', hs⟩
      · exact ⟨e, Or.inr rfl, h1.symm, h2⟩
    · rintro ⟨e', he' | he', hs⟩
      · exact Or.inl ⟨e', he', hs⟩
      · subst he'; exact Or.inr ⟨hs.1.symm, hs.2⟩
  · intro sp i
    show i ∈ (idxAdd (idxTouch s.outIdx e.speciesOf) e.reactants.keys e.id).getD sp [] ↔
      ∃ e' ∈ s.edges ++ [e], e'.id = i ∧ sp ∈ e'.reactants.keys
    rw [mem_idxAdd, getD_idxTouch, h.out_iff]
    simp only [List.mem_append, List.mem_singleton]
    constructor
    · rintro (⟨e', he', hs⟩ | ⟨h1, h2⟩)
      · exact ⟨e', Or.inl he', hs⟩
      · exact ⟨e, Or.inr rfl, h1.symm, h2⟩
    · rintro ⟨e', he' | he', hs⟩
      · exact Or.inl ⟨e', he', hs⟩
      · subst he'; exact Or.inr ⟨hs.1.symm, hs.2⟩
  · intro sp hsp
    show sp ∈ e.speciesOf.foldl setAdd s.species
    rw [mem_foldl_setAdd]
    exact Or.inl (h.mol_sub sp hsp)
  · intro e' he'
    have he' : e' ∈ s.edges ++ [e] := he'
    simp only [List.mem_append, List.mem_singleton] at he'
    rcases he' with he' | he'
    · exact h.sides_wf e' he'
    · subst he'; exact ⟨hr, hp⟩
  · intro e' he'
    have he' : e' ∈ s.edges ++ [e] := he'
    simp only [List.mem_append, List.mem_singleton] at he'
    rcases he' with he' | he'
    · exact h.nonempty e' he'
    · subst he'; exact hne

theorem addNorm_inv (s : Store) (r p : Side) (rule eid) (h : s.Inv)
    (hr : r.keys.Nodup) (hp : p.keys.Nodup) : (s.addNorm r p rule eid).1.Inv := by
  rcases hres : s.addNorm r p rule eid with ⟨s', res⟩
  cases res with
  | ok i =>
    obtain ⟨h1, h2, s0, e1, e2, e3, e4, e5, e6, hs'⟩ := addNorm_ok _ _ _ _ _ _ _ hres
    subst hs'
    have h0 : s0.Inv := h.of_fields_eq e1 e2 e3 e4 e5 e6
    apply insertEdge_inv s0 _ h0
    · simpa [Store.ids, e1] using h1
    · exact hr
    · exact hp
    · exact h2
  | error err =>
    unfold Store.addNorm at hres
    cases eid with
    | some i0 =>
      simp only at hres
      split at hres
      · simp only [Prod.mk.injEq] at hres; rw [← hres.1]; exact h
      · split at hres
        · simp only [Prod.mk.injEq] at hres; rw [← hres.1]; exact h
        · simp at hres
    | none =>
      simp only at hres
      split at hres
      · simp only [Prod.mk.injEq] at hres; rw [← hres.1]
        exact h.of_fields_eq rfl rfl rfl rfl rfl rfl
      · simp at hres

theorem normSide_nodup (raw : List (String × Int)) : (normSide raw).keys.Nodup := by
  unfold normSide
  suffices ∀ (out : Side), out.keys.Nodup →
      (raw.foldl (fun out kv => if kv.2 > 0 then out.set kv.1 (out.getD kv.1 0 + kv.2.toNat) else out) out).keys.Nodup by
    exact this [] (by simp [Dict.keys])
  induction raw with
  | nil => intro out h; exact h
  | cons a raw ih =>
    intro out h
    simp only [List.foldl_cons]
    apply ih
    split
    · exact nodup_keys_set _ _ _ h
    · exact h

/-- What one raw `(species, count)` entry contributes to the coefficient of `sp`. -/
def rawContrib (sp : String) (kv : String × Int) : Nat :=
  if kv.1 = sp ∧ kv.2 > 0 then kv.2.toNat else 0

/-- What one element of a non-mapping side input contributes to the coefficient of `sp`:
a pair its count when positive, a non-empty label one. -/
def itemContrib (sp : String) : SideItem → Nat
  | .pair s c => if s = sp ∧ c > 0 then c.toNat else 0
  | .label s => if s = sp ∧ s ≠ "" then 1 else 0

theorem normSide_foldl_getD (raw : List (String × Int)) (sp : String) : ∀ out : Side,
    (raw.foldl (fun out kv => if kv.2 > 0 then out.set kv.1 (out.getD kv.1 0 + kv.2.toNat) else out)
      out).getD sp 0 = out.getD sp 0 + (raw.map (rawContrib sp)).sum := by
  induction raw with
  | nil => intro out; simp
  | cons kv rest ih =>
    intro out
    simp only [List.foldl_cons, List.map_cons, List.sum_cons]
    rw [ih]
    by_cases hc : kv.2 > 0
    · by_cases hk : kv.1 = sp
      · subst hk
        simp only [rawContrib, hc, and_self, if_true, getD_set_self]
        omega
      · have hk' : sp ≠ kv.1 := fun h => hk h.symm
        simp only [if_pos hc, rawContrib, hk, false_and, if_false, getD_set_other _ _ _ _ _ hk']
        omega
    · simp only [rawContrib, hc, and_false, if_false]
      omega

/-- The normalised side is the multiset the raw input spells: the coefficient of a species is
the sum of its positive counts. -/
theorem normSide_coeff (raw : List (String × Int)) (sp : String) :
    (normSide raw).getD sp 0 = (raw.map (rawContrib sp)).sum := by
  unfold normSide
  rw [normSide_foldl_getD]
  simp [Dict.getD, Dict.get?]

theorem rawOfItems_contrib (items : List SideItem) (sp : String) :
    ((rawOfItems items).map (rawContrib sp)).sum = (items.map (itemContrib sp)).sum := by
  induction items with
  | nil => rfl
  | cons it rest ih =>
    cases it with
    | pair s c =>
      simp only [rawOfItems, List.filterMap_cons, List.map_cons, List.sum_cons] at ih ⊢
      rw [ih]
      simp [rawContrib, itemContrib]
    | label s =>
      simp only [rawOfItems, List.filterMap_cons, List.map_cons, List.sum_cons] at ih ⊢
      by_cases hs : s = ""
      · simp only [hs, if_true] at ih ⊢
        rw [ih]
        simp [itemContrib]
      · simp only [hs, if_false, List.map_cons, List.sum_cons] at ih ⊢
        rw [ih]
        by_cases h2 : s = sp
        · subst h2; simp [rawContrib, itemContrib, hs]
        · simp [rawContrib, itemContrib, h2]

theorem add_inv (s : Store) (r p rule eid) (h : s.Inv) : (s.add r p rule eid).1.Inv :=
  addNorm_inv s _ _ rule eid h (normSide_nodup r) (normSide_nodup p)

theorem merge_inv (other : List Edge) (pfx : Bool) : ∀ (s : Store), s.Inv →
    (∀ e ∈ other, e.reactants.keys.Nodup ∧ e.products.keys.Nodup) → (s.merge other pfx).1.Inv := by
  induction other with
  | nil => intro s h _; exact h
  | cons e rest ih =>
    intro s h hw
    unfold Store.merge
    have hs1 : (if pfx || e.id ∈ s.ids then s.nextId e.rule else (s, e.id)).1.Inv := by
      split
      · exact h.of_fields_eq rfl rfl rfl rfl rfl rfl
      · exact h
    rcases hh : (if pfx || e.id ∈ s.ids then s.nextId e.rule else (s, e.id)) with ⟨s1, newId⟩
    rw [hh] at hs1
    simp only
    have h2 := addNorm_inv s1 e.reactants e.products (some e.rule) (some newId) hs1
      (hw e (List.mem_cons_self ..)).1 (hw e (List.mem_cons_self ..)).2
    split
    · rename_i s2 _ heq
      rw [heq] at h2
      exact ih s2 h2 (fun e' he' => hw e' (List.mem_cons_of_mem _ he'))
    · rename_i s2 err heq
      rw [heq] at h2
      exact h2

/-- `merge` with a foreign `other` keeps the invariant, whatever the foreign edges look like
(missing / duplicated / clashing ids, empty rule, sides in any accepted form). -/
theorem mergeForeign_inv (other : List FEdge) (pfx : Bool) : ∀ (s : Store), s.Inv →
    (s.mergeForeign other pfx).1.Inv := by
  induction other with
  | nil => intro s h; exact h
  | cons e rest ih =>
    intro s h
    unfold Store.mergeForeign
    have h1 := merge_inv [e.toEdge] (pfx || e.id.isNone) s h (by
      intro e' he'
      simp only [List.mem_singleton] at he'
      subst he'
      exact ⟨normSide_nodup _, normSide_nodup _⟩)
    split
    · rename_i s1 _ heq
      rw [heq] at h1
      exact ih s1 h1
    · rename_i s1 err heq
      rw [heq] at h1
      exact h1

/-- What a successful `merge` does to the reaction table: the old reactions are untouched and
one reaction per reaction of the other network is appended, with that reaction's rule and
stoichiometry (under an id that `Inv` guarantees to be fresh). -/
theorem merge_edges' (other : List Edge) (pfx : Bool) : ∀ (s s' : Store),
    s.merge other pfx = (s', .ok ()) →
    ∃ added : List Edge, s'.edges = s.edges ++ added ∧
      added.map (fun e => (e.rule, e.reactants, e.products)) =
        other.map (fun e => (normRule (some e.rule), e.reactants, e.products)) := by
  induction other with
  | nil =>
    intro s s' h
    simp only [Store.merge, Prod.mk.injEq] at h
    exact ⟨[], by simp [h.1], rfl⟩
  | cons e rest ih =>
    intro s s' h
    unfold Store.merge at h
    rcases hh : (if pfx || e.id ∈ s.ids then s.nextId e.rule else (s, e.id)) with ⟨s1, newId⟩
    have hs1 : s1.edges = s.edges := by
      have : s1 = (if pfx || e.id ∈ s.ids then s.nextId e.rule else (s, e.id)).1 := by rw [hh]
      rw [this]; split <;> rfl
    rw [hh] at h
    simp only at h
    split at h
    · rename_i s2 i heq
      obtain ⟨_, _, s0, h0, _, _, _, _, _, h2⟩ := addNorm_ok _ _ _ _ _ _ _ heq
      obtain ⟨added, ha, hb⟩ := ih s2 s' h
      refine ⟨⟨i, normRule (some e.rule), e.reactants, e.products⟩ :: added, ?_, ?_⟩
      · rw [ha, h2]; simp [Store.insertEdge, h0, hs1]
      · simp [hb]
    · simp at h

/-- What a successful `merge` of a foreign object does to the reaction table: one reaction per
foreign edge is appended, with that edge's rule (`""` becomes `"r"`) and its normalised sides. -/
theorem mergeForeign_edges' (other : List FEdge) (pfx : Bool) : ∀ (s s' : Store),
    s.mergeForeign other pfx = (s', .ok ()) →
    ∃ added : List Edge, s'.edges = s.edges ++ added ∧
      added.map (fun e => (e.rule, e.reactants, e.products)) =
        other.map (fun e => (normRule (some e.rule), normSide (rawOfItems e.reactants),
          normSide (rawOfItems e.products))) := by
  induction other with
  | nil =>
    intro s s' h
    simp only [Store.mergeForeign, Prod.mk.injEq] at h
    exact ⟨[], by simp [h.1], rfl⟩
  | cons e rest ih =>
    intro s s' h
    unfold Store.mergeForeign at h
    split at h
    · rename_i s1 u heq
      have hu : u = () := rfl
      subst hu
      obtain ⟨a1, ha1, hb1⟩ := merge_edges' [e.toEdge] (pfx || e.id.isNone) s s1 heq
      obtain ⟨a2, ha2, hb2⟩ := ih s1 s' h
      refine ⟨a1 ++ a2, ?_, ?_⟩
      · rw [ha2, ha1, List.append_assoc]
      · rw [List.map_append, hb1, hb2]
        simp [FEdge.toEdge]
    · simp at h

theorem assignMol_inv (s : Store) (sp m : String) (h : s.Inv) : (s.assignMol sp m).1.Inv := by
  unfold Store.assignMol
  split
  · rename_i hsp
    obtain ⟨a, b, c, d, e, f, g⟩ := h
    refine ⟨a, b, c, d, ?_, f, g⟩
    intro sp' hsp'
    have hsp' : sp' ∈ (s.mol.set sp m).keys := hsp'
    rw [Dict.mem_keys_set] at hsp'
    rcases hsp' with h1 | h1
    · exact e sp' h1
    · subst h1; exact hsp
  · exact h

theorem setMolMap_fold_keys (species : List String) (mapping : List (String × String)) (base : Dict String)
    (hb : ∀ sp ∈ base.keys, sp ∈ species) :
    ∀ sp ∈ (mapping.foldl (fun m kv => if kv.1 ∈ species then m.set kv.1 kv.2 else m) base).keys,
      sp ∈ species := by
  induction mapping generalizing base with
  | nil => simpa using hb
  | cons kv rest ih =>
    simp only [List.foldl_cons]
    apply ih
    split
    · rename_i hk
      intro sp hsp
      rw [Dict.mem_keys_set] at hsp
      rcases hsp with h1 | h1
      · exact hb sp h1
      · subst h1; exact hk
    · exact hb

theorem setMolMap_inv (s : Store) (mapping : List (String × String)) (strict clear : Bool) (h : s.Inv) :
    (s.setMolMap mapping strict clear).1.Inv := by
  unfold Store.setMolMap
  split
  · exact h
  · obtain ⟨a, b, c, d, e, f, g⟩ := h
    refine ⟨a, b, c, d, ?_, f, g⟩
    apply setMolMap_fold_keys
    split
    · intro sp hsp; simp [Dict.keys] at hsp
    · exact e

/-! ### String entry points: the parsed sides are dicts -/

theorem accum_nodup (out : Side) (k : String) (c : Nat) (h : out.keys.Nodup) :
    (Views.accum out k c).keys.Nodup := nodup_keys_set _ _ _ h

/-- Every successful `parsePart` leaves the accumulator alone or does one `accum`. -/
theorem parsePart_shape (out o : Side) (part : List Char) (h : Views.parsePart out part = .ok o) :
    o = out ∨ ∃ k c, o = Views.accum out k c := by
  unfold Views.parsePart at h
  simp only at h
  split at h
  · simp at h
  · split at h
    · split at h
      · simp only [Except.ok.injEq] at h; subst h
        split
        · exact Or.inr ⟨_, _, rfl⟩
        · exact Or.inl rfl
      · simp only [Except.ok.injEq] at h; subst h; exact Or.inr ⟨_, _, rfl⟩
    · simp only [Except.ok.injEq] at h; subst h; exact Or.inr ⟨_, _, rfl⟩
  · split at h
    · split at h
      · simp only [Except.ok.injEq] at h; subst h; exact Or.inr ⟨_, _, rfl⟩
      · simp only [Except.ok.injEq] at h; subst h; exact Or.inl rfl
    · simp only [Except.ok.injEq] at h; subst h; exact Or.inr ⟨_, _, rfl⟩

theorem parseParts_nodup (parts : List (List Char)) : ∀ (out o : Side), out.keys.Nodup →
    Views.parseParts out parts = .ok o → o.keys.Nodup := by
  induction parts with
  | nil =>
    intro out o h hp
    simp only [Views.parseParts, Except.ok.injEq] at hp
    subst hp; exact h
  | cons p ps ih =>
    intro out o h hp
    unfold Views.parseParts at hp
    split at hp
    · rename_i o1 h1
      apply ih o1 o _ hp
      rcases parsePart_shape _ _ _ h1 with rfl | ⟨k, c, rfl⟩
      · exact h
      · exact accum_nodup _ _ _ h
    · simp at hp

/-- `RXNSide.from_str` returns a dict (no species twice). -/
theorem parseSide_nodup (t : List Char) (m : Side) (h : Views.parseSide t = .ok m) :
    m.keys.Nodup := by
  unfold Views.parseSide at h
  simp only at h
  split at h
  · simp only [Except.ok.injEq] at h; subst h; simp [Dict.keys]
  · exact parseParts_nodup _ [] m (by simp [Dict.keys]) h

theorem parseLine_nodup (rule : Option String) (sfx : Bool) (line : List Char) (pl : Views.ParsedLine)
    (h : Views.parseLine rule sfx line = .ok pl) :
    pl.reactants.keys.Nodup ∧ pl.products.keys.Nodup := by
  unfold Views.parseLine at h
  simp only at h
  split at h
  · simp at h
  · split at h
    · simp at h
    · rename_i rs hrs
      split at h
      · simp at h
      · rename_i ps hps
        simp only [Except.ok.injEq] at h
        subst h
        exact ⟨parseSide_nodup _ _ hrs, parseSide_nodup _ _ hps⟩

theorem addFromStr_inv (s : Store) (line : List Char) (rule : Option String) (sfx : Bool)
    (h : s.Inv) : (s.addFromStr line rule sfx).1.Inv := by
  unfold Store.addFromStr
  split
  · exact h
  · rename_i pl hpl
    obtain ⟨hr, hp⟩ := parseLine_nodup _ _ _ _ hpl
    exact addNorm_inv s _ _ pl.rule none h hr hp

theorem parseRxns_inv (items : List (List Char × Option String)) (dr : String) (sfx pref : Bool) :
    ∀ (s : Store), s.Inv → (s.parseRxns items dr sfx pref).1.Inv := by
  induction items with
  | nil => intro s h; exact h
  | cons it rest ih =>
    intro s h
    obtain ⟨line, ex⟩ := it
    unfold Store.parseRxns
    have h1 := addFromStr_inv s line (lineArgs dr sfx pref line ex).1 (lineArgs dr sfx pref line ex).2 h
    simp only
    split
    · rename_i s1 _ heq
      rw [heq] at h1
      exact ih s1 h1
    · rename_i s1 e heq
      rw [heq] at h1
      exact h1

theorem parseRxnsRules_inv (s : Store) (lines : List (List Char)) (rules : List (Option String))
    (dr : String) (sfx pref : Bool) (h : s.Inv) :
    (s.parseRxnsRules lines rules dr sfx pref).1.Inv := by
  unfold Store.parseRxnsRules
  split
  · exact h
  · exact parseRxns_inv _ dr sfx pref s h

/-! ### `remove` and `removeSpecies`: invariant with pending orphan checks -/

/-- `Inv` where `species` may additionally contain the species in `P` (whose orphan test is
still pending). -/
structure Store.InvP (s : Store) (P : List String) : Prop where
  ids_nodup : s.ids.Nodup
  sp_fwd : ∀ sp, sp ∈ s.species → (∃ e ∈ s.edges, sp ∈ e.speciesOf) ∨ sp ∈ s.kept ∨ sp ∈ P
  sp_bwd : ∀ sp, (∃ e ∈ s.edges, sp ∈ e.speciesOf) ∨ sp ∈ s.kept → sp ∈ s.species
  in_iff : ∀ sp i, i ∈ s.inIdx.getD sp [] ↔ ∃ e ∈ s.edges, e.id = i ∧ sp ∈ e.products.keys
  out_iff : ∀ sp i, i ∈ s.outIdx.getD sp [] ↔ ∃ e ∈ s.edges, e.id = i ∧ sp ∈ e.reactants.keys
  mol_sub : ∀ sp ∈ s.mol.keys, sp ∈ s.species
  sides_wf : ∀ e ∈ s.edges, e.reactants.keys.Nodup ∧ e.products.keys.Nodup
  nonempty : ∀ e ∈ s.edges, e.isEmpty = false

theorem Store.InvP.toInv {s : Store} (h : s.InvP []) : s.Inv := by
  obtain ⟨a, b, c, d, e, f, g, k⟩ := h
  refine ⟨a, ?_, d, e, f, g, k⟩
  intro sp
  constructor
  · intro hsp
    rcases b sp hsp with h1 | h1 | h1
    · exact Or.inl h1
    · exact Or.inr h1
    · simp at h1
  · exact c sp

theorem dropIfOrphan_invP (s : Store) (sp : String) (P : List String) (h : s.InvP (sp :: P)) :
    (s.dropIfOrphan sp).InvP P := by
  obtain ⟨a, b, c, d, e, f, g, k⟩ := h
  unfold Store.dropIfOrphan
  split
  · rename_i ht
    simp only [Bool.and_eq_true, List.isEmpty_iff] at ht
    obtain ⟨hin, hout⟩ := ht
    -- no edge mentions `sp`
    have hno : ∀ e' ∈ s.edges, sp ∉ e'.speciesOf := by
      intro e' he' hsp
      rw [mem_speciesOf] at hsp
      rcases hsp with hsp | hsp
      · have := (e sp e'.id).2 ⟨e', he', rfl, hsp⟩
        rw [hout] at this; simp at this
      · have := (d sp e'.id).2 ⟨e', he', rfl, hsp⟩
        rw [hin] at this; simp at this
    refine ⟨a, ?_, ?_, ?_, ?_, ?_, g, k⟩
    · intro sp' hsp'
      have hsp' : sp' ∈ setDiscard s.species sp := hsp'
      rw [mem_setDiscard] at hsp'
      rcases b sp' hsp'.1 with h1 | h1 | h1
      · exact Or.inl h1
      · exact Or.inr (Or.inl ((mem_setDiscard _ _ _).2 ⟨h1, hsp'.2⟩))
      · simp only [List.mem_cons] at h1
        rcases h1 with h1 | h1
        · exact absurd h1 hsp'.2
        · exact Or.inr (Or.inr h1)
    · intro sp' hsp'
      show sp' ∈ setDiscard s.species sp
      rw [mem_setDiscard]
      rcases hsp' with ⟨e', he', hs⟩ | hk
      · refine ⟨c sp' (Or.inl ⟨e', he', hs⟩), ?_⟩
        intro heq; subst heq; exact hno e' he' hs
      · have hk : sp' ∈ setDiscard s.kept sp := hk
        rw [mem_setDiscard] at hk
        exact ⟨c sp' (Or.inr hk.1), hk.2⟩
    · intro sp' i
      show i ∈ (s.inIdx.erase sp).getD sp' [] ↔ _
      by_cases hs : sp' = sp
      · subst hs
        rw [getD_erase_self]
        constructor
        · intro h; simp at h
        · rintro ⟨e', he', _, hs⟩
          exact absurd ((mem_speciesOf e' sp').2 (Or.inr hs)) (hno e' he')
      · rw [getD_erase_other _ _ _ _ hs]; exact d sp' i
    · intro sp' i
      show i ∈ (s.outIdx.erase sp).getD sp' [] ↔ _
      by_cases hs : sp' = sp
      · subst hs
        rw [getD_erase_self]
        constructor
        · intro h; simp at h
        · rintro ⟨e', he', _, hs⟩
          exact absurd ((mem_speciesOf e' sp').2 (Or.inl hs)) (hno e' he')
      · rw [getD_erase_other _ _ _ _ hs]; exact e sp' i
    · intro sp' hsp'
      have hsp' : sp' ∈ (s.mol.erase sp).keys := hsp'
      rw [Dict.mem_keys_erase] at hsp'
      show sp' ∈ setDiscard s.species sp
      rw [mem_setDiscard]
      exact ⟨f sp' hsp'.1, hsp'.2⟩
  · rename_i ht
    refine ⟨a, ?_, c, d, e, f, g, k⟩
    intro sp' hsp'
    rcases b sp' hsp' with h1 | h1 | h1
    · exact Or.inl h1
    · exact Or.inr (Or.inl h1)
    · simp only [List.mem_cons] at h1
      rcases h1 with h1 | h1
      · subst h1
        left
        simp only [Bool.and_eq_true, List.isEmpty_iff] at ht
        have ht : s.inIdx.getD sp' [] ≠ [] ∨ s.outIdx.getD sp' [] ≠ [] := by
          by_cases h1 : s.inIdx.getD sp' [] = []
          · exact Or.inr (fun h2 => ht ⟨h1, h2⟩)
          · exact Or.inl h1
        rcases ht with ht | ht
        · obtain ⟨i, hi⟩ := List.exists_mem_of_ne_nil _ ht
          obtain ⟨e', he', _, hs⟩ := (d sp' i).1 hi
          exact ⟨e', he', (mem_speciesOf e' sp').2 (Or.inr hs)⟩
        · obtain ⟨i, hi⟩ := List.exists_mem_of_ne_nil _ ht
          obtain ⟨e', he', _, hs⟩ := (e sp' i).1 hi
          exact ⟨e', he', (mem_speciesOf e' sp').2 (Or.inl hs)⟩
      · exact Or.inr (Or.inr h1)

theorem foldl_dropIfOrphan_inv (P : List String) : ∀ (s : Store), s.InvP P →
    (P.foldl Store.dropIfOrphan s).Inv := by
  induction P with
  | nil => intro s h; exact h.toInv
  | cons a P ih => intro s h; exact ih _ (dropIfOrphan_invP s a P h)

theorem findEdge_some (s : Store) (i : String) (e : Edge) (h : s.findEdge i = some e) :
    e ∈ s.edges ∧ e.id = i := by
  unfold Store.findEdge at h
  exact ⟨List.mem_of_find?_eq_some h, by simpa using List.find?_some h⟩

theorem remove_inv (s : Store) (i : String) (h : s.Inv) : (s.remove i).1.Inv := by
  unfold Store.remove
  split
  · exact h
  · rename_i e hf
    obtain ⟨he, hid⟩ := findEdge_some s i e hf
    apply foldl_dropIfOrphan_inv
    have huniq : ∀ e' ∈ s.edges, e'.id = i → e' = e :=
      fun e' he' h' => h.edge_unique he' he (h'.trans hid.symm)
    constructor
    · show ((s.edges.filter (·.id ≠ i)).map (·.id)).Nodup
      exact List.Nodup.sublist (List.filter_sublist.map _) h.ids_nodup
    · intro sp hsp
      rcases (h.species_iff sp).1 hsp with ⟨e', he', hs⟩ | hk
      · by_cases h' : e'.id = i
        · rw [huniq e' he' h'] at hs; exact Or.inr (Or.inr hs)
        · exact Or.inl ⟨e', by simp [he', h'], hs⟩
      · exact Or.inr (Or.inl hk)
    · intro sp hsp
      apply (h.species_iff sp).2
      rcases hsp with ⟨e', he', hs⟩ | hk
      · exact Or.inl ⟨e', (List.mem_filter.1 he').1, hs⟩
      · exact Or.inr hk
    · intro sp i'
      show i' ∈ (idxDiscard s.inIdx e.products.keys i).getD sp [] ↔
        ∃ e' ∈ s.edges.filter (·.id ≠ i), e'.id = i' ∧ sp ∈ e'.products.keys
      rw [mem_idxDiscard, h.in_iff]
      constructor
      · rintro ⟨⟨e', he', h1, h2⟩, h3⟩
        refine ⟨e', ?_, h1, h2⟩
        simp only [List.mem_filter, he', true_and, ne_eq, decide_not, Bool.not_eq_eq_eq_not,
          Bool.not_true, decide_eq_false_iff_not]
        intro h'
        apply h3
        rw [huniq e' he' h'] at h2
        exact ⟨h1.symm.trans h', h2⟩
      · rintro ⟨e', he', h1, h2⟩
        simp only [List.mem_filter, ne_eq, decide_not, Bool.not_eq_eq_eq_not,
          Bool.not_true, decide_eq_false_iff_not] at he'
        refine ⟨⟨e', he'.1, h1, h2⟩, ?_⟩
        rintro ⟨h3, _⟩
        exact he'.2 (h1.trans h3)
    · intro sp i'
      show i' ∈ (idxDiscard s.outIdx e.reactants.keys i).getD sp [] ↔
        ∃ e' ∈ s.edges.filter (·.id ≠ i), e'.id = i' ∧ sp ∈ e'.reactants.keys
      rw [mem_idxDiscard, h.out_iff]
      constructor
      · rintro ⟨⟨e', he', h1, h2⟩, h3⟩
        refine ⟨e', ?_, h1, h2⟩
        simp only [List.mem_filter, he', true_and, ne_eq, decide_not, Bool.not_eq_eq_eq_not,
          Bool.not_true, decide_eq_false_iff_not]
        intro h'
        apply h3
        rw [huniq e' he' h'] at h2
        exact ⟨h1.symm.trans h', h2⟩
      · rintro ⟨e', he', h1, h2⟩
        simp only [List.mem_filter, ne_eq, decide_not, Bool.not_eq_eq_eq_not,
          Bool.not_true, decide_eq_false_iff_not] at he'
        refine ⟨⟨e', he'.1, h1, h2⟩, ?_⟩
        rintro ⟨h3, _⟩
        exact he'.2 (h1.trans h3)
    · exact h.mol_sub
    · intro e' he'
      exact h.sides_wf e' (List.mem_filter.1 he').1
    · intro e' he'
      exact h.nonempty e' (List.mem_filter.1 he').1

/-! ### `removeSpecies` -/

def rsEdges (s : Store) (sp : String) : List Edge :=
  (s.edges.map (·.strip sp)).filter (fun e => !e.isEmpty)

def rsStore (s : Store) (sp : String) : Store :=
  { s with edges := rsEdges s sp, inIdx := s.inIdx.set sp [], outIdx := s.outIdx.set sp [] }

theorem Store.Inv.mem_in_iff {s : Store} (h : s.Inv) (sp : String) {e : Edge} (he : e ∈ s.edges) :
    e.id ∈ s.inIdx.getD sp [] ↔ sp ∈ e.products.keys := by
  rw [h.in_iff]
  constructor
  · rintro ⟨e', he', h1, h2⟩
    rwa [h.edge_unique he' he h1] at h2
  · intro h2; exact ⟨e, he, rfl, h2⟩

theorem Store.Inv.mem_out_iff {s : Store} (h : s.Inv) (sp : String) {e : Edge} (he : e ∈ s.edges) :
    e.id ∈ s.outIdx.getD sp [] ↔ sp ∈ e.reactants.keys := by
  rw [h.out_iff]
  constructor
  · rintro ⟨e', he', h1, h2⟩
    rwa [h.edge_unique he' he h1] at h2
  · intro h2; exact ⟨e, he, rfl, h2⟩

theorem strip_of_not_mem (e : Edge) (sp : String) (h1 : sp ∉ e.reactants.keys)
    (h2 : sp ∉ e.products.keys) : e.strip sp = e := by
  cases e
  simp only [Edge.strip] at *
  rw [erase_of_not_mem _ _ h1, erase_of_not_mem _ _ h2]

theorem removeSpecies_edges2 (s : Store) (sp : String) (h : s.Inv) :
    ((s.edges.map fun e =>
      let e1 := if e.id ∈ s.inIdx.getD sp [] then { e with products := e.products.erase sp } else e
      if e.id ∈ s.outIdx.getD sp [] then { e1 with reactants := e1.reactants.erase sp } else e1).filter
      fun e => !((e.id ∈ s.inIdx.getD sp [] || e.id ∈ s.outIdx.getD sp []) && e.isEmpty))
    = rsEdges s sp := by
  have hmap : (s.edges.map fun e =>
      let e1 := if e.id ∈ s.inIdx.getD sp [] then { e with products := e.products.erase sp } else e
      if e.id ∈ s.outIdx.getD sp [] then { e1 with reactants := e1.reactants.erase sp } else e1)
      = s.edges.map (·.strip sp) := by
    apply List.map_congr_left
    intro e he
    simp only [h.mem_in_iff sp he, h.mem_out_iff sp he]
    cases e with
    | mk id rule r p =>
      simp only [Edge.strip]
      by_cases h1 : sp ∈ Dict.keys p <;> by_cases h2 : sp ∈ Dict.keys r <;>
        simp [h1, h2, erase_of_not_mem]
  rw [hmap]
  unfold rsEdges
  apply List.filter_congr
  intro x hx
  obtain ⟨e, he, rfl⟩ := List.mem_map.1 hx
  have hid : (e.strip sp).id = e.id := rfl
  rw [hid]
  by_cases ht : e.id ∈ s.inIdx.getD sp [] ∨ e.id ∈ s.outIdx.getD sp []
  · rcases ht with ht | ht <;> simp [ht]
  · simp only [not_or] at ht
    have h1 := ht.1; have h2 := ht.2
    rw [h.mem_in_iff sp he] at h1
    rw [h.mem_out_iff sp he] at h2
    rw [strip_of_not_mem e sp h2 h1]
    simp [ht.1, ht.2, h.nonempty e he]

theorem removeSpecies_eq (s : Store) (sp : String) (prune : Bool) (h : s.Inv)
    (hsp : sp ∈ s.species) :
    s.removeSpecies sp prune =
      (if prune then (rsStore s sp).dropIfOrphan sp
        else { rsStore s sp with kept := setAdd s.kept sp }, .ok ()) := by
  unfold Store.removeSpecies
  simp only [hsp, not_true_eq_false, if_false]
  rw [removeSpecies_edges2 s sp h]
  cases prune <;> rfl

theorem removeSpecies_edges (s s' : Store) (sp : String) (prune : Bool) (hinv : s.Inv)
    (h : s.removeSpecies sp prune = (s', .ok ())) :
    s'.edges = (s.edges.map (·.strip sp)).filter (fun e => !e.isEmpty) := by
  by_cases hsp : sp ∈ s.species
  · rw [removeSpecies_eq s sp prune hinv hsp] at h
    simp only [Prod.mk.injEq, and_true] at h
    subst h
    cases prune
    · rfl
    · simp only [if_true]
      exact foldl_dropIfOrphan_edges [sp] (rsStore s sp)
  · unfold Store.removeSpecies at h
    simp [hsp] at h

theorem mem_rsEdges (s : Store) (sp : String) (e' : Edge) :
    e' ∈ rsEdges s sp ↔ ∃ e ∈ s.edges, e.strip sp = e' ∧ e'.isEmpty = false := by
  simp only [rsEdges, List.mem_filter, List.mem_map, Bool.not_eq_eq_eq_not, Bool.not_true]
  constructor
  · rintro ⟨⟨e, he, h1⟩, h2⟩; exact ⟨e, he, h1, h2⟩
  · rintro ⟨e, he, h1, h2⟩; exact ⟨⟨e, he, h1⟩, h2⟩

theorem strip_isEmpty_false (e : Edge) (sp sp' : String) (hne : sp' ≠ sp)
    (h : sp' ∈ e.speciesOf) : (e.strip sp).isEmpty = false := by
  rw [mem_speciesOf] at h
  simp only [Edge.isEmpty, Edge.strip, Bool.and_eq_false_iff]
  rcases h with h | h
  · exact Or.inl (isEmpty_false_of_mem_keys _ sp' ((Dict.mem_keys_erase _ _ _).2 ⟨h, hne⟩))
  · exact Or.inr (isEmpty_false_of_mem_keys _ sp' ((Dict.mem_keys_erase _ _ _).2 ⟨h, hne⟩))

theorem rsStore_invP (s : Store) (sp : String) (h : s.Inv) : (rsStore s sp).InvP [sp] := by
  constructor
  · show ((rsEdges s sp).map (·.id)).Nodup
    have hsub : List.Sublist ((rsEdges s sp).map (·.id)) ((s.edges.map (·.strip sp)).map (·.id)) :=
      List.filter_sublist.map _
    have heq : (s.edges.map (·.strip sp)).map (·.id) = s.ids := by
      rw [List.map_map]; rfl
    rw [heq] at hsub
    exact List.Nodup.sublist hsub h.ids_nodup
  · intro sp' hsp'
    by_cases hne : sp' = sp
    · exact Or.inr (Or.inr (by simp [hne]))
    · rcases (h.species_iff sp').1 hsp' with ⟨e, he, hs⟩ | hk
      · left
        refine ⟨e.strip sp, (mem_rsEdges s sp _).2 ⟨e, he, rfl, strip_isEmpty_false e sp sp' hne hs⟩, ?_⟩
        rw [mem_speciesOf] at hs ⊢
        simp only [Edge.strip, Dict.mem_keys_erase]
        rcases hs with hs | hs
        · exact Or.inl ⟨hs, hne⟩
        · exact Or.inr ⟨hs, hne⟩
      · exact Or.inr (Or.inl hk)
  · intro sp' hsp'
    apply (h.species_iff sp').2
    rcases hsp' with ⟨e', he', hs⟩ | hk
    · obtain ⟨e, he, rfl, _⟩ := (mem_rsEdges s sp e').1 he'
      left
      refine ⟨e, he, ?_⟩
      rw [mem_speciesOf] at hs ⊢
      simp only [Edge.strip, Dict.mem_keys_erase] at hs
      rcases hs with hs | hs
      · exact Or.inl hs.1
      · exact Or.inr hs.1
    · exact Or.inr hk
  · intro sp' i
    show i ∈ (s.inIdx.set sp []).getD sp' [] ↔ ∃ e ∈ rsEdges s sp, e.id = i ∧ sp' ∈ e.products.keys
    by_cases hne : sp' = sp
    · subst hne
      rw [getD_set_self]
      constructor
      · intro h; simp at h
      · rintro ⟨e', he', _, hs⟩
        obtain ⟨e, he, rfl, _⟩ := (mem_rsEdges s sp' e').1 he'
        simp only [Edge.strip, Dict.mem_keys_erase] at hs
        exact absurd rfl hs.2
    · rw [getD_set_other _ _ _ _ _ hne, h.in_iff]
      constructor
      · rintro ⟨e, he, h1, h2⟩
        refine ⟨e.strip sp, (mem_rsEdges s sp _).2 ⟨e, he, rfl,
          strip_isEmpty_false e sp sp' hne ((mem_speciesOf e sp').2 (Or.inr h2))⟩, h1, ?_⟩
        simp only [Edge.strip, Dict.mem_keys_erase]
        exact ⟨h2, hne⟩
      · rintro ⟨e', he', h1, h2⟩
        obtain ⟨e, he, rfl, _⟩ := (mem_rsEdges s sp e').1 he'
        simp only [Edge.strip, Dict.mem_keys_erase] at h2
        exact ⟨e, he, h1, h2.1⟩
  · intro sp' i
    show i ∈ (s.outIdx.set sp []).getD sp' [] ↔ ∃ e ∈ rsEdges s sp, e.id = i ∧ sp' ∈ e.reactants.keys
    by_cases hne : sp' = sp
    · subst hne
      rw [getD_set_self]
      constructor
      · intro h; simp at h
      · rintro ⟨e', he', _, hs⟩
        obtain ⟨e, he, rfl, _⟩ := (mem_rsEdges s sp' e').1 he'
        simp only [Edge.strip, Dict.mem_keys_erase] at hs
        exact absurd rfl hs.2
    · rw [getD_set_other _ _ _ _ _ hne, h.out_iff]
      constructor
      · rintro ⟨e, he, h1, h2⟩
        refine ⟨e.strip sp, (mem_rsEdges s sp _).2 ⟨e, he, rfl,
          strip_isEmpty_false e sp sp' hne ((mem_speciesOf e sp').2 (Or.inl h2))⟩, h1, ?_⟩
        simp only [Edge.strip, Dict.mem_keys_erase]
        exact ⟨h2, hne⟩
      · rintro ⟨e', he', h1, h2⟩
        obtain ⟨e, he, rfl, _⟩ := (mem_rsEdges s sp e').1 he'
        simp only [Edge.strip, Dict.mem_keys_erase] at h2
        exact ⟨e, he, h1, h2.1⟩
  · exact h.mol_sub
  · intro e' he'
    obtain ⟨e, he, rfl, _⟩ := (mem_rsEdges s sp e').1 he'
    exact ⟨nodup_keys_erase _ _ (h.sides_wf e he).1, nodup_keys_erase _ _ (h.sides_wf e he).2⟩
  · intro e' he'
    exact ((mem_rsEdges s sp e').1 he').choose_spec.2.2

theorem removeSpecies_inv (s : Store) (sp : String) (prune : Bool) (h : s.Inv) :
    (s.removeSpecies sp prune).1.Inv := by
  by_cases hsp : sp ∈ s.species
  · rw [removeSpecies_eq s sp prune h hsp]
    have hP := rsStore_invP s sp h
    cases prune
    · simp only [Bool.false_eq_true, if_false]
      obtain ⟨a, b, c, d, e, f, g, k⟩ := hP
      refine ⟨a, ?_, d, e, f, g, k⟩
      intro sp'
      show sp' ∈ s.species ↔ (∃ e ∈ rsEdges s sp, sp' ∈ e.speciesOf) ∨ sp' ∈ setAdd s.kept sp
      rw [mem_setAdd]
      constructor
      · intro hsp'
        rcases b sp' hsp' with h1 | h1 | h1
        · exact Or.inl h1
        · exact Or.inr (Or.inl h1)
        · exact Or.inr (Or.inr (by simpa using h1))
      · rintro (h1 | h1 | h1)
        · exact c sp' (Or.inl h1)
        · exact c sp' (Or.inr h1)
        · subst h1; exact hsp
    · simp only [if_true]
      exact foldl_dropIfOrphan_inv [sp] _ hP
  · unfold Store.removeSpecies
    simp only [hsp, not_false_eq_true, if_true]
    exact h

/-! ### Worlds -/

theorem put_inv (w : World) (k : Nat) (s' : Store) (h : ∀ s ∈ w, s.Inv) (hs' : s'.Inv) :
    ∀ s ∈ w.put k s', s.Inv := by
  intro s hs
  rcases List.mem_or_eq_of_mem_set hs with h1 | h1
  · exact h s h1
  · subst h1; exact hs'

theorem step_inv (w : World) (op : Op) (h : ∀ s ∈ w, s.Inv) : ∀ s ∈ (step w op).1, s.Inv := by
  unfold step
  cases op with
  | add k r p rule eid =>
    simp only
    split
    · exact h
    · rename_i s hk
      have hs := h s (List.mem_of_getElem? hk)
      have := add_inv s r p rule eid hs
      split <;> rename_i heq <;> rw [heq] at this <;> exact put_inv w k _ h this
  | remove k id =>
    simp only
    split
    · exact h
    · rename_i s hk
      exact put_inv w k _ h (remove_inv s id (h s (List.mem_of_getElem? hk)))
  | removeSpecies k sp prune =>
    simp only
    split
    · exact h
    · rename_i s hk
      exact put_inv w k _ h (removeSpecies_inv s sp prune (h s (List.mem_of_getElem? hk)))
  | merge k j pfx =>
    simp only
    split
    · rename_i s o hk hj
      exact put_inv w k _ h (merge_inv o.edges pfx s (h s (List.mem_of_getElem? hk))
          (h o (List.mem_of_getElem? hj)).sides_wf)
    · exact h
  | mergeEdges k other pfx =>
    simp only
    split
    · exact h
    · rename_i s hk
      split
      · exact h
      · rename_i es
        exact put_inv w k _ h (mergeForeign_inv es pfx s (h s (List.mem_of_getElem? hk)))
  | copy k j =>
    simp only
    split
    · exact h
    · rename_i s hk
      split
      · exact put_inv w j _ h (h s (List.mem_of_getElem? hk))
      · exact h
  | assignMol k sp m =>
    simp only
    split
    · exact h
    · rename_i s hk
      exact put_inv w k _ h (assignMol_inv s sp m (h s (List.mem_of_getElem? hk)))
  | setMolMap k mapping strict clear =>
    simp only
    split
    · exact h
    · rename_i s hk
      exact put_inv w k _ h (setMolMap_inv s mapping strict clear (h s (List.mem_of_getElem? hk)))
  | addFromStr k line rule sfx =>
    simp only
    split
    · exact h
    · rename_i s hk
      have hs := h s (List.mem_of_getElem? hk)
      have := addFromStr_inv s line rule sfx hs
      split <;> rename_i heq <;> rw [heq] at this <;> exact put_inv w k _ h this
  | parseRxns k items dr sfx pref =>
    simp only
    split
    · exact h
    · rename_i s hk
      exact put_inv w k _ h (parseRxns_inv items dr sfx pref s (h s (List.mem_of_getElem? hk)))
  | parseRxnsRules k lines rules dr sfx pref =>
    simp only
    split
    · exact h
    · rename_i s hk
      exact put_inv w k _ h
        (parseRxnsRules_inv s lines rules dr sfx pref (h s (List.mem_of_getElem? hk)))

theorem initWorld_inv (n : Nat) : ∀ s ∈ initWorld n, s.Inv := by
  intro s hs
  have := List.eq_of_mem_replicate hs
  subst this
  constructor
  · simp [Store.ids]
  · intro sp; simp
  · intro sp i; simp [Dict.getD, Dict.get?]
  · intro sp i; simp [Dict.getD, Dict.get?]
  · intro sp hsp; simp [Dict.keys] at hsp
  · intro e he; simp at he
  · intro e he; simp at he

theorem inv_run (w : World) (ops : List Op) (h : ∀ s ∈ w, s.Inv) : ∀ s ∈ run w ops, s.Inv := by
  unfold run
  induction ops generalizing w with
  | nil => exact h
  | cons op ops ih =>
    simp only [List.foldl_cons]
    exact ih _ (step_inv w op h)
end SynKit.Store

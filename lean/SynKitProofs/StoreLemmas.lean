import SynKitModel.Store
/-! Helper lemmas for C15 (store invariants). -/
namespace SynKit.Store

/-- The store invariant of C15. -/
structure Store.Inv (s : Store) : Prop where
  ids_nodup : s.ids.Nodup
  species_iff : ∀ sp, sp ∈ s.species ↔ (∃ e ∈ s.edges, sp ∈ e.speciesOf) ∨ sp ∈ s.kept
  in_iff : ∀ sp i, i ∈ s.inIdx.getD sp [] ↔ ∃ e ∈ s.edges, e.id = i ∧ sp ∈ e.products.keys
  out_iff : ∀ sp i, i ∈ s.outIdx.getD sp [] ↔ ∃ e ∈ s.edges, e.id = i ∧ sp ∈ e.reactants.keys
  mol_sub : ∀ sp ∈ s.mol.keys, sp ∈ s.species
  sides_wf : ∀ e ∈ s.edges, e.reactants.keys.Nodup ∧ e.products.keys.Nodup

def Op.target : Op → Nat
  | .add k .. => k
  | .remove k _ => k
  | .removeSpecies k .. => k
  | .merge k .. => k
  | .copy _ j => j
  | .assignMol k .. => k

theorem initWorld_inv (n : Nat) : ∀ s ∈ initWorld n, s.Inv := by sorry
theorem inv_run (w : World) (ops : List Op) (h : ∀ s ∈ w, s.Inv) : ∀ s ∈ run w ops, s.Inv := by sorry
theorem step_frame' (w : World) (op : Op) (i : Nat) (h : i ≠ op.target) :
    (step w op).1[i]? = w[i]? := by sorry
theorem mkId_inj (rule : String) (a b : Nat) (h : mkId rule a = mkId rule b) : a = b := by sorry
theorem firstFree_fresh' (ids : List String) (rule : String) (c : Nat) :
    mkId rule (firstFree ids rule c) ∉ ids := by sorry
theorem add_lookup_self' (s s' : Store) (r p rule eid i) (hinv : s.Inv)
    (h : s.add r p rule eid = (s', .ok i)) :
    s'.findEdge i = some ⟨i, normRule rule, normSide r, normSide p⟩ ∧ i ∉ s.ids := by sorry
theorem add_lookup_other' (s s' : Store) (r p rule eid res) (j : String)
    (h : s.add r p rule eid = (s', res)) (hj : ∀ i, res = .ok i → j ≠ i) :
    s'.findEdge j = s.findEdge j := by sorry
theorem remove_lookup' (s s' : Store) (i : String) (res) (h : s.remove i = (s', res)) :
    (∀ j, j ≠ i → s'.findEdge j = s.findEdge j) ∧ (res = .ok () → s'.findEdge i = none) := by sorry
theorem removeSpecies_edges (s s' : Store) (sp : String) (prune : Bool) (hinv : s.Inv)
    (h : s.removeSpecies sp prune = (s', .ok ())) :
    s'.edges = (s.edges.map (·.strip sp)).filter (fun e => !e.isEmpty) := by sorry
theorem incidence_spec' (e : Edge) (hr : e.reactants.keys.Nodup) (hp : e.products.keys.Nodup)
    (sp : String) :
    (incidenceEdge e).getD sp 0 = coeff e.products sp - coeff e.reactants sp := by sorry

end SynKit.Store

import SynKitModel.BatchCache
/-!
# Helper lemmas for C14 (cache over an object heap, `fit`, de-duplication, chunking, clustering)
-/
namespace SynKit.BatchCache

variable {C R : Type}

/-! ## heap and cache lookups -/

theorem hget_cons (i : Id) (c : C) (h : List (Id × C)) (x : Id) :
    hget ((i, c) :: h) x = if i = x then some c else hget h x := rfl

theorem hget_filter_ne (h : List (Id × C)) (id x : Id) :
    hget (h.filter (fun p => p.1 != id)) x = if x = id then none else hget h x := by
  induction h with
  | nil => simp [hget]
  | cons p rest ih =>
    obtain ⟨i, c⟩ := p
    by_cases hi : i = id
    · subst hi
      simp only [List.filter_cons, bne_self_eq_false, Bool.false_eq_true, if_false, ih, hget]
      by_cases hx : x = i
      · simp [hx]
      · simp [hx, Ne.symm hx]
    · have : (i != id) = true := by simp [hi]
      simp only [List.filter_cons, this, if_true, hget, ih]
      by_cases hx : i = x
      · subst hx; simp [hi]
      · simp [hx]

theorem hget_some_mem_ids (h : List (Id × C)) (x : Id) (c : C) (hx : hget h x = some c) :
    x ∈ h.map (·.1) := by
  induction h with
  | nil => simp [hget] at hx
  | cons p rest ih =>
    obtain ⟨i, c'⟩ := p
    simp only [hget] at hx
    by_cases hi : i = x
    · simp [hi]
    · simp only [hi, if_false] at hx
      simp [ih hx]

theorem cget_some_mem (cache : List (Key × Entry C R)) (key : Key) (e : Entry C R)
    (h : cget cache key = some e) : (key, e) ∈ cache := by
  induction cache with
  | nil => simp [cget] at h
  | cons p rest ih =>
    obtain ⟨k, e'⟩ := p
    simp only [cget] at h
    by_cases hk : k = key
    · simp only [hk, if_true, Option.some.injEq] at h
      simp [hk, h]
    · simp only [hk, if_false] at h
      exact List.mem_cons_of_mem _ (ih h)

theorem pinned_alive_sid (s : State C R) (k : Key) (e : Entry C R) (p : C × C)
    (hm : (k, e) ∈ s.cache) (hp : e.pins = some p) : k.sid ∈ aliveIds s := by
  unfold aliveIds
  refine List.mem_append_right _ (List.mem_flatMap.2 ⟨(k, e), hm, ?_⟩)
  simp [entryPins, hp]

theorem pinned_alive_rid (s : State C R) (k : Key) (e : Entry C R) (p : C × C)
    (hm : (k, e) ∈ s.cache) (hp : e.pins = some p) : k.rid ∈ aliveIds s := by
  unfold aliveIds
  refine List.mem_append_right _ (List.mem_flatMap.2 ⟨(k, e), hm, ?_⟩)
  simp [entryPins, hp]

theorem held_alive (s : State C R) (x : Id) (c : C) (h : hget s.heap x = some c) : x ∈ aliveIds s :=
  List.mem_append_left _ (hget_some_mem_ids _ _ _ h)

/-! ## the invariant of the repaired cache -/

/-- Every cache entry holds the two objects it was computed from, its value is the pure
function of their contents, and any object the caller currently holds under one of the key
identities *is* that object (same content). -/
def Inv (f : C → C → Bool → R) (s : State C R) : Prop :=
  ∀ k e, (k, e) ∈ s.cache → ∃ cs cr, e.pins = some (cs, cr) ∧ e.val = f cs cr k.inv ∧
    (∀ c, hget s.heap k.sid = some c → c = cs) ∧ (∀ c, hget s.heap k.rid = some c → c = cr)

theorem inv_init (f : C → C → Bool → R) : Inv f ({} : State C R) := by
  intro k e h; simp at h

theorem inv_step (f : C → C → Bool → R) (cfg : Config) (hpin : cfg.pin = true) (s : State C R)
    (op : Op C) (hinv : Inv f s) : Inv f (step f cfg s op).1 := by
  cases op with
  | alloc id c =>
    simp only [step]
    split
    · exact hinv
    · rename_i hid
      intro k e hm
      obtain ⟨cs, cr, hp, hv, h1, h2⟩ := hinv k e hm
      refine ⟨cs, cr, hp, hv, ?_, ?_⟩
      · intro c' hc'
        have : id ≠ k.sid := by
          rintro rfl; exact hid (pinned_alive_sid s k e _ hm hp)
        simp only [hget_cons, this, if_false] at hc'
        exact h1 _ hc'
      · intro c' hc'
        have : id ≠ k.rid := by
          rintro rfl; exact hid (pinned_alive_rid s k e _ hm hp)
        simp only [hget_cons, this, if_false] at hc'
        exact h2 _ hc'
  | free id =>
    simp only [step]
    split
    · intro k e hm
      obtain ⟨cs, cr, hp, hv, h1, h2⟩ := hinv k e hm
      refine ⟨cs, cr, hp, hv, ?_, ?_⟩
      · intro c' hc'
        simp only [hget_filter_ne] at hc'
        split at hc'
        · simp at hc'
        · exact h1 _ hc'
      · intro c' hc'
        simp only [hget_filter_ne] at hc'
        split at hc'
        · simp at hc'
        · exact h2 _ hc'
    · exact hinv
  | call sid rid inv =>
    simp only [step]
    split
    · rename_i cs cr hs hr
      split
      · exact hinv
      · split
        · exact hinv
        · -- miss: a new entry is appended, possibly after dropping the oldest one
          have hnew : ∀ (k : Key) (e : Entry C R), (k, e) = ((⟨sid, rid, inv⟩ : Key), mkEntry cfg cs cr (f cs cr inv)) →
              ∃ cs' cr', e.pins = some (cs', cr') ∧ e.val = f cs' cr' k.inv ∧
                (∀ c, hget s.heap k.sid = some c → c = cs') ∧ (∀ c, hget s.heap k.rid = some c → c = cr') := by
            intro k e hke
            simp only [Prod.mk.injEq] at hke
            obtain ⟨rfl, rfl⟩ := hke
            refine ⟨cs, cr, by simp [mkEntry, hpin], rfl, ?_, ?_⟩
            · intro c hc; rw [hs] at hc; exact (Option.some.inj hc).symm
            · intro c hc; rw [hr] at hc; exact (Option.some.inj hc).symm
          split
          · split
            · exact hinv
            · rename_i hd rest hcache
              intro k e hm
              simp only [List.mem_append, List.mem_singleton] at hm
              rcases hm with hm | hm
              · exact hinv k e (by rw [hcache]; exact List.mem_cons_of_mem _ hm)
              · exact hnew k e hm
          · intro k e hm
            simp only [List.mem_append, List.mem_singleton] at hm
            rcases hm with hm | hm
            · exact hinv k e hm
            · exact hnew k e hm
    · exact hinv

theorem inv_run (f : C → C → Bool → R) (cfg : Config) (hpin : cfg.pin = true) (s : State C R)
    (ops : List (Op C)) (hinv : Inv f s) : Inv f (run f cfg s ops) := by
  induction ops generalizing s with
  | nil => exact hinv
  | cons op ops ih => exact ih _ (inv_step f cfg hpin s op hinv)

/-- In a state satisfying the invariant a call on two held objects returns the pure function
of their contents. -/
theorem call_of_inv (f : C → C → Bool → R) (cfg : Config) (hsane : cfg.Sane) (s : State C R)
    (hinv : Inv f s) (sid rid : Id) (inv : Bool) (cs cr : C)
    (hs : hget s.heap sid = some cs) (hr : hget s.heap rid = some cr) :
    (step f cfg s (.call sid rid inv)).2 = .val (f cs cr inv) := by
  simp only [step, hs, hr]
  split
  · rfl
  · rename_i hon
    split
    · rename_i e he
      have hm := cget_some_mem _ _ _ he
      obtain ⟨cs', cr', _, hv, h1, h2⟩ := hinv _ e hm
      have e1 : cs = cs' := h1 _ hs
      have e2 : cr = cr' := h2 _ hr
      simp [hv, e1, e2]
    · split
      · split
        · rename_i hge _ hnil
          exfalso
          have hon' : cfg.cacheOn = true := by simpa using hon
          have := hsane hon'
          have h0 : (s.cache.length : Int) = 0 := by simp [hnil]
          omega
        · rfl
      · rfl

/-- A step never changes the heap except through `alloc` / `free`. -/
theorem call_heap (f : C → C → Bool → R) (cfg : Config) (s : State C R) (sid rid : Id) (inv : Bool) :
    (step f cfg s (.call sid rid inv)).1.heap = s.heap := by
  simp only [step]
  split
  · split
    · rfl
    · split
      · rfl
      · split
        · split <;> rfl
        · rfl
  · rfl

/-! ## `_dedupe` -/

section Dedupe
variable {S : Type} [DecidableEq S]

/-- Specification of the kept elements and their order: first occurrences, in order. -/
def firstOccs : List S → List S
  | [] => []
  | x :: xs => x :: (firstOccs xs).filter (fun y => y ≠ x)

theorem filter_firstOccs (p : S → Bool) (xs : List S) :
    (firstOccs xs).filter p = firstOccs (xs.filter p) := by
  induction xs with
  | nil => rfl
  | cons x xs ih =>
    simp only [firstOccs, List.filter_cons]
    split
    · simp only [firstOccs, List.filter_filter]
      congr 1
      rw [← ih, List.filter_filter]
      congr 1; funext y; exact Bool.and_comm _ _
    · rename_i hpx
      rw [List.filter_filter, ← ih]
      apply List.filter_congr
      intro y _
      by_cases hy : y = x
      · subst hy; simp [hpx]
      · simp [hy]

theorem dedupeLoop_spec (seen out xs : List S) :
    dedupeLoop seen out xs = out ++ firstOccs (xs.filter (fun y => y ∉ seen)) := by
  induction xs generalizing seen out with
  | nil => simp [dedupeLoop, firstOccs]
  | cons x xs ih =>
    simp only [dedupeLoop, List.filter_cons]
    by_cases hx : x ∈ seen
    · simp [hx, ih]
    · simp only [hx, if_false, ih, not_false_eq_true, decide_true, if_true, firstOccs,
        List.append_assoc, List.singleton_append]
      congr 2
      rw [filter_firstOccs, List.filter_filter]
      congr 1
      apply List.filter_congr
      intro y _
      simp only [List.mem_cons, not_or, ne_eq, Bool.decide_and]

theorem dedupe_eq_firstOccs (xs : List S) : dedupe xs = firstOccs xs := by
  have : xs.filter (fun _ => true) = xs := by
    rw [List.filter_eq_self]; intro y _; rfl
  simp [dedupe, dedupeLoop_spec, this]

theorem mem_firstOccs (xs : List S) (y : S) : y ∈ firstOccs xs ↔ y ∈ xs := by
  induction xs with
  | nil => simp [firstOccs]
  | cons x xs ih =>
    simp only [firstOccs, List.mem_cons, List.mem_filter, ih]
    by_cases hy : y = x <;> simp [hy]

theorem firstOccs_nodup (xs : List S) : (firstOccs xs).Nodup := by
  induction xs with
  | nil => simp [firstOccs]
  | cons x xs ih =>
    simp only [firstOccs, List.nodup_cons, List.mem_filter]
    exact ⟨by simp, ih.filter _⟩

theorem firstOccs_sublist (xs : List S) : List.Sublist (firstOccs xs) xs := by
  induction xs with
  | nil => exact List.Sublist.slnil
  | cons x xs ih => exact (List.Sublist.trans List.filter_sublist ih).cons_cons x

theorem firstOccs_of_nodup (xs : List S) (h : xs.Nodup) : firstOccs xs = xs := by
  induction xs with
  | nil => rfl
  | cons x xs ih =>
    simp only [List.nodup_cons] at h
    simp only [firstOccs, ih h.2]
    congr 1
    rw [List.filter_eq_self]
    intro y hy
    have : y ≠ x := by rintro rfl; exact h.1 hy
    simp [this]

end Dedupe

/-! ## `BatchReactor.fit` -/

section Fit
variable {S : Type} [DecidableEq S]

/-- The rule objects `rids` are held and have contents `rules`. -/
def HeldH (heap : List (Id × C)) : List Id → List C → Prop
  | [], [] => True
  | id :: ids, c :: cs => hget heap id = some c ∧ HeldH heap ids cs
  | _, _ => False

def Held (s : State C (List S)) (rids : List Id) (rules : List C) : Prop := HeldH s.heap rids rules

theorem heldH_mono (h h' : List (Id × C)) (hm : ∀ x cx, hget h x = some cx → hget h' x = some cx)
    (rids : List Id) (rules : List C) (hh : HeldH h rids rules) : HeldH h' rids rules := by
  induction rids generalizing rules with
  | nil => cases rules <;> simp_all [HeldH]
  | cons id ids ih =>
    cases rules with
    | nil => simp [HeldH] at hh
    | cons c cs => exact ⟨hm _ _ hh.1, ih cs hh.2⟩

theorem step_alloc_fresh (f : C → C → Bool → List S) (cfg : Config) (s : State C (List S)) (id : Id) (c : C)
    (h : id ∉ aliveIds s) : (step f cfg s (.alloc id c)).1 = { s with heap := (id, c) :: s.heap } := by
  simp [step, h]

theorem alloc_preserves (s : State C (List S)) (id : Id) (c : C) (h : id ∉ aliveIds s) (x : Id) (cx : C)
    (hx : hget s.heap x = some cx) : hget ((id, c) :: s.heap) x = some cx := by
  have : id ≠ x := by rintro rfl; exact h (held_alive s _ _ hx)
  simp [hget_cons, this, hx]

theorem held_mono (s : State C (List S)) (heap' : List (Id × C)) (rids : List Id) (rules : List C)
    (hm : ∀ x cx, hget s.heap x = some cx → hget heap' x = some cx) (h : Held s rids rules) :
    Held { s with heap := heap' } rids rules := heldH_mono _ _ hm rids rules h

theorem callAll_spec (f : C → C → Bool → List S) (cfg : Config) (hpin : cfg.pin = true) (hsane : cfg.Sane)
    (sid : Id) (c : C) (inv : Bool) (rids : List Id) (rules : List C) (s : State C (List S))
    (hinv : Inv f s) (hs : hget s.heap sid = some c) (hh : Held s rids rules) :
    (callAll f cfg s sid inv rids).2 = .ok (rules.map (fun r => f c r inv)) ∧
      Inv f (callAll f cfg s sid inv rids).1 ∧ (callAll f cfg s sid inv rids).1.heap = s.heap := by
  unfold Held at hh
  induction rids generalizing s rules with
  | nil =>
    cases rules with
    | nil => exact ⟨rfl, hinv, rfl⟩
    | cons _ _ => simp [HeldH] at hh
  | cons rid rids' ih =>
    cases rules with
    | nil => simp [HeldH] at hh
    | cons cr rules' =>
    obtain ⟨h1, h2⟩ := hh
    have hcall := call_of_inv f cfg hsane s hinv sid rid inv c cr hs h1
    have hheap := call_heap f cfg s sid rid inv
    have hinv1 := inv_step f cfg hpin s (.call sid rid inv) hinv
    have hh1 : HeldH (step f cfg s (.call sid rid inv)).1.heap rids' rules' := by
      rw [hheap]; exact h2
    obtain ⟨r1, r2, r3⟩ := ih rules' (step f cfg s (.call sid rid inv)).1 hinv1 (by rw [hheap]; exact hs) hh1
    simp only [callAll]
    rcases hstep : step f cfg s (.call sid rid inv) with ⟨s1, o⟩
    rw [hstep] at hcall r1 r2 r3 hheap
    simp only at hcall r1 r2 r3 hheap
    subst hcall
    simp only
    rcases hrest : callAll f cfg s1 sid inv rids' with ⟨s2, res⟩
    rw [hrest] at r1 r2 r3
    simp only at r1 r2 r3
    subst r1
    exact ⟨by simp, r2, by rw [r3, hheap]⟩

theorem worker_spec (f : C → C → Bool → List S) (cfg : Config) (hpin : cfg.pin = true) (hsane : cfg.Sane)
    (dd : Bool) (pick : State C (List S) → Id) (hpick : ValidAlloc pick) (rids : List Id) (rules : List C)
    (inv : Bool) (s : State C (List S)) (c : C) (hinv : Inv f s) (hh : Held s rids rules) :
    (worker f cfg dd pick rids inv s c).2 = .ok (single f dd rules inv c) ∧
      Inv f (worker f cfg dd pick rids inv s c).1 ∧ Held (worker f cfg dd pick rids inv s c).1 rids rules := by
  have hfresh := hpick s
  have hinv1 : Inv f (step f cfg s (.alloc (pick s) c)).1 := inv_step f cfg hpin s _ hinv
  rw [step_alloc_fresh f cfg s _ c hfresh] at hinv1
  have hh1 : Held { s with heap := (pick s, c) :: s.heap } rids rules :=
    held_mono s _ rids rules (fun x cx hx => alloc_preserves s _ c hfresh x cx hx) hh
  have hs1 : hget ({ s with heap := (pick s, c) :: s.heap } : State C (List S)).heap (pick s) = some c := by
    simp [hget_cons]
  obtain ⟨r1, r2, r3⟩ := callAll_spec f cfg hpin hsane (pick s) c inv rids rules _ hinv1 hs1 hh1
  simp only [worker, step_alloc_fresh f cfg s _ c hfresh]
  rcases hca : callAll f cfg { s with heap := (pick s, c) :: s.heap } (pick s) inv rids with ⟨s2, res⟩
  rw [hca] at r1 r2 r3
  simp only at r1 r2 r3
  subst r1
  simp only
  refine ⟨rfl, inv_step f cfg hpin s2 _ r2, ?_⟩
  -- the rule objects are still held after the substrate is released
  have hfree : (step f cfg s2 (.free (pick s))).1 =
      { s2 with heap := s2.heap.filter (fun p => p.1 != pick s) } := by
    simp [step, r3, hget_cons]
  rw [hfree]
  refine heldH_mono s.heap _ ?_ rids rules hh
  intro x cx hx
  have hne : x ≠ pick s := by rintro rfl; exact hfresh (held_alive s _ _ hx)
  simp only [hget_filter_ne, hne, if_false, r3, hget_cons]
  simp [Ne.symm hne, hx]

theorem workers_spec (f : C → C → Bool → List S) (cfg : Config) (hpin : cfg.pin = true) (hsane : cfg.Sane)
    (dd : Bool) (pick : State C (List S) → Id) (hpick : ValidAlloc pick) (rids : List Id) (rules : List C)
    (inv : Bool) (batch : List C) (s : State C (List S)) (hinv : Inv f s) (hh : Held s rids rules) :
    (workers f cfg dd pick rids inv s batch).2 = .ok (batch.map (single f dd rules inv)) ∧
      Inv f (workers f cfg dd pick rids inv s batch).1 := by
  induction batch generalizing s with
  | nil => exact ⟨rfl, hinv⟩
  | cons c cs ih =>
    obtain ⟨w1, w2, w3⟩ := worker_spec f cfg hpin hsane dd pick hpick rids rules inv s c hinv hh
    simp only [workers]
    rcases hw : worker f cfg dd pick rids inv s c with ⟨s1, r⟩
    rw [hw] at w1 w2 w3
    simp only at w1 w2 w3
    subst w1
    simp only
    obtain ⟨i1, i2⟩ := ih s1 w2 w3
    rcases hws : workers f cfg dd pick rids inv s1 cs with ⟨s2, rs⟩
    rw [hws] at i1 i2
    simp only at i1 i2
    subst i1
    exact ⟨rfl, i2⟩

theorem allocAll_preserves (f : C → C → Bool → List S) (cfg : Config) (pick : State C (List S) → Id)
    (hpick : ValidAlloc pick) (rules : List C) (s : State C (List S)) (x : Id) (cx : C)
    (hx : hget s.heap x = some cx) : hget (allocAll f cfg pick s rules).1.heap x = some cx := by
  induction rules generalizing s with
  | nil => exact hx
  | cons c cs ih =>
    simp only [allocAll]
    apply ih
    rw [step_alloc_fresh f cfg s _ c (hpick s)]
    exact alloc_preserves s _ c (hpick s) x cx hx

theorem allocAll_spec (f : C → C → Bool → List S) (cfg : Config) (hpin : cfg.pin = true)
    (pick : State C (List S) → Id) (hpick : ValidAlloc pick) (rules : List C) (s : State C (List S))
    (hinv : Inv f s) :
    Inv f (allocAll f cfg pick s rules).1 ∧
      Held (allocAll f cfg pick s rules).1 (allocAll f cfg pick s rules).2 rules := by
  induction rules generalizing s with
  | nil => exact ⟨hinv, trivial⟩
  | cons c cs ih =>
    simp only [allocAll]
    have hinv1 := inv_step f cfg hpin s (.alloc (pick s) c) hinv
    obtain ⟨i1, i2⟩ := ih _ hinv1
    refine ⟨i1, ?_, i2⟩
    apply allocAll_preserves f cfg pick hpick
    rw [step_alloc_fresh f cfg s _ c (hpick s)]
    simp [hget_cons]

theorem freeAll_inv (f : C → C → Bool → List S) (cfg : Config) (hpin : cfg.pin = true) (ids : List Id)
    (s : State C (List S)) (hinv : Inv f s) : Inv f (freeAll f cfg s ids) := by
  induction ids generalizing s with
  | nil => exact hinv
  | cons id ids ih => exact ih _ (inv_step f cfg hpin s _ hinv)

theorem fit_spec (f : C → C → Bool → List S) (cfg : Config) (hpin : cfg.pin = true) (hsane : cfg.Sane)
    (dd : Bool) (pick : State C (List S) → Id) (hpick : ValidAlloc pick) (s : State C (List S))
    (hinv : Inv f s) (batch rules : List C) (inv : Bool) :
    (fit f cfg dd pick s batch rules inv).2 = .ok (batch.map (single f dd rules inv)) ∧
      Inv f (fit f cfg dd pick s batch rules inv).1 := by
  obtain ⟨a1, a2⟩ := allocAll_spec f cfg hpin pick hpick rules s hinv
  simp only [fit]
  rcases ha : allocAll f cfg pick s rules with ⟨s1, rids⟩
  rw [ha] at a1 a2
  simp only at a1 a2 ⊢
  obtain ⟨w1, w2⟩ := workers_spec f cfg hpin hsane dd pick hpick rids rules inv batch s1 a1 a2
  rcases hw : workers f cfg dd pick rids inv s1 batch with ⟨s2, res⟩
  rw [hw] at w1 w2
  simp only at w1 w2 ⊢
  exact ⟨w1, freeAll_inv f cfg hpin rids s2 w2⟩

end Fit

/-! ## chunks -/

theorem chunksAux_flatten {α : Type} (k : Nat) (hk : 0 < k) (fuel : Nat) (xs : List α)
    (h : xs.length ≤ fuel) : (chunksAux k fuel xs).flatten = xs := by
  induction fuel generalizing xs with
  | zero =>
    have : xs = [] := List.eq_nil_of_length_eq_zero (by omega)
    simp [chunksAux, this]
  | succ n ih =>
    simp only [chunksAux]
    cases xs with
    | nil => simp
    | cons x rest =>
      simp only [List.isEmpty_cons, Bool.false_eq_true, if_false, List.flatten_cons]
      rw [ih]
      · exact List.take_append_drop _ _
      · simp only [List.length_drop, List.length_cons] at h ⊢
        omega

theorem chunks_flatten {α : Type} (k : Nat) (hk : 0 < k) (xs : List α) : (chunks k xs).flatten = xs :=
  chunksAux_flatten k hk _ _ (Nat.le_refl _)

/-! ## clustering -/

section Cluster
variable {α A : Type} [DecidableEq A]

theorem clusterBatch_append (attr : α → A) (iso : α → α → Bool) (ts : List (α × Nat)) (xs ys : List α) :
    clusterBatch attr iso ts (xs ++ ys) =
      ((clusterBatch attr iso ts xs).1 ++ (clusterBatch attr iso (clusterBatch attr iso ts xs).2 ys).1,
       (clusterBatch attr iso (clusterBatch attr iso ts xs).2 ys).2) := by
  induction xs generalizing ts with
  | nil => simp [clusterBatch]
  | cons x xs ih => simp [clusterBatch, ih]

/-- Feeding batches one after the other = feeding their concatenation at once. -/
theorem clusterBatches_eq (attr : α → A) (iso : α → α → Bool) (ts : List (α × Nat)) (bs : List (List α)) :
    clusterBatches attr iso ts bs = clusterBatch attr iso ts bs.flatten := by
  induction bs generalizing ts with
  | nil => simp [clusterBatches, clusterBatch]
  | cons b bs ih => simp [clusterBatches, ih, clusterBatch_append]

/-- The combined test both code paths apply to (representative, item): equal pre-grouping
attribute and isomorphic (arguments in the order the code passes them). -/
def mt (attr : α → A) (iso : α → α → Bool) (t x : α) : Bool := decide (attr t = attr x) && iso t x

/-- `lib_check` over indexed items with the templates reduced to their graphs (class = position). -/
def libGoI (attr : α → A) (iso : α → α → Bool) : List α → List (Nat × α) → List ((Nat × α) × Nat)
  | _, [] => []
  | T, jt :: rest =>
    match T.findIdx? (fun t => mt attr iso t jt.2) with
    | some i => (jt, i) :: libGoI attr iso T rest
    | none => (jt, T.length) :: libGoI attr iso (T ++ [jt.2]) rest

theorem libGoI_fst (attr : α → A) (iso : α → α → Bool) (T : List α) (pend : List (Nat × α)) :
    (libGoI attr iso T pend).map (·.1) = pend := by
  induction pend generalizing T with
  | nil => rfl
  | cons jt rest ih =>
    simp only [libGoI]
    split <;> simp [ih]

theorem findIdx?_append_some {β : Type} (p : β → Bool) (T : List β) (z : List β) (k : Nat)
    (h : T.findIdx? p = some k) : (T ++ z).findIdx? p = some k := by
  simp [List.findIdx?_append, h]

theorem libGoI_filter_keep (attr : α → A) (iso : α → α → Bool) (keep : Nat × α → Bool)
    (ys : List (Nat × α)) (T : List α)
    (h : ∀ jt ∈ ys, keep jt = false → (T.findIdx? (fun t => mt attr iso t jt.2)).isSome = true) :
    (libGoI attr iso T ys).filter (fun p => keep p.1) = libGoI attr iso T (ys.filter keep) := by
  induction ys generalizing T with
  | nil => rfl
  | cons jt rest ih =>
    have hrest : ∀ jt' ∈ rest, keep jt' = false → (T.findIdx? (fun t => mt attr iso t jt'.2)).isSome = true :=
      fun jt' hm => h jt' (List.mem_cons_of_mem _ hm)
    simp only [libGoI]
    cases hf : T.findIdx? (fun t => mt attr iso t jt.2) with
    | some i =>
      simp only [List.filter_cons]
      by_cases hk : keep jt = true
      · simp only [hk, if_true, libGoI, hf, ih T hrest]
      · simp only [hk, Bool.false_eq_true, if_false, ih T hrest]
    | none =>
      have hk : keep jt = true := by
        cases hkk : keep jt with
        | true => rfl
        | false =>
          have := h jt List.mem_cons_self hkk
          simp [hf] at this
      have hrest' : ∀ jt' ∈ rest, keep jt' = false →
          ((T ++ [jt.2]).findIdx? (fun t => mt attr iso t jt'.2)).isSome = true := by
        intro jt' hm hk'
        have := hrest jt' hm hk'
        rcases hq : T.findIdx? (fun t => mt attr iso t jt'.2) with _ | q
        · simp [hq] at this
        · simp [findIdx?_append_some _ T [jt.2] q hq]
      simp only [List.filter_cons, hk, if_true, libGoI, hf, ih _ hrest']

theorem libGoI_filter_const (attr : α → A) (iso : α → α → Bool) (p : Nat × α → Bool) (k : Nat)
    (ys : List (Nat × α)) (T : List α)
    (h : ∀ jt ∈ ys, p jt = true → T.findIdx? (fun t => mt attr iso t jt.2) = some k) :
    (libGoI attr iso T ys).filter (fun q => p q.1) = (ys.filter p).map (fun jt => (jt, k)) := by
  induction ys generalizing T with
  | nil => rfl
  | cons jt rest ih =>
    have hrest : ∀ jt' ∈ rest, p jt' = true → T.findIdx? (fun t => mt attr iso t jt'.2) = some k :=
      fun jt' hm => h jt' (List.mem_cons_of_mem _ hm)
    simp only [libGoI]
    by_cases hp : p jt = true
    · have hf := h jt List.mem_cons_self hp
      simp only [hf, List.filter_cons, hp, if_true, List.map_cons, ih T hrest]
    · cases hf : T.findIdx? (fun t => mt attr iso t jt.2) with
      | some i => simp only [List.filter_cons, hp, Bool.false_eq_true, if_false, ih T hrest]
      | none =>
        have hrest' : ∀ jt' ∈ rest, p jt' = true →
            (T ++ [jt.2]).findIdx? (fun t => mt attr iso t jt'.2) = some k :=
          fun jt' hm hp' => findIdx?_append_some _ T [jt.2] k (hrest jt' hm hp')
        simp only [List.filter_cons, hp, Bool.false_eq_true, if_false, ih _ hrest']

/-- `iterative_cluster` and the `lib_check` loop assign the same class to every item, for
**any** relation `iso` (no symmetry or transitivity needed): both compare an item with the
earlier class representatives in order of first appearance and number new classes 0,1,2,…. -/
theorem iterGo_perm_libGoI (attr : α → A) (iso : α → α → Bool) (fuel : Nat) (pend : List (Nat × α))
    (hfuel : pend.length ≤ fuel) (T : List α) (k : Nat) (hk : T.length = k)
    (hno : ∀ jt ∈ pend, T.findIdx? (fun t => mt attr iso t jt.2) = none) :
    List.Perm (iterGo attr iso fuel k pend) (libGoI attr iso T pend) := by
  induction fuel generalizing pend T k with
  | zero =>
    have : pend = [] := List.eq_nil_of_length_eq_zero (by omega)
    subst this
    simp [iterGo, libGoI]
  | succ n ih =>
    cases pend with
    | nil => simp [iterGo, libGoI]
    | cons it rest =>
      have hit := hno it List.mem_cons_self
      simp only [iterGo, libGoI, hit, hk]
      refine List.Perm.cons _ ?_
      let m : Nat × α → Bool := fun jt => mt attr iso it.2 jt.2
      have hnone : ∀ t ∈ T, ∀ jt ∈ rest, mt attr iso t jt.2 = false := by
        intro t ht jt hjt
        exact (List.findIdx?_eq_none_iff.1 (hno jt (List.mem_cons_of_mem _ hjt))) t ht
      have hmatch : ∀ jt ∈ rest, m jt = true →
          (T ++ [it.2]).findIdx? (fun t => mt attr iso t jt.2) = some k := by
        intro jt hjt hm
        have h0 : T.findIdx? (fun t => mt attr iso t jt.2) = none := hno jt (List.mem_cons_of_mem _ hjt)
        have hm' : mt attr iso it.2 jt.2 = true := hm
        simp [List.findIdx?_append, h0, List.findIdx?_cons, hm', hk]
      have e1 := libGoI_filter_const attr iso m k rest (T ++ [it.2]) hmatch
      have e2 := libGoI_filter_keep attr iso (fun jt => !m jt) rest (T ++ [it.2]) (by
        intro jt hjt hkeep
        have hm : m jt = true := by simpa using hkeep
        rw [hmatch jt hjt hm]; rfl)
      have hIH := ih (rest.filter (fun jt => !m jt))
        (by have := List.length_filter_le (fun jt => !m jt) rest
            simp only [List.length_cons] at hfuel; omega)
        (T ++ [it.2]) (k + 1) (by simp [hk])
        (by
          intro jt hjt
          obtain ⟨hjr, hnm⟩ := List.mem_filter.1 hjt
          have hnm' : mt attr iso it.2 jt.2 = false := by simpa [m] using hnm
          rw [List.findIdx?_eq_none_iff]
          intro t ht
          rcases List.mem_append.1 ht with ht | ht
          · exact hnone t ht jt hjr
          · simp only [List.mem_singleton] at ht; subst ht; exact hnm')
      have hsplit := (List.filter_append_perm (fun q : (Nat × α) × Nat => m q.1)
        (libGoI attr iso (T ++ [it.2]) rest)).symm
      rw [e1] at hsplit
      have e2' : List.filter (fun x : (Nat × α) × Nat => !m x.1) (libGoI attr iso (T ++ [it.2]) rest) =
          libGoI attr iso (T ++ [it.2]) (rest.filter (fun jt => !m jt)) := e2
      rw [e2'] at hsplit
      exact (List.Perm.append_left _ hIH).trans hsplit.symm

theorem lookupIdx_of_mem (L : List ((Nat × α) × Nat)) (hnd : (L.map (·.1.1)).Nodup) (j : Nat) (a : α) (c : Nat)
    (hm : ((j, a), c) ∈ L) : lookupIdx j L = some c := by
  induction L with
  | nil => simp at hm
  | cons q rest ih =>
    obtain ⟨⟨i, b⟩, d⟩ := q
    simp only [List.map_cons, List.nodup_cons] at hnd
    simp only [lookupIdx]
    rcases List.mem_cons.1 hm with h | h
    · simp only [Prod.mk.injEq] at h
      obtain ⟨⟨rfl, _⟩, rfl⟩ := h
      simp
    · have : i ≠ j := by
        rintro rfl
        exact hnd.1 (List.mem_map.2 ⟨((i, a), c), h, rfl⟩)
      simp only [this, if_false]
      exact ih hnd.2 h

theorem enumFrom_fst_nodup (i : Nat) (xs : List α) :
    ((enumFrom i xs).map (·.1)).Nodup ∧ ∀ j ∈ (enumFrom i xs).map (·.1), i ≤ j := by
  induction xs generalizing i with
  | nil => simp [enumFrom]
  | cons x xs ih =>
    obtain ⟨h1, h2⟩ := ih (i + 1)
    simp only [enumFrom, List.map_cons, List.nodup_cons, List.mem_cons, forall_eq_or_imp]
    refine ⟨⟨?_, h1⟩, Nat.le_refl _, fun j hj => Nat.le_of_succ_le (h2 j hj)⟩
    intro hmem
    have := h2 i hmem
    omega

theorem enumFrom_snd (i : Nat) (xs : List α) : (enumFrom i xs).map (·.2) = xs := by
  induction xs generalizing i with
  | nil => rfl
  | cons x xs ih => simp [enumFrom, ih]

theorem enumFrom_length (i : Nat) (xs : List α) : (enumFrom i xs).length = xs.length := by
  induction xs generalizing i with
  | nil => rfl
  | cons x xs ih => simp [enumFrom, ih]

/-- One-shot classes = classes of the indexed `lib_check` loop from no templates. -/
theorem oneShot_eq_libGoI (attr : α → A) (iso : α → α → Bool) (xs : List α) :
    oneShot attr iso xs = (libGoI attr iso [] (enumFrom 0 xs)).map (fun q => some q.2) := by
  have hdef : oneShot attr iso xs = (enumFrom 0 xs).map
      (fun jt => lookupIdx jt.1 (iterGo attr iso xs.length 0 (enumFrom 0 xs))) := rfl
  rw [hdef]
  have hperm := iterGo_perm_libGoI attr iso xs.length (enumFrom 0 xs) (by rw [enumFrom_length]; exact Nat.le_refl _)
    [] 0 rfl (by intro jt _; rfl)
  have hfst := libGoI_fst attr iso [] (enumFrom 0 xs)
  have hnd : ((libGoI attr iso [] (enumFrom 0 xs)).map (·.1.1)).Nodup := by
    have : (libGoI attr iso [] (enumFrom 0 xs)).map (·.1.1) = (enumFrom 0 xs).map (·.1) := by
      conv => rhs; rw [← hfst]
      simp [List.map_map]
    rw [this]; exact (enumFrom_fst_nodup 0 xs).1
  have hnd' : ((iterGo attr iso xs.length 0 (enumFrom 0 xs)).map (·.1.1)).Nodup :=
    ((hperm.map (·.1.1)).nodup_iff).2 hnd
  have hmap : (enumFrom 0 xs).map (fun jt => lookupIdx jt.1 (iterGo attr iso xs.length 0 (enumFrom 0 xs))) =
      ((libGoI attr iso [] (enumFrom 0 xs)).map (·.1)).map
        (fun jt => lookupIdx jt.1 (iterGo attr iso xs.length 0 (enumFrom 0 xs))) := by rw [hfst]
  rw [hmap, List.map_map]
  apply List.map_congr_left
  intro q hq
  obtain ⟨⟨j, a⟩, c⟩ := q
  exact lookupIdx_of_mem _ hnd' j a c ((hperm.mem_iff).2 hq)

/-! ### templates with explicit class numbers -/

/-- Classes are 0,1,2,… in template order (true of every template list `fit` builds itself). -/
def WfT (ts : List (α × Nat)) : Prop := ts.map (·.2) = List.range' 0 ts.length

theorem foldl_max_range' (c m : Nat) : (List.range' (c + 1) m).foldl max c = c + m := by
  induction m generalizing c with
  | zero => simp
  | succ m ih =>
    simp only [List.range'_succ, List.foldl_cons]
    have : max c (c + 1) = c + 1 := by omega
    rw [this, ih]; omega

theorem nextClass_wf (ts : List (α × Nat)) (h : WfT ts) : nextClass ts = ts.length := by
  unfold nextClass
  rw [h]
  cases hl : ts.length with
  | zero => simp
  | succ n =>
    simp only [List.range'_succ]
    have := foldl_max_range' 0 n
    simp only [Nat.zero_add] at this ⊢
    rw [this]

theorem find?_wf_aux (P : α → Bool) (o : Nat) (ts : List (α × Nat))
    (h : ts.map (·.2) = List.range' o ts.length) :
    (ts.find? (fun t => P t.1)).map (·.2) = ((ts.map (·.1)).findIdx? P).map (· + o) := by
  induction ts generalizing o with
  | nil => simp
  | cons t rest ih =>
    simp only [List.map_cons, List.length_cons, List.range'_succ, List.cons.injEq] at h
    simp only [List.find?_cons, List.map_cons, List.findIdx?_cons]
    by_cases hp : P t.1 = true
    · simp [hp, h.1]
    · simp only [hp, Bool.false_eq_true, if_false]
      rw [ih (o + 1) h.2]
      cases (rest.map (·.1)).findIdx? P with
      | none => rfl
      | some i => simp; omega

theorem clusterBatch_eq_libGoI (attr : α → A) (iso : α → α → Bool) (pend : List (Nat × α))
    (ts : List (α × Nat)) (h : WfT ts) :
    (clusterBatch attr iso ts (pend.map (·.2))).1 =
      (libGoI attr iso (ts.map (·.1)) pend).map (·.2) := by
  induction pend generalizing ts with
  | nil => rfl
  | cons jt rest ih =>
    simp only [List.map_cons, clusterBatch, libGoI]
    have hfind : ((ts.filter (fun t => decide (attr t.1 = attr jt.2))).find? (fun t => iso t.1 jt.2)) =
        ts.find? (fun t => mt attr iso t.1 jt.2) := by
      rw [List.find?_filter]
      congr 1; funext t; simp [mt]
    have haux := find?_wf_aux (fun t => mt attr iso t jt.2) 0 ts (by simpa [WfT] using h)
    simp only [libCheck, hfind]
    cases hf : ts.find? (fun t => mt attr iso t.1 jt.2) with
    | some t =>
      rw [hf] at haux
      cases hi : (ts.map (·.1)).findIdx? (fun t => mt attr iso t jt.2) with
      | none => rw [hi] at haux; simp at haux
      | some i =>
        rw [hi] at haux
        simp only [Option.map_some, Nat.add_zero, Option.some.injEq] at haux
        simp only [List.map_cons, haux, ih ts h]
    | none =>
      rw [hf] at haux
      cases hi : (ts.map (·.1)).findIdx? (fun t => mt attr iso t jt.2) with
      | some i => rw [hi] at haux; simp at haux
      | none =>
        have hwf' : WfT (ts ++ [(jt.2, nextClass ts)]) := by
          unfold WfT at h ⊢
          simp only [List.map_append, h, List.map_cons, List.map_nil, List.length_append,
            List.length_cons, List.length_nil, nextClass_wf ts h]
          rw [List.range'_concat]; simp
        have := ih (ts ++ [(jt.2, nextClass ts)]) hwf'
        simp only [List.map_append, List.map_cons, List.map_nil, nextClass_wf ts h] at this
        simp only [List.map_cons, nextClass_wf ts h, List.length_map, this]

/-- One-shot clustering = incremental clustering from no templates, label for label. -/
theorem oneShot_eq_clusterBatch (attr : α → A) (iso : α → α → Bool) (xs : List α) :
    oneShot attr iso xs = (clusterBatch attr iso [] xs).1.map some := by
  rw [oneShot_eq_libGoI]
  have := clusterBatch_eq_libGoI attr iso (enumFrom 0 xs) [] rfl
  rw [enumFrom_snd] at this
  rw [this]
  simp [List.map_map]

end Cluster

end SynKit.BatchCache

import SynKitModel.Repr
import SynKitProofs.ReprLemmas
import SynKitProofs.ReprHLemmas
import SynKitProofs.ITSLemmasC01
import Mathlib.Algebra.BigOperators.Group.List.Basic
import Mathlib.Data.List.Nodup
import Mathlib.Tactic.SplitIfs
/-!
# `implicit_hydrogen` (the graph part of `graph_to_rsmi` / `its_to_rsmi`, property C01)

Helper lemmas about the executable model `SynKit.Repr.implicitHydrogen`
(`synkit/Graph/Hyrogen/_misc.py`, `implicit_hydrogen(graph, preserve_atom_maps, reindex=False)`).
The property theorems built on them are in `SynKitProofs/Props/C01.lean`.

The model follows the F29 repair (draft fix 0022): a hydrogen node is removed iff it is a hydrogen,
is not preserved, and has at least one non-hydrogen neighbour (`goes`); everything else `stays`.

Plan: (A) closed form of the node and edge lists of the result; (B) counting lemmas (adjacency is
symmetric, double counting over the edge list); (C) per-node hydrogen count and the total
hydrogen count; (D) the result only depends on the labelled graph (`MolEq`-congruence), used to
move from `decompose (construct G H)` to `(G, H)`.
-/
namespace SynKit.Repr.ImplH
open SynKit SynKit.Repr SynKit.ITS.C01L

/-! ## Vocabulary -/

/-- `data["element"] == "H" and data["atom_map"] in preserve_atom_maps`. -/
def keepsH (K : List Nat) (a : Attrs) : Bool :=
  isH a && (match atomMapOf a with | some m => K.contains m | none => false)

/-- `preserved_hydrogens` (node ids, in node order). -/
def pres (g : LGraph) (K : List Nat) : List Nat := (g.nodes.filter fun p => keepsH K p.2).map (·.1)

/-- a hydrogen that is going to be removed (F29 repair): a hydrogen that is not preserved and has
at least one non-hydrogen neighbour. -/
def goes (g : LGraph) (K : List Nat) (v : Nat) : Bool :=
  isH (g.attrs v) && !(pres g K).contains v && hasHeavyNbr g v

/-- a node that `implicit_hydrogen` does not remove: a heavy atom, a preserved hydrogen, or a
hydrogen without a non-hydrogen neighbour (free H, H+, H-, the atoms of H2). -/
def stays (g : LGraph) (K : List Nat) (v : Nat) : Bool := !(goes g K v)

/-- number of hydrogens folded into the count of `v`: its removed hydrogen neighbours. -/
def folded (g : LGraph) (K : List Nat) (v : Nat) : Nat := ((g.neighbors v).filter (goes g K)).length

/-- The guard of hydrogen conservation: every hydrogen node that is *removed* — not preserved and
with at least one heavy neighbour — carries no count of its own and has exactly one heavy
neighbour (which takes it over).  Hydrogens without heavy neighbour need no guard: they stay. -/
def FoldGuard (g : LGraph) (K : List Nat) : Prop :=
  ∀ p ∈ g.nodes, isH p.2 = true → keepsH K p.2 = false → heavyNbrs g p.1 ≠ 0 →
    hcnt p.2 = 0 ∧ heavyNbrs g p.1 = 1

instance (g : LGraph) (K : List Nat) : Decidable (FoldGuard g K) := by unfold FoldGuard; infer_instance

/-- The guard as it had to be stated before the F29 repair (every non-preserved hydrogen, free or
not, has exactly one heavy neighbour). It implies `FoldGuard`. -/
def FoldGuardStrict (g : LGraph) (K : List Nat) : Prop :=
  ∀ p ∈ g.nodes, isH p.2 = true → keepsH K p.2 = false → hcnt p.2 = 0 ∧ heavyNbrs g p.1 = 1

instance (g : LGraph) (K : List Nat) : Decidable (FoldGuardStrict g K) := by
  unfold FoldGuardStrict; infer_instance

theorem foldGuard_of_strict (g : LGraph) (K : List Nat) (h : FoldGuardStrict g K) : FoldGuard g K :=
  fun p hp hH hk _ => h p hp hH hk

/-- C10's valence guard (every hydrogen node: no count, at most one heavy neighbour) gives
`FoldGuard` for every `keep` list. -/
theorem foldGuard_of_hValence (g : LGraph) (K : List Nat) (hv : HValence g) : FoldGuard g K := by
  intro p hp hH _ hne
  have := hv p hp hH
  exact ⟨this.1, by omega⟩

theorem hasHeavyNbr_iff (g : LGraph) (v : Nat) : hasHeavyNbr g v = true ↔ heavyNbrs g v ≠ 0 := by
  unfold hasHeavyNbr heavyNbrs
  rw [List.any_eq_true, Ne, List.length_eq_zero_iff, List.filter_eq_nil_iff]
  constructor
  · rintro ⟨x, hx, hh⟩ h; exact h x hx hh
  · intro h
    by_contra hc
    exact h (fun x hx hh => hc ⟨x, hx, hh⟩)

theorem hasHeavyNbr_false_iff (g : LGraph) (v : Nat) : hasHeavyNbr g v = false ↔ heavyNbrs g v = 0 := by
  rw [← Bool.not_eq_true, hasHeavyNbr_iff, not_not]

/-! ## (A) Closed form -/

def nHof (g : LGraph) (v : Nat) : Int := (((g.neighbors v).filter fun n => isH (g.attrs n)).length : Nat)

def F1 (g : LGraph) (p : Nat × Attrs) : Nat × Attrs :=
  if isH p.2 then p else (p.1, Dict.set p.2 "hcount" (.num (hraw p.2 + 2 * nHof g p.1)))

def g1of (g : LGraph) : LGraph := { g with nodes := g.nodes.map (F1 g) }

def decA (a : Attrs) : Attrs := Dict.set a "hcount" (.num (hraw a - 2))

def g2of (g1 : LGraph) (P : List Nat) : LGraph :=
  P.foldl (fun g' h =>
    (g'.neighbors h).foldl (fun g'' n => if isH (g''.attrs n) then g'' else updAttrs g'' n decA) g') g1

def presRaw (g1 : LGraph) (K : List Nat) : List Nat :=
  (g1.nodes.filter fun p =>
    isH p.2 && (match atomMapOf p.2 with | some m => K.contains m | none => false)).map (·.1)

theorem implicitHydrogen_eq (g : LGraph) (K : List Nat) :
    implicitHydrogen g K =
      { nodes := (g2of (g1of g) (presRaw (g1of g) K)).nodes.filter fun p =>
          !(isH p.2 && !((presRaw (g1of g) K).contains p.1) &&
            hasHeavyNbr (g2of (g1of g) (presRaw (g1of g) K)) p.1)
        edges := (g2of (g1of g) (presRaw (g1of g) K)).edges.filter fun e =>
          !(isH ((g2of (g1of g) (presRaw (g1of g) K)).attrs e.1) && !((presRaw (g1of g) K).contains e.1) &&
            hasHeavyNbr (g2of (g1of g) (presRaw (g1of g) K)) e.1) &&
          !(isH ((g2of (g1of g) (presRaw (g1of g) K)).attrs e.2.1) && !((presRaw (g1of g) K).contains e.2.1) &&
            hasHeavyNbr (g2of (g1of g) (presRaw (g1of g) K)) e.2.1) } :=
  rfl

theorem F1_fst (g : LGraph) (p : Nat × Attrs) : (F1 g p).1 = p.1 := by
  unfold F1; split <;> rfl

theorem isH_F1 (g : LGraph) (p : Nat × Attrs) : isH (F1 g p).2 = isH p.2 := by
  unfold F1; split
  · rfl
  · exact isH_set_hcount _ _

theorem keepsH_F1 (g : LGraph) (K : List Nat) (p : Nat × Attrs) : keepsH K (F1 g p).2 = keepsH K p.2 := by
  by_cases h : isH p.2 = true
  · simp [F1, h]
  · have h' := isH_F1 g p
    simp only [Bool.not_eq_true] at h
    simp [keepsH, h', h]

theorem presRaw_g1of (g : LGraph) (K : List Nat) : presRaw (g1of g) K = pres g K := by
  unfold presRaw pres g1of
  simp only [List.filter_map, List.map_map]
  have : ((fun p : Nat × Attrs =>
      isH p.2 && (match atomMapOf p.2 with | some m => K.contains m | none => false)) ∘ F1 g) =
      fun p => keepsH K p.2 := by
    funext p; exact keepsH_F1 g K p
  rw [this]
  apply List.map_congr_left
  intro p _
  exact F1_fst g p

/-- node-list update of `G.nodes[v]["hcount"] -= 1`. -/
def decAt (N : List (Nat × Attrs)) (v : Nat) : List (Nat × Attrs) :=
  N.map fun p => if p.1 = v then (p.1, decA p.2) else p

def decAll (N : List (Nat × Attrs)) (vs : List Nat) : List (Nat × Attrs) := vs.foldl decAt N

def decN : Nat → Attrs → Attrs
  | 0, a => a
  | k + 1, a => decN k (decA a)

theorem isH_decA (a : Attrs) : isH (decA a) = isH a := isH_set_hcount a _

theorem decN_set (k : Nat) (a : Attrs) (x : Int) :
    decN k (Dict.set a "hcount" (.num x)) = Dict.set a "hcount" (.num (x - 2 * k)) := by
  induction k generalizing x with
  | zero => simp [decN]
  | succ k ih =>
    simp only [decN, decA, hraw_set, Dict.set_set, ih]
    congr 2; push_cast; ring

theorem decN_zero (a : Attrs) : decN 0 a = a := rfl

theorem decAll_eq (N : List (Nat × Attrs)) (vs : List Nat) :
    decAll N vs = N.map fun p => (p.1, decN (vs.count p.1) p.2) := by
  induction vs generalizing N with
  | nil => simp [decAll, decN]
  | cons v vs ih =>
    have : decAll N (v :: vs) = decAll (decAt N v) vs := rfl
    rw [this, ih, decAt, List.map_map]
    apply List.map_congr_left
    intro p _
    simp only [Function.comp]
    by_cases h : p.1 = v
    · simp [h, List.count_cons_self, decN]
    · have h' : ¬ (v = p.1) := fun e => h e.symm
      simp [h, h']

/-- look-up in a node list mapped by an id-preserving function. -/
theorem attrsOf_map (N : List (Nat × Attrs)) (F : Nat × Attrs → Nat × Attrs) (hF : ∀ p, (F p).1 = p.1)
    (n : Nat) :
    attrsOf (N.map F) n = if n ∈ N.map (·.1) then (F (n, attrsOf N n)).2 else [] := by
  induction N with
  | nil => rfl
  | cons p N ih =>
    rw [List.map_cons, attrsOf_cons, attrsOf_cons, hF]
    by_cases h : p.1 = n
    · subst h; simp
    · have h' : ¬ n = p.1 := fun e => h e.symm
      simp only [h, if_false, ih, List.map_cons, List.mem_cons, h', false_or]

theorem isH_attrsOf_map (N : List (Nat × Attrs)) (F : Nat × Attrs → Nat × Attrs) (hF : ∀ p, (F p).1 = p.1)
    (hH : ∀ p, isH (F p).2 = isH p.2) (n : Nat) : isH (attrsOf (N.map F) n) = isH (attrsOf N n) := by
  rw [attrsOf_map N F hF]
  by_cases h : n ∈ N.map (·.1)
  · rw [if_pos h, hH]
  · rw [if_neg h]
    have : attrsOf N n = [] := by
      unfold attrsOf
      have : N.find? (fun p => decide (p.1 = n)) = none := by
        rw [List.find?_eq_none]; intro p hp hpn
        exact h (List.mem_map.2 ⟨p, hp, by simpa using hpn⟩)
      rw [this]
    rw [this]

theorem isH_attrsOf_decAt (N : List (Nat × Attrs)) (v n : Nat) :
    isH (attrsOf (decAt N v) n) = isH (attrsOf N n) := by
  unfold decAt
  apply isH_attrsOf_map
  · intro p; split <;> rfl
  · intro p; split
    · exact isH_decA _
    · rfl

theorem foldl_decIfHeavy (l : List Nat) : ∀ g : LGraph,
    l.foldl (fun g'' n => if isH (g''.attrs n) then g'' else updAttrs g'' n decA) g =
      { g with nodes := decAll g.nodes (l.filter fun n => !(isH (g.attrs n))) } := by
  induction l with
  | nil => intro g; rfl
  | cons n l ih =>
    intro g
    simp only [List.foldl_cons]
    by_cases hn : isH (g.attrs n) = true
    · rw [if_pos hn, ih g]
      simp [hn]
    · rw [if_neg hn]
      have h1 : updAttrs g n decA = { g with nodes := decAt g.nodes n } := by
        simp [updAttrs, decAt]
      rw [h1, ih]
      have h2 : (l.filter fun m => !(isH (({ g with nodes := decAt g.nodes n } : LGraph).attrs m))) =
          l.filter fun m => !(isH (g.attrs m)) := by
        apply List.filter_congr
        intro m _
        rw [attrs_eq_attrsOf, attrs_eq_attrsOf]
        show (!isH (attrsOf (decAt g.nodes n) m)) = _
        rw [isH_attrsOf_decAt]
      rw [h2]
      simp [hn, decAll]

/-- list of `hcount -= 1` targets, in execution order. -/
def decTargets (g : LGraph) (P : List Nat) : List Nat :=
  P.flatMap fun h => (g.neighbors h).filter fun n => !(isH (g.attrs n))

theorem isH_attrsOf_decAll (N : List (Nat × Attrs)) (vs : List Nat) (n : Nat) :
    isH (attrsOf (decAll N vs) n) = isH (attrsOf N n) := by
  induction vs generalizing N with
  | nil => rfl
  | cons v vs ih =>
    have : decAll N (v :: vs) = decAll (decAt N v) vs := rfl
    rw [this, ih, isH_attrsOf_decAt]

theorem g2of_eq (P : List Nat) : ∀ g : LGraph,
    g2of g P = { g with nodes := decAll g.nodes (decTargets g P) } := by
  induction P with
  | nil => intro g; rfl
  | cons h P ih =>
    intro g
    have hstep : g2of g (h :: P) =
        g2of ((g.neighbors h).foldl (fun g'' n => if isH (g''.attrs n) then g'' else updAttrs g'' n decA) g) P := rfl
    rw [hstep, foldl_decIfHeavy, ih]
    have hT : decTargets
        ({ g with nodes := decAll g.nodes ((g.neighbors h).filter fun n => !(isH (g.attrs n))) } : LGraph) P =
        decTargets g P := by
      unfold decTargets
      apply List.flatMap_congr
      intro x _
      apply List.filter_congr
      intro m _
      rw [attrs_eq_attrsOf, attrs_eq_attrsOf]
      show (!isH (attrsOf (decAll g.nodes _) m)) = _
      rw [isH_attrsOf_decAll]
    rw [hT]
    simp only [decTargets, List.flatMap_cons, decAll, List.foldl_append]

/-! ## (B) Counting -/

theorem nbrsOf_cons (e : Nat × Nat × Attrs) (E : List (Nat × Nat × Attrs)) (v : Nat) :
    nbrsOf (e :: E) v =
      (if e.1 = v then [e.2.1] else if e.2.1 = v then [e.1] else []) ++ nbrsOf E v := by
  unfold nbrsOf
  rw [List.filterMap_cons]
  split_ifs <;> simp_all

/-- adjacency is symmetric, with multiplicities. -/
theorem count_nbrs_symm (E : List (Nat × Nat × Attrs)) (h v : Nat) :
    (nbrsOf E h).count v = (nbrsOf E v).count h := by
  induction E with
  | nil => rfl
  | cons e E ih =>
    rw [nbrsOf_cons, nbrsOf_cons, List.count_append, List.count_append, ih]
    congr 1
    split_ifs <;> simp_all [List.count_cons]

theorem sum_ite_eq_of_nodup (P : List Nat) (hP : P.Nodup) (a : Nat) :
    (P.map fun h => if a = h then 1 else 0).sum = if a ∈ P then 1 else 0 := by
  induction P with
  | nil => rfl
  | cons x P ih =>
    rw [List.nodup_cons] at hP
    rw [List.map_cons, List.sum_cons, ih hP.2]
    by_cases h : a = x
    · subst h; simp [hP.1]
    · simp [h]

theorem sum_count (P : List Nat) (hP : P.Nodup) (l : List Nat) :
    (P.map fun h => l.count h).sum = (l.filter fun n => P.contains n).length := by
  induction l with
  | nil => simp
  | cons a l ih =>
    have : (P.map fun h => (a :: l).count h) = P.map fun h => (l.count h + if a = h then 1 else 0) := by
      apply List.map_congr_left; intro h _
      rw [List.count_cons]; simp only [beq_iff_eq]
    rw [this, List.sum_map_add, ih, sum_ite_eq_of_nodup P hP, List.filter_cons]
    by_cases h : a ∈ P
    · simp [h]
    · simp [h]

theorem filter_split {α} (p q : α → Bool) (l : List α) :
    (l.filter p).length =
      (l.filter fun x => p x && q x).length + (l.filter fun x => p x && !q x).length := by
  induction l with
  | nil => rfl
  | cons a l ih =>
    simp only [List.filter_cons]
    cases hp : p a <;> cases hq : q a <;> simp [ih] <;> omega

theorem sum_single (ids : List Nat) (hn : ids.Nodup) (a : Nat) (ha : a ∈ ids) (c : Nat → Int) :
    (ids.map fun v => if a = v then c v else 0).sum = c a := by
  induction ids with
  | nil => simp at ha
  | cons x ids ih =>
    rw [List.nodup_cons] at hn
    rw [List.map_cons, List.sum_cons]
    by_cases h : a = x
    · subst h
      have : (ids.map fun v => if a = v then c v else 0) = ids.map fun _ => (0 : Int) := by
        apply List.map_congr_left; intro v hv
        have : a ≠ v := fun e => hn.1 (e ▸ hv)
        simp [this]
      rw [this]; simp
    · have ha' : a ∈ ids := by
        rcases List.mem_cons.1 ha with h' | h'
        · exact absurd h' h
        · exact h'
      rw [if_neg h, ih hn.2 ha']; simp

set_option linter.unusedSimpArgs false in
/-- Double counting over the edge list: the pairs (`P`-node, `Q`-neighbour) are the pairs
(`Q`-node, `P`-neighbour). -/
theorem double_count (ids : List Nat) (hn : ids.Nodup) (P Q : Nat → Bool)
    (E : List (Nat × Nat × Attrs)) (hE : ∀ e ∈ E, e.1 ∈ ids ∧ e.2.1 ∈ ids ∧ e.1 ≠ e.2.1) :
    (ids.map fun v => if P v then (((nbrsOf E v).filter Q).length : Int) else 0).sum =
      (ids.map fun v => if Q v then (((nbrsOf E v).filter P).length : Int) else 0).sum := by
  induction E with
  | nil => simp [nbrsOf]
  | cons e E ih =>
    have he := hE e List.mem_cons_self
    have ih' := ih (fun x hx => hE x (List.mem_cons_of_mem _ hx))
    have hne : e.1 ≠ e.2.1 := he.2.2
    have key : ∀ (A B : Nat → Bool),
        (ids.map fun v => if A v then (((nbrsOf (e :: E) v).filter B).length : Int) else 0).sum =
          ((if A e.1 && B e.2.1 then 1 else 0) + (if A e.2.1 && B e.1 then 1 else 0)) +
          (ids.map fun v => if A v then (((nbrsOf E v).filter B).length : Int) else 0).sum := by
      intro A B
      have h1 : (ids.map fun v => if A v then (((nbrsOf (e :: E) v).filter B).length : Int) else 0) =
          ids.map fun v =>
            (((if e.1 = v then (if A v && B e.2.1 then 1 else 0) else 0) +
              (if e.2.1 = v then (if A v && B e.1 then 1 else 0) else 0)) +
            (if A v then (((nbrsOf E v).filter B).length : Int) else 0)) := by
        apply List.map_congr_left
        intro v _
        rw [nbrsOf_cons, List.filter_append, List.length_append]
        by_cases h1 : e.1 = v
        · have h2 : ¬ e.2.1 = v := fun h => hne (h1.trans h.symm)
          cases hA : A v <;> cases hB : B e.2.1 <;> simp [h1, h2, hA, hB, List.filter_cons]
        · by_cases h2 : e.2.1 = v
          · cases hA : A v <;> cases hB : B e.1 <;> simp [h1, h2, hA, hB, List.filter_cons]
          · simp [h1, h2]
      rw [h1, List.sum_map_add, List.sum_map_add,
        sum_single ids hn e.1 he.1 (fun v => if A v && B e.2.1 then 1 else 0),
        sum_single ids hn e.2.1 he.2.1 (fun v => if A v && B e.1 then 1 else 0)]
    rw [key P Q, key Q P, ih']
    congr 1
    cases P e.1 <;> cases P e.2.1 <;> cases Q e.1 <;> cases Q e.2.1 <;> simp

/-! ## (C) Closed form of the result -/

theorem mem_pres (g : LGraph) (hn : g.ids.Nodup) (K : List Nat) (v : Nat) :
    v ∈ pres g K ↔ v ∈ g.ids ∧ keepsH K (g.attrs v) = true := by
  unfold pres
  simp only [List.mem_map, List.mem_filter]
  constructor
  · rintro ⟨p, ⟨hp, hk⟩, rfl⟩
    exact ⟨List.mem_map.2 ⟨p, hp, rfl⟩, by rw [attrs_eq_of_mem g hn p hp]; exact hk⟩
  · rintro ⟨hv, hk⟩
    exact ⟨(v, g.attrs v), ⟨attrs_mem g v hv, hk⟩, rfl⟩

theorem pres_nodup (g : LGraph) (hn : g.ids.Nodup) (K : List Nat) : (pres g K).Nodup := by
  unfold pres
  exact List.Nodup.sublist (List.Sublist.map _ List.filter_sublist) hn

theorem isH_of_mem_pres (g : LGraph) (hn : g.ids.Nodup) (K : List Nat) (v : Nat) (h : v ∈ pres g K) :
    isH (g.attrs v) = true := by
  have := ((mem_pres g hn K v).1 h).2
  unfold keepsH at this
  exact (Bool.and_eq_true_iff.1 this).1

theorem isH_attrs_g1of (g : LGraph) (n : Nat) : isH ((g1of g).attrs n) = isH (g.attrs n) := by
  rw [attrs_eq_attrsOf, attrs_eq_attrsOf]
  exact isH_attrsOf_map g.nodes (F1 g) (F1_fst g) (isH_F1 g) n

theorem decTargets_g1of (g : LGraph) (P : List Nat) : decTargets (g1of g) P = decTargets g P := by
  unfold decTargets
  apply List.flatMap_congr
  intro x _
  apply List.filter_congr
  intro m _
  rw [isH_attrs_g1of]

/-- how often a heavy atom `v` is decremented: once per preserved hydrogen neighbour. -/
theorem count_decTargets (g : LGraph) (P : List Nat) (hP : P.Nodup) (v : Nat)
    (hv : isH (g.attrs v) = false) :
    (decTargets g P).count v = ((g.neighbors v).filter fun n => P.contains n).length := by
  unfold decTargets
  rw [List.count_flatMap, ← sum_count P hP]
  congr 1
  apply List.map_congr_left
  intro h _
  simp only [Function.comp]
  rw [List.count_filter (by simp [hv]), neighbors_eq, neighbors_eq, count_nbrs_symm]

theorem count_decTargets_H (g : LGraph) (P : List Nat) (v : Nat) (hv : isH (g.attrs v) = true) :
    (decTargets g P).count v = 0 := by
  rw [List.count_eq_zero]
  unfold decTargets
  intro hmem
  obtain ⟨h, _, hm⟩ := List.mem_flatMap.1 hmem
  have := (List.mem_filter.1 hm).2
  simp [hv] at this

/-- per-node effect of `implicit_hydrogen` on a node that stays. -/
def Ffin (g : LGraph) (K : List Nat) (p : Nat × Attrs) : Nat × Attrs :=
  if isH p.2 then p else (p.1, Dict.set p.2 "hcount" (.num (hraw p.2 + 2 * (folded g K p.1 : Int))))

theorem Ffin_fst (g : LGraph) (K : List Nat) (p : Nat × Attrs) : (Ffin g K p).1 = p.1 := by
  unfold Ffin; split <;> rfl

theorem isH_Ffin (g : LGraph) (K : List Nat) (p : Nat × Attrs) : isH (Ffin g K p).2 = isH p.2 := by
  unfold Ffin; split
  · rfl
  · exact isH_set_hcount _ _

/-- a neighbour of a heavy atom has a heavy neighbour. -/
theorem hasHeavyNbr_of_nbr_heavy (g : LGraph) (v n : Nat) (hv : isH (g.attrs v) = false)
    (hn : n ∈ g.neighbors v) : hasHeavyNbr g n = true := by
  unfold hasHeavyNbr
  rw [List.any_eq_true]
  refine ⟨v, ?_, by simp [hv]⟩
  rw [neighbors_eq] at hn ⊢
  have h1 : 0 < (nbrsOf g.edges v).count n := List.count_pos_iff.2 hn
  rw [count_nbrs_symm] at h1
  exact List.count_pos_iff.1 h1

/-- the hydrogen neighbours of a *heavy* atom are its preserved ones and its removed ones. -/
theorem nH_sub (g : LGraph) (hn : g.ids.Nodup) (K : List Nat) (v : Nat) (hv : isH (g.attrs v) = false) :
    ((g.neighbors v).filter fun n => isH (g.attrs n)).length =
      ((g.neighbors v).filter fun n => (pres g K).contains n).length + folded g K v := by
  rw [filter_split (fun n => isH (g.attrs n)) (fun n => (pres g K).contains n)]
  unfold folded
  congr 1
  · congr 1
    apply List.filter_congr
    intro n _
    by_cases h : n ∈ pres g K
    · simp [h, isH_of_mem_pres g hn K n h]
    · simp [h]
  · congr 1
    apply List.filter_congr
    intro n hnv
    unfold goes
    rw [hasHeavyNbr_of_nbr_heavy g v n hv hnv, Bool.and_true]

theorem g2_nodes (g : LGraph) (hn : g.ids.Nodup) (K : List Nat) :
    (g2of (g1of g) (pres g K)).nodes = g.nodes.map (Ffin g K) := by
  rw [g2of_eq, decTargets_g1of]
  show decAll (g.nodes.map (F1 g)) (decTargets g (pres g K)) = _
  rw [decAll_eq, List.map_map]
  apply List.map_congr_left
  intro p hp
  have hattr := attrs_eq_of_mem g hn p hp
  simp only [Function.comp, F1_fst]
  by_cases hH : isH p.2 = true
  · have h0 : (decTargets g (pres g K)).count p.1 = 0 :=
      count_decTargets_H g _ p.1 (by rw [hattr]; exact hH)
    simp [h0, F1, Ffin, hH, decN]
  · simp only [Bool.not_eq_true] at hH
    have hc := count_decTargets g (pres g K) (pres_nodup g hn K) p.1 (by rw [hattr]; exact hH)
    have hs := nH_sub g hn K p.1 (by rw [hattr]; exact hH)
    simp only [F1, Ffin, hH, Bool.false_eq_true, if_false, decN_set, hc, nHof]
    congr 3
    rw [hs]; push_cast; ring

theorem isH_attrs_g2 (g : LGraph) (hn : g.ids.Nodup) (K : List Nat) (n : Nat) :
    isH ((g2of (g1of g) (pres g K)).attrs n) = isH (g.attrs n) := by
  rw [attrs_eq_attrsOf, attrs_eq_attrsOf, g2_nodes g hn K]
  exact isH_attrsOf_map g.nodes (Ffin g K) (Ffin_fst g K) (isH_Ffin g K) n

theorem g2_edges (g : LGraph) (K : List Nat) : (g2of (g1of g) (pres g K)).edges = g.edges := by
  rw [g2of_eq]; rfl

theorem hasHeavyNbr_g2 (g : LGraph) (hn : g.ids.Nodup) (K : List Nat) (v : Nat) :
    hasHeavyNbr (g2of (g1of g) (pres g K)) v = hasHeavyNbr g v := by
  unfold hasHeavyNbr LGraph.neighbors
  rw [g2_edges]
  simp only [isH_attrs_g2 g hn K]

/-- **Closed form, nodes.** -/
theorem implicitH_nodes (g : LGraph) (hn : g.ids.Nodup) (K : List Nat) :
    (implicitHydrogen g K).nodes =
      (g.nodes.filter fun p =>
        !(isH p.2 && !((pres g K).contains p.1) && hasHeavyNbr g p.1)).map (Ffin g K) := by
  rw [implicitHydrogen_eq, presRaw_g1of]
  show (g2of (g1of g) (pres g K)).nodes.filter _ = _
  simp only [hasHeavyNbr_g2 g hn K]
  rw [g2_nodes g hn K, List.filter_map]
  congr 1
  apply List.filter_congr
  intro p _
  simp only [Function.comp, isH_Ffin, Ffin_fst]

/-- **Closed form, edges.** -/
theorem implicitH_edges (g : LGraph) (hn : g.ids.Nodup) (K : List Nat) :
    (implicitHydrogen g K).edges = g.edges.filter fun e => stays g K e.1 && stays g K e.2.1 := by
  rw [implicitHydrogen_eq, presRaw_g1of]
  show (g2of (g1of g) (pres g K)).edges.filter _ = _
  rw [g2_edges]
  apply List.filter_congr
  intro e _
  simp only [isH_attrs_g2 g hn K, hasHeavyNbr_g2 g hn K, stays, goes]

theorem stays_of_mem (g : LGraph) (hn : g.ids.Nodup) (K : List Nat) (p : Nat × Attrs) (hp : p ∈ g.nodes) :
    (!(isH p.2 && !((pres g K).contains p.1) && hasHeavyNbr g p.1)) = stays g K p.1 := by
  unfold stays goes; rw [attrs_eq_of_mem g hn p hp]

/-- **Closed form, nodes** (filter written on node ids). -/
theorem implicitH_nodes' (g : LGraph) (hn : g.ids.Nodup) (K : List Nat) :
    (implicitHydrogen g K).nodes = (g.nodes.filter fun p => stays g K p.1).map (Ffin g K) := by
  rw [implicitH_nodes g hn K]
  congr 1
  apply List.filter_congr
  intro p hp
  exact stays_of_mem g hn K p hp

theorem implicitH_ids (g : LGraph) (hn : g.ids.Nodup) (K : List Nat) :
    (implicitHydrogen g K).ids = g.ids.filter (stays g K) := by
  unfold LGraph.ids
  rw [implicitH_nodes' g hn K, List.map_map, List.filter_map]
  apply List.map_congr_left
  intro p _
  exact Ffin_fst g K p

theorem mem_implicitH_ids (g : LGraph) (hn : g.ids.Nodup) (K : List Nat) (n : Nat) :
    n ∈ (implicitHydrogen g K).ids ↔ n ∈ g.ids ∧ stays g K n = true := by
  rw [implicitH_ids g hn K, List.mem_filter]

theorem implicitH_ids_nodup (g : LGraph) (hn : g.ids.Nodup) (K : List Nat) :
    (implicitHydrogen g K).ids.Nodup := by
  rw [implicitH_ids g hn K]; exact hn.sublist List.filter_sublist

theorem attrsOf_filter (g : LGraph) (hn : g.ids.Nodup) (c : Nat × Attrs → Bool) (n : Nat)
    (h : n ∈ (g.nodes.filter c).map (·.1)) : attrsOf (g.nodes.filter c) n = g.attrs n := by
  have h1 := attrs_mem (LGraph.mk (g.nodes.filter c) []) n h
  have h2 : (n, attrsOf (g.nodes.filter c) n) ∈ g.nodes := (List.mem_filter.1 h1).1
  exact (attrs_eq_of_mem g hn _ h2).symm

/-- attribute dict of a node of the result. -/
theorem implicitH_attrs (g : LGraph) (hn : g.ids.Nodup) (K : List Nat) (n : Nat)
    (h : n ∈ (implicitHydrogen g K).ids) :
    (implicitHydrogen g K).attrs n = (Ffin g K (n, g.attrs n)).2 := by
  have h' : n ∈ (g.nodes.filter fun p => stays g K p.1).map (·.1) := by
    unfold LGraph.ids at h
    rw [implicitH_nodes' g hn K, List.map_map] at h
    obtain ⟨p, hp, rfl⟩ := List.mem_map.1 h
    exact List.mem_map.2 ⟨p, hp, (Ffin_fst g K p).symm⟩
  rw [attrs_eq_attrsOf, implicitH_nodes' g hn K, attrsOf_map _ _ (Ffin_fst g K), if_pos h',
    attrsOf_filter g hn _ n h']

theorem hcnt_set (a : Attrs) (x : Int) : hcnt (Dict.set a "hcount" (.num x)) = x / 2 := by
  unfold hcnt; rw [hraw_set]

theorem hval_Ffin_heavy (g : LGraph) (K : List Nat) (p : Nat × Attrs) (h : isH p.2 = false) :
    hval (Ffin g K p) = hval p + folded g K p.1 := by
  unfold hval
  rw [isH_Ffin]
  simp only [Ffin, h, Bool.false_eq_true, if_false, hcnt_set]
  unfold hcnt; omega

theorem sum_map_filter {α} (c : α → Bool) (f : α → Int) (l : List α) :
    ((l.filter c).map f).sum = (l.map fun x => if c x then f x else 0).sum := by
  induction l with
  | nil => rfl
  | cons a l ih =>
    rw [List.filter_cons]
    cases h : c a <;> simp [ih, h]

theorem not_mem_pres_keepsH (g : LGraph) (hn : g.ids.Nodup) (K : List Nat) (p : Nat × Attrs)
    (hp : p ∈ g.nodes) (h : p.1 ∉ pres g K) : keepsH K p.2 = false := by
  by_contra hk
  simp only [Bool.not_eq_false] at hk
  apply h
  rw [mem_pres g hn K]
  exact ⟨List.mem_map.2 ⟨p, hp, rfl⟩, by rw [attrs_eq_of_mem g hn p hp]; exact hk⟩

/-- **(1) `implicit_hydrogen` keeps the total number of hydrogens** under `FoldGuard`. -/
theorem totalH_implicitH (g : LGraph) (hwf : g.WF) (K : List Nat) (hg : FoldGuard g K) :
    totalH (implicitHydrogen g K) = totalH g := by
  have hn := hwf.1
  rw [totalH_eq, totalH_eq, implicitH_nodes' g hn K, List.map_map, sum_map_filter]
  -- pointwise balance
  have hpt : ∀ p ∈ g.nodes,
      (if stays g K p.1 then (hval ∘ Ffin g K) p else 0) +
        (if goes g K p.1 then ((((g.neighbors p.1).filter fun n => !(isH (g.attrs n))).length : Nat) : Int) else 0) =
      hval p + (if !(isH (g.attrs p.1)) then (folded g K p.1 : Int) else 0) := by
    intro p hp
    have hattr := attrs_eq_of_mem g hn p hp
    by_cases hH : isH p.2 = true
    · by_cases hk : p.1 ∈ pres g K
      · simp [stays, goes, hattr, hH, hk, Ffin]
      · have hk' := not_mem_pres_keepsH g hn K p hp hk
        cases hhv : hasHeavyNbr g p.1 with
        | false => simp [stays, goes, hattr, hH, hk, hhv, Ffin]
        | true =>
          obtain ⟨h0, h1⟩ := hg p hp hH hk' ((hasHeavyNbr_iff g p.1).1 hhv)
          unfold heavyNbrs at h1
          simp [stays, goes, hattr, hH, hk, hhv, h1, hval, h0]
    · simp only [Bool.not_eq_true] at hH
      simp [stays, goes, hattr, hH, hval_Ffin_heavy g K p hH]
  have hsum := congrArg List.sum (List.map_congr_left hpt)
  rw [List.sum_map_add, List.sum_map_add] at hsum
  have hdc := double_count g.ids hn (fun n => !(isH (g.attrs n))) (goes g K) g.edges hwf.2.1
  have e1 : (g.nodes.map fun p => if goes g K p.1 then
      ((((g.neighbors p.1).filter fun n => !(isH (g.attrs n))).length : Nat) : Int) else 0) =
      g.ids.map fun v => if goes g K v then
        ((((nbrsOf g.edges v).filter fun n => !(isH (g.attrs n))).length : Nat) : Int) else 0 := by
    unfold LGraph.ids; rw [List.map_map]; rfl
  have e2 : (g.nodes.map fun p => if !(isH (g.attrs p.1)) then (folded g K p.1 : Int) else 0) =
      g.ids.map fun v => if (fun n => !(isH (g.attrs n))) v then
        ((((nbrsOf g.edges v).filter (goes g K)).length : Nat) : Int) else 0 := by
    unfold LGraph.ids; rw [List.map_map]; rfl
  rw [e1, e2, hdc] at hsum
  omega

/-! ### edges of the result -/

theorem find?_and_of_imp {α} (p q : α → Bool) (xs : List α) (h : ∀ a ∈ xs, q a = true → p a = true) :
    xs.find? (fun a => decide (p a = true ∧ q a = true)) = xs.find? q := by
  induction xs with
  | nil => rfl
  | cons a xs ih =>
    have ih' := ih (fun b hb => h b (List.mem_cons_of_mem _ hb))
    rw [List.find?_cons, List.find?_cons, ih']
    cases hq : q a
    · simp
    · simp [h a List.mem_cons_self hq]

theorem stays_pair_of_ematch (g : LGraph) (K : List Nat) (u v : Nat) (e : Nat × Nat × Attrs)
    (h : ematch u v e = true) :
    (stays g K e.1 && stays g K e.2.1) = (stays g K u && stays g K v) := by
  rcases (ematch_iff _ _ _).1 h with ⟨h1, h2⟩ | ⟨h1, h2⟩
  · rw [h1, h2]
  · rw [h1, h2, Bool.and_comm]

/-- **Closed form, edge look-up**: bonds between nodes that stay are unchanged (whole attribute
dict), every other bond is gone, no bond is created. -/
theorem implicitH_edge? (g : LGraph) (hn : g.ids.Nodup) (K : List Nat) (u v : Nat) :
    (implicitHydrogen g K).edge? u v =
      if stays g K u && stays g K v then g.edge? u v else none := by
  rw [edge?_eq, implicitH_edges g hn K, List.find?_filter]
  by_cases h : (stays g K u && stays g K v) = true
  · rw [if_pos h, edge?_eq, find?_and_of_imp]
    intro e _ hm
    rw [stays_pair_of_ematch g K u v e hm]; exact h
  · rw [if_neg h, Option.map_eq_none_iff, List.find?_eq_none]
    intro e _ hc
    simp only [decide_eq_true_eq] at hc
    rw [stays_pair_of_ematch g K u v e hc.2] at hc
    exact h hc.1

/-! ## (D) The result depends only on the labelled graph -/

theorem mem_nbrsOf_iff (E : List (Nat × Nat × Attrs)) (v x : Nat) :
    x ∈ nbrsOf E v ↔ ∃ e ∈ E, ematch v x e = true := by
  constructor
  · intro h
    obtain ⟨e, he, h'⟩ := mem_nbrsOf E v x h
    refine ⟨e, he, (ematch_iff _ _ _).2 ?_⟩
    rcases h' with ⟨h1, h2⟩ | ⟨h1, h2⟩
    · exact Or.inl ⟨h1, h2⟩
    · exact Or.inr ⟨h2, h1⟩
  · rintro ⟨e, he, hm⟩
    unfold nbrsOf
    rw [List.mem_filterMap]
    refine ⟨e, he, ?_⟩
    rcases (ematch_iff _ _ _).1 hm with ⟨h1, h2⟩ | ⟨h1, h2⟩
    · simp [h1, h2]
    · by_cases h3 : e.1 = v
      · have : x = v := h1.symm.trans h3
        simp [h3, h2, this]
      · rw [if_neg h3, if_pos h2, h1]

theorem mem_neighbors_iff (g : LGraph) (v x : Nat) : x ∈ g.neighbors v ↔ g.hasEdge v x = true := by
  rw [neighbors_eq, mem_nbrsOf_iff, hasEdge_iff]

def npair (e : Nat × Nat × Attrs) : Nat × Nat := (min e.1 e.2.1, max e.1 e.2.1)

theorem npair_eq_of_ematch (u v : Nat) (e e' : Nat × Nat × Attrs) (h : ematch u v e = true)
    (h' : ematch u v e' = true) : npair e = npair e' := by
  have h1 := (ematch_iff _ _ _).1 h
  have h2 := (ematch_iff _ _ _).1 h'
  simp only [npair, Prod.mk.injEq]
  omega

/-- in a graph without parallel edges a neighbour list has no repetition. -/
theorem nbrsOf_nodup (E : List (Nat × Nat × Attrs)) (hE : (E.map npair).Nodup) (v : Nat) :
    (nbrsOf E v).Nodup := by
  induction E with
  | nil => simp [nbrsOf]
  | cons e E ih =>
    rw [List.map_cons, List.nodup_cons] at hE
    rw [nbrsOf_cons]
    have hnot : ∀ x, ematch v x e = true → x ∉ nbrsOf E v := by
      intro x hm hx
      obtain ⟨e', he', hm'⟩ := (mem_nbrsOf_iff E v x).1 hx
      apply hE.1
      rw [npair_eq_of_ematch v x e e' hm hm']
      exact List.mem_map.2 ⟨e', he', rfl⟩
    by_cases h1 : e.1 = v
    · rw [if_pos h1, List.singleton_append, List.nodup_cons]
      exact ⟨hnot _ ((ematch_iff _ _ _).2 (Or.inl ⟨h1, rfl⟩)), ih hE.2⟩
    · rw [if_neg h1]
      by_cases h2 : e.2.1 = v
      · rw [if_pos h2, List.singleton_append, List.nodup_cons]
        exact ⟨hnot _ ((ematch_iff _ _ _).2 (Or.inr ⟨rfl, h2⟩)), ih hE.2⟩
      · rw [if_neg h2, List.nil_append]; exact ih hE.2

theorem neighbors_nodup (g : LGraph) (hwf : g.WF) (v : Nat) : (g.neighbors v).Nodup :=
  nbrsOf_nodup g.edges hwf.2.2 v

/-- Equality of labelled graphs (the body of `SynKit.ITS.MolEq`): same atoms, same
(element, aromatic, hcount, charge, atom_map) on every atom, same bonds with the same order. -/
def SameMol (A B : LGraph) : Prop :=
  (∀ n, n ∈ A.ids ↔ n ∈ B.ids) ∧
  (∀ n ∈ A.ids, ∀ k ∈ SynKit.ITS.molKeys, (A.attrs n).get k = (B.attrs n).get k) ∧
  (∀ u v, (A.edge? u v).map (·.get "order") = (B.edge? u v).map (·.get "order"))

def hrawV : Val → Int
  | .num h => h
  | _ => 0

def atomMapV : Val → Option Nat
  | .num h => if h % 2 = 0 ∧ h ≥ 0 then some (h / 2).toNat else none
  | _ => none

theorem hraw_eq_get (a : Attrs) : hraw a = hrawV (a.get "hcount") := by
  unfold hraw Attrs.get Dict.getD
  cases h : Dict.get? a "hcount" with
  | none => rfl
  | some v => cases v <;> rfl

theorem atomMapOf_eq_get (a : Attrs) : atomMapOf a = atomMapV (a.get "atom_map") := by
  unfold atomMapOf Attrs.get Dict.getD
  cases h : Dict.get? a "atom_map" with
  | none => rfl
  | some v => cases v <;> rfl

theorem isH_eq_get (a : Attrs) : isH a = decide (a.get "element" = .str "H") := rfl

theorem attrs_nil_of_not_mem (g : LGraph) (n : Nat) (h : n ∉ g.ids) : g.attrs n = [] := by
  unfold LGraph.attrs
  have : g.nodes.find? (fun p => decide (p.1 = n)) = none := by
    rw [List.find?_eq_none]; intro p hp hpn
    exact h (List.mem_map.2 ⟨p, hp, by simpa using hpn⟩)
  rw [this]

section Congr
variable {A B : LGraph} (hAB : SameMol A B)
include hAB

theorem SameMol.get_eq (n : Nat) (k : String) (hk : k ∈ SynKit.ITS.molKeys) :
    (A.attrs n).get k = (B.attrs n).get k := by
  by_cases h : n ∈ A.ids
  · exact hAB.2.1 n h k hk
  · rw [attrs_nil_of_not_mem A n h, attrs_nil_of_not_mem B n (fun h' => h ((hAB.1 n).2 h'))]

theorem SameMol.isH_eq (n : Nat) : isH (A.attrs n) = isH (B.attrs n) := by
  rw [isH_eq_get, isH_eq_get, hAB.get_eq n "element" (by decide)]

theorem SameMol.hraw_eq (n : Nat) : hraw (A.attrs n) = hraw (B.attrs n) := by
  rw [hraw_eq_get, hraw_eq_get, hAB.get_eq n "hcount" (by decide)]

theorem SameMol.keepsH_eq (K : List Nat) (n : Nat) : keepsH K (A.attrs n) = keepsH K (B.attrs n) := by
  unfold keepsH
  rw [hAB.isH_eq n, atomMapOf_eq_get, atomMapOf_eq_get, hAB.get_eq n "atom_map" (by decide)]

theorem SameMol.pres_eq (hA : A.ids.Nodup) (hB : B.ids.Nodup) (K : List Nat) (n : Nat) :
    (pres A K).contains n = (pres B K).contains n := by
  rw [Bool.eq_iff_iff, List.contains_iff_mem, List.contains_iff_mem, mem_pres A hA, mem_pres B hB,
    hAB.1 n, hAB.keepsH_eq K n]

theorem SameMol.hasEdge_eq (u v : Nat) : A.hasEdge u v = B.hasEdge u v := by
  have := congrArg Option.isSome (hAB.2.2 u v)
  simpa [LGraph.hasEdge] using this

theorem SameMol.neighbors_perm (hA : A.WF) (hB : B.WF) (v : Nat) :
    (A.neighbors v).Perm (B.neighbors v) := by
  rw [List.perm_ext_iff_of_nodup (neighbors_nodup A hA v) (neighbors_nodup B hB v)]
  intro x
  rw [mem_neighbors_iff, mem_neighbors_iff, hAB.hasEdge_eq]

theorem SameMol.heavyNbrs_eq (hA : A.WF) (hB : B.WF) (v : Nat) : heavyNbrs A v = heavyNbrs B v := by
  unfold heavyNbrs
  have : (fun n => !(isH (A.attrs n))) = fun n => !(isH (B.attrs n)) := by
    funext n; rw [hAB.isH_eq n]
  rw [this]
  exact ((hAB.neighbors_perm hA hB v).filter _).length_eq

theorem SameMol.hasHeavyNbr_eq (hA : A.WF) (hB : B.WF) (v : Nat) : hasHeavyNbr A v = hasHeavyNbr B v := by
  rw [Bool.eq_iff_iff, hasHeavyNbr_iff, hasHeavyNbr_iff, hAB.heavyNbrs_eq hA hB v]

theorem SameMol.goes_eq (hA : A.WF) (hB : B.WF) (K : List Nat) (n : Nat) :
    goes A K n = goes B K n := by
  unfold goes; rw [hAB.isH_eq n, hAB.pres_eq hA.1 hB.1 K n, hAB.hasHeavyNbr_eq hA hB n]

theorem SameMol.stays_eq (hA : A.WF) (hB : B.WF) (K : List Nat) (n : Nat) :
    stays A K n = stays B K n := by
  unfold stays; rw [hAB.goes_eq hA hB K n]

theorem SameMol.folded_eq (hA : A.WF) (hB : B.WF) (K : List Nat) (v : Nat) :
    folded A K v = folded B K v := by
  unfold folded
  have : goes A K = goes B K := funext (hAB.goes_eq hA hB K)
  rw [this]
  exact ((hAB.neighbors_perm hA hB v).filter _).length_eq

end Congr

theorem get_set_hcount (a : Attrs) (x : Val) (k : String) :
    Attrs.get (Dict.set a "hcount" x) k = if k = "hcount" then x else Attrs.get a k := by
  by_cases h : k = "hcount"
  · subst h; simp [Attrs.get, Dict.getD, Dict.get?_set_self]
  · rw [if_neg h]; exact get_set_other a "hcount" k x h

/-- `.get` on the per-node result. -/
theorem Ffin_get (g : LGraph) (K : List Nat) (n : Nat) (k : String) :
    Attrs.get (Ffin g K (n, g.attrs n)).2 k =
      if isH (g.attrs n) = false ∧ k = "hcount"
      then .num (hraw (g.attrs n) + 2 * (folded g K n : Int)) else Attrs.get (g.attrs n) k := by
  unfold Ffin
  by_cases h : isH (g.attrs n) = true
  · simp [h]
  · simp only [Bool.not_eq_true] at h
    simp only [h, Bool.false_eq_true, if_false, get_set_hcount, true_and]

/-- **Congruence.** On simple graphs `implicit_hydrogen` respects equality of labelled graphs. -/
theorem implicitH_congr (A B : LGraph) (hAB : SameMol A B) (hA : A.WF) (hB : B.WF) (K : List Nat) :
    SameMol (implicitHydrogen A K) (implicitHydrogen B K) := by
  refine ⟨?_, ?_, ?_⟩
  · intro n
    rw [mem_implicitH_ids A hA.1, mem_implicitH_ids B hB.1, hAB.1 n, hAB.stays_eq hA hB K n]
  · intro n hn k hk
    have hn' : n ∈ (implicitHydrogen B K).ids := by
      rw [mem_implicitH_ids A hA.1] at hn
      rw [mem_implicitH_ids B hB.1, ← hAB.1 n, ← hAB.stays_eq hA hB K n]; exact hn
    rw [implicitH_attrs A hA.1 K n hn, implicitH_attrs B hB.1 K n hn', Ffin_get, Ffin_get,
      hAB.isH_eq n, hAB.hraw_eq n, hAB.folded_eq hA hB K n, hAB.get_eq n k hk]
  · intro u v
    rw [implicitH_edge? A hA.1, implicitH_edge? B hB.1, hAB.stays_eq hA hB K u,
      hAB.stays_eq hA hB K v]
    split
    · exact hAB.2.2 u v
    · rfl

/-- the hydrogen total is a function of the labelled graph. -/
theorem totalH_congr (A B : LGraph) (hAB : SameMol A B) (hA : A.ids.Nodup) (hB : B.ids.Nodup) :
    totalH A = totalH B := by
  have h1 : ∀ g : LGraph, g.ids.Nodup → totalH g = (g.ids.map fun v => hval (v, g.attrs v)).sum := by
    intro g hg
    rw [totalH_eq]
    unfold LGraph.ids
    rw [List.map_map]
    congr 1
    apply List.map_congr_left
    intro p hp
    simp only [Function.comp]
    rw [attrs_eq_of_mem g hg p hp]
  rw [h1 A hA, h1 B hB]
  have hperm : A.ids.Perm B.ids := (List.perm_ext_iff_of_nodup hA hB).2 hAB.1
  have hf : (A.ids.map fun v => hval (v, A.attrs v)) = A.ids.map fun v => hval (v, B.attrs v) := by
    apply List.map_congr_left
    intro v _
    unfold hval hcnt
    simp only [hAB.isH_eq v, hAB.hraw_eq v]
  rw [hf]
  exact (hperm.map _).sum_eq

/-- `FoldGuard` is a property of the labelled graph. -/
theorem foldGuard_congr (A B : LGraph) (hAB : SameMol A B) (hA : A.WF) (hB : B.WF) (K : List Nat)
    (h : FoldGuard B K) : FoldGuard A K := by
  intro p hp hH hk hhv
  have hattr := attrs_eq_of_mem A hA.1 p hp
  have hid : p.1 ∈ B.ids := (hAB.1 p.1).1 (List.mem_map.2 ⟨p, hp, rfl⟩)
  have hq := attrs_mem B p.1 hid
  have := h _ hq (by rw [← hAB.isH_eq, hattr]; exact hH) (by rw [← hAB.keepsH_eq, hattr]; exact hk)
    (by rw [← hAB.heavyNbrs_eq hA hB]; exact hhv)
  simp only at this
  refine ⟨?_, ?_⟩
  · have h0 := this.1
    unfold hcnt at h0 ⊢
    rw [← hAB.hraw_eq, hattr] at h0; exact h0
  · rw [hAB.heavyNbrs_eq hA hB]; exact this.2

/-! ## The two sides `its_decompose` returns for a constructed ITS graph are simple graphs -/

theorem nodup_map_filterMap {α β γ : Type} (f : α → Option β) (k : α → γ) (k' : β → γ) (l : List α)
    (hk : ∀ x y, f x = some y → k' y = k x) (h : (l.map k).Nodup) :
    ((l.filterMap f).map k').Nodup := by
  induction l with
  | nil => simp
  | cons a l ih =>
    rw [List.map_cons, List.nodup_cons] at h
    rw [List.filterMap_cons]
    cases hfa : f a with
    | none => exact ih h.2
    | some y =>
      simp only [List.map_cons, List.nodup_cons]
      refine ⟨?_, ih h.2⟩
      intro hmem
      obtain ⟨y', hy', hky⟩ := List.mem_map.1 hmem
      obtain ⟨x', hx', hfx⟩ := List.mem_filterMap.1 hy'
      apply h.1
      rw [← hk a y hfa, ← hky, hk x' y' hfx]
      exact List.mem_map.2 ⟨x', hx', rfl⟩

open SynKit.ITS in
theorem decompose_side_wf (o : Opts) (G H S g : LGraph) (hG : G.WF) (hH : H.WF)
    (hnodes : g.nodes = sideNodes S (rawOf o G H)) (hedges : g.edges = sideEdges S (pairsOf G H)) :
    g.WF := by
  have hids : g.ids = (construct o G H).ids := by
    unfold LGraph.ids at *
    rw [hnodes, sideNodes_ids]
    have := construct_ids_eq o G H
    unfold LGraph.ids at this
    exact this.symm
  have hC := construct_wf' o G H hG hH
  refine ⟨by rw [hids]; exact hC.1, ?_, ?_⟩
  · intro e he
    rw [hedges] at he
    obtain ⟨p, hp, _, rfl⟩ := (mem_sideEdges S _ e).1 he
    have hpe : (p.1, p.2, itsF o G H p.1 p.2) ∈ (construct o G H).edges := by
      rw [construct_edges_eq]; exact List.mem_map.2 ⟨p, hp, rfl⟩
    rw [hids]
    exact hC.2.1 (p.1, p.2, itsF o G H p.1 p.2) hpe
  · rw [hedges]
    unfold sideEdges
    have h3 := hC.2.2
    rw [construct_edges_eq, List.map_map] at h3
    refine nodup_map_filterMap _ _ _ _ ?_ h3
    intro x y hxy
    by_cases hp : positive (orderOf S x.1 x.2) = true
    · simp only [hp, if_true, Option.some.injEq] at hxy
      subst hxy; rfl
    · simp [hp] at hxy

open SynKit.ITS in
theorem decompose_construct_wf (o : Opts) (G H : LGraph) (hG : G.WF) (hH : H.WF) :
    (decompose (construct o G H)).1.WF ∧ (decompose (construct o G H)).2.WF :=
  ⟨decompose_side_wf o G H G _ hG hH (decompose_construct_nodes1 o G H hG hH)
      (decompose_construct_edges1 o G H),
   decompose_side_wf o G H H _ hG hH (decompose_construct_nodes2 o G H hG hH)
      (decompose_construct_edges2 o G H)⟩

/-! ## Statements used by the property theorems -/

theorem isH_nil : isH ([] : Attrs) = false := by decide

/-- `stays` read off the attribute dict and the neighbourhood: a heavy atom, a preserved hydrogen,
or a node without heavy neighbour. -/
theorem stays_iff (g : LGraph) (hn : g.ids.Nodup) (K : List Nat) (u : Nat) :
    stays g K u = true ↔
      isH (g.attrs u) = false ∨ keepsH K (g.attrs u) = true ∨ hasHeavyNbr g u = false := by
  unfold stays goes
  rw [Bool.not_eq_true', Bool.and_eq_false_iff, Bool.and_eq_false_iff, Bool.not_eq_false',
    List.contains_iff_mem, mem_pres g hn K, or_assoc]
  by_cases hu : u ∈ g.ids
  · simp [hu]
  · have : isH (g.attrs u) = false := by rw [attrs_nil_of_not_mem g u hu]; exact isH_nil
    simp [this]

theorem goes_eq_not_stays (g : LGraph) (K : List Nat) (v : Nat) : goes g K v = !(stays g K v) := by
  unfold stays; rw [Bool.not_not]

/-- `goes` read off the attribute dict and the neighbourhood. -/
theorem not_stays_iff (g : LGraph) (hn : g.ids.Nodup) (K : List Nat) (u : Nat) :
    ¬ stays g K u = true ↔
      isH (g.attrs u) = true ∧ keepsH K (g.attrs u) = false ∧ hasHeavyNbr g u = true := by
  rw [stays_iff g hn K u, not_or, not_or]
  simp only [Bool.not_eq_false, Bool.not_eq_true]

theorem edge?_none_of_not_mem (g : LGraph) (hwf : g.WF) (u v : Nat) (h : u ∉ g.ids ∨ v ∉ g.ids) :
    g.edge? u v = none := by
  apply edge?_none_of
  intro e he
  have hE := hwf.2.1 e he
  cases hm : ematch u v e with
  | false => rfl
  | true =>
    exfalso
    rcases (ematch_iff _ _ _).1 hm with ⟨h1, h2⟩ | ⟨h1, h2⟩
    · rcases h with h | h
      · exact h (h1 ▸ hE.1)
      · exact h (h2 ▸ hE.2.1)
    · rcases h with h | h
      · exact h (h2 ▸ hE.2.1)
      · exact h (h1 ▸ hE.1)

theorem hasNode_implicitH (g : LGraph) (hn : g.ids.Nodup) (K : List Nat) (n : Nat) (h : n ∈ g.ids) :
    (implicitHydrogen g K).hasNode n = stays g K n := by
  rw [Bool.eq_iff_iff, hasNode_iff, mem_implicitH_ids g hn K]
  exact ⟨fun h' => h'.2, fun h' => ⟨h, h'⟩⟩

/-- every attribute other than `hcount` of a node that stays is untouched. -/
theorem implicitH_get?_other (g : LGraph) (hn : g.ids.Nodup) (K : List Nat) (n : Nat)
    (h : n ∈ (implicitHydrogen g K).ids) (k : String) (hk : k ≠ "hcount") :
    Dict.get? ((implicitHydrogen g K).attrs n) k = Dict.get? (g.attrs n) k := by
  rw [implicitH_attrs g hn K n h]
  unfold Ffin
  split
  · rfl
  · exact Dict.get?_set_other _ _ _ _ hk

/-- a hydrogen that stays (preserved, or without heavy neighbour) keeps its whole attribute dict. -/
theorem implicitH_attrs_H (g : LGraph) (hn : g.ids.Nodup) (K : List Nat) (n : Nat)
    (h : n ∈ (implicitHydrogen g K).ids) (hH : isH (g.attrs n) = true) :
    (implicitHydrogen g K).attrs n = g.attrs n := by
  rw [implicitH_attrs g hn K n h]
  simp [Ffin, hH]

/-- a heavy atom gets exactly its removed hydrogen neighbours added to its count. -/
theorem implicitH_hcnt_heavy (g : LGraph) (hwf : g.WF) (K : List Nat) (n : Nat) (h : n ∈ g.ids)
    (hH : isH (g.attrs n) = false) :
    hcnt ((implicitHydrogen g K).attrs n) =
      hcnt (g.attrs n) +
        (((g.neighbors n).filter fun m => !((implicitHydrogen g K).hasNode m)).length : Nat) := by
  have hst : stays g K n = true := by unfold stays goes; simp [hH]
  have hmem := (mem_implicitH_ids g hwf.1 K n).2 ⟨h, hst⟩
  rw [implicitH_attrs g hwf.1 K n hmem]
  have hf : ((g.neighbors n).filter fun m => !((implicitHydrogen g K).hasNode m)) =
      (g.neighbors n).filter (goes g K) := by
    apply List.filter_congr
    intro m hm
    have hm' : m ∈ g.ids := by
      obtain ⟨e, he, hme⟩ := (mem_nbrsOf_iff g.edges n m).1 hm
      have hE := hwf.2.1 e he
      rcases (ematch_iff _ _ _).1 hme with ⟨_, h2⟩ | ⟨h1, _⟩
      · exact h2 ▸ hE.2.1
      · exact h1 ▸ hE.1
    rw [hasNode_implicitH g hwf.1 K m hm', goes_eq_not_stays]
  rw [hf]
  simp only [Ffin, hH, Bool.false_eq_true, if_false, hcnt_set, folded]
  unfold hcnt; omega

end SynKit.Repr.ImplH
